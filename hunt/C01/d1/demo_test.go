package grpcgcp

// Demonstration for property C01 (affinity): gRPC calls PickResult.Done with an EMPTY
// balancer.DoneInfo (nil Err, BytesSent=false, BytesReceived=false) when the SubConn a
// picker returned turns out to have no ready transport, and then picks again
// (google.golang.org/grpc@v1.56.3 picker_wrapper.go:170-175; documented on
// balancer.PickResult.Done: "If the SubConn is not ready, this will be called with a
// nil parameter"). The Done callback of gcpPicker.Pick takes that notification for a
// successfully completed call: for an UNBIND method it removes the key from the affinity
// table although the UNBIND call was never sent.
//
// The test uses a real grpc.ClientConn and a real grpc.Server (no mocks of gRPC). The only
// instrumentation is a thin balancer wrapper that (a) records what every Pick returns and
// (b) lets the test kill the server side of the picked connection right after the
// gcpPicker returned it, i.e. in the window in which production connections die
// (GOAWAY / reset between Pick and stream creation).

import (
	"context"
	"encoding/json"
	"fmt"
	"net"
	"sync"
	"testing"
	"time"

	"google.golang.org/grpc"
	"google.golang.org/grpc/balancer"
	"google.golang.org/grpc/codes"
	"google.golang.org/grpc/connectivity"
	"google.golang.org/grpc/credentials/insecure"
	"google.golang.org/grpc/encoding"
	"google.golang.org/grpc/peer"
	"google.golang.org/grpc/serviceconfig"
	"google.golang.org/grpc/status"
)

// ---- a trivial message type and codec (the affinity key is the field "Key") ----

type c01Msg struct{ Key string }

type c01Codec struct{}

func (c01Codec) Name() string { return "c01demo" }
func (c01Codec) Marshal(v interface{}) ([]byte, error) {
	return []byte(v.(*c01Msg).Key), nil
}
func (c01Codec) Unmarshal(b []byte, v interface{}) error {
	v.(*c01Msg).Key = string(b)
	return nil
}

// ---- server: Bind echoes the key, Bound succeeds, Unbind always FAILS ----

type c01Server struct {
	mu       sync.Mutex
	bindPeer string // remote address of the connection the Bind call arrived on
	unbinds  int    // number of Unbind calls that reached the server
}

func (s *c01Server) handle(ctx context.Context, method string, in *c01Msg) (*c01Msg, error) {
	s.mu.Lock()
	defer s.mu.Unlock()
	switch method {
	case "Bind":
		if p, ok := peer.FromContext(ctx); ok {
			s.bindPeer = p.Addr.String()
		}
		return &c01Msg{Key: in.Key}, nil
	case "Unbind":
		s.unbinds++
		return nil, status.Error(codes.Internal, "unbind refused by the server")
	}
	return &c01Msg{}, nil
}

func c01Handler(method string) func(interface{}, context.Context, func(interface{}) error, grpc.UnaryServerInterceptor) (interface{}, error) {
	return func(srv interface{}, ctx context.Context, dec func(interface{}) error, _ grpc.UnaryServerInterceptor) (interface{}, error) {
		in := new(c01Msg)
		if err := dec(in); err != nil {
			return nil, err
		}
		return srv.(*c01Server).handle(ctx, method, in)
	}
}

var c01Desc = grpc.ServiceDesc{
	ServiceName: "demo.S",
	HandlerType: (*interface{})(nil),
	Methods: []grpc.MethodDesc{
		{MethodName: "Bind", Handler: c01Handler("Bind")},
		{MethodName: "Bound", Handler: c01Handler("Bound")},
		{MethodName: "Unbind", Handler: c01Handler("Unbind")},
		{MethodName: "Plain", Handler: c01Handler("Plain")},
	},
}

// c01Listener remembers the accepted connections and can hold back new ones (so that a
// channel that lost its connection stays CONNECTING until the test lets it reconnect).
type c01Listener struct {
	net.Listener
	mu    sync.Mutex
	conns map[string]net.Conn
	gate  chan struct{}
}

func (l *c01Listener) Accept() (net.Conn, error) {
	c, err := l.Listener.Accept()
	if err != nil {
		return nil, err
	}
	l.mu.Lock()
	l.conns[c.RemoteAddr().String()] = c
	gate := l.gate
	l.mu.Unlock()
	if gate != nil {
		<-gate
	}
	return c, nil
}

// ---- balancer wrapper: records picks, forwards everything to the real gcpBalancer ----

type c01Pick struct {
	method string
	sc     balancer.SubConn
	err    error
}

type c01Hooks struct {
	mu        sync.Mutex
	gb        *gcpBalancer
	picks     []c01Pick
	afterPick func(method string, sc balancer.SubConn) // runs once, after the gcpPicker returned
	scEvents  chan c01Event
}

type c01Event struct {
	sc balancer.SubConn
	st connectivity.State
}

type c01Builder struct {
	real balancer.Builder
	h    *c01Hooks
}

func (b *c01Builder) Name() string { return "grpc_gcp_c01demo" }
func (b *c01Builder) ParseConfig(j json.RawMessage) (serviceconfig.LoadBalancingConfig, error) {
	return b.real.(balancer.ConfigParser).ParseConfig(j)
}
func (b *c01Builder) Build(cc balancer.ClientConn, opt balancer.BuildOptions) balancer.Balancer {
	gb := b.real.Build(&c01CC{ClientConn: cc, h: b.h}, opt).(*gcpBalancer)
	b.h.mu.Lock()
	b.h.gb = gb
	b.h.mu.Unlock()
	return &c01Bal{Balancer: gb, h: b.h}
}

type c01CC struct {
	balancer.ClientConn
	h *c01Hooks
}

func (c *c01CC) UpdateState(s balancer.State) {
	s.Picker = &c01Picker{inner: s.Picker, h: c.h}
	c.ClientConn.UpdateState(s)
}

type c01Bal struct {
	balancer.Balancer
	h *c01Hooks
}

func (b *c01Bal) UpdateSubConnState(sc balancer.SubConn, st balancer.SubConnState) {
	b.Balancer.UpdateSubConnState(sc, st)
	select {
	case b.h.scEvents <- c01Event{sc, st.ConnectivityState}:
	default:
	}
}

type c01Picker struct {
	inner balancer.Picker
	h     *c01Hooks
}

func (p *c01Picker) Pick(info balancer.PickInfo) (balancer.PickResult, error) {
	res, err := p.inner.Pick(info) // the unchanged gcpPicker (or errPicker)
	p.h.mu.Lock()
	p.h.picks = append(p.h.picks, c01Pick{info.FullMethodName, res.SubConn, err})
	hook := p.h.afterPick
	if hook != nil && err == nil {
		p.h.afterPick = nil
	} else {
		hook = nil
	}
	p.h.mu.Unlock()
	if hook != nil {
		hook(info.FullMethodName, res.SubConn)
	}
	return res, err
}

func (h *c01Hooks) picksOf(method string, from int) []c01Pick {
	h.mu.Lock()
	defer h.mu.Unlock()
	var out []c01Pick
	for _, p := range h.picks[from:] {
		if p.method == method {
			out = append(out, p)
		}
	}
	return out
}

func (h *c01Hooks) numPicks() int {
	h.mu.Lock()
	defer h.mu.Unlock()
	return len(h.picks)
}

func TestDefectDemo(t *testing.T) {
	const K = "sessions/K"

	// Server.
	encoding.RegisterCodec(c01Codec{})
	rawLis, err := net.Listen("tcp", "127.0.0.1:0")
	if err != nil {
		t.Fatalf("listen: %v", err)
	}
	lis := &c01Listener{Listener: rawLis, conns: map[string]net.Conn{}}
	srvImpl := &c01Server{}
	srv := grpc.NewServer()
	srv.RegisterService(&c01Desc, srvImpl)
	go srv.Serve(lis)
	defer srv.Stop()

	// Client: a pool of exactly two channels, fallback disabled, the three affinity commands.
	h := &c01Hooks{scEvents: make(chan c01Event, 1024)}
	balancer.Register(&c01Builder{real: newBuilder(), h: h})
	cfg := `{"channelPool":{"minSize":2,"maxSize":2,"maxConcurrentStreamsLowWatermark":100},
	 "method":[
	  {"name":["/demo.S/Bind"],  "affinity":{"command":"BIND",  "affinityKey":"key"}},
	  {"name":["/demo.S/Bound"], "affinity":{"command":"BOUND", "affinityKey":"key"}},
	  {"name":["/demo.S/Unbind"],"affinity":{"command":"UNBIND","affinityKey":"key"}}]}`
	conn, err := grpc.Dial(
		rawLis.Addr().String(),
		grpc.WithTransportCredentials(insecure.NewCredentials()),
		grpc.WithDisableServiceConfig(),
		grpc.WithDefaultServiceConfig(fmt.Sprintf(`{"loadBalancingConfig":[{"grpc_gcp_c01demo":%s}]}`, cfg)),
		grpc.WithUnaryInterceptor(GCPUnaryClientInterceptor),
		grpc.WithStreamInterceptor(GCPStreamClientInterceptor),
		grpc.WithDefaultCallOptions(grpc.ForceCodec(c01Codec{})),
	)
	if err != nil {
		t.Fatalf("dial: %v", err)
	}
	defer conn.Close()

	call := func(method, key string) error {
		ctx, cancel := context.WithTimeout(context.Background(), 20*time.Second)
		defer cancel()
		return conn.Invoke(ctx, "/demo.S/"+method, &c01Msg{Key: key}, &c01Msg{})
	}
	waitFor := func(what string, cond func(gb *gcpBalancer) bool) {
		t.Helper()
		deadline := time.Now().Add(10 * time.Second)
		for time.Now().Before(deadline) {
			h.mu.Lock()
			gb := h.gb
			h.mu.Unlock()
			if gb != nil {
				gb.mu.Lock()
				ok := cond(gb)
				gb.mu.Unlock()
				if ok {
					return
				}
			}
			time.Sleep(5 * time.Millisecond)
		}
		t.Fatalf("setup: timed out waiting for %s", what)
	}
	allReady := func(gb *gcpBalancer) bool {
		n := 0
		for _, st := range gb.scStates {
			if st == connectivity.Ready {
				n++
			}
		}
		return n == 2
	}

	if err := call("Plain", ""); err != nil { // leaves idle mode, creates the pool
		t.Fatalf("setup: plain call: %v", err)
	}
	waitFor("two READY channels", allReady)

	// 1. A BIND call completes successfully and its response carries K.
	if err := call("Bind", K); err != nil {
		t.Fatalf("setup: Bind: %v", err)
	}
	bp := h.picksOf("/demo.S/Bind", 0)
	ch1 := bp[len(bp)-1].sc // the channel K is bound to
	srvImpl.mu.Lock()
	ch1Peer := srvImpl.bindPeer
	srvImpl.mu.Unlock()

	// Load on K's channel: an unbound call would now go to the other channel.
	h.gb.mu.Lock()
	ch1Ref := h.gb.scRefs[ch1]
	h.gb.mu.Unlock()
	for i := 0; i < 5; i++ {
		ch1Ref.streamsIncr()
	}

	// Sanity: K is bound, BOUND K goes to ch1 regardless of the load.
	n0 := h.numPicks()
	if err := call("Bound", K); err != nil {
		t.Fatalf("setup: Bound: %v", err)
	}
	if p := h.picksOf("/demo.S/Bound", n0); len(p) != 1 || p[0].sc != ch1 {
		t.Fatalf("setup: BOUND K was not placed on the channel of the BIND: %+v", p)
	}

	// 2. An UNBIND call for K is started. Right after the gcpPicker returned K's channel (which
	//    is READY at that moment), the connection of that channel dies. New connections are held
	//    back so that the channel stays CONNECTING until the test releases them.
	gate := make(chan struct{})
	h.mu.Lock()
	h.afterPick = func(method string, sc balancer.SubConn) {
		if method != "/demo.S/Unbind" || sc != ch1 {
			t.Errorf("setup: first pick of the UNBIND call: %s on %p, want /demo.S/Unbind on %p", method, sc, ch1)
			return
		}
		for len(h.scEvents) > 0 {
			<-h.scEvents
		}
		lis.mu.Lock()
		lis.gate = gate
		c := lis.conns[ch1Peer]
		lis.mu.Unlock()
		c.Close()
		// Wait until gRPC has noticed the loss (the transport is dropped before the balancer is told).
		deadline := time.After(10 * time.Second)
		for {
			select {
			case ev := <-h.scEvents:
				if ev.sc == ch1 && ev.st != connectivity.Ready {
					return
				}
			case <-deadline:
				t.Errorf("setup: the channel did not notice the closed connection")
				return
			}
		}
	}
	h.mu.Unlock()

	n1 := h.numPicks()
	unbindDone := make(chan error, 1)
	go func() { unbindDone <- call("Unbind", K) }()

	// With the property respected the UNBIND call now waits for ch1 (fallback is disabled), so
	// after a while let ch1 reconnect. On the unchanged tree the call is over long before.
	var unbindErr error
	select {
	case unbindErr = <-unbindDone:
		close(gate)
	case <-time.After(500 * time.Millisecond):
		close(gate)
		unbindErr = <-unbindDone
	}
	lis.mu.Lock()
	lis.gate = nil
	lis.mu.Unlock()

	// The UNBIND call FAILED (the server refuses every Unbind).
	if unbindErr == nil {
		t.Fatalf("setup: the Unbind call unexpectedly succeeded")
	}
	t.Logf("the UNBIND call for K failed as arranged: %v", unbindErr)

	for _, p := range h.picksOf("/demo.S/Unbind", n1) {
		if p.err == nil && p.sc != ch1 {
			t.Errorf("C01 violated: K is bound to channel %p and no UNBIND for K has completed, fallback is disabled, "+
				"but the UNBIND call carrying K was placed on channel %p (expected: told to wait for %p, never another channel)",
				ch1, p.sc, ch1)
		}
	}

	// 3. K's channel is READY again. The only UNBIND for K failed, so K must still be bound to ch1.
	waitFor("K's channel to be READY again", allReady)
	n2 := h.numPicks()
	if err := call("Bound", K); err != nil {
		t.Fatalf("Bound after the failed Unbind: %v", err)
	}
	bound := h.picksOf("/demo.S/Bound", n2)
	last := bound[len(bound)-1]
	if last.sc != ch1 {
		t.Errorf("C01 violated: BIND K completed on channel %p, the only UNBIND call for K failed (%v), the channel is READY, "+
			"but the most recently published picker placed a BOUND call carrying K on channel %p (expected %p: a failed UNBIND changes nothing)",
			ch1, unbindErr, last.sc, ch1)
	}
	h.gb.mu.Lock()
	_, stillBound := h.gb.affinityMap[K]
	h.gb.mu.Unlock()
	if !stillBound {
		t.Errorf("C01 violated: K is gone from the affinity table although no UNBIND call for K completed successfully " +
			"(gRPC reported the not-ready SubConn with Done(balancer.DoneInfo{}) and the picker took it for a successful UNBIND)")
	}
}
