package multiendpoint

import (
	"testing"
	"time"
)

// A negative RecoveryTimeout is accepted. newEndpoint treats it as "no recovery"
// (recoveryTimeout > 0 is false) but setEndpointAvailability treats it as "recovery enabled"
// (recoveryTimeout == 0 is false): the current endpoint is parked in the recovering state with a
// timer whose deadline is already in the past, and Current() keeps naming it after the call that
// reported it unavailable has returned, although its recovery window (of negative length) has
// already run out and another endpoint is available.
func TestDefectDemo(t *testing.T) {
	me := initWithDelays(t, []string{"a", "b"}, -time.Second, 0)

	me.SetEndpointAvailability("a", true)
	me.SetEndpointAvailability("b", true)
	if got, want := me.Current(), "a"; got != want {
		t.Fatalf("Current() = %q, want %q", got, want)
	}

	// "a" goes down. Its recovery window (-1s) is over the moment it starts.
	me.SetEndpointAvailability("a", false)

	if got, want := me.Current(), "b"; got != want {
		t.Errorf("RecoveryTimeout=-1s, no switching delay, current endpoint \"a\" reported unavailable while \"b\" is available: "+
			"Current() = %q when SetEndpointAvailability returned, want the highest-priority available endpoint %q "+
			"(state of \"a\": %v)", got, want, me.(*multiEndpoint).endpoints["a"].status)
	}

	// Only a later timer callback repairs it.
	advanceTime(t, 0)
	if got, want := me.Current(), "b"; got != want {
		t.Errorf("after firing the pending timers Current() = %q, want %q", got, want)
	}
}
