package multiendpoint

import "testing"

// An endpoint list that names the same endpoint twice (for example a list composed as
// "preferred region, global, fallback region" where preferred == fallback) is accepted by
// NewMultiEndpoint and SetEndpoints, but SetEndpoints/NewMultiEndpoint give the endpoint the
// priority of its LAST position, so it no longer ranks as the list's first endpoint.
func TestDefectDemo(t *testing.T) {
	// Part 1: current endpoint removed, nothing available -> must become the list's first endpoint.
	me := initPlain(t, []string{"x"})
	list := []string{"a", "b", "a"}
	if err := me.SetEndpoints(list); err != nil {
		t.Fatalf("SetEndpoints(%v) was rejected: %v", list, err)
	}
	if got, want := me.Current(), list[0]; got != want {
		t.Errorf("after SetEndpoints(%v) removed the current endpoint with no endpoint available: Current() = %q, want the list's first endpoint %q", list, got, want)
	}

	// Part 2: the highest-priority available endpoint must be current (no recovery, no switching delay).
	me2 := initPlain(t, list)
	if got, want := me2.Current(), "a"; got != want {
		t.Fatalf("Current() after init = %q, want %q", got, want)
	}
	me2.SetEndpointAvailability("a", true)
	me2.SetEndpointAvailability("b", true)
	if got, want := me2.Current(), "a"; got != want {
		t.Errorf("list %v, \"a\" and \"b\" both available: Current() = %q, want the highest-priority (first listed) available endpoint %q", list, got, want)
	}
}
