package grpcgcp

import (
	"context"
	"sync/atomic"
	"testing"

	"github.com/GoogleCloudPlatform/grpc-gcp-go/grpcgcp/mocks"
	"github.com/golang/mock/gomock"
	"google.golang.org/grpc/balancer"
	"google.golang.org/grpc/connectivity"
	"google.golang.org/grpc/resolver"

	pb "github.com/GoogleCloudPlatform/grpc-gcp-go/grpcgcp/grpc_gcp"
)

// TestDefectDemo: the round-robin cursor (gcpBalancer.rrRefId) is a uint32 that is
// reduced modulo the pool size on every BIND pick. When it wraps from 2^32-1 to 0 the
// cycle is broken for every pool size that does not divide 2^32 (3, 5, 6, 7, ...):
// with 3 channels (2^32-1)%3 == 0 and 0%3 == 0, so channel 0 gets two BIND calls in a
// row and some window of 3 consecutive BIND calls skips a channel.
func TestDefectDemo(t *testing.T) {
	mockCtrl := gomock.NewController(t)
	defer mockCtrl.Finish()

	const n = 3
	scs := []*mocks.MockSubConn{}
	mockCC := mocks.NewMockClientConn(mockCtrl)
	mockCC.EXPECT().UpdateState(gomock.Any()).AnyTimes()
	mockCC.EXPECT().NewSubConn(gomock.Any(), gomock.Any()).DoAndReturn(func(_, _ interface{}) (*mocks.MockSubConn, error) {
		newSC := mocks.NewMockSubConn(mockCtrl)
		newSC.EXPECT().Connect().AnyTimes()
		newSC.EXPECT().UpdateAddresses(gomock.Any()).AnyTimes()
		scs = append(scs, newSC)
		return newSC, nil
	}).Times(n)

	b := newBuilder().Build(mockCC, balancer.BuildOptions{}).(*gcpBalancer)
	b.UpdateClientConnState(balancer.ClientConnState{
		ResolverState: resolver.State{},
		BalancerConfig: &GCPBalancerConfig{
			ApiConfig: &pb.ApiConfig{
				ChannelPool: &pb.ChannelPoolConfig{
					MinSize:                          n,
					MaxSize:                          n,
					MaxConcurrentStreamsLowWatermark: 100,
					BindPickStrategy:                 pb.ChannelPoolConfig_ROUND_ROBIN,
				},
				Method: []*pb.MethodConfig{{
					Name: []string{"dummyService/createSession"},
					Affinity: &pb.AffinityConfig{
						Command:     pb.AffinityConfig_BIND,
						AffinityKey: "dummykey",
					},
				}},
			},
		},
	})
	if len(scs) != n {
		t.Fatalf("setup: %d SubConns created, want %d", len(scs), n)
	}
	// All channels READY for the whole test: the pool composition never changes and no pick waits.
	idx := map[balancer.SubConn]int{}
	for i, sc := range scs {
		idx[sc] = i
		b.UpdateSubConnState(sc, balancer.SubConnState{ConnectivityState: connectivity.Ready})
	}

	bind := func() int {
		pr, err := b.picker.Pick(balancer.PickInfo{FullMethodName: "dummyService/createSession", Ctx: context.Background()})
		if err != nil {
			t.Fatalf("BIND pick failed: %v", err)
		}
		pr.Done(balancer.DoneInfo{})
		i, ok := idx[pr.SubConn]
		if !ok {
			t.Fatalf("BIND pick returned an unknown SubConn %v", pr.SubConn)
		}
		return i
	}

	// Sanity: from the initial cursor the cycle is 0,1,2,0,1,2.
	for i := 0; i < 2*n; i++ {
		if got := bind(); got != i%n {
			t.Fatalf("setup: BIND call #%d went to channel %d, want %d", i, got, i%n)
		}
	}

	// Fast-forward: pretend 2^32-12 further BIND calls happened. Every BIND pick does exactly one
	// atomic.AddUint32(&rrRefId, 1) and nothing else in the balancer depends on the number of
	// calls made, so this is precisely the state after 2^32-6 BIND calls in total (the last of
	// them, cursor value 2^32-7, went to channel (2^32-7)%3 == 0).
	atomic.AddUint32(&b.rrRefId, ^uint32(0)-11) // += 2^32-12
	// The next 12 BIND calls cross the 2^32 boundary of the cursor.
	seq := []int{}
	for i := 0; i < 4*n; i++ {
		seq = append(seq, bind())
	}
	t.Logf("channels of 12 consecutive BIND calls around the cursor wrap-around: %v", seq)

	// Property: any n x k consecutive BIND calls over an unchanged n-channel pool put exactly k on
	// each channel. Check every window of n (k=1) consecutive calls.
	for s := 0; s+n <= len(seq); s++ {
		cnt := make([]int, n)
		for _, c := range seq[s : s+n] {
			cnt[c]++
		}
		for c, k := range cnt {
			if k != 1 {
				t.Fatalf("round-robin BIND is not cyclic: the %d consecutive BIND calls %v (calls #%d..#%d after the fast-forward) "+
					"put %d calls on channel %d, want exactly 1 on each of the %d channels of the unchanged pool; full sequence %v",
					n, seq[s:s+n], s, s+n-1, k, c, n, seq)
			}
		}
	}
}
