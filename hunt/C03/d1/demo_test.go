package grpcgcp

// Demo for property C03: a stream low-watermark of 2^31 or more (the field is a uint32)
// is converted to int32 in gcpPicker.getLeastBusySubConnRef and becomes negative, so an
// idle READY channel is treated as saturated: every call grows the pool and is refused.

import (
	"context"
	"errors"
	"sync"
	"testing"

	"google.golang.org/grpc/balancer"
	"google.golang.org/grpc/connectivity"
	"google.golang.org/grpc/resolver"

	pb "github.com/GoogleCloudPlatform/grpc-gcp-go/grpcgcp/grpc_gcp"
)

type zzSC struct {
	balancer.SubConn // nil: GetOrBuildProducer is never used
	id               int
}

func (*zzSC) UpdateAddresses([]resolver.Address) {}
func (*zzSC) Connect()                           {}

// zzCC is a fake balancer.ClientConn that behaves like gRPC's: NewSubConn refuses an
// empty address list.
type zzCC struct {
	balancer.ClientConn // nil: ResolveNow/Target/UpdateAddresses are never used
	mu                  sync.Mutex
	created             []*zzSC
	removed             []balancer.SubConn
	states              []balancer.State
}

func (c *zzCC) NewSubConn(a []resolver.Address, _ balancer.NewSubConnOptions) (balancer.SubConn, error) {
	if len(a) == 0 {
		return nil, errors.New("grpc: cannot create SubConn with empty address list")
	}
	c.mu.Lock()
	defer c.mu.Unlock()
	sc := &zzSC{id: len(c.created)}
	c.created = append(c.created, sc)
	return sc, nil
}
func (c *zzCC) RemoveSubConn(sc balancer.SubConn) {
	c.mu.Lock()
	defer c.mu.Unlock()
	c.removed = append(c.removed, sc)
}
func (c *zzCC) UpdateState(s balancer.State) {
	c.mu.Lock()
	defer c.mu.Unlock()
	c.states = append(c.states, s)
}
func (c *zzCC) numCreated() int {
	c.mu.Lock()
	defer c.mu.Unlock()
	return len(c.created)
}

func TestDefectDemo(t *testing.T) {
	const watermark = uint32(1) << 31 // 2147483648, a legal uint32 value ("practically never grow")
	cc := &zzCC{}
	b := newBuilder().Build(cc, balancer.BuildOptions{}).(*gcpBalancer)
	if err := b.UpdateClientConnState(balancer.ClientConnState{
		ResolverState: resolver.State{Addresses: []resolver.Address{{Addr: "10.0.0.1:443"}}},
		BalancerConfig: &GCPBalancerConfig{ApiConfig: &pb.ApiConfig{ChannelPool: &pb.ChannelPoolConfig{
			MinSize:                          1,
			MaxSize:                          4,
			MaxConcurrentStreamsLowWatermark: watermark,
		}}},
	}); err != nil {
		t.Fatalf("UpdateClientConnState: %v", err)
	}
	if got := cc.numCreated(); got != 1 {
		t.Fatalf("setup: pool has %d channels after the first update, want 1", got)
	}
	b.UpdateSubConnState(cc.created[0], balancer.SubConnState{ConnectivityState: connectivity.Ready})

	// The only channel is READY and carries 0 streams: 0 < 2147483648, it is far below the
	// watermark, so the call must be placed on it and the pool must not grow.
	pr, err := b.picker.Pick(balancer.PickInfo{FullMethodName: "/svc/m", Ctx: context.Background()})
	if err != nil || pr.SubConn != balancer.SubConn(cc.created[0]) {
		t.Errorf("Pick with the single READY channel at 0 streams and watermark %d returned (%v, %v); "+
			"expected the call to be placed on that channel (C03: a call is told to wait only when every READY channel is at or above the watermark)",
			watermark, pr.SubConn, err)
	}
	if got := cc.numCreated(); got != 1 {
		t.Errorf("pool grew to %d channels (NewSubConn called %d times) by a call that found the READY channel at 0 streams, watermark %d; "+
			"expected the pool to stay at 1 (C03: a channel is added only by a call that finds every READY channel at or above the stream low-watermark)",
			len(b.scRefs), got, watermark)
	}
}
