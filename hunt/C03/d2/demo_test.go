package grpcgcp

// Demo for property C03: when the first resolver update carries an empty address list
// (gRPC's ClientConn.NewSubConn refuses it), minSize is never enforced again: after the
// first update WITH addresses the pool holds 1 channel instead of minSize.

import (
	"errors"
	"sync"
	"testing"

	"google.golang.org/grpc/balancer"
	"google.golang.org/grpc/resolver"

	pb "github.com/GoogleCloudPlatform/grpc-gcp-go/grpcgcp/grpc_gcp"
)

type zzSC struct {
	balancer.SubConn // nil: GetOrBuildProducer is never used
	id               int
}

func (*zzSC) UpdateAddresses([]resolver.Address) {}
func (*zzSC) Connect()                           {}

// zzCC is a fake balancer.ClientConn that behaves like gRPC's (balancer_conn_wrappers.go,
// ccBalancerWrapper.NewSubConn): an empty address list is refused with an error.
type zzCC struct {
	balancer.ClientConn // nil: ResolveNow/Target/UpdateAddresses are never used
	mu                  sync.Mutex
	created             []*zzSC
	removed             []balancer.SubConn
}

func (c *zzCC) NewSubConn(a []resolver.Address, _ balancer.NewSubConnOptions) (balancer.SubConn, error) {
	if len(a) == 0 {
		return nil, errors.New("grpc: cannot create SubConn with empty address list")
	}
	c.mu.Lock()
	defer c.mu.Unlock()
	sc := &zzSC{id: len(c.created)}
	c.created = append(c.created, sc)
	return sc, nil
}
func (c *zzCC) RemoveSubConn(sc balancer.SubConn) {
	c.mu.Lock()
	defer c.mu.Unlock()
	c.removed = append(c.removed, sc)
}
func (c *zzCC) UpdateState(balancer.State) {}
func (c *zzCC) numCreated() int {
	c.mu.Lock()
	defer c.mu.Unlock()
	return len(c.created)
}

func TestDefectDemo(t *testing.T) {
	const minSize = 3
	cc := &zzCC{}
	b := newBuilder().Build(cc, balancer.BuildOptions{}).(*gcpBalancer)
	cfg := &GCPBalancerConfig{ApiConfig: &pb.ApiConfig{ChannelPool: &pb.ChannelPoolConfig{
		MinSize:                          minSize,
		MaxSize:                          10,
		MaxConcurrentStreamsLowWatermark: 100,
	}}}

	// 1st resolver update: no addresses yet (e.g. a resolver that publishes the service
	// config first, or a name that currently resolves to nothing).
	_ = b.UpdateClientConnState(balancer.ClientConnState{
		ResolverState:  resolver.State{},
		BalancerConfig: cfg,
	})
	if got := cc.numCreated(); got != 0 {
		t.Fatalf("setup: %d SubConns created from an empty address list, want 0", got)
	}

	// 2nd resolver update: the first one with a non-empty address list.
	if err := b.UpdateClientConnState(balancer.ClientConnState{
		ResolverState:  resolver.State{Addresses: []resolver.Address{{Addr: "10.0.0.1:443"}}},
		BalancerConfig: cfg,
	}); err != nil {
		t.Fatalf("UpdateClientConnState: %v", err)
	}

	if got := len(b.scRefs); got != minSize || cc.numCreated() != minSize {
		t.Errorf("after the first resolver update with a non-empty address list the pool holds %d channels (NewSubConn succeeded %d times); "+
			"expected exactly max(1, minSize) = %d (C03)", got, cc.numCreated(), minSize)
	}

	// And it stays that way: further resolver updates do not bring the pool to minSize either.
	_ = b.UpdateClientConnState(balancer.ClientConnState{
		ResolverState:  resolver.State{Addresses: []resolver.Address{{Addr: "10.0.0.1:443"}, {Addr: "10.0.0.2:443"}}},
		BalancerConfig: cfg,
	})
	if got := len(b.scRefs); got != minSize {
		t.Errorf("after one more resolver update the pool still holds %d channels, expected minSize = %d", got, minSize)
	}
}
