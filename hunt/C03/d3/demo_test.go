package grpcgcp

// Demo for property C03: a call that is already inside Pick on the superseded picker while
// a second channel turns READY grows the pool although that READY channel carries no stream
// at all. The growth decision looks only at the picker's own snapshot of READY channels, and
// newSubConn re-checks (under gb.mu) the pool size and Idle/Connecting but not the load.

import (
	"context"
	"errors"
	"sync"
	"testing"
	"time"

	"google.golang.org/grpc/balancer"
	"google.golang.org/grpc/connectivity"
	"google.golang.org/grpc/resolver"

	pb "github.com/GoogleCloudPlatform/grpc-gcp-go/grpcgcp/grpc_gcp"
)

type zzSC struct {
	balancer.SubConn // nil: GetOrBuildProducer is never used
	id               int
}

func (*zzSC) UpdateAddresses([]resolver.Address) {}
func (*zzSC) Connect()                           {}

type zzCC struct {
	balancer.ClientConn // nil: ResolveNow/Target/UpdateAddresses are never used
	mu                  sync.Mutex
	created             []*zzSC
	removed             []balancer.SubConn
	states              []balancer.State
	onUpdateState       func(n int, s balancer.State) // runs inside UpdateState, i.e. inside the balancer callback
}

func (c *zzCC) NewSubConn(a []resolver.Address, _ balancer.NewSubConnOptions) (balancer.SubConn, error) {
	if len(a) == 0 {
		return nil, errors.New("grpc: cannot create SubConn with empty address list")
	}
	c.mu.Lock()
	defer c.mu.Unlock()
	sc := &zzSC{id: len(c.created)}
	c.created = append(c.created, sc)
	return sc, nil
}
func (c *zzCC) RemoveSubConn(sc balancer.SubConn) {
	c.mu.Lock()
	defer c.mu.Unlock()
	c.removed = append(c.removed, sc)
}
func (c *zzCC) UpdateState(s balancer.State) {
	c.mu.Lock()
	c.states = append(c.states, s)
	n, f := len(c.states), c.onUpdateState
	c.mu.Unlock()
	if f != nil {
		f(n, s)
	}
}
func (c *zzCC) numCreated() int {
	c.mu.Lock()
	defer c.mu.Unlock()
	return len(c.created)
}

func TestDefectDemo(t *testing.T) {
	cc := &zzCC{}
	b := newBuilder().Build(cc, balancer.BuildOptions{}).(*gcpBalancer)
	if err := b.UpdateClientConnState(balancer.ClientConnState{
		ResolverState: resolver.State{Addresses: []resolver.Address{{Addr: "10.0.0.1:443"}}},
		BalancerConfig: &GCPBalancerConfig{ApiConfig: &pb.ApiConfig{ChannelPool: &pb.ChannelPoolConfig{
			MinSize:                          1,
			MaxSize:                          4,
			MaxConcurrentStreamsLowWatermark: 1,
		}}},
	}); err != nil {
		t.Fatalf("UpdateClientConnState: %v", err)
	}
	bg := balancer.PickInfo{FullMethodName: "/svc/m", Ctx: context.Background()}

	// Channel A becomes READY: picker P1 = {A}.
	b.UpdateSubConnState(cc.created[0], balancer.SubConnState{ConnectivityState: connectivity.Ready})
	p1 := cc.states[len(cc.states)-1].Picker.(*gcpPicker)

	// Call 1 is placed on A (A: 1 stream = watermark). Call 2 finds A saturated: the pool
	// legitimately grows to {A, B} and call 2 is told to wait.
	if pr, err := p1.Pick(bg); err != nil || pr.SubConn != balancer.SubConn(cc.created[0]) {
		t.Fatalf("setup: call 1 = (%v, %v), want it on channel A", pr.SubConn, err)
	}
	if _, err := p1.Pick(bg); err != balancer.ErrNoSubConnAvailable {
		t.Fatalf("setup: call 2 err = %v, want ErrNoSubConnAvailable", err)
	}
	if got := cc.numCreated(); got != 2 {
		t.Fatalf("setup: %d channels, want 2", got)
	}

	// Channel B becomes READY. While the balancer is still inside that callback (it holds
	// gb.mu and is publishing P2 = {A, B}), call 3 arrives: gRPC can only hand it P1, the
	// picker published last. It blocks on gb.mu inside P1.Pick until the callback returns.
	var call3 sync.WaitGroup
	var err3 error
	var pr3 balancer.PickResult
	cc.onUpdateState = func(int, balancer.State) {
		cc.onUpdateState = nil
		call3.Add(1)
		go func() {
			defer call3.Done()
			pr3, err3 = p1.Pick(bg)
		}()
		// Wait until call 3 is inside P1.Pick (it holds the picker's mutex), then some more.
		for i := 0; i < 2000; i++ {
			if !p1.mu.TryLock() {
				break
			}
			p1.mu.Unlock()
			time.Sleep(time.Millisecond)
		}
		time.Sleep(100 * time.Millisecond)
	}
	b.UpdateSubConnState(cc.created[1], balancer.SubConnState{ConnectivityState: connectivity.Ready})
	call3.Wait()

	// Now: A READY with 1 stream, B READY with 0 streams (< watermark 1), nothing Idle/Connecting
	// before call 3 ran. Call 3 must not have added a channel.
	b.mu.Lock()
	refB := b.scRefs[cc.created[1]]
	stB := b.scStates[cc.created[1]]
	pool := len(b.scRefs)
	b.mu.Unlock()
	if stB != connectivity.Ready || refB.getStreamsCnt() != 0 {
		t.Fatalf("setup: channel B state=%v streams=%d, want READY with 0 streams", stB, refB.getStreamsCnt())
	}
	if got := cc.numCreated(); got != 2 || pool != 2 {
		t.Errorf("pool grew to %d channels (NewSubConn called %d times; call 3 got (%v, %v)) while READY channel B carries 0 streams, watermark 1; "+
			"expected the pool to stay at 2 (C03: a channel is added only by a call that finds EVERY READY channel at or above the stream low-watermark, "+
			"for every interleaving of picks on current and stale pickers)", pool, got, pr3.SubConn, err3)
	}
}
