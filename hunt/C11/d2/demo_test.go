package grpcgcp

import (
	"bytes"
	"os"
	"os/exec"
	"strings"
	"testing"
)

// A message type that refers to itself, like google.protobuf.Struct/Value, Firestore's
// StructuredQuery filters or any tree/linked-list shaped message.
type demoNode struct {
	Next *demoNode
	Name string
}

const demoChildEnv = "GRPCGCP_DEFECT_DEMO_CHILD"

// The extraction recurses once per path segment, so its stack use is proportional to the
// locator length. The Go runtime answers an exhausted goroutine stack with
// "fatal error: stack overflow", which kills the whole process and which no recover() can
// stop. The extraction itself therefore runs in a child process; the parent checks how the
// child ended.
func TestDefectDemo(t *testing.T) {
	if os.Getenv(demoChildEnv) == "1" {
		n := &demoNode{Name: "k"}
		n.Next = n // self-referential value: "next" can be followed any number of times
		locator := strings.Repeat("next.", 3000000) + "name"
		keys, err := getAffinityKeysFromMessage(locator, n)
		// Either outcome is fine for the property: the key "k", or an error.
		if err == nil && (len(keys) != 1 || keys[0] != "k") {
			t.Fatalf("wrong keys: %q", keys)
		}
		os.Stdout.WriteString("\nCHILD-RETURNED-NORMALLY\n")
		return
	}

	cmd := exec.Command(os.Args[0], "-test.run=^TestDefectDemo$", "-test.count=1")
	cmd.Env = append(os.Environ(), demoChildEnv+"=1")
	var out bytes.Buffer
	cmd.Stdout = &out
	cmd.Stderr = &out
	runErr := cmd.Run()
	o := out.String()
	if runErr != nil || !strings.Contains(o, "CHILD-RETURNED-NORMALLY") {
		head := o
		if len(head) > 600 {
			head = head[:600] + " ..."
		}
		t.Fatalf("getAffinityKeysFromMessage(\"next.next. ... .next.name\" (3,000,000 segments), self-referential message) "+
			"must return the key or an error and must never panic; instead the process died (%v, stack overflow reported: %v):\n%s",
			runErr, strings.Contains(o, "stack overflow"), head)
	}
}
