package grpcgcp

import (
	"reflect"
	"testing"

	"google.golang.org/protobuf/types/known/structpb"
)

// A hand-written message with the shape protoc-gen-go produces for a oneof:
// an interface-typed field that holds a POINTER to a one-field wrapper struct.
type demoOneofMsg struct {
	Target isDemoOneofMsg_Target
}
type isDemoOneofMsg_Target interface{ isDemoOneofMsg_Target() }
type demoOneofMsg_Session struct{ Session *demoSession }
type demoSession struct{ Name string }

func (*demoOneofMsg_Session) isDemoOneofMsg_Target() {}

// Same data, but the interface holds the wrapper BY VALUE. The extraction crosses this one.
type demoAnyMsg struct{ Target interface{} }

func TestDefectDemo(t *testing.T) {
	// Control: an interface on the path is crossed when it holds a struct value ...
	ctl := &demoAnyMsg{Target: demoOneofMsg_Session{Session: &demoSession{Name: "s1"}}}
	if got, err := getAffinityKeysFromMessage("target.session.name", ctl); err != nil || !reflect.DeepEqual(got, []string{"s1"}) {
		t.Fatalf("control (interface holding a struct value): got %q, %v; want [s1], nil", got, err)
	}

	// ... but not when it holds a pointer to the same struct, which is what every oneof
	// field of a generated protobuf message holds.
	msg := &demoOneofMsg{Target: &demoOneofMsg_Session{Session: &demoSession{Name: "s1"}}}
	got, err := getAffinityKeysFromMessage("target.session.name", msg)
	if err != nil || !reflect.DeepEqual(got, []string{"s1"}) {
		t.Errorf("oneof-shaped message, locator \"target.session.name\": every field on the path exists, "+
			"no value on it is nil, no non-message value is crossed and the path ends on the string \"s1\"; "+
			"expected keys [s1] and no error, got keys %q, err: %v", got, err)
	}

	// The same with a real generated protobuf message (google.protobuf.Value, oneof kind).
	pb := structpb.NewStringValue("hello")
	got, err = getAffinityKeysFromMessage("kind.stringValue", pb)
	if err != nil || !reflect.DeepEqual(got, []string{"hello"}) {
		t.Errorf("structpb.Value{Kind: &Value_StringValue{\"hello\"}}, locator \"kind.stringValue\": "+
			"expected keys [hello] and no error, got keys %q, err: %v", got, err)
	}
}
