package prober

import (
	"math"
	"testing"
	"time"
)

// Property C18: "The long-running-operation backoff is, for every retry count and base <= max,
// at least the base delay, at most the maximum delay, and non-decreasing in the retry count."
//
// backoff() does all its arithmetic in float64 and converts back with time.Duration(f).
// float64 has 53 bits of mantissa, time.Duration has 63: the round trip is lossy above 2^53 ns
// and float64(max) is 2^63 (not representable as int64) for every max >= MaxInt64-511.
func TestDefectDemo(t *testing.T) {
	check := func(name string, base, max time.Duration, retries int) time.Duration {
		got := backoff(base, max, retries)
		if got < base {
			t.Errorf("%s: backoff(%d, %d, %d) = %d (%v): expected at least the base delay %d", name, base, max, retries, got, got, base)
		}
		if got > max {
			t.Errorf("%s: backoff(%d, %d, %d) = %d (%v): expected at most the maximum delay %d", name, base, max, retries, got, got, max)
		}
		return got
	}

	// (a) "no upper limit" expressed as the largest Duration; the production base delay.
	// After enough retries the value is clamped to float64(max) = 2^63, which overflows int64.
	const noLimit = time.Duration(math.MaxInt64)
	prev := time.Duration(0)
	for r := 0; r <= 70; r++ {
		got := check("no-limit max", baseLRORetryDelay, noLimit, r)
		if got < prev {
			t.Errorf("no-limit max: backoff(%v, MaxInt64, %d) = %d (%v) < backoff(.., %d) = %d (%v): expected non-decreasing in the retry count",
				baseLRORetryDelay, r, got, got, r-1, prev, prev)
		}
		prev = got
	}

	// (b) base == max == MaxInt64, no retries at all: the loop does not run, only the conversions do.
	check("base=max=MaxInt64", noLimit, noLimit, 0)

	// (c) precision loss without any overflow: 2^53+1 is rounded to 2^53 (below base),
	// 2^53+3 is rounded to 2^53+4 (above max).
	check("base=max=2^53+1", 1<<53+1, 1<<53+1, 0)
	check("base=max=2^53+3", 1<<53+3, 1<<53+3, 0)
}
