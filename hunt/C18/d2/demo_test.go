package prober

import (
	"testing"

	"google.golang.org/grpc/metadata"
)

// Property C18: "GFE latency parsing never panics, reads the server-timing header in preference to
// the trailer, returns the duration of the first gfet4t7 entry and reports an error for absent or
// malformed entries."
//
// parseT4T7Latency parses the millisecond count with ParseInt(.., 64) and then multiplies by
// time.Millisecond (1e6) without a range check. Every count above MaxInt64/1e6 = 9223372036854 ms
// wraps around: the function returns a wrong (possibly negative, possibly plausible looking)
// duration and a nil error.
func TestDefectDemo(t *testing.T) {
	for _, tc := range []struct {
		entry  string
		millis int64
	}{
		{"gfet4t7; dur=9223372036855", 9223372036855},             // MaxInt64/1e6 + 1: wraps to a negative duration
		{"gfet4t7; dur=18446744073750", 18446744073750},           // wraps to +40.448384ms: looks like a real latency
		{"gfet4t7; dur=9223372036854775807", 9223372036854775807}, // MaxInt64: wraps to -1ms
	} {
		headers := metadata.MD{serverTimingKey: []string{tc.entry}}
		got, err := parseT4T7Latency(headers, nil)
		if err != nil {
			continue // reporting an error for a value it cannot represent would be fine
		}
		// No error: then the result must be the duration of the entry, i.e. tc.millis milliseconds.
		if got.Milliseconds() != tc.millis || got < 0 {
			t.Errorf("parseT4T7Latency(%q) = (%d ns = %v, nil): expected the duration of the entry (%d ms) or an error; got a wrapped-around value and no error",
				tc.entry, int64(got), got, tc.millis)
		}
	}
}
