package grpcgcp

import (
	"context"
	"testing"

	"github.com/GoogleCloudPlatform/grpc-gcp-go/grpcgcp/mocks"
	"github.com/golang/mock/gomock"
	"google.golang.org/grpc/balancer"
	"google.golang.org/grpc/connectivity"
	"google.golang.org/grpc/resolver"
)

// A supplied maxConcurrentStreamsLowWatermark >= 2^31 is kept verbatim in the effective
// configuration (only 0 is defaulted), so an idle READY channel (0 streams) is far below the
// growth threshold: the pick must use it and the pool must not grow. The picker converts the
// uint32 watermark to int32 (gcp_picker.go:230), the threshold becomes negative, and every pick
// is treated as "all channels are above the watermark".
func TestDefectDemo(t *testing.T) {
	mockCtrl := gomock.NewController(t)
	defer mockCtrl.Finish()

	newSCs := []*mocks.MockSubConn{}
	mockCC := mocks.NewMockClientConn(mockCtrl)
	mockCC.EXPECT().UpdateState(gomock.Any()).AnyTimes()
	mockCC.EXPECT().NewSubConn(gomock.Any(), gomock.Any()).DoAndReturn(func(_, _ interface{}) (*mocks.MockSubConn, error) {
		sc := mocks.NewMockSubConn(mockCtrl)
		sc.EXPECT().Connect().AnyTimes()
		sc.EXPECT().UpdateAddresses(gomock.Any()).AnyTimes()
		newSCs = append(newSCs, sc)
		return sc, nil
	}).AnyTimes()

	// The configuration arrives the way gRPC delivers it: as JSON through ParseConfig.
	// 4294967295 is a well-formed uint32 ("never grow because of load").
	const wm = uint32(4294967295)
	cfg, err := newBuilder().(balancer.ConfigParser).ParseConfig(
		[]byte(`{"channelPool":{"minSize":1,"maxSize":4,"maxConcurrentStreamsLowWatermark":4294967295}}`))
	if err != nil {
		t.Fatalf("ParseConfig: %v", err)
	}

	b := newBuilder().Build(mockCC, balancer.BuildOptions{}).(*gcpBalancer)
	b.UpdateClientConnState(balancer.ClientConnState{
		ResolverState:  resolver.State{Addresses: []resolver.Address{{Addr: "a:1"}}},
		BalancerConfig: cfg,
	})
	if got := b.cfg.GetChannelPool().GetMaxConcurrentStreamsLowWatermark(); got != wm {
		t.Fatalf("effective low watermark = %d, want the supplied %d", got, wm)
	}
	if len(newSCs) != 1 {
		t.Fatalf("initial pool size = %d, want minSize = 1", len(newSCs))
	}
	b.UpdateSubConnState(newSCs[0], balancer.SubConnState{ConnectivityState: connectivity.Ready})

	// One READY channel with 0 active streams; 0 < 4294967295, so the pick must use it.
	res, err := b.picker.Pick(balancer.PickInfo{FullMethodName: "/svc/M", Ctx: context.Background()})
	if err != nil || res.SubConn != balancer.SubConn(newSCs[0]) {
		t.Errorf("Pick with 0 streams on the only READY channel and effective low watermark %d returned (SubConn=%v, err=%v); "+
			"expected the idle READY channel and no error (0 streams is below the growth threshold)", wm, res.SubConn, err)
	}
	if got := len(b.scRefs); got != 1 {
		t.Errorf("pool grew to %d channels after a single call although the only channel has 0 streams and the effective "+
			"low watermark is %d; expected the pool to stay at 1 (growth threshold not reached)", got, wm)
	}
}
