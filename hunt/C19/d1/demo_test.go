package main

import (
	"bytes"
	"encoding/binary"
	"hash/crc32"
	"io"
	"log"
	"testing"

	"google.golang.org/grpc/encoding"
	protoCodec "google.golang.org/grpc/encoding/proto"
	protov2 "google.golang.org/protobuf/proto"
	"google.golang.org/protobuf/reflect/protodesc"
	"google.golang.org/protobuf/reflect/protoreflect"
	"google.golang.org/protobuf/types/descriptorpb"
	"google.golang.org/protobuf/types/dynamicpb"
)

// TestDefectDemo: a perfectly valid protobuf message type that DECLARES field
// number 2047 with a 32-bit wire type (fixed32 here; sfixed32, float and the
// repeated forms behave the same).  The codec prepends its CRC as field 2047,
// so for such a message the prepended bytes are not an "unknown field" at all:
// every conforming parser (and the codec's own Unmarshal) stores the CRC into
// the declared field, and the decoded message differs from the original in a
// KNOWN field.
func TestDefectDemo(t *testing.T) {
	log.SetOutput(io.Discard)

	// syntax = "proto3"; package demo;
	// message Rec { string name = 1; fixed32 version = 2047; }
	fdp := &descriptorpb.FileDescriptorProto{
		Name:    protov2.String("demo.proto"),
		Package: protov2.String("demo"),
		Syntax:  protov2.String("proto3"),
		MessageType: []*descriptorpb.DescriptorProto{{
			Name: protov2.String("Rec"),
			Field: []*descriptorpb.FieldDescriptorProto{
				{
					Name:     protov2.String("name"),
					JsonName: protov2.String("name"),
					Number:   protov2.Int32(1),
					Label:    descriptorpb.FieldDescriptorProto_LABEL_OPTIONAL.Enum(),
					Type:     descriptorpb.FieldDescriptorProto_TYPE_STRING.Enum(),
				},
				{
					Name:     protov2.String("version"),
					JsonName: protov2.String("version"),
					Number:   protov2.Int32(checksumField), // 2047
					Label:    descriptorpb.FieldDescriptorProto_LABEL_OPTIONAL.Enum(),
					Type:     descriptorpb.FieldDescriptorProto_TYPE_FIXED32.Enum(),
				},
			},
		}},
	}
	fd, err := protodesc.NewFile(fdp, nil)
	if err != nil {
		t.Fatalf("setup: descriptor rejected: %v", err)
	}
	md := fd.Messages().ByName("Rec")
	fName := md.Fields().ByName("name")
	fVersion := md.Fields().ByName("version")

	// The original message: name set, version NOT set (== 0).
	orig := dynamicpb.NewMessage(md)
	orig.Set(fName, protoreflect.ValueOfString("weiranf"))

	c := &myCodec{protoCodec: encoding.GetCodec(protoCodec.Name)}
	out, err := c.Marshal(orig)
	if err != nil {
		t.Fatalf("Marshal: %v", err)
	}

	// Sanity: the framing half of the property holds, so the failure below is
	// not a by-product of a broken frame.
	std, err := protov2.Marshal(orig)
	if err != nil {
		t.Fatalf("reference marshal: %v", err)
	}
	want := []byte{0xfd, 0x7f, 0, 0, 0, 0}
	crc := crc32.Checksum(std, crc32.MakeTable(crc32.Castagnoli))
	binary.LittleEndian.PutUint32(want[2:], crc)
	want = append(want, std...)
	if !bytes.Equal(out, want) {
		t.Fatalf("framing differs (not the defect demonstrated here): got % x want % x", out, want)
	}

	// 1. decode with the codec itself
	viaCodec := dynamicpb.NewMessage(md)
	if err := c.Unmarshal(out, viaCodec); err != nil {
		t.Fatalf("codec Unmarshal: %v", err)
	}
	// 2. decode with an independent conforming parser (protobuf-go v2 API)
	viaV2 := dynamicpb.NewMessage(md)
	if err := protov2.Unmarshal(out, viaV2); err != nil {
		t.Fatalf("proto.Unmarshal: %v", err)
	}

	for _, d := range []struct {
		how string
		m   *dynamicpb.Message
	}{{"codec.Unmarshal", viaCodec}, {"proto.Unmarshal", viaV2}} {
		// Be generous: ignore whatever the decoder kept as unknown fields,
		// compare declared fields only.
		d.m.SetUnknown(nil)
		gotName := d.m.Get(fName).String()
		gotVersion := uint32(d.m.Get(fVersion).Uint())
		if gotName != "weiranf" {
			t.Errorf("%s: name = %q, want %q", d.how, gotName, "weiranf")
		}
		if gotVersion != 0 || !protov2.Equal(orig, d.m) {
			t.Errorf("%s: PROPERTY VIOLATED: decoding Marshal's output must yield a message equal to the original "+
				"(original: name=%q version=0), but decoded message has declared field version(#2047) = %#x, "+
				"which is the prepended CRC32C (%#x) of the payload; decoded=%v original=%v",
				d.how, gotName, gotVersion, crc, d.m, orig)
		}
	}
}
