package grpcgcp

import (
	"fmt"
	"net"
	"strings"
	"testing"
	"time"

	"github.com/GoogleCloudPlatform/grpc-gcp-go/grpcgcp/multiendpoint"
	"google.golang.org/grpc"
	"google.golang.org/grpc/connectivity"
	"google.golang.org/grpc/credentials/insecure"
	"google.golang.org/grpc/grpclog"
)

// gateLogger delays (like a descheduled goroutine) the monitor's notification that matches `match`.
type gateLogger struct {
	grpclog.LoggerV2
	match   string
	reached chan struct{}
	release chan struct{}
}

func (l *gateLogger) V(int) bool { return true }
func (l *gateLogger) Infof(format string, args ...interface{}) {
	if s := fmt.Sprintf(format, args...); l.match != "" && strings.Contains(s, l.match) {
		select {
		case l.reached <- struct{}{}:
			<-l.release
		default:
		}
	}
}

func sideServer(t *testing.T) string {
	lis, err := net.Listen("tcp", "127.0.0.1:0")
	if err != nil {
		t.Skipf("no loopback: %v", err)
	}
	s := grpc.NewServer()
	go s.Serve(lis)
	t.Cleanup(s.Stop)
	return lis.Addr().String()
}

// Whether the old monitor wakes up through the state change (and then reports SHUTDOWN) or
// through its cancelled context (and then just exits) is decided by a select with both cases
// ready, so the scenario is repeated until the first variant shows up.
func TestDefectDemo(t *testing.T) {
	for i := 0; i < 30; i++ {
		if attempt(t) {
			return
		}
	}
	t.Skip("the old monitor never took the state-change branch")
}

func attempt(t *testing.T) bool {
	a, b := sideServer(t), sideServer(t)
	opts := func(eps ...string) *GCPMultiEndpointOptions {
		return &GCPMultiEndpointOptions{
			MultiEndpoints: map[string]*multiendpoint.MultiEndpointOptions{"default": {Endpoints: eps}},
			Default:        "default",
		}
	}
	gme, err := NewGCPMultiEndpoint(opts(a, b), grpc.WithTransportCredentials(insecure.NewCredentials()))
	if err != nil {
		t.Fatal(err)
	}
	defer gme.Close()
	gl := &gateLogger{LoggerV2: gme.log, match: fmt.Sprintf("%q endpoint state changed to SHUTDOWN", a), reached: make(chan struct{}), release: make(chan struct{})}
	gme.log = gl // before any concurrent reader matters: monitors only read it

	waitCur := func(want string) {
		t.Helper()
		for dl := time.Now().Add(3 * time.Second); time.Now().Before(dl); time.Sleep(5 * time.Millisecond) {
			gme.mu.RLock()
			cur := gme.mes["default"].Current()
			st := gme.pools[cur].conn.GetState()
			gme.mu.RUnlock()
			if cur == want && st == connectivity.Ready {
				return
			}
		}
		t.Fatalf("current never became %q/READY", want)
	}
	gme.pools[a].conn.Connect()
	gme.pools[b].conn.Connect()
	waitCur(a)

	if err := gme.UpdateMultiEndpoints(opts(b)); err != nil { // removes pool a
		t.Fatal(err)
	}
	select {
	case <-gl.reached: // old monitor of a is about to deliver SHUTDOWN
	case <-time.After(300 * time.Millisecond):
		return false // the old monitor left through ctx.Done()
	}
	if err := gme.UpdateMultiEndpoints(opts(a, b)); err != nil { // re-adds a with a fresh pool
		t.Fatal(err)
	}
	gme.mu.RLock()
	gme.pools[a].conn.Connect()
	gme.mu.RUnlock()
	waitCur(a)
	close(gl.release) // the old monitor goroutine runs now
	time.Sleep(300 * time.Millisecond)
	gme.mu.RLock()
	cur := gme.mes["default"].Current()
	st := gme.pools[a].conn.GetState()
	gme.mu.RUnlock()
	if cur != a {
		t.Fatalf("pool of %q is %v, but the MultiEndpoint routes to %q: the monitor of the removed pool reported SHUTDOWN for the re-added endpoint", a, st, cur)
	}
	return true
}
