package grpcgcp

import (
	"context"
	"testing"
	"time"

	"github.com/GoogleCloudPlatform/grpc-gcp-go/grpcgcp/mocks"
	"github.com/golang/mock/gomock"
	"google.golang.org/grpc/balancer"
	"google.golang.org/grpc/connectivity"
	"google.golang.org/grpc/resolver"

	pb "github.com/GoogleCloudPlatform/grpc-gcp-go/grpcgcp/grpc_gcp"
)

// TestDefectDemo: two unkeyed calls that are picked at the same time through two
// different pickers of the same balancer (a stale one gRPC still holds for a pick in
// progress and the current one) both go to the same channel although the other READY
// channel has fewer active streams when the second of them is placed.
//
// The scan for the least loaded channel and the increment of its counter are atomic
// only with respect to gcpPicker.mu, which is a per-picker lock, while the counters
// (subConnRef.streamsCnt) are shared by all pickers of the balancer.
//
// The schedule is forced by holding gb.mu from the test (as UpdateSubConnState,
// refresh, bind/unbind completions do in production): with a saturated pool
// getLeastBusySubConnRef calls gb.getConnectionPoolSize() between the scan and the
// increment, so both picks park there after they have scanned.
func TestDefectDemo(t *testing.T) {
	mockCtrl := gomock.NewController(t)
	defer mockCtrl.Finish()

	var newSCs []*mocks.MockSubConn
	var published []*gcpPicker // every gcpPicker handed to the ClientConn
	mockCC := mocks.NewMockClientConn(mockCtrl)
	mockCC.EXPECT().UpdateState(gomock.Any()).Do(func(s balancer.State) {
		if gp, ok := s.Picker.(*gcpPicker); ok {
			published = append(published, gp)
		}
	}).AnyTimes()
	mockCC.EXPECT().NewSubConn(gomock.Any(), gomock.Any()).DoAndReturn(func(_, _ interface{}) (*mocks.MockSubConn, error) {
		sc := mocks.NewMockSubConn(mockCtrl)
		sc.EXPECT().Connect().AnyTimes()
		sc.EXPECT().UpdateAddresses(gomock.Any()).AnyTimes()
		newSCs = append(newSCs, sc)
		return sc, nil
	}).Times(2)

	b := newBuilder().Build(mockCC, balancer.BuildOptions{}).(*gcpBalancer)
	b.UpdateClientConnState(balancer.ClientConnState{
		ResolverState: resolver.State{},
		BalancerConfig: &GCPBalancerConfig{
			ApiConfig: &pb.ApiConfig{
				ChannelPool: &pb.ChannelPoolConfig{
					MinSize:                          2,
					MaxSize:                          2,
					MaxConcurrentStreamsLowWatermark: 1,
				},
			},
		},
	})
	if len(newSCs) != 2 {
		t.Fatalf("setup: want 2 SubConns, got %d", len(newSCs))
	}
	x, y := newSCs[0], newSCs[1]
	ready := func(sc balancer.SubConn) {
		b.UpdateSubConnState(sc, balancer.SubConnState{ConnectivityState: connectivity.Ready})
	}
	flap := func(sc balancer.SubConn) {
		b.UpdateSubConnState(sc, balancer.SubConnState{ConnectivityState: connectivity.Idle})
		b.UpdateSubConnState(sc, balancer.SubConnState{ConnectivityState: connectivity.Connecting})
		ready(sc)
	}
	ready(x)
	ready(y)

	// The harness's own bookkeeping of active streams per channel.
	inflight := map[balancer.SubConn]int{}
	pick := func(p balancer.Picker) balancer.PickResult {
		pr, err := p.Pick(balancer.PickInfo{FullMethodName: "/svc/Unkeyed", Ctx: context.Background()})
		if err != nil {
			t.Fatalf("setup: Pick: %v", err)
		}
		return pr
	}

	// One active call on each channel: the pool is at its maximum size and every
	// channel is at the low watermark.
	for i := 0; i < 2; i++ {
		inflight[pick(b.picker).SubConn]++
	}
	if inflight[x] != 1 || inflight[y] != 1 {
		t.Fatalf("setup: want one call on each channel, got x=%d y=%d", inflight[x], inflight[y])
	}

	// x's connection flaps twice. Every time it is READY again a picker with both
	// channels is published; the picks gRPC has in progress keep using the picker
	// they started with.
	flap(x)
	flap(x)
	var full []*gcpPicker
	for _, gp := range published {
		if len(gp.scRefs) == 2 {
			full = append(full, gp)
		}
	}
	if len(full) < 3 {
		t.Fatalf("setup: want 3 published pickers with both channels, got %d", len(full))
	}
	// Both channels have 1 active stream; a picker resolves the tie in favour of its
	// first channel, whose position comes from a map iteration. Of three pickers two
	// have the same first channel.
	var pa, pb2 *gcpPicker
	for i := 0; i < len(full) && pa == nil; i++ {
		for j := i + 1; j < len(full); j++ {
			if full[i].scRefs[0] == full[j].scRefs[0] {
				pa, pb2 = full[i], full[j]
				break
			}
		}
	}
	if pa == nil {
		t.Fatalf("setup: no two pickers with the same channel order")
	}
	for _, gp := range []*gcpPicker{pa, pb2} {
		for _, ref := range gp.scRefs {
			if st := b.scStates[ref.subConn]; st != connectivity.Ready {
				t.Fatalf("setup: channel %p of picker %p is %v, want READY", ref.subConn, gp, st)
			}
		}
	}

	// Two unkeyed calls start at the same time, one through each picker.
	b.mu.Lock() // e.g. a bind/unbind completion or a state update is in progress
	res := make(chan balancer.PickResult, 2)
	for _, gp := range []*gcpPicker{pa, pb2} {
		gp := gp
		go func() { res <- pick(gp) }()
	}
	// Wait until both picks are inside their critical section (picker mutex held) ...
	deadline := time.Now().Add(5 * time.Second)
	for _, gp := range []*gcpPicker{pa, pb2} {
		for gp.mu.TryLock() {
			gp.mu.Unlock()
			if time.Now().After(deadline) {
				b.mu.Unlock()
				t.Fatalf("setup: pick did not start")
			}
			time.Sleep(time.Millisecond)
		}
	}
	// ... and have scanned the two counters and parked on gb.mu.
	time.Sleep(200 * time.Millisecond)
	b.mu.Unlock()

	r1, r2 := <-res, <-res

	// Whatever the order in which the two placements are taken to happen: before the
	// first one both channels have 1 active stream, so after it the chosen channel has
	// 2 and the other one has 1, and the second call must go to the other channel.
	if r1.SubConn == r2.SubConn {
		other := balancer.SubConn(x)
		if r1.SubConn == other {
			other = y
		}
		t.Fatalf("C02 violated: two unkeyed calls were both placed on channel %p; when the second one was placed "+
			"that channel had %d active streams while READY channel %p (in both pickers' snapshots) had %d; "+
			"counters now: chosen=%d other=%d, want 2 and 2",
			r1.SubConn, inflight[r1.SubConn]+1, other, inflight[other],
			b.scRefs[r1.SubConn].getStreamsCnt(), b.scRefs[other].getStreamsCnt())
	}
	inflight[r1.SubConn]++
	inflight[r2.SubConn]++
	r1.Done(balancer.DoneInfo{})
	r2.Done(balancer.DoneInfo{})
}
