package grpcgcp

import (
	"context"
	"sync"
	"testing"
	"time"

	"github.com/GoogleCloudPlatform/grpc-gcp-go/grpcgcp/mocks"
	"github.com/golang/mock/gomock"
	"google.golang.org/grpc/balancer"
	"google.golang.org/grpc/connectivity"
	"google.golang.org/grpc/resolver"

	pb "github.com/GoogleCloudPlatform/grpc-gcp-go/grpcgcp/grpc_gcp"
)

// The replacement SubConn of a refresh fails its first connection attempt (quite likely: the
// refresh happens because the network path is bad). gRPC (>= 1.41, the module uses 1.56.3)
// then reports CONNECTING, TRANSIENT_FAILURE and, after the backoff, IDLE, and does NOT
// reconnect by itself: the LB policy must call SubConn.Connect() on IDLE. The balancer does
// that for the SubConns of the pool, but every non-READY report of a replacement SubConn is
// dropped before that code. The replacement stays IDLE for ever, can never become READY, the
// channel stays "refresh in progress" for ever and is never refreshed again.
func TestDefectDemo(t *testing.T) {
	mockCtrl := gomock.NewController(t)
	defer mockCtrl.Finish()

	var mu sync.Mutex
	newSCs := []*mocks.MockSubConn{}
	connects := map[balancer.SubConn]int{}
	mockCC := mocks.NewMockClientConn(mockCtrl)
	mockCC.EXPECT().UpdateState(gomock.Any()).AnyTimes()
	mockCC.EXPECT().RemoveSubConn(gomock.Any()).AnyTimes()
	mockCC.EXPECT().NewSubConn(gomock.Any(), gomock.Any()).DoAndReturn(func(_, _ interface{}) (*mocks.MockSubConn, error) {
		newSC := mocks.NewMockSubConn(mockCtrl)
		newSC.EXPECT().Connect().Do(func() {
			mu.Lock()
			connects[newSC]++
			mu.Unlock()
		}).AnyTimes()
		newSC.EXPECT().UpdateAddresses(gomock.Any()).AnyTimes()
		mu.Lock()
		newSCs = append(newSCs, newSC)
		mu.Unlock()
		return newSC, nil
	}).AnyTimes()

	const detectionMs = 100
	b := newBuilder().Build(mockCC, balancer.BuildOptions{}).(*gcpBalancer)
	b.UpdateClientConnState(balancer.ClientConnState{
		ResolverState: resolver.State{},
		BalancerConfig: &GCPBalancerConfig{
			ApiConfig: &pb.ApiConfig{
				ChannelPool: &pb.ChannelPoolConfig{
					MinSize:                          1,
					MaxSize:                          1,
					MaxConcurrentStreamsLowWatermark: 50,
					UnresponsiveDetectionMs:          detectionMs,
					UnresponsiveCalls:                1,
				},
			},
		},
	})
	if len(newSCs) != 1 {
		t.Fatalf("setup: want 1 SubConn, got %d", len(newSCs))
	}
	old := newSCs[0]

	// Reference behaviour for a SubConn of the pool: CONNECTING, TRANSIENT_FAILURE, IDLE -> Connect() again.
	before := connects[old]
	b.UpdateSubConnState(old, balancer.SubConnState{ConnectivityState: connectivity.Connecting})
	b.UpdateSubConnState(old, balancer.SubConnState{ConnectivityState: connectivity.TransientFailure})
	b.UpdateSubConnState(old, balancer.SubConnState{ConnectivityState: connectivity.Idle})
	if connects[old] != before+1 {
		t.Fatalf("setup: the balancer is expected to reconnect an IDLE SubConn of the pool (Connect calls %d -> %d)", before, connects[old])
	}
	b.UpdateSubConnState(old, balancer.SubConnState{ConnectivityState: connectivity.Connecting})
	b.UpdateSubConnState(old, balancer.SubConnState{ConnectivityState: connectivity.Ready})

	deCall := func() {
		ctx, cancel := context.WithTimeout(context.Background(), 0)
		defer cancel()
		pr, err := b.picker.Pick(balancer.PickInfo{FullMethodName: "", Ctx: ctx})
		if err != nil || pr.SubConn != old {
			t.Fatalf("Pick returns %v, %v, want the old SubConn %v, nil (the old connection keeps serving until the replacement is READY)", pr.SubConn, err, old)
		}
		time.Sleep(time.Millisecond)
		pr.Done(balancer.DoneInfo{Err: deErr})
	}

	// No response for more than unresponsive_detection_ms, then a client-side deadline exceeded: refresh.
	time.Sleep(detectionMs*time.Millisecond + 60*time.Millisecond)
	deCall()
	if len(newSCs) != 2 {
		t.Fatalf("setup: the deadline-exceeded call must start the refresh: want 2 SubConns, got %d", len(newSCs))
	}
	repl := newSCs[1]
	if connects[repl] != 1 {
		t.Fatalf("setup: the replacement must be told to connect once, Connect calls: %d", connects[repl])
	}

	// The first connection attempt of the replacement fails; after the backoff gRPC reports IDLE
	// and waits for the LB policy to call Connect().
	b.UpdateSubConnState(repl, balancer.SubConnState{ConnectivityState: connectivity.Connecting})
	b.UpdateSubConnState(repl, balancer.SubConnState{ConnectivityState: connectivity.TransientFailure})
	b.UpdateSubConnState(repl, balancer.SubConnState{ConnectivityState: connectivity.Idle})

	// The channel stays unresponsive; many more qualifying calls, far beyond every backoff window
	// the rule could ask for (k is still 0: no refresh completed).
	time.Sleep(detectionMs*time.Millisecond + 60*time.Millisecond)
	for i := 0; i < 5; i++ {
		deCall()
	}

	ref := b.scRefs[old]
	if ref == nil {
		t.Fatalf("setup: channel lost")
	}
	ref.mu.RLock()
	refreshing := ref.refreshing
	ref.mu.RUnlock()
	if connects[repl] < 2 && len(newSCs) == 2 {
		t.Fatalf("property violated: a failed attempt to establish the replacement must not disable later refreshes, and the "+
			"replacement must be able to become READY and take over the channel; but after the replacement SubConn reported "+
			"CONNECTING, TRANSIENT_FAILURE, IDLE the balancer never called Connect() on it again (Connect calls: %d, want >= 2; "+
			"for a pool SubConn it does), so gRPC will never connect it, the refresh stays in progress for ever (refreshing=%v, "+
			"replacements in flight=%d) and 5 further qualifying deadline-exceeded calls created no other replacement (SubConns created: %d)",
			connects[repl], refreshing, len(b.refreshingScRefs), len(newSCs))
	}
}
