package grpcgcp

import (
	"context"
	"sync"
	"testing"
	"time"

	"github.com/GoogleCloudPlatform/grpc-gcp-go/grpcgcp/mocks"
	"github.com/golang/mock/gomock"
	"google.golang.org/grpc/balancer"
	"google.golang.org/grpc/connectivity"
	"google.golang.org/grpc/resolver"

	pb "github.com/GoogleCloudPlatform/grpc-gcp-go/grpcgcp/grpc_gcp"
)

// A deadline-exceeded completion evaluates the refresh rule (enough calls, window passed)
// WITHOUT any lock, and only afterwards refresh() checks "no refresh in progress" under gb.mu.
// If the replacement of the refresh that is in progress becomes READY in between, the swap
// clears `refreshing`, and the stale decision starts a second refresh of the channel whose
// connection was replaced a moment ago.
//
// Schedule (forced by holding gb.mu from the test; waiters of a Go mutex are woken FIFO):
//  1. DE call #1 ends            -> refresh starts, replacement sc1 is created.
//  2. test locks gb.mu.
//  3. READY(sc1) is reported     -> UpdateSubConnState queues on gb.mu (swap not done yet).
//  4. DE call #2 ends            -> rule evaluated on the pre-swap state: true; refresh() queues on gb.mu behind 3.
//  5. test unlocks gb.mu         -> swap runs (refreshing=false, lastResp=now, k=1), then the stale refresh() runs.
func TestDefectDemo(t *testing.T) {
	mockCtrl := gomock.NewController(t)
	defer mockCtrl.Finish()

	var scMu sync.Mutex
	newSCs := []*mocks.MockSubConn{}
	created := []time.Time{}
	removed := 0
	mockCC := mocks.NewMockClientConn(mockCtrl)
	mockCC.EXPECT().UpdateState(gomock.Any()).AnyTimes()
	mockCC.EXPECT().RemoveSubConn(gomock.Any()).Do(func(balancer.SubConn) {
		scMu.Lock()
		removed++
		scMu.Unlock()
	}).AnyTimes()
	mockCC.EXPECT().NewSubConn(gomock.Any(), gomock.Any()).DoAndReturn(func(_, _ interface{}) (*mocks.MockSubConn, error) {
		newSC := mocks.NewMockSubConn(mockCtrl)
		newSC.EXPECT().Connect().AnyTimes()
		newSC.EXPECT().UpdateAddresses(gomock.Any()).AnyTimes()
		scMu.Lock()
		newSCs = append(newSCs, newSC)
		created = append(created, time.Now())
		scMu.Unlock()
		return newSC, nil
	}).AnyTimes()
	numSCs := func() int {
		scMu.Lock()
		defer scMu.Unlock()
		return len(newSCs)
	}

	const detectionMs = 100
	b := newBuilder().Build(mockCC, balancer.BuildOptions{}).(*gcpBalancer)
	b.UpdateClientConnState(balancer.ClientConnState{
		ResolverState: resolver.State{},
		BalancerConfig: &GCPBalancerConfig{
			ApiConfig: &pb.ApiConfig{
				ChannelPool: &pb.ChannelPoolConfig{
					MinSize:                          1,
					MaxSize:                          1,
					MaxConcurrentStreamsLowWatermark: 50,
					UnresponsiveDetectionMs:          detectionMs,
					UnresponsiveCalls:                1,
				},
			},
		},
	})
	if numSCs() != 1 {
		t.Fatalf("setup: want 1 SubConn, got %d", numSCs())
	}
	b.UpdateSubConnState(newSCs[0], balancer.SubConnState{ConnectivityState: connectivity.Ready})

	// Two calls with an (expired) client deadline start on the channel after its last response.
	pick := func() func(balancer.DoneInfo) {
		ctx, cancel := context.WithTimeout(context.Background(), 0)
		defer cancel()
		pr, err := b.picker.Pick(balancer.PickInfo{FullMethodName: "", Ctx: ctx})
		if err != nil || pr.SubConn != newSCs[0] {
			t.Fatalf("setup: Pick returns %v, %v, want %v, nil", pr.SubConn, err, newSCs[0])
		}
		return pr.Done
	}
	done1 := pick()
	done2 := pick()

	// No response for more than unresponsive_detection_ms.
	time.Sleep(detectionMs*time.Millisecond + 60*time.Millisecond)

	// 1. The first client-side deadline exceeded: all conditions hold, the refresh starts.
	done1(balancer.DoneInfo{Err: deErr})
	if numSCs() != 2 {
		t.Fatalf("setup: the first deadline-exceeded call must start the refresh: want 2 SubConns, got %d", numSCs())
	}
	ref := b.scRefs[newSCs[0]]

	// 2.
	b.mu.Lock()
	var wg sync.WaitGroup
	// 3. gRPC reports the replacement READY; the callback waits for gb.mu.
	wg.Add(1)
	go func() {
		defer wg.Done()
		b.UpdateSubConnState(newSCs[1], balancer.SubConnState{ConnectivityState: connectivity.Ready})
	}()
	time.Sleep(150 * time.Millisecond)
	// 4. The second call ends with the client-side deadline exceeded WHILE the refresh is in progress.
	wg.Add(1)
	go func() {
		defer wg.Done()
		done2(balancer.DoneInfo{Err: deErr})
	}()
	time.Sleep(150 * time.Millisecond)
	ref.mu.RLock()
	inProgress := ref.refreshing
	ref.mu.RUnlock()
	if !inProgress || numSCs() != 2 {
		b.mu.Unlock()
		t.Fatalf("setup: the refresh must still be in progress when the second call ends (refreshing=%v, SubConns=%d)", inProgress, numSCs())
	}
	// 5.
	swapReleased := time.Now()
	b.mu.Unlock()
	wg.Wait()

	if got := ref.getSubConn(); got != balancer.SubConn(newSCs[1]) {
		t.Fatalf("setup: the replacement must have taken over the channel, channel uses %p, replacement is %p", got, newSCs[1])
	}
	if removed != 1 {
		t.Fatalf("setup: the old SubConn must be removed exactly once, RemoveSubConn calls: %d", removed)
	}

	// The channel was refreshed once. Since the swap (k = 1) neither 2*unresponsive_detection_ms
	// have passed, nor has any deadline-exceeded call ended that started after the swap; and
	// when call #2 ended a refresh was in progress. No clause of the rule allows a second refresh.
	if got := numSCs(); got != 2 {
		t.Fatalf("property violated: the channel must be refreshed only when more than unresponsive_detection_ms x 2^k "+
			"(= %dms, k=1) passed since the swap and no refresh is in progress; but a second replacement SubConn was created "+
			"%v after the swap (SubConns created: %d, want 2; refreshing=%v, replacements in flight=%d) by a deadline-exceeded "+
			"call that ended while the first refresh was still in progress",
			2*detectionMs, created[2].Sub(swapReleased).Round(time.Millisecond), got, ref.refreshing, len(b.refreshingScRefs))
	}
}
