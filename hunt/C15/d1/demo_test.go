package grpcgcp

import (
	"context"
	"fmt"
	"net"
	"strings"
	"sync"
	"testing"
	"time"

	"github.com/GoogleCloudPlatform/grpc-gcp-go/grpcgcp/multiendpoint"
	"google.golang.org/grpc"
	"google.golang.org/grpc/connectivity"
	"google.golang.org/grpc/grpclog"

	pb "github.com/GoogleCloudPlatform/grpc-gcp-go/grpcgcp/grpc_gcp"
)

// demoStallLogger is a log sink with FINE verbosity enabled that can stall on one chosen
// line. A stalled log write is an ordinary way for a goroutine to lose the CPU between
// "read the pool state" and "take gme.mu" in monitoredConn.notify; it adds no behaviour
// of its own.
type demoStallLogger struct {
	grpclog.DepthLoggerV2 // everything not overridden below goes to the regular logger

	mu       sync.Mutex
	armedFor string        // endpoint whose "state changed to SHUTDOWN" line stalls (once)
	stalled  chan struct{} // closed when the monitor is parked in the stalled log line
	release  chan struct{} // closed by the test to let the stalled line return
}

func (l *demoStallLogger) V(int) bool                      { return true }
func (l *demoStallLogger) Info(...interface{})             {}
func (l *demoStallLogger) Infoln(...interface{})           {}
func (l *demoStallLogger) Warning(...interface{})          {}
func (l *demoStallLogger) Warningln(...interface{})        {}
func (l *demoStallLogger) Warningf(string, ...interface{}) {}

func (l *demoStallLogger) Infof(format string, args ...interface{}) {
	switch {
	case strings.Contains(format, "endpoint state changed to") && len(args) == 2:
		// monitoredConn.notify: the state was read already, gme.mu is not taken yet.
		l.mu.Lock()
		hit := l.armedFor != "" && args[0] == l.armedFor && args[1] == connectivity.Shutdown
		if hit {
			l.armedFor = ""
		}
		l.mu.Unlock()
		if hit {
			close(l.stalled)
			<-l.release
		}
	case strings.Contains(format, "closed channel pool for") && len(args) == 1:
		// UpdateMultiEndpoints, between conn.Close() and stopMonitoring(): make sure the
		// monitor has seen the SHUTDOWN state before its context is cancelled (this is the
		// usual order anyway, conn.Close() publishes SHUTDOWN first and then tears down the
		// whole channel).
		l.mu.Lock()
		wait := l.armedFor != "" && args[0] == l.armedFor
		l.mu.Unlock()
		if wait {
			select {
			case <-l.stalled:
			case <-time.After(5 * time.Second):
			}
		}
	}
}

func demoStartServer(t *testing.T) (addr string, stop func()) {
	t.Helper()
	lis, err := net.Listen("tcp", "127.0.0.1:0")
	if err != nil {
		t.Fatalf("listen: %v", err)
	}
	srv := grpc.NewServer()
	go srv.Serve(lis)
	return lis.Addr().String(), srv.Stop
}

func demoWaitFor(t *testing.T, what string, cond func() bool) {
	t.Helper()
	deadline := time.Now().Add(10 * time.Second)
	for !cond() {
		if time.Now().After(deadline) {
			t.Fatalf("test setup: timed out waiting for %s", what)
		}
		time.Sleep(5 * time.Millisecond)
	}
}

// TestDefectDemo: the monitor goroutine of a pool that UpdateMultiEndpoints removed reports
// its last observation (SHUTDOWN) by endpoint *name* after a later UpdateMultiEndpoints has
// created a new pool for the same endpoint. Every MultiEndpoint then believes the endpoint is
// down although its (new) pool is READY, and nothing ever corrects that.
func TestDefectDemo(t *testing.T) {
	epA, stopA := demoStartServer(t)
	defer stopA()
	epB, stopB := demoStartServer(t)
	defer stopB()

	logger := &demoStallLogger{
		DepthLoggerV2: compLogger,
		stalled:       make(chan struct{}),
		release:       make(chan struct{}),
	}
	origLogger := compLogger
	compLogger = logger

	dials := map[string]int{}
	var dialsMu sync.Mutex
	withB := func() *GCPMultiEndpointOptions {
		return &GCPMultiEndpointOptions{
			GRPCgcpConfig: &pb.ApiConfig{},
			MultiEndpoints: map[string]*multiendpoint.MultiEndpointOptions{
				// B has top priority, A is the fallback. No recovery timeout, no switching delay.
				"default": {Endpoints: []string{epB, epA}},
			},
			Default: "default",
			DialFunc: func(ctx context.Context, target string, dopts ...grpc.DialOption) (*grpc.ClientConn, error) {
				dialsMu.Lock()
				dials[target]++
				dialsMu.Unlock()
				return grpc.DialContext(ctx, target, dopts...)
			},
		}
	}
	withoutB := withB()
	withoutB.MultiEndpoints = map[string]*multiendpoint.MultiEndpointOptions{
		"default": {Endpoints: []string{epA}},
	}

	gme, err := NewGCPMultiEndpoint(withB(), grpc.WithInsecure())
	if err != nil {
		t.Fatalf("NewGCPMultiEndpoint: %v", err)
	}
	defer func() {
		select {
		case <-logger.release:
		default:
			close(logger.release)
		}
		gme.Close()
		time.Sleep(50 * time.Millisecond)
		compLogger = origLogger
	}()

	poolState := func(e string) connectivity.State {
		gme.mu.RLock()
		defer gme.mu.RUnlock()
		return gme.pools[e].conn.GetState()
	}
	current := func() string {
		gme.mu.RLock()
		defer gme.mu.RUnlock()
		return gme.mes["default"].Current()
	}
	routedTo := func() string {
		c := gme.pickConn(context.Background())
		gme.mu.RLock()
		defer gme.mu.RUnlock()
		for e, mc := range gme.pools {
			if mc.conn == c {
				return e
			}
		}
		return fmt.Sprintf("unknown conn %p", c)
	}

	demoWaitFor(t, "both pools READY and default routed to B", func() bool {
		return poolState(epA) == connectivity.Ready && poolState(epB) == connectivity.Ready && current() == epB
	})

	// Step 1: reconfigure without B. B's pool is closed; its monitor observes SHUTDOWN and is
	// about to report it (stalled in its log line, i.e. before it takes gme.mu).
	logger.mu.Lock()
	logger.armedFor = epB
	logger.mu.Unlock()
	if err := gme.UpdateMultiEndpoints(withoutB); err != nil {
		t.Fatalf("UpdateMultiEndpoints(without B): %v", err)
	}
	select {
	case <-logger.stalled:
	default:
		t.Fatalf("test setup: the monitor of the removed pool did not reach its log line")
	}
	if got := routedTo(); got != epA {
		t.Fatalf("test setup: after removing B calls must go to A, got %s", got)
	}

	// Step 2: reconfigure with B again. A new pool for B is dialed and becomes READY; the
	// MultiEndpoint follows and routes to B (top priority). All is well so far.
	if err := gme.UpdateMultiEndpoints(withB()); err != nil {
		t.Fatalf("UpdateMultiEndpoints(with B): %v", err)
	}
	demoWaitFor(t, "new pool of B READY and default routed to B", func() bool {
		return poolState(epB) == connectivity.Ready && current() == epB && routedTo() == epB
	})
	dialsMu.Lock()
	if dials[epB] != 2 || dials[epA] != 1 {
		t.Fatalf("test setup: want 2 dials of B and 1 of A, got %v", dials)
	}
	dialsMu.Unlock()

	// Step 3: the monitor of the OLD pool of B gets the CPU back and delivers SHUTDOWN.
	close(logger.release)

	// Give the old monitor ample time to finish, and the library ample time to correct itself.
	time.Sleep(500 * time.Millisecond)

	if st := poolState(epB); st != connectivity.Ready {
		t.Fatalf("test setup: the new pool of B should have stayed READY, is %v", st)
	}
	if got := routedTo(); got != epB {
		t.Fatalf("property C15 violated: the open pool of endpoint B (top priority of the default MultiEndpoint) is %v "+
			"and did not change state, yet calls are routed to %s (MultiEndpoint current = %s). "+
			"Expected routing to follow the connectivity of the endpoint's current pool: B. "+
			"The stopped monitor of B's previous (closed) pool marked endpoint B unavailable in every MultiEndpoint.",
			poolState(epB), got, current())
	}
}
