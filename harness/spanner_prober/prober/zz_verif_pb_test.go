//go:build verif

// Correspondence harness for the prober helpers in package prober (C18).
package prober

import (
	"bufio"
	"bytes"
	"crypto/sha256"
	"encoding/hex"
	"fmt"
	"math"
	"math/rand"
	"os"
	"strconv"
	"strings"
	"testing"
	"time"

	"google.golang.org/grpc/metadata"
)

func hx(s string) string { return hex.EncodeToString([]byte(s)) }

func hxList(l []string) string {
	if l == nil {
		return "-"
	}
	o := []string{}
	for _, s := range l {
		o = append(o, hx(s))
	}
	return "[" + strings.Join(o, ",") + "]"
}

func guard(f func() string) (out string) {
	defer func() {
		if r := recover(); r != nil {
			out = "PANIC"
		}
	}()
	return f()
}

func TestVerifProber(t *testing.T) {
	out := os.Getenv("VERIF_OUT")
	if out == "" {
		t.Skip("VERIF_OUT not set")
	}
	f, err := os.Create(out)
	if err != nil {
		t.Fatal(err)
	}
	defer f.Close()
	w := bufio.NewWriter(f)
	defer w.Flush()
	seed, _ := strconv.ParseInt(os.Getenv("VERIF_SEED"), 10, 64)
	episodes, _ := strconv.Atoi(os.Getenv("VERIF_EPISODES"))
	rng := rand.New(rand.NewSource(seed))

	bo := func(base, max int64, n int) {
		r := guard(func() string { return strconv.FormatInt(int64(backoff(time.Duration(base), time.Duration(max), n)), 10) })
		fmt.Fprintf(w, "pb backoff base=%d max=%d n=%d => %s\n", base, max, n, r)
	}
	t4 := func(h, tr []string) {
		hd, tl := metadata.MD{}, metadata.MD{}
		if h != nil {
			hd[serverTimingKey] = h
		}
		if tr != nil {
			tl[serverTimingKey] = tr
		}
		r := guard(func() string {
			d, err := parseT4T7Latency(hd, tl)
			if err != nil {
				return "err"
			}
			return "ok " + strconv.FormatInt(int64(d), 10)
		})
		fmt.Fprintf(w, "pb t4t7 hdr=%s trl=%s => %s\n", hxList(h), hxList(tr), r)
	}
	// fixed corpus
	bo(int64(baseLRORetryDelay), int64(maxLRORetryDelay), 0)
	for n := -1; n < 12; n++ {
		bo(int64(baseLRORetryDelay), int64(maxLRORetryDelay), n)
	}
	bo(0, 0, 3)
	bo(1, 1, 3)
	bo(3, 1000, 1)
	bo(1<<53, 1<<53, 2)
	// known findings K3 / K4: arguments outside the range in which the float arithmetic is exact / non-negative
	bo(-2, 5, 1)
	bo(1<<53+1, 1<<53+1, 0)
	bo(9223372036854775807, 9223372036854775807, 0)
	t4(nil, nil)
	t4([]string{}, []string{"gfet4t7; dur=5"})
	t4([]string{"gfet4t7; dur=12"}, []string{"gfet4t7; dur=5"})
	t4([]string{"other", "gfet4t7; dur=7", "gfet4t7; dur=9"}, nil)
	t4([]string{"gfet4t7; dur="}, nil)
	t4([]string{"gfet4t7; dur=+3"}, nil)
	t4([]string{"gfet4t7; dur=-3"}, nil)
	t4([]string{"gfet4t7; dur=1_0"}, nil)
	t4([]string{"gfet4t7; dur=9223372036854775808"}, nil)
	t4([]string{"gfet4t7; dur=9223372036854"}, nil)
	t4([]string{"gfet4t7; dur=9223372036855"}, nil) // known finding K5: the millisecond value overflows time.Duration
	t4([]string{"gfet4t7; dur= 5"}, nil)
	t4([]string{"gfet4t7;dur=5", "x"}, []string{"gfet4t7; dur=1"})
	t4([]string{"cdn; dur=1", "other"}, []string{"gfet4t7; dur=7"}) // the header has values but no entry: the trailer is not consulted
	for _, pt := range []string{"noop", "stale_read", "strong_query", "stale_query", "dml", "read_write", "", "NOOP", "noop ", "x"} {
		_, err := ParseProbeType(pt)
		r := "ok"
		if err != nil {
			r = "err"
		}
		fmt.Fprintf(w, "pb ptype t=%s => %s\n", hx(pt), r)
	}
	entry := func() string {
		switch rng.Intn(8) {
		case 0:
			return "cdn; dur=1"
		case 1:
			return "gfet4t7; dur=" + strconv.FormatInt(rng.Int63()-rng.Int63(), 10)
		case 2:
			return "gfet4t7; dur=" + strconv.Itoa(rng.Intn(100000)) + []string{"", " ", "ms", ".5"}[rng.Intn(4)]
		case 3:
			return "gfet4t7; dur"
		case 4:
			return "Gfet4t7; dur=3"
		default:
			return "gfet4t7; dur=" + strconv.Itoa(rng.Intn(5000))
		}
	}
	list := func() []string {
		if rng.Intn(4) == 0 {
			return nil
		}
		l := []string{}
		for i := rng.Intn(4); i > 0; i-- {
			l = append(l, entry())
		}
		return l
	}
	word := func() string {
		alpha := "abcXYZ019-_.:"
		if rng.Intn(6) == 0 {
			alpha += "/ !+"
		}
		if rng.Intn(8) == 0 { // whole values that a path cleaner would treat specially
			return []string{"..", ".", "", "...", "a..b", "..a", "a/../b", "./a"}[rng.Intn(8)]
		}
		b := []byte{}
		for i := rng.Intn(8); i > 0; i-- {
			b = append(b, alpha[rng.Intn(len(alpha))])
		}
		return string(b)
	}
	type heldPayload struct {
		n     int
		pl, h []byte
	}
	var heldPayloads []heldPayload
	for ep := 0; ep < episodes; ep++ {
		// backoff: base <= max mostly, consecutive retry counts (monotonicity), values around 2^53 excluded
		base := rng.Int63n(1 << uint(1+rng.Intn(52)))
		max := base + rng.Int63n(1<<uint(1+rng.Intn(52)))
		if max > 1<<53 {
			max = 1 << 53
		}
		if base > max {
			base = max
		}
		n := rng.Intn(40) - 2
		bo(base, max, n)
		bo(base, max, n+1)
		t4(list(), list())
		// URIs
		o := ProberOptions{Project: word(), Instance: word(), Database: word(), InstanceConfig: word()}
		fmt.Fprintf(w, "pb uris project=%s instance=%s database=%s config=%s => db=%s inst=%s cfg=%s proj=%s\n",
			hx(o.Project), hx(o.Instance), hx(o.Database), hx(o.InstanceConfig),
			hx(o.databaseURI()), hx(o.instanceURI()), hx(o.instanceConfigURI()), hx(o.projectURI()))
		// probeInterval for an in-range qps
		q := []float64{1, 1000, 0.5, 1e-3, 3, 7.25, 999.999, 1e-9, 123.456}[rng.Intn(9)]
		if rng.Intn(2) == 0 {
			q = rng.Float64() * 1000
			if q == 0 {
				q = 1
			}
		}
		p := &Prober{qps: q}
		fmt.Fprintf(w, "pb interval qps=%d => %d\n", math.Float64bits(q), int64(p.probeInterval()))
		if ep%10 == 0 {
			size := rng.Intn(5000)
			if rng.Intn(3) == 0 {
				size = rng.Intn(64) // small payloads, several held at once
			}
			if len(heldPayloads) > 0 && rng.Intn(2) == 0 {
				size = heldPayloads[len(heldPayloads)-1].n // a prober's payload size does not change from probe to probe
			}
			pl, h, err := generatePayload(size)
			sum := sha256.Sum256(pl)
			ok := "ok"
			if err != nil || len(pl) != size || !bytes.Equal(sum[:], h) {
				ok = "bad"
			}
			fmt.Fprintf(w, "pb payload n=%d => len=%d hash=%s\n", size, len(pl), ok)
			// a payload and its hash stay a pair: look again at the pairs handed out earlier (a probe keeps them
			// until its transaction, possibly retried, is over)
			for _, old := range heldPayloads {
				s2 := sha256.Sum256(old.pl)
				ok2 := "ok"
				if len(old.pl) != old.n || !bytes.Equal(s2[:], old.h) {
					ok2 = "bad"
				}
				fmt.Fprintf(w, "pb payload n=%d later=1 => len=%d hash=%s\n", old.n, len(old.pl), ok2)
			}
			heldPayloads = append(heldPayloads, heldPayload{size, pl, h})
			if len(heldPayloads) > 3 {
				heldPayloads = heldPayloads[1:]
			}
		}
	}
}
