//go:build verif

// Correspondence harness for validateFlags (C18), package main of spanner_prober.
package main

import (
	"bufio"
	"encoding/hex"
	"fmt"
	"math"
	"math/rand"
	"os"
	"strconv"
	"testing"
	"time"
)

func TestVerifFlags(t *testing.T) {
	out := os.Getenv("VERIF_OUT")
	if out == "" {
		t.Skip("VERIF_OUT not set")
	}
	f, err := os.Create(out)
	if err != nil {
		t.Fatal(err)
	}
	defer f.Close()
	w := bufio.NewWriter(f)
	defer w.Flush()
	seed, _ := strconv.ParseInt(os.Getenv("VERIF_SEED"), 10, 64)
	episodes, _ := strconv.Atoi(os.Getenv("VERIF_EPISODES"))
	rng := rand.New(rand.NewSource(seed))
	hx := func(s string) string { return hex.EncodeToString([]byte(s)) }
	word := func() string {
		alpha := "abcXYZ019-_."
		switch rng.Intn(8) {
		case 0:
			alpha += ":"
		case 1:
			alpha += "/ !+:=<>"
		case 2:
			alpha += "\n\n/" // line breaks: the expressions are anchored to the whole value, not to a line
		case 3:
			return []string{"abc\n", "\nabc", "x/databases/y\n", "abc\n/instances/other", "\n", "a\r\nb", "a\tb", "a\x00b", "é"}[rng.Intn(9)]
		}
		b := []byte{}
		for i := rng.Intn(8); i > 0; i-- {
			b = append(b, alpha[rng.Intn(len(alpha))])
		}
		return string(b)
	}
	qpsCorpus := []float64{1, 1000, 1000.0000001, 0, -1, 0.5, 1e-10, 1e-9, 1.0842021724855044e-10, 1.09e-10, 5e-324, math.NaN(), math.Inf(1), math.Inf(-1), math.Copysign(0, -1), 2.5e-310}
	run := func(q float64) {
		*project, *opsProject, *instance_name, *database_name, *instanceConfig = word(), word(), word(), word(), word()
		if rng.Intn(3) == 0 {
			*opsProject = ""
		}
		*probeType = []string{"noop", "stale_read", "strong_query", "stale_query", "dml", "read_write", "x", ""}[rng.Intn(8)]
		if rng.Intn(3) != 0 {
			*probeType = "noop"
		}
		*numRows, *payloadSize = rng.Intn(5)-1, rng.Intn(5)-1
		if rng.Intn(3) != 0 {
			*numRows, *payloadSize = 1+rng.Intn(10), 1+rng.Intn(10)
		}
		*qps = q
		errs := validateFlags()
		extra := ""
		if len(errs) == 0 {
			extra = fmt.Sprintf(" interval=%d", int64(time.Duration(float64(time.Second) / *qps)))
		}
		fmt.Fprintf(w, "pb flags project=%s ops=%s instance=%s database=%s config=%s ptype=%s rows=%d psize=%d qps=%d => errs=%d%s\n",
			hx(*project), hx(*opsProject), hx(*instance_name), hx(*database_name), hx(*instanceConfig), hx(*probeType),
			*numRows, *payloadSize, math.Float64bits(q), len(errs), extra)
	}
	for _, q := range qpsCorpus {
		run(q)
		run(q)
	}
	for ep := 0; ep < episodes; ep++ {
		q := 1.0
		switch rng.Intn(6) {
		case 0:
			q = qpsCorpus[rng.Intn(len(qpsCorpus))]
		case 1:
			q = math.Float64frombits(rng.Uint64())
		case 2:
			q = rng.Float64() * 1001
		case 3:
			q = math.Pow(10, -12+rng.Float64()*4)
		}
		run(q)
	}
}
