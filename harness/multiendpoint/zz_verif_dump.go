//go:build verif

package multiendpoint

import (
	"fmt"
	"sort"
)

// VerifDump lists the endpoints of a MultiEndpoint as "<id>/<priority>/<U|A|R>", sorted by id
// (read-only hook for the GCPMultiEndpoint harness, injected by overlay under the `verif` tag).
func VerifDump(m MultiEndpoint) []string {
	me := m.(*multiEndpoint)
	me.RLock()
	defer me.RUnlock()
	out := []string{}
	for _, e := range me.endpoints {
		st := "?"
		switch e.status {
		case unavailable:
			st = "U"
		case available:
			st = "A"
		case recovering:
			st = "R"
		}
		out = append(out, fmt.Sprintf("%s/%d/%s", e.id, e.priority, st))
	}
	sort.Strings(out)
	return out
}
