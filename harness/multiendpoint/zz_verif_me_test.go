//go:build verif

// Correspondence harness for the multiendpoint package (C13, C14).
// Injected with `go test -overlay`; nothing is written under /repo.
//
// Line protocol (DESIGN Appendix B): one operation per line, `op => observation`.
//   me new r=<ns> d=<ns> eps=<list>    => ok|err ; <digest>
//   me avail e=<id> v=0|1              => ok ; <digest>
//   me seteps eps=<list>               => ok|err ; <digest>
//   me adv ns=<n>                      => ok ; <digest>
//   me fire t=<tid>                    => ok|notfirable ; <digest>
// <list> is "" for the empty list, otherwise every item is prefixed with '.' (ids are [a-z0-9]*).
// <digest> = cur=<id> fut=<id> now=<ns> eps=<id>:<prio>:<U|A|R>,... (sorted by id)
//            timers=<tid>:<due>:<R|S>[:x],... (x = stopped after it became due)
package multiendpoint

import (
	"bufio"
	"fmt"
	"math/rand"
	"os"
	"reflect"
	"runtime"
	"sort"
	"strconv"
	"strings"
	"testing"
	"time"
)

type vTimer struct {
	tid     int
	kind    string
	due     int64
	f       func()
	stopped bool
	h       *vHarness
}

func (t *vTimer) Reset(time.Duration) bool { return true }
func (t *vTimer) Stop() bool {
	h := t.h
	for i, x := range h.timers {
		if x == t {
			if t.due <= h.now {
				// already due: the callback goroutine may already be dispatched.
				t.stopped = true
				return false
			}
			h.timers = append(h.timers[:i:i], h.timers[i+1:]...)
			return true
		}
	}
	return false
}

type vHarness struct {
	base    time.Time
	now     int64
	timers  []*vTimer
	nextTid int
	me      MultiEndpoint
	epBuf   []string // the caller's buffer for endpoint lists (reused and overwritten: the library must copy)
	storm   bool     // generator mode, see genOp
}

func (h *vHarness) install() {
	timeNow = func() time.Time { return h.base.Add(time.Duration(h.now)) }
	timeAfterFunc = func(d time.Duration, f func()) timerAlike {
		// the closure's name tells which of the two call sites scheduled it
		kind := "?"
		name := runtime.FuncForPC(reflect.ValueOf(f).Pointer()).Name()
		switch {
		case strings.Contains(name, "scheduleUnavailable"):
			kind = "R"
		case strings.Contains(name, "switchFromTo"):
			kind = "S"
		}
		t := &vTimer{tid: h.nextTid, kind: kind, due: h.now + int64(d), f: f, h: h}
		h.nextTid++
		h.timers = append(h.timers, t)
		return t
	}
}

func encList(l []string) string {
	var sb strings.Builder
	for _, x := range l {
		sb.WriteString(".")
		sb.WriteString(x)
	}
	return sb.String()
}

func decList(s string) []string {
	if s == "" {
		return []string{}
	}
	return strings.Split(s, ".")[1:]
}

// vFuture prints the target of the pending delayed switch whatever its representation is (the id, or
// a pointer to / a copy of the endpoint object): the digest must survive such refactorings
func vFuture(me *multiEndpoint) string {
	v := reflect.ValueOf(me).Elem().FieldByName("future")
	if !v.IsValid() {
		return "?"
	}
	for v.Kind() == reflect.Pointer || v.Kind() == reflect.Interface {
		if v.IsNil() {
			return ""
		}
		v = v.Elem()
	}
	switch v.Kind() {
	case reflect.String:
		return v.String()
	case reflect.Struct:
		if f := v.FieldByName("id"); f.IsValid() && f.Kind() == reflect.String {
			return f.String()
		}
	}
	return "?"
}

func (h *vHarness) digest() string {
	if h.me == nil {
		return "none"
	}
	me := h.me.(*multiEndpoint)
	type row struct {
		id string
		s  string
	}
	rows := []row{}
	for id, e := range me.endpoints {
		st := "?"
		switch e.status {
		case unavailable:
			st = "U"
		case available:
			st = "A"
		case recovering:
			st = "R"
		}
		rows = append(rows, row{id, fmt.Sprintf("%s:%d:%s", e.id, e.priority, st)})
	}
	sort.Slice(rows, func(i, j int) bool { return rows[i].id < rows[j].id })
	eps := []string{}
	for _, r := range rows {
		eps = append(eps, r.s)
	}
	ts := []string{}
	for _, t := range h.timers {
		s := fmt.Sprintf("%d:%d:%s", t.tid, t.due, t.kind)
		if t.stopped {
			s += ":x"
		}
		ts = append(ts, s)
	}
	return fmt.Sprintf("cur=%s fut=%s now=%d eps=%s timers=%s", h.me.Current(), vFuture(me), h.now,
		strings.Join(eps, ","), strings.Join(ts, ","))
}

func kv(tok string) (string, string) {
	i := strings.IndexByte(tok, '=')
	if i < 0 {
		return tok, ""
	}
	return tok[:i], tok[i+1:]
}

// exec runs one operation line on the real code and returns the observation.
func (h *vHarness) exec(line string) (obs string) {
	defer func() {
		if r := recover(); r != nil {
			obs = fmt.Sprintf("PANIC %v", r)
		}
	}()
	toks := strings.Split(line, " ")
	if len(toks) < 2 || toks[0] != "me" {
		return "bad-op"
	}
	args := map[string]string{}
	for _, t := range toks[2:] {
		k, v := kv(t)
		args[k] = v
	}
	switch toks[1] {
	case "new":
		r, _ := strconv.ParseInt(args["r"], 10, 64)
		d, _ := strconv.ParseInt(args["d"], 10, 64)
		h.now, h.timers, h.nextTid, h.me = 0, nil, 0, nil
		h.epBuf = append(h.epBuf[:0], decList(args["eps"])...)
		opts := &MultiEndpointOptions{
			Endpoints:       h.epBuf,
			RecoveryTimeout: time.Duration(r),
			SwitchingDelay:  time.Duration(d),
		}
		me, err := NewMultiEndpoint(opts)
		for i := range h.epBuf { // the caller's objects are its own again
			h.epBuf[i] = "scribbled"
		}
		opts.Endpoints, opts.RecoveryTimeout, opts.SwitchingDelay = nil, 0, 0
		if err != nil {
			return "err ; none"
		}
		h.me = me
		return "ok ; " + h.digest()
	case "avail":
		if h.me == nil {
			return "bad-op"
		}
		h.me.SetEndpointAvailability(args["e"], args["v"] == "1")
		return "ok ; " + h.digest()
	case "seteps":
		if h.me == nil {
			return "bad-op"
		}
		// the caller owns the slice: it reuses one buffer for every list it passes and scribbles over it afterwards
		h.epBuf = append(h.epBuf[:0], decList(args["eps"])...)
		err := h.me.SetEndpoints(h.epBuf)
		for i := range h.epBuf {
			h.epBuf[i] = "scribbled"
		}
		if err != nil {
			return "err ; " + h.digest()
		}
		return "ok ; " + h.digest()
	case "adv":
		if h.me == nil {
			return "bad-op"
		}
		n, _ := strconv.ParseInt(args["ns"], 10, 64)
		h.now += n
		return "ok ; " + h.digest()
	case "fire":
		if h.me == nil {
			return "bad-op"
		}
		tid, _ := strconv.Atoi(args["t"])
		for i, t := range h.timers {
			if t.tid == tid {
				if t.due > h.now {
					return "notfirable ; " + h.digest()
				}
				h.timers = append(h.timers[:i:i], h.timers[i+1:]...)
				t.f()
				return "ok ; " + h.digest()
			}
		}
		return "notfirable ; " + h.digest()
	}
	return "bad-op"
}

var vIDs = []string{"a", "b", "c", "d", "e", ""}

func genList(rng *rand.Rand, allowEmpty bool) []string {
	n := 1 + rng.Intn(4)
	if allowEmpty && rng.Intn(12) == 0 {
		n = 0
	}
	nIDs := 3 + rng.Intn(3)
	if rng.Intn(10) == 0 {
		nIDs = len(vIDs)
	}
	l := []string{}
	for i := 0; i < n; i++ {
		l = append(l, vIDs[rng.Intn(nIDs)])
	}
	// a name listed again later (F29): its first position counts
	if len(l) > 1 && rng.Intn(5) == 0 {
		l = append(l, l[rng.Intn(len(l)-1)])
	}
	return l
}

// genOp chooses the next operation from the current harness state.
func (h *vHarness) genOp(rng *rand.Rand) string {
	me := h.me.(*multiEndpoint)
	pickID := func() string {
		if rng.Intn(8) == 0 {
			return vIDs[rng.Intn(len(vIDs))]
		}
		ids := []string{}
		for id := range me.endpoints {
			ids = append(ids, id)
		}
		sort.Strings(ids)
		return ids[rng.Intn(len(ids))]
	}
	x := rng.Intn(100)
	if h.storm && x >= 40 && x < 80 && rng.Intn(4) != 0 {
		x = 0 // a storm episode: long runs of availability reports with the list and the clock left alone
	}
	switch {
	case x < 40:
		return fmt.Sprintf("me avail e=%s v=%d", pickID(), rng.Intn(2))
	case x < 55:
		return "me seteps eps=" + encList(genList(rng, true))
	case x < 75 && len(h.timers) > 0:
		// advance to just before / at / after the due time of a pending timer
		t := h.timers[rng.Intn(len(h.timers))]
		dt := t.due - h.now + int64(rng.Intn(3)-1)
		if dt < 0 {
			dt = 0
		}
		return fmt.Sprintf("me adv ns=%d", dt)
	case x < 80:
		return fmt.Sprintf("me adv ns=%d", rng.Intn(50))
	default:
		// fire a due timer (in any order); sometimes try one that is not due
		due := []*vTimer{}
		for _, t := range h.timers {
			if t.due <= h.now {
				due = append(due, t)
			}
		}
		if len(due) > 0 && rng.Intn(10) != 0 {
			return fmt.Sprintf("me fire t=%d", due[rng.Intn(len(due))].tid)
		}
		if len(h.timers) > 0 && rng.Intn(4) == 0 {
			return fmt.Sprintf("me fire t=%d", h.timers[rng.Intn(len(h.timers))].tid)
		}
		return fmt.Sprintf("me avail e=%s v=%d", pickID(), rng.Intn(2))
	}
}

func genRD(rng *rand.Rand) (int64, int64) {
	vals := []int64{0, 10, 20, 40}
	r, d := vals[rng.Intn(4)], vals[rng.Intn(4)]
	// negative durations mean none (F30)
	if rng.Intn(10) == 0 {
		r = -5
	}
	if rng.Intn(10) == 0 {
		d = -7
	}
	return r, d
}

func TestVerifME(t *testing.T) {
	out := os.Getenv("VERIF_OUT")
	if out == "" {
		t.Skip("VERIF_OUT not set")
	}
	f, err := os.Create(out)
	if err != nil {
		t.Fatal(err)
	}
	defer f.Close()
	w := bufio.NewWriter(f)
	defer w.Flush()
	h := &vHarness{base: time.Unix(1700000000, 0)}
	h.install()

	if ops := os.Getenv("VERIF_OPS"); ops != "" {
		for _, file := range strings.Split(ops, ",") {
			data, err := os.ReadFile(file)
			if err != nil {
				t.Fatal(err)
			}
			for _, line := range strings.Split(string(data), "\n") {
				line = strings.TrimSpace(line)
				if line == "" || strings.HasPrefix(line, "#") {
					continue
				}
				if i := strings.Index(line, " =>"); i >= 0 {
					line = line[:i]
				}
				fmt.Fprintf(w, "%s => %s\n", line, h.exec(line))
			}
		}
	}
	seed, _ := strconv.ParseInt(os.Getenv("VERIF_SEED"), 10, 64)
	episodes, _ := strconv.Atoi(os.Getenv("VERIF_EPISODES"))
	nops, _ := strconv.Atoi(os.Getenv("VERIF_NOPS"))
	if nops == 0 {
		nops = 30
	}
	rng := rand.New(rand.NewSource(seed))
	for ep := 0; ep < episodes; ep++ {
		r, d := genRD(rng)
		line := fmt.Sprintf("me new r=%d d=%d eps=%s", r, d, encList(genList(rng, ep%50 == 7)))
		obs := h.exec(line)
		fmt.Fprintf(w, "%s => %s\n", line, obs)
		if h.me == nil {
			continue
		}
		for i := 0; i < nops; i++ {
			line := h.genOp(rng)
			fmt.Fprintf(w, "%s => %s\n", line, h.exec(line))
		}
		if ep%4 == 3 {
			// an extra episode from a generator of its own (the main sequence is as it was): a switching delay,
			// three or more endpoints, and mostly availability reports - pending delayed switches overtaken by
			// immediate ones
			rng2 := rand.New(rand.NewSource(seed*7919 + int64(ep)))
			r, d := genRD(rng2)
			if d <= 0 {
				d = 40
			}
			l := genList(rng2, false)
			for len(l) < 3 {
				l = append(l, vIDs[len(l)])
			}
			line := fmt.Sprintf("me new r=%d d=%d eps=%s", r, d, encList(l))
			fmt.Fprintf(w, "%s => %s\n", line, h.exec(line))
			if h.me == nil {
				continue
			}
			h.storm = true
			for i := 0; i < nops; i++ {
				line := h.genOp(rng2)
				fmt.Fprintf(w, "%s => %s\n", line, h.exec(line))
			}
			h.storm = false
		}
	}
}
