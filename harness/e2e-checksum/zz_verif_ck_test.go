//go:build verif

// Correspondence harness for the checksum codec (C19). Injected with `go test -overlay`.
//   ck marshal std=<hex of the wrapped codec's encoding> => out=<hex of myCodec.Marshal> dec=ok|differs|err
//   ck marshalerr                                         => err len=<n>     (wrapped codec fails)
//   ck crc hex=<bytes>                                    => crc=<hash/crc32 Castagnoli>
package main

import (
	"bufio"
	"bytes"
	"encoding/hex"
	"fmt"
	"hash/crc32"
	"math/rand"
	"os"
	"strconv"
	"testing"

	"google.golang.org/grpc/encoding"
	protoCodec "google.golang.org/grpc/encoding/proto"
	"google.golang.org/protobuf/proto"
	"google.golang.org/protobuf/types/descriptorpb"
	"google.golang.org/protobuf/types/known/structpb"
	"google.golang.org/protobuf/types/known/wrapperspb"
)

func vRandStr(rng *rand.Rand, n int) string {
	b := make([]byte, n)
	for i := range b {
		b[i] = byte(32 + rng.Intn(95))
	}
	return string(b)
}

func vValue(rng *rand.Rand, depth int) *structpb.Value {
	switch k := rng.Intn(6); {
	case k == 0:
		return structpb.NewNullValue()
	case k == 1:
		return structpb.NewNumberValue(rng.NormFloat64() * 1e6)
	case k == 2:
		return structpb.NewBoolValue(rng.Intn(2) == 0)
	case k == 3 || depth <= 0:
		return structpb.NewStringValue(vRandStr(rng, rng.Intn(40)))
	default:
		n := rng.Intn(5)
		l := &structpb.ListValue{}
		for i := 0; i < n; i++ {
			l.Values = append(l.Values, vValue(rng, depth-1))
		}
		return structpb.NewListValue(l)
	}
}

func vUnknown(rng *rand.Rand) []byte {
	// a few well-formed unknown fields with numbers that none of the message types define
	var b []byte
	n := rng.Intn(3)
	for i := 0; i < n; i++ {
		num := uint64(900 + rng.Intn(100))
		switch rng.Intn(3) {
		case 0:
			b = appendVarint(b, num<<3|0)
			b = appendVarint(b, rng.Uint64()>>uint(rng.Intn(64)))
		case 1:
			b = appendVarint(b, num<<3|2)
			p := []byte(vRandStr(rng, rng.Intn(20)))
			b = appendVarint(b, uint64(len(p)))
			b = append(b, p...)
		default:
			b = appendVarint(b, num<<3|5)
			b = append(b, byte(rng.Intn(256)), byte(rng.Intn(256)), byte(rng.Intn(256)), byte(rng.Intn(256)))
		}
	}
	return b
}

func appendVarint(b []byte, v uint64) []byte {
	for v >= 0x80 {
		b = append(b, byte(v)|0x80)
		v >>= 7
	}
	return append(b, byte(v))
}

func vMessage(rng *rand.Rand) proto.Message {
	var m proto.Message
	switch rng.Intn(7) {
	case 0:
		m = &wrapperspb.StringValue{} // empty message
	case 1:
		m = wrapperspb.String(vRandStr(rng, rng.Intn(300)))
	case 2:
		m = wrapperspb.Int64(rng.Int63() - rng.Int63())
	case 3:
		big := make([]byte, 1000+rng.Intn(60000)) // large
		rng.Read(big)
		m = wrapperspb.Bytes(big)
	case 4:
		m = vValue(rng, 4) // nested + repeated
	case 5:
		fd := &descriptorpb.FileDescriptorProto{Name: proto.String(vRandStr(rng, 8)), Package: proto.String("p")}
		for i := rng.Intn(4); i > 0; i-- {
			msg := &descriptorpb.DescriptorProto{Name: proto.String(vRandStr(rng, 5))}
			for j := rng.Intn(4); j > 0; j-- {
				msg.Field = append(msg.Field, &descriptorpb.FieldDescriptorProto{Name: proto.String(vRandStr(rng, 4)), Number: proto.Int32(int32(1 + rng.Intn(500)))})
			}
			fd.MessageType = append(fd.MessageType, msg)
			fd.Dependency = append(fd.Dependency, vRandStr(rng, 6))
		}
		m = fd
	default:
		l := &structpb.ListValue{}
		for i := rng.Intn(30); i > 0; i-- {
			l.Values = append(l.Values, vValue(rng, 2))
		}
		m = l
	}
	if rng.Intn(3) == 0 {
		m.ProtoReflect().SetUnknown(vUnknown(rng))
	}
	return m
}

func TestVerifChecksum(t *testing.T) {
	out := os.Getenv("VERIF_OUT")
	if out == "" {
		t.Skip("VERIF_OUT not set")
	}
	f, err := os.Create(out)
	if err != nil {
		t.Fatal(err)
	}
	defer f.Close()
	w := bufio.NewWriter(f)
	defer w.Flush()
	seed, _ := strconv.ParseInt(os.Getenv("VERIF_SEED"), 10, 64)
	episodes, _ := strconv.Atoi(os.Getenv("VERIF_EPISODES"))
	rng := rand.New(rand.NewSource(seed))
	inner := encoding.GetCodec(protoCodec.Name)
	c := &myCodec{protoCodec: inner}
	tab := crc32.MakeTable(crc32.Castagnoli)

	one := func(m proto.Message) {
		std, err1 := inner.Marshal(m)
		got, err2 := c.Marshal(m)
		if err1 != nil || err2 != nil {
			fmt.Fprintf(w, "ck marshal std=%s => err\n", hex.EncodeToString(std))
			return
		}
		dec := "ok"
		m2 := m.ProtoReflect().New().Interface()
		if err := c.Unmarshal(got, m2); err != nil {
			dec = "err"
		} else {
			// the decoded message is the original plus the 6-byte checksum field in front of its unknown fields
			u := m2.ProtoReflect().GetUnknown()
			if len(u) < 6 || !bytes.Equal(u[:6], got[:6]) {
				dec = "differs"
			} else {
				m2.ProtoReflect().SetUnknown(u[6:])
				if !proto.Equal(m, m2) {
					dec = "differs"
				}
			}
		}
		fmt.Fprintf(w, "ck marshal std=%s => out=%s dec=%s\n", hex.EncodeToString(std), hex.EncodeToString(got), dec)
	}
	// fixed corpus first
	one(&wrapperspb.StringValue{})
	one(wrapperspb.String("123456789"))
	one(structpb.NewListValue(&structpb.ListValue{}))
	// wrapped codec error is passed through (a value that is not a proto message)
	b, err := c.Marshal("not a proto message")
	if err != nil {
		fmt.Fprintf(w, "ck marshalerr => err len=%d\n", len(b))
	} else {
		fmt.Fprintf(w, "ck marshalerr => noerr len=%d\n", len(b))
	}
	fmt.Fprintf(w, "ck crc hex=%s => crc=%d\n", hex.EncodeToString([]byte("123456789")), crc32.Checksum([]byte("123456789"), tab))
	for ep := 0; ep < episodes; ep++ {
		one(vMessage(rng))
		if ep%4 == 0 {
			p := make([]byte, rng.Intn(200))
			rng.Read(p)
			fmt.Fprintf(w, "ck crc hex=%s => crc=%d\n", hex.EncodeToString(p), crc32.Checksum(p, tab))
		}
	}
}
