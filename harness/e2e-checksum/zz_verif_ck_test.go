//go:build verif

// Correspondence harness for the checksum codec (C19). Injected with `go test -overlay`.
//   ck marshal std=<hex of the wrapped codec's encoding> => out=<hex of myCodec.Marshal> dec=ok|differs|err
//   ck marshal std=<hex> later=<k> => out=<hex> dec=ok  the result of the k-th previous Marshal, inspected again now: a
//                                                        result is a value; no later call may change it
//   ck marshalerr                                         => err len=<n>     (wrapped codec fails)
//   ck crc hex=<bytes>                                    => crc=<hash/crc32 Castagnoli>
package main

import (
	"bufio"
	"bytes"
	"encoding/hex"
	"fmt"
	"hash/crc32"
	"math/rand"
	"os"
	"strconv"
	"testing"

	"google.golang.org/grpc/encoding"
	protoCodec "google.golang.org/grpc/encoding/proto"
	"google.golang.org/protobuf/proto"
	"google.golang.org/protobuf/reflect/protodesc"
	"google.golang.org/protobuf/reflect/protoreflect"
	"google.golang.org/protobuf/reflect/protoregistry"
	"google.golang.org/protobuf/types/descriptorpb"
	"google.golang.org/protobuf/types/dynamicpb"
	"google.golang.org/protobuf/types/known/structpb"
	"google.golang.org/protobuf/types/known/wrapperspb"
)

// vRecorder is the wrapped codec seen by myCodec: it records exactly what myCodec.Marshal received
// from it (so that map fields, whose encoding order is random, can be part of the generator) and
// can be told to fail, with or without partial output.
type vRecorder struct {
	inner   encoding.Codec
	last    []byte
	lastErr error
	fail    error
	partial []byte
}

func (r *vRecorder) Marshal(v interface{}) ([]byte, error) {
	if r.fail != nil {
		r.last, r.lastErr = r.partial, r.fail
		return r.partial, r.fail
	}
	b, err := r.inner.Marshal(v)
	r.last, r.lastErr = append([]byte(nil), b...), err
	return b, err
}
func (r *vRecorder) Unmarshal(data []byte, v interface{}) error { return r.inner.Unmarshal(data, v) }
func (r *vRecorder) Name() string                                { return r.inner.Name() }
func (r *vRecorder) String() string                              { return r.inner.Name() }

func vStruct(rng *rand.Rand, depth int) *structpb.Struct {
	st := &structpb.Struct{Fields: map[string]*structpb.Value{}}
	for i := rng.Intn(9); i > 0; i-- {
		if depth > 0 && rng.Intn(4) == 0 {
			st.Fields[vRandStr(rng, 1+rng.Intn(6))] = structpb.NewStructValue(vStruct(rng, depth-1))
		} else {
			st.Fields[vRandStr(rng, 1+rng.Intn(6))] = vValue(rng, 2)
		}
	}
	return st
}

func vRandStr(rng *rand.Rand, n int) string {
	b := make([]byte, n)
	for i := range b {
		b[i] = byte(32 + rng.Intn(95))
	}
	return string(b)
}

func vValue(rng *rand.Rand, depth int) *structpb.Value {
	switch k := rng.Intn(6); {
	case k == 0:
		return structpb.NewNullValue()
	case k == 1:
		return structpb.NewNumberValue(rng.NormFloat64() * 1e6)
	case k == 2:
		return structpb.NewBoolValue(rng.Intn(2) == 0)
	case k == 3 || depth <= 0:
		return structpb.NewStringValue(vRandStr(rng, rng.Intn(40)))
	default:
		n := rng.Intn(5)
		l := &structpb.ListValue{}
		for i := 0; i < n; i++ {
			l.Values = append(l.Values, vValue(rng, depth-1))
		}
		return structpb.NewListValue(l)
	}
}

func vUnknown(rng *rand.Rand) []byte {
	// a few well-formed unknown fields with numbers that none of the message types define
	var b []byte
	n := rng.Intn(3)
	for i := 0; i < n; i++ {
		num := uint64(900 + rng.Intn(100))
		switch rng.Intn(3) {
		case 0:
			b = appendVarint(b, num<<3|0)
			b = appendVarint(b, rng.Uint64()>>uint(rng.Intn(64)))
		case 1:
			b = appendVarint(b, num<<3|2)
			p := []byte(vRandStr(rng, rng.Intn(20)))
			b = appendVarint(b, uint64(len(p)))
			b = append(b, p...)
		default:
			b = appendVarint(b, num<<3|5)
			b = append(b, byte(rng.Intn(256)), byte(rng.Intn(256)), byte(rng.Intn(256)), byte(rng.Intn(256)))
		}
	}
	return b
}

func appendVarint(b []byte, v uint64) []byte {
	for v >= 0x80 {
		b = append(b, byte(v)|0x80)
		v >>= 7
	}
	return append(b, byte(v))
}

// vDeclType is a message type that declares the checksum's own field number:
//   message Rec { string name = 1; fixed32 version = 2047; repeated fixed32 revs = 2046; }
// (K8: for such a type the prepended field is not an unknown field)
var vDeclType = func() protoreflect.MessageDescriptor {
	f32 := descriptorpb.FieldDescriptorProto_TYPE_FIXED32.Enum()
	str := descriptorpb.FieldDescriptorProto_TYPE_STRING.Enum()
	opt := descriptorpb.FieldDescriptorProto_LABEL_OPTIONAL.Enum()
	rep := descriptorpb.FieldDescriptorProto_LABEL_REPEATED.Enum()
	fd, err := protodesc.NewFile(&descriptorpb.FileDescriptorProto{
		Name: proto.String("verif_decl.proto"), Package: proto.String("verifdecl"), Syntax: proto.String("proto3"),
		MessageType: []*descriptorpb.DescriptorProto{{Name: proto.String("Rec"), Field: []*descriptorpb.FieldDescriptorProto{
			{Name: proto.String("name"), Number: proto.Int32(1), Type: str, Label: opt},
			{Name: proto.String("revs"), Number: proto.Int32(2046), Type: f32, Label: rep},
			{Name: proto.String("version"), Number: proto.Int32(2047), Type: f32, Label: opt},
		}}},
	}, &protoregistry.Files{})
	if err != nil {
		panic(err)
	}
	return fd.Messages().Get(0)
}()

// vDecl is a Rec whose field 2047 is unset.
func vDecl(rng *rand.Rand) proto.Message {
	m := dynamicpb.NewMessage(vDeclType)
	m.Set(vDeclType.Fields().ByNumber(1), protoreflect.ValueOfString(vRandStr(rng, rng.Intn(12))))
	for i := rng.Intn(3); i > 0; i-- {
		m.Mutable(vDeclType.Fields().ByNumber(2046)).List().Append(protoreflect.ValueOfUint32(rng.Uint32()))
	}
	return m
}

func vMessage(rng *rand.Rand) proto.Message {
	var m proto.Message
	switch rng.Intn(10) {
	case 8: // tiny encodings (1-4 bytes)
		m = wrapperspb.Int32(int32(rng.Intn(300)))
	case 9:
		m = wrapperspb.Bool(rng.Intn(2) == 0)
	case 7:
		m = vStruct(rng, 2) // map fields: the encoding order differs from call to call
	case 0:
		m = &wrapperspb.StringValue{} // empty message
	case 1:
		m = wrapperspb.String(vRandStr(rng, rng.Intn(300)))
	case 2:
		m = wrapperspb.Int64(rng.Int63() - rng.Int63())
	case 3:
		big := make([]byte, 1000+rng.Intn(60000)) // large
		rng.Read(big)
		m = wrapperspb.Bytes(big)
	case 4:
		m = vValue(rng, 4) // nested + repeated
	case 5:
		fd := &descriptorpb.FileDescriptorProto{Name: proto.String(vRandStr(rng, 8)), Package: proto.String("p")}
		for i := rng.Intn(4); i > 0; i-- {
			msg := &descriptorpb.DescriptorProto{Name: proto.String(vRandStr(rng, 5))}
			for j := rng.Intn(4); j > 0; j-- {
				msg.Field = append(msg.Field, &descriptorpb.FieldDescriptorProto{Name: proto.String(vRandStr(rng, 4)), Number: proto.Int32(int32(1 + rng.Intn(500)))})
			}
			fd.MessageType = append(fd.MessageType, msg)
			fd.Dependency = append(fd.Dependency, vRandStr(rng, 6))
		}
		m = fd
	default:
		l := &structpb.ListValue{}
		for i := rng.Intn(30); i > 0; i-- {
			l.Values = append(l.Values, vValue(rng, 2))
		}
		m = l
	}
	if rng.Intn(3) == 0 {
		m.ProtoReflect().SetUnknown(vUnknown(rng))
	}
	return m
}

func TestVerifChecksum(t *testing.T) {
	out := os.Getenv("VERIF_OUT")
	if out == "" {
		t.Skip("VERIF_OUT not set")
	}
	f, err := os.Create(out)
	if err != nil {
		t.Fatal(err)
	}
	defer f.Close()
	w := bufio.NewWriter(f)
	defer w.Flush()
	seed, _ := strconv.ParseInt(os.Getenv("VERIF_SEED"), 10, 64)
	episodes, _ := strconv.Atoi(os.Getenv("VERIF_EPISODES"))
	rng := rand.New(rand.NewSource(seed))
	inner := encoding.GetCodec(protoCodec.Name)
	rec := &vRecorder{inner: inner}
	c := &myCodec{protoCodec: rec}
	tab := crc32.MakeTable(crc32.Castagnoli)

	type held struct {
		std, got, snap []byte
	}
	var ring []held
	one := func(m proto.Message) {
		decl := ""
		if m.ProtoReflect().Descriptor().Fields().ByNumber(checksumField) != nil {
			decl = fmt.Sprintf(" decl=%d", checksumField)
		}
		defer func() {
			// look again at the results handed out earlier (gRPC keeps them until the frame is written)
			for i := 0; i+1 < len(ring); i++ {
				h := ring[i]
				if len(h.got) <= 64 || !bytes.Equal(h.got, h.snap) {
					dec := "ok"
					if !bytes.Equal(h.got, h.snap) {
						dec = "changed"
					}
					fmt.Fprintf(w, "ck marshal std=%s later=%d => out=%s dec=%s\n", hex.EncodeToString(h.std), len(ring)-1-i, hex.EncodeToString(h.got), dec)
				}
			}
		}()
		got, err2 := c.Marshal(m)
		std, err1 := rec.last, rec.lastErr // what the wrapped codec handed to myCodec.Marshal
		if err1 != nil || err2 != nil {
			fmt.Fprintf(w, "ck marshal std=%s => err\n", hex.EncodeToString(std))
			return
		}
		dec := "ok"
		m2 := m.ProtoReflect().New().Interface()
		if err := c.Unmarshal(got, m2); err != nil {
			dec = "err"
		} else {
			// the decoded message is the original plus the 6-byte checksum field in front of its unknown fields
			u := m2.ProtoReflect().GetUnknown()
			if len(u) < 6 || !bytes.Equal(u[:6], got[:6]) {
				dec = "differs"
			} else {
				m2.ProtoReflect().SetUnknown(u[6:])
				if !proto.Equal(m, m2) {
					dec = "differs"
				}
			}
		}
		fmt.Fprintf(w, "ck marshal std=%s%s => out=%s dec=%s\n", hex.EncodeToString(std), decl, hex.EncodeToString(got), dec)
		ring = append(ring, held{std: append([]byte{}, std...), got: got, snap: append([]byte{}, got...)})
		if len(ring) > 4 {
			ring = ring[1:]
		}
	}
	// fixed corpus first
	one(&wrapperspb.StringValue{})
	one(wrapperspb.String("123456789"))
	one(structpb.NewListValue(&structpb.ListValue{}))
	// wrapped codec error is passed through (a value that is not a proto message)
	b, err := c.Marshal("not a proto message")
	if err != nil {
		fmt.Fprintf(w, "ck marshalerr => err len=%d\n", len(b))
	} else {
		fmt.Fprintf(w, "ck marshalerr => noerr len=%d\n", len(b))
	}
	// wrapped codec fails after producing partial output (golang/protobuf does this for a proto2 message
	// with unset required fields): still an error, never a checksummed message
	for _, partial := range [][]byte{nil, {}, {0x0a, 0x01, 0x78}, make([]byte, 300)} {
		rec.fail, rec.partial = fmt.Errorf("required field not set"), partial
		b, err := c.Marshal(wrapperspb.String("x"))
		rec.fail, rec.partial = nil, nil
		if err != nil {
			fmt.Fprintf(w, "ck marshalerr partial=%s => err len=%d\n", hex.EncodeToString(partial), len(b))
		} else {
			fmt.Fprintf(w, "ck marshalerr partial=%s => noerr len=%d\n", hex.EncodeToString(partial), len(b))
		}
	}
	// the same through the real codec
	if b, err := c.Marshal(&descriptorpb.UninterpretedOption_NamePart{NamePart: proto.String("x")}); err != nil {
		fmt.Fprintf(w, "ck marshalerr real=required => err len=%d\n", len(b))
	} else {
		fmt.Fprintf(w, "ck marshalerr real=required => noerr len=%d\n", len(b))
	}
	{
		st, _ := structpb.NewStruct(map[string]interface{}{"a": 1.0, "b": "two", "c": true, "d": nil, "e": []interface{}{1.0, 2.0}, "f": "six", "g": 7.0, "h": "eight"})
		for i := 0; i < 8; i++ {
			one(st)
		}
	}
	fmt.Fprintf(w, "ck crc hex=%s => crc=%d\n", hex.EncodeToString([]byte("123456789")), crc32.Checksum([]byte("123456789"), tab))
	// a message type that declares field 2047 itself (K8)
	one(vDecl(rng))
	for ep := 0; ep < episodes; ep++ {
		if ep%97 == 50 {
			one(vDecl(rng))
		}
		one(vMessage(rng))
		if ep%4 == 0 {
			p := make([]byte, rng.Intn(200))
			rng.Read(p)
			fmt.Fprintf(w, "ck crc hex=%s => crc=%d\n", hex.EncodeToString(p), crc32.Checksum(p, tab))
		}
	}
}
