//go:build verif

// Correspondence harness for the interceptors (C12). Injected with `go test -overlay`.
//   st new ctx=cancel|bg|race   (race: the context is cancelled while a waiter is between its context check and
//                                cond.Wait — the first live ctx.Err() cancels, then dawdles before answering "not done")
//   st call t=<tid> c=send:<m>|recv|header|closesend ok=0|1
//   st call2 a=send:<m> b=send:<m>|closesend   the creation of the underlying stream (if A gets there) is held up until the
//                                second caller B has arrived as well; then both finish (threads 0 and 3; sends= is sorted)
//   st cancel | st trailer | st context | st unary
//   => rets=<tid>:<ret>,... blocked=<tid>,... created=<n> attempts=<m|->,... sends=<m>,... recv=<n> header=<n> closesend=<n>
// ret: sent|recvd|header|closed (reached the underlying stream) | createerr | ctxerr | trailernil | trailerstream | ctxown | ctxstream
package grpcgcp

import (
	"bufio"
	"context"
	"errors"
	"fmt"
	"math/rand"
	"os"
	"sort"
	"strconv"
	"strings"
	"sync"
	"sync/atomic"
	"testing"
	"time"

	"google.golang.org/grpc"
	"google.golang.org/grpc/codes"
	"google.golang.org/grpc/metadata"
	"google.golang.org/grpc/status"
)

var errStCreate = errors.New("verif: stream creation failed")

// stRaceCtx cancels the call's context from inside the first ctx.Err() that finds it alive and keeps
// the caller (which holds the stream's mutex at that point) busy for a while: the watcher goroutine's
// wake-up is due exactly between the waiter's context check and its cond.Wait.
type stRaceCtx struct {
	context.Context
	cancel func()
	armed  int32
}

func (c *stRaceCtx) Err() error {
	if err := c.Context.Err(); err != nil {
		return err
	}
	if atomic.CompareAndSwapInt32(&c.armed, 1, 0) {
		c.cancel()
		time.Sleep(25 * time.Millisecond)
	}
	return nil
}

type stFake struct {
	mu                      sync.Mutex
	sends                   []int
	recv, header, closesend int
	ctx                     context.Context
	waitFor                 int        // the first send returns only after that many receivers have reached the stream
	h                       *stHarness // (an echo-style peer: the send completes once the client reads)
}

func (f *stFake) Header() (metadata.MD, error) {
	f.mu.Lock()
	f.header++
	f.mu.Unlock()
	return metadata.MD{"h": {"1"}}, nil
}
func (f *stFake) Trailer() metadata.MD { return metadata.MD{"t": {"1"}} }
func (f *stFake) CloseSend() error {
	f.mu.Lock()
	f.closesend++
	f.mu.Unlock()
	return nil
}
func (f *stFake) Context() context.Context { return f.ctx }
func (f *stFake) SendMsg(m interface{}) error {
	f.mu.Lock()
	f.sends = append(f.sends, *(m.(*int)))
	n := f.waitFor
	f.waitFor = 0
	f.mu.Unlock()
	if n > 0 {
		ok := false
		for i := 0; i < 200 && !ok; i++ {
			f.mu.Lock()
			ok = f.recv+f.header >= n
			f.mu.Unlock()
			if !ok {
				time.Sleep(2 * time.Millisecond)
			}
		}
		if !ok {
			f.h.mu.Lock()
			f.h.lateWake = true
			f.h.mu.Unlock()
		}
	}
	return nil
}
func (f *stFake) RecvMsg(m interface{}) error {
	f.mu.Lock()
	f.recv++
	f.mu.Unlock()
	return nil
}

type stPending struct {
	tid int
	ch  chan string
}

type stHarness struct {
	cs       grpc.ClientStream
	fake     *stFake
	cancel   context.CancelFunc
	ctx      context.Context
	nextOK   bool
	created  int
	attempts []string
	failed   bool
	canceled bool
	pending  []*stPending
	mu       sync.Mutex
	race     *stRaceCtx
	slowSend int           // receivers that must reach the stream before its first send returns
	lateWake bool          // ... and they did not
	gate     chan struct{} // call2: the streamer waits here
	entered  chan struct{}
	sortSend bool
}

type stMarker struct{}

func (h *stHarness) streamer(ctx context.Context, desc *grpc.StreamDesc, cc *grpc.ClientConn, method string, opts ...grpc.CallOption) (grpc.ClientStream, error) {
	h.mu.Lock()
	g, e := h.gate, h.entered
	h.mu.Unlock()
	if g != nil {
		e <- struct{}{}
		<-g
	}
	h.mu.Lock()
	defer h.mu.Unlock()
	a := "?"
	if g, ok := ctx.Value(gcpKey).(*gcpContext); ok {
		if g.reqMsg == nil {
			a = "-"
		} else if p, ok := g.reqMsg.(*int); ok {
			a = strconv.Itoa(*p)
		}
	}
	// the caller's context values must still be visible
	if ctx.Value(stMarker{}) != "kept" {
		a = "ctxlost"
	}
	h.attempts = append(h.attempts, a)
	if !h.nextOK {
		h.failed = true
		return nil, errStCreate
	}
	h.created++
	h.fake = &stFake{ctx: ctx, waitFor: h.slowSend, h: h}
	h.slowSend = 0
	return h.fake, nil
}

func (h *stHarness) classify(kind string, err error) string {
	switch {
	case err == nil:
		return map[string]string{"send": "sent", "recv": "recvd", "header": "header", "closesend": "closed"}[kind]
	case err == errStCreate:
		return "createerr"
	case status.Code(err) == codes.Canceled || status.Code(err) == codes.DeadlineExceeded:
		return "ctxerr"
	}
	return "othererr"
}

// collect waits for calls that should have returned by now
func (h *stHarness) collect() (rets []string) {
	h.mu.Lock()
	should := h.created > 0 || h.failed || h.canceled
	h.mu.Unlock()
	rest := h.pending[:0]
	for _, p := range h.pending {
		wait := 15 * time.Millisecond
		if should {
			wait = 3 * time.Second
		}
		select {
		case r := <-p.ch:
			rets = append(rets, fmt.Sprintf("%d:%s", p.tid, r))
		case <-time.After(wait):
			rest = append(rest, p)
		}
	}
	h.pending = rest
	return
}

func (h *stHarness) summary(rets []string) string {
	sort.Strings(rets)
	bl := []string{}
	for _, p := range h.pending {
		bl = append(bl, strconv.Itoa(p.tid))
	}
	sort.Strings(bl)
	h.mu.Lock()
	defer h.mu.Unlock()
	sends, recv, header, cs := []string{}, 0, 0, 0
	if h.fake != nil {
		h.fake.mu.Lock()
		ms := append([]int{}, h.fake.sends...)
		if h.sortSend {
			sort.Ints(ms)
		}
		for _, m := range ms {
			sends = append(sends, strconv.Itoa(m))
		}
		recv, header, cs = h.fake.recv, h.fake.header, h.fake.closesend
		h.fake.mu.Unlock()
	}
	late := ""
	if h.lateWake {
		late = " latewake=1" // the waiting receivers were not woken while the underlying send was in progress
	}
	return fmt.Sprintf("rets=%s blocked=%s created=%d attempts=%s sends=%s recv=%d header=%d closesend=%d%s",
		strings.Join(rets, ","), strings.Join(bl, ","), h.created, strings.Join(h.attempts, ","), strings.Join(sends, ","), recv, header, cs, late)
}

func (h *stHarness) exec(line string) string {
	toks := strings.Split(line, " ")
	a := argsOf(toks[2:])
	guardRet := func(f func() string) (out string) {
		defer func() {
			if r := recover(); r != nil {
				out = "PANIC"
			}
		}()
		return f()
	}
	switch toks[1] {
	case "new":
		for _, p := range h.pending { // release goroutines of the previous episode
			_ = p
		}
		if h.cancel != nil {
			h.cancel()
		}
		*h = stHarness{}
		base := context.WithValue(context.Background(), stMarker{}, "kept")
		switch a["ctx"] {
		case "cancel":
			h.ctx, h.cancel = context.WithCancel(base)
		case "race":
			var cctx context.Context
			cctx, h.cancel = context.WithCancel(base)
			h.race = &stRaceCtx{Context: cctx, cancel: h.cancel, armed: 1}
			h.ctx = h.race
		default:
			h.ctx = base
		}
		cs, err := GCPStreamClientInterceptor(h.ctx, &grpc.StreamDesc{}, nil, "/svc/m", h.streamer)
		if err != nil {
			return "err"
		}
		h.cs = cs
		return "ok"
	case "call":
		tid, _ := strconv.Atoi(a["t"])
		h.mu.Lock()
		h.nextOK = a["ok"] == "1"
		h.mu.Unlock()
		p := &stPending{tid: tid, ch: make(chan string, 1)}
		c := a["c"]
		if strings.HasPrefix(c, "send:") && a["ok"] == "1" {
			// if this send creates the stream, its underlying send completes only once the waiting receivers read
			h.mu.Lock()
			if h.created == 0 && !h.canceled {
				h.slowSend = len(h.pending)
			}
			h.mu.Unlock()
		}
		h.mu.Lock()
		if h.race != nil && atomic.LoadInt32(&h.race.armed) == 1 && h.race.Context.Err() == nil &&
			(c == "recv" || c == "header") && h.created == 0 && !h.failed {
			h.canceled = true // this call will cancel the context from inside its own context check
		}
		h.mu.Unlock()
		go func() {
			p.ch <- guardRet(func() string {
				switch {
				case strings.HasPrefix(c, "send:"):
					m, _ := strconv.Atoi(c[5:])
					return h.classify("send", h.cs.SendMsg(&m))
				case c == "recv":
					var x int
					return h.classify("recv", h.cs.RecvMsg(&x))
				case c == "header":
					_, err := h.cs.Header()
					return h.classify("header", err)
				default:
					return h.classify("closesend", h.cs.CloseSend())
				}
			})
		}()
		// sends and closesend never block: wait for them before looking at the rest
		if c != "recv" && c != "header" {
			r := <-p.ch
			return h.summary(append(h.collect(), fmt.Sprintf("%d:%s", tid, r)))
		}
		h.pending = append(h.pending, p)
		return h.summary(h.collect())
	case "call2":
		if h.cs == nil {
			return "bad-op"
		}
		run := func(c string) chan string {
			ch := make(chan string, 1)
			go func() {
				ch <- guardRet(func() string {
					if strings.HasPrefix(c, "send:") {
						m, _ := strconv.Atoi(c[5:])
						return h.classify("send", h.cs.SendMsg(&m))
					}
					return h.classify("closesend", h.cs.CloseSend())
				})
			}()
			return ch
		}
		gate := make(chan struct{})
		h.mu.Lock()
		h.nextOK, h.gate, h.entered = true, gate, make(chan struct{}, 8)
		h.mu.Unlock()
		chA := run(a["a"])
		resA, resB := "", ""
		select {
		case <-h.entered: // A is creating the stream
		case resA = <-chA: // A did not have to
		case <-time.After(time.Second):
		}
		chB := run(a["b"])
		time.Sleep(15 * time.Millisecond)
		h.mu.Lock()
		h.gate = nil
		h.mu.Unlock()
		close(gate)
		for resA == "" || resB == "" {
			select {
			case r := <-chA:
				resA = r
			case r := <-chB:
				resB = r
			case <-time.After(3 * time.Second):
				return "HANG"
			}
		}
		// the sends are printed in the order in which they reached the underlying stream: the driver accepts either
		// order of the two callers and lets its model follow the one that happened
		return h.summary(append(h.collect(), "0:"+resA, "3:"+resB))
	case "cancel":
		if h.cancel != nil {
			h.cancel()
			h.mu.Lock()
			h.canceled = true
			h.mu.Unlock()
		}
		return h.summary(h.collect())
	case "trailer":
		r := guardRet(func() string {
			if h.cs.Trailer() == nil {
				return "trailernil"
			}
			return "trailerstream"
		})
		return h.summary(append(h.collect(), "9:"+r))
	case "context":
		r := guardRet(func() string {
			c := h.cs.Context()
			if h.fake != nil && c == h.fake.ctx {
				return "ctxstream"
			}
			if c == h.ctx {
				return "ctxown"
			}
			return "ctxother"
		})
		return h.summary(append(h.collect(), "9:"+r))
	case "unary":
		// the unary interceptor is transparent
		type k struct{}
		ctx := context.WithValue(context.Background(), k{}, "v")
		req, reply := &vMsg{Key: "q"}, &vMsg{}
		opts := []grpc.CallOption{grpc.MaxCallRecvMsgSize(7)}
		want := errors.New("invoker error")
		ok := true
		err := GCPUnaryClientInterceptor(ctx, "/svc/u", req, reply, nil, func(c context.Context, method string, rq, rp interface{}, cc *grpc.ClientConn, o ...grpc.CallOption) error {
			g, has := c.Value(gcpKey).(*gcpContext)
			if !has || g.reqMsg != interface{}(req) || g.replyMsg != interface{}(reply) || c.Value(k{}) != "v" ||
				method != "/svc/u" || rq != interface{}(req) || rp != interface{}(reply) || len(o) != 1 {
				ok = false
			}
			return want
		}, opts...)
		if err != want {
			ok = false
		}
		// a call made with a context derived from another intercepted call (it already carries that call's messages)
		other := &vMsg{Key: "other"}
		outer := &gcpContext{reqMsg: other, replyMsg: other}
		ctx2 := context.WithValue(ctx, gcpKey, outer)
		err = GCPUnaryClientInterceptor(ctx2, "/svc/u", req, reply, nil, func(c context.Context, method string, rq, rp interface{}, cc *grpc.ClientConn, o ...grpc.CallOption) error {
			g, has := c.Value(gcpKey).(*gcpContext)
			if !has || g.reqMsg != interface{}(req) || g.replyMsg != interface{}(reply) || c.Value(k{}) != "v" {
				ok = false
			}
			return want
		}, opts...)
		if err != want {
			ok = false
		}
		// … and the other call, which may still be in flight, keeps its own messages: its picker callback reads them
		if outer.reqMsg != interface{}(other) || outer.replyMsg != interface{}(other) {
			ok = false
		}
		if ok {
			return "unary=ok"
		}
		return "unary=BROKEN"
	}
	return "bad-op"
}

func TestVerifStream(t *testing.T) {
	out := os.Getenv("VERIF_OUT")
	if out == "" {
		t.Skip("VERIF_OUT not set")
	}
	f, err := os.Create(out)
	if err != nil {
		t.Fatal(err)
	}
	defer f.Close()
	w := bufio.NewWriter(f)
	defer w.Flush()
	seed, _ := strconv.ParseInt(os.Getenv("VERIF_SEED"), 10, 64)
	episodes, _ := strconv.Atoi(os.Getenv("VERIF_EPISODES"))
	rng := rand.New(rand.NewSource(seed))
	h := &stHarness{}
	emit := func(line string) {
		fmt.Fprintf(w, "%s => %s\n", line, h.exec(line))
	}
	if ops := os.Getenv("VERIF_OPS"); ops != "" {
		for _, file := range strings.Split(ops, ",") {
			data, err := os.ReadFile(file)
			if err != nil {
				t.Fatal(err)
			}
			for _, line := range strings.Split(string(data), "\n") {
				line = strings.TrimSpace(line)
				if line == "" || strings.HasPrefix(line, "#") {
					continue
				}
				if i := strings.Index(line, " =>"); i >= 0 {
					line = line[:i]
				}
				emit(line)
			}
		}
	}
	for ep := 0; ep < episodes; ep++ {
		emit("st new ctx=" + []string{"cancel", "cancel", "bg", "race"}[rng.Intn(4)])
		if ep%50 == 0 {
			emit("st unary")
		}
		msg := 0
		busy := map[int]bool{}
		n := 3 + rng.Intn(8)
		for i := 0; i < n; i++ {
			for _, p := range h.pending {
				busy[p.tid] = true
			}
			for tid := range busy {
				still := false
				for _, p := range h.pending {
					if p.tid == tid {
						still = true
					}
				}
				if !still {
					delete(busy, tid)
				}
			}
			if rng.Intn(12) == 0 && !busy[3] && !busy[0] {
				msg += 2
				b := fmt.Sprintf("send:%d", msg)
				if rng.Intn(2) == 0 {
					b = "closesend"
				}
				emit(fmt.Sprintf("st call2 a=send:%d b=%s", msg-1, b))
				continue
			}
			switch k := rng.Intn(10); {
			case k < 3:
				msg++
				emit(fmt.Sprintf("st call t=0 c=send:%d ok=%d", msg, map[bool]int{true: 1, false: 0}[rng.Intn(4) != 0]))
			case k < 6:
				tid := 1 + rng.Intn(3)
				if busy[tid] {
					continue
				}
				emit(fmt.Sprintf("st call t=%d c=%s ok=1", tid, []string{"recv", "recv", "header"}[rng.Intn(3)]))
			case k == 6:
				emit(fmt.Sprintf("st call t=0 c=closesend ok=%d", rng.Intn(2)))
			case k == 7:
				emit("st cancel")
			case k == 8:
				emit("st trailer")
			default:
				emit("st context")
			}
		}
		// let blocked receivers of a background-context episode go: create the stream
		if len(h.pending) > 0 {
			emit("st call t=0 c=send:99 ok=1")
			if len(h.pending) > 0 {
				emit("st cancel")
			}
		}
	}
}
