//go:build verif

// Correspondence harness for GCPMultiEndpoint (C15, C16). Injected with `go test -overlay`.
//   gme new|upd default=<name> opts=<name>:<e>+<e>,<name>:-(nil options),<name>:(empty list) fail=<e>+<e>
//   gme pstate e=<endpoint> ready=0|1       what the pool's monitor goroutine delivers
//   gme stalenotify e=<endpoint> ready=0|1  the monitor goroutine of a pool that an update removed delivers one more report
//                                       (it had read the state before the update took the lock): nothing may change
//   gme rpc name=<name>|-                   which pool an RPC with that context would use
//   gme close
//   gme livemon flips=<k> [final=<READY|NOTREADY>]   a pool with real connectivity (in-memory server): while an update holds
//        the GME lock in a slow dial, the pool's connectivity flips k times; once the update returned and everything is
//        quiet the MultiEndpoint must have been told the pool's current state (final= is the state the harness read)
//        => told=<A|U>
//   => ok|err ; mes=<name>:<current>:<id>/<prio>/<U|A|R>+... pools=<e>+<e> default=<name> open=<n> monitors=<n> dials=<e>:<n>+...
// Pools are real *grpc.ClientConn whose connection attempts never finish (state stays CONNECTING), so the
// only availability changes are the ones the harness delivers through monitoredConn.notify.
package grpcgcp

import (
	"bufio"
	"bytes"
	"context"
	"errors"
	"fmt"
	"math/rand"
	"net"
	"os"
	"runtime/pprof"
	"sort"
	"strconv"
	"strings"
	"sync"
	"testing"
	"time"

	"google.golang.org/grpc"
	"google.golang.org/grpc/connectivity"
	"google.golang.org/grpc/credentials/insecure"
	"google.golang.org/grpc/test/bufconn"
	"google.golang.org/protobuf/proto"

	"github.com/GoogleCloudPlatform/grpc-gcp-go/grpcgcp/multiendpoint"
	pb "github.com/GoogleCloudPlatform/grpc-gcp-go/grpcgcp/grpc_gcp"
)

type gmeHarness struct {
	gme    *GCPMultiEndpoint
	conns  map[string][]*grpc.ClientConn
	dials  map[string]int
	fail   map[string]bool
	apiCfg *pb.ApiConfig
	ctorCfg *pb.ApiConfig            // a private copy of the configuration the object was constructed with
	removed map[string][]*monitoredConn // pools that an update removed (their monitors may still be about to report)
	optsObj *GCPMultiEndpointOptions // the application's options object, edited in place between calls

	// live endpoint ("live..." targets) and slow dial ("slow" target) of the livemon scenario
	liveMu      sync.Mutex
	liveLis     *bufconn.Listener
	liveUp      bool
	liveConns   []net.Conn
	slowEntered chan struct{}
	slowRelease chan struct{}
}

func (h *gmeHarness) liveDial(ctx context.Context, addr string) (net.Conn, error) {
	h.liveMu.Lock()
	defer h.liveMu.Unlock()
	if !h.liveUp || h.liveLis == nil {
		return nil, errors.New("verif: live endpoint is down")
	}
	c, err := h.liveLis.Dial()
	if err == nil {
		h.liveConns = append(h.liveConns, c)
	}
	return c, err
}

func (h *gmeHarness) liveSet(up bool) {
	h.liveMu.Lock()
	h.liveUp = up
	cs := h.liveConns
	if !up {
		h.liveConns = nil
	}
	h.liveMu.Unlock()
	if !up {
		for _, c := range cs {
			c.Close()
		}
	}
}

// vRecME wraps the MultiEndpoint "main" of the livemon scenario: it records, for the live pool's endpoint, every
// availability report together with the pool's connectivity at the moment of the report.
type vRecME struct {
	multiendpoint.MultiEndpoint
	conn  *grpc.ClientConn
	mu    sync.Mutex
	stale int // reports that said the opposite of what the pool had been for a while
	total int
	// the pool's READY-ness and since when, kept by watch()
	ready bool
	since time.Time
}

// watch timestamps the flips of the pool's READY-ness (event driven, so that a report made while the state is changing
// is not taken for an old one).
func (r *vRecME) watch(ctx context.Context) {
	for {
		s := r.conn.GetState()
		r.mu.Lock()
		if rd := s == connectivity.Ready; rd != r.ready || r.since.IsZero() {
			r.ready, r.since = rd, time.Now()
		}
		r.mu.Unlock()
		if !r.conn.WaitForStateChange(ctx, s) {
			return
		}
	}
}

func (r *vRecME) SetEndpointAvailability(e string, avail bool) {
	if e == "live1" {
		r.mu.Lock()
		r.total++
		// stale = the report says the opposite of what the pool has been for at least 15 ms (the flips of the scenario
		// are 60 ms apart; a report made within a moment of a flip is not judged)
		if !r.since.IsZero() && r.ready != avail && time.Since(r.since) > 15*time.Millisecond &&
			(r.conn.GetState() == connectivity.Ready) == r.ready {
			r.stale++
		}
		r.mu.Unlock()
	}
	r.MultiEndpoint.SetEndpointAvailability(e, avail)
}

// liveMon: see the header. Returns the operation line (with the final connectivity the harness read) and the observation.
func (h *gmeHarness) liveMon(flips int) (line, obs string) {
	if flips == 99 {
		return h.liveMonPark()
	}
	line = fmt.Sprintf("gme livemon flips=%d final=?", flips)
	defer func() {
		if r := recover(); r != nil {
			obs = "PANIC"
		}
	}()
	if h.gme != nil {
		h.gme.Close()
		h.gme = nil
	}
	h.conns, h.dials, h.fail = map[string][]*grpc.ClientConn{}, map[string]int{}, map[string]bool{}
	lis := bufconn.Listen(1 << 16)
	srv := grpc.NewServer()
	go srv.Serve(lis)
	defer srv.Stop()
	h.liveMu.Lock()
	h.liveLis, h.liveUp, h.liveConns = lis, true, nil
	h.liveMu.Unlock()
	h.slowEntered, h.slowRelease = make(chan struct{}), make(chan struct{})
	released := false
	defer func() {
		if !released {
			close(h.slowRelease)
		}
	}()
	mk := func(withSlow bool) *GCPMultiEndpointOptions {
		o := &GCPMultiEndpointOptions{GRPCgcpConfig: h.apiCfg, Default: "main", DialFunc: h.dial,
			MultiEndpoints: map[string]*multiendpoint.MultiEndpointOptions{"main": {Endpoints: []string{"live1", "e2"}}}}
		if withSlow {
			o.MultiEndpoints["other"] = &multiendpoint.MultiEndpointOptions{Endpoints: []string{"slow"}}
		}
		return o
	}
	g, err := NewGCPMultiEndpoint(mk(false))
	if err != nil {
		return line, "err"
	}
	h.gme = g
	defer func() {
		g.Close()
		h.gme = nil
		h.digestAfterClose()
	}()
	conn := g.pools["live1"].conn
	rec := &vRecME{conn: conn}
	wctx, wcancel := context.WithCancel(context.Background())
	defer wcancel()
	go rec.watch(wctx)
	g.mu.Lock()
	rec.MultiEndpoint = g.mes["main"]
	g.mes["main"] = rec
	g.mu.Unlock()
	told := func() string {
		g.mu.RLock()
		defer g.mu.RUnlock()
		for _, l := range multiendpoint.VerifDump(rec.MultiEndpoint) {
			if strings.HasPrefix(l, "live1/") {
				return l[len(l)-1:]
			}
		}
		return "?"
	}
	waitState := func(ready bool) bool {
		for i := 0; i < 1000; i++ {
			if (conn.GetState() == connectivity.Ready) == ready {
				return true
			}
			if ready {
				conn.ResetConnectBackoff()
			}
			time.Sleep(5 * time.Millisecond)
		}
		return false
	}
	if !waitState(true) {
		return line, "no-connectivity"
	}
	for i := 0; i < 400 && told() != "A"; i++ {
		time.Sleep(5 * time.Millisecond)
	}
	if told() != "A" {
		return fmt.Sprintf("gme livemon flips=0 final=READY"), "told=" + told()
	}
	updDone := make(chan error, 1)
	go func() { updDone <- g.UpdateMultiEndpoints(mk(true)) }()
	select {
	case <-h.slowEntered:
	case <-time.After(5 * time.Second):
		return line, "slow-dial-not-entered"
	}
	up := true
	for i := 0; i < flips; i++ {
		up = !up
		h.liveSet(up)
		if !waitState(up) {
			return line, "no-connectivity"
		}
		time.Sleep(60 * time.Millisecond) // the monitor goroutine has seen this state and is blocked in notify
	}
	close(h.slowRelease)
	released = true
	select {
	case <-updDone:
	case <-time.After(5 * time.Second):
		return line, "HANG"
	}
	// quiescence = what the theorem blocked_means_told speaks about: every monitor goroutine sleeps in
	// WaitForStateChange (seen in the goroutine profile, on consecutive samples) and the connectivity is the final one
	final := "NOTREADY"
	if up {
		final = "READY"
	}
	quiet := 0
	for i := 0; i < 1000 && quiet < 5; i++ {
		if (conn.GetState() == connectivity.Ready) == up && gmeMonitorsBlocked() {
			quiet++
		} else {
			quiet = 0
		}
		time.Sleep(5 * time.Millisecond)
	}
	if quiet < 5 || (conn.GetState() == connectivity.Ready) != up {
		return line, "no-connectivity"
	}
	rec.mu.Lock()
	stale, total := rec.stale, rec.total
	rec.mu.Unlock()
	return fmt.Sprintf("gme livemon flips=%d final=%s", flips, final), fmt.Sprintf("told=%s stale=%d reports=%d", told(), stale, total)
}

// liveMonPark (`gme livemon flips=99`, printed as `gme livemon park=1 final=…`): the monitor of the live pool is stopped
// between notify and WaitForStateChange when it has just told the MultiEndpoints READY; the pool loses connectivity, an
// update reports the pools' states, the pool regains connectivity; the monitor continues, finds the state it reported
// and sleeps. Once everything is quiet the MultiEndpoint must believe the pool's current state (READY).
func (h *gmeHarness) liveMonPark() (line, obs string) {
	line = "gme livemon park=1 final=?"
	defer func() {
		if r := recover(); r != nil {
			obs = "PANIC"
		}
	}()
	if !verifMonitorHookInstalled {
		return line, "no-hook"
	}
	if h.gme != nil {
		h.gme.Close()
		h.gme = nil
	}
	h.conns, h.dials, h.fail = map[string][]*grpc.ClientConn{}, map[string]int{}, map[string]bool{}
	lis := bufconn.Listen(1 << 16)
	srv := grpc.NewServer()
	go srv.Serve(lis)
	defer srv.Stop()
	h.liveMu.Lock()
	h.liveLis, h.liveUp, h.liveConns = lis, true, nil
	h.liveMu.Unlock()
	h.slowEntered, h.slowRelease = make(chan struct{}), make(chan struct{})
	close(h.slowRelease) // no slow dial in this scenario
	mk := func(extra bool) *GCPMultiEndpointOptions {
		o := &GCPMultiEndpointOptions{GRPCgcpConfig: h.apiCfg, Default: "main", DialFunc: h.dial,
			MultiEndpoints: map[string]*multiendpoint.MultiEndpointOptions{"main": {Endpoints: []string{"live1", "e2"}}}}
		if extra {
			o.MultiEndpoints["other"] = &multiendpoint.MultiEndpointOptions{Endpoints: []string{"e2"}}
		}
		return o
	}
	g, err := NewGCPMultiEndpoint(mk(false))
	if err != nil {
		return line, "err"
	}
	h.gme = g
	var rel chan struct{}
	defer func() {
		verifMonArmed.Store("")
		if rel != nil {
			close(rel)
		}
		g.Close()
		h.gme = nil
		h.digestAfterClose()
	}()
	conn := g.pools["live1"].conn
	told := func() string {
		g.mu.RLock()
		defer g.mu.RUnlock()
		for _, l := range multiendpoint.VerifDump(g.mes["main"]) {
			if strings.HasPrefix(l, "live1/") {
				return l[len(l)-1:]
			}
		}
		return "?"
	}
	waitState := func(ready bool) bool {
		for i := 0; i < 1000; i++ {
			if (conn.GetState() == connectivity.Ready) == ready {
				return true
			}
			if ready {
				conn.ResetConnectBackoff()
			}
			time.Sleep(5 * time.Millisecond)
		}
		return false
	}
	waitTold := func(want string) bool {
		for i := 0; i < 400 && told() != want; i++ {
			time.Sleep(5 * time.Millisecond)
		}
		return told() == want
	}
	if !waitState(true) || !waitTold("A") {
		return line, "no-connectivity"
	}
	// the monitor sleeps in WaitForStateChange(READY). Down: it wakes and reports the not-READY states it sees.
	h.liveSet(false)
	if !waitState(false) || !waitTold("U") {
		return line, "no-connectivity"
	}
	// Arm the hook and bring the pool up: the monitor reports READY and stops in front of WaitForStateChange(READY)
	verifMonArmed.Store("live1")
	h.liveSet(true)
	if !waitState(true) {
		return line, "no-connectivity"
	}
	select {
	case rel = <-verifMonParked:
	case <-time.After(5 * time.Second):
		return line, "monitor-not-parked"
	}
	if told() != "A" {
		return line, "no-connectivity"
	}
	// connectivity is lost …
	h.liveSet(false)
	if !waitState(false) {
		return line, "no-connectivity"
	}
	// … an update reports the pools' states …
	if err := g.UpdateMultiEndpoints(mk(true)); err != nil {
		return line, "err"
	}
	// … and connectivity comes back
	h.liveSet(true)
	if !waitState(true) {
		return line, "no-connectivity"
	}
	close(rel) // the monitor goes on: WaitForStateChange(READY) on a READY connection
	rel = nil
	quiet := 0
	for i := 0; i < 1000 && quiet < 5; i++ {
		if conn.GetState() == connectivity.Ready && gmeMonitorsBlocked() {
			quiet++
		} else {
			quiet = 0
		}
		time.Sleep(5 * time.Millisecond)
	}
	if quiet < 5 || conn.GetState() != connectivity.Ready {
		return line, "no-connectivity"
	}
	return "gme livemon park=1 final=READY", "told=" + told() + " stale=0 reports=0"
}

// liveOrder (`gme liveorder`): three pools with real connectivity, all READY and known to be READY. Three updates each
// add a MultiEndpoint with a switching delay (one hour: it does not run out) over these kept pools, with the
// priority orders 2-3-1, 3-1-2 and 1-2-3. Each must route to its first endpoint when the update returns.
//   => cur=<current of new1>,<of new2>,<of new3>
func (h *gmeHarness) liveOrder() (line, obs string) {
	line = "gme liveorder final=?"
	defer func() {
		if r := recover(); r != nil {
			obs = "PANIC"
		}
	}()
	if h.gme != nil {
		h.gme.Close()
		h.gme = nil
	}
	h.conns, h.dials, h.fail = map[string][]*grpc.ClientConn{}, map[string]int{}, map[string]bool{}
	lis := bufconn.Listen(1 << 16)
	srv := grpc.NewServer()
	go srv.Serve(lis)
	defer srv.Stop()
	h.liveMu.Lock()
	h.liveLis, h.liveUp, h.liveConns = lis, true, nil
	h.liveMu.Unlock()
	h.slowEntered, h.slowRelease = make(chan struct{}), make(chan struct{})
	close(h.slowRelease)
	lives := []string{"live1", "live2", "live3"}
	o := &GCPMultiEndpointOptions{GRPCgcpConfig: h.apiCfg, Default: "main", DialFunc: h.dial,
		MultiEndpoints: map[string]*multiendpoint.MultiEndpointOptions{"main": {Endpoints: []string{"live1"}}}}
	g, err := NewGCPMultiEndpoint(o)
	if err != nil {
		return line, "err"
	}
	h.gme = g
	defer func() {
		g.Close()
		h.gme = nil
		h.digestAfterClose()
	}()
	// every live pool READY, and every MultiEndpoint that lists it told so
	settled := func() bool {
		g.mu.RLock()
		defer g.mu.RUnlock()
		for _, e := range lives {
			mc := g.pools[e]
			if mc == nil {
				continue
			}
			if mc.conn.GetState() != connectivity.Ready {
				mc.conn.ResetConnectBackoff()
				return false
			}
		}
		for _, me := range g.mes {
			for _, l := range multiendpoint.VerifDump(me) {
				if strings.HasPrefix(l, "live") && !strings.HasSuffix(l, "A") {
					return false
				}
			}
		}
		return true
	}
	wait := func() bool {
		for i := 0; i < 1000; i++ {
			if settled() && gmeMonitorsBlocked() {
				return true
			}
			time.Sleep(5 * time.Millisecond)
		}
		return false
	}
	if !wait() {
		return line, "no-connectivity"
	}
	o.MultiEndpoints["warm"] = &multiendpoint.MultiEndpointOptions{Endpoints: lives}
	if err := g.UpdateMultiEndpoints(o); err != nil {
		return line, "err"
	}
	if !wait() {
		return line, "no-connectivity"
	}
	curs := []string{}
	for i, order := range [][]string{{"live2", "live3", "live1"}, {"live3", "live1", "live2"}, {"live1", "live2", "live3"}} {
		name := fmt.Sprintf("new%d", i+1)
		o.MultiEndpoints[name] = &multiendpoint.MultiEndpointOptions{Endpoints: order, SwitchingDelay: time.Hour}
		if err := g.UpdateMultiEndpoints(o); err != nil {
			return line, "err"
		}
		g.mu.RLock()
		curs = append(curs, g.mes[name].Current())
		g.mu.RUnlock()
		if !wait() {
			return line, "no-connectivity"
		}
	}
	// an existing MultiEndpoint gets a READY endpoint put on top of its list: it must route there when the update returns
	o.MultiEndpoints["late"] = &multiendpoint.MultiEndpointOptions{Endpoints: []string{"live3"}}
	if err := g.UpdateMultiEndpoints(o); err != nil {
		return line, "err"
	}
	if !wait() {
		return line, "no-connectivity"
	}
	o.MultiEndpoints["late"] = &multiendpoint.MultiEndpointOptions{Endpoints: []string{"live1", "live3"}}
	if err := g.UpdateMultiEndpoints(o); err != nil {
		return line, "err"
	}
	g.mu.RLock()
	curs = append(curs, g.mes["late"].Current())
	g.mu.RUnlock()
	return "gme liveorder final=ok", "cur=" + strings.Join(curs, ",")
}

// closeTimers (`gme closetimers`): a GCPMultiEndpoint whose MultiEndpoint has a recovery timeout (its endpoints start
// "recovering", each with a timer) is closed at once. The monitors stop. Then the MultiEndpoint's lock is held for longer
// than the recovery timeout, so that whatever the closed object still starts stays visible, and the goroutines started by
// its timers are counted.   => after_close=<n>
func (h *gmeHarness) closeTimers() (line, obs string) {
	line = "gme closetimers"
	defer func() {
		if r := recover(); r != nil {
			obs = "PANIC"
		}
	}()
	if h.gme != nil {
		h.gme.Close()
		h.gme = nil
	}
	h.conns, h.dials, h.fail = map[string][]*grpc.ClientConn{}, map[string]int{}, map[string]bool{}
	const recovery = 150 * time.Millisecond
	g, err := NewGCPMultiEndpoint(&GCPMultiEndpointOptions{GRPCgcpConfig: h.apiCfg, Default: "main", DialFunc: h.dial,
		MultiEndpoints: map[string]*multiendpoint.MultiEndpointOptions{"main": {Endpoints: []string{"e1", "e2"}, RecoveryTimeout: recovery}}})
	if err != nil {
		return line, "err"
	}
	me := g.mes["main"]
	g.Close()
	h.digestAfterClose()
	for i := 0; i < 400 && gmeMonitors() > 0; i++ {
		time.Sleep(5 * time.Millisecond)
	}
	if gmeMonitors() > 0 {
		return line, "monitors-still-running"
	}
	l, ok := me.(sync.Locker)
	if !ok {
		return line, "after_close=?"
	}
	l.Lock()
	time.Sleep(recovery + 250*time.Millisecond)
	var buf bytes.Buffer
	pprof.Lookup("goroutine").WriteTo(&buf, 2)
	l.Unlock()
	n := strings.Count(buf.String(), "multiendpoint.(*multiEndpoint).")
	time.Sleep(20 * time.Millisecond) // let them finish
	return line, fmt.Sprintf("after_close=%d", n)
}

func (h *gmeHarness) dial(ctx context.Context, target string, opts ...grpc.DialOption) (*grpc.ClientConn, error) {
	if h.fail[target] {
		return nil, errors.New("verif: dial failure")
	}
	if target == "slow" && h.slowEntered != nil {
		close(h.slowEntered)
		<-h.slowRelease
		h.slowEntered = nil
	}
	if strings.HasPrefix(target, "live") {
		opts = append(opts, grpc.WithTransportCredentials(insecure.NewCredentials()), grpc.WithContextDialer(h.liveDial))
		c, err := grpc.Dial("passthrough:///"+target, opts...)
		if err == nil {
			h.conns[target] = append(h.conns[target], c)
		}
		return c, err
	}
	opts = append(opts, grpc.WithTransportCredentials(insecure.NewCredentials()),
		grpc.WithContextDialer(func(ctx context.Context, addr string) (net.Conn, error) {
			<-ctx.Done() // never connects
			return nil, ctx.Err()
		}))
	c, err := grpc.Dial("passthrough:///"+target, opts...)
	if err == nil {
		h.conns[target] = append(h.conns[target], c)
	}
	return c, err
}

func gmeMonitors() int {
	var buf bytes.Buffer
	pprof.Lookup("goroutine").WriteTo(&buf, 2)
	return strings.Count(buf.String(), "(*monitoredConn).monitor(")
}

// gmeMonitorsBlocked: every monitor goroutine is inside ClientConn.WaitForStateChange
func gmeMonitorsBlocked() bool {
	var buf bytes.Buffer
	pprof.Lookup("goroutine").WriteTo(&buf, 2)
	for _, g := range strings.Split(buf.String(), "\n\n") {
		if strings.Contains(g, "(*monitoredConn).monitor(") && !strings.Contains(g, ".WaitForStateChange(") {
			return false
		}
	}
	return true
}

func (h *gmeHarness) digest() string {
	open := 0
	for _, cs := range h.conns {
		for _, c := range cs {
			if c.GetState() != connectivity.Shutdown {
				open++
			}
		}
	}
	mons := 0
	for i := 0; i < 100; i++ { // monitors stop asynchronously after cancel
		mons = gmeMonitors()
		want := 0
		if h.gme != nil {
			want = len(h.gme.pools)
		}
		if mons == want {
			break
		}
		time.Sleep(2 * time.Millisecond)
	}
	if h.gme == nil {
		return fmt.Sprintf("mes= pools= default= open=%d monitors=%d dials=", open, mons)
	}
	g := h.gme
	g.mu.RLock()
	defer g.mu.RUnlock()
	names := []string{}
	for n := range g.mes {
		names = append(names, n)
	}
	sort.Strings(names)
	mes := []string{}
	for _, n := range names {
		me := g.mes[n]
		eps := []string{}
		for _, line := range multiendpoint.VerifDump(me) {
			eps = append(eps, line)
		}
		mes = append(mes, fmt.Sprintf("%s:%s:%s", n, me.Current(), strings.Join(eps, "+")))
	}
	pools := []string{}
	for e := range g.pools {
		pools = append(pools, e)
	}
	sort.Strings(pools)
	ds := []string{}
	for e, n := range h.dials {
		ds = append(ds, fmt.Sprintf("%s:%d", e, n))
	}
	sort.Strings(ds)
	// C17: GCPConfig() is an equal deep copy of the configuration given at construction, whatever later updates carried
	cfg := "ok"
	if got := g.GCPConfig(); !proto.Equal(got, h.ctorCfg) {
		cfg = "changed"
	} else if got != nil && (got == h.apiCfg || got == g.gcpConfig) {
		cfg = "aliased"
	}
	return fmt.Sprintf("mes=%s pools=%s default=%s open=%d monitors=%d dials=%s gcpcfg=%s", strings.Join(mes, ";"), strings.Join(pools, "+"),
		g.defaultName, open, mons, strings.Join(ds, "+"), cfg)
}

func gmeParseOpts(s string) map[string]*multiendpoint.MultiEndpointOptions {
	m := map[string]*multiendpoint.MultiEndpointOptions{}
	if s == "" {
		return m
	}
	for _, item := range strings.Split(s, ",") {
		i := strings.IndexByte(item, ':')
		name, l := item[:i], item[i+1:]
		if name == "~" {
			name = "" // a MultiEndpoint may be named by the empty string
		}
		switch l {
		case "-":
			m[name] = nil
		case "":
			m[name] = &multiendpoint.MultiEndpointOptions{Endpoints: []string{}}
		default:
			m[name] = &multiendpoint.MultiEndpointOptions{Endpoints: strings.Split(l, "+")}
		}
	}
	return m
}

func (h *gmeHarness) exec(line string) (out string) {
	defer func() {
		if r := recover(); r != nil {
			out = "PANIC"
		}
	}()
	toks := strings.Split(line, " ")
	a := argsOf(toks[2:])
	switch toks[1] {
	case "livemon":
		k, _ := strconv.Atoi(a["flips"])
		if a["park"] == "1" {
			k = 99
		}
		l, o := h.liveMon(k)
		return "@" + l + " => " + o
	case "liveorder":
		l, o := h.liveOrder()
		return "@" + l + " => " + o
	case "closetimers":
		l, o := h.closeTimers()
		return "@" + l + " => " + o
	case "new", "upd":
		h.fail = map[string]bool{}
		for _, e := range strings.Split(a["fail"], "+") {
			if e != "" {
				h.fail[e] = true
			}
		}
		// the application keeps ONE options object and edits it in place between calls (endpoint lists of unchanged
		// length are overwritten element by element): the library may neither keep nor compare against the caller's slices
		want := gmeParseOpts(a["opts"])
		if h.optsObj == nil || toks[1] == "new" {
			h.optsObj = &GCPMultiEndpointOptions{MultiEndpoints: map[string]*multiendpoint.MultiEndpointOptions{}}
		}
		o := h.optsObj
		o.GRPCgcpConfig, o.Default, o.DialFunc = h.apiCfg, a["default"], h.dial
		for n := range o.MultiEndpoints {
			if _, ok := want[n]; !ok {
				delete(o.MultiEndpoints, n)
			}
		}
		for n, w := range want {
			old := o.MultiEndpoints[n]
			if w != nil && old != nil && len(old.Endpoints) == len(w.Endpoints) && len(w.Endpoints) > 0 {
				copy(old.Endpoints, w.Endpoints)
				continue
			}
			o.MultiEndpoints[n] = w
		}
		before := map[string]int{}
		for e, cs := range h.conns {
			before[e] = len(cs)
		}
		var err error
		if toks[1] == "new" {
			if h.gme != nil {
				h.gme.Close()
			}
			h.gme, h.conns, h.dials, h.removed = nil, map[string][]*grpc.ClientConn{}, map[string]int{}, nil
			before = map[string]int{}
			var g *GCPMultiEndpoint
			g, err = NewGCPMultiEndpoint(o)
			if err == nil {
				h.gme = g
				h.ctorCfg = proto.Clone(h.apiCfg).(*pb.ApiConfig)
			}
		} else {
			if h.gme == nil {
				return "bad-op"
			}
			// a reconfiguration usually carries no pool configuration at all, or whatever the caller has at hand:
			// the configuration was fixed at construction
			switch len(a["opts"]) % 3 {
			case 0:
				o.GRPCgcpConfig = nil
			case 1:
				o.GRPCgcpConfig = &pb.ApiConfig{ChannelPool: &pb.ChannelPoolConfig{MinSize: 3, MaxSize: 9}}
			}
			prev := map[string]*monitoredConn{}
			h.gme.mu.RLock()
			for e, mc := range h.gme.pools {
				prev[e] = mc
			}
			h.gme.mu.RUnlock()
			err = h.gme.UpdateMultiEndpoints(o)
			h.gme.mu.RLock()
			for e, mc := range prev {
				if h.gme.pools[e] != mc {
					if h.removed == nil {
						h.removed = map[string][]*monitoredConn{}
					}
					h.removed[e] = append(h.removed[e], mc)
				}
			}
			h.gme.mu.RUnlock()
		}
		if err != nil {
			return "err ; " + h.digest()
		}
		for e, cs := range h.conns {
			if d := len(cs) - before[e]; d > 0 {
				h.dials[e] += d
			}
		}
		time.Sleep(5 * time.Millisecond) // let the new monitors deliver their initial (not ready) state
		return "ok ; " + h.digest()
	case "stalenotify":
		if h.gme == nil || len(h.removed[a["e"]]) == 0 {
			return "bad-op"
		}
		st := connectivity.Shutdown
		if a["ready"] == "1" {
			st = connectivity.Ready
		}
		l := h.removed[a["e"]]
		verifDeliver(l[len(l)-1], st)
		return "ok ; " + h.digest()
	case "pstate":
		if h.gme == nil {
			return "bad-op"
		}
		h.gme.mu.RLock()
		mc := h.gme.pools[a["e"]]
		h.gme.mu.RUnlock()
		if mc == nil {
			return "bad-op"
		}
		st := connectivity.TransientFailure
		if a["ready"] == "1" {
			st = connectivity.Ready
		}
		verifDeliver(mc, st)
		return "ok ; " + h.digest()
	case "rpc":
		if h.gme == nil {
			return "bad-op"
		}
		ctx := context.Background()
		if a["name"] == "~" {
			ctx = NewMEContext(ctx, "") // named, by the empty name
		} else if a["name"] != "-" {
			ctx = NewMEContext(ctx, a["name"])
		}
		if a["via"] == "stream" {
			// a context derived from an earlier call of the library (a stream's Context()): the name is still in
			// it, under the values the interceptors and an application middleware put on top
			ctx = context.WithValue(ctx, gcpKey, &gcpContext{})
			ctx = context.WithValue(ctx, vForeignKey(0), "x")
		}
		c := h.gme.pickConn(ctx)
		for e, mc := range h.gme.pools {
			if mc.conn == c {
				if c.GetState() == connectivity.Shutdown {
					return "pool=" + e + "(closed)"
				}
				return "pool=" + e
			}
		}
		return "pool=?"
	case "close":
		if h.gme == nil {
			return "bad-op"
		}
		h.gme.Close()
		d := h.digestAfterClose()
		h.gme = nil
		return "ok ; " + d
	}
	return "bad-op"
}

// vForeignKey: somebody else's context key type with the same underlying value as the library's own keys
type vForeignKey int

func (h *gmeHarness) digestAfterClose() string {
	open := 0
	for _, cs := range h.conns {
		for _, c := range cs {
			if c.GetState() != connectivity.Shutdown {
				open++
			}
		}
	}
	mons := 0
	for i := 0; i < 200; i++ {
		if mons = gmeMonitors(); mons == 0 {
			break
		}
		time.Sleep(2 * time.Millisecond)
	}
	return fmt.Sprintf("mes= pools= default= open=%d monitors=%d dials=", open, mons)
}

func TestVerifGME(t *testing.T) {
	out := os.Getenv("VERIF_OUT")
	if out == "" {
		t.Skip("VERIF_OUT not set")
	}
	f, err := os.Create(out)
	if err != nil {
		t.Fatal(err)
	}
	defer f.Close()
	w := bufio.NewWriter(f)
	defer w.Flush()
	seed, _ := strconv.ParseInt(os.Getenv("VERIF_SEED"), 10, 64)
	episodes, _ := strconv.Atoi(os.Getenv("VERIF_EPISODES"))
	rng := rand.New(rand.NewSource(seed))
	h := &gmeHarness{conns: map[string][]*grpc.ClientConn{}, dials: map[string]int{}, apiCfg: &pb.ApiConfig{ChannelPool: &pb.ChannelPoolConfig{MinSize: 1, MaxSize: 2}}}
	emit := func(line string) string {
		obs := h.exec(line)
		if strings.HasPrefix(obs, "@") { // the operation reports its own line (it carries what the environment did)
			fmt.Fprintf(w, "%s\n", obs[1:])
			return obs
		}
		fmt.Fprintf(w, "%s => %s\n", line, obs)
		return obs
	}
	if ops := os.Getenv("VERIF_OPS"); ops != "" {
		for _, file := range strings.Split(ops, ",") {
			data, err := os.ReadFile(file)
			if err != nil {
				t.Fatal(err)
			}
			for _, line := range strings.Split(string(data), "\n") {
				line = strings.TrimSpace(line)
				if line == "" || strings.HasPrefix(line, "#") {
					continue
				}
				if i := strings.Index(line, " =>"); i >= 0 {
					line = line[:i]
				}
				emit(line)
			}
		}
	}
	eps := []string{"e1", "e2", "e3", "e4"}
	names := []string{"default", "read", "w", "x", "~"} // "~" stands for the empty name
	genOpts := func() (string, string, string) {
		n := 1 + rng.Intn(3)
		items := []string{}
		used := []string{}
		// any subset of the names: an update may drop one name while it adds another
		pick := rng.Perm(len(names))
		if rng.Intn(3) == 0 {
			pick = []int{0, 1, 2, 3, 4}
		}
		for i := 0; i < n; i++ {
			name := names[pick[i]]
			k := 1 + rng.Intn(3)
			l := []string{}
			for j := 0; j < k; j++ {
				l = append(l, eps[rng.Intn(len(eps))])
			}
			item := name + ":" + strings.Join(l, "+")
			switch rng.Intn(14) {
			case 0:
				item = name + ":"
			case 1:
				item = name + ":-"
			}
			items = append(items, item)
			used = append(used, name)
		}
		def := used[rng.Intn(len(used))]
		switch rng.Intn(16) {
		case 0:
			def = "nosuch"
		case 1:
			def = "" // no default named at all
		}
		fail := ""
		if rng.Intn(4) == 0 {
			fail = eps[rng.Intn(len(eps))]
			if rng.Intn(3) == 0 {
				fail += "+" + eps[rng.Intn(len(eps))]
			}
		}
		rng.Shuffle(len(items), func(i, j int) { items[i], items[j] = items[j], items[i] })
		return def, strings.Join(items, ","), fail
	}
	for ep := 0; ep < episodes; ep++ {
		if ep%40 == 1 { // a pool with real connectivity and the real monitor goroutine
			emit(fmt.Sprintf("gme livemon flips=%d", 1+(ep/40)%4))
		}
		if ep%80 == 21 { // … and its monitor stopped between notify and WaitForStateChange while an update runs
			emit("gme livemon park=1")
		}
		if ep%80 == 61 { // … and MultiEndpoints with a switching delay added over READY pools
			emit("gme liveorder")
		}
		if ep%200 == 101 { // Close with recovery timers pending (K9)
			emit("gme closetimers")
		}
		d, o, fl := genOpts()
		obs := emit(fmt.Sprintf("gme new default=%s opts=%s fail=%s", d, o, fl))
		if !strings.HasPrefix(obs, "ok") {
			continue
		}
		for i := 0; i < 6+rng.Intn(10); i++ {
			if len(h.removed) > 0 && rng.Intn(4) == 0 {
				es := []string{}
				for e := range h.removed {
					es = append(es, e)
				}
				sort.Strings(es)
				emit(fmt.Sprintf("gme stalenotify e=%s ready=%d", es[rng.Intn(len(es))], rng.Intn(3)/2))
				continue
			}
			switch k := rng.Intn(10); {
			case k < 3:
				emit(fmt.Sprintf("gme pstate e=%s ready=%d", eps[rng.Intn(len(eps))], rng.Intn(2)))
			case k < 7:
				nm := []string{"-", "default", "read", "w", "x", "zzz", "~", "-"}[rng.Intn(8)]
				if rng.Intn(4) == 0 {
					emit("gme rpc name=" + nm + " via=stream")
				} else {
					emit("gme rpc name=" + nm)
				}
			default:
				d, o, fl := genOpts()
				emit(fmt.Sprintf("gme upd default=%s opts=%s fail=%s", d, o, fl))
			}
		}
		emit("gme close")
	}
}
