//go:build verif

// Correspondence harness for the channel pool (gcp_balancer.go, gcp_picker.go): C01–C09, C20.
// Injected with `go test -overlay`; nothing is written under /repo.
//
// One operation per line, `op => ev ; ev ; ... ; dg <digest>` (DESIGN Appendix B):
//   pool cfg min= max= wm= fb=0|1 rr=0|1 uc= ums= cfg=given|nil|empty   (new balancer; nothing is called yet)
//   pool ccs addrs=<ver>                     UpdateClientConnState (ver 0 = empty address list)
//   pool reserr                              ResolverError
//   pool scs sc=<id> st=IDLE|CONNECTING|READY|TF|SHUTDOWN
//   pool factory fail=<n>                    the next n NewSubConn calls fail
//   pool pickpre call=<id> ...               a pick (same arguments as pick) whose context has ended before Pick is called
//   pool pick2 a=<id> b=<id> picker=<n> [picker2=<n> m=bound req=<key>/ req2=<key>/]
//                                            two picks (plain, or BOUND with the given keys; the second one on picker2 if
//                                            given) run concurrently while the harness stalls gb.mu
//   pool doneswap call=<id> reply=<key>/ sc=<id>   a BIND call completes successfully and is stopped right before it takes
//                                            the balancer lock to record its keys; the replacement connection <sc> is
//                                            reported READY (the swap) meanwhile; then the completion continues
//   pool other                               another channel of the same process builds (and closes) its own balancer: nothing
//                                            in this balancer — tables, published pickers — may change
//   pool doneccs call=<id> addrs=<v>         a call completes with a client-side deadline error; if that makes the balancer
//                                            create a replacement connection, a resolver update with list <v> arrives while the
//                                            factory is at work (otherwise right afterwards)
//   pool scsdone call=<id> sc=<id>           while the harness stalls gb.mu, the report that completes a refresh (replacement <sc>
//                                            READY) and then a call's completion with a client-side deadline error queue
//                                            up on the lock, in that order: the completion has made up its mind about a refresh
//                                            before the swap and acts on it afterwards
//   pool done2 a=<id> b=<id>                 two calls complete with a client-side deadline error at the same time while
//                                            the harness stalls gb.mu (both reach refresh() together)
//                                            => <events> ; a:<result> ; b:<result> ; <digest>
//   pool adv ns=<n>                          advance the virtual clock
//   pool pickhold call=<id> picker=<n> ...   like pick, but the pick is stopped right before gcpBalancer.newSubConn
//                                            if it gets there (=> held); the picker's mutex stays locked
//   pool resume call=<id>                    let a stopped pick continue
//   pool rrburst first=<id> n=<k> picker=<n> g=<goroutines>   k round-robin BIND picks issued concurrently on a pool whose
//                                            channels are all READY, each completed with an error at once => burst=<picks per slot>
//   pool pick call=<id> picker=<n> m=<method> ctx=gcp|gcpnoreply|none dl=<abs ns>|none req=<shape>
//   pool ctxdone call=<id>                   cancel the context of a waiting round-robin BIND pick
//   pool done call=<id> err=discarded reply=/   (gRPC discards the pick: Done(DoneInfo{}))
//   pool done call=<id> err=nil|other[.notfound|.canceled|.internal|.exhausted|.aborted|.plain]|declient|deserver reply=<key>/<k1,k2>
// Events: new sc= a= | newfail | connect sc= | upd sc= a= | remove sc= |
//         state <S> picker=<n> err:<tf|nosc> | state <S> picker=<n> gcp:<slot.slot...> |
//         placed sc= | nosc | tf | keyerr | waiting | woke call= sc= | PANIC | HANG
package grpcgcp

import (
	"bufio"
	"context"
	"errors"
	"fmt"
	"io"
	"math/rand"
	"os"
	"reflect"
	"sort"
	"strconv"
	"strings"
	"sync"
	"sync/atomic"
	"testing"
	"time"
	"unsafe"

	"google.golang.org/grpc/balancer"
	"google.golang.org/grpc/codes"
	"google.golang.org/grpc/connectivity"
	"google.golang.org/grpc/grpclog"
	"google.golang.org/grpc/resolver"
	"google.golang.org/grpc/status"

	pb "github.com/GoogleCloudPlatform/grpc-gcp-go/grpcgcp/grpc_gcp"
)

func init() {
	// the library logs every failed NewSubConn etc.; keep the harness output small
	grpclog.SetLoggerV2(grpclog.NewLoggerV2(io.Discard, io.Discard, io.Discard))
}

// ---- virtual clock (time.Now() in the package sources is rewritten to verifNow() by the overlay)

var verifClock int64 // ns since verifBase
var verifBase = time.Unix(1700000000, 0)

func verifNow() time.Time { return verifBase.Add(time.Duration(atomic.LoadInt64(&verifClock))) }

// ---- schedule hook (a call to verifHookNewSubConn() is placed in front of the first statement of
// gcpBalancer.newSubConn by the overlay, bin/overlay.py): the one pick the harness has armed stops there

var verifHoldArmed int32
var verifHoldParked = make(chan chan struct{}, 1)

func verifHookNewSubConn() {
	if atomic.CompareAndSwapInt32(&verifHoldArmed, 1, 0) {
		rel := make(chan struct{})
		verifHoldParked <- rel
		<-rel
	}
}

// second hook, in front of the lock of bindSubConn / bindSubConnRef (operation `doneswap`)
var verifBindArmed int32
var verifBindParked = make(chan chan struct{}, 1)

// third hook: in detectUnresponsive between the started-after-the-last-response test and the increment of the
// deadline-exceeded counter, where these are separate steps (see bin/overlay.py)
var verifDetectArmed int32
var verifDetectParked = make(chan chan struct{}, 1)

// fourth hook: in monitoredConn.monitor between notify and WaitForStateChange (see bin/overlay.py); armed per endpoint
var verifMonArmed atomic.Value // string: the endpoint whose monitor is to be stopped ("" = none)
var verifMonParked = make(chan chan struct{}, 1)

func verifHookMonitorWait(endpoint string, reported connectivity.State) {
	// the monitor is stopped when it has just reported READY
	if e, _ := verifMonArmed.Load().(string); e != "" && e == endpoint && reported == connectivity.Ready {
		verifMonArmed.Store("")
		rel := make(chan struct{})
		verifMonParked <- rel
		<-rel
	}
}

// fifth hook: at the top of the loop body of the least-loaded scan (see bin/overlay.py); when armed, the pick is
// stopped as it comes to the second channel of its list
var verifScanArmed int32 // 0 = off, k > 0 = stop at the k-th visit of the hook from now
var verifScanParked = make(chan chan struct{}, 1)

func verifHookScan() {
	for {
		k := atomic.LoadInt32(&verifScanArmed)
		if k <= 0 {
			return
		}
		if atomic.CompareAndSwapInt32(&verifScanArmed, k, k-1) {
			if k == 1 {
				rel := make(chan struct{})
				verifScanParked <- rel
				<-rel
			}
			return
		}
	}
}

func verifHookDetect() {
	if atomic.CompareAndSwapInt32(&verifDetectArmed, 1, 0) {
		rel := make(chan struct{})
		verifDetectParked <- rel
		<-rel
	}
}

// sixth hook: in refreshSince in front of the balancer lock (operation `donepark`)
var verifRefreshArmed int32
var verifRefreshParked = make(chan chan struct{}, 1)

func verifHookRefreshSince() {
	if atomic.CompareAndSwapInt32(&verifRefreshArmed, 1, 0) {
		rel := make(chan struct{})
		verifRefreshParked <- rel
		<-rel
	}
}

func verifHookBind() {
	if atomic.CompareAndSwapInt32(&verifBindArmed, 1, 0) {
		rel := make(chan struct{})
		verifBindParked <- rel
		<-rel
	}
}

type vHeld struct {
	c   *vCall
	pn  int
	rel chan struct{}
}

// ---- messages

type vMsg struct {
	Key  string
	Keys []string
}

// ---- fake SubConn / ClientConn

type vSubConn struct {
	id int
	cc *vCC
}

func (sc *vSubConn) UpdateAddresses(a []resolver.Address) {
	sc.cc.ev(fmt.Sprintf("upd sc=%d a=%s", sc.id, addrVer(a)))
}
func (sc *vSubConn) Connect() { sc.cc.ev(fmt.Sprintf("connect sc=%d", sc.id)) }
func (sc *vSubConn) GetOrBuildProducer(balancer.ProducerBuilder) (balancer.Producer, func()) {
	return nil, func() {}
}
func (sc *vSubConn) Shutdown() { sc.cc.ev(fmt.Sprintf("shutdown sc=%d", sc.id)) }

func addrVer(a []resolver.Address) string {
	if len(a) == 0 {
		return "0"
	}
	return strings.TrimPrefix(a[0].Addr, "a")
}

type vPub struct {
	state  connectivity.State
	picker balancer.Picker
}

type vCC struct {
	mu      sync.Mutex
	events  []string
	scs     map[int]*vSubConn
	nextSc  int
	failN   int
	pubs    []vPub
	harness *vPool
	onNew   func() // armed by `doneccs`: runs at the start of the next NewSubConn (outside cc.mu)
	flaky   bool   // operation `ccsflaky`: the next flakyOK creations succeed, every later one fails
	flakyOK int
}

const vMaxEvents = 64 // a spinning callback must not flood the trace

func (cc *vCC) ev(s string) {
	cc.mu.Lock()
	cc.evLocked(s)
	cc.mu.Unlock()
}

func (cc *vCC) evLocked(s string) {
	if len(cc.events) < vMaxEvents {
		cc.events = append(cc.events, s)
	} else if len(cc.events) == vMaxEvents {
		cc.events = append(cc.events, "more-events-dropped")
	}
}

func (cc *vCC) NewSubConn(a []resolver.Address, _ balancer.NewSubConnOptions) (balancer.SubConn, error) {
	cc.mu.Lock()
	f := cc.onNew
	cc.onNew = nil
	cc.mu.Unlock()
	if f != nil {
		f()
	}
	cc.mu.Lock()
	defer cc.mu.Unlock()
	if len(a) == 0 {
		// gRPC 1.56.3: "grpc: cannot create SubConn with empty address list"
		cc.evLocked("newfail")
		return nil, errors.New("grpc: cannot create SubConn with empty address list")
	}
	if cc.failN > 0 {
		cc.failN--
		cc.evLocked("newfail")
		return nil, errors.New("verif: factory failure")
	}
	if cc.flaky {
		if cc.flakyOK == 0 {
			cc.evLocked("newfail")
			return nil, errors.New("verif: the ClientConn is closing")
		}
		cc.flakyOK--
	}
	sc := &vSubConn{id: cc.nextSc, cc: cc}
	cc.nextSc++
	cc.scs[sc.id] = sc
	cc.evLocked(fmt.Sprintf("new sc=%d a=%s", sc.id, addrVer(a)))
	return sc, nil
}
func (cc *vCC) RemoveSubConn(sc balancer.SubConn) {
	cc.ev(fmt.Sprintf("remove sc=%d", sc.(*vSubConn).id))
}
func (cc *vCC) UpdateAddresses(sc balancer.SubConn, a []resolver.Address) {
	cc.ev(fmt.Sprintf("ccupd sc=%d a=%s", sc.(*vSubConn).id, addrVer(a)))
}
func (cc *vCC) UpdateState(s balancer.State) {
	cc.mu.Lock()
	n := len(cc.pubs)
	cc.pubs = append(cc.pubs, vPub{s.ConnectivityState, s.Picker})
	cc.mu.Unlock()
	cc.ev(fmt.Sprintf("state %s picker=%d %s", stName(s.ConnectivityState), n, cc.harness.pickerDesc(s.Picker)))
}
func (cc *vCC) ResolveNow(resolver.ResolveNowOptions) {}
func (cc *vCC) Target() string                        { return "verif" }

func stName(s connectivity.State) string {
	switch s {
	case connectivity.Idle:
		return "IDLE"
	case connectivity.Connecting:
		return "CONNECTING"
	case connectivity.Ready:
		return "READY"
	case connectivity.TransientFailure:
		return "TF"
	case connectivity.Shutdown:
		return "SHUTDOWN"
	}
	return "?"
}

func parseSt(s string) connectivity.State {
	switch s {
	case "IDLE":
		return connectivity.Idle
	case "CONNECTING":
		return connectivity.Connecting
	case "READY":
		return connectivity.Ready
	case "TF":
		return connectivity.TransientFailure
	}
	return connectivity.Shutdown
}

// ---- context whose Deadline is in virtual time and whose Done() reports "blocked in the wait loop"

type vCtx struct {
	context.Context
	dl      *time.Time
	doneCh  chan struct{}
	entered chan struct{} // receives one token per Done() call
}

func (c *vCtx) Deadline() (time.Time, bool) {
	if c.dl == nil {
		return time.Time{}, false
	}
	return *c.dl, true
}
func (c *vCtx) Done() <-chan struct{} {
	select {
	case c.entered <- struct{}{}:
	default:
	}
	return c.doneCh
}
func (c *vCtx) Err() error {
	select {
	case <-c.doneCh:
		return context.Canceled
	default:
		return nil
	}
}

// ---- harness

type vCall struct {
	id     int
	sc     int
	done   func(balancer.DoneInfo)
	ctx    *vCtx
	reply  *vMsg
	result chan string // for a waiting pick
	ref    *subConnRef
}

// every failure that is not a deadline: the library must treat them alike
var vOtherErrs = []string{"other.notfound", "other.canceled", "other.internal", "other.exhausted", "other.aborted", "other.plain"}

type vPool struct {
	cc      *vCC
	gb      *gcpBalancer
	b       balancer.Balancer
	cfg     *GCPBalancerConfig
	cfgKind string
	calls   map[int]*vCall
	waiting []*vCall
	dead    bool
	held    map[int]*vHeld
}

var vMethods = map[string]*pb.AffinityConfig{
	"bind":     {Command: pb.AffinityConfig_BIND, AffinityKey: "key"},
	"bound":    {Command: pb.AffinityConfig_BOUND, AffinityKey: "key"},
	"unbind":   {Command: pb.AffinityConfig_UNBIND, AffinityKey: "key"},
	"bindks":   {Command: pb.AffinityConfig_BIND, AffinityKey: "keys"},
	"boundks":  {Command: pb.AffinityConfig_BOUND, AffinityKey: "keys"},
	"unbindks": {Command: pb.AffinityConfig_UNBIND, AffinityKey: "keys"},
	"boundbad": {Command: pb.AffinityConfig_BOUND, AffinityKey: "nosuch.field"},
}

func (h *vPool) slotOf(ref *subConnRef) int {
	for i, r := range h.gb.scRefList {
		if r == ref {
			return i
		}
	}
	return -1
}

func scID(sc balancer.SubConn) string {
	if sc == nil {
		return "nil"
	}
	if v, ok := sc.(*vSubConn); ok {
		if v == nil {
			return "nil"
		}
		return strconv.Itoa(v.id)
	}
	return "?"
}

func (h *vPool) pickerDesc(p balancer.Picker) string {
	switch v := p.(type) {
	case *errPicker:
		if v.err == balancer.ErrTransientFailure {
			return "err:tf"
		}
		if v.err == balancer.ErrNoSubConnAvailable {
			return "err:nosc"
		}
		return "err:other"
	case *gcpPicker:
		s := []string{}
		for _, r := range v.scRefs {
			s = append(s, strconv.Itoa(h.slotOf(r)))
		}
		return "gcp:" + strings.Join(s, ".")
	}
	return "unknown"
}

func (h *vPool) digest() string {
	gb := h.gb
	// the harness is single-threaded between operations and no call is running: plain reads
	kvs := func(m map[string]balancer.SubConn) string {
		ks := []string{}
		for k := range m {
			ks = append(ks, k)
		}
		sort.Strings(ks)
		out := []string{}
		for _, k := range ks {
			out = append(out, k+":"+scID(m[k]))
		}
		return strings.Join(out, ",")
	}
	ids := []int{}
	stm := map[int]string{}
	for sc, st := range gb.scStates {
		id := sc.(*vSubConn).id
		ids = append(ids, id)
		stm[id] = stName(st)
	}
	sort.Ints(ids)
	sts := []string{}
	for _, id := range ids {
		sts = append(sts, fmt.Sprintf("%d:%s", id, stm[id]))
	}
	ids = ids[:0]
	rm := map[int]int{}
	for sc, ref := range gb.scRefs {
		id := sc.(*vSubConn).id
		ids = append(ids, id)
		rm[id] = h.slotOf(ref)
	}
	sort.Ints(ids)
	refs := []string{}
	for _, id := range ids {
		refs = append(refs, fmt.Sprintf("%d:%d", id, rm[id]))
	}
	ids = ids[:0]
	fm := map[int]int{}
	for sc, ref := range gb.refreshingScRefs {
		id := sc.(*vSubConn).id
		ids = append(ids, id)
		fm[id] = h.slotOf(ref)
	}
	sort.Ints(ids)
	rfr := []string{}
	for _, id := range ids {
		rfr = append(rfr, fmt.Sprintf("%d:%d", id, fm[id]))
	}
	slots := []string{}
	for i, r := range gb.scRefList {
		rf := 0
		if r.refreshing {
			rf = 1
		}
		slots = append(slots, fmt.Sprintf("%d:%s:%d:%d:%d:%d:%d:%d", i, scID(r.subConn), r.affinityCnt, r.streamsCnt,
			r.lastResp.Sub(verifBase).Nanoseconds(), r.deCalls, rf, r.refreshCnt))
	}
	return fmt.Sprintf("dg aff=%s fb=%s st=%s refs=%s rfr=%s slots=%s ev=%d/%d/%d aggr=%s rr=%d now=%d",
		kvs(gb.affinityMap), kvs(gb.fallbackMap), strings.Join(sts, ","), strings.Join(refs, ","), strings.Join(rfr, ","),
		strings.Join(slots, ";"), gb.csEvltr.numReady, gb.csEvltr.numConnecting, gb.csEvltr.numTransientFailure,
		stName(gb.state), vCursor(gb), atomic.LoadInt64(&verifClock))
}

// vCursor reads the round-robin cursor, vCursorAdd advances it, whatever unsigned type the field has.
func vCursor(gb *gcpBalancer) uint64 {
	return reflect.ValueOf(gb).Elem().FieldByName("rrRefId").Uint()
}

func vCursorAdd(gb *gcpBalancer, d uint64) {
	f := reflect.ValueOf(gb).Elem().FieldByName("rrRefId")
	p := unsafe.Pointer(f.UnsafeAddr())
	switch f.Kind() {
	case reflect.Uint32:
		atomic.AddUint32((*uint32)(p), uint32(d))
	case reflect.Uint64:
		atomic.AddUint64((*uint64)(p), d)
	default:
		panic("rrRefId: unexpected kind " + f.Kind().String())
	}
}

func argsOf(toks []string) map[string]string {
	m := map[string]string{}
	for _, t := range toks {
		i := strings.IndexByte(t, '=')
		if i < 0 {
			m[t] = ""
		} else {
			m[t[:i]] = t[i+1:]
		}
	}
	return m
}

func splitList(s string) []string {
	if s == "" {
		return []string{}
	}
	return strings.Split(s, ",")
}

// "<key>/<k1,k2>" -> message; "bad:nil|nilptr|wrong" -> malformed request values
// requests and replies are different message types whose key fields sit at different positions: whatever the
// library remembers about one type must not be applied to the other
type vReqMsg struct {
	Pad  int
	Keys []string
	Aux  string
	Key  string
}

func mkReq(shape string) interface{} {
	switch shape {
	case "bad:nil":
		return nil
	case "bad:nilptr":
		return (*vMsg)(nil)
	case "bad:wrong":
		return "a string, not a struct"
	}
	i := strings.IndexByte(shape, '/')
	if i < 0 {
		return &vReqMsg{Key: shape, Aux: "not-the-key"}
	}
	return &vReqMsg{Key: shape[:i], Keys: splitList(shape[i+1:]), Aux: "not-the-key"}
}

// guarded runs f with recover and a watchdog.
func guarded(f func() string) string {
	ch := make(chan string, 1)
	go func() {
		defer func() {
			if r := recover(); r != nil {
				ch <- "PANIC"
			}
		}()
		ch <- f()
	}()
	select {
	case s := <-ch:
		return s
	case <-time.After(3 * time.Second):
		return "HANG"
	}
}

func (h *vPool) takeEvents() []string {
	h.cc.mu.Lock()
	defer h.cc.mu.Unlock()
	e := h.cc.events
	h.cc.events = nil
	return canonEvents(e)
}

// canonEvents sorts every maximal run of "upd sc=X a=V ; connect sc=X" pairs by connection id: the
// balancer walks Go maps there, the order is not part of the behaviour.
func canonEvents(e []string) []string {
	out := []string{}
	i := 0
	for i < len(e) {
		j := i
		type pair struct {
			id   int
			a, b string
		}
		run := []pair{}
		for j+1 < len(e) && strings.HasPrefix(e[j], "upd sc=") && strings.HasPrefix(e[j+1], "connect sc=") {
			var id, id2 int
			var v string
			fmt.Sscanf(e[j], "upd sc=%d a=%s", &id, &v)
			fmt.Sscanf(e[j+1], "connect sc=%d", &id2)
			if id != id2 {
				break
			}
			run = append(run, pair{id, e[j], e[j+1]})
			j += 2
		}
		if len(run) == 0 {
			out = append(out, e[i])
			i++
			continue
		}
		sort.SliceStable(run, func(x, y int) bool { return run[x].id < run[y].id })
		for _, p := range run {
			out = append(out, p.a, p.b)
		}
		i = j
	}
	return out
}

// wakeWaiters: after an operation, every waiting round-robin pick whose slot's connection is READY returns.
func (h *vPool) wakeWaiters() []string {
	out := []string{}
	rest := h.waiting[:0]
	for _, c := range h.waiting {
		if h.gb.scStates[c.ref.subConn] == connectivity.Ready {
			select {
			case r := <-c.result:
				out = append(out, fmt.Sprintf("woke call=%d %s", c.id, h.recordPlaced(c, r)))
			case <-time.After(3 * time.Second):
				out = append(out, fmt.Sprintf("woke call=%d HANG", c.id))
				h.dead = true
			}
		} else {
			rest = append(rest, c)
		}
	}
	h.waiting = rest
	return out
}

func (h *vPool) recordPlaced(c *vCall, r string) string {
	if strings.HasPrefix(r, "placed") {
		h.calls[c.id] = c
	}
	return r
}

func (h *vPool) exec(line string) string {
	toks := strings.Split(line, " ")
	if len(toks) < 2 || toks[0] != "pool" {
		return "bad-op"
	}
	a := argsOf(toks[2:])
	atoi := func(k string) int { n, _ := strconv.Atoi(a[k]); return n }
	if toks[1] == "cfg" {
		h.reset(a)
		return "ok"
	}
	if h.gb == nil || h.dead {
		return "dead"
	}
	res := ""
	switch toks[1] {
	case "ccs", "ccsflaky":
		// ccsflaky ok=<k>: during this update the connection factory works k more times and fails from then on
		// (as gRPC's does once the ClientConn is closing)
		if toks[1] == "ccsflaky" {
			h.cc.mu.Lock()
			h.cc.flaky, h.cc.flakyOK = true, atoi("ok")
			h.cc.mu.Unlock()
			defer func() {
				h.cc.mu.Lock()
				h.cc.flaky = false
				h.cc.mu.Unlock()
			}()
		}
		ver := atoi("addrs")
		addrs := []resolver.Address{}
		if ver > 0 {
			addrs = append(addrs, resolver.Address{Addr: fmt.Sprintf("a%d", ver)})
		}
		st := balancer.ClientConnState{ResolverState: resolver.State{Addresses: addrs}}
		switch h.cfgKind {
		case "given":
			st.BalancerConfig = h.cfg
		case "empty":
			st.BalancerConfig = &GCPBalancerConfig{}
		}
		res = guarded(func() string {
			if err := h.b.UpdateClientConnState(st); err != nil {
				return "err"
			}
			return "ok"
		})
	case "reserr":
		res = guarded(func() string { h.b.ResolverError(errors.New("verif resolver error")); return "ok" })
	case "scs":
		id := atoi("sc")
		sc, ok := h.cc.scs[id]
		if !ok {
			sc = &vSubConn{id: id, cc: h.cc} // unknown connection
		}
		st := parseSt(a["st"])
		res = guarded(func() string {
			h.b.UpdateSubConnState(sc, balancer.SubConnState{ConnectivityState: st})
			return "ok"
		})
	case "factory":
		h.cc.failN = atoi("fail")
		res = "ok"
	case "other":
		res = guarded(func() string {
			cc2 := &vCC{scs: map[int]*vSubConn{}, harness: &vPool{}}
			b2 := balancer.Get(Name).Build(cc2, balancer.BuildOptions{})
			b2.UpdateClientConnState(balancer.ClientConnState{ResolverState: resolver.State{Addresses: []resolver.Address{{Addr: "other"}}}})
			b2.Close()
			return "ok"
		})
	case "adv":
		n, _ := strconv.ParseInt(a["ns"], 10, 64)
		atomic.AddInt64(&verifClock, n)
		res = "ok"
	case "pick":
		res = h.doPick(a, false)
	case "pickpre":
		a["pre"] = "1"
		res = h.doPick(a, false)
		if res == "waiting" { // a pick whose context is over cannot be left waiting
			res = "HANG"
		}
	case "pickhold":
		res = h.doPick(a, true)
	case "resume":
		id := atoi("call")
		hp, ok := h.held[id]
		if !ok {
			return "bad-op"
		}
		delete(h.held, id)
		close(hp.rel)
		select {
		case r := <-hp.c.result:
			res = h.recordPlaced(hp.c, r)
		case <-time.After(3 * time.Second):
			res = "HANG"
		}
	case "rrjump":
		// stand-in for d round-robin BIND calls that were picked and have completed: the only trace such a call
		// leaves in the balancer is one increment of the cursor (2^32 real picks do not fit in a test)
		d, err := strconv.ParseUint(a["d"], 10, 64)
		if err != nil || len(h.held) > 0 {
			return "bad-op"
		}
		vCursorAdd(h.gb, d)
		res = "ok"
	case "dejump":
		// stand-in for d deadline-exceeded completions that were counted on the channel of that slot
		slot, err1 := strconv.Atoi(a["slot"])
		d, err2 := strconv.ParseUint(a["d"], 10, 32)
		if err1 != nil || err2 != nil || slot < 0 || slot >= len(h.gb.scRefList) || len(h.held) > 0 {
			return "bad-op"
		}
		ref := h.gb.scRefList[slot]
		ref.mu.Lock()
		ref.deCalls += uint32(d)
		ref.mu.Unlock()
		res = "ok"
	case "scanpark":
		res = h.doScanPark(a)
	case "pick2":
		res = h.doPick2(a)
	case "done2":
		res = h.doDone2(a)
	case "donepark":
		res = h.doDonePark(a)
	case "doneswap":
		res = h.doDoneSwap(a)
	case "doneccs":
		res = h.doDoneCcs(a)
	case "scsdone":
		res = h.doScsDone(a)
	case "rrburst":
		res = h.doRRBurst(a)
	case "ctxdone":
		id := atoi("call")
		var c *vCall
		for i, w := range h.waiting {
			if w.id == id {
				c = w
				h.waiting = append(h.waiting[:i:i], h.waiting[i+1:]...)
				break
			}
		}
		if c == nil {
			return "bad-op"
		}
		close(c.ctx.doneCh)
		select {
		case r := <-c.result:
			res = h.recordPlaced(c, r)
		case <-time.After(3 * time.Second):
			res = "HANG"
		}
	case "done":
		id := atoi("call")
		c, ok := h.calls[id]
		if !ok || len(h.held) > 0 { // (a completion needs the pick mutex, which a stopped pick holds)
			return "bad-op"
		}
		delete(h.calls, id)
		var err error
		switch a["err"] {
		case "other":
			err = status.Error(codes.Unavailable, "unavailable")
		case "other.notfound":
			err = status.Error(codes.NotFound, "not found")
		case "other.canceled":
			err = status.Error(codes.Canceled, "canceled")
		case "other.internal":
			err = status.Error(codes.Internal, "internal")
		case "other.exhausted":
			err = status.Error(codes.ResourceExhausted, "exhausted")
		case "other.aborted":
			err = status.Error(codes.Aborted, "aborted")
		case "other.plain":
			err = errors.New("not a status error")
		case "declient":
			err = status.Error(codes.DeadlineExceeded, context.DeadlineExceeded.Error())
		case "deserver":
			err = status.Error(codes.DeadlineExceeded, "deadline exceeded on the server")
		}
		if a["err"] == "discarded" {
			// gRPC found no ready transport on the SubConn it was handed: Done with no error, nothing sent, nothing
			// received, no reply (it then picks again)
			res = guarded(func() string { c.done(balancer.DoneInfo{}); return "ok" })
			break
		}
		if c.reply != nil {
			r := a["reply"]
			if i := strings.IndexByte(r, '/'); i >= 0 {
				c.reply.Key, c.reply.Keys = r[:i], splitList(r[i+1:])
			} else {
				c.reply.Key = r
			}
		}
		res = guarded(func() string {
			c.done(balancer.DoneInfo{Err: err, BytesSent: true, BytesReceived: err == nil})
			return "ok"
		})
	default:
		return "bad-op"
	}
	if res == "bad-op" {
		return "bad-op" // the operation does not apply here; nothing was called
	}
	if res == "PANIC" || res == "HANG" {
		h.dead = true
		return strings.Join(append(h.takeEvents(), res), " ; ")
	}
	evs := h.takeEvents()
	evs = append(evs, res)
	evs = append(evs, h.wakeWaiters()...)
	evs = append(evs, h.takeEvents()...)
	if h.dead {
		return strings.Join(evs, " ; ")
	}
	return strings.Join(append(evs, h.digest()), " ; ")
}

// pickerBusy: a stopped pick holds the balancer's pick mutex (F31): no pick can run meanwhile, on whichever
// picker (two-picker pick2 is what shows that the mutex is balancer-wide).
func (h *vPool) pickerBusy(pn int) bool {
	return len(h.held) > 0
}

func (h *vPool) doPick(a map[string]string, hold bool) string {
	id, _ := strconv.Atoi(a["call"])
	pn, _ := strconv.Atoi(a["picker"])
	if _, dup := h.held[id]; dup || h.pickerBusy(pn) {
		return "bad-op" // a stopped pick keeps the picker's mutex
	}
	if hold && len(h.waiting) > 0 {
		return "bad-op" // a waiting round-robin pick needs the pick mutex when it returns: no pick is stopped meanwhile
	}
	if pn < 0 || pn >= len(h.cc.pubs) {
		return "bad-op"
	}
	p := h.cc.pubs[pn].picker
	c := &vCall{id: id, result: make(chan string, 1)}
	vc := &vCtx{Context: context.Background(), doneCh: make(chan struct{}), entered: make(chan struct{}, 1)}
	if a["dl"] != "none" && a["dl"] != "" {
		n, _ := strconv.ParseInt(a["dl"], 10, 64)
		t := verifBase.Add(time.Duration(n))
		vc.dl = &t
	}
	c.ctx = vc
	if a["pre"] == "1" {
		close(vc.doneCh) // the call's context is already over
	}
	var ctx context.Context = vc
	req := mkReq(a["req"])
	switch a["ctx"] {
	case "gcp":
		c.reply = &vMsg{}
		ctx = context.WithValue(ctx, gcpKey, &gcpContext{reqMsg: req, replyMsg: c.reply})
	case "gcpnoreply":
		ctx = context.WithValue(ctx, gcpKey, &gcpContext{reqMsg: req})
	}
	rrBefore := vCursor(h.gb)
	var parked chan chan struct{}
	if hold && verifHookInstalled {
		parked = verifHoldParked
		atomic.StoreInt32(&verifHoldArmed, 1)
		defer atomic.StoreInt32(&verifHoldArmed, 0)
	}
	go func() {
		defer func() {
			if r := recover(); r != nil {
				c.result <- "PANIC"
			}
		}()
		r, err := p.Pick(balancer.PickInfo{FullMethodName: a["m"], Ctx: ctx})
		switch {
		case err == nil:
			c.done = r.Done
			c.sc = r.SubConn.(*vSubConn).id
			c.result <- fmt.Sprintf("placed sc=%d", c.sc)
		case err == balancer.ErrNoSubConnAvailable:
			c.result <- "nosc"
		case err == balancer.ErrTransientFailure:
			c.result <- "tf"
		default:
			c.result <- "keyerr"
		}
	}()
	select {
	case r := <-c.result:
		return h.recordPlaced(c, r)
	case rel := <-parked:
		// stopped between the pool-size check and newSubConn
		h.held[id] = &vHeld{c: c, pn: pn, rel: rel}
		return "held"
	case <-vc.entered:
		// the pick called ctx.Done(): it is blocked in the round-robin wait loop (or about to return)
		select {
		case r := <-c.result:
			return h.recordPlaced(c, r)
		case <-time.After(20 * time.Millisecond):
		}
		rr := vCursor(h.gb)
		if rr == rrBefore || len(h.gb.scRefList) == 0 {
			return "HANG"
		}
		c.ref = h.gb.scRefList[rr%uint64(len(h.gb.scRefList))]
		h.waiting = append(h.waiting, c)
		return "waiting"
	case <-time.After(3 * time.Second):
		return "HANG"
	}
}

// doPick2 runs two plain picks on one picker concurrently. While they start, the harness holds the
// balancer lock, so a pick that has to ask the balancer (a saturated pool: getConnectionPoolSize,
// newSubConn) stops in the middle of Pick; both are then released together. The picker's own
// mutex is what must make "find the least-loaded channel and count the call on it" atomic.
func (h *vPool) doPick2(a map[string]string) string {
	ida, _ := strconv.Atoi(a["a"])
	idb, _ := strconv.Atoi(a["b"])
	pn, _ := strconv.Atoi(a["picker"])
	pn2 := pn
	if a["picker2"] != "" {
		pn2, _ = strconv.Atoi(a["picker2"])
	}
	if pn < 0 || pn >= len(h.cc.pubs) || pn2 < 0 || pn2 >= len(h.cc.pubs) {
		return "bad-op"
	}
	if _, dup := h.calls[ida]; dup || ida == idb || h.pickerBusy(pn) || h.pickerBusy(pn2) {
		return "bad-op"
	}
	if _, dup := h.calls[idb]; dup {
		return "bad-op"
	}
	method := "plain"
	if a["m"] != "" {
		method = a["m"]
	}
	reqs := []string{"/", "/"}
	if a["req"] != "" {
		reqs[0] = a["req"]
	}
	if a["req2"] != "" {
		reqs[1] = a["req2"]
	}
	ps := []balancer.Picker{h.cc.pubs[pn].picker, h.cc.pubs[pn2].picker}
	mk := func(id int) *vCall {
		c := &vCall{id: id, result: make(chan string, 1), reply: &vMsg{}}
		c.ctx = &vCtx{Context: context.Background(), doneCh: make(chan struct{}), entered: make(chan struct{}, 1)}
		return c
	}
	cs := []*vCall{mk(ida), mk(idb)}
	h.gb.mu.Lock()
	for i, c := range cs {
		i, c := i, c
		go func() {
			defer func() {
				if r := recover(); r != nil {
					c.result <- "PANIC"
				}
			}()
			ctx := context.WithValue(context.Context(c.ctx), gcpKey, &gcpContext{reqMsg: mkReq(reqs[i]), replyMsg: c.reply})
			r, err := ps[i].Pick(balancer.PickInfo{FullMethodName: method, Ctx: ctx})
			switch {
			case err == nil:
				c.done = r.Done
				c.sc = r.SubConn.(*vSubConn).id
				c.result <- fmt.Sprintf("placed sc=%d", c.sc)
			case err == balancer.ErrNoSubConnAvailable:
				c.result <- "nosc"
			case err == balancer.ErrTransientFailure:
				c.result <- "tf"
			default:
				c.result <- "keyerr"
			}
		}()
	}
	time.Sleep(4 * time.Millisecond) // both are now blocked on the balancer lock, or have returned
	h.gb.mu.Unlock()
	out := []string{}
	for i, c := range cs {
		select {
		case r := <-c.result:
			if r == "PANIC" {
				return "PANIC"
			}
			h.recordPlaced(c, r)
			out = append(out, []string{"a:", "b:"}[i]+r)
		case <-time.After(3 * time.Second):
			return "HANG"
		}
	}
	return strings.Join(out, " ; ")
}

// doScanPark: `pool scanpark call=<id> picker=<n> dones=<id>+<id>+…`: a plain pick is stopped inside its least-loaded scan
// when it has read the counter of the first channel of its list; the calls named in dones= complete (err=other: no
// binding, counts as a response); the pick continues. With counters that change only under the pick mutex the
// completions wait for the pick (`dones=blocked`), otherwise they run in the middle of the scan (`dones=ran`).
//   => placed sc=<n> | nosc ; dones=ran|blocked|none
func (h *vPool) doScanPark(a map[string]string) string {
	id, _ := strconv.Atoi(a["call"])
	pn, _ := strconv.Atoi(a["picker"])
	if !verifScanHookInstalled || pn < 0 || pn >= len(h.cc.pubs) || len(h.held) > 0 {
		return "bad-op"
	}
	if _, dup := h.calls[id]; dup {
		return "bad-op"
	}
	gp, ok := h.cc.pubs[pn].picker.(*gcpPicker)
	if !ok || len(gp.scRefs) < 2 {
		return "bad-op"
	}
	var dones []*vCall
	for _, t := range strings.Split(a["dones"], "+") {
		d, err := strconv.Atoi(t)
		c, ok := h.calls[d]
		if err != nil || !ok || d == id {
			return "bad-op"
		}
		dones = append(dones, c)
	}
	for _, c := range dones {
		delete(h.calls, c.id)
	}
	c := &vCall{id: id, result: make(chan string, 1), reply: &vMsg{}}
	c.ctx = &vCtx{Context: context.Background(), doneCh: make(chan struct{}), entered: make(chan struct{}, 1)}
	atomic.StoreInt32(&verifScanArmed, 2) // the second visit of the hook = the second channel of the list
	go func() {
		defer func() {
			if r := recover(); r != nil {
				c.result <- "PANIC"
			}
		}()
		ctx := context.WithValue(context.Context(c.ctx), gcpKey, &gcpContext{reqMsg: mkReq("/"), replyMsg: c.reply})
		r, err := gp.Pick(balancer.PickInfo{FullMethodName: "plain", Ctx: ctx})
		switch {
		case err == nil:
			c.done = r.Done
			c.sc = r.SubConn.(*vSubConn).id
			c.result <- fmt.Sprintf("placed sc=%d", c.sc)
		case err == balancer.ErrNoSubConnAvailable:
			c.result <- "nosc"
		default:
			c.result <- "keyerr"
		}
	}()
	var rel chan struct{}
	first := ""
	select {
	case rel = <-verifScanParked:
	case first = <-c.result: // the pick did not get into a scan over two channels
	case <-time.After(3 * time.Second):
		atomic.StoreInt32(&verifScanArmed, 0)
		return "HANG"
	}
	atomic.StoreInt32(&verifScanArmed, 0)
	finished := make(chan string, len(dones))
	for _, d := range dones {
		d := d
		go func() {
			finished <- guarded(func() string {
				d.done(balancer.DoneInfo{Err: status.Error(codes.Unavailable, "unavailable"), BytesSent: true})
				return "ok"
			})
		}()
	}
	how := "none"
	got := 0
	if rel != nil {
		// do the completions get through while the scan is stopped?
		timeout := time.After(30 * time.Millisecond)
	wait:
		for got < len(dones) {
			select {
			case r := <-finished:
				if r != "ok" {
					close(rel)
					return r
				}
				got++
			case <-timeout:
				break wait
			}
		}
		how = "blocked"
		if got == len(dones) {
			how = "ran"
		} else if got > 0 {
			how = "some"
		}
		close(rel)
		select {
		case first = <-c.result:
		case <-time.After(3 * time.Second):
			return "HANG"
		}
	}
	for got < len(dones) {
		select {
		case r := <-finished:
			if r != "ok" {
				return r
			}
			got++
		case <-time.After(3 * time.Second):
			return "HANG"
		}
	}
	if first == "PANIC" {
		return "PANIC"
	}
	h.recordPlaced(c, first)
	return first + " ; dones=" + how
}

// doDoneSwap: see the header. The completion goroutine is parked by the overlay's hook in front of bindSubConn's
// lock, i.e. after the callback has read which connection its channel uses.
func (h *vPool) doDoneSwap(a map[string]string) string {
	if len(h.held) > 0 {
		return "bad-op" // completions need the pick mutex, which a stopped pick holds
	}
	id, _ := strconv.Atoi(a["call"])
	scid, _ := strconv.Atoi(a["sc"])
	c, ok := h.calls[id]
	sc, ok2 := h.cc.scs[scid]
	if !ok || !ok2 || !verifBindHookInstalled {
		return "bad-op"
	}
	delete(h.calls, id)
	if c.reply != nil {
		r := a["reply"]
		if i := strings.IndexByte(r, '/'); i >= 0 {
			c.reply.Key, c.reply.Keys = r[:i], splitList(r[i+1:])
		} else {
			c.reply.Key = r
		}
	}
	atomic.StoreInt32(&verifBindArmed, 1)
	doneCh := make(chan string, 1)
	go func() {
		doneCh <- guarded(func() string { c.done(balancer.DoneInfo{}); return "ok" })
	}()
	var rel chan struct{}
	first := ""
	select {
	case rel = <-verifBindParked:
	case first = <-doneCh: // nothing to bind: the completion ran through
	case <-time.After(3 * time.Second):
		return "HANG"
	}
	atomic.StoreInt32(&verifBindArmed, 0)
	r2 := guarded(func() string {
		h.b.UpdateSubConnState(sc, balancer.SubConnState{ConnectivityState: connectivity.Ready})
		return "ok"
	})
	if rel != nil {
		close(rel)
		select {
		case first = <-doneCh:
		case <-time.After(3 * time.Second):
			return "HANG"
		}
	}
	if first != "ok" {
		return first
	}
	return r2
}

// doScsDone: see the header. Both goroutines have waited for the lock for more than a millisecond when it is released,
// so the mutex hands it over in arrival order.
func (h *vPool) doScsDone(a map[string]string) string {
	if len(h.held) > 0 {
		return "bad-op" // completions need the pick mutex, which a stopped pick holds
	}
	id, _ := strconv.Atoi(a["call"])
	scid, _ := strconv.Atoi(a["sc"])
	c, ok := h.calls[id]
	sc, ok2 := h.cc.scs[scid]
	if !ok || !ok2 {
		return "bad-op"
	}
	delete(h.calls, id)
	if c.reply != nil {
		c.reply.Key, c.reply.Keys = "", nil
	}
	res := make(chan string, 2)
	h.gb.mu.Lock()
	go func() {
		res <- guarded(func() string {
			h.b.UpdateSubConnState(sc, balancer.SubConnState{ConnectivityState: connectivity.Ready})
			return "ok"
		})
	}()
	time.Sleep(3 * time.Millisecond)
	go func() {
		res <- guarded(func() string {
			c.done(balancer.DoneInfo{Err: status.Error(codes.DeadlineExceeded, context.DeadlineExceeded.Error()), BytesSent: true})
			return "ok"
		})
	}()
	time.Sleep(4 * time.Millisecond)
	h.gb.mu.Unlock()
	out := "ok"
	for i := 0; i < 2; i++ {
		select {
		case r := <-res:
			if r != "ok" {
				out = r
			}
		case <-time.After(4 * time.Second):
			return "HANG"
		}
	}
	return out
}

// doDoneCcs: see the header. The resolver update is started from inside the connection factory and given time to
// run; on the clean tree it has to wait for the balancer lock that refresh() holds.
func (h *vPool) doDoneCcs(a map[string]string) string {
	if len(h.held) > 0 {
		return "bad-op" // completions need the pick mutex, which a stopped pick holds
	}
	id, _ := strconv.Atoi(a["call"])
	ver, _ := strconv.Atoi(a["addrs"])
	c, ok := h.calls[id]
	if !ok {
		return "bad-op"
	}
	delete(h.calls, id)
	if c.reply != nil {
		c.reply.Key, c.reply.Keys = "", nil
	}
	addrs := []resolver.Address{}
	if ver > 0 {
		addrs = append(addrs, resolver.Address{Addr: fmt.Sprintf("a%d", ver)})
	}
	st := balancer.ClientConnState{ResolverState: resolver.State{Addresses: addrs}}
	switch h.cfgKind {
	case "given":
		st.BalancerConfig = h.cfg
	case "empty":
		st.BalancerConfig = &GCPBalancerConfig{}
	}
	ccsDone := make(chan string, 1)
	fired := int32(0)
	h.cc.mu.Lock()
	h.cc.onNew = func() {
		atomic.StoreInt32(&fired, 1)
		go func() {
			ccsDone <- guarded(func() string { h.b.UpdateClientConnState(st); return "ok" })
		}()
		time.Sleep(15 * time.Millisecond)
	}
	h.cc.mu.Unlock()
	r1 := guarded(func() string {
		c.done(balancer.DoneInfo{Err: status.Error(codes.DeadlineExceeded, context.DeadlineExceeded.Error())})
		return "ok"
	})
	h.cc.mu.Lock()
	h.cc.onNew = nil
	h.cc.mu.Unlock()
	r2 := "ok"
	if atomic.LoadInt32(&fired) == 1 {
		select {
		case r2 = <-ccsDone:
		case <-time.After(3 * time.Second):
			r2 = "HANG"
		}
	} else {
		r2 = guarded(func() string { h.b.UpdateClientConnState(st); return "ok" })
	}
	if r1 != "ok" {
		return r1
	}
	return r2
}

// doDonePark: `pool donepark a=<id> b=<id> c=<id>`: call a ends with a client-side deadline error; if the detector decides
// to refresh, the completion is stopped in refreshSince before it takes the balancer lock. Meanwhile call b ends the same
// way (and may refresh the channel), the replacement - if exactly one refresh is in flight then - reports READY and takes over, and call c
// ends the same way (counted on the fresh connection). Then a's completion continues with its old decision.
func (h *vPool) doDonePark(a map[string]string) string {
	if len(h.held) > 0 || !verifRefreshHookInstalled {
		return "bad-op"
	}
	ida, _ := strconv.Atoi(a["a"])
	idb, _ := strconv.Atoi(a["b"])
	idc, _ := strconv.Atoi(a["c"])
	ca, oka := h.calls[ida]
	cb, okb := h.calls[idb]
	cc, okc := h.calls[idc]
	if !oka || !okb || !okc || ida == idb || ida == idc || idb == idc {
		return "bad-op"
	}
	for _, c := range []*vCall{ca, cb, cc} {
		delete(h.calls, c.id)
		if c.reply != nil {
			c.reply.Key, c.reply.Keys = "", nil
		}
	}
	de := func(c *vCall) string {
		return guarded(func() string {
			c.done(balancer.DoneInfo{Err: status.Error(codes.DeadlineExceeded, context.DeadlineExceeded.Error()), BytesSent: true})
			return "ok"
		})
	}
	atomic.StoreInt32(&verifRefreshArmed, 1)
	doneA := make(chan string, 1)
	go func() { doneA <- de(ca) }()
	var rel chan struct{}
	first := ""
	select {
	case rel = <-verifRefreshParked:
	case first = <-doneA: // no decision to refresh: the completion ran through
	case <-time.After(3 * time.Second):
		return "HANG"
	}
	atomic.StoreInt32(&verifRefreshArmed, 0)
	out := "ok"
	if r := de(cb); r != "ok" {
		out = r
	}
	var fresh balancer.SubConn
	h.gb.mu.Lock()
	if len(h.gb.refreshingScRefs) == 1 { // exactly one refresh in flight: its replacement becomes READY
		for sc := range h.gb.refreshingScRefs {
			fresh = sc
		}
	}
	h.gb.mu.Unlock()
	if fresh != nil {
		if r := guarded(func() string {
			h.b.UpdateSubConnState(fresh, balancer.SubConnState{ConnectivityState: connectivity.Ready})
			return "ok"
		}); r != "ok" {
			out = r
		}
	}
	if r := de(cc); r != "ok" {
		out = r
	}
	if rel != nil {
		close(rel)
		select {
		case first = <-doneA:
		case <-time.After(3 * time.Second):
			return "HANG"
		}
	}
	if first != "ok" {
		return first
	}
	return out
}

// doDone2 completes two calls with a client-side deadline error from two goroutines while gb.mu is held by the
// harness: whatever both do before they need the balancer lock has happened for both when it is released.
func (h *vPool) doDone2(a map[string]string) string {
	if len(h.held) > 0 {
		return "bad-op" // completions need the pick mutex, which a stopped pick holds
	}
	ida, _ := strconv.Atoi(a["a"])
	idb, _ := strconv.Atoi(a["b"])
	ca, oka := h.calls[ida]
	cb, okb := h.calls[idb]
	if !oka || !okb || ida == idb {
		return "bad-op"
	}
	if a["park"] == "1" {
		// a: ends with a client-side deadline error and is stopped between the detector's test "started after the
		// last response" and its increment; b: completes successfully meanwhile (a response); then a continues
		if !verifDetectHookInstalled {
			return "bad-op"
		}
		delete(h.calls, ida)
		delete(h.calls, idb)
		for _, c := range []*vCall{ca, cb} {
			if c.reply != nil {
				c.reply.Key, c.reply.Keys = "", nil
			}
		}
		atomic.StoreInt32(&verifDetectArmed, 1)
		doneA := make(chan string, 1)
		go func() {
			doneA <- guarded(func() string {
				ca.done(balancer.DoneInfo{Err: status.Error(codes.DeadlineExceeded, context.DeadlineExceeded.Error()), BytesSent: true})
				return "ok"
			})
		}()
		var rel chan struct{}
		first := ""
		select {
		case rel = <-verifDetectParked:
		case first = <-doneA: // the detector did not get that far (detection off, not past its deadline, …)
		case <-time.After(3 * time.Second):
			return "HANG"
		}
		atomic.StoreInt32(&verifDetectArmed, 0)
		rb := guarded(func() string {
			cb.done(balancer.DoneInfo{BytesSent: true, BytesReceived: true})
			return "ok"
		})
		if rel != nil {
			close(rel)
			select {
			case first = <-doneA:
			case <-time.After(3 * time.Second):
				return "HANG"
			}
		}
		if first != "ok" {
			return first
		}
		return rb
	}
	delete(h.calls, ida)
	delete(h.calls, idb)
	res := make(chan string, 2)
	h.gb.mu.Lock()
	for _, c := range []*vCall{ca, cb} {
		c := c
		if c.reply != nil {
			c.reply.Key, c.reply.Keys = "", nil
		}
		go func() {
			defer func() {
				if r := recover(); r != nil {
					res <- "PANIC"
				}
			}()
			c.done(balancer.DoneInfo{Err: status.Error(codes.DeadlineExceeded, context.DeadlineExceeded.Error())})
			res <- "ok"
		}()
	}
	time.Sleep(4 * time.Millisecond)
	h.gb.mu.Unlock()
	for i := 0; i < 2; i++ {
		select {
		case r := <-res:
			if r == "PANIC" {
				return "PANIC"
			}
		case <-time.After(3 * time.Second):
			return "HANG"
		}
	}
	return "ok"
}

// doRRBurst issues n round-robin BIND picks from g goroutines at the same time. Every channel is
// READY, so no pick waits; each call is completed with an error right away (no binding). What counts
// is how many picks each channel got: the cursor must be advanced atomically.
func (h *vPool) doRRBurst(a map[string]string) string {
	n, _ := strconv.Atoi(a["n"])
	g, _ := strconv.Atoi(a["g"])
	pn, _ := strconv.Atoi(a["picker"])
	if pn < 0 || pn >= len(h.cc.pubs) || n <= 0 || g <= 0 || h.pickerBusy(pn) || len(h.waiting) > 0 {
		return "bad-op"
	}
	gp, ok := h.cc.pubs[pn].picker.(*gcpPicker)
	if !ok || len(gp.scRefs) == 0 || h.cfgKind != "given" ||
		h.gb.cfg.GetChannelPool().GetBindPickStrategy() != pb.ChannelPoolConfig_ROUND_ROBIN || len(h.gb.scRefList) == 0 {
		return "bad-op"
	}
	for _, ref := range h.gb.scRefList {
		if h.gb.scStates[ref.subConn] != connectivity.Ready {
			return "bad-op"
		}
	}
	counts := make([]int64, len(h.gb.scRefList))
	slotBySc := map[balancer.SubConn]int{}
	for i, ref := range h.gb.scRefList {
		slotBySc[ref.subConn] = i
	}
	var wg sync.WaitGroup
	var bad int32
	per := (n + g - 1) / g
	left := n
	for w := 0; w < g && left > 0; w++ {
		k := per
		if k > left {
			k = left
		}
		left -= k
		wg.Add(1)
		go func(k int) {
			defer wg.Done()
			defer func() {
				if r := recover(); r != nil {
					atomic.StoreInt32(&bad, 2)
				}
			}()
			for i := 0; i < k; i++ {
				ctx := context.WithValue(context.Background(), gcpKey, &gcpContext{reqMsg: mkReq("/"), replyMsg: &vMsg{}})
				r, err := gp.Pick(balancer.PickInfo{FullMethodName: "bind", Ctx: ctx})
				if err != nil {
					atomic.CompareAndSwapInt32(&bad, 0, 1)
					continue
				}
				if sl, ok := slotBySc[r.SubConn]; ok {
					atomic.AddInt64(&counts[sl], 1)
				} else {
					atomic.CompareAndSwapInt32(&bad, 0, 1)
				}
				r.Done(balancer.DoneInfo{Err: status.Error(codes.Unavailable, "unavailable")})
			}
		}(k)
	}
	done := make(chan struct{})
	go func() { wg.Wait(); close(done) }()
	select {
	case <-done:
	case <-time.After(5 * time.Second):
		return "HANG"
	}
	if atomic.LoadInt32(&bad) == 2 {
		return "PANIC"
	}
	cs := []string{}
	for i := range counts {
		cs = append(cs, strconv.FormatInt(atomic.LoadInt64(&counts[i]), 10))
	}
	out := "burst=" + strings.Join(cs, ".")
	if atomic.LoadInt32(&bad) == 1 {
		out += " ; noplace"
	}
	return out + " ; ok"
}

func (h *vPool) reset(a map[string]string) {
	atoi := func(k string) uint32 { n, _ := strconv.Atoi(a[k]); return uint32(n) }
	// release goroutines of the previous episode
	for _, c := range h.waiting {
		close(c.ctx.doneCh)
	}
	for _, hp := range h.held {
		close(hp.rel)
	}
	h.held = map[int]*vHeld{}
	atomic.StoreInt64(&verifClock, 0)
	h.cc = &vCC{scs: map[int]*vSubConn{}, harness: h}
	h.calls = map[int]*vCall{}
	h.waiting = nil
	h.dead = false
	cp := &pb.ChannelPoolConfig{
		MinSize: atoi("min"), MaxSize: atoi("max"), MaxConcurrentStreamsLowWatermark: atoi("wm"),
		FallbackToReady: a["fb"] == "1", UnresponsiveCalls: atoi("uc"), UnresponsiveDetectionMs: atoi("ums"),
	}
	if a["rr"] == "1" {
		cp.BindPickStrategy = pb.ChannelPoolConfig_ROUND_ROBIN
	}
	api := &pb.ApiConfig{ChannelPool: cp}
	names := []string{}
	for n := range vMethods {
		names = append(names, n)
	}
	sort.Strings(names)
	for _, n := range names {
		api.Method = append(api.Method, &pb.MethodConfig{Name: []string{n}, Affinity: vMethods[n]})
	}
	h.cfg = &GCPBalancerConfig{ApiConfig: api}
	h.cfgKind = a["cfg"]
	if h.cfgKind == "" {
		h.cfgKind = "given"
	}
	h.b = balancer.Get(Name).Build(h.cc, balancer.BuildOptions{})
	h.gb = h.b.(*gcpBalancer)
}

// ---- generator

type vGen struct {
	script   []func() string // scripted (but randomised) steps that run before the random walk resumes
	rng      *rand.Rand
	h        *vPool
	nextCall int
	keys     []string
	profile  string
	maxAddr  int
	ums      int
	rrOn     bool
}

func (g *vGen) cfgLine() string {
	r := g.rng
	profiles := []string{"affinity", "load", "growth", "states", "refresh", "fallback", "rr", "chaos"}
	g.profile = profiles[r.Intn(len(profiles))]
	min, max, wm := 1+r.Intn(3), 1+r.Intn(4), 1+r.Intn(4)
	if r.Intn(4) != 0 && max < min {
		max = min + r.Intn(2)
	}
	if r.Intn(10) == 0 {
		min = 0
	}
	if r.Intn(10) == 0 {
		max = 0
	}
	if r.Intn(10) == 0 {
		wm = 0
	}
	if r.Intn(15) == 0 { // the watermark is a uint32: values beyond MaxInt32 mean "never saturated"
		wm = []int{2147483647, 2147483648, 4294967295}[r.Intn(3)]
	}
	fb, rr, uc, ums := r.Intn(2), 0, 0, 0
	switch g.profile {
	case "load":
		wm = 2 + r.Intn(6)
	case "growth":
		wm = 1 + r.Intn(2)
	case "refresh":
		uc, ums = 1+r.Intn(3), 1+r.Intn(3)
	case "fallback":
		fb = 1
	case "rr":
		rr = 1
	case "chaos":
		rr = r.Intn(2)
		if r.Intn(2) == 0 {
			uc, ums = r.Intn(3), r.Intn(3)
		}
	case "affinity":
		if r.Intn(2) == 0 {
			uc, ums = 1+r.Intn(2), 1+r.Intn(2)
		}
	}
	if g.profile != "rr" && g.profile != "chaos" && r.Intn(8) == 0 {
		rr = 1
	}
	cfg := "given"
	if r.Intn(20) == 0 {
		cfg = []string{"nil", "empty"}[r.Intn(2)]
	}
	g.nextCall = 0
	g.script = nil
	if (g.profile == "affinity" || g.profile == "refresh") && r.Intn(2) == 0 {
		uc, ums = 1+r.Intn(3), 1+r.Intn(2)
		wm = 50
		g.ums = ums
		g.scenarioAffinityRefresh()
	}
	if g.profile == "fallback" && r.Intn(2) == 0 {
		uc, ums, wm = 1+r.Intn(3), 1+r.Intn(2), 50
		if min < 2 {
			min = 2
		}
		if max < min {
			max = min
		}
		g.ums = ums
		if r.Intn(3) == 0 {
			if min < 3 {
				min, max = 3, 3+r.Intn(2)
			}
			uc, ums = 0, 0
			if r.Intn(2) == 0 {
				uc, ums = 1, 1 // … and the stand-in is refreshed while the key is unbound
			}
			g.ums = ums
			g.scenarioFallbackRebind()
		} else {
			g.scenarioFallbackRefresh()
		}
	}
	if g.profile == "refresh" && g.script == nil && r.Intn(2) == 0 && cfg == "given" {
		min, max, wm, rr = 1, 1+r.Intn(2), 50, 0
		uc, ums = 1+r.Intn(2), 1+r.Intn(2)
		g.ums = ums
		g.scenarioRefreshRace()
	}
	if g.profile == "refresh" && g.script == nil && r.Intn(3) == 0 && cfg == "given" && verifRefreshHookInstalled {
		// a completion's decision to refresh waits for the balancer lock through a refresh, the swap and a counted call
		min, max, wm, rr = 1, 1+r.Intn(2), 50, 0
		uc, ums = 1+r.Intn(2), 1+r.Intn(2)
		g.ums = ums
		g.scenarioStaleDecision(uc)
	}
	if (g.profile == "rr" || g.profile == "refresh") && g.script == nil && r.Intn(4) == 0 && cfg == "given" {
		// a round-robin BIND call waits for its channel; a response arrives on that channel meanwhile
		min, max, wm, rr, fb = 2, 2, 50, 1, 0
		uc, ums = 1+r.Intn(2), 1+r.Intn(2)
		g.ums = ums
		g.scenarioRRWaitDetector(uc)
	}
	if (g.profile == "growth" || g.profile == "load" || g.profile == "refresh") && g.script == nil && r.Intn(5) == 0 && cfg == "given" {
		// calls in flight across a refresh complete after the swap; then the pool is loaded up to the watermark
		min, max, wm, rr, fb = 1, 2, 3, 0, 0
		uc, ums = 1, 1
		g.ums = ums
		g.scenarioLoadAfterRefresh()
	}
	if (g.profile == "growth" || g.profile == "load") && g.script == nil && r.Intn(2) == 0 && verifHookInstalled && cfg == "given" {
		min, max, wm, rr = 1, 2+r.Intn(2), 1+r.Intn(2), 0
		if r.Intn(6) == 0 {
			max = 1
		}
		g.scenarioGrowthRace(wm)
	}
	g.maxAddr = 1
	g.rrOn = rr == 1
	g.keys = []string{"k1", "k2", "k3", "k4"}[:1+r.Intn(4)]
	return fmt.Sprintf("pool cfg min=%d max=%d wm=%d fb=%d rr=%d uc=%d ums=%d cfg=%s", min, max, wm, fb, rr, uc, ums, cfg)
}

// scenarioLoadAfterRefresh: two calls without a deadline are in flight on the only channel while a third one runs past
// its deadline and makes the detector refresh the channel; the replacement takes over; the two calls complete; then
// calls arrive one by one until the watermark (3) is reached and beyond: the pool may grow only when three calls are
// really in flight.
func (g *vGen) scenarioLoadAfterRefresh() {
	h := g.h
	add := func(f func() string) { g.script = append(g.script, f) }
	cur := func() int { return len(h.cc.pubs) - 1 }
	call := func() int { g.nextCall++; return g.nextCall }
	plain := func(id *int, dl string) func() string {
		return func() string {
			if cur() < 0 {
				return ""
			}
			*id = call()
			d := dl
			if d == "now" {
				d = strconv.FormatInt(atomic.LoadInt64(&verifClock), 10)
			}
			return fmt.Sprintf("pool pick call=%d picker=%d m=plain ctx=gcp dl=%s req=/", *id, cur(), d)
		}
	}
	done := func(id *int, err string) func() string {
		return func() string {
			if _, ok := h.calls[*id]; !ok {
				return ""
			}
			return fmt.Sprintf("pool done call=%d err=%s reply=/", *id, err)
		}
	}
	var a, b, c int
	add(func() string { return "pool ccs addrs=1" })
	add(func() string { return "pool scs sc=0 st=READY" })
	add(plain(&a, "none"))
	add(plain(&b, "none"))
	add(plain(&c, "now"))
	add(func() string { return fmt.Sprintf("pool adv ns=%d", int64(g.ums)*1000000+1) })
	add(done(&c, "declient"))
	add(func() string {
		for sc := range h.gb.refreshingScRefs {
			return fmt.Sprintf("pool scs sc=%d st=READY", sc.(*vSubConn).id)
		}
		return ""
	})
	add(done(&a, "other"))
	add(done(&b, "other"))
	ids := make([]int, 5)
	for i := range ids {
		add(plain(&ids[i], "none"))
	}
	for i := range ids {
		if i%2 == 0 {
			add(done(&ids[i], "other"))
		}
	}
}

// scenarioStaleDecision: uc+1 calls on the only READY channel run past their deadlines; uc-1 of them complete and are
// counted; a fresh call starts; then (donepark) the next completion decides to refresh and is stopped before the
// balancer lock, the last old call completes and refreshes the channel, the replacement takes over, the fresh call
// completes and is counted on it - and the stopped completion continues: its decision is stale, a second refresh
// right after the swap would start inside the new window.
func (g *vGen) scenarioStaleDecision(uc int) {
	h := g.h
	add := func(f func() string) { g.script = append(g.script, f) }
	cur := func() int { return len(h.cc.pubs) - 1 }
	call := func() int { g.nextCall++; return g.nextCall }
	plain := func(id *int) func() string {
		return func() string {
			if cur() < 0 {
				return ""
			}
			*id = call()
			return fmt.Sprintf("pool pick call=%d picker=%d m=plain ctx=gcp dl=%d req=/", *id, cur(), atomic.LoadInt64(&verifClock))
		}
	}
	old := make([]int, uc+1)
	var fresh int
	add(func() string { return "pool ccs addrs=1" })
	add(func() string { return "pool scs sc=0 st=READY" })
	for i := range old {
		add(plain(&old[i]))
	}
	add(func() string { return fmt.Sprintf("pool adv ns=%d", int64(g.ums)*1000000+1) })
	for i := 0; i < uc-1; i++ {
		i := i
		add(func() string { return fmt.Sprintf("pool done call=%d err=declient reply=/", old[i]) })
	}
	add(plain(&fresh))
	add(func() string { return fmt.Sprintf("pool donepark a=%d b=%d c=%d", old[uc-1], old[uc], fresh) })
	add(func() string { return "pool adv ns=1000" })
}

// scenarioRRWaitDetector: BIND calls are spread round-robin over two channels; the first channel leaves READY and the
// next BIND call assigned to it waits; while it waits the clock advances and the earlier call on that channel gets
// its reply (a response); the channel becomes READY again and the waiting call is handed it - it starts now, after
// that response; it then runs past its deadline (with uc-1 more calls like it): the detector must count them all.
func (g *vGen) scenarioRRWaitDetector(uc int) {
	h := g.h
	add := func(f func() string) { g.script = append(g.script, f) }
	cur := func() int { return len(h.cc.pubs) - 1 }
	call := func() int { g.nextCall++; return g.nextCall }
	bind := func(id *int, dl string) func() string {
		return func() string {
			if cur() < 0 {
				return ""
			}
			*id = call()
			d := dl
			if d == "now" {
				d = strconv.FormatInt(atomic.LoadInt64(&verifClock), 10)
			}
			return fmt.Sprintf("pool pick call=%d picker=%d m=bind ctx=gcp dl=%s req=/", *id, cur(), d)
		}
	}
	done := func(id *int, err string) func() string {
		return func() string {
			if _, ok := h.calls[*id]; !ok {
				return ""
			}
			return fmt.Sprintf("pool done call=%d err=%s reply=/", *id, err)
		}
	}
	var a, b int
	waiters := make([]int, 2*uc-1) // every other one is assigned the first channel
	add(func() string { return "pool ccs addrs=1" })
	add(func() string { return "pool scs sc=0 st=READY" })
	add(func() string { return "pool scs sc=1 st=READY" })
	add(bind(&a, "none")) // first channel
	add(bind(&b, "none")) // second channel
	add(func() string { return "pool scs sc=0 st=IDLE" })
	add(func() string { return "pool adv ns=1000" })
	for i := range waiters {
		add(bind(&waiters[i], "now"))
	}
	add(func() string { return "pool adv ns=1000" })
	add(done(&a, "nil"))
	add(func() string { return "pool adv ns=1000" })
	add(func() string { return "pool scs sc=0 st=READY" })
	add(func() string { return fmt.Sprintf("pool adv ns=%d", int64(g.ums)*1000000+1) })
	for i := range waiters {
		add(done(&waiters[i], "declient"))
	}
	add(func() string {
		for sc := range h.gb.refreshingScRefs {
			return fmt.Sprintf("pool scs sc=%d st=READY", sc.(*vSubConn).id)
		}
		return ""
	})
	add(done(&b, "other"))
}

// scenarioRefreshRace: several calls on one channel run past their deadlines; two of them complete at the same
// moment (done2). Exactly one replacement connection may be created, now and in the following rounds.
func (g *vGen) scenarioRefreshRace() {
	r, h := g.rng, g.h
	add := func(f func() string) { g.script = append(g.script, f) }
	cur := func() int { return len(h.cc.pubs) - 1 }
	now := func() int64 { return atomic.LoadInt64(&verifClock) }
	add(func() string { return "pool ccs addrs=1" })
	add(func() string { return "pool scs sc=0 st=READY" })
	rounds := 1 + r.Intn(2)
	for round := 0; round < rounds; round++ {
		ids := []int{}
		n := 2 + r.Intn(3)
		for j := 0; j < n; j++ {
			add(func() string {
				if cur() < 0 {
					return ""
				}
				g.nextCall++
				ids = append(ids, g.nextCall)
				return fmt.Sprintf("pool pick call=%d picker=%d m=plain ctx=gcp dl=%d req=/", g.nextCall, cur(), now())
			})
		}
		ms := int64(g.ums) * 1000000
		add(func() string { return fmt.Sprintf("pool adv ns=%d", ms<<uint(round)+1) })
		// all but two complete one by one first (or none does)
		early := r.Intn(2) == 0
		for j := 2; j < 5; j++ {
			jj := j
			add(func() string {
				if !early || jj >= len(ids) {
					return ""
				}
				if _, ok := h.calls[ids[jj]]; !ok {
					return ""
				}
				return fmt.Sprintf("pool done call=%d err=declient reply=/", ids[jj])
			})
		}
		add(func() string {
			if len(ids) < 2 {
				return ""
			}
			_, ok0 := h.calls[ids[0]]
			_, ok1 := h.calls[ids[1]]
			if !ok0 || !ok1 {
				return ""
			}
			return fmt.Sprintf("pool done2 a=%d b=%d", ids[0], ids[1])
		})
		for j := 2; j < 5; j++ {
			jj := j
			add(func() string {
				if early || jj >= len(ids) {
					return ""
				}
				if _, ok := h.calls[ids[jj]]; !ok {
					return ""
				}
				return fmt.Sprintf("pool done call=%d err=declient reply=/", ids[jj])
			})
		}
		// the replacement(s) come up; sometimes while one more qualifying call is completing
		racy := r.Intn(2) == 0
		var late int
		add(func() string {
			if !racy || cur() < 0 || len(h.gb.refreshingScRefs) == 0 {
				return ""
			}
			g.nextCall++
			late = g.nextCall
			return fmt.Sprintf("pool pick call=%d picker=%d m=plain ctx=gcp dl=%d req=/", late, cur(), now())
		})
		for k := 0; k < 2; k++ {
			kk := k
			add(func() string {
				ids := []int{}
				for sc := range h.gb.refreshingScRefs {
					ids = append(ids, sc.(*vSubConn).id)
				}
				if len(ids) == 0 {
					return ""
				}
				sort.Ints(ids)
				if _, ok := h.calls[late]; ok && kk == 0 && racy {
					return fmt.Sprintf("pool scsdone call=%d sc=%d", late, ids[0])
				}
				return fmt.Sprintf("pool scs sc=%d st=READY", ids[0])
			})
		}
		add(func() string {
			if _, ok := h.calls[late]; !ok {
				return ""
			}
			return fmt.Sprintf("pool done call=%d err=declient reply=/", late)
		})
	}
}

// scenarioGrowthRace: a pick on a superseded picker is stopped between the pool-size check and
// newSubConn; meanwhile a pick on the current picker grows the pool and the new channel comes up; then
// the stopped pick continues (sometimes earlier, sometimes after further growth).
func (g *vGen) scenarioGrowthRace(wm int) {
	r, h := g.rng, g.h
	add := func(f func() string) { g.script = append(g.script, f) }
	cur := func() int { return len(h.cc.pubs) - 1 }
	plain := func(kind string, pn func() int) func() string {
		return func() string {
			if len(h.cc.pubs) == 0 {
				return ""
			}
			g.nextCall++
			return fmt.Sprintf("pool %s call=%d picker=%d m=plain ctx=gcp dl=none req=/", kind, g.nextCall, pn())
		}
	}
	lastSc := func() int { return h.cc.nextSc - 1 }
	add(func() string { return "pool ccs addrs=1" })
	add(func() string { return "pool scs sc=0 st=READY" })
	for i := 0; i < wm; i++ {
		add(plain("pick", cur))
	}
	// a second picker with the same ready list
	add(func() string { return "pool scs sc=0 st=CONNECTING" })
	add(func() string { return "pool scs sc=0 st=READY" })
	heldID := 0
	add(func() string {
		l := plain("pickhold", func() int { return 0 })()
		heldID = g.nextCall
		return l
	})
	rounds := 1 + r.Intn(2)
	early := r.Intn(4) == 0
	for k := 0; k < rounds; k++ {
		add(plain("pick", cur)) // grows the pool (if it still may)
		if early && k == 0 {
			add(func() string { return fmt.Sprintf("pool resume call=%d", heldID) })
		}
		add(func() string { return fmt.Sprintf("pool scs sc=%d st=CONNECTING", lastSc()) })
		add(func() string { return fmt.Sprintf("pool scs sc=%d st=READY", lastSc()) })
		for i := 0; i < wm; i++ {
			add(plain("pick", cur))
		}
	}
	if !early {
		add(func() string { return fmt.Sprintf("pool resume call=%d", heldID) })
	}
}

// scenarioAffinityRefresh: bind several keys, make one keyed channel unresponsive so that it is
// refreshed, complete the swap, then look every key up again (and unbind some).
func (g *vGen) scenarioAffinityRefresh() {
	r, h := g.rng, g.h
	add := func(f func() string) { g.script = append(g.script, f) }
	cur := func() int { return len(h.cc.pubs) - 1 }
	now := func() int64 { return atomic.LoadInt64(&verifClock) }
	call := func() int { g.nextCall++; return g.nextCall }
	add(func() string { return "pool ccs addrs=1" })
	for i := 0; i < 4; i++ {
		sc := i
		add(func() string {
			if sc >= h.cc.nextSc {
				return ""
			}
			return fmt.Sprintf("pool scs sc=%d st=READY", sc)
		})
	}
	nkeys := 2 + r.Intn(4)
	hold := []int{}
	for i := 0; i < nkeys; i++ {
		k := fmt.Sprintf("k%d", 1+i)
		var id int
		add(func() string {
			if cur() < 0 {
				return ""
			}
			id = call()
			return fmt.Sprintf("pool pick call=%d picker=%d m=bind ctx=gcp dl=none req=/", id, cur())
		})
		if r.Intn(3) == 0 { // keep a filler call in flight so that the next BIND lands elsewhere
			add(func() string {
				if cur() < 0 {
					return ""
				}
				f := call()
				hold = append(hold, f)
				return fmt.Sprintf("pool pick call=%d picker=%d m=plain ctx=gcp dl=none req=/", f, cur())
			})
		}
		add(func() string {
			if _, ok := h.calls[id]; !ok {
				return ""
			}
			return fmt.Sprintf("pool done call=%d err=nil reply=%s/", id, k)
		})
	}
	// make the channel of k1 unresponsive: enough client-deadline completions after the window
	rounds := 1 + r.Intn(3)
	for round := 0; round < rounds; round++ {
		ids := []int{}
		for j := 0; j < 3; j++ {
			add(func() string {
				if cur() < 0 {
					return ""
				}
				id := call()
				ids = append(ids, id)
				return fmt.Sprintf("pool pick call=%d picker=%d m=bound ctx=gcp dl=%d req=k1/", id, cur(), now())
			})
		}
		// around the exponential window ums*2^k and around other plausible (wrong) windows
		ms := int64(g.ums) * 1000000
		k := uint(round)
		advs := []int64{ms<<k + 1, ms<<k + 1, ms << k, ms<<k - 1, ms*int64(k+1) + 1, ms*int64(k+1)*2 + 1, 3*(ms<<k) + 1}
		adv := advs[r.Intn(len(advs))]
		// a call without a deadline on the same channel: its successful completion (a response) arrives while the
		// first deadline-exceeded completion is inside the detector (only where the detector can be stopped there)
		okID := -1
		if verifDetectHookInstalled && r.Intn(2) == 0 {
			add(func() string {
				if cur() < 0 {
					return ""
				}
				okID = call()
				return fmt.Sprintf("pool pick call=%d picker=%d m=bound ctx=gcp dl=none req=k1/", okID, cur())
			})
		}
		add(func() string { return fmt.Sprintf("pool adv ns=%d", adv) })
		add(func() string {
			if okID < 0 || len(ids) == 0 {
				return ""
			}
			if _, ok := h.calls[okID]; !ok {
				return ""
			}
			if _, ok := h.calls[ids[0]]; !ok {
				return ""
			}
			return fmt.Sprintf("pool done2 a=%d b=%d park=1 errb=nil", ids[0], okID)
		})
		for j := 0; j < 3; j++ {
			jj := j
			add(func() string {
				if jj >= len(ids) {
					return ""
				}
				if _, ok := h.calls[ids[jj]]; !ok {
					return ""
				}
				return fmt.Sprintf("pool done call=%d err=declient reply=/", ids[jj])
			})
		}
		if r.Intn(6) == 0 {
			// the old connection of the refreshing channel is shut down while the refresh is in flight
			add(func() string {
				for _, ref := range h.gb.refreshingScRefs {
					return fmt.Sprintf("pool scs sc=%s st=%s", scID(ref.subConn), []string{"SHUTDOWN", "TF", "IDLE"}[r.Intn(3)])
				}
				return ""
			})
		}
		if r.Intn(3) == 0 {
			add(func() string { return fmt.Sprintf("pool ccs addrs=%d", 2+r.Intn(2)) })
		}
		// BIND calls in flight across the swap (one lands on every channel, the refreshing one included):
		// they complete afterwards and their keys must be looked up on the replacement
		inflight := []int{}
		if round == rounds-1 && r.Intn(2) == 0 {
			for j := 0; j < 4; j++ {
				add(func() string {
					if cur() < 0 || len(h.gb.refreshingScRefs) == 0 {
						return ""
					}
					id := call()
					inflight = append(inflight, id)
					return fmt.Sprintf("pool pick call=%d picker=%d m=bind ctx=gcp dl=none req=/", id, cur())
				})
			}
		}
		raceSwap := r.Intn(2) == 0
		add(func() string {
			for sc, ref := range h.gb.refreshingScRefs {
				if raceSwap && verifBindHookInstalled {
					// a BIND call placed on the refreshing channel completes while the swap happens
					for jj, id := range inflight {
						if c, ok := h.calls[id]; ok && strconv.Itoa(c.sc) == scID(ref.subConn) {
							return fmt.Sprintf("pool doneswap call=%d reply=late%d/ sc=%d", id, jj, sc.(*vSubConn).id)
						}
					}
				}
				return fmt.Sprintf("pool scs sc=%d st=READY", sc.(*vSubConn).id)
			}
			return ""
		})
		for j := 0; j < 4; j++ {
			jj := j
			add(func() string {
				if jj >= len(inflight) {
					return ""
				}
				if _, ok := h.calls[inflight[jj]]; !ok {
					return ""
				}
				return fmt.Sprintf("pool done call=%d err=nil reply=late%d/", inflight[jj], jj)
			})
		}
		for j := 0; j < 4; j++ {
			jj := j
			add(func() string {
				if jj >= len(inflight) || cur() < 0 {
					return ""
				}
				return fmt.Sprintf("pool pick call=%d picker=%d m=bound ctx=gcp dl=none req=late%d/", call(), cur(), jj)
			})
		}
		if r.Intn(2) == 0 {
			// life after the swap: the replacement is an ordinary pool member now. It loses its connection, another
			// channel changes state (a picker is published), calls without a key arrive, it recovers.
			repl := -1
			st := []string{"TF", "IDLE", "CONNECTING"}[r.Intn(3)]
			add(func() string {
				for sc, ref := range h.gb.scRefs {
					if id := sc.(*vSubConn).id; ref.refreshCnt > 0 && (repl < 0 || id < repl) {
						repl = id
					}
				}
				if repl < 0 {
					return ""
				}
				return fmt.Sprintf("pool scs sc=%d st=%s", repl, st)
			})
			other := -1
			add(func() string {
				for sc := range h.gb.scRefs {
					if id := sc.(*vSubConn).id; id != repl && (other < 0 || id < other) {
						other = id
					}
				}
				if repl < 0 || other < 0 {
					return ""
				}
				return fmt.Sprintf("pool scs sc=%d st=CONNECTING", other)
			})
			add(func() string {
				if repl < 0 || other < 0 {
					return ""
				}
				return fmt.Sprintf("pool scs sc=%d st=READY", other)
			})
			for j := 0; j < 2; j++ {
				var id int
				add(func() string {
					if cur() < 0 || repl < 0 {
						return ""
					}
					id = call()
					return fmt.Sprintf("pool pick call=%d picker=%d m=plain ctx=gcp dl=none req=/", id, cur())
				})
				if j == 1 {
					add(func() string {
						if _, ok := h.calls[id]; !ok {
							return ""
						}
						return fmt.Sprintf("pool done call=%d err=nil reply=/", id)
					})
				}
			}
			add(func() string {
				if repl < 0 {
					return ""
				}
				return fmt.Sprintf("pool scs sc=%d st=READY", repl)
			})
		}
	}
	for i := 0; i < nkeys; i++ {
		k := fmt.Sprintf("k%d", 1+i)
		m := "bound"
		if r.Intn(4) == 0 {
			m = "unbind"
		}
		var id int
		add(func() string {
			if cur() < 0 {
				return ""
			}
			id = call()
			return fmt.Sprintf("pool pick call=%d picker=%d m=%s ctx=gcp dl=none req=%s/", id, cur(), m, k)
		})
		add(func() string {
			if _, ok := h.calls[id]; !ok {
				return ""
			}
			return fmt.Sprintf("pool done call=%d err=%s reply=/", id, []string{"nil", "nil", "other"}[r.Intn(3)])
		})
	}
}

// scenarioFallbackRefresh: a bound key whose home channel is down uses a stand-in; the stand-in is
// refreshed meanwhile; later the home channel recovers.
func (g *vGen) scenarioFallbackRefresh() {
	r, h := g.rng, g.h
	add := func(f func() string) { g.script = append(g.script, f) }
	cur := func() int { return len(h.cc.pubs) - 1 }
	now := func() int64 { return atomic.LoadInt64(&verifClock) }
	call := func() int { g.nextCall++; return g.nextCall }
	add(func() string { return "pool ccs addrs=1" })
	for i := 0; i < 4; i++ {
		sc := i
		add(func() string {
			if sc >= h.cc.nextSc {
				return ""
			}
			return fmt.Sprintf("pool scs sc=%d st=READY", sc)
		})
	}
	var bindID int
	add(func() string {
		if cur() < 0 {
			return ""
		}
		bindID = call()
		return fmt.Sprintf("pool pick call=%d picker=%d m=bind ctx=gcp dl=none req=/", bindID, cur())
	})
	add(func() string {
		if _, ok := h.calls[bindID]; !ok {
			return ""
		}
		// (a reply that carries two keys: both get bound to the same channel)
		return fmt.Sprintf("pool done call=%d err=nil reply=k1/", bindID)
	})
	var bindID2 int
	add(func() string {
		if sc, ok := h.gb.affinityMap["k1"]; !ok || cur() < 0 || h.gb.scRefs[sc] == nil {
			return ""
		}
		bindID2 = call()
		return fmt.Sprintf("pool pick call=%d picker=%d m=bound ctx=gcp dl=none req=k1/", bindID2, cur())
	})
	home := func() string {
		if sc, ok := h.gb.affinityMap["k1"]; ok {
			return scID(sc)
		}
		return ""
	}
	// a second key on the same home channel: a BIND call that lands there (k1's call keeps the others busier? no:
	// simply try; if it lands elsewhere the step below is skipped)
	var bindID3 int
	add(func() string {
		if cur() < 0 {
			return ""
		}
		bindID3 = call()
		return fmt.Sprintf("pool pick call=%d picker=%d m=bind ctx=gcp dl=none req=/", bindID3, cur())
	})
	add(func() string {
		if _, ok := h.calls[bindID3]; !ok {
			return ""
		}
		return fmt.Sprintf("pool done call=%d err=nil reply=k2/", bindID3)
	})
	add(func() string {
		if _, ok := h.calls[bindID2]; !ok {
			return ""
		}
		return fmt.Sprintf("pool done call=%d err=nil reply=/", bindID2)
	})
	add(func() string {
		if home() == "" {
			return ""
		}
		return fmt.Sprintf("pool scs sc=%s st=%s", home(), []string{"TF", "CONNECTING", "IDLE"}[r.Intn(3)])
	})
	// the first two keyed calls after the outage arrive together through two pickers: neither key has a stand-in yet
	add(func() string {
		sc1, ok1 := h.gb.affinityMap["k1"]
		sc2, ok2 := h.gb.affinityMap["k2"]
		if !ok1 || !ok2 || cur() < 1 || h.gb.scStates[sc1] == connectivity.Ready || h.gb.scStates[sc2] == connectivity.Ready ||
			h.pickerBusy(cur()) || h.pickerBusy(cur()-1) || r.Intn(2) == 0 {
			return ""
		}
		g.nextCall += 2
		return fmt.Sprintf("pool pick2 a=%d b=%d picker=%d picker2=%d m=bound req=k1/ req2=k2/", g.nextCall-1, g.nextCall, cur(), cur()-1)
	})
	rounds := 1 + r.Intn(2)
	for round := 0; round < rounds; round++ {
		ids := []int{}
		// sometimes a keyed call stays in flight on the stand-in across its refresh: afterwards the
		// stand-in is no longer the least-loaded READY channel
		if r.Intn(2) == 0 {
			add(func() string {
				if cur() < 0 {
					return ""
				}
				return fmt.Sprintf("pool pick call=%d picker=%d m=bound ctx=gcp dl=none req=k1/", call(), cur())
			})
		}
		for j := 0; j < 3; j++ {
			add(func() string {
				if cur() < 0 {
					return ""
				}
				id := call()
				ids = append(ids, id)
				return fmt.Sprintf("pool pick call=%d picker=%d m=bound ctx=gcp dl=%d req=k1/", id, cur(), now())
			})
		}
		ms := int64(g.ums) * 1000000
		add(func() string { return fmt.Sprintf("pool adv ns=%d", ms<<uint(round)+1) })
		for j := 0; j < 3; j++ {
			jj := j
			add(func() string {
				if jj >= len(ids) {
					return ""
				}
				if _, ok := h.calls[ids[jj]]; !ok {
					return ""
				}
				return fmt.Sprintf("pool done call=%d err=declient reply=/", ids[jj])
			})
		}
		add(func() string {
			for sc := range h.gb.refreshingScRefs {
				return fmt.Sprintf("pool scs sc=%d st=READY", sc.(*vSubConn).id)
			}
			return ""
		})
		var id int
		add(func() string {
			if cur() < 0 {
				return ""
			}
			id = call()
			return fmt.Sprintf("pool pick call=%d picker=%d m=bound ctx=gcp dl=none req=k1/", id, cur())
		})
		add(func() string {
			if _, ok := h.calls[id]; !ok {
				return ""
			}
			return fmt.Sprintf("pool done call=%d err=nil reply=/", id)
		})
	}
	if r.Intn(2) == 0 {
		add(func() string {
			if home() == "" {
				return ""
			}
			return fmt.Sprintf("pool scs sc=%s st=READY", home())
		})
		add(func() string {
			if cur() < 0 {
				return ""
			}
			return fmt.Sprintf("pool pick call=%d picker=%d m=bound ctx=gcp dl=none req=k1/", call(), cur())
		})
	}
}

// scenarioFallbackRebind: a key is bound, its channel goes down, calls (among them the UNBIND) are
// served by a stand-in, the key is bound again — to another channel that is READY — and looked up:
// whatever was remembered about the stand-in must not override the new binding.
func (g *vGen) scenarioFallbackRebind() {
	r, h := g.rng, g.h
	add := func(f func() string) { g.script = append(g.script, f) }
	cur := func() int { return len(h.cc.pubs) - 1 }
	call := func() int { g.nextCall++; return g.nextCall }
	pick := func(m, req string, id *int) func() string {
		return func() string {
			if cur() < 0 {
				return ""
			}
			*id = call()
			return fmt.Sprintf("pool pick call=%d picker=%d m=%s ctx=gcp dl=none req=%s", *id, cur(), m, req)
		}
	}
	done := func(id *int, reply string) func() string {
		return func() string {
			if _, ok := h.calls[*id]; !ok {
				return ""
			}
			return fmt.Sprintf("pool done call=%d err=nil reply=%s", *id, reply)
		}
	}
	add(func() string { return "pool ccs addrs=1" })
	for i := 0; i < 4; i++ {
		sc := i
		add(func() string {
			if sc >= h.cc.nextSc {
				return ""
			}
			return fmt.Sprintf("pool scs sc=%d st=READY", sc)
		})
	}
	var b1, q1, u1, filler, b2, q2 int
	add(pick("bind", "/", &b1))
	add(done(&b1, "k1/"))
	add(func() string {
		if sc, ok := h.gb.affinityMap["k1"]; ok {
			return fmt.Sprintf("pool scs sc=%s st=%s", scID(sc), []string{"TF", "CONNECTING", "IDLE"}[r.Intn(3)])
		}
		return ""
	})
	refreshStandIn := g.ums > 0
	if refreshStandIn {
		// served by a stand-in, with a deadline that will have passed when the call ends
		add(func() string {
			if cur() < 0 {
				return ""
			}
			q1 = call()
			return fmt.Sprintf("pool pick call=%d picker=%d m=bound ctx=gcp dl=%d req=k1/", q1, cur(), atomic.LoadInt64(&verifClock))
		})
	} else {
		add(pick("bound", "k1/", &q1)) // served by a stand-in
	}
	add(pick("unbind", "k1/", &u1))
	add(done(&u1, "/"))
	if refreshStandIn {
		// the key is unbound; its stand-in (the entry for the key is still in the fallback table) becomes unresponsive
		// and is refreshed; the replacement takes over
		add(func() string { return fmt.Sprintf("pool adv ns=%d", int64(g.ums)*1000000+1) })
		add(func() string {
			if _, ok := h.calls[q1]; !ok {
				return ""
			}
			return fmt.Sprintf("pool done call=%d err=declient reply=/", q1)
		})
		add(func() string {
			for sc := range h.gb.refreshingScRefs {
				return fmt.Sprintf("pool scs sc=%d st=READY", sc.(*vSubConn).id)
			}
			return ""
		})
	} else if r.Intn(2) == 0 {
		add(done(&q1, "/"))
	}
	// keep the old stand-in busier than some other READY channel so that the next BIND lands elsewhere
	add(pick("plain", "/", &filler))
	add(pick("bind", "/", &b2))
	add(done(&b2, "k1/"))
	add(pick("bound", "k1/", &q2))
	if refreshStandIn {
		// the key's new home fails: it needs a stand-in again
		add(func() string {
			if sc, ok := h.gb.affinityMap["k1"]; ok {
				return fmt.Sprintf("pool scs sc=%s st=TF", scID(sc))
			}
			return ""
		})
		add(pick("bound", "k1/", &q2))
	}
	if r.Intn(2) == 0 {
		add(func() string { return "pool scs sc=0 st=READY" })
		add(pick("bound", "k1/", &q2))
	}
}

func (g *vGen) knownSc() int {
	h := g.h
	n := h.cc.nextSc
	if n == 0 || g.rng.Intn(25) == 0 {
		return n + g.rng.Intn(2) // unknown connection
	}
	// prefer live connections (pool members and replacements)
	if g.rng.Intn(4) != 0 {
		ids := []int{}
		for sc := range h.gb.scRefs {
			ids = append(ids, sc.(*vSubConn).id)
		}
		for sc := range h.gb.refreshingScRefs {
			ids = append(ids, sc.(*vSubConn).id)
		}
		if len(ids) > 0 {
			sort.Ints(ids)
			return ids[g.rng.Intn(len(ids))]
		}
	}
	return g.rng.Intn(n)
}

// boundKey prefers a key that is bound right now
func (g *vGen) boundKey() string {
	ks := []string{}
	for k := range g.h.gb.affinityMap {
		ks = append(ks, k)
	}
	if len(ks) == 0 || g.rng.Intn(6) == 0 {
		return g.key()
	}
	sort.Strings(ks)
	return ks[g.rng.Intn(len(ks))]
}

func (g *vGen) key() string {
	if g.rng.Intn(15) == 0 {
		return ""
	}
	if g.rng.Intn(15) == 0 {
		return "zz"
	}
	return g.keys[g.rng.Intn(len(g.keys))]
}

func (g *vGen) pickLine() string {
	r, h := g.rng, g.h
	if len(h.cc.pubs) == 0 {
		return ""
	}
	pn := len(h.cc.pubs) - 1
	if r.Intn(6) == 0 {
		pn = r.Intn(len(h.cc.pubs)) // a stale picker
	}
	if h.pickerBusy(pn) {
		pn = len(h.cc.pubs) - 1
		if h.pickerBusy(pn) {
			return ""
		}
	}
	var m string
	w := r.Intn(100)
	switch g.profile {
	case "load", "growth":
		m = "plain"
		if w < 15 {
			m = []string{"bind", "bound", "unbind"}[r.Intn(3)]
		}
	case "rr":
		m = "bind"
		if w < 35 {
			m = []string{"plain", "bound", "unbind", "bindks"}[r.Intn(4)]
		}
	default:
		switch {
		case w < 25:
			m = "bind"
		case w < 60:
			m = "bound"
		case w < 72:
			m = "unbind"
		case w < 88:
			m = "plain"
		case w < 91:
			m = "bindks"
		case w < 94:
			m = "boundks"
		case w < 96:
			m = "unbindks"
		case w < 98:
			m = "boundbad"
		default:
			m = "nomethod"
		}
	}
	ctx := "gcp"
	req := g.key() + "/"
	if m == "bound" || m == "unbind" {
		req = g.boundKey() + "/"
	}
	if strings.HasSuffix(m, "ks") {
		n := r.Intn(3)
		ks := []string{}
		for i := 0; i < n; i++ {
			ks = append(ks, g.key())
		}
		req = "/" + strings.Join(ks, ",")
	}
	if g.profile == "chaos" || r.Intn(30) == 0 {
		switch r.Intn(8) {
		case 0:
			ctx = "none"
		case 1:
			ctx = "gcpnoreply"
		case 2:
			req = "bad:nil"
		case 3:
			req = "bad:nilptr"
		case 4:
			req = "bad:wrong"
		}
	}
	dl := "none"
	if r.Intn(3) != 0 || g.profile == "refresh" {
		now := atomic.LoadInt64(&verifClock)
		dl = strconv.FormatInt(now+int64(r.Intn(3))*1000000, 10)
	}
	g.nextCall++
	kind := "pick"
	if verifHookInstalled && len(h.held) < 2 && (r.Intn(12) == 0 || ((g.profile == "growth" || g.profile == "load") && r.Intn(4) == 0)) {
		kind = "pickhold"
	} else if r.Intn(25) == 0 || (g.rrOn && r.Intn(8) == 0) {
		kind = "pickpre"
	}
	return fmt.Sprintf("pool %s call=%d picker=%d m=%s ctx=%s dl=%s req=%s", kind, g.nextCall, pn, m, ctx, dl, req)
}

func (g *vGen) doneLine() string {
	r, h := g.rng, g.h
	if len(h.calls) == 0 {
		return ""
	}
	ids := []int{}
	for id := range h.calls {
		ids = append(ids, id)
	}
	sort.Ints(ids)
	id := ids[r.Intn(len(ids))]
	errs := []string{"nil", "nil", "nil", "other", "declient", "deserver", vOtherErrs[r.Intn(len(vOtherErrs))]}
	if g.profile == "refresh" || (g.profile == "affinity" && r.Intn(2) == 0) {
		errs = []string{"nil", "declient", "declient", "declient", "deserver", "other", vOtherErrs[r.Intn(len(vOtherErrs))]}
	}
	reply := g.key() + "/"
	if r.Intn(6) == 0 {
		reply = "/" + g.key() + "," + g.key()
	}
	e := errs[r.Intn(len(errs))]
	if r.Intn(30) == 0 {
		return fmt.Sprintf("pool done call=%d err=discarded reply=/", id)
	}
	if e == "declient" && r.Intn(5) == 0 {
		g.maxAddr++
		return fmt.Sprintf("pool doneccs call=%d addrs=%d", id, g.maxAddr)
	}
	return fmt.Sprintf("pool done call=%d err=%s reply=%s", id, e, reply)
}

func (g *vGen) scsLine() string {
	r := g.rng
	if len(g.h.gb.refreshingScRefs) > 0 && r.Intn(3) == 0 {
		ids := []int{}
		for sc := range g.h.gb.refreshingScRefs {
			ids = append(ids, sc.(*vSubConn).id)
		}
		sort.Ints(ids)
		st := "READY"
		if r.Intn(5) == 0 {
			st = []string{"CONNECTING", "TF", "IDLE", "SHUTDOWN"}[r.Intn(4)]
		}
		return fmt.Sprintf("pool scs sc=%d st=%s", ids[r.Intn(len(ids))], st)
	}
	sts := []string{"READY", "READY", "READY", "CONNECTING", "TF", "IDLE"}
	if g.profile == "states" || g.profile == "chaos" {
		sts = append(sts, "TF", "CONNECTING", "IDLE")
		if r.Intn(3) == 0 {
			sts = append(sts, "SHUTDOWN")
		}
	} else if r.Intn(60) == 0 {
		sts = append(sts, "SHUTDOWN")
	}
	return fmt.Sprintf("pool scs sc=%d st=%s", g.knownSc(), sts[r.Intn(len(sts))])
}

func (g *vGen) next(i int) string {
	r, h := g.rng, g.h
	for len(g.script) > 0 {
		f := g.script[0]
		g.script = g.script[1:]
		if line := f(); line != "" {
			return line
		}
	}
	if i == 0 {
		// now and then the connection factory already fails when the pool is first created
		if r.Intn(8) == 0 {
			n := 1 + r.Intn(4)
			if r.Intn(3) == 0 {
				n = 4294967295 // the factory keeps failing
			}
			g.script = append(g.script, func() string { return "pool ccs addrs=1" })
			if r.Intn(2) == 0 {
				g.script = append(g.script, func() string { return "pool ccs addrs=1" })
			}
			return fmt.Sprintf("pool factory fail=%d", n)
		}
		ver := 1
		if r.Intn(15) == 0 {
			ver = 0
		}
		return fmt.Sprintf("pool ccs addrs=%d", ver)
	}
	if i <= 3 && r.Intn(3) != 0 {
		return fmt.Sprintf("pool scs sc=%d st=READY", g.knownSc())
	}
	if g.rrOn && len(h.cc.pubs) > 0 && len(h.waiting) == 0 && r.Intn(12) == 0 {
		allReady := len(h.gb.scRefList) > 0
		for _, ref := range h.gb.scRefList {
			if h.gb.scStates[ref.subConn] != connectivity.Ready {
				allReady = false
			}
		}
		pn := len(h.cc.pubs) - 1
		if _, ok := h.cc.pubs[pn].picker.(*gcpPicker); ok && allReady && !h.pickerBusy(pn) {
			n := 40 + r.Intn(400)
			gs := 2 + r.Intn(6)
			if r.Intn(10) == 0 { // a long burst: a lost cursor update needs two picks inside a few instructions
				n, gs = 3000+r.Intn(6000), 8+r.Intn(8)
			}
			first := g.nextCall + 1
			g.nextCall += n
			return fmt.Sprintf("pool rrburst first=%d n=%d picker=%d g=%d", first, n, pn, gs)
		}
	}
	if len(h.held) > 0 && r.Intn(5) == 0 {
		ids := []int{}
		for id := range h.held {
			ids = append(ids, id)
		}
		sort.Ints(ids)
		return fmt.Sprintf("pool resume call=%d", ids[r.Intn(len(ids))])
	}
	for tries := 0; tries < 10; tries++ {
		w := r.Intn(100)
		line := ""
		switch {
		case w < 38 && verifScanHookInstalled && len(h.cc.pubs) > 0 && len(h.calls) >= 2 && len(h.held) == 0 && r.Intn(25) == 0:
			// a plain pick stopped in the middle of its least-loaded scan while up to four calls in flight complete (F39)
			pn := len(h.cc.pubs) - 1
			if gp, ok := h.cc.pubs[pn].picker.(*gcpPicker); !ok || len(gp.scRefs) < 2 {
				continue
			}
			ids := []int{}
			for id := range h.calls {
				ids = append(ids, id)
			}
			sort.Ints(ids)
			r.Shuffle(len(ids), func(i, j int) { ids[i], ids[j] = ids[j], ids[i] })
			if len(ids) > 4 {
				ids = ids[:1+r.Intn(4)]
			}
			parts := []string{}
			for _, id := range ids {
				parts = append(parts, strconv.Itoa(id))
			}
			g.nextCall++
			line = fmt.Sprintf("pool scanpark call=%d picker=%d dones=%s", g.nextCall, pn, strings.Join(parts, "+"))
		case w < 38 && !g.rrOn && len(h.cc.pubs) > 0 && r.Intn(20) == 0:
			// two concurrent plain picks (the pool's stream counts decide where they may go)
			pn := len(h.cc.pubs) - 1
			if r.Intn(8) == 0 {
				pn = r.Intn(len(h.cc.pubs))
			}
			if h.pickerBusy(pn) {
				continue
			}
			g.nextCall += 2
			line = fmt.Sprintf("pool pick2 a=%d b=%d picker=%d", g.nextCall-1, g.nextCall, pn)
			if g.profile == "fallback" || g.profile == "affinity" || r.Intn(4) == 0 {
				// two keyed calls at once, possibly through two different pickers: bound keys, keys that are not
				// bound (least-loaded scan) and keys whose home is down (stand-in = least loaded) alike — scan and
				// count are one step for all pickers of the balancer (F31)
				pn2 := r.Intn(len(h.cc.pubs))
				k1, k2 := g.boundKey(), g.boundKey()
				if !h.pickerBusy(pn2) && k1 != "" && k2 != "" {
					line += fmt.Sprintf(" picker2=%d m=bound req=%s/ req2=%s/", pn2, k1, k2)
				}
			} else if r.Intn(2) == 0 {
				// two plain picks through two pickers, one of them possibly superseded (F31)
				line += fmt.Sprintf(" picker2=%d", r.Intn(len(h.cc.pubs)))
			}
		case w < 38:
			line = g.pickLine()
		case w < 62:
			line = g.doneLine()
		case w < 82:
			line = g.scsLine()
		case w < 88 || (g.profile == "refresh" && w < 92):
			dts := []int64{0, 1, 999999, 1000000, 1000001, 2000000, 2000001, 4000001, 500000}
			if g.profile == "refresh" || g.profile == "affinity" {
				dts = []int64{1000000, 1000001, 2000000, 2000001, 3000001, 4000001, 6000001, 8000001, 12000001, 999999}
			}
			line = fmt.Sprintf("pool adv ns=%d", dts[r.Intn(len(dts))])
		case w < 92:
			if r.Intn(3) == 0 {
				g.maxAddr++
			}
			ver := 1 + r.Intn(g.maxAddr)
			if r.Intn(12) == 0 {
				ver = 0
			}
			line = fmt.Sprintf("pool ccs addrs=%d", ver)
		case w < 94:
			line = "pool reserr"
			if r.Intn(3) == 0 {
				line = "pool other"
			}
			if h.gb.unresponsiveDetection && len(h.held) == 0 && len(h.gb.scRefList) > 0 && r.Intn(4) == 0 {
				// fast-forward a channel's counter of deadline-exceeded calls to just below the largest uint32 value (F38)
				slot := r.Intn(len(h.gb.scRefList))
				if cur := h.gb.scRefList[slot].deCalls; cur < 1<<31 {
					line = fmt.Sprintf("pool dejump slot=%d d=%d", slot, uint32(4294967295-uint32(r.Intn(3)))-cur)
				}
			}
			if h.gb.cfg.GetChannelPool().GetBindPickStrategy() == pb.ChannelPoolConfig_ROUND_ROBIN && len(h.held) == 0 && r.Intn(3) == 0 {
				// fast-forward the round-robin cursor to just below a multiple of 2^32 (F32): the next BIND picks
				// straddle the point where a 32-bit cursor would wrap around
				cur := vCursor(h.gb) + 1 // BIND picks so far
				d := (1<<32 - uint64(1+r.Intn(3)) - cur%(1<<32)) % (1 << 32)
				switch r.Intn(4) {
				case 0: // … or of 2^31 / 2^63: where a cursor converted to a signed integer turns negative
					d = (1<<31 - uint64(1+r.Intn(3)) - cur%(1<<31)) % (1 << 31)
				case 1:
					if cur < 1<<40 {
						d = 1<<63 - uint64(1+r.Intn(3)) - cur
					}
				}
				if d > 0 && cur < 1<<40 {
					line = fmt.Sprintf("pool rrjump d=%d", d)
				}
			}
		case w < 97:
			if g.profile == "chaos" || g.profile == "refresh" || r.Intn(5) == 0 {
				n := r.Intn(3)
				if r.Intn(6) == 0 {
					n = 4294967295 // keeps failing until the next factory line
				}
				line = fmt.Sprintf("pool factory fail=%d", n)
			}
		default:
			if len(h.waiting) > 0 {
				line = fmt.Sprintf("pool ctxdone call=%d", h.waiting[r.Intn(len(h.waiting))].id)
			}
		}
		if line != "" {
			return line
		}
	}
	return "pool reserr"
}

// A hung call leaves a goroutine behind that may spin or hold a lock: stop the process, the trace so
// far (ending in HANG) is what the driver judges.
func vExitOnHang(w *bufio.Writer, obs string) {
	if strings.Contains(obs, "HANG") {
		w.Flush()
		os.Exit(3)
	}
}

func TestVerifPool(t *testing.T) {
	out := os.Getenv("VERIF_OUT")
	if out == "" {
		t.Skip("VERIF_OUT not set")
	}
	f, err := os.Create(out)
	if err != nil {
		t.Fatal(err)
	}
	defer f.Close()
	w := bufio.NewWriter(f)
	defer w.Flush()
	h := &vPool{}
	if ops := os.Getenv("VERIF_OPS"); ops != "" {
		for _, file := range strings.Split(ops, ",") {
			data, err := os.ReadFile(file)
			if err != nil {
				t.Fatal(err)
			}
			for _, line := range strings.Split(string(data), "\n") {
				line = strings.TrimSpace(line)
				if line == "" || strings.HasPrefix(line, "#") {
					continue
				}
				if i := strings.Index(line, " =>"); i >= 0 {
					line = line[:i]
				}
				// the operation is on disk before it runs: if the process dies in it (a Go runtime fatal error cannot
				// be recovered), the trace ends with the operation that killed it
				w.WriteString(line)
				w.Flush()
				obs := h.exec(line)
				fmt.Fprintf(w, " => %s\n", obs)
				vExitOnHang(w, obs)
			}
		}
	}
	seed, _ := strconv.ParseInt(os.Getenv("VERIF_SEED"), 10, 64)
	episodes, _ := strconv.Atoi(os.Getenv("VERIF_EPISODES"))
	nops, _ := strconv.Atoi(os.Getenv("VERIF_NOPS"))
	if nops == 0 {
		nops = 60
	}
	g := &vGen{rng: rand.New(rand.NewSource(seed)), h: h}
	for ep := 0; ep < episodes; ep++ {
		line := g.cfgLine()
		fmt.Fprintf(w, "%s => %s\n", line, h.exec(line))
		n := nops/2 + g.rng.Intn(nops)
		for i := 0; i < n && !h.dead; i++ {
			line := g.next(i)
			w.WriteString(line)
			w.Flush()
			obs := h.exec(line)
			fmt.Fprintf(w, " => %s\n", obs)
			vExitOnHang(w, obs)
		}
		// now and then an episode ends like this (choices from a generator of its own: the main sequence is as it
		// was): every channel of the pool is shut down, and the resolver update that re-creates the pool meets a
		// connection factory that works once or twice more and then fails for good. The model has no such
		// factory: the driver lets the monitors go on alone from there.
		rng3 := rand.New(rand.NewSource(seed*31 + int64(ep)))
		if rng3.Intn(3) == 0 && !h.dead && h.gb != nil && h.gb.cfg != nil && len(h.held) == 0 && len(h.gb.refreshingScRefs) == 0 {
			ids := []int{}
			for sc := range h.gb.scRefs {
				ids = append(ids, sc.(*vSubConn).id)
			}
			sort.Ints(ids)
			lines := []string{}
			for _, id := range ids {
				lines = append(lines, fmt.Sprintf("pool scs sc=%d st=SHUTDOWN", id))
			}
			lines = append(lines, fmt.Sprintf("pool ccsflaky addrs=%d ok=%d", g.maxAddr, 1+rng3.Intn(2)))
			for _, line := range lines {
				w.WriteString(line)
				w.Flush()
				obs := h.exec(line)
				fmt.Fprintf(w, " => %s\n", obs)
				vExitOnHang(w, obs)
			}
		}
	}
}
