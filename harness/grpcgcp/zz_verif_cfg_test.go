//go:build verif

// Correspondence harness for the configuration handling (C17). Injected with `go test -overlay`.
//   cfg parse json=<hex of JSON text>  => ok <canonical config> | err
//   cfg makeopts json=<hex>            => aliased=0|1   the dial options built for one GCPMultiEndpoint from a caller's option slice
//                                        (with spare capacity) are still the same after another one was built from that slice
//   cfg effective json=<hex>           => <canonical effective config> tbl=<method table> det=0|1 mutated=0|1 aliased=0|1 second=same|changed
// canonical config: P(max,idle,wm,min,fb,ud,uc,strat) | P-   then  M(<hexname>.<hexname>;A(cmd,<hexkey>)) | M(...;A-) ...
package grpcgcp

import (
	"bufio"
	"context"
	"encoding/hex"
	"encoding/json"
	"errors"
	"fmt"
	"math/rand"
	"os"
	"reflect"
	"sort"
	"strconv"
	"strings"
	"testing"

	"google.golang.org/grpc"
	"google.golang.org/grpc/balancer"
	"google.golang.org/grpc/connectivity"
	"google.golang.org/grpc/resolver"
	"google.golang.org/protobuf/encoding/protojson"
	"google.golang.org/protobuf/proto"

	pb "github.com/GoogleCloudPlatform/grpc-gcp-go/grpcgcp/grpc_gcp"
)

func cfgCanon(c *pb.ApiConfig) string {
	var sb strings.Builder
	if c.ChannelPool == nil {
		sb.WriteString("P-")
	} else {
		p := c.ChannelPool
		fb := 0
		if p.FallbackToReady {
			fb = 1
		}
		fmt.Fprintf(&sb, "P(%d,%d,%d,%d,%d,%d,%d,%d)", p.MaxSize, p.IdleTimeout, p.MaxConcurrentStreamsLowWatermark, p.MinSize, fb,
			p.UnresponsiveDetectionMs, p.UnresponsiveCalls, int32(p.BindPickStrategy))
	}
	for _, m := range c.Method {
		ns := []string{}
		for _, n := range m.Name {
			ns = append(ns, hex.EncodeToString([]byte(n)))
		}
		a := "A-"
		if m.Affinity != nil {
			a = fmt.Sprintf("A(%d,%s)", int32(m.Affinity.Command), hex.EncodeToString([]byte(m.Affinity.AffinityKey)))
		}
		fmt.Fprintf(&sb, " M(%s;%s)", strings.Join(ns, "."), a)
	}
	return sb.String()
}

// pointers reachable from a message (messages, slices)
func cfgPointers(v reflect.Value, out map[uintptr]bool, depth int) {
	if depth > 10 || !v.IsValid() {
		return
	}
	switch v.Kind() {
	case reflect.Pointer:
		if v.IsNil() {
			return
		}
		out[v.Pointer()] = true
		cfgPointers(v.Elem(), out, depth+1)
	case reflect.Struct:
		for i := 0; i < v.NumField(); i++ {
			if v.Type().Field(i).IsExported() {
				cfgPointers(v.Field(i), out, depth+1)
			}
		}
	case reflect.Slice:
		if v.Len() > 0 {
			out[v.Pointer()] = true
		}
		for i := 0; i < v.Len(); i++ {
			cfgPointers(v.Index(i), out, depth+1)
		}
	}
}

func cfgGenValue(rng *rand.Rand) *pb.ApiConfig {
	c := &pb.ApiConfig{}
	u32 := func() uint32 {
		switch rng.Intn(6) {
		case 0:
			return 0
		case 1:
			return uint32(rng.Intn(5))
		case 2:
			return 4294967295
		case 3:
			// beyond the largest int32, below the largest uint32
			return []uint32{2147483647, 2147483648, 3000000000, 4294967294}[rng.Intn(4)]
		default:
			return uint32(rng.Intn(1000))
		}
	}
	if rng.Intn(4) != 0 {
		c.ChannelPool = &pb.ChannelPoolConfig{}
		if rng.Intn(5) != 0 {
			p := c.ChannelPool
			p.MaxSize, p.MinSize, p.MaxConcurrentStreamsLowWatermark = u32(), u32(), u32()
			p.UnresponsiveCalls, p.UnresponsiveDetectionMs = u32(), u32()
			p.FallbackToReady = rng.Intn(2) == 0
			p.IdleTimeout = []uint64{0, 5, 1 << 40, 18446744073709551615}[rng.Intn(4)]
			p.BindPickStrategy = pb.ChannelPoolConfig_BindPickStrategy([]int32{0, 1, 2, 7}[rng.Intn(4)])
		}
	}
	names := []string{"m1", "m2", "m3", "/pkg.Svc/Method", "", "m1"}
	for i := rng.Intn(5); i > 0; i-- {
		m := &pb.MethodConfig{}
		for j := rng.Intn(4); j > 0; j-- {
			m.Name = append(m.Name, names[rng.Intn(len(names))])
		}
		if rng.Intn(4) != 0 {
			m.Affinity = &pb.AffinityConfig{}
			if rng.Intn(5) != 0 {
				m.Affinity.Command = pb.AffinityConfig_Command([]int32{0, 1, 2, 9}[rng.Intn(4)])
				m.Affinity.AffinityKey = []string{"", "key", "a.b", "name"}[rng.Intn(4)]
			}
		}
		c.Method = append(c.Method, m)
	}
	return c
}

// mutate a JSON tree (decoded with encoding/json) in one of the ways the property names
func cfgMutate(rng *rand.Rand, v interface{}) interface{} {
	obj, ok := v.(map[string]interface{})
	if !ok {
		return v
	}
	keys := []string{}
	for k := range obj {
		keys = append(keys, k)
	}
	sort.Strings(keys)
	snake := map[string]string{"channelPool": "channel_pool", "maxSize": "max_size", "minSize": "min_size", "idleTimeout": "idle_timeout",
		"maxConcurrentStreamsLowWatermark": "max_concurrent_streams_low_watermark", "fallbackToReady": "fallback_to_ready",
		"unresponsiveDetectionMs": "unresponsive_detection_ms", "unresponsiveCalls": "unresponsive_calls", "bindPickStrategy": "bind_pick_strategy",
		"affinityKey": "affinity_key"}
	switch rng.Intn(12) {
	case 0:
		obj["unknownField"] = 1
	case 1:
		if len(keys) > 0 { // snake_case alias instead
			k := keys[rng.Intn(len(keys))]
			if s, ok := snake[k]; ok {
				obj[s] = obj[k]
				delete(obj, k)
			}
		}
	case 2:
		if len(keys) > 0 { // both names: duplicate
			k := keys[rng.Intn(len(keys))]
			if s, ok := snake[k]; ok {
				obj[s] = obj[k]
			}
		}
	case 3:
		if len(keys) > 0 { // null
			obj[keys[rng.Intn(len(keys))]] = nil
		}
	case 4:
		if len(keys) > 0 { // wrong type
			obj[keys[rng.Intn(len(keys))]] = []interface{}{"x", true, 1.5, map[string]interface{}{}, []interface{}{}}[rng.Intn(5)]
		}
	case 5:
		if len(keys) > 0 { // numbers as strings / strings as numbers
			k := keys[rng.Intn(len(keys))]
			switch x := obj[k].(type) {
			case float64:
				obj[k] = strconv.FormatFloat(x, 'f', -1, 64)
			case string:
				if n, err := strconv.Atoi(x); err == nil {
					obj[k] = float64(n)
				}
			}
		}
	case 6:
		if len(keys) > 0 { // out of range / negative / fractional numbers
			k := keys[rng.Intn(len(keys))]
			if _, ok := obj[k].(float64); ok {
				obj[k] = []interface{}{-1.0, 4294967296.0, 2.5, 0.0, 4294967295.0}[rng.Intn(5)]
			}
		}
	case 7:
		if _, ok := obj["command"]; ok { // enum by number / unknown name
			obj["command"] = []interface{}{1.0, 2.0, "BIND", "bind", "NOPE", 99.0}[rng.Intn(6)]
		}
		if _, ok := obj["bindPickStrategy"]; ok {
			obj["bindPickStrategy"] = []interface{}{2.0, "ROUND_ROBIN", "round_robin", 0.0}[rng.Intn(4)]
		}
	default:
		// descend
		if len(keys) > 0 {
			k := keys[rng.Intn(len(keys))]
			switch x := obj[k].(type) {
			case map[string]interface{}:
				obj[k] = cfgMutate(rng, x)
			case []interface{}:
				if len(x) > 0 {
					i := rng.Intn(len(x))
					if rng.Intn(6) == 0 {
						x[i] = nil
					} else {
						x[i] = cfgMutate(rng, x[i])
					}
				}
			}
		}
	}
	return obj
}

func TestVerifConfig(t *testing.T) {
	out := os.Getenv("VERIF_OUT")
	if out == "" {
		t.Skip("VERIF_OUT not set")
	}
	f, err := os.Create(out)
	if err != nil {
		t.Fatal(err)
	}
	defer f.Close()
	w := bufio.NewWriter(f)
	defer w.Flush()
	seed, _ := strconv.ParseInt(os.Getenv("VERIF_SEED"), 10, 64)
	episodes, _ := strconv.Atoi(os.Getenv("VERIF_EPISODES"))
	rng := rand.New(rand.NewSource(seed))
	bb := newBuilder().(*gcpBalancerBuilder)

	parseLine := func(text []byte) {
		c, err := bb.ParseConfig(json.RawMessage(text))
		if err != nil {
			fmt.Fprintf(w, "cfg parse json=%s => err\n", hex.EncodeToString(text))
			return
		}
		fmt.Fprintf(w, "cfg parse json=%s => ok %s\n", hex.EncodeToString(text), cfgCanon(c.(*GCPBalancerConfig).ApiConfig))
	}
	effLine := func(text []byte) {
		c, err := bb.ParseConfig(json.RawMessage(text))
		if err != nil {
			return
		}
		caller := c.(*GCPBalancerConfig)
		if caller.ApiConfig.GetChannelPool().GetMinSize() > 50 {
			return // the balancer would really create that many connections
		}
		before, _ := proto.MarshalOptions{Deterministic: true}.Marshal(caller.ApiConfig)
		h := &vPool{}
		h.cc = &vCC{scs: map[int]*vSubConn{}, harness: h}
		b := balancer.Get(Name).Build(h.cc, balancer.BuildOptions{})
		gb := b.(*gcpBalancer)
		h.gb, h.b = gb, b
		// the first update arrives with addresses, without any (the pool stays empty), or while the
		// connection factory fails (the pool stays empty too): the configuration is fixed all the same
		firstAddrs := []resolver.Address{{Addr: "a1"}}
		switch len(text) % 3 {
		case 1:
			firstAddrs = nil
		case 2:
			h.cc.failN = 1 << 30
		}
		b.UpdateClientConnState(balancer.ClientConnState{ResolverState: resolver.State{Addresses: firstAddrs}, BalancerConfig: caller})
		h.cc.failN = 0
		after, _ := proto.MarshalOptions{Deterministic: true}.Marshal(caller.ApiConfig)
		mutated := 0
		if string(before) != string(after) {
			mutated = 1
		}
		p1, p2 := map[uintptr]bool{}, map[uintptr]bool{}
		cfgPointers(reflect.ValueOf(caller.ApiConfig), p1, 0)
		cfgPointers(reflect.ValueOf(gb.cfg.ApiConfig), p2, 0)
		for _, a := range gb.methodCfg { // the method table is part of what the balancer keeps
			cfgPointers(reflect.ValueOf(a), p2, 0)
		}
		aliased := 0
		for p := range p1 {
			if p2[p] {
				aliased = 1
			}
		}
		eff := cfgCanon(gb.cfg.ApiConfig)
		names := []string{}
		for n := range gb.methodCfg {
			names = append(names, n)
		}
		sort.Strings(names)
		tbl := []string{}
		for _, n := range names {
			a := gb.methodCfg[n]
			tbl = append(tbl, fmt.Sprintf("%s:%d:%s", hex.EncodeToString([]byte(n)), int32(a.GetCommand()), hex.EncodeToString([]byte(a.GetAffinityKey()))))
		}
		det := 0
		if gb.unresponsiveDetection {
			det = 1
		}
		// the effective low watermark is at least 1: an idle READY channel takes a call (the configuration is what the
		// balancer acts on, not only what it stores)
		acts := 1
		if len(text)%3 == 0 && len(gb.scRefList) > 0 {
			sc0 := gb.scRefList[0].subConn
			b.UpdateSubConnState(sc0, balancer.SubConnState{ConnectivityState: connectivity.Ready})
			if n := len(h.cc.pubs); n > 0 {
				res, err := h.cc.pubs[n-1].picker.Pick(balancer.PickInfo{FullMethodName: "/verif/unconfigured", Ctx: context.Background()})
				if err != nil || res.SubConn != sc0 {
					acts = 0
				} else if res.Done != nil {
					res.Done(balancer.DoneInfo{Err: errors.New("verif: not sent")})
				}
			} else {
				acts = 0
			}
		}
		// a second resolver update with another configuration does not change it
		b.UpdateClientConnState(balancer.ClientConnState{ResolverState: resolver.State{Addresses: []resolver.Address{{Addr: "a2"}}},
			BalancerConfig: &GCPBalancerConfig{ApiConfig: &pb.ApiConfig{ChannelPool: &pb.ChannelPoolConfig{MaxSize: 77, MinSize: 3}}}})
		second := "same"
		if cfgCanon(gb.cfg.ApiConfig) != eff {
			second = "changed"
		}
		fmt.Fprintf(w, "cfg effective json=%s => %s tbl=%s det=%d mutated=%d aliased=%d second=%s acts=%d\n", hex.EncodeToString(text), eff,
			strings.Join(tbl, ","), det, mutated, aliased, second, acts)
	}
	// corpus
	for _, s := range []string{`{}`, `null`, `[]`, `{"channelPool":{}}`, `{"channelPool":null,"method":null}`, `{"method":[]}`, `{"method":[{}]}`,
		`{"method":[{"name":["a","a"],"affinity":{"command":"BIND","affinityKey":"k"}},{"name":["a"],"affinity":{"command":"UNBIND"}}]}`,
		`{"method":[{"name":["a"]},{"name":["b"],"affinity":{}}]}`, `{"channelPool":{"maxSize":"10","idleTimeout":7}}`,
		`{"channelPool":{"maxSize":1e1}}`, `{"channelPool":{"maxSize":10.0}}`, `{"channelPool":{"fallbackToReady":"true"}}`,
		`{"channel_pool":{"max_size":3},"channelPool":{"maxSize":4}}`, `{"method":[null]}`, `{"method":[{"name":[null]}]}`, `{"method":{"name":["x"]}}`} {
		parseLine([]byte(s))
		effLine([]byte(s))
	}
	if data, err := os.ReadFile("test_config.json"); err == nil {
		parseLine(data)
		effLine(data)
	}
	for ep := 0; ep < episodes; ep++ {
		c := cfgGenValue(rng)
		text, _ := protojson.Marshal(c)
		// round trip through the real parser
		parsed, err := bb.ParseConfig(json.RawMessage(text))
		rt := "ok"
		if err != nil || !proto.Equal(parsed.(*GCPBalancerConfig).ApiConfig, c) {
			rt = "LOST"
		}
		fmt.Fprintf(w, "cfg roundtrip want=%s json=%s => %s\n", hex.EncodeToString([]byte(cfgCanon(c))), hex.EncodeToString(text), rt)
		parseLine(text)
		effLine(text)
		if rng.Intn(4) == 0 {
			if c1, err := (&gcpBalancerBuilder{}).ParseConfig(text); err == nil {
				common := make([]grpc.DialOption, 1, 8) // the caller's slice has room to spare
				common[0] = grpc.WithUserAgent("verif")
				o1, e1 := makeOpts(&GCPMultiEndpointOptions{GRPCgcpConfig: c1.(*GCPBalancerConfig).ApiConfig}, common)
				saved := append([]grpc.DialOption{}, o1...)
				_, e2 := makeOpts(&GCPMultiEndpointOptions{GRPCgcpConfig: &pb.ApiConfig{ChannelPool: &pb.ChannelPoolConfig{MaxSize: 7, MinSize: 7}}}, common)
				aliased := 0
				if e1 != nil || e2 != nil || len(common) != 1 {
					aliased = 1
				}
				for i := range o1 {
					a, b := reflect.ValueOf(o1[i]), reflect.ValueOf(saved[i])
					if a.Kind() == reflect.Pointer && b.Kind() == reflect.Pointer && a.Pointer() != b.Pointer() {
						aliased = 1
					}
				}
				fmt.Fprintf(w, "cfg makeopts json=%s => aliased=%d\n", hex.EncodeToString(text), aliased)
			}
		}
		var tree interface{}
		if json.Unmarshal(text, &tree) == nil {
			for k := 0; k < 2; k++ {
				tree = cfgMutate(rng, tree)
				if mt, err := json.Marshal(tree); err == nil {
					parseLine(mt)
					if k == 1 {
						effLine(mt)
					}
				}
			}
		}
	}
}
