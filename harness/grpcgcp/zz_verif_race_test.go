//go:build verif

// Race-detector stress workload (C10): the search that produces a concrete replay when the lockset
// obligation breaks. Drives the library the way gRPC does: balancer callbacks serialised on one
// goroutine; picks and completion callbacks from many goroutines, concurrent with the callbacks.
// Built with -race by bin/check; every report is a data race in /repo's code (the harness's own
// state is mutex-protected).
package grpcgcp

import (
	"context"
	"fmt"
	"math/rand"
	"os"
	"strconv"
	"sync"
	"sync/atomic"
	"testing"
	"time"

	"google.golang.org/grpc"
	"google.golang.org/grpc/balancer"
	"google.golang.org/grpc/codes"
	"google.golang.org/grpc/connectivity"
	"google.golang.org/grpc/resolver"
	"google.golang.org/grpc/status"

	"github.com/GoogleCloudPlatform/grpc-gcp-go/grpcgcp/multiendpoint"
	pb "github.com/GoogleCloudPlatform/grpc-gcp-go/grpcgcp/grpc_gcp"
)

type rSubConn struct{ id int }

func (*rSubConn) UpdateAddresses([]resolver.Address) {}
func (*rSubConn) Connect()                           {}
func (*rSubConn) GetOrBuildProducer(balancer.ProducerBuilder) (balancer.Producer, func()) {
	return nil, func() {}
}
func (*rSubConn) Shutdown() {}

type rCC struct {
	mu     sync.Mutex
	scs    []*rSubConn
	picker atomic.Value // balancer.Picker
}

func (c *rCC) NewSubConn(a []resolver.Address, _ balancer.NewSubConnOptions) (balancer.SubConn, error) {
	c.mu.Lock()
	defer c.mu.Unlock()
	sc := &rSubConn{id: len(c.scs)}
	c.scs = append(c.scs, sc)
	return sc, nil
}
func (c *rCC) RemoveSubConn(balancer.SubConn)                          {}
func (c *rCC) UpdateAddresses(balancer.SubConn, []resolver.Address)    {}
func (c *rCC) UpdateState(s balancer.State)                            { c.picker.Store(&s.Picker) }
func (c *rCC) ResolveNow(resolver.ResolveNowOptions)                   {}
func (c *rCC) Target() string                                          { return "race" }
func (c *rCC) snapshot() []*rSubConn {
	c.mu.Lock()
	defer c.mu.Unlock()
	return append([]*rSubConn{}, c.scs...)
}

func TestVerifRacePool(t *testing.T) {
	if os.Getenv("VERIF_RACE") == "" {
		t.Skip("VERIF_RACE not set")
	}
	dur, _ := strconv.Atoi(os.Getenv("VERIF_RACE_MS"))
	if dur == 0 {
		dur = 1500
	}
	seed, _ := strconv.ParseInt(os.Getenv("VERIF_SEED"), 10, 64)
	for round := 0; round < 4; round++ {
		cfg := &pb.ApiConfig{ChannelPool: &pb.ChannelPoolConfig{MinSize: 2, MaxSize: 4, MaxConcurrentStreamsLowWatermark: 2,
			FallbackToReady: round%2 == 0, UnresponsiveCalls: 1, UnresponsiveDetectionMs: 1}}
		if round >= 2 {
			cfg.ChannelPool.BindPickStrategy = pb.ChannelPoolConfig_ROUND_ROBIN
		}
		for n, a := range vMethods {
			cfg.Method = append(cfg.Method, &pb.MethodConfig{Name: []string{n}, Affinity: a})
		}
		cc := &rCC{}
		b := balancer.Get(Name).Build(cc, balancer.BuildOptions{})
		b.UpdateClientConnState(balancer.ClientConnState{ResolverState: resolver.State{Addresses: []resolver.Address{{Addr: "a1"}}},
			BalancerConfig: &GCPBalancerConfig{ApiConfig: cfg}})
		for _, sc := range cc.snapshot() {
			b.UpdateSubConnState(sc, balancer.SubConnState{ConnectivityState: connectivity.Ready})
		}
		stop := make(chan struct{})
		var wg sync.WaitGroup
		// serialised balancer callbacks
		wg.Add(1)
		go func() {
			defer wg.Done()
			rng := rand.New(rand.NewSource(seed + int64(round)))
			states := []connectivity.State{connectivity.Ready, connectivity.Ready, connectivity.Ready, connectivity.Connecting, connectivity.TransientFailure, connectivity.Idle}
			for i := 0; ; i++ {
				select {
				case <-stop:
					return
				default:
				}
				scs := cc.snapshot()
				sc := scs[rng.Intn(len(scs))]
				b.UpdateSubConnState(sc, balancer.SubConnState{ConnectivityState: states[rng.Intn(len(states))]})
				if i%50 == 0 {
					b.UpdateClientConnState(balancer.ClientConnState{ResolverState: resolver.State{Addresses: []resolver.Address{{Addr: fmt.Sprintf("a%d", 1+i%3)}}}})
				}
				if i%7 == 0 {
					time.Sleep(50 * time.Microsecond)
				}
			}
		}()
		// picks and completions
		for g := 0; g < 6; g++ {
			wg.Add(1)
			go func(g int) {
				defer wg.Done()
				rng := rand.New(rand.NewSource(seed*31 + int64(g)))
				methods := []string{"plain", "bind", "bound", "unbind", "bound", "plain"}
				for {
					select {
					case <-stop:
						return
					default:
					}
					pp, _ := cc.picker.Load().(*balancer.Picker)
					if pp == nil {
						continue
					}
					key := fmt.Sprintf("k%d", rng.Intn(4))
					reply := &vMsg{}
					ctx, cancel := context.WithTimeout(context.Background(), time.Duration(rng.Intn(300))*time.Microsecond)
					pctx := context.WithValue(ctx, gcpKey, &gcpContext{reqMsg: &vMsg{Key: key}, replyMsg: reply})
					r, err := (*pp).Pick(balancer.PickInfo{FullMethodName: methods[rng.Intn(len(methods))], Ctx: pctx})
					if err == nil && r.Done != nil {
						reply.Key = key
						var derr error
						quiet := (time.Now().UnixNano()/int64(4*time.Millisecond))%2 == 1
						switch {
						case quiet || rng.Intn(4) == 0:
							// no response in a quiet phase: the channel looks unresponsive, a refresh starts,
							// the serialised goroutine reports the replacement READY, the swap meets the
							// completion callbacks of the next phase
							<-ctx.Done()
							if quiet {
								time.Sleep(time.Duration(200+rng.Intn(1500)) * time.Microsecond)
							}
							derr = status.Error(codes.DeadlineExceeded, context.DeadlineExceeded.Error())
						case rng.Intn(3) == 0:
							derr = status.Error(codes.Unavailable, "x")
						}
						r.Done(balancer.DoneInfo{Err: derr})
					}
					cancel()
				}
			}(g)
		}
		time.Sleep(time.Duration(dur/4) * time.Millisecond)
		close(stop)
		wg.Wait()
	}
}

func TestVerifRaceME(t *testing.T) {
	if os.Getenv("VERIF_RACE") == "" {
		t.Skip("VERIF_RACE not set")
	}
	h := &gmeHarness{conns: nil, dials: map[string]int{}, apiCfg: &pb.ApiConfig{ChannelPool: &pb.ChannelPoolConfig{MinSize: 1, MaxSize: 1}}}
	h.fail = map[string]bool{}
	hmu := sync.Mutex{}
	dial := func(ctx context.Context, target string, opts ...grpc.DialOption) (*grpc.ClientConn, error) {
		hmu.Lock()
		defer hmu.Unlock()
		if h.conns == nil {
			h.conns = map[string][]*grpc.ClientConn{}
		}
		return h.dial(ctx, target, opts...)
	}
	mk := func(i int) *GCPMultiEndpointOptions {
		return &GCPMultiEndpointOptions{GRPCgcpConfig: h.apiCfg, Default: "default", DialFunc: dial,
			MultiEndpoints: map[string]*multiendpoint.MultiEndpointOptions{
				"default": {Endpoints: []string{"e1", fmt.Sprintf("e%d", 2+i%2)}, RecoveryTimeout: time.Millisecond, SwitchingDelay: time.Millisecond},
				"read":    {Endpoints: []string{fmt.Sprintf("e%d", 2+i%3), "e1"}, RecoveryTimeout: time.Millisecond},
			}}
	}
	mkBase := mk
	mk = func(i int) *GCPMultiEndpointOptions {
		o := mkBase(i)
		if i%2 == 1 { // a named MultiEndpoint that comes and goes
			o.MultiEndpoints["extra"] = &multiendpoint.MultiEndpointOptions{Endpoints: []string{"e1", "e3"}, RecoveryTimeout: 300 * time.Microsecond}
		}
		return o
	}
	gme, err := NewGCPMultiEndpoint(mk(0))
	if err != nil {
		t.Fatal(err)
	}
	stop := make(chan struct{})
	var wg sync.WaitGroup
	for g := 0; g < 4; g++ {
		wg.Add(1)
		go func(g int) {
			defer wg.Done()
			for i := 0; ; i++ {
				select {
				case <-stop:
					return
				default:
				}
				ctx := context.Background()
				if i%2 == 0 {
					ctx = NewMEContext(ctx, []string{"read", "default", "zzz"}[i%3])
				}
				_ = gme.pickConn(ctx)
			}
		}(g)
	}
	wg.Add(1)
	go func() {
		defer wg.Done()
		for i := 1; ; i++ {
			select {
			case <-stop:
				return
			default:
			}
			gme.UpdateMultiEndpoints(mk(i))
			gme.mu.RLock()
			var mc *monitoredConn
			for _, m := range gme.pools {
				mc = m
				break
			}
			gme.mu.RUnlock()
			if mc != nil {
				verifDeliver(mc, []connectivity.State{connectivity.Ready, connectivity.TransientFailure}[i%2])
			}
			time.Sleep(200 * time.Microsecond)
		}
	}()
	// a second application goroutine reconfigures at the same time (a different phase: it adds / removes other endpoints)
	wg.Add(1)
	go func() {
		defer wg.Done()
		for i := 2; ; i += 3 {
			select {
			case <-stop:
				return
			default:
			}
			gme.UpdateMultiEndpoints(mk(i))
			time.Sleep(150 * time.Microsecond)
		}
	}()
	// pool state reports from their own goroutines (what the monitor goroutines do), concurrent with the updates
	for g := 0; g < 2; g++ {
		wg.Add(1)
		go func(g int) {
			defer wg.Done()
			for i := g; ; i++ {
				select {
				case <-stop:
					return
				default:
				}
				gme.mu.RLock()
				mcs := []*monitoredConn{}
				for _, m := range gme.pools {
					mcs = append(mcs, m)
				}
				gme.mu.RUnlock()
				for _, mc := range mcs {
					verifDeliver(mc, []connectivity.State{connectivity.Ready, connectivity.TransientFailure, connectivity.TransientFailure}[i%3])
				}
				time.Sleep(time.Duration(100+50*g) * time.Microsecond)
			}
		}(g)
	}
	time.Sleep(600 * time.Millisecond)
	close(stop)
	wg.Wait()
	gme.Close()
}

// TestVerifRaceTimers: recovery and switch timers that really fire (tiny timeouts, real clock) while
// other goroutines report availability, replace the endpoint list and read Current().
func TestVerifRaceTimers(t *testing.T) {
	if os.Getenv("VERIF_RACE") == "" {
		t.Skip("VERIF_RACE not set")
	}
	me, err := multiendpoint.NewMultiEndpoint(&multiendpoint.MultiEndpointOptions{
		Endpoints: []string{"a", "b", "c"}, RecoveryTimeout: 150 * time.Microsecond, SwitchingDelay: 100 * time.Microsecond})
	if err != nil {
		t.Fatal(err)
	}
	stop := make(chan struct{})
	var wg sync.WaitGroup
	for g := 0; g < 3; g++ {
		wg.Add(1)
		go func(g int) {
			defer wg.Done()
			ids := []string{"a", "b", "c"}
			for i := 0; ; i++ {
				select {
				case <-stop:
					return
				default:
				}
				e := ids[(i+g)%3]
				me.SetEndpointAvailability(e, true)
				time.Sleep(time.Duration(50+40*g) * time.Microsecond)
				me.SetEndpointAvailability(e, false)
				// long enough for the recovery timer of e to fire while the others keep reporting
				time.Sleep(time.Duration(200+60*g) * time.Microsecond)
				_ = me.Current()
			}
		}(g)
	}
	wg.Add(1)
	go func() {
		defer wg.Done()
		lists := [][]string{{"a", "b", "c"}, {"c", "a"}, {"b", "c", "a"}, {"a", "b"}}
		for i := 0; ; i++ {
			select {
			case <-stop:
				return
			default:
			}
			me.SetEndpoints(lists[i%len(lists)])
			time.Sleep(300 * time.Microsecond)
		}
	}()
	time.Sleep(500 * time.Millisecond)
	close(stop)
	wg.Wait()
}
