//go:build verif

// Correspondence harness for affinity-key extraction (C11). Injected with `go test -overlay`.
//   kp keys loc=<hex of the locator> val=<s-expression of the value as reflect sees it>
//        => ok <hex>,<hex>,... | err | PANIC
// s-expression: I (invalid) | (S <hex>) | O (other kind) | PN | (P v) | FN | (F v) |
//               (T (<name> v) (<name> !) ...) struct field table | (L v ...) slice
package grpcgcp

import (
	"bufio"
	"encoding/hex"
	"fmt"
	"math/rand"
	"os"
	"os/exec"
	"reflect"
	"runtime/debug"
	"strconv"
	"strings"
	"testing"

	pb "github.com/GoogleCloudPlatform/grpc-gcp-go/grpcgcp/grpc_gcp"
)

// ---- serialise a Go value the way the model's V describes it

func kpSexp(v reflect.Value, depth int) string {
	if !v.IsValid() {
		return "I"
	}
	if depth > 12 {
		return "O"
	}
	switch v.Kind() {
	case reflect.String:
		return "(S " + hex.EncodeToString([]byte(v.String())) + ")"
	case reflect.Pointer:
		if v.IsNil() {
			return "PN"
		}
		return "(P " + kpSexp(v.Elem(), depth+1) + ")"
	case reflect.Interface:
		if v.IsNil() {
			return "FN"
		}
		return "(F " + kpSexp(v.Elem(), depth+1) + ")"
	case reflect.Slice:
		parts := []string{"L"}
		for i := 0; i < v.Len(); i++ {
			parts = append(parts, kpSexp(v.Index(i), depth+1))
		}
		return "(" + strings.Join(parts, " ") + ")"
	case reflect.Struct:
		parts := []string{"T"}
		seen := map[string]bool{}
		for _, f := range reflect.VisibleFields(v.Type()) {
			if seen[f.Name] {
				continue
			}
			seen[f.Name] = true
			sf, ok := v.Type().FieldByName(f.Name)
			if !ok {
				continue // ambiguous: FieldByName does not resolve it
			}
			fv, err := v.FieldByIndexErr(sf.Index)
			if err != nil {
				parts = append(parts, "("+f.Name+" !)")
				continue
			}
			parts = append(parts, "("+f.Name+" "+kpSexp(fv, depth+1)+")")
		}
		return "(" + strings.Join(parts, " ") + ")"
	}
	return "O"
}

// ---- hand-written corpus of types

type kpInner struct {
	Key   string
	Keys  []string
	Num   int
	Blob  []byte
	Arr   [2]string
	M     map[string]string
	Next  *kpInner
	Any   interface{}
	priv  string
	Named kpName
	// a repeated field whose elements are of a named string type, and a field name that does not start with an ASCII letter
	NamedKeys []kpName
	Überweg   string
	Ключи     []string
}
type kpName string
type kpEmb struct{ Key2 string }
type kpOuter struct {
	*kpInner // embedded pointer (may be nil)
	kpEmb    // embedded struct
	Name     string
	Items    []*kpInner
	Vals     []kpInner
	Ifs      []interface{}
	PP       **kpInner
	F        func()
}
// a field promoted through two levels of embedded pointers: the outer one may be set while the inner one is nil
type kpDeepLeaf struct{ DeepKey string }
type kpDeepMid struct{ *kpDeepLeaf }
type kpDeepTop struct {
	*kpDeepMid
	Top string
}
type kpAmbA struct{ Dup string }
type kpAmbB struct{ Dup string }
type kpAmb struct {
	kpAmbA
	kpAmbB
	Own string
}

// two distinct types whose reflect.Type.String() is the same ("grpcgcp.kpTwin") and whose fields are
// laid out differently: extraction must not depend on which of them was seen first
func kpTwinA() interface{} {
	type kpTwin struct {
		Name  string
		Id    string
		Child *kpInner
	}
	return &kpTwin{Name: "a-name", Id: "a-id", Child: &kpInner{Key: "a-child"}}
}
func kpTwinB() interface{} {
	type kpTwin struct {
		Child *kpInner
		Extra int
		Id    string
		Name  string
	}
	return &kpTwin{Name: "b-name", Id: "b-id", Child: &kpInner{Key: "b-child"}, Extra: 1}
}

func kpCorpus() []interface{} {
	in := &kpInner{Key: "k", Keys: []string{"a", "b"}, Num: 3, Blob: []byte("xy"), Next: &kpInner{Key: "n", NamedKeys: []kpName{"nn"}, Überweg: "u2"}, Any: &kpInner{Key: "any"}, priv: "p", Named: "nm",
		NamedKeys: []kpName{"n1", "n2"}, Überweg: "ue", Ключи: []string{"к1", "к2"}}
	pin := in
	return []interface{}{
		nil, in, *in, (*kpInner)(nil), "str", 42, []string{"x"}, map[string]string{"a": "b"},
		&kpOuter{Name: "o"},                                                        // nil embedded pointer
		&kpOuter{kpInner: in, kpEmb: kpEmb{Key2: "e"}, Name: "o", Items: []*kpInner{in, nil, {Key: "z"}}, Vals: []kpInner{{Key: "v1"}, {Key: "v2"}}, Ifs: []interface{}{in, "s", nil, 7}, PP: &pin},
		&kpAmb{Own: "own"},
		&kpDeepTop{Top: "t"},                                                             // both levels nil
		&kpDeepTop{kpDeepMid: &kpDeepMid{}, Top: "t"},                                    // outer set, inner nil
		&kpDeepTop{kpDeepMid: &kpDeepMid{kpDeepLeaf: &kpDeepLeaf{DeepKey: "dk"}}, Top: "t"}, // all set
		&kpOuter{Name: "o2", Items: []*kpInner{{Any: &kpDeepTop{kpDeepMid: &kpDeepMid{}}}}},
		&kpInner{Any: "iface-string", Keys: []string{}},
		&pb.ApiConfig{ChannelPool: &pb.ChannelPoolConfig{MaxSize: 3}, Method: []*pb.MethodConfig{{Name: []string{"m1", "m2"}, Affinity: &pb.AffinityConfig{AffinityKey: "key"}}, {Name: []string{"m3"}}}},
		&pb.MethodConfig{Name: []string{}},
		kpTwinA(), kpTwinB(),
		&testMsg{Key: "test_key", NestedField: &nestedField{Key: "nk", RepeatedString: []string{"r1", "r2"}}, RepeatedField: []*nestedField{{Key: "a"}, {Key: "b"}}, RepeatedString: []string{"x", "y"}, RepeatedInt: []int{1, 2}},
	}
}

var kpLocators = []string{"", "key", "Key", "keys", "num", "blob", "arr", "m", "next.key", "next.next.key", "any.key", "any", "priv", "named",
	"name", "items.key", "items.keys", "vals.key", "ifs.key", "ifs", "pP.key", "pP", "f", "key2", "dup", "own", "kpInner.key", "kpEmb.key2",
	"channelPool.maxSize", "method.name", "method.affinity.affinityKey", "method.affinity", "nestedField.key", "nestedField.repeatedString",
	"repeatedField.key", "repeatedString", "repeatedInt", "key.x", "next..key", ".key", "key.", "next.", "..", "items", "x-y", "next key", "_x", "9a", "next.Key", "NEXT.KEY", "id", "child.key", "extra",
	"deepKey", "top", "kpDeepMid.deepKey", "kpDeepMid.kpDeepLeaf.deepKey", "items.any.deepKey",
	"namedKeys", "next.namedKeys", "items.namedKeys", "Überweg", "next.Überweg", "Ключи", "vals.Überweg", "Überweg.x"}

// ---- random shapes built with reflect

type kpGen struct{ rng *rand.Rand }

var kpFieldNames = []string{"A", "B", "Key", "Keys", "Child", "Items", "X_y", "A1"}

func (g *kpGen) typ(depth int) reflect.Type {
	k := g.rng.Intn(20)
	if depth <= 0 && k >= 8 {
		k = g.rng.Intn(8)
	}
	switch {
	case k < 5:
		return reflect.TypeOf("")
	case k == 5:
		return reflect.TypeOf(0)
	case k == 6:
		return reflect.TypeOf(map[string]int{})
	case k == 7:
		return reflect.TypeOf((*interface{})(nil)).Elem()
	case k < 11:
		return reflect.PointerTo(g.typ(depth - 1))
	case k < 14:
		return reflect.SliceOf(g.typ(depth - 1))
	default:
		n := 1 + g.rng.Intn(4)
		fs := []reflect.StructField{}
		used := map[string]bool{}
		for i := 0; i < n; i++ {
			name := kpFieldNames[g.rng.Intn(len(kpFieldNames))]
			if used[name] {
				continue
			}
			used[name] = true
			fs = append(fs, reflect.StructField{Name: name, Type: g.typ(depth - 1)})
		}
		return reflect.StructOf(fs)
	}
}

func (g *kpGen) val(t reflect.Type, depth int) reflect.Value {
	v := reflect.New(t).Elem()
	switch t.Kind() {
	case reflect.String:
		v.SetString([]string{"", "a", "b", "key", "x y", "ü"}[g.rng.Intn(6)])
	case reflect.Int:
		v.SetInt(int64(g.rng.Intn(5)))
	case reflect.Pointer:
		if g.rng.Intn(8) != 0 && depth > 0 {
			p := reflect.New(t.Elem())
			p.Elem().Set(g.val(t.Elem(), depth-1))
			v.Set(p)
		}
	case reflect.Interface:
		if g.rng.Intn(3) != 0 && depth > 0 {
			it := g.typ(depth - 1)
			if it.Kind() != reflect.Interface {
				v.Set(g.val(it, depth-1))
			}
		}
	case reflect.Slice:
		n := g.rng.Intn(4)
		if depth <= 0 {
			n = 0
		}
		s := reflect.MakeSlice(t, n, n)
		for i := 0; i < n; i++ {
			s.Index(i).Set(g.val(t.Elem(), depth-1))
		}
		v.Set(s)
	case reflect.Struct:
		for i := 0; i < t.NumField(); i++ {
			v.Field(i).Set(g.val(t.Field(i).Type, depth-1))
		}
	}
	return v
}

// all field paths of t that end on a string (through pointers, slices and structs)
func kpStringPaths(t reflect.Type, prefix []string, depth int, out *[][]string) {
	for t.Kind() == reflect.Pointer || t.Kind() == reflect.Slice {
		t = t.Elem()
	}
	if t.Kind() == reflect.String && len(prefix) > 0 {
		*out = append(*out, append([]string{}, prefix...))
		return
	}
	if t.Kind() != reflect.Struct || depth > 6 {
		return
	}
	for i := 0; i < t.NumField(); i++ {
		f := t.Field(i)
		kpStringPaths(f.Type, append(prefix, strings.ToLower(f.Name[:1])+f.Name[1:]), depth+1, out)
	}
}

// a locator following real field paths of t, then mutated
func (g *kpGen) locator(t reflect.Type) string {
	segs := []string{}
	var good [][]string
	kpStringPaths(t, nil, 0, &good)
	if len(good) > 0 && g.rng.Intn(4) != 0 {
		segs = append(segs, good[g.rng.Intn(len(good))]...)
		if g.rng.Intn(3) != 0 {
			return strings.Join(segs, ".")
		}
	}
	for steps := 0; steps < 6 && len(segs) == 0; steps++ {
		for t.Kind() == reflect.Pointer || t.Kind() == reflect.Slice {
			t = t.Elem()
		}
		if t.Kind() != reflect.Struct || t.NumField() == 0 {
			break
		}
		f := t.Field(g.rng.Intn(t.NumField()))
		segs = append(segs, strings.ToLower(f.Name[:1])+f.Name[1:])
		t = f.Type
		if g.rng.Intn(4) == 0 {
			break
		}
	}
	switch g.rng.Intn(12) {
	case 0:
		segs = append(segs, kpFieldNames[g.rng.Intn(len(kpFieldNames))]) // too long
	case 1:
		if len(segs) > 0 {
			segs = segs[:len(segs)-1] // too short
		}
	case 2:
		if len(segs) > 0 {
			i := g.rng.Intn(len(segs))
			segs[i] = strings.ToUpper(segs[i]) // wrong case
		}
	case 3:
		segs = append(segs, "") // empty segment
	case 4:
		segs = append([]string{""}, segs...)
	case 5:
		segs = append(segs, "no such")
	}
	return strings.Join(segs, ".")
}

func kpRun(w *bufio.Writer, loc string, msg interface{}) {
	sexp := kpSexp(reflect.ValueOf(msg), 0)
	res := func() (out string) {
		defer func() {
			if r := recover(); r != nil {
				out = "PANIC"
			}
		}()
		ks, err := getAffinityKeysFromMessage(loc, msg)
		if err != nil {
			return "err"
		}
		hs := []string{}
		for _, k := range ks {
			hs = append(hs, hex.EncodeToString([]byte(k)))
		}
		return "ok " + strings.Join(hs, ",")
	}()
	fmt.Fprintf(w, "kp keys loc=%s val=%s => %s\n", hex.EncodeToString([]byte(loc)), sexp, res)
}

// kpDeepNode: a value that can be followed for ever (next.next.….name)
type kpDeepNode struct {
	Name string
	Next *kpDeepNode
}

// TestVerifKeyPathDeep is the child process of the `kp deep` line: it lowers the goroutine stack limit, extracts a key
// through a locator with VERIF_DEEP_SEGMENTS segments and prints the result. Exceeding the stack limit is not a panic
// that could be recovered from: it kills the process, so it must not happen in the harness process itself.
func TestVerifKeyPathDeep(t *testing.T) {
	n, _ := strconv.Atoi(os.Getenv("VERIF_DEEP_SEGMENTS"))
	mb, _ := strconv.Atoi(os.Getenv("VERIF_DEEP_STACK_MB"))
	if n == 0 || mb == 0 {
		t.Skip("not the child of a kp deep line")
	}
	debug.SetMaxStack(mb << 20)
	node := &kpDeepNode{Name: "k"}
	node.Next = node
	ks, err := getAffinityKeysFromMessage(strings.Repeat("next.", n)+"name", node)
	fmt.Printf("VERIF-DEEP-RESULT keys=%v err=%v\n", ks, err != nil)
}

// kpDeep runs TestVerifKeyPathDeep in a child process.   kp deep segments=<n> stackmb=<m> => ok <hex keys> | err | crashed
func kpDeep(w *bufio.Writer, segments, stackMB int) {
	cmd := exec.Command(os.Args[0], "-test.run=^TestVerifKeyPathDeep$", "-test.count=1")
	cmd.Env = append(os.Environ(), fmt.Sprintf("VERIF_DEEP_SEGMENTS=%d", segments), fmt.Sprintf("VERIF_DEEP_STACK_MB=%d", stackMB), "VERIF_OUT=")
	outb, _ := cmd.CombinedOutput()
	out := string(outb)
	res := "crashed"
	switch {
	case strings.Contains(out, "VERIF-DEEP-RESULT keys=[k] err=false"):
		res = "ok " + hex.EncodeToString([]byte("k"))
	case strings.Contains(out, "VERIF-DEEP-RESULT") && strings.Contains(out, "err=true"):
		res = "err"
	case strings.Contains(out, "stack overflow") || strings.Contains(out, "goroutine stack exceeds"):
		res = "crashed"
	default:
		res = "inconclusive"
	}
	fmt.Fprintf(w, "kp deep segments=%d stackmb=%d => %s\n", segments, stackMB, res)
}

func TestVerifKeyPath(t *testing.T) {
	out := os.Getenv("VERIF_OUT")
	if out == "" {
		t.Skip("VERIF_OUT not set")
	}
	f, err := os.Create(out)
	if err != nil {
		t.Fatal(err)
	}
	defer f.Close()
	w := bufio.NewWriter(f)
	defer w.Flush()
	for _, m := range kpCorpus() {
		for _, l := range kpLocators {
			kpRun(w, l, m)
		}
	}
	// a locator of modest length on a small stack works; a long one needs stack in proportion to its length (K10)
	kpDeep(w, 2000, 64)
	kpDeep(w, 300000, 64)
	// once more in the opposite order: the result of an extraction must not depend on earlier calls
	corpus := kpCorpus()
	for i := len(corpus) - 1; i >= 0; i-- {
		for j := len(kpLocators) - 1; j >= 0; j-- {
			kpRun(w, kpLocators[j], corpus[i])
		}
	}
	seed, _ := strconv.ParseInt(os.Getenv("VERIF_SEED"), 10, 64)
	episodes, _ := strconv.Atoi(os.Getenv("VERIF_EPISODES"))
	g := &kpGen{rng: rand.New(rand.NewSource(seed))}
	for ep := 0; ep < episodes; ep++ {
		t := g.typ(4)
		if g.rng.Intn(3) != 0 {
			// a message-like value: a struct at the top
			for tries := 0; tries < 20 && t.Kind() != reflect.Struct; tries++ {
				t = g.typ(4)
			}
		}
		v := g.val(t, 6)
		var msg interface{}
		if g.rng.Intn(3) == 0 && v.CanAddr() {
			msg = v.Addr().Interface()
		} else {
			msg = v.Interface()
		}
		for i := 0; i < 3; i++ {
			kpRun(w, g.locator(t), msg)
		}
	}
}
