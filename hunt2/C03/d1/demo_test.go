package grpcgcp

import (
	"context"
	"testing"

	"github.com/GoogleCloudPlatform/grpc-gcp-go/grpcgcp/mocks"
	"github.com/golang/mock/gomock"
	"google.golang.org/grpc/balancer"
	"google.golang.org/grpc/connectivity"
	"google.golang.org/grpc/resolver"

	pb "github.com/GoogleCloudPlatform/grpc-gcp-go/grpcgcp/grpc_gcp"
)

// Property C03: "a channel is added only [...] by a call that finds every READY channel at
// or above the stream low-watermark while the pool is below maxSize and no channel is idle
// or connecting".
//
// The saturation half of that decision is taken on the picker's private snapshot of the READY
// channels (gcpPicker.scRefs), the "nobody is connecting" half on the balancer's live
// scStates (newSubConn). A call whose picker was built before channel B reported READY does
// not see B at all; while B is CONNECTING newSubConn refuses, but as soon as B is READY (and
// completely unused) nothing stops that call any more: the pool grows although a READY
// channel has no stream at all.
//
// Schedule (sequential here, so fully deterministic): the call loaded picker P1 in gRPC's
// pickerWrapper, channel B reported READY and P2 was published, then the call ran P1.Pick.
// Picks run concurrently with the balancer callbacks, so gRPC allows exactly this.
func TestDefectDemo(t *testing.T) {
	mockCtrl := gomock.NewController(t)
	defer mockCtrl.Finish()

	mockCC := mocks.NewMockClientConn(mockCtrl)
	var pickers []balancer.Picker
	mockCC.EXPECT().UpdateState(gomock.Any()).Do(func(s balancer.State) {
		pickers = append(pickers, s.Picker)
	}).AnyTimes()
	mockCC.EXPECT().RemoveSubConn(gomock.Any()).Times(0)
	var scs []*mocks.MockSubConn
	mockCC.EXPECT().NewSubConn(gomock.Any(), gomock.Any()).DoAndReturn(func(_, _ interface{}) (*mocks.MockSubConn, error) {
		sc := mocks.NewMockSubConn(mockCtrl)
		sc.EXPECT().Connect().AnyTimes()
		sc.EXPECT().UpdateAddresses(gomock.Any()).AnyTimes()
		scs = append(scs, sc)
		return sc, nil
	}).AnyTimes()

	b := newBuilder().Build(mockCC, balancer.BuildOptions{}).(*gcpBalancer)
	b.UpdateClientConnState(balancer.ClientConnState{
		ResolverState: resolver.State{Addresses: []resolver.Address{{Addr: "10.0.0.1:443"}}},
		BalancerConfig: &GCPBalancerConfig{
			ApiConfig: &pb.ApiConfig{
				ChannelPool: &pb.ChannelPoolConfig{
					MinSize:                          2,
					MaxSize:                          4,
					MaxConcurrentStreamsLowWatermark: 1,
				},
			},
		},
	})
	if len(scs) != 2 || len(b.scRefs) != 2 {
		t.Fatalf("setup: want 2 channels after the first resolver update, got %d created, %d in the pool", len(scs), len(b.scRefs))
	}
	chA, chB := scs[0], scs[1]

	// Both channels start connecting; A becomes READY first: picker P1 = {A}.
	b.UpdateSubConnState(chA, balancer.SubConnState{ConnectivityState: connectivity.Connecting})
	b.UpdateSubConnState(chB, balancer.SubConnState{ConnectivityState: connectivity.Connecting})
	b.UpdateSubConnState(chA, balancer.SubConnState{ConnectivityState: connectivity.Ready})
	if len(pickers) == 0 {
		t.Fatalf("setup: no picker published after the first channel became READY")
	}
	p1 := pickers[len(pickers)-1]

	// Call 1 on P1 is placed on A: A now carries 1 stream = the low-watermark.
	res, err := p1.Pick(balancer.PickInfo{FullMethodName: "", Ctx: context.Background()})
	if err != nil || res.SubConn != chA {
		t.Fatalf("setup: want call 1 placed on channel A, got %v, %v", res.SubConn, err)
	}

	// Call 2 has loaded P1 from gRPC's picker wrapper but has not called Pick yet.
	// Meanwhile channel B reports READY; the balancer publishes P2 = {A, B}.
	b.UpdateSubConnState(chB, balancer.SubConnState{ConnectivityState: connectivity.Ready})
	if b.picker == p1 {
		t.Fatalf("setup: want a new picker after channel B became READY")
	}
	if st := b.scStates[chB]; st != connectivity.Ready {
		t.Fatalf("setup: channel B is %v, want READY", st)
	}
	if n := b.scRefs[chB].getStreamsCnt(); n != 0 {
		t.Fatalf("setup: channel B carries %d streams, want 0", n)
	}

	// Now call 2 runs Pick on P1.
	_, err = p1.Pick(balancer.PickInfo{FullMethodName: "", Ctx: context.Background()})

	if len(scs) != 2 || len(b.scRefs) != 2 {
		t.Fatalf("property C03 violated: the pool grew from 2 to %d channels (NewSubConn called %d times) on behalf of a call "+
			"(Pick returned err=%v) although READY channel B carries %d streams, below the low-watermark 1; "+
			"want: a channel is added only by a call that finds EVERY READY channel at or above the low-watermark",
			len(b.scRefs), len(scs), err, b.scRefs[chB].getStreamsCnt())
	}
}
