package grpcgcp

import (
	"context"
	"testing"

	"google.golang.org/grpc"
	"google.golang.org/grpc/credentials/insecure"
	"google.golang.org/grpc/metadata"
)

// demoStream is the "underlying" stream handed out by the spy interceptor below.
type demoStream struct{ ctx context.Context }

func (s *demoStream) Header() (metadata.MD, error) { return nil, nil }
func (s *demoStream) Trailer() metadata.MD         { return nil }
func (s *demoStream) CloseSend() error             { return nil }
func (s *demoStream) Context() context.Context     { return s.ctx }
func (s *demoStream) SendMsg(m interface{}) error  { return nil }
func (s *demoStream) RecvMsg(m interface{}) error  { return nil }

// openTwoStreams does what an application that keeps one option slice per
// goroutine does: it opens stream A with grpc.Header(hdrA), then re-uses the
// slice to open stream B with grpc.Header(hdrB), and only then sends on A and B.
// It returns the header destination the underlying stream of A and of B were
// created with. The last interceptor of the chain plays the transport: it records
// the options it is called with and returns a fake stream.
func openTwoStreams(t *testing.T, hdrA, hdrB *metadata.MD, interceptors ...grpc.StreamClientInterceptor) (gotA, gotB *metadata.MD) {
	t.Helper()
	var created []*metadata.MD
	spy := func(ctx context.Context, desc *grpc.StreamDesc, cc *grpc.ClientConn, method string, streamer grpc.Streamer, opts ...grpc.CallOption) (grpc.ClientStream, error) {
		var dst *metadata.MD
		for _, o := range opts {
			if h, ok := o.(grpc.HeaderCallOption); ok {
				dst = h.HeaderAddr
			}
		}
		created = append(created, dst)
		return &demoStream{ctx: ctx}, nil
	}
	// Nothing is ever dialled: the spy never calls the real streamer.
	cc, err := grpc.Dial("passthrough:///unused",
		grpc.WithTransportCredentials(insecure.NewCredentials()),
		grpc.WithChainStreamInterceptor(append(interceptors, spy)...))
	if err != nil {
		t.Fatalf("grpc.Dial: %v", err)
	}
	defer cc.Close()

	desc := &grpc.StreamDesc{ClientStreams: true, ServerStreams: true}
	ctx := context.Background()

	callOpts := []grpc.CallOption{grpc.Header(hdrA)}
	a, err := cc.NewStream(ctx, desc, "/svc/A", callOpts...)
	if err != nil {
		t.Fatalf("NewStream A: %v", err)
	}
	// NewStream has returned: the variadic slice belongs to the caller again.
	callOpts[0] = grpc.Header(hdrB)
	b, err := cc.NewStream(ctx, desc, "/svc/B", callOpts...)
	if err != nil {
		t.Fatalf("NewStream B: %v", err)
	}
	if err := a.SendMsg("first message of A"); err != nil {
		t.Fatalf("A.SendMsg: %v", err)
	}
	if err := b.SendMsg("first message of B"); err != nil {
		t.Fatalf("B.SendMsg: %v", err)
	}
	if len(created) != 2 {
		t.Fatalf("underlying streams created: %d, want 2", len(created))
	}
	return created[0], created[1]
}

func TestDefectDemo(t *testing.T) {
	var hdrA, hdrB metadata.MD

	// Control: without the grpcgcp interceptor stream A is created with hdrA.
	if gotA, gotB := openTwoStreams(t, &hdrA, &hdrB); gotA != &hdrA || gotB != &hdrB {
		t.Fatalf("control (no grpcgcp interceptor) is broken: A created with %p (want %p), B with %p (want %p)", gotA, &hdrA, gotB, &hdrB)
	}

	// With the grpcgcp interceptor in front, the same program must behave the same.
	gotA, gotB := openTwoStreams(t, &hdrA, &hdrB, GCPStreamClientInterceptor)
	if gotB != &hdrB {
		t.Errorf("stream B: underlying stream created with header destination %p, want %p", gotB, &hdrB)
	}
	if gotA != &hdrA {
		t.Errorf("stream interceptor is not transparent: the underlying stream of call A was created with "+
			"header destination %p, which is the one passed to call B (%p); want the option passed to "+
			"NewStream for call A (%p). gcpClientStream kept an alias of the caller's option slice until the first SendMsg.",
			gotA, &hdrB, &hdrA)
	}
}
