package grpcgcp

import (
	"context"
	"runtime"
	"strings"
	"testing"
	"time"

	"github.com/GoogleCloudPlatform/grpc-gcp-go/grpcgcp/multiendpoint"
	"google.golang.org/grpc"
	"google.golang.org/grpc/connectivity"
	"google.golang.org/grpc/credentials/insecure"

	pb "github.com/GoogleCloudPlatform/grpc-gcp-go/grpcgcp/grpc_gcp"
)

// NOT a defect under the strict quantifier of C16 (Close is the last operation there).
// Shows what an UpdateMultiEndpoints that is linearised after Close() does (for example a
// configuration watcher racing with shutdown): it is accepted, keeps the closed pools in
// the routing table and dials new pools with new monitor goroutines nobody will close.
func TestDefectDemo(t *testing.T) {
	var dialled []*grpc.ClientConn
	dial := func(ctx context.Context, target string, dopts ...grpc.DialOption) (*grpc.ClientConn, error) {
		dopts = append(dopts, grpc.WithTransportCredentials(insecure.NewCredentials()))
		c, err := grpc.Dial(target, dopts...)
		if err == nil {
			dialled = append(dialled, c)
		}
		return c, err
	}
	opts := func(eps ...string) *GCPMultiEndpointOptions {
		return &GCPMultiEndpointOptions{
			GRPCgcpConfig: &pb.ApiConfig{},
			MultiEndpoints: map[string]*multiendpoint.MultiEndpointOptions{
				"default": {Endpoints: eps},
			},
			Default:  "default",
			DialFunc: dial,
		}
	}
	gme, err := NewGCPMultiEndpoint(opts("127.0.0.1:1"))
	if err != nil {
		t.Fatal(err)
	}
	if err := gme.Close(); err != nil {
		t.Fatal(err)
	}
	err = gme.UpdateMultiEndpoints(opts("127.0.0.1:1", "127.0.0.1:2"))
	if err != nil {
		return // rejected: fine
	}
	time.Sleep(200 * time.Millisecond)
	buf := make([]byte, 1<<22)
	dump := string(buf[:runtime.Stack(buf, true)])
	if c := gme.pickConn(context.Background()); c.GetState() == connectivity.Shutdown {
		t.Errorf("update accepted after Close, and the default MultiEndpoint routes to a closed pool (%s)", c.Target())
	}
	for _, c := range dialled {
		if c.GetState() != connectivity.Shutdown {
			t.Errorf("update accepted after Close dialled %s, which is open and owned by a closed object", c.Target())
		}
	}
	if n := strings.Count(dump, "(*monitoredConn).monitor"); n > 0 {
		t.Errorf("%d monitor goroutine(s) running for a closed GCPMultiEndpoint", n)
	}
	gme.Close()
}
