package grpcgcp

import (
	"context"
	"runtime"
	"strings"
	"sync"
	"testing"
	"time"

	"github.com/GoogleCloudPlatform/grpc-gcp-go/grpcgcp/multiendpoint"
	"google.golang.org/grpc"
	"google.golang.org/grpc/credentials/insecure"

	pb "github.com/GoogleCloudPlatform/grpc-gcp-go/grpcgcp/grpc_gcp"
)

func defectDemoGoroutines() string {
	buf := make([]byte, 1<<22)
	return string(buf[:runtime.Stack(buf, true)])
}

// Close() must leave nothing of the object running. The recovery timers armed by the
// MultiEndpoints of a GCPMultiEndpoint (multiendpoint.scheduleUnavailable, one per
// endpoint) are never stopped by Close(): they fire RecoveryTimeout later and each starts
// a goroutine that works on the closed object.
//
// The test holds the (exported, embedded) lock of the MultiEndpoint only in order to keep
// the goroutines that the closed object starts visible in the goroutine dump; whether they
// are started does not depend on it.
func TestDefectDemo(t *testing.T) {
	const recovery = 300 * time.Millisecond

	dial := func(ctx context.Context, target string, dopts ...grpc.DialOption) (*grpc.ClientConn, error) {
		dopts = append(dopts, grpc.WithTransportCredentials(insecure.NewCredentials()))
		return grpc.Dial(target, dopts...) // non-blocking, nothing listens there
	}
	gme, err := NewGCPMultiEndpoint(&GCPMultiEndpointOptions{
		GRPCgcpConfig: &pb.ApiConfig{},
		MultiEndpoints: map[string]*multiendpoint.MultiEndpointOptions{
			"default": {
				Endpoints:       []string{"127.0.0.1:1", "127.0.0.1:2"},
				RecoveryTimeout: recovery,
			},
		},
		Default:  "default",
		DialFunc: dial,
	})
	if err != nil {
		t.Fatalf("NewGCPMultiEndpoint: %v", err)
	}
	me := gme.mes["default"]

	if err := gme.Close(); err != nil {
		t.Fatalf("Close: %v", err)
	}
	// The monitors do stop (that part of Close is sound).
	deadline := time.Now().Add(5 * time.Second)
	for strings.Contains(defectDemoGoroutines(), "(*monitoredConn).monitor") {
		if time.Now().After(deadline) {
			t.Fatalf("monitor goroutine still running 5s after Close")
		}
		time.Sleep(10 * time.Millisecond)
	}
	if d := defectDemoGoroutines(); strings.Contains(d, "multiendpoint.") {
		t.Fatalf("unexpected multiendpoint goroutine right after Close:\n%s", d)
	}

	// The object is closed. Keep anything it still starts from finishing.
	l := me.(sync.Locker)
	l.Lock()
	time.Sleep(recovery + 500*time.Millisecond)
	dump := defectDemoGoroutines()
	l.Unlock()

	if n := strings.Count(dump, "multiendpoint.(*multiEndpoint).scheduleUnavailable"); n > 0 {
		t.Fatalf("expected: after Close() no goroutine started by the GCPMultiEndpoint is running and no "+
			"timer of it is pending; got: %d goroutine(s) started by its recovery timers %v after Close() returned "+
			"(Close does not stop the timers of its MultiEndpoints)", n, recovery)
	}
}
