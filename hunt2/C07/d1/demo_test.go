package grpcgcp

// Demo for C07: the per-channel counter of deadline exceeded calls (subConnRef.deCalls) is a
// uint32 that is incremented without saturation. After 2^32 counted calls it wraps to 0 and the
// detector "forgets" that at least unresponsive_calls such calls have ended since the last
// response: the next client-side deadline exceeded call, which fulfils all four conditions of
// the rule, does not refresh the channel.
//
// By default the first 2^32-2 counted calls are replaced by writing the value they produce into
// the counter (white-box shortcut, the test then takes 0.4s). Run with DEMO_FULL=1 to really make
// them, without touching any state: they go through subConnRef.deCallEnded, which is all that the
// completion of a counted deadline exceeded call does while the detection window has not passed.
// In that mode unresponsive_detection_ms is 400s so that the window outlasts the loop, and the
// test takes about 7 minutes.

import (
	"context"
	"math"
	"os"
	"sync"
	"testing"
	"time"

	"google.golang.org/grpc/balancer"
	"google.golang.org/grpc/connectivity"
	"google.golang.org/grpc/resolver"

	pb "github.com/GoogleCloudPlatform/grpc-gcp-go/grpcgcp/grpc_gcp"
)

type demoSC struct {
	balancer.SubConn
	id int
}

func (*demoSC) UpdateAddresses([]resolver.Address) {}
func (*demoSC) Connect()                           {}

type demoCC struct {
	balancer.ClientConn
	mu      sync.Mutex
	created []*demoSC
	removed []balancer.SubConn
	picker  balancer.Picker
}

func (c *demoCC) NewSubConn([]resolver.Address, balancer.NewSubConnOptions) (balancer.SubConn, error) {
	c.mu.Lock()
	defer c.mu.Unlock()
	sc := &demoSC{id: len(c.created)}
	c.created = append(c.created, sc)
	return sc, nil
}

func (c *demoCC) RemoveSubConn(sc balancer.SubConn) {
	c.mu.Lock()
	defer c.mu.Unlock()
	c.removed = append(c.removed, sc)
}

func (c *demoCC) UpdateState(s balancer.State) {
	c.mu.Lock()
	defer c.mu.Unlock()
	c.picker = s.Picker
}

func (c *demoCC) numCreated() int {
	c.mu.Lock()
	defer c.mu.Unlock()
	return len(c.created)
}

func TestDefectDemo(t *testing.T) {
	const unresponsiveCalls = 3
	detectionMs := time.Duration(300)
	full := os.Getenv("DEMO_FULL") != ""
	if full {
		detectionMs = 400000
	}
	cc := &demoCC{}
	b := newBuilder().Build(cc, balancer.BuildOptions{}).(*gcpBalancer)
	b.UpdateClientConnState(balancer.ClientConnState{
		BalancerConfig: &GCPBalancerConfig{ApiConfig: &pb.ApiConfig{ChannelPool: &pb.ChannelPoolConfig{
			MinSize:                          1,
			MaxSize:                          1,
			MaxConcurrentStreamsLowWatermark: 100,
			UnresponsiveDetectionMs:          uint32(detectionMs),
			UnresponsiveCalls:                unresponsiveCalls,
		}}},
	})
	if cc.numCreated() != 1 {
		t.Fatalf("setup: want 1 SubConn, got %d", cc.numCreated())
	}
	b.UpdateSubConnState(cc.created[0], balancer.SubConnState{ConnectivityState: connectivity.Ready})
	ref := b.scRefs[cc.created[0]]

	// One call on the only channel that ends with a client-side deadline exceeded error.
	deCall := func() {
		ctx, cancel := context.WithTimeout(context.Background(), 0)
		defer cancel()
		pr, err := cc.picker.Pick(balancer.PickInfo{FullMethodName: "/svc/m", Ctx: ctx})
		if err != nil {
			t.Fatalf("Pick: %v", err)
		}
		pr.Done(balancer.DoneInfo{Err: deErr})
	}

	// A response: the detector's state is reset, the detection window starts now.
	{
		pr, err := cc.picker.Pick(balancer.PickInfo{FullMethodName: "/svc/m", Ctx: context.Background()})
		if err != nil {
			t.Fatalf("Pick: %v", err)
		}
		pr.Done(balancer.DoneInfo{})
	}
	windowStart := ref.getLastResp()

	// 2^32 calls that started after that response end with a client-side deadline exceeded
	// error while the detection window has not passed yet (so none of them may refresh).
	if full {
		started := time.Now()
		for i := uint64(0); i < math.MaxUint32-1; i++ {
			ref.deCallEnded(started)
		}
	} else {
		ref.mu.Lock()
		ref.deCalls = math.MaxUint32 - 1 // value after 2^32-2 counted calls
		ref.mu.Unlock()
	}
	deCall() // counted call number 2^32-1
	deCall() // counted call number 2^32
	if time.Since(windowStart) >= detectionMs*time.Millisecond {
		t.Skip("machine too slow: the detection window passed during the setup")
	}
	if got := cc.numCreated(); got != 1 {
		t.Fatalf("setup: a refresh happened inside the detection window (%d SubConns)", got)
	}

	// Let the detection window pass: more than unresponsive_detection_ms * 2^0 since the last response.
	time.Sleep(time.Until(windowStart.Add((detectionMs + 100) * time.Millisecond)))

	// One more call, started after the last response, ends with a client-side deadline exceeded
	// error. 2^32+1 >= 3 such calls have ended since the last response, the window has passed, no
	// refresh is in progress: the channel must be refreshed now.
	deCall()
	if got := cc.numCreated(); got != 2 {
		ref.mu.RLock()
		deCalls := ref.deCalls
		ref.mu.RUnlock()
		t.Fatalf("property C07 violated: a client-side deadline exceeded call ended on the channel, it started after "+
			"the last response, 2^32+1 (>= unresponsive_calls = %d) such calls have ended since the last response, more "+
			"than unresponsive_detection_ms has passed since the last response and no refresh is in progress, so the "+
			"channel must be refreshed (want 2 SubConns created), but no replacement was created (got %d): the uint32 "+
			"counter of deadline exceeded calls wrapped around and now reads %d",
			unresponsiveCalls, got, deCalls)
	}
}
