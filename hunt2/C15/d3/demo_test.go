package grpcgcp

import (
	"context"
	"net"
	"testing"
	"time"

	"github.com/GoogleCloudPlatform/grpc-gcp-go/grpcgcp/multiendpoint"
	"google.golang.org/grpc"
	"google.golang.org/grpc/connectivity"
	"google.golang.org/grpc/credentials/insecure"

	pb "github.com/GoogleCloudPlatform/grpc-gcp-go/grpcgcp/grpc_gcp"
)

// TestDefectDemo: the channel idle timeout (grpc.WithIdleTimeout, passed through to every
// pool like any other dial option) puts a pool that had no RPCs for a while into IDLE.
// The monitor reports IDLE as "not available", the MultiEndpoint moves to its fallback,
// and from then on no RPC reaches the idle pool, and nothing else ever asks it to
// connect: the healthy top-priority endpoint is never used again.
func TestDefectDemo(t *testing.T) {
	const idle = 300 * time.Millisecond

	var eps []string
	for i := 0; i < 2; i++ {
		lis, err := net.Listen("tcp", "127.0.0.1:0")
		if err != nil {
			t.Fatalf("listen: %v", err)
		}
		srv := grpc.NewServer()
		go srv.Serve(lis)
		defer srv.Stop()
		eps = append(eps, lis.Addr().String())
	}
	ro, main := eps[0], eps[1]

	gme, err := NewGCPMultiEndpoint(&GCPMultiEndpointOptions{
		GRPCgcpConfig: &pb.ApiConfig{ChannelPool: &pb.ChannelPoolConfig{MinSize: 1, MaxSize: 1}},
		MultiEndpoints: map[string]*multiendpoint.MultiEndpointOptions{
			"default": {Endpoints: []string{main}},
			"read":    {Endpoints: []string{ro, main}},
		},
		Default: "default",
	}, grpc.WithTransportCredentials(insecure.NewCredentials()), grpc.WithIdleTimeout(idle))
	if err != nil {
		t.Fatalf("NewGCPMultiEndpoint: %v", err)
	}
	defer gme.Close()

	gme.mu.RLock()
	roConn, mainConn := gme.pools[ro].conn, gme.pools[main].conn
	gme.mu.RUnlock()

	// One RPC through a MultiEndpoint (the servers implement nothing: the RPC reaches the
	// server and is answered Unimplemented, which is all the traffic we need).
	call := func(ctx context.Context) {
		cctx, cancel := context.WithTimeout(ctx, 2*time.Second)
		defer cancel()
		gme.Invoke(cctx, "/demo.Service/Method", &pb.ApiConfig{}, &pb.ApiConfig{})
	}
	readCtx := NewMEContext(context.Background(), "read")

	waitReady := func(c *grpc.ClientConn, what string) {
		deadline := time.Now().Add(10 * time.Second)
		for c.GetState() != connectivity.Ready {
			if time.Now().After(deadline) {
				t.Fatalf("%s did not become READY (is %v)", what, c.GetState())
			}
			time.Sleep(5 * time.Millisecond)
		}
	}
	call(context.Background())
	call(readCtx)
	waitReady(roConn, "pool ro")
	waitReady(mainConn, "pool main")
	time.Sleep(50 * time.Millisecond)
	if got := gme.pickConn(readCtx).Target(); got != ro {
		t.Fatalf("setup: read routes to %q, want ro %q", got, ro)
	}

	// For a while only the default MultiEndpoint has traffic.
	for end := time.Now().Add(4 * idle); time.Now().Before(end); {
		call(context.Background())
		time.Sleep(20 * time.Millisecond)
	}

	// Read traffic comes back; the ro server was up all the time. Give it two seconds of
	// steady read traffic to get back to ro.
	var got string
	for end := time.Now().Add(2 * time.Second); time.Now().Before(end); {
		call(readCtx)
		call(context.Background())
		got = gme.pickConn(readCtx).Target()
		if got == ro {
			break
		}
		time.Sleep(20 * time.Millisecond)
	}
	if got != ro {
		t.Fatalf("MultiEndpoint \"read\" = [ro, main]: the ro endpoint is healthy (its server never went away), so read RPCs must "+
			"go through ro's pool, at the latest a bounded time after read traffic resumes. Got: after %v without read RPCs the ro pool "+
			"went %v (channel idle timeout), read moved to %q and 2s of steady read traffic later it is still there; "+
			"no RPC and no Connect() will ever reach the ro pool again, so this is permanent",
			4*idle, roConn.GetState(), got)
	}
}
