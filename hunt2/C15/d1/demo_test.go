package grpcgcp

import (
	"context"
	"fmt"
	"net"
	"testing"
	"time"

	"github.com/GoogleCloudPlatform/grpc-gcp-go/grpcgcp/multiendpoint"
	"google.golang.org/grpc"
	"google.golang.org/grpc/connectivity"
	"google.golang.org/grpc/credentials/insecure"

	pb "github.com/GoogleCloudPlatform/grpc-gcp-go/grpcgcp/grpc_gcp"
)

// TestDefectDemo: a MultiEndpoint created by UpdateMultiEndpoints over pools that are
// all kept and all READY must route to its top-priority endpoint as soon as the call
// returns. The final "status sync" of UpdateMultiEndpoints walks gme.pools in map order,
// so with RecoveryTimeout == 0 and SwitchingDelay > 0 the new MultiEndpoint ends up on
// whichever READY endpoint the map iteration happened to visit first, and stays there
// for the whole switching delay.
func TestDefectDemo(t *testing.T) {
	const nEndpoints = 6
	const attempts = 40

	// In-process servers: one per endpoint. No service is needed, only connectivity.
	var endpoints []string
	for i := 0; i < nEndpoints; i++ {
		lis, err := net.Listen("tcp", "127.0.0.1:0")
		if err != nil {
			t.Fatalf("listen: %v", err)
		}
		srv := grpc.NewServer()
		go srv.Serve(lis)
		defer srv.Stop()
		endpoints = append(endpoints, lis.Addr().String())
	}

	dials := map[string]int{}
	apiCfg := &pb.ApiConfig{ChannelPool: &pb.ChannelPoolConfig{MinSize: 1, MaxSize: 1}}
	mkOpts := func(extra string) *GCPMultiEndpointOptions {
		o := &GCPMultiEndpointOptions{
			GRPCgcpConfig: apiCfg,
			MultiEndpoints: map[string]*multiendpoint.MultiEndpointOptions{
				"default": {Endpoints: append([]string{}, endpoints...)},
			},
			Default: "default",
			DialFunc: func(ctx context.Context, target string, dopts ...grpc.DialOption) (*grpc.ClientConn, error) {
				dials[target]++
				return grpc.DialContext(ctx, target, dopts...)
			},
		}
		if extra != "" {
			o.MultiEndpoints[extra] = &multiendpoint.MultiEndpointOptions{
				Endpoints: append([]string{}, endpoints...),
				// No recovery timeout; the switching delay is what makes the wrong
				// choice last (an hour here, so that it cannot expire during the test).
				SwitchingDelay: time.Hour,
			}
		}
		return o
	}

	gme, err := NewGCPMultiEndpoint(mkOpts(""), grpc.WithTransportCredentials(insecure.NewCredentials()))
	if err != nil {
		t.Fatalf("NewGCPMultiEndpoint: %v", err)
	}
	defer gme.Close()

	allReady := func() bool {
		gme.mu.RLock()
		defer gme.mu.RUnlock()
		if len(gme.pools) != nEndpoints {
			t.Fatalf("have %d pools, want %d", len(gme.pools), nEndpoints)
		}
		for _, mc := range gme.pools {
			if mc.conn.GetState() != connectivity.Ready {
				return false
			}
		}
		return true
	}

	// Wait until every pool is connected.
	deadline := time.Now().Add(10 * time.Second)
	for !allReady() {
		if time.Now().After(deadline) {
			t.Fatalf("pools did not become READY")
		}
		time.Sleep(10 * time.Millisecond)
	}

	for i := 0; i < attempts; i++ {
		name := fmt.Sprintf("new-%d", i)
		if !allReady() {
			t.Fatalf("precondition lost: a pool left READY")
		}
		if err := gme.UpdateMultiEndpoints(mkOpts(name)); err != nil {
			t.Fatalf("UpdateMultiEndpoints: %v", err)
		}
		// This is the routing decision every Invoke/NewStream makes.
		got := gme.pickConn(NewMEContext(context.Background(), name)).Target()
		if !allReady() {
			t.Fatalf("precondition lost: a pool left READY")
		}
		for e, n := range dials {
			if n != 1 {
				t.Fatalf("endpoint %q dialled %d times", e, n)
			}
		}
		if got != endpoints[0] {
			prio := -1
			for p, e := range endpoints {
				if e == got {
					prio = p
				}
			}
			t.Fatalf("attempt %d: UpdateMultiEndpoints returned while all %d kept pools were READY (before and after the call), "+
				"so the new MultiEndpoint %q must reflect that and route to its top-priority endpoint %q; "+
				"instead its RPCs go to %q (priority index %d) and will keep going there for the whole switching delay",
				i, nEndpoints, name, endpoints[0], got, prio)
		}
	}
}
