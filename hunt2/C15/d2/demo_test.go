package grpcgcp

import (
	"context"
	"errors"
	"fmt"
	"net"
	"sync"
	"testing"
	"time"

	"github.com/GoogleCloudPlatform/grpc-gcp-go/grpcgcp/multiendpoint"
	"google.golang.org/grpc"
	"google.golang.org/grpc/backoff"
	"google.golang.org/grpc/connectivity"
	"google.golang.org/grpc/credentials/insecure"

	pb "github.com/GoogleCloudPlatform/grpc-gcp-go/grpcgcp/grpc_gcp"
)

// demoGate controls the transport dialer of every pool, per address:
// "down" fails at once, "hold" blocks the connection attempt (the pool stays CONNECTING),
// "up" connects.
type demoGate struct {
	mu      sync.Mutex
	mode    map[string]string
	changed map[string]chan struct{} // closed and replaced when the mode of the address changes
	arrived map[string]chan struct{} // receives one token when an attempt starts waiting in "hold"
}

func newDemoGate() *demoGate {
	return &demoGate{mode: map[string]string{}, changed: map[string]chan struct{}{}, arrived: map[string]chan struct{}{}}
}

func (g *demoGate) set(addr, mode string) {
	g.mu.Lock()
	defer g.mu.Unlock()
	g.mode[addr] = mode
	if c, ok := g.changed[addr]; ok {
		close(c)
	}
	g.changed[addr] = make(chan struct{})
	if _, ok := g.arrived[addr]; !ok {
		g.arrived[addr] = make(chan struct{}, 1000)
	}
}

func (g *demoGate) dial(ctx context.Context, addr string) (net.Conn, error) {
	for {
		g.mu.Lock()
		mode, changed, arrived := g.mode[addr], g.changed[addr], g.arrived[addr]
		g.mu.Unlock()
		switch mode {
		case "up":
			return (&net.Dialer{}).DialContext(ctx, "tcp", addr)
		case "hold":
			arrived <- struct{}{}
			select {
			case <-changed:
			case <-ctx.Done():
				return nil, ctx.Err()
			}
		default:
			return nil, errors.New("demo: endpoint is down")
		}
	}
}

type demoReport struct {
	endpoint     string
	avail        bool
	underUpdate  bool   // the call came from UpdateMultiEndpoints (gme.mu write-locked)
	poolState    string // state of the endpoint's pool at the moment of the report
	currentAfter string
}

// demoRecorder wraps the real MultiEndpoint and records what it is told.
type demoRecorder struct {
	multiendpoint.MultiEndpoint
	gme *GCPMultiEndpoint
	mu  sync.Mutex
	log []demoReport
}

func (r *demoRecorder) SetEndpointAvailability(e string, avail bool) {
	// UpdateMultiEndpoints calls with gme.mu write-locked, a monitor with gme.mu read-locked.
	underUpdate := true
	if r.gme.mu.TryRLock() {
		underUpdate = false
		r.gme.mu.RUnlock()
	}
	st := r.gme.pools[e].conn.GetState().String() // gme.mu is held (R or W) by our caller
	r.MultiEndpoint.SetEndpointAvailability(e, avail)
	r.mu.Lock()
	r.log = append(r.log, demoReport{e, avail, underUpdate, st, r.MultiEndpoint.Current()})
	r.mu.Unlock()
}

func (r *demoRecorder) reset() {
	r.mu.Lock()
	r.log = nil
	r.mu.Unlock()
}

func (r *demoRecorder) snapshot() []demoReport {
	r.mu.Lock()
	defer r.mu.Unlock()
	return append([]demoReport{}, r.log...)
}

// TestDefectDemo: a monitor goroutine samples its pool's state BEFORE it takes gme.mu in
// notify. If UpdateMultiEndpoints holds the lock meanwhile and the (kept) pool becomes
// READY before the final status sync, the sync correctly tells every MultiEndpoint that
// the endpoint is available -- and right after the call returns the monitor delivers its
// older sample ("not READY") on top of it. The pool never lost connectivity, but the
// MultiEndpoint is told it did, leaves its top-priority endpoint, and with a switching
// delay configured it stays on the fallback for the whole delay.
func TestDefectDemo(t *testing.T) {
	const maxRounds = 24
	for round := 0; round < maxRounds; round++ {
		if demoRound(t, round) {
			return // conclusive (the round either failed the test or proved soundness)
		}
	}
	t.Skipf("could not get a round in which the status sync visited e1 before e2 (map order) in %d rounds", maxRounds)
}

// demoRound returns false when the round is inconclusive because the map-ordered status
// sync of UpdateMultiEndpoints itself already put the MultiEndpoint on e2 (a different
// problem), true otherwise.
func demoRound(t *testing.T, round int) bool {
	var eps []string
	for i := 0; i < 3; i++ {
		lis, err := net.Listen("tcp", "127.0.0.1:0")
		if err != nil {
			t.Fatalf("listen: %v", err)
		}
		srv := grpc.NewServer()
		go srv.Serve(lis)
		defer srv.Stop()
		eps = append(eps, lis.Addr().String())
	}
	e1, e2, e3 := eps[0], eps[1], eps[2]

	gate := newDemoGate()
	gate.set(e1, "down")
	gate.set(e2, "up")
	gate.set(e3, "up")

	var gme *GCPMultiEndpoint
	var insideDial func() // runs inside UpdateMultiEndpoints, i.e. with gme.mu write-locked
	dialCount := map[string]int{}
	apiCfg := &pb.ApiConfig{ChannelPool: &pb.ChannelPoolConfig{MinSize: 1, MaxSize: 1}}
	mkOpts := func(def, other []string) *GCPMultiEndpointOptions {
		return &GCPMultiEndpointOptions{
			GRPCgcpConfig: apiCfg,
			MultiEndpoints: map[string]*multiendpoint.MultiEndpointOptions{
				// No recovery timeout, one hour of switching delay.
				"default": {Endpoints: def, SwitchingDelay: time.Hour},
				"other":   {Endpoints: other},
			},
			Default: "default",
			DialFunc: func(ctx context.Context, target string, dopts ...grpc.DialOption) (*grpc.ClientConn, error) {
				dialCount[target]++
				if target == e3 && insideDial != nil {
					insideDial()
				}
				return grpc.DialContext(ctx, target, dopts...)
			},
		}
	}

	var err error
	gme, err = NewGCPMultiEndpoint(mkOpts([]string{e1}, []string{e2}),
		grpc.WithTransportCredentials(insecure.NewCredentials()),
		grpc.WithContextDialer(gate.dial),
		grpc.WithConnectParams(grpc.ConnectParams{
			Backoff:           backoff.Config{BaseDelay: 20 * time.Millisecond, Multiplier: 1, MaxDelay: 20 * time.Millisecond},
			MinConnectTimeout: 20 * time.Second,
		}),
	)
	if err != nil {
		t.Fatalf("NewGCPMultiEndpoint: %v", err)
	}
	defer gme.Close()

	gme.mu.Lock()
	conn1, conn2 := gme.pools[e1].conn, gme.pools[e2].conn
	rec := &demoRecorder{MultiEndpoint: gme.mes["default"], gme: gme}
	gme.mes["default"] = rec
	gme.mu.Unlock()

	waitState := func(c *grpc.ClientConn, want connectivity.State, what string) {
		deadline := time.Now().Add(10 * time.Second)
		for c.GetState() != want {
			if time.Now().After(deadline) {
				t.Fatalf("%s did not become %v (is %v)", what, want, c.GetState())
			}
			time.Sleep(2 * time.Millisecond)
		}
	}
	// e2 is up, e1 is down (its pool keeps failing to connect).
	waitState(conn2, connectivity.Ready, "pool e2")
	time.Sleep(100 * time.Millisecond)
	if s := conn1.GetState(); s == connectivity.Ready {
		t.Fatalf("pool e1 is READY although its endpoint is down")
	}
	if got := gme.pickConn(context.Background()).Target(); got != e1 {
		t.Fatalf("setup: default routes to %q, want e1 %q (its only endpoint)", got, e1)
	}
	rec.reset()

	// The reconfiguration: default gets e2 as a fallback, "other" gets the new endpoint e3
	// (so that a dial happens). While UpdateMultiEndpoints holds gme.mu, e1 comes up.
	insideDial = func() {
		insideDial = nil
		// e1's next connection attempt blocks in the dialer: the pool sits in CONNECTING.
		gate.set(e1, "hold")
		select {
		case <-gate.arrived[e1]:
		case <-time.After(10 * time.Second):
			t.Errorf("no connection attempt for e1")
			return
		}
		// Ample time for e1's monitor to sample a not-READY state and block in notify on gme.mu.
		time.Sleep(150 * time.Millisecond)
		// e1 comes up, for good.
		gate.set(e1, "up")
		waitState(conn1, connectivity.Ready, "pool e1")
		time.Sleep(50 * time.Millisecond)
	}
	if err := gme.UpdateMultiEndpoints(mkOpts([]string{e1, e2}, []string{e2, e3})); err != nil {
		t.Fatalf("UpdateMultiEndpoints: %v", err)
	}

	// Let the monitors say everything they have to say.
	time.Sleep(300 * time.Millisecond)
	if conn1.GetState() != connectivity.Ready || conn2.GetState() != connectivity.Ready {
		t.Fatalf("precondition lost: e1 is %v, e2 is %v", conn1.GetState(), conn2.GetState())
	}
	if dialCount[e1] != 1 || dialCount[e2] != 1 || dialCount[e3] != 1 {
		t.Fatalf("unexpected dials: %v", dialCount)
	}

	log := rec.snapshot()
	desc := ""
	currentAtReturn := ""
	syncSaidE1Available := false
	var stale *demoReport
	for i, r := range log {
		who := "monitor"
		if r.underUpdate {
			who = "UpdateMultiEndpoints"
			currentAtReturn = r.currentAfter
			if r.endpoint == e1 && r.avail {
				syncSaidE1Available = true
			}
		} else if stale == nil && syncSaidE1Available && r.endpoint == e1 && !r.avail {
			stale = &log[i]
		}
		desc += fmt.Sprintf("\n    %-20s SetEndpointAvailability(%s, %v)  pool state then: %s  -> Current()=%s",
			who, demoName(eps, r.endpoint), r.avail, r.poolState, demoName(eps, r.currentAfter))
	}
	if !syncSaidE1Available {
		t.Fatalf("scenario did not build: the status sync did not report e1 available; reports:%s", desc)
	}
	if currentAtReturn != e1 {
		// The map-ordered sync visited e2 before e1 and moved the MultiEndpoint to e2 by itself.
		t.Logf("round %d inconclusive (sync order put default on %s already)", round, demoName(eps, currentAtReturn))
		return false
	}

	got := gme.pickConn(context.Background()).Target()
	if stale != nil || got != e1 {
		staleDesc := "none recorded"
		if stale != nil {
			staleDesc = fmt.Sprintf("SetEndpointAvailability(e1, false) from the monitor while pool e1 was %s", stale.poolState)
		}
		t.Fatalf("pool e1 became READY while UpdateMultiEndpoints was running and has been READY ever since; the status sync told "+
			"MultiEndpoint \"default\" [e1, e2] so, and when the call returned default routed to e1. "+
			"Expected: default keeps routing to e1 (top priority, READY, no loss of connectivity since). "+
			"Got: default now routes to %s, and will for the next hour of switching delay, because after the call returned the monitor "+
			"of the kept pool e1 delivered a sample it had taken before the sync (stale report: %s).\n  reports received by default:%s",
			demoName(eps, got), staleDesc, desc)
	}
	return true
}

func demoName(eps []string, e string) string {
	for i, x := range eps {
		if x == e {
			return fmt.Sprintf("e%d", i+1)
		}
	}
	return e
}
