package grpcgcp

// Evidence for out/suspicions.md (C02). NOT a deterministic demo: these are stress tests that
// expose two scheduling-dependent violations of "placed on a channel whose number of active
// streams is minimal". Copy into wt/grpcgcp as zz_stress_evidence_test.go and run
//   go test -count=1 -v -run 'TestStress' .
// Each test runs for STRESS_SECONDS (default 30) seconds.

import (
	"context"
	"fmt"
	"os"
	"strconv"
	"sync"
	"sync/atomic"
	"testing"
	"time"

	"google.golang.org/grpc/balancer"
	"google.golang.org/grpc/connectivity"
	"google.golang.org/grpc/resolver"

	pb "github.com/GoogleCloudPlatform/grpc-gcp-go/grpcgcp/grpc_gcp"
)

func stressDuration() time.Duration {
	if n, err := strconv.Atoi(os.Getenv("STRESS_SECONDS")); err == nil && n > 0 {
		return time.Duration(n) * time.Second
	}
	return 30 * time.Second
}

type fSC struct {
	id int
}

func (s *fSC) UpdateAddresses([]resolver.Address) {}
func (s *fSC) Connect()                           {}
func (s *fSC) GetOrBuildProducer(balancer.ProducerBuilder) (balancer.Producer, func()) {
	return nil, nil
}
func (s *fSC) String() string { return fmt.Sprintf("sc%d", s.id) }

type fCC struct {
	scs     []*fSC
	pickers []balancer.Picker
	removed map[balancer.SubConn]bool
}

func (c *fCC) NewSubConn([]resolver.Address, balancer.NewSubConnOptions) (balancer.SubConn, error) {
	s := &fSC{id: len(c.scs)}
	c.scs = append(c.scs, s)
	return s, nil
}
func (c *fCC) RemoveSubConn(sc balancer.SubConn)                    { c.removed[sc] = true }
func (c *fCC) UpdateAddresses(balancer.SubConn, []resolver.Address) {}
func (c *fCC) UpdateState(s balancer.State)                         { c.pickers = append(c.pickers, s.Picker) }
func (c *fCC) ResolveNow(resolver.ResolveNowOptions)                {}
func (c *fCC) Target() string                                       { return "" }

// Round-robin variant. Pool of three READY channels A, B, C (picker order A, B, C).
// A holds 1 long-lived stream, C holds 4. One goroutine issues round-robin BIND calls: those
// that land on A or C complete at once, those that land on B are kept open until B has 6,
// then all are completed (B oscillates 0 -> 6 -> 0). A never exceeds 1+1+1 = 3 (base, one
// transient BIND, the unkeyed call under test), C is never below 4: A < C at every instant,
// so an unkeyed call must never land on C.
func TestStressRRvsLeastBusy(t *testing.T) {
	cc := &fCC{removed: map[balancer.SubConn]bool{}}
	b := newBuilder().Build(cc, balancer.BuildOptions{}).(*gcpBalancer)
	cfg := &GCPBalancerConfig{ApiConfig: &pb.ApiConfig{
		ChannelPool: &pb.ChannelPoolConfig{
			MinSize: 3, MaxSize: 3, MaxConcurrentStreamsLowWatermark: 1000,
			BindPickStrategy: pb.ChannelPoolConfig_ROUND_ROBIN,
		},
		Method: []*pb.MethodConfig{
			{Name: []string{"bind"}, Affinity: &pb.AffinityConfig{Command: pb.AffinityConfig_BIND, AffinityKey: "key"}},
		},
	}}
	b.UpdateClientConnState(balancer.ClientConnState{BalancerConfig: cfg})
	for _, sc := range cc.scs {
		b.UpdateSubConnState(sc, balancer.SubConnState{ConnectivityState: connectivity.Ready})
	}
	refA, refB, refC := b.scRefList[0], b.scRefList[1], b.scRefList[2]
	// picker with a fixed order A, B, C
	p := newGCPPicker([]*subConnRef{refA, refB, refC}, b).(*gcpPicker)
	atomic.StoreInt32(&refA.streamsCnt, 1)
	atomic.StoreInt32(&refC.streamsCnt, 4)

	stop := make(chan struct{})
	var wg sync.WaitGroup
	wg.Add(1)
	go func() {
		defer wg.Done()
		var held []func(balancer.DoneInfo)
		for {
			select {
			case <-stop:
				for _, d := range held {
					d(balancer.DoneInfo{Err: context.Canceled})
				}
				return
			default:
			}
			pr, err := p.Pick(balancer.PickInfo{FullMethodName: "bind", Ctx: context.Background()})
			if err != nil {
				panic(err)
			}
			if pr.SubConn != refB.subConn {
				pr.Done(balancer.DoneInfo{Err: context.Canceled})
				continue
			}
			held = append(held, pr.Done)
			if len(held) == 6 {
				for _, d := range held {
					d(balancer.DoneInfo{Err: context.Canceled})
				}
				held = held[:0]
			}
		}
	}()
	deadline := time.Now().Add(stressDuration())
	n := 0
	bad := 0
	for time.Now().Before(deadline) {
		pr, err := p.Pick(balancer.PickInfo{FullMethodName: "", Ctx: context.Background()})
		if err != nil {
			t.Fatal(err)
		}
		n++
		if pr.SubConn == refC.subConn {
			bad++
		}
		pr.Done(balancer.DoneInfo{})
	}
	close(stop)
	wg.Wait()
	t.Logf("picks=%d landed on C=%d", n, bad)
	if bad > 0 {
		t.Fatalf("unkeyed call placed on C (>=4 streams) although A had <=3 at every instant")
	}
}

// Decrement-only variant: A oscillates 3 -> 0 -> 3, B oscillates 5 -> 2 -> 5, A always drops first
// and rises last, so A < B at every instant. An unkeyed pick must never land on B.
func TestStressDoneVsLeastBusy(t *testing.T) {
	cc := &fCC{removed: map[balancer.SubConn]bool{}}
	b := newBuilder().Build(cc, balancer.BuildOptions{}).(*gcpBalancer)
	cfg := &GCPBalancerConfig{ApiConfig: &pb.ApiConfig{
		ChannelPool: &pb.ChannelPoolConfig{MinSize: 2, MaxSize: 2, MaxConcurrentStreamsLowWatermark: 1000},
		Method: []*pb.MethodConfig{
			{Name: []string{"bound"}, Affinity: &pb.AffinityConfig{Command: pb.AffinityConfig_BOUND, AffinityKey: "key"}},
		},
	}}
	b.UpdateClientConnState(balancer.ClientConnState{BalancerConfig: cfg})
	for _, sc := range cc.scs {
		b.UpdateSubConnState(sc, balancer.SubConnState{ConnectivityState: connectivity.Ready})
	}
	refA, refB := b.scRefList[0], b.scRefList[1]
	p := newGCPPicker([]*subConnRef{refA, refB}, b).(*gcpPicker)
	b.bindSubConn("kA", refA.subConn)
	b.bindSubConn("kB", refB.subConn)
	start := func(key string) func(balancer.DoneInfo) {
		ctx := context.WithValue(context.Background(), gcpKey, &gcpContext{reqMsg: &testMsg{Key: key}})
		pr, err := p.Pick(balancer.PickInfo{FullMethodName: "bound", Ctx: ctx})
		if err != nil {
			panic(err)
		}
		return pr.Done
	}
	var da, db []func(balancer.DoneInfo)
	for i := 0; i < 5; i++ {
		db = append(db, start("kB"))
	}
	for i := 0; i < 3; i++ {
		da = append(da, start("kA"))
	}
	stop := make(chan struct{})
	fin := make(chan struct{})
	go func() {
		defer close(fin)
		for {
			select {
			case <-stop:
				return
			default:
			}
			for _, d := range da {
				d(balancer.DoneInfo{})
			}
			for _, d := range db[:3] {
				d(balancer.DoneInfo{})
			}
			for i := 0; i < 3; i++ {
				db[i] = start("kB")
			}
			for i := 0; i < 3; i++ {
				da[i] = start("kA")
			}
		}
	}()
	deadline := time.Now().Add(stressDuration())
	n, bad := 0, 0
	for time.Now().Before(deadline) {
		pr, err := p.Pick(balancer.PickInfo{FullMethodName: "", Ctx: context.Background()})
		if err != nil {
			t.Fatal(err)
		}
		n++
		if pr.SubConn == refB.subConn {
			bad++
		}
		pr.Done(balancer.DoneInfo{})
	}
	close(stop)
	<-fin
	t.Logf("picks=%d landed on B=%d", n, bad)
	if bad > 0 {
		t.Fatalf("unkeyed call placed on B although A had fewer streams at every instant")
	}
}
