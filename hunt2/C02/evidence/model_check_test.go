package grpcgcp

import (
	"context"
	"errors"
	"fmt"
	"math/rand"
	"testing"
	"time"

	"google.golang.org/grpc/balancer"
	"google.golang.org/grpc/connectivity"
	"google.golang.org/grpc/resolver"

	pb "github.com/GoogleCloudPlatform/grpc-gcp-go/grpcgcp/grpc_gcp"
)

type fSC struct {
	id int
}

func (s *fSC) UpdateAddresses([]resolver.Address) {}
func (s *fSC) Connect()                           {}
func (s *fSC) GetOrBuildProducer(balancer.ProducerBuilder) (balancer.Producer, func()) {
	return nil, nil
}
func (s *fSC) String() string { return fmt.Sprintf("sc%d", s.id) }

type fCC struct {
	scs     []*fSC
	pickers []balancer.Picker
	removed map[balancer.SubConn]bool
}

func (c *fCC) NewSubConn([]resolver.Address, balancer.NewSubConnOptions) (balancer.SubConn, error) {
	s := &fSC{id: len(c.scs)}
	c.scs = append(c.scs, s)
	return s, nil
}
func (c *fCC) RemoveSubConn(sc balancer.SubConn) { c.removed[sc] = true }
func (c *fCC) UpdateAddresses(balancer.SubConn, []resolver.Address) {}
func (c *fCC) UpdateState(s balancer.State)                         { c.pickers = append(c.pickers, s.Picker) }
func (c *fCC) ResolveNow(resolver.ResolveNowOptions)                {}
func (c *fCC) Target() string                                       { return "" }

type inflight struct {
	ref  *subConnRef
	done func(balancer.DoneInfo)
	ctx  *gcpContext
	dl   bool
}

var nUnkeyed, nMulti, nRefreshSwap int
func runModel(t *testing.T, seed int64) {
	r := rand.New(rand.NewSource(seed))
	cc := &fCC{removed: map[balancer.SubConn]bool{}}
	b := newBuilder().Build(cc, balancer.BuildOptions{}).(*gcpBalancer)
	strategy := pb.ChannelPoolConfig_LEAST_ACTIVE_STREAMS
	if r.Intn(2) == 0 {
		strategy = pb.ChannelPoolConfig_ROUND_ROBIN
	}
	cfg := &GCPBalancerConfig{ApiConfig: &pb.ApiConfig{
		ChannelPool: &pb.ChannelPoolConfig{
			MinSize:                          uint32(1 + r.Intn(3)),
			MaxSize:                          uint32(1 + r.Intn(5)),
			MaxConcurrentStreamsLowWatermark: uint32(1 + r.Intn(4)),
			FallbackToReady:                  r.Intn(2) == 0,
			BindPickStrategy:                 strategy,
			UnresponsiveCalls:                uint32(r.Intn(3)),
			UnresponsiveDetectionMs:          uint32(r.Intn(2)),
		},
		Method: []*pb.MethodConfig{
			{Name: []string{"bind"}, Affinity: &pb.AffinityConfig{Command: pb.AffinityConfig_BIND, AffinityKey: "key"}},
			{Name: []string{"bound"}, Affinity: &pb.AffinityConfig{Command: pb.AffinityConfig_BOUND, AffinityKey: "key"}},
			{Name: []string{"unbind"}, Affinity: &pb.AffinityConfig{Command: pb.AffinityConfig_UNBIND, AffinityKey: "key"}},
		},
	}}
	b.UpdateClientConnState(balancer.ClientConnState{BalancerConfig: cfg})
	rr := strategy == pb.ChannelPoolConfig_ROUND_ROBIN

	model := map[*subConnRef]int32{}
	var calls []*inflight
	keys := []string{"k0", "k1", "k2", "k3"}
	states := []connectivity.State{connectivity.Ready, connectivity.Ready, connectivity.Connecting, connectivity.TransientFailure, connectivity.Idle}

	check := func(step int, what string) {
		b.mu.Lock()
		defer b.mu.Unlock()
		for _, ref := range b.scRefList {
			if got, want := ref.getStreamsCnt(), model[ref]; got != want {
				t.Fatalf("seed %d step %d (%s): slot %p count %d, model %d", seed, step, what, ref, got, want)
			}
		}
	}

	for step := 0; step < 400; step++ {
		switch op := r.Intn(10); {
		case op < 4: // pick
			if len(cc.pickers) == 0 {
				continue
			}
			var p balancer.Picker
			if r.Intn(3) == 0 {
				p = cc.pickers[r.Intn(len(cc.pickers))]
			} else {
				p = cc.pickers[len(cc.pickers)-1]
			}
			gp, isGcp := p.(*gcpPicker)
			method := []string{"", "bind", "bound", "unbind", "other"}[r.Intn(5)]
			key := keys[r.Intn(len(keys))]
			gctx := &gcpContext{reqMsg: &testMsg{Key: key}, replyMsg: &testMsg{Key: keys[r.Intn(len(keys))]}}
			ctx := context.Background()
			withG := r.Intn(5) != 0
			if withG {
				ctx = context.WithValue(ctx, gcpKey, gctx)
			}
			dl := r.Intn(3) == 0
			var cancel context.CancelFunc
			if dl {
				ctx, cancel = context.WithTimeout(ctx, 0)
				defer cancel()
			} else if method == "bind" && rr {
				ctx, cancel = context.WithCancel(ctx)
				cancel()
			}
			b.mu.Lock()
			_, known := b.affinityMap[key]
			b.mu.Unlock()
			before := map[*subConnRef]int32{}
			for k, v := range model {
				before[k] = v
			}
			pr, err := p.Pick(balancer.PickInfo{FullMethodName: method, Ctx: ctx})
			if err != nil {
				check(step, "failed pick "+method)
				continue
			}
			b.mu.Lock()
			ref := b.scRefs[pr.SubConn]
			b.mu.Unlock()
			if ref == nil {
				t.Fatalf("seed %d step %d: picked SubConn %v unknown to the balancer", seed, step, pr.SubConn)
			}
			model[ref]++
			calls = append(calls, &inflight{ref: ref, done: pr.Done, ctx: gctx, dl: dl})
			unkeyed := method == "" || method == "other" || (method == "bind" && !rr) ||
				((method == "bound" || method == "unbind") && (!withG || !known))
			if unkeyed { nUnkeyed++; if len(gp.scRefs) > 1 { nMulti++ }
				if !isGcp {
					t.Fatalf("placed by non-gcp picker")
				}
				in := false
				for _, x := range gp.scRefs {
					if x == ref {
						in = true
					}
					if before[x] < before[ref] {
						t.Fatalf("seed %d step %d: %s call placed on slot with %d streams, slot with %d exists", seed, step, method, before[ref], before[x])
					}
				}
				if !in {
					t.Fatalf("seed %d step %d: %s call placed on slot not in the picker's snapshot", seed, step, method)
				}
			}
			check(step, "pick "+method)
		case op < 7: // complete
			if len(calls) == 0 {
				continue
			}
			i := r.Intn(len(calls))
			c := calls[i]
			calls = append(calls[:i], calls[i+1:]...)
			var err error
			switch r.Intn(3) {
			case 0:
				err = errors.New("boom")
			case 1:
				if c.dl {
					err = deErr
				}
			}
			model[c.ref]--
			c.done(balancer.DoneInfo{Err: err})
			check(step, "done")
		case op < 9: // state change
			if len(cc.scs) == 0 {
				continue
			}
			sc := cc.scs[r.Intn(len(cc.scs))]
			if cc.removed[sc] {
				continue
			}
			b.UpdateSubConnState(sc, balancer.SubConnState{ConnectivityState: states[r.Intn(len(states))]})
			check(step, "state")
		default:
			b.mu.Lock()
			var ref *subConnRef
			if len(b.scRefList) > 0 {
				ref = b.scRefList[r.Intn(len(b.scRefList))]
			}
			b.mu.Unlock()
			if ref != nil && r.Intn(2) == 0 {
				b.refresh(ref)
			} else {
				time.Sleep(time.Millisecond)
			}
		}
	}
	for _, c := range calls {
		model[c.ref]--
		c.done(balancer.DoneInfo{})
	}
	b.mu.Lock()
	for _, ref := range b.scRefList {
		if ref.getStreamsCnt() != 0 {
			t.Fatalf("seed %d: final count %d", seed, ref.getStreamsCnt())
		}
	}
	b.mu.Unlock()
}

func TestModel(t *testing.T) {
	for seed := int64(0); seed < 300; seed++ {
		runModel(t, seed)
		if seed%100 == 99 { t.Logf("unkeyed=%d multi=%d removed=%d", nUnkeyed, nMulti, 0) }
	}
}
