package grpcgcp

import (
	"context"
	"testing"
	"time"

	"github.com/GoogleCloudPlatform/grpc-gcp-go/grpcgcp/mocks"
	"github.com/golang/mock/gomock"
	"google.golang.org/grpc/balancer"
	"google.golang.org/grpc/connectivity"
	"google.golang.org/grpc/resolver"

	pb "github.com/GoogleCloudPlatform/grpc-gcp-go/grpcgcp/grpc_gcp"
)

// Pool at maxSize (2 channels, watermark 1). Channel A is READY and carries one stream (it is
// at the watermark); channel B is still connecting. A call starts its pick on the picker that
// is current at that moment (P1 = [A]) and queues behind the balancer-wide pick mutex. Before
// it gets the mutex, B becomes READY (0 streams) and the balancer publishes P2 = [A, B].
//
// The property says that at maxSize calls are placed on the least-loaded channel even above the
// watermark. The least-loaded READY channel of the pool is B (0 streams). The call is placed on
// A instead, which thereby goes above the watermark although a READY channel is empty.
// (Below maxSize the same situation was repaired in newSubConn: the call is sent to the next
// picker. The at-maxSize branch of getLeastBusySubConnRef was left as it was.)
func TestDefectDemo(t *testing.T) {
	mockCtrl := gomock.NewController(t)
	defer mockCtrl.Finish()

	var pickers []balancer.Picker
	var newSCs []*mocks.MockSubConn
	mockCC := mocks.NewMockClientConn(mockCtrl)
	mockCC.EXPECT().UpdateState(gomock.Any()).Do(func(s balancer.State) {
		pickers = append(pickers, s.Picker)
	}).AnyTimes()
	mockCC.EXPECT().RemoveSubConn(gomock.Any()).Times(0)
	mockCC.EXPECT().NewSubConn(gomock.Any(), gomock.Any()).DoAndReturn(func(_, _ interface{}) (*mocks.MockSubConn, error) {
		sc := mocks.NewMockSubConn(mockCtrl)
		sc.EXPECT().Connect().AnyTimes()
		sc.EXPECT().UpdateAddresses(gomock.Any()).AnyTimes()
		newSCs = append(newSCs, sc)
		return sc, nil
	}).AnyTimes()

	b := newBuilder().Build(mockCC, balancer.BuildOptions{}).(*gcpBalancer)
	b.UpdateClientConnState(balancer.ClientConnState{
		ResolverState: resolver.State{Addresses: []resolver.Address{{Addr: "127.0.0.1:1"}}},
		BalancerConfig: &GCPBalancerConfig{
			ApiConfig: &pb.ApiConfig{
				ChannelPool: &pb.ChannelPoolConfig{
					MinSize:                          2,
					MaxSize:                          2,
					MaxConcurrentStreamsLowWatermark: 1,
				},
			},
		},
	})
	if len(newSCs) != 2 || len(b.scRefs) != 2 {
		t.Fatalf("setup: pool has %d channels (%d created), want 2", len(b.scRefs), len(newSCs))
	}
	scA, scB := newSCs[0], newSCs[1]

	// Both connect, A becomes READY first.
	b.UpdateSubConnState(scA, balancer.SubConnState{ConnectivityState: connectivity.Connecting})
	b.UpdateSubConnState(scB, balancer.SubConnState{ConnectivityState: connectivity.Connecting})
	b.UpdateSubConnState(scA, balancer.SubConnState{ConnectivityState: connectivity.Ready})
	p1 := pickers[len(pickers)-1] // current picker: [A]

	// First call: placed on A, stays open. A is now at the watermark (1 stream).
	r1, err := p1.Pick(balancer.PickInfo{FullMethodName: "m", Ctx: context.Background()})
	if err != nil || r1.SubConn != scA {
		t.Fatalf("setup: first call got (%v, %v), want it on A", r1.SubConn, err)
	}

	// Second call: starts its pick on P1 while P1 is the current picker, and queues behind the
	// pick mutex (held here in the place of another pick / completion callback).
	b.pickMu.Lock()
	type res struct {
		r   balancer.PickResult
		err error
	}
	done := make(chan res, 1)
	go func() {
		r, err := p1.Pick(balancer.PickInfo{FullMethodName: "m", Ctx: context.Background()})
		done <- res{r, err}
	}()
	time.Sleep(200 * time.Millisecond) // let it reach pickMu (the outcome is the same if it has not)

	// B becomes READY: the balancer publishes P2 = [A, B]. B has no stream.
	b.UpdateSubConnState(scB, balancer.SubConnState{ConnectivityState: connectivity.Ready})
	b.pickMu.Unlock()

	var r2 res
	select {
	case r2 = <-done:
	case <-time.After(5 * time.Second):
		t.Fatal("the second pick did not return")
	}

	b.mu.Lock()
	nA, nB := b.scRefs[scA].getStreamsCnt(), b.scRefs[scB].getStreamsCnt()
	stA, stB := b.scStates[scA], b.scStates[scB]
	size := len(b.scRefs)
	b.mu.Unlock()
	if size != 2 || stA != connectivity.Ready || stB != connectivity.Ready {
		t.Fatalf("setup: pool size %d, A %v, B %v; want 2 READY channels", size, stA, stB)
	}

	// Allowed outcomes: the call is placed on B (the least-loaded READY channel), or it is told
	// to wait (ErrNoSubConnAvailable) and gets to B with the picker that was just published.
	if r2.err == nil && r2.r.SubConn == scA {
		t.Fatalf("pool at maxSize=2, watermark 1, both channels READY: the call was placed on A, which now has %d streams "+
			"(above the watermark), while READY channel B has %d streams; expected the call on the least-loaded channel B "+
			"(or a wait for the next picker), never on a saturated channel while a READY channel is empty", nA, nB)
	}
}
