package grpcgcp

import (
	"context"
	"net"
	"sync"
	"testing"
	"time"

	"github.com/GoogleCloudPlatform/grpc-gcp-go/grpcgcp/multiendpoint"
	"google.golang.org/grpc"
	"google.golang.org/grpc/connectivity"
	"google.golang.org/grpc/credentials/insecure"
	"google.golang.org/protobuf/types/known/emptypb"

	pb "github.com/GoogleCloudPlatform/grpc-gcp-go/grpcgcp/grpc_gcp"
)

// demoServer is an in-process gRPC server that answers every method and counts the calls.
type demoServer struct {
	addr string
	srv  *grpc.Server

	mu    sync.Mutex
	calls int
}

func newDemoServer(t *testing.T) *demoServer {
	lis, err := net.Listen("tcp4", "127.0.0.1:0")
	if err != nil {
		t.Fatalf("listen: %v", err)
	}
	ds := &demoServer{addr: lis.Addr().String()}
	ds.srv = grpc.NewServer(grpc.UnknownServiceHandler(func(_ interface{}, stream grpc.ServerStream) error {
		ds.mu.Lock()
		ds.calls++
		ds.mu.Unlock()
		in := &emptypb.Empty{}
		if err := stream.RecvMsg(in); err != nil {
			return err
		}
		return stream.SendMsg(&emptypb.Empty{})
	}))
	go ds.srv.Serve(lis)
	return ds
}

func (ds *demoServer) count() int {
	ds.mu.Lock()
	defer ds.mu.Unlock()
	return ds.calls
}

// TestDefectDemo: a MultiEndpoint with a switching delay is re-configured from [A, C] to [B, C].
// A (its current endpoint) is dropped, B and C are endpoints of pools that are kept by the
// update and that were READY all the time. When UpdateMultiEndpoints returns, the
// MultiEndpoint must route to B, the first endpoint of its list with a READY pool. It routes
// to C for the whole switching delay instead.
func TestDefectDemo(t *testing.T) {
	a, b, c := newDemoServer(t), newDemoServer(t), newDemoServer(t)
	defer a.srv.Stop()
	defer b.srv.Stop()
	defer c.srv.Stop()
	name := map[string]string{a.addr: "A", b.addr: "B", c.addr: "C"}

	dials := map[string]int{}
	var dialsMu sync.Mutex
	const delay = time.Hour // nothing in this test may depend on the delay expiring
	me := func(endpoints ...string) *multiendpoint.MultiEndpointOptions {
		return &multiendpoint.MultiEndpointOptions{Endpoints: endpoints, SwitchingDelay: delay}
	}
	opts := &GCPMultiEndpointOptions{
		GRPCgcpConfig: &pb.ApiConfig{ChannelPool: &pb.ChannelPoolConfig{MinSize: 1, MaxSize: 1}},
		MultiEndpoints: map[string]*multiendpoint.MultiEndpointOptions{
			"default": me(a.addr),
			"keepB":   me(b.addr),
			"keepC":   me(c.addr),
		},
		Default: "default",
		DialFunc: func(ctx context.Context, target string, dopts ...grpc.DialOption) (*grpc.ClientConn, error) {
			dialsMu.Lock()
			dials[target]++
			dialsMu.Unlock()
			return grpc.Dial(target, dopts...)
		},
	}
	gme, err := NewGCPMultiEndpoint(opts, grpc.WithTransportCredentials(insecure.NewCredentials()))
	if err != nil {
		t.Fatalf("NewGCPMultiEndpoint: %v", err)
	}
	defer gme.Close()

	// Wait until the three pools are READY. They stay READY until the end of the test.
	deadline := time.Now().Add(10 * time.Second)
	for _, e := range []string{a.addr, b.addr, c.addr} {
		gme.mu.RLock()
		conn := gme.pools[e].conn
		gme.mu.RUnlock()
		for s := conn.GetState(); s != connectivity.Ready; s = conn.GetState() {
			ctx, cancel := context.WithDeadline(context.Background(), deadline)
			ok := conn.WaitForStateChange(ctx, s)
			cancel()
			if !ok {
				t.Fatalf("pool %s did not become READY", name[e])
			}
		}
	}
	allReady := func() {
		t.Helper()
		gme.mu.RLock()
		defer gme.mu.RUnlock()
		if len(gme.pools) != 3 {
			t.Fatalf("want 3 pools, have %d", len(gme.pools))
		}
		for e, mc := range gme.pools {
			if s := mc.conn.GetState(); s != connectivity.Ready {
				t.Fatalf("pool %s is %v, the scenario needs it READY", name[e], s)
			}
		}
	}
	current := func(me string) string {
		gme.mu.RLock()
		defer gme.mu.RUnlock()
		return name[gme.mes[me].Current()]
	}

	// Step 1: "default" becomes [A, C]. A stays current (top priority, READY), and the
	// MultiEndpoint learns during the update that C is available as well.
	opts.MultiEndpoints["default"] = me(a.addr, c.addr)
	if err := gme.UpdateMultiEndpoints(opts); err != nil {
		t.Fatalf("UpdateMultiEndpoints #1: %v", err)
	}
	allReady()
	if got := current("default"); got != "A" {
		t.Fatalf("after update #1 the default MultiEndpoint [A, C] routes to %s, want A", got)
	}

	// Step 2: "default" becomes [B, C]. Both pools exist, are kept and are READY.
	opts.MultiEndpoints["default"] = me(b.addr, c.addr)
	if err := gme.UpdateMultiEndpoints(opts); err != nil {
		t.Fatalf("UpdateMultiEndpoints #2: %v", err)
	}
	// Pool set: A is closed, B and C were kept without re-dialing.
	allReadyBC := func() {
		t.Helper()
		gme.mu.RLock()
		defer gme.mu.RUnlock()
		if len(gme.pools) != 2 || gme.pools[b.addr] == nil || gme.pools[c.addr] == nil {
			t.Fatalf("want exactly the pools B and C, have %d pools", len(gme.pools))
		}
		for e, mc := range gme.pools {
			if s := mc.conn.GetState(); s != connectivity.Ready {
				t.Fatalf("pool %s is %v, the scenario needs it READY", name[e], s)
			}
		}
	}
	allReadyBC()
	dialsMu.Lock()
	for e, n := range dials {
		if n != 1 {
			t.Fatalf("endpoint %s dialed %d times, want 1", name[e], n)
		}
	}
	dialsMu.Unlock()

	// Give the (woken) monitors ample time to report once more: they change nothing.
	time.Sleep(300 * time.Millisecond)
	allReadyBC()

	// Where does an RPC without a MultiEndpoint name (=> "default") go now?
	ctx, cancel := context.WithTimeout(context.Background(), 5*time.Second)
	defer cancel()
	if err := gme.Invoke(ctx, "/demo.Service/Call", &emptypb.Empty{}, &emptypb.Empty{}); err != nil {
		t.Fatalf("Invoke: %v", err)
	}
	t.Logf("calls received: A=%d B=%d C=%d; default.Current()=%s", a.count(), b.count(), c.count(), current("default"))
	if got := current("default"); got != "B" || b.count() != 1 || c.count() != 0 {
		t.Fatalf("UpdateMultiEndpoints re-configured the default MultiEndpoint to [B, C]; the pools of B and C "+
			"were kept and READY before, during and after the update, so when the update has returned the "+
			"MultiEndpoint must reflect that and route to B, its top priority endpoint. It routes to %s "+
			"(RPCs received: B=%d, C=%d) and will do so for the whole switching delay (%v).",
			got, b.count(), c.count(), delay)
	}
}
