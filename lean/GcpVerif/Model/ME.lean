/-
Model of grpcgcp/multiendpoint (multiendpoint.go, endpoint.go).

Every definition is a line-by-line transcription of the Go function of the same name.
Core Lean only (this file is linked into the native driver).

Conventions (DESIGN §4):
* time is an `Int` of nanoseconds, advanced only by `Op.advance`;
* timers are data; the environment fires them with `Op.fire tid`; a timer may fire when it is
  live and due, or when it was stopped *after* it had become due (`time.Timer.Stop` returning
  false: the callback goroutine is already blocked on the mutex);
* endpoint objects are numbered (`obj`); timers name objects, never ids, exactly like the Go
  closures capture `*endpoint`;
* the Go map `endpoints` is a list in which an id determines its entry; map iteration order is
  irrelevant because priorities are pairwise distinct (proved: `Inv.idInj`, `Inv.prioInj`).
-/
namespace GcpVerif.ME

inductive Status where
  | unavailable | available | recovering
  deriving DecidableEq, Repr, Inhabited

structure Ep where
  id : String
  obj : Nat
  prio : Nat
  status : Status
  lastChange : Option Int      -- `none` = Go's zero time.Time
  timer : Option Nat           -- futureChange (timer id); never reset to nil by the Go code
  deriving DecidableEq, Repr, Inhabited

inductive TimerKind where
  | recovery (obj : Nat) (id : String) (stamp : Option Int)   -- closure captures the *endpoint (obj); its id never changes
  | switch
  deriving DecidableEq, Repr

structure Timer where
  tid : Nat
  due : Int
  kind : TimerKind
  stopped : Bool               -- stopped after it became due (dispatched); may still fire
  deriving DecidableEq, Repr

structure St where
  r : Int
  d : Int
  eps : List Ep
  orphans : List Ep            -- objects no longer in the map but still captured by a timer closure
  current : String
  future : String
  timers : List Timer
  now : Int
  nextObj : Nat
  nextTid : Nat
  deriving Repr

inductive Op where
  | setAvail (e : String) (a : Bool)
  | setEndpoints (l : List String)
  | advance (dt : Nat)
  | fire (tid : Nat)
  deriving Repr

/-- what a caller can observe of one operation -/
inductive Out where
  | ok
  | err            -- SetEndpoints rejected the (empty) list
  | notFirable     -- environment error: the harness tried to fire a timer that cannot fire
  deriving DecidableEq, Repr

/-! ### lookups -/

def findEp (eps : List Ep) (id : String) : Option Ep := eps.find? (fun e => e.id == id)

def better (a : Option Ep) (e : Ep) : Option Ep :=
  match a with
  | none => some e
  | some x => if x.prio > e.prio then some e else some x

/-- `for _, e := range m { if top == nil || top.priority > e.priority { top = e } }` -/
def topOf (l : List Ep) : Option Ep := l.foldl better none

def isAvail (e : Ep) : Bool := e.status == .available

def topAvail (eps : List Ep) : Option Ep := topOf (eps.filter isAvail)

/-! ### timers -/

def addTimer (s : St) (delay : Int) (k : TimerKind) : St :=
  { s with timers := s.timers ++ [{ tid := s.nextTid, due := s.now + delay, kind := k, stopped := false }],
           nextTid := s.nextTid + 1 }

/-- `t.Stop()`: a timer that is not yet due can never run; one that is due may already be
    dispatched and is kept, marked stopped. A fired timer is no longer in the list (no-op). -/
def stopTimer (now : Int) (ts : List Timer) (tid : Nat) : List Timer :=
  ts.filterMap fun t =>
    if t.tid == tid then (if t.due ≤ now then some { t with stopped := true } else none) else some t

def stopOpt (now : Int) (ts : List Timer) : Option Nat → List Timer
  | none => ts
  | some tid => stopTimer now ts tid

/-! ### endpoint objects

An endpoint object is either the value of the map entry under its own id (`eps`), or no longer in
the map (`orphans`, reachable only from timer closures). -/

def updId (l : List Ep) (id : String) (f : Ep → Ep) : List Ep :=
  l.map fun e => if e.id == id then f e else e

def updObj (l : List Ep) (obj : Nat) (f : Ep → Ep) : List Ep :=
  l.map fun e => if e.obj == obj then f e else e

def touch (st : Status) (now : Int) (x : Ep) : Ep := { x with status := st, lastChange := some now }

/-- `setState(e, st)` for `e = me.endpoints[id]`: stop e.futureChange, set status, lastChange := now -/
def setStateEp (s : St) (e : Ep) (st : Status) : St :=
  { s with timers := stopOpt s.now s.timers e.timer, eps := updId s.eps e.id (touch st s.now) }

/-- `setState(e, st)` for an object that is no longer in the map -/
def setStateOrphan (s : St) (e : Ep) (st : Status) : St :=
  { s with timers := stopOpt s.now s.timers e.timer, orphans := updObj s.orphans e.obj (touch st s.now) }

/-- `scheduleUnavailable(e)` for `e = me.endpoints[id]` whose `lastChange` is `stamp` -/
def scheduleUnavailable (s : St) (e : Ep) (stamp : Option Int) : St :=
  let tid := s.nextTid
  let s := addTimer s s.r (.recovery e.obj e.id stamp)
  { s with eps := updId s.eps e.id fun x => { x with timer := some tid } }

/-- `newEndpoint(id, priority)`; returns the state (timer scheduled) and the new object -/
def newEndpoint (s : St) (id : String) (prio : Nat) : St × Ep :=
  let st : Status := if s.r > 0 then .recovering else .unavailable
  let e : Ep := { id := id, obj := s.nextObj, prio := prio, status := st, lastChange := none, timer := none }
  let s := { s with nextObj := s.nextObj + 1 }
  if s.r > 0 then
    let tid := s.nextTid
    let s := addTimer s s.r (.recovery e.obj id none)
    (s, { e with timer := some tid })
  else (s, e)

/-! ### maybeUpdateCurrent / switchFromTo -/

/-- `f == nil || f.status == unavailable` -/
def goneOrUnavailable : Option Ep → Bool
  | none => true
  | some f => f.status == .unavailable

def switchFromTo (s : St) (f : Option Ep) (t : Ep) : St :=
  if s.current == t.id then s
  else if s.d == 0 || goneOrUnavailable f then
    { s with current := t.id }
  else
    addTimer { s with future := t.id } s.d .switch

/-- `exists && c.status == recovering && (topA == nil || topA.priority > c.priority)` -/
def isProtected : Option Ep → Option Ep → Bool
  | some c, none => c.status == .recovering
  | some c, some t => c.status == .recovering && decide (t.prio > c.prio)
  | none, _ => false

def maybeUpdateCurrent (s : St) : St :=
  let c := findEp s.eps s.current
  let topA := topAvail s.eps
  if isProtected c topA then s
  else match topA with
    | some t => switchFromTo s c t
    | none =>
      match c with
      | some _ => s
      | none =>
        match topOf s.eps with
        | some t => { s with current := t.id }
        | none => s        -- unreachable: the map is never empty (`Base.nonempty`)

/-! ### API operations -/

def setEndpointAvailability (s : St) (id : String) (avail : Bool) : St :=
  match findEp s.eps id with
  | none => s
  | some ee =>
    if avail then setStateEp s ee .available
    else if ee.status != .available then s
    else if s.r == 0 then setStateEp s ee .unavailable
    else
      let s := setStateEp s ee .recovering
      scheduleUnavailable s ee (some s.now)

def opSetAvail (s : St) (id : String) (avail : Bool) : St :=
  maybeUpdateCurrent (setEndpointAvailability s id avail)

/-- the "add new endpoints and update priority" loop of SetEndpoints -/
def addOrUpdate (s : St) : List String → Nat → St
  | [], _ => s
  | id :: rest, i =>
    match findEp s.eps id with
    | none =>
      let r := newEndpoint s id i
      addOrUpdate { r.1 with eps := r.1.eps ++ [r.2] } rest (i + 1)
    | some _ =>
      addOrUpdate { s with eps := s.eps.map fun e => if e.id == id then { e with prio := i } else e } rest (i + 1)

/-- the "remove obsolete endpoints" loop of SetEndpoints -/
def dropObsolete (s : St) (l : List String) : St :=
  { s with eps := s.eps.filter (fun e => l.contains e.id),
           orphans := s.orphans ++ s.eps.filter (fun e => !l.contains e.id) }

def opSetEndpoints (s : St) (l : List String) : St × Out :=
  if l.isEmpty then (s, .err)
  else (maybeUpdateCurrent (addOrUpdate (dropObsolete s l) l 0), .ok)

def removeTimer (ts : List Timer) (tid : Nat) : List Timer := ts.filter fun t => t.tid != tid

def canFire (now : Int) (t : Timer) : Bool := t.due ≤ now

/-- the delayed-switch closure of switchFromTo -/
def fireSwitch (s : St) : St :=
  match findEp s.eps s.future with
  | some e =>
    if e.status == .available then
      match findEp s.eps s.current with
      | some c =>
        if c.status != .unavailable && c.prio < e.prio then s   -- outdated: would be a downgrade
        else { s with current := e.id }
      | none => { s with current := e.id }
    else s
  | none => s

/-- the closure of scheduleUnavailable; `e` is the captured object -/
def fireRecovery (s : St) (obj : Nat) (id : String) (stamp : Option Int) : St :=
  let inMap := match findEp s.eps id with
    | some e => if e.obj == obj then some e else none
    | none => none
  match inMap with
  | some e =>
    if e.lastChange != stamp then s
    else maybeUpdateCurrent (setStateEp s e .unavailable)
  | none =>
    match s.orphans.find? (fun e => e.obj == obj) with
    | none => s      -- unreachable: a captured object is in the map or an orphan
    | some e =>
      if e.lastChange != stamp then s
      else maybeUpdateCurrent (setStateOrphan s e .unavailable)

def opFire (s : St) (tid : Nat) : St × Out :=
  match s.timers.find? (fun t => t.tid == tid) with
  | none => (s, .notFirable)
  | some t =>
    if !canFire s.now t then (s, .notFirable)
    else
      let s := { s with timers := removeTimer s.timers tid }
      match t.kind with
      | .switch => (fireSwitch s, .ok)
      | .recovery obj id stamp => (fireRecovery s obj id stamp, .ok)

def stepRaw (s : St) : Op → St × Out
  | .setAvail e a => (opSetAvail s e a, .ok)
  | .setEndpoints l => opSetEndpoints s l
  | .advance dt => ({ s with now := s.now + dt }, .ok)
  | .fire tid => opFire s tid

/-- the `for i, e := range b.Endpoints { eMap[e] = me.newEndpoint(e, i) }` loop: a duplicate id
    creates a second object that overwrites the first in the map (the first becomes an orphan
    whose recovery timer is still pending). -/
def initLoop (s : St) : List String → Nat → St
  | [], _ => s
  | id :: rest, i =>
    let r := newEndpoint s id i
    let old := r.1.eps.filter fun x => x.id == id
    initLoop { r.1 with eps := (r.1.eps.filter fun x => x.id != id) ++ [r.2], orphans := r.1.orphans ++ old } rest (i + 1)

/-- `NewMultiEndpoint` for non-negative durations and a list without repetitions; `none` = rejected (empty list) -/
def initRaw (r d : Int) (l : List String) : Option St :=
  match l with
  | [] => none
  | first :: _ =>
    some (initLoop { r := r, d := d, eps := [], orphans := [], current := first, future := "",
                     timers := [], now := 0, nextObj := 0, nextTid := 0 } l 0)

def runRaw (s : St) (ops : List Op) : St := ops.foldl (fun s op => (stepRaw s op).1) s

/-! ### what the API does with its arguments first (F29, F30)

An endpoint listed more than once keeps the position of its first occurrence (`uniqueEndpoints`); a
negative recovery timeout or switching delay means none (`nonNegative`). The functions above are the
machine behind that normalisation. -/

def normOp : Op → Op
  | .setEndpoints l => .setEndpoints l.eraseDups
  | op => op

/-- one API operation -/
def step (s : St) (op : Op) : St × Out := stepRaw s (normOp op)

/-- `NewMultiEndpoint` -/
def init (r d : Int) (l : List String) : Option St := initRaw (max r 0) (max d 0) l.eraseDups

def run (s : St) (ops : List Op) : St := ops.foldl (fun s op => (step s op).1) s

end GcpVerif.ME
