/-
Model of the pool monitor goroutine of GCPMultiEndpoint (gcp_multiendpoint.go, `monitoredConn.monitor`):

    for { s := conn.GetState(); notify(s); if !conn.WaitForStateChange(ctx, s) { break } }

A small-step system: the connection's state is changed by the environment at any moment; the monitor
reads it, tells every MultiEndpoint (`notify`), and then sleeps until the state differs from *the value
it read*.  Serves C15 ("routing follows connectivity").  Core Lean only.
-/
namespace GcpVerif.Monitor

inductive Pc where
  | read
  | notify (s : Nat)        -- has read `s`, about to tell the MultiEndpoints
  | wait (s : Nat)          -- told them `s`, inside WaitForStateChange(ctx, s)
  deriving DecidableEq, Repr

structure St where
  conn : Nat                -- the connection's real connectivity state
  pc : Pc
  told : Option Nat         -- what the MultiEndpoints were last told
  deriving DecidableEq, Repr

def init (c : Nat) : St := { conn := c, pc := .read, told := none }

inductive Step where
  | env (c : Nat)           -- the connection changes state
  | mon                     -- the monitor goroutine makes its next move (if it can)
  deriving Repr

def step (s : St) : Step → St
  | .env c => { s with conn := c }
  | .mon =>
    match s.pc with
    | .read => { s with pc := .notify s.conn }
    | .notify v => { s with told := some v, pc := .wait v }
    | .wait v => if s.conn != v then { s with pc := .read } else s     -- blocked while nothing changed

def run (s : St) (l : List Step) : St := l.foldl step s

/-- the monitor is blocked: it sleeps in WaitForStateChange and the state has not changed -/
def blocked (s : St) : Bool :=
  match s.pc with
  | .wait v => s.conn == v
  | _ => false

/-- the variant that re-reads the state for the wait (`WaitForStateChange(ctx, conn.GetState())`) -/
def stepReread (s : St) : Step → St
  | .env c => { s with conn := c }
  | .mon =>
    match s.pc with
    | .read => { s with pc := .notify s.conn }
    | .notify v => { s with told := some v, pc := .wait s.conn }
    | .wait v => if s.conn != v then { s with pc := .read } else s

end GcpVerif.Monitor
