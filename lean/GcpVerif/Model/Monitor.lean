/-
Model of the pool monitor goroutine of GCPMultiEndpoint (gcp_multiendpoint.go, `monitoredConn.monitor`)
and of the other place that tells the MultiEndpoints about a pool, the status update at the end of
UpdateMultiEndpoints:

    monitor:  for ctx.Err() == nil { w, wake := WithCancel(ctx); s := notify(wake); conn.WaitForStateChange(w, s); wake() }
    notify(wake): RLock; s := conn.GetState(); keep wake; tell every MultiEndpoint s; RUnlock; return s   (F35)
    update:   Lock; …; for every pool: tell the MultiEndpoints conn.GetState(); then wake every monitor   (F36)
              (its current WaitForStateChange returns and it looks again); Unlock

A small-step system: the connection's state is changed by the environment at any moment; the monitor
reads the state and tells every MultiEndpoint in one step (both under the read lock), then sleeps
until the state differs from *the value it read*; `sync` is the update's status report.

Two earlier shapes of the code are kept for the record, each with a kernel-checked history on which the
MultiEndpoints end up believing a state the pool is not in:
* `stepSplit` (before F35): the monitor read the state first and told it after waiting for the lock — a
  `sync` in between was undone by the older sample;
* `stepSyncReads` (before F36): the status update told the pool's state without waking the monitor — a
  state that came and went while the monitor was between `notify` and `WaitForStateChange` stayed with
  the MultiEndpoints.
Serves C15 ("routing follows connectivity").  Core Lean only.
-/
namespace GcpVerif.Monitor

inductive Pc where
  | read
  | notify (s : Nat)        -- (only in `stepSplit`) has read `s`, about to tell the MultiEndpoints
  | wait (s : Nat)          -- told them `s`, before or inside WaitForStateChange(ctx, s)
  deriving DecidableEq, Repr

structure St where
  conn : Nat                -- the connection's real connectivity state
  pc : Pc
  told : Option Nat         -- what the MultiEndpoints were last told
  seen : Option Nat := none -- what the monitor last told them
  deriving DecidableEq, Repr

def init (c : Nat) : St := { conn := c, pc := .read, told := none }

inductive Step where
  | env (c : Nat)           -- the connection changes state
  | mon                     -- the monitor goroutine makes its next move (if it can)
  | sync                    -- UpdateMultiEndpoints' status update
  deriving Repr

def step (s : St) : Step → St
  | .env c => { s with conn := c }
  | .sync => { s with told := some s.conn,                                 -- tells the state as it is now …
                      pc := match s.pc with | .wait _ => .read | p => p }  -- … and ends the monitor's wait
  | .mon =>
    match s.pc with
    | .read => { s with told := some s.conn, seen := some s.conn, pc := .wait s.conn }   -- notify()
    | .notify v => { s with told := some v, seen := some v, pc := .wait v }              -- (not reached from `init`)
    | .wait v => if s.conn != v then { s with pc := .read } else s     -- blocked while nothing changed

def run (s : St) (l : List Step) : St := l.foldl step s

/-- the monitor is blocked: it sleeps in WaitForStateChange and the state has not changed -/
def blocked (s : St) : Bool :=
  match s.pc with
  | .wait v => s.conn == v
  | _ => false

/-- before F35: `s := conn.GetState(); notify(s)` — read, then (after waiting for the lock) tell;
    the status update reads the state itself -/
def stepSplit (s : St) : Step → St
  | .env c => { s with conn := c }
  | .sync => { s with told := some s.conn }
  | .mon =>
    match s.pc with
    | .read => { s with pc := .notify s.conn }
    | .notify v => { s with told := some v, seen := some v, pc := .wait v }
    | .wait v => if s.conn != v then { s with pc := .read } else s

/-- after F35, before F36: the monitor reads and tells in one step, the status update does not wake it -/
def stepSyncReads (s : St) : Step → St
  | .env c => { s with conn := c }
  | .sync => { s with told := some s.conn }
  | .mon =>
    match s.pc with
    | .read => { s with told := some s.conn, seen := some s.conn, pc := .wait s.conn }
    | .notify v => { s with told := some v, seen := some v, pc := .wait v }
    | .wait v => if s.conn != v then { s with pc := .read } else s

/-- the variant that re-reads the state for the wait (`WaitForStateChange(ctx, conn.GetState())`) -/
def stepReread (s : St) : Step → St
  | .env c => { s with conn := c }
  | .sync => { s with told := some s.conn, pc := match s.pc with | .wait _ => .read | p => p }
  | .mon =>
    match s.pc with
    | .read => { s with pc := .notify s.conn }
    | .notify v => { s with told := some v, seen := some v, pc := .wait s.conn }
    | .wait v => if s.conn != v then { s with pc := .read } else s

end GcpVerif.Monitor
