/-
Model of the end-to-end checksum codec (e2e-checksum/main.go, `myCodec`).  Serves C19.
Bytes are `UInt8`; the protobuf wire format is modelled for the four wire types protobuf-go emits
(varint, fixed64, length-delimited, fixed32); groups are rejected.
-/
namespace GcpVerif.Checksum

abbrev Bytes := List UInt8

/-- protobuf base-128 varint (`proto.Buffer.EncodeVarint`) -/
def varint (n : Nat) : Bytes :=
  if h : n < 128 then [n.toUInt8]
  else (n % 128 + 128).toUInt8 :: varint (n / 128)
termination_by n
decreasing_by omega

/-- `EncodeFixed32(uint64(x))`: the low 32 bits, little endian -/
def fixed32le (n : Nat) : Bytes :=
  [(n % 256).toUInt8, (n / 256 % 256).toUInt8, (n / 65536 % 256).toUInt8, (n / 16777216 % 256).toUInt8]

/-- one byte of the reflected CRC-32C (Castagnoli, polynomial 0x82F63B78) -/
def crcBit (c : UInt32) : UInt32 := if c &&& 1 == 1 then (c >>> 1) ^^^ 0x82F63B78 else c >>> 1

def crcStep (crc : UInt32) (b : UInt8) : UInt32 :=
  let c := crc ^^^ b.toUInt32
  crcBit (crcBit (crcBit (crcBit (crcBit (crcBit (crcBit (crcBit c)))))))

/-- `crc32.Checksum(bytes, crc32.MakeTable(crc32.Castagnoli))` -/
def crc32c (bs : Bytes) : UInt32 := (bs.foldl crcStep 0xFFFFFFFF) ^^^ 0xFFFFFFFF

/-- `tag := (checksumField << 3) | checksumWireType` -/
def tagOf (field wire : Nat) : Nat := field * 8 ||| wire

/-- myCodec.Marshal: `inner` is the result of the wrapped proto codec (`none` = it returned an error) -/
def marshal (field wire : Nat) (inner : Option Bytes) : Option Bytes :=
  inner.map fun b => varint (tagOf field wire) ++ fixed32le (crc32c b).toNat ++ b

/-! ### a conforming wire-format parser -/

inductive Payload where
  | varint (n : Nat)
  | fixed64 (b : Bytes)
  | lenDelim (b : Bytes)
  | fixed32 (b : Bytes)
  deriving DecidableEq, Repr

structure WField where
  num : Nat
  payload : Payload
  deriving DecidableEq, Repr

/-- read a base-128 varint of at most 10 bytes -/
def readVarint : Nat → Bytes → Option (Nat × Bytes)
  | 0, _ => none
  | _, [] => none
  | fuel + 1, b :: rest =>
    if b < 128 then some (b.toNat, rest)
    else match readVarint fuel rest with
      | some (n, rest') => some (b.toNat - 128 + 128 * n, rest')
      | none => none

def takeN (n : Nat) (b : Bytes) : Option (Bytes × Bytes) :=
  if b.length < n then none else some (b.take n, b.drop n)

/-- parse a sequence of fields; `fuel` bounds the number of fields -/
def parseN : Nat → Bytes → Option (List WField)
  | _, [] => some []
  | 0, _ :: _ => none
  | fuel + 1, bs =>
    match readVarint 10 bs with
    | none => none
    | some (tag, rest) =>
      let num := tag / 8
      let step (p : Payload) (rest : Bytes) : Option (List WField) :=
        (parseN fuel rest).map fun fs => { num := num, payload := p } :: fs
      if num == 0 then none
      else match tag % 8 with
        | 0 => match readVarint 10 rest with
          | some (n, rest) => step (.varint n) rest
          | none => none
        | 1 => match takeN 8 rest with
          | some (p, rest) => step (.fixed64 p) rest
          | none => none
        | 2 => match readVarint 10 rest with
          | some (n, rest) => match takeN n rest with
            | some (p, rest) => step (.lenDelim p) rest
            | none => none
          | none => none
        | 5 => match takeN 4 rest with
          | some (p, rest) => step (.fixed32 p) rest
          | none => none
        | _ => none

def hexDigit (n : Nat) : Char := if n < 10 then Char.ofNat (48 + n) else Char.ofNat (87 + n)

def toHex (b : Bytes) : String :=
  String.ofList (b.foldr (fun x acc => hexDigit (x.toNat / 16) :: hexDigit (x.toNat % 16) :: acc) [])

def hexVal (c : Char) : Option Nat :=
  if '0' ≤ c ∧ c ≤ '9' then some (c.toNat - 48)
  else if 'a' ≤ c ∧ c ≤ 'f' then some (c.toNat - 87)
  else none

def ofHexChars : List Char → Option Bytes
  | [] => some []
  | [_] => none
  | a :: b :: rest => do
    let x ← hexVal a
    let y ← hexVal b
    let r ← ofHexChars rest
    pure ((x * 16 + y).toUInt8 :: r)

def ofHex (s : String) : Option Bytes := ofHexChars s.toList

end GcpVerif.Checksum
