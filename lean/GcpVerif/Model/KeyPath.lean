/-
Model of the reflective affinity-key extraction (gcp_picker.go: getAffinityKeysFromMessage,
keysFromMessage — after fix F19).  Serves C11 (and the key-extraction part of C05).

`V` is a Go value as `reflect` presents it. A struct is the table FieldByName resolves against:
name ↦ the field's value, or `nilEmb` when the field is promoted through an embedded pointer that
is nil (reflect reports that as an error; before F19 it panicked). Names that do not resolve
(missing, or ambiguous among embedded structs) are simply absent. How reflect builds that table
from a Go type is *modelled, not verified*: the harness asks reflect itself.
-/
namespace GcpVerif.KeyPath

inductive V where
  | invalid                         -- the zero reflect.Value
  | str (s : String)                -- Kind() == String (string and named string types)
  | other                           -- any other non-composite kind, maps, arrays, funcs, chans
  | nilPtr
  | ptr (v : V)
  | nilIface
  | iface (v : V)
  | struct (fs : List (String × Option V))   -- `none` = promoted through a nil embedded pointer
  | slice (xs : List V)
  deriving Repr, Inhabited

/-- `if Kind() is Pointer or Interface { val = val.Elem() }` (once) -/
def deref : V → V
  | .ptr v => v
  | .nilPtr => .invalid
  | .iface v => v
  | .nilIface => .invalid
  | v => v

inductive FieldRes where
  | notFound
  | nilEmb
  | found (v : V)

def lookupField (fs : List (String × Option V)) (name : String) : FieldRes :=
  match fs.find? (fun p => p.1 == name) with
  | none => .notFound
  | some (_, none) => .nilEmb
  | some (_, some v) => .found v

/-- strings.Title: a letter is upper-cased when it starts a word; letters, digits and '_' are word
    characters, every other ASCII character separates words. Non-ASCII characters are taken to be
    letters that are their own title case (true of the upper-case letters the harness uses: the
    model does not know Unicode's case tables) -/
def isWordChar (c : Char) : Bool := c.isAlphanum || c == '_' || c.val ≥ 128

def titleAux : Bool → List Char → List Char
  | _, [] => []
  | sep, c :: cs => (if sep then c.toUpper else c) :: titleAux (!isWordChar c) cs

def title (s : String) : String := String.ofList (titleAux true s.toList)

/-- `keys := []string{}; for i … { kk, err := f(elem); if err != nil { return keys, err }; keys = append(keys, kk...) }` -/
def loopKeys (f : V → List String × Bool) : List V → List String → List String × Bool
  | [], acc => (acc, true)
  | x :: xs, acc =>
    match f x with
    | (kk, true) => loopKeys f xs (acc ++ kk)
    | (_, false) => (acc, false)

/-- keysFromMessage(val, path, start): the pair (keys, err == nil). On an error inside a repeated
    field the Go code returns the keys gathered so far together with the error. -/
def keysFromMessage : V → List String → List String × Bool
  | v, [] =>
    match deref v with
    | .str s => ([s], true)
    | _ => ([], false)
  | v, seg :: rest =>
    match deref v with
    | .struct fs =>
      match lookupField fs (title seg) with
      | .nilEmb => ([], false)
      | .notFound => keysFromMessage .invalid rest
      | .found (.slice xs) => loopKeys (fun x => keysFromMessage x rest) xs []
      | .found f => keysFromMessage f rest
    | _ => ([], false)

/-- `strings.Split(s, sep)` on characters: "" ↦ [""], "a." ↦ ["a", ""], "a..b" ↦ ["a", "", "b"] -/
def splitChars (sep : Char) : List Char → List (List Char)
  | [] => [[]]
  | c :: cs =>
    if c == sep then [] :: splitChars sep cs
    else match splitChars sep cs with
      | h :: t => (c :: h) :: t
      | [] => [[c]]

def splitDots (s : String) : List String := (splitChars '.' s.toList).map String.ofList

/-- getAffinityKeysFromMessage: `strings.Split(locator, ".")` never returns an empty slice, so the
    "empty locator" branch of the Go code is dead; `none` = error -/
def getAffinityKeys (locator : String) (msg : V) : Option (List String) :=
  match keysFromMessage msg (splitDots locator) with
  | (ks, true) => some ks
  | (_, false) => none

/-! ### the declarative reading of the property -/

/-- follow the dotted path from the message: through pointers/interfaces (one level), nested
    structs, fanning out over every element of every repeated field in order; the end of the path
    must be a string -/
def follow : List String → V → Option (List String)
  | [], v =>
    match deref v with
    | .str s => some [s]
    | _ => none
  | seg :: rest, v =>
    match deref v with
    | .struct fs =>
      match lookupField fs (title seg) with
      | .found (.slice xs) => (xs.mapM (follow rest)).map List.flatten
      | .found f => follow rest f
      | _ => none
    | _ => none

end GcpVerif.KeyPath
