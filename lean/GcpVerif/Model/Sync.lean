/-
Lock discipline (C10, part of C06): the data the extractor produces and the decidable analyses.
-/
namespace GcpVerif.Sync

/-- one access to a guarded field, as read off the Go AST by tools/extract (locks.go) -/
structure Access where
  field : String
  write : Bool
  atomic : Bool
  w : List String          -- mutexes certainly held exclusively (Lock)
  r : List String          -- mutexes certainly held shared (RLock)
  fn : String
  pos : String
  kinds : List String      -- entry kinds it is reachable from: "serial" (balancer callbacks) / "conc"
  deriving Repr, DecidableEq

def Access.holds (a : Access) (m : String) : Bool := a.w.contains m || a.r.contains m

/-- two accesses may be executed by different goroutines at the same time unless both are reachable
    only from the (mutually serialised) balancer callbacks -/
def mayRunConcurrently (a b : Access) : Bool := !(a.kinds.all (· == "serial") && b.kinds.all (· == "serial"))

def conflicting (a b : Access) : Bool := a.field == b.field && (a.write || b.write)

/-- a common mutex that every writer of the pair holds exclusively and the other side holds at all -/
def commonLock (a b : Access) : Bool :=
  (a.w ++ a.r).any fun m => b.holds m && (!a.write || a.w.contains m) && (!b.write || b.w.contains m)

/-- write-once publication: the field is written only while it is still nil, under its mutex, and
    every unlocked read comes after the reader has seen it non-nil inside a locked region (side
    conditions checked on the AST by the extractor, see `Generated.clientStreamWrittenOnlyWhenNil`).
    Such a read is ordered after the single write by the mutex and cannot race with it. -/
def onceExempt (once : List String) (a b : Access) : Bool :=
  once.contains a.field && ((a.write && !b.write && !a.w.isEmpty) || (b.write && !a.write && !b.w.isEmpty))

def pairOK (once : List String) (a b : Access) : Bool :=
  !(conflicting a b && mayRunConcurrently a b) || (a.atomic && b.atomic) || commonLock a b || onceExempt once a b

/-- the lockset obligation: every conflicting pair that may run concurrently is both atomic, or
    ordered by a common mutex, or a write-once publication -/
def locksetOK (once : List String) (accs : List Access) : Bool := accs.all fun a => accs.all fun b => pairOK once a b

/-- the offending pairs (for the report) -/
def violations (once : List String) (accs : List Access) : List (Access × Access) :=
  accs.flatMap fun a => (accs.filter fun b => !pairOK once a b && a.pos ≤ b.pos).map fun b => (a, b)

/-! ### lock acquisition discipline (C06: no self-deadlock, no lock-order cycle) -/

/-- a `Lock()` / `RLock()` call site with every mutex that may be held when it is reached
    (locally, or by some caller on some call path) -/
structure Acquisition where
  fn : String
  pos : String
  mu : String
  heldBefore : List String
  deriving Repr, DecidableEq

/-- no call path acquires a mutex it may already hold (Go mutexes are not re-entrant) -/
def noSelfAcquire (l : List Acquisition) : Bool := l.all fun a => !a.heldBefore.contains a.mu

def orderEdges (l : List Acquisition) : List (String × String) :=
  (l.flatMap fun a => a.heldBefore.map fun h => (h, a.mu)).eraseDups

/-- one round of transitive closure -/
def closeStep (es : List (String × String)) : List (String × String) :=
  (es ++ es.flatMap fun (p : String × String) => (es.filter fun (q : String × String) => q.1 == p.2).map fun (q : String × String) => (p.1, q.2)).eraseDups

/-- the "held while acquiring" relation has no cycle (6 mutex classes: 6 rounds suffice) -/
def orderAcyclic (l : List Acquisition) : Bool :=
  let es := closeStep (closeStep (closeStep (closeStep (closeStep (closeStep (orderEdges l))))))
  es.all fun (p : String × String) => p.1 != p.2

/-- the relation is transitively closed -/
def transClosed (es : List (String × String)) : Bool :=
  es.all fun (p : String × String) => es.all fun (q : String × String) => !(q.1 == p.2) || es.contains (p.1, q.2)

def closure6 (l : List Acquisition) : List (String × String) :=
  closeStep (closeStep (closeStep (closeStep (closeStep (closeStep (orderEdges l))))))

/-- certificate form of `orderAcyclic`: the computed relation contains every "held while acquiring"
    edge, is transitively closed and irreflexive (this is what `no_wait_cycle` needs) -/
def orderCertified (l : List Acquisition) : Bool :=
  transClosed (closure6 l) && (closure6 l).all fun (p : String × String) => p.1 != p.2

end GcpVerif.Sync
