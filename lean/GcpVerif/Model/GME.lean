/-
Model of GCPMultiEndpoint (gcp_multiendpoint.go, after fixes F15 / F16).  Serves C15, C16.
Reuses the MultiEndpoint model (every MultiEndpoint here has no recovery timeout; a switching delay,
if any, is one that does not run out during a test: the harness cannot virtualise the clock of another
package; C13/C14 cover timers).
-/
import GcpVerif.Model.ME
namespace GcpVerif.GME

structure St where
  mes : List (String × ME.St)
  pools : List String                  -- endpoints with an open, monitored pool
  dials : List (String × Nat)          -- how often each endpoint was dialled by successful calls
  closed : List String                 -- pools closed so far (history)
  defaultName : String
  alive : Bool                         -- constructed and not closed
  deriving Repr

def init : St := { mes := [], pools := [], dials := [], closed := [], defaultName := "", alive := false }

/-- one entry of GCPMultiEndpointOptions.MultiEndpoints; `none` = nil options pointer -/
abbrev Opts := List (String × Option (List String))

def findME (s : St) (name : String) : Option ME.St := (s.mes.find? fun p => p.1 == name).map (·.2)

def validEndpoints (opts : Opts) : List String :=
  (opts.map fun p => p.2.getD []).flatten.eraseDups

def optsValid (default : String) (opts : Opts) : Bool :=
  (opts.any fun p => p.1 == default) &&
  opts.all fun p => match p.2 with | some l => !l.isEmpty | none => false

def bumpDial (d : List (String × Nat)) (e : String) : List (String × Nat) :=
  if d.any (fun p => p.1 == e) then d.map fun p => if p.1 == e then (e, p.2 + 1) else p else d ++ [(e, 1)]

/-- `me.SetEndpointAvailability(e, avail)` on every MultiEndpoint -/
def notifyAll (s : St) (e : String) (avail : Bool) : St :=
  { s with mes := s.mes.map fun p => (p.1, ME.opSetAvail p.2 e avail) }

/-- a MultiEndpoint is told about its own endpoints, in the order of its list (F34: with a switching
    delay the first available endpoint it hears of becomes current at once, a better one only later) -/
def tellOwn (r : String → Bool) (l : List String) (me : ME.St) : ME.St :=
  l.foldl (fun m e => ME.opSetAvail m e (r e)) me

/-- one entry of the options: the MultiEndpoint of that name re-configured, or a new one (with the
    switching delay `delay`; the harness runs every MultiEndpoint without recovery timeout) -/
def configure (s : St) (delay : Int) (p : String × Option (List String)) : Option (String × ME.St) :=
  match p.2 with
  | none => none
  | some l =>
    match findME s p.1 with
    | some me => some (p.1, (ME.step me (.setEndpoints l)).1)
    | none => (ME.init 0 delay l).map fun me => (p.1, me)

/-- UpdateMultiEndpoints; `connReady e` is what `conn.GetState() == Ready` gives for a pool at the
    end of the call. `false` in the Bool result = an error was returned. -/
def update (s : St) (default : String) (opts : Opts) (dialFail : List String) (connReady : String → Bool)
    (delay : Int := 0) : St × Bool :=
  if !optsValid default opts then (s, false)
  else
    let valid := validEndpoints opts
    let missing := valid.filter fun e => !s.pools.contains e
    if missing.any fun e => dialFail.contains e then (s, false)
    else
      let pools := s.pools ++ missing
      let dials := missing.foldl bumpDial s.dials
      -- update existing MultiEndpoints, create new ones (in the order of the options); "Trigger status
      -- update": every MultiEndpoint is told the state of the pools of its own endpoints, in list order
      let mes : List (String × ME.St) := opts.filterMap fun p =>
        (configure s delay p).map fun q => (q.1, tellOwn connReady (p.2.getD []) q.2)
      let obsolete := pools.filter fun e => !valid.contains e
      let pools := pools.filter fun e => valid.contains e
      ({ s with mes := mes, pools := pools, dials := dials, closed := s.closed ++ obsolete,
                defaultName := default, alive := true }, true)

/-- the MultiEndpoint named in the call's context, or the default one for no / an unknown name -/
def pickME (s : St) (name : Option String) : Option ME.St :=
  match name.bind (findME s) with
  | some me => some me
  | none => findME s s.defaultName

/-- pickConn: the endpoint whose pool serves the RPC; `none` = would dereference a missing pool -/
def rpc (s : St) (name : Option String) : Option String :=
  match pickME s name with
  | some me => if s.pools.contains me.current then some me.current else none
  | none => none

def close (s : St) : St := { s with closed := s.closed ++ s.pools, pools := [], alive := false }

end GcpVerif.GME
