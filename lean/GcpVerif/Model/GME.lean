/-
Model of GCPMultiEndpoint (gcp_multiendpoint.go, after fixes F15 / F16).  Serves C15, C16.
Reuses the MultiEndpoint model (every MultiEndpoint here has no recovery timeout and no switching
delay: the harness cannot virtualise the clock of another package; C13/C14 cover timers).
-/
import GcpVerif.Model.ME
namespace GcpVerif.GME

structure St where
  mes : List (String × ME.St)
  pools : List String                  -- endpoints with an open, monitored pool
  dials : List (String × Nat)          -- how often each endpoint was dialled by successful calls
  closed : List String                 -- pools closed so far (history)
  defaultName : String
  alive : Bool                         -- constructed and not closed
  deriving Repr

def init : St := { mes := [], pools := [], dials := [], closed := [], defaultName := "", alive := false }

/-- one entry of GCPMultiEndpointOptions.MultiEndpoints; `none` = nil options pointer -/
abbrev Opts := List (String × Option (List String))

def findME (s : St) (name : String) : Option ME.St := (s.mes.find? fun p => p.1 == name).map (·.2)

def validEndpoints (opts : Opts) : List String :=
  (opts.map fun p => p.2.getD []).flatten.eraseDups

def optsValid (default : String) (opts : Opts) : Bool :=
  (opts.any fun p => p.1 == default) &&
  opts.all fun p => match p.2 with | some l => !l.isEmpty | none => false

def bumpDial (d : List (String × Nat)) (e : String) : List (String × Nat) :=
  if d.any (fun p => p.1 == e) then d.map fun p => if p.1 == e then (e, p.2 + 1) else p else d ++ [(e, 1)]

/-- `me.SetEndpointAvailability(e, avail)` on every MultiEndpoint -/
def notifyAll (s : St) (e : String) (avail : Bool) : St :=
  { s with mes := s.mes.map fun p => (p.1, ME.opSetAvail p.2 e avail) }

/-- UpdateMultiEndpoints; `connReady e` is what `conn.GetState() == Ready` gives for a pool at the
    end of the call; `syncOrder` resolves the map iteration order of the final status update.
    `false` in the Bool result = an error was returned. -/
def update (s : St) (default : String) (opts : Opts) (dialFail : List String) (connReady : String → Bool)
    (syncOrder : List String := []) : St × Bool :=
  if !optsValid default opts then (s, false)
  else
    let valid := validEndpoints opts
    let missing := valid.filter fun e => !s.pools.contains e
    if missing.any fun e => dialFail.contains e then (s, false)
    else
      let pools := s.pools ++ missing
      let dials := missing.foldl bumpDial s.dials
      -- update existing MultiEndpoints, create new ones (in the order of the options)
      let mes : List (String × ME.St) := opts.filterMap fun p =>
        match p.2 with
        | none => none
        | some l =>
          match findME s p.1 with
          | some me => some (p.1, (ME.step me (.setEndpoints l)).1)
          | none => (ME.init 0 0 l).map fun me => (p.1, me)
      let obsolete := pools.filter fun e => !valid.contains e
      let pools := pools.filter fun e => valid.contains e
      let s : St := { s with mes := mes, pools := pools, dials := dials, closed := s.closed ++ obsolete,
                             defaultName := default, alive := true }
      -- "Trigger status update": `for e, mc := range gme.pools` — Go map order, an input of the model
      let order := if syncOrder.mergeSort (· ≤ ·) == pools.mergeSort (· ≤ ·) then syncOrder else pools
      (order.foldl (fun s e => notifyAll s e (connReady e)) s, true)

/-- the MultiEndpoint named in the call's context, or the default one for no / an unknown name -/
def pickME (s : St) (name : Option String) : Option ME.St :=
  match name.bind (findME s) with
  | some me => some me
  | none => findME s s.defaultName

/-- pickConn: the endpoint whose pool serves the RPC; `none` = would dereference a missing pool -/
def rpc (s : St) (name : Option String) : Option String :=
  match pickME s name with
  | some me => if s.pools.contains me.current then some me.current else none
  | none => none

def close (s : St) : St := { s with closed := s.closed ++ s.pools, pools := [], alive := false }

end GcpVerif.GME
