/-
Model of the stream interceptor (gcp_interceptor.go, `gcpClientStream`, after fix F13).  Serves C12.

A small-step system at the granularity of lock regions: every `cs.Lock() … cs.Unlock()` region,
and the region `cs.Lock() … cond.Wait()` (which releases the mutex atomically), is one step;
`cond.Broadcast()` is a step of its own; the streamer's outcome and the cancellation of the
context are moves of the environment. Any number of caller threads.
-/
namespace GcpVerif.Stream

abbrev Tid := Nat

inductive Call where
  | send (msg : Nat)
  | recv
  | header
  | closeSend
  deriving DecidableEq, Repr

/-- what a thread is doing -/
inductive Pc where
  | idle
  | owesBroadcast (c : Call) (err : Bool)   -- SendMsg / CloseSend between Unlock and Broadcast
  | delegating (c : Call)                  -- about to call the method on the underlying stream
  | waiting (c : Call)                     -- RecvMsg / Header inside cond.Wait
  | runnable (c : Call)                    -- woken, has to re-acquire the lock and re-check
  deriving DecidableEq, Repr

inductive Watcher where
  | notStarted | armed | done
  deriving DecidableEq, Repr

inductive Ret where
  | delegated (c : Call)      -- reached the underlying stream
  | createErr                 -- the stream creation error
  | ctxErr                    -- the call's context ended
  | blocked                   -- (not a return) the caller is now waiting
  | trailerNil | ctxOwn | ctxOfStream | trailerOfStream
  deriving DecidableEq, Repr

structure St where
  cancellable : Bool
  stream : Bool                         -- cs.ClientStream != nil
  initErr : Bool                        -- cs.initStreamErr != nil
  ctxDone : Bool
  watcher : Watcher
  pcs : Tid → Pc
  created : Nat                         -- successful streamer calls (history)
  attempts : List (Option Nat)          -- streamer calls with the request message they carried
  log : List (Tid × Call)               -- calls that reached the underlying stream, in order

def init (cancellable : Bool) : St :=
  { cancellable := cancellable, stream := false, initErr := false, ctxDone := false,
    watcher := .notStarted, pcs := fun _ => .idle, created := 0, attempts := [], log := [] }

def pcOf (s : St) (t : Tid) : Pc := s.pcs t

def setPc (s : St) (t : Tid) (pc : Pc) : St :=
  { s with pcs := fun x => if x = t then pc else s.pcs x }

/-- initStream(m) under the lock; `ok` is the streamer's outcome should it be called -/
def initStream (s : St) (m : Option Nat) (ok : Bool) : St × Bool :=
  if s.stream then (s, true)
  else
    let s := { s with attempts := s.attempts ++ [m] }
    if ok then ({ s with stream := true, created := s.created + 1, initErr := false }, true)   -- (fix F21) a stale error is cleared
    else ({ s with initErr := true }, false)

/-- the waitStream loop body under the lock: what the caller does next -/
def waitCheck (s : St) (t : Tid) (c : Call) : St × Option Ret :=
  let s := if s.watcher == .notStarted && s.cancellable then { s with watcher := .armed } else s
  if s.initErr || s.stream then
    if s.initErr then (setPc s t .idle, some .createErr)
    else (setPc s t (.delegating c), none)
  else if s.ctxDone then (setPc s t .idle, some .ctxErr)
  else (setPc s t (.waiting c), some .blocked)

def wakeAll (s : St) : St :=
  { s with pcs := fun x => match s.pcs x with | .waiting c => .runnable c | p => p }

inductive Step where
  | call (t : Tid) (c : Call) (streamerOk : Bool)   -- a thread that is idle enters a method
  | broadcast (t : Tid)                             -- a sender performs its Broadcast
  | delegate (t : Tid)                              -- the call reaches the underlying stream
  | recheck (t : Tid)                               -- a woken waiter re-acquires the lock
  | cancel                                          -- environment: the context ends
  | watcherFire                                     -- the watcher goroutine: Lock, Unlock, Broadcast
  | trailer | context                               -- non-blocking getters (any thread)
  deriving Repr

def step (s : St) : Step → St × Option Ret
  | .call t c ok =>
    if pcOf s t != .idle then (s, none)
    else match c with
      | .send m =>
        let (s, good) := initStream s (some m) ok
        (setPc s t (.owesBroadcast c (!good)), none)
      | .closeSend =>
        let (s, good) := initStream s none ok
        (setPc s t (.owesBroadcast c (!good)), none)
      | .recv => waitCheck s t c
      | .header => waitCheck s t c
  | .broadcast t =>
    match pcOf s t with
    | .owesBroadcast c err =>
      let s := wakeAll s
      if err then (setPc s t .idle, some .createErr) else (setPc s t (.delegating c), none)
    | _ => (s, none)
  | .delegate t =>
    match pcOf s t with
    | .delegating c => (setPc { s with log := s.log ++ [(t, c)] } t .idle, some (.delegated c))
    | _ => (s, none)
  | .recheck t =>
    match pcOf s t with
    | .runnable c => waitCheck s t c
    | _ => (s, none)
  | .cancel => if s.cancellable then ({ s with ctxDone := true }, none) else (s, none)
  | .watcherFire =>
    if s.watcher == .armed && s.ctxDone then (wakeAll { s with watcher := .done }, none) else (s, none)
  | .trailer => (s, some (if s.stream then .trailerOfStream else .trailerNil))
  | .context => (s, some (if s.stream then .ctxOfStream else .ctxOwn))

def run (s : St) (steps : List Step) : St := steps.foldl (fun s st => (step s st).1) s

end GcpVerif.Stream
