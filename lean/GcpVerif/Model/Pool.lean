/-
Model of the channel pool: grpcgcp/gcp_balancer.go + gcp_picker.go (after the `fix:` commits
F1–F9, F20 in /repo).  Serves C01–C09, C20.  Core Lean only.

Every definition transcribes the Go function named in its comment. Conventions (DESIGN §4):
* connections (`Sc`) are numbered in the order the fake ClientConn creates them; slots (`Slot`,
  Go: *subConnRef) are indices into the append-only `scRefList`;
* Go maps are association lists (first match wins, no duplicate keys by construction);
* where Go iterates a map and the order is observable (the ready list of a new picker), the order
  is an *input* of the step (`Op.scs … order`) reported by the harness; theorems quantify over it;
* time is an `Int` of nanoseconds; `time.Now()` is the virtual clock `now`;
* the three evaluator counters are `uint64` (wrap-around modelled), the round-robin cursor is
  `uint32`, the unresponsive window is computed in `uint32` exactly like the Go expression.
-/
namespace GcpVerif.Pool

abbrev Sc := Nat
abbrev Slot := Nat

inductive CState where
  | idle | connecting | ready | tf | shutdown
  deriving DecidableEq, Repr, Inhabited

/-! ### association lists -/

def lookup {α β : Type} [BEq α] (l : List (α × β)) (k : α) : Option β :=
  (l.find? fun p => p.1 == k).map (·.2)

def erase {α β : Type} [BEq α] (l : List (α × β)) (k : α) : List (α × β) :=
  l.filter fun p => !(p.1 == k)

/-- `m[k] = v` -/
def insert {α β : Type} [BEq α] (l : List (α × β)) (k : α) (v : β) : List (α × β) :=
  if (l.any fun p => p.1 == k) then l.map fun p => if p.1 == k then (k, v) else p
  else l ++ [(k, v)]

/-! ### configuration -/

structure Cfg where
  min : Nat
  max : Nat
  wm : Nat
  fb : Bool
  rr : Bool
  uc : Nat
  ums : Nat
  methods : Bool          -- false: the resolver gave no / an empty config (no method table)
  deriving DecidableEq, Repr, Inhabited

/-- initializeConfig: zero values become the defaults 1 / 4 / 100 -/
def effective (c : Cfg) : Cfg :=
  { c with min := if c.min == 0 then 1 else c.min,
           max := if c.max == 0 then 4 else c.max,
           wm := if c.wm == 0 then 100 else c.wm }

/-- what UpdateClientConnState receives as BalancerConfig -/
inductive CfgInput where
  | given (c : Cfg)
  | absent               -- nil BalancerConfig, or a GCPBalancerConfig without ApiConfig
  deriving Repr, Inhabited

def initialCfg : CfgInput → Cfg
  | .given c => effective c
  | .absent => effective { min := 0, max := 0, wm := 0, fb := false, rr := false, uc := 0, ums := 0, methods := false }

def Cfg.detection (c : Cfg) : Bool := c.uc > 0 && c.ums > 0

inductive Cmd where
  | bound | bind | unbind
  deriving DecidableEq, Repr, Inhabited

inductive Loc where
  | key | keys | bad
  deriving DecidableEq, Repr, Inhabited

/-- the fixed method table of the harness -/
def methodCfg (c : Cfg) (m : String) : Option (Cmd × Loc) :=
  if !c.methods then none
  else match m with
    | "bind" => some (.bind, .key)
    | "bound" => some (.bound, .key)
    | "unbind" => some (.unbind, .key)
    | "bindks" => some (.bind, .keys)
    | "boundks" => some (.bound, .keys)
    | "unbindks" => some (.unbind, .keys)
    | "boundbad" => some (.bound, .bad)
    | _ => none

structure Msg where
  key : String
  keys : List String
  deriving DecidableEq, Repr, Inhabited

/-- request / reply object as seen by getAffinityKeysFromMessage (C11 models the general case) -/
inductive Req where
  | msg (m : Msg)
  | bad                   -- nil, nil pointer, or a non-struct value
  deriving DecidableEq, Repr, Inhabited

/-- getAffinityKeysFromMessage for the harness's message type; `none` = error -/
def extract : Loc → Req → Option (List String)
  | .key, .msg m => some [m.key]
  | .keys, .msg m => some m.keys
  | .bad, _ => none
  | _, .bad => none

inductive CtxKind where
  | gcp            -- unary interceptor: request and reply objects
  | gcpNoReply     -- stream interceptor: request only
  | none           -- no interceptor context
  deriving DecidableEq, Repr, Inhabited

inductive ErrKind where
  | nil | other | deClient | deServer
  deriving DecidableEq, Repr, Inhabited

/-! ### state -/

structure RefSt where
  subConn : Sc
  affinityCnt : Int
  streamsCnt : Int
  lastResp : Int
  deCalls : Nat
  refreshing : Bool
  refreshCnt : Nat
  deriving DecidableEq, Repr, Inhabited

/-- the deadline-exceeded counter is a uint32 that stops at its largest value (F38: it used to wrap to 0) -/
def satInc (n : Nat) : Nat := if n < 4294967295 then n + 1 else n

inductive Picker where
  | errTF
  | errNoSc
  | gcp (ready : List Slot)
  deriving DecidableEq, Repr, Inhabited

/-- a placed call whose Done callback has not run -/
structure Call where
  id : Nat
  slot : Slot
  cmd : Cmd
  loc : Loc
  boundKey : String
  ctx : CtxKind
  dl : Option Int
  started : Int
  deriving DecidableEq, Repr, Inhabited

/-- a round-robin BIND pick blocked in getSubConnRoundRobin -/
structure Waiter where
  id : Nat
  slot : Slot
  loc : Loc
  ctx : CtxKind
  dl : Option Int
  deriving DecidableEq, Repr, Inhabited

structure St where
  cfgIn : CfgInput
  cfg : Option Cfg                       -- gb.cfg (nil until the first resolver update)
  addrs : Nat                            -- gb.addrs (version; 0 = empty list)
  nReady : Nat                           -- csEvltr (uint64)
  nConn : Nat
  nTF : Nat
  aggr : CState                          -- gb.state (zero value: idle)
  affinity : List (String × Sc)
  fallback : List (String × Sc)
  scStates : List (Sc × CState)
  scRefs : List (Sc × Slot)
  refs : List RefSt                      -- scRefList
  rr : Nat                               -- rrRefId (uint64 since F32)
  refreshingMap : List (Sc × Slot)
  picker : Picker                        -- gb.picker
  -- environment: the fake ClientConn, the clock, calls in flight
  nextSc : Nat
  failN : Nat
  scAddrs : List (Sc × Nat)
  removed : List Sc
  published : List (CState × Picker)
  now : Int
  calls : List Call
  waiters : List Waiter
  /-- picks stopped between the pool-size check and `newSubConn` (call, picker used); each holds its
      picker's mutex -/
  held : List (Nat × Nat) := []
  deriving Repr, Inhabited

def init (ci : CfgInput) : St :=
  { cfgIn := ci, cfg := none, addrs := 0, nReady := 0, nConn := 0, nTF := 0, aggr := .idle,
    affinity := [], fallback := [], scStates := [], scRefs := [], refs := [], rr := 2^64 - 1,
    refreshingMap := [], picker := .errNoSc, nextSc := 0, failN := 0, scAddrs := [], removed := [],
    published := [], now := 0, calls := [], waiters := [], held := [] }

inductive Event where
  | newSc (sc : Sc) (a : Nat)
  | newFail
  | connect (sc : Sc)
  | upd (sc : Sc) (a : Nat)
  | remove (sc : Sc)
  | state (s : CState) (idx : Nat) (p : Picker)
  | res (r : String)                    -- ok | nosc | tf | keyerr | waiting | bad-op | PANIC
  | placed (sc : Sc)
  | woke (call : Nat) (sc : Sc)
  deriving DecidableEq, Repr, Inhabited

inductive Op where
  | ccs (ver : Nat)
  | reserr
  | scs (sc : Sc) (st : CState) (order : List Slot)
  | factory (n : Nat)
  | adv (ns : Nat)
  | pick (call : Nat) (picker : Nat) (m : String) (ctx : CtxKind) (dl : Option Int) (req : Req)
  | ctxdone (call : Nat)
  | done (call : Nat) (err : ErrKind) (reply : Msg)
  /-- a pick that the scheduler stops right before `newSubConn` if it gets there (otherwise an ordinary pick) -/
  | pickHold (call : Nat) (picker : Nat) (m : String) (ctx : CtxKind) (dl : Option Int) (req : Req)
  /-- … and lets continue later -/
  | resume (call : Nat)
  deriving Repr, Inhabited

/-! ### helpers on slots -/

def getRef (s : St) (slot : Slot) : Option RefSt := s.refs[slot]?

def modRef (s : St) (slot : Slot) (f : RefSt → RefSt) : St :=
  { s with refs := s.refs.modify slot f }

def stateOf (s : St) (sc : Sc) : Option CState := lookup s.scStates sc

/-- `gb.scStates[sc] == connectivity.Ready` (a missing key reads as Idle) -/
def isReadySc (s : St) (sc : Sc) : Bool := stateOf s sc == some .ready

def slotReady (s : St) (slot : Slot) : Bool :=
  match getRef s slot with
  | some r => isReadySc s r.subConn
  | none => false

def streamsOf (s : St) (slot : Slot) : Int :=
  match getRef s slot with
  | some r => r.streamsCnt
  | none => 0

/-! ### addSubConn / newSubConn / refresh -/

/-- cc.NewSubConn on the fake ClientConn (fails for an empty address list, like gRPC) -/
def ccNewSubConn (s : St) : St × Option Sc × List Event :=
  if s.addrs == 0 then (s, none, [.newFail])
  else if s.failN > 0 then ({ s with failN := s.failN - 1 }, none, [.newFail])
  else
    ({ s with nextSc := s.nextSc + 1, scAddrs := insert s.scAddrs s.nextSc s.addrs },
      some s.nextSc, [.newSc s.nextSc s.addrs])

/-- addSubConn; the Bool is its result (false: the factory failed) -/
def addSubConn (s : St) : St × Bool × List Event :=
  match ccNewSubConn s with
  | (s, none, ev) => (s, false, ev)
  | (s, some sc, ev) =>
    let ref : RefSt := { subConn := sc, affinityCnt := 0, streamsCnt := 0, lastResp := s.now,
                         deCalls := 0, refreshing := false, refreshCnt := 0 }
    ({ s with scRefs := insert s.scRefs sc s.refs.length, scStates := insert s.scStates sc .idle,
              refs := s.refs ++ [ref] }, true, ev ++ [.connect sc])

/-- a READY channel of the pool with room below the stream low-watermark (F37: the picker judged the load
    on its own list of READY channels; one that became READY since then has capacity) -/
def readyBelowWm (s : St) : Bool :=
  match s.cfg with
  | some c => s.refs.any fun r => lookup s.scStates r.subConn == some .ready && decide (r.streamsCnt < (c.wm : Int))
  | none => false

/-- newSubConn: only if no connection is Connecting or Idle, and no READY channel has room -/
def newSubConn (s : St) : St × List Event :=
  if s.scStates.any (fun p => p.2 == .connecting || p.2 == .idle) || readyBelowWm s then (s, [])
  else let (s, _, ev) := addSubConn s; (s, ev)

/-- enforceMinSize (stops at the first factory failure; at most `fuel = min` iterations are needed) -/
def enforceMinSize (s : St) (min : Nat) : Nat → St × List Event
  | 0 => (s, [])
  | fuel + 1 =>
    if s.scRefs.length < min then
      match addSubConn s with
      | (s, true, ev) => let (s, ev') := enforceMinSize s min fuel; (s, ev ++ ev')
      | (s, false, ev) => (s, ev)
    else (s, [])

/-- refresh(ref) -/
def refresh (s : St) (slot : Slot) : St × List Event :=
  match getRef s slot with
  | none => (s, [])
  | some r =>
    if r.refreshing then (s, [])
    else
      let s := modRef s slot fun r => { r with refreshing := true }
      match ccNewSubConn s with
      | (s, none, ev) => (modRef s slot fun r => { r with refreshing := false }, ev)
      | (s, some sc, ev) =>
        ({ s with refreshingMap := insert s.refreshingMap sc slot }, ev ++ [.connect sc])

/-! ### UpdateClientConnState -/

def sortedKeys (l : List (Sc × Slot)) : List Sc := (l.map (·.1)).mergeSort (· ≤ ·)

/-- `sc.UpdateAddresses(addrs); sc.Connect()` for each listed connection -/
def updateAll (s : St) (scs : List Sc) : St × List Event :=
  scs.foldl (fun (acc : St × List Event) sc =>
    ({ acc.1 with scAddrs := insert acc.1.scAddrs sc acc.1.addrs }, acc.2 ++ [.upd sc acc.1.addrs, .connect sc]))
    (s, [])

/-- `if gb.cfg == nil { initializeConfig }` (enforceMinSize included) -/
def ccsConfigure (s : St) : St × List Event :=
  match s.cfg with
  | some _ => (s, [])
  | none =>
    let c := initialCfg s.cfgIn
    enforceMinSize { s with cfg := some c } c.min c.min

/-- the connections that are told the new address list: replacements first, then (unless the pool
    is empty) the pool; canonical order (the harness sorts consecutive upd/connect pairs by id) -/
def ccsTargets (s : St) : List Sc :=
  if s.scRefs.isEmpty then sortedKeys s.refreshingMap
  else (sortedKeys s.refreshingMap ++ sortedKeys s.scRefs).mergeSort (· ≤ ·)

def opCcs (s : St) (ver : Nat) : St × List Event :=
  let (s, ev0) := ccsConfigure { s with addrs := ver }
  let (s, ev1) := updateAll s (ccsTargets s)
  if s.scRefs.isEmpty then
    -- (re-)create the pool up to its minimum size (F26: a first update without addresses, whose attempts
    -- all failed, must not leave the pool at one channel for ever)
    let min := match s.cfg with | some c => c.min | none => 1
    let (s, ev2) := enforceMinSize s min min
    (s, ev0 ++ ev1 ++ ev2 ++ [.res "ok"])
  else (s, ev0 ++ ev1 ++ [.res "ok"])

/-! ### UpdateSubConnState -/

/-- uint64 decrement: 0 wraps to 2^64-1 (the hazard C04 is about) -/
def dec64 (n : Nat) : Nat := if n == 0 then 2^64 - 1 else n - 1
/-- uint64 increment; the wrap at 2^64 live connections is not modelled -/
def inc64 (n : Nat) : Nat := n + 1

/-- one counter of the connectivityStateEvaluator -/
def updCounter (s : St) (st : CState) (f : Nat → Nat) : St :=
  match st with
  | .ready => { s with nReady := f s.nReady }
  | .connecting => { s with nConn := f s.nConn }
  | .tf => { s with nTF := f s.nTF }
  | _ => s

/-- connectivityStateEvaluator.recordTransition (counters are uint64) -/
def recordTransition (s : St) (old new : CState) : St :=
  let s := updCounter (updCounter s old dec64) new inc64
  { s with aggr := if s.nReady > 0 then .ready else if s.nConn > 0 then .connecting else .tf }

def readySlots (s : St) : List Slot :=
  (s.scStates.filter fun p => p.2 == .ready).filterMap fun p => lookup s.scRefs p.1

/-- regeneratePicker; `order` resolves the map iteration order of the ready list -/
def regeneratePicker (s : St) (order : List Slot) : St :=
  if s.aggr == .tf then { s with picker := .errTF }
  else
    let mine := (readySlots s).mergeSort (· ≤ ·)
    let l := if order.mergeSort (· ≤ ·) == mine then order else mine
    { s with picker := .gcp l }

def repoint (l : List (String × Sc)) (old new : Sc) : List (String × Sc) :=
  l.map fun p => if p.2 == old then (p.1, new) else p

/-- the swap that concludes a refresh -/
def swap (s : St) (sc : Sc) (slot : Slot) : St × List Event :=
  match getRef s slot with
  | none => (s, [])
  | some r =>
    let oldSc := r.subConn
    let oldState := (stateOf s oldSc).getD .idle       -- Go map read of a missing key: Idle
    let s := { s with scStates := insert (erase s.scStates oldSc) sc oldState,
                      refreshingMap := erase s.refreshingMap sc,
                      scRefs := insert (erase s.scRefs oldSc) sc slot }
    let s := modRef s slot fun r =>
      { r with subConn := sc, deCalls := 0, lastResp := s.now, refreshing := false, refreshCnt := r.refreshCnt + 1 }
    ({ s with affinity := repoint s.affinity oldSc sc, fallback := repoint s.fallback oldSc sc,
              removed := s.removed ++ [oldSc] }, [.remove oldSc])

/-- the replacement-connection prologue of UpdateSubConnState: `none` = report ignored -/
def scsPrologue (s : St) (sc : Sc) (st : CState) : Option (St × List Event) :=
  match lookup s.refreshingMap sc with
  | some slot => if st != .ready then none else some (swap s sc slot)
  | none => some (s, [])

/-- record the new state of a pool connection: tables, Idle → Connect, Shutdown → forget -/
def recordState (s : St) (sc : Sc) (st : CState) : St × List Event :=
  let s := { s with scStates := insert s.scStates sc st }
  match st with
  | .idle => (s, [.connect sc])
  | .shutdown => ({ s with scRefs := erase s.scRefs sc, scStates := erase s.scStates sc }, [])
  | _ => (s, [])

/-- the two fallback clean-ups -/
def cleanFallback (s : St) (sc : Sc) (oldS st : CState) : St :=
  let s := if oldS == .ready && st != .ready then
             { s with fallback := s.fallback.filter fun p => !(p.2 == sc) } else s
  if oldS != .ready && st == .ready then
    { s with fallback := s.fallback.filter fun p => !(lookup s.affinity p.1 == some sc) } else s

/-- regenerate and publish when READY-ness of the connection or TF-ness of the aggregate changed -/
def maybePublish (s : St) (oldS st oldAggr : CState) (order : List Slot) : St × List Event :=
  if ((st == .ready) != (oldS == .ready)) || ((s.aggr == .tf) != (oldAggr == .tf)) then
    let s := regeneratePicker s order
    let idx := s.published.length
    ({ s with published := s.published ++ [(s.aggr, s.picker)] }, [.state s.aggr idx s.picker])
  else (s, [])

def opScs (s : St) (sc : Sc) (st : CState) (order : List Slot) : St × List Event :=
  match scsPrologue s sc st with
  | none =>                                             -- replacement not ready yet: ignored, but kept connecting
    (s, (if st == .idle then [.connect sc] else []) ++ [.res "ok"])
  | some (s, ev0) =>
    match stateOf s sc with
    | none => (s, ev0 ++ [.res "ok"])                   -- unknown / removed connection
    | some oldS =>
      let (s, ev1) := recordState s sc st
      let s := cleanFallback s sc oldS st
      let oldAggr := s.aggr
      let s := recordTransition s oldS st
      let (s, ev2) := maybePublish s oldS st oldAggr order
      (s, ev0 ++ ev1 ++ ev2 ++ [.res "ok"])

/-! ### Pick -/

/-- the first slot of `l` with the fewest active streams (leastBusyReady / the scan of
    getLeastBusySubConnRef) -/
def leastBusy (s : St) : List Slot → Option Slot
  | [] => none
  | x :: xs =>
    match leastBusy s xs with
    | none => some x
    | some y => if streamsOf s y < streamsOf s x then some y else some x

/-- getLeastBusySubConnRef on the ready list `l` of the picker used -/
def getLeastBusy (s : St) (c : Cfg) (l : List Slot) : St × Option Slot × List Event :=
  match leastBusy s l with
  | none => (s, none, [])                               -- unreachable: Pick checks len(scRefs) > 0
  | some m =>
    if streamsOf s m < c.wm then (s, some m, [])
    else if c.max == 0 || s.scRefs.length < c.max then
      let (s, ev) := newSubConn s
      (s, none, ev)
    else (s, some m, [])

/-- getReadySubConnRef: (slot?, key known?) -/
def getReadySubConnRef (s : St) (c : Cfg) (key : String) : St × Option Slot × Bool :=
  match lookup s.affinity key with
  | none => (s, none, false)
  | some sc =>
    if !isReadySc s sc then
      if c.fb then
        match lookup s.fallback key with
        | some sc' => (s, lookup s.scRefs sc', true)
        | none =>
          match s.picker with
          | .gcp l =>
            match leastBusy s l with
            | some slot =>
              match getRef s slot with
              | some r => ({ s with fallback := insert s.fallback key r.subConn }, some slot, true)
              | none => (s, none, true)
            | none => (s, none, true)
          | _ => (s, none, true)
      else (s, none, true)
    else (s, lookup s.scRefs sc, true)

def place (s : St) (call : Nat) (slot : Slot) (cmd : Cmd) (loc : Loc) (key : String) (ctx : CtxKind)
    (dl : Option Int) : St × Option Sc :=
  match getRef s slot with
  | none => (s, none)
  | some r =>
    let s := modRef s slot fun r => { r with streamsCnt := r.streamsCnt + 1 }
    ({ s with calls := s.calls ++ [{ id := call, slot := slot, cmd := cmd, loc := loc, boundKey := key,
                                      ctx := ctx, dl := dl, started := s.now }] }, some r.subConn)

def callIdUsed (s : St) (call : Nat) : Bool :=
  s.calls.any (fun c => c.id == call) || s.waiters.any (fun w => w.id == call) || s.held.any (fun h => h.1 == call)

/-- a stopped pick holds the balancer's pick mutex (`pickMu`, F31): no other pick can run, on whichever
    picker (before F31 the mutex belonged to the picker and only picks on the same picker waited) -/
def pickerBusy (s : St) (_pn : Nat) : Bool := !s.held.isEmpty

/-- method table lookup + affinity key of a BOUND / UNBIND call: (cmd, locator, key or error) -/
def resolveCall (c : Cfg) (m : String) (ctx : CtxKind) (req : Req) : Cmd × Loc × Option String :=
  match methodCfg c m with
  | some (cmd, loc) =>
    if ctx != .none && (cmd == .bound || cmd == .unbind) then
      match extract loc req with
      | none => (cmd, loc, none)
      | some [] => (cmd, loc, none)
      | some (k :: _) => (cmd, loc, some k)
    else (cmd, loc, some "")
  | none => (.bound, .key, some "")

/-- getSubConnRef: keyed lookup first, otherwise (or for an unknown key) the least-loaded path -/
def chooseSlot (s : St) (c : Cfg) (l : List Slot) (key : String) : St × Option Slot × List Event :=
  if key != "" then
    match getReadySubConnRef s c key with
    | (s, r, true) => (s, r, [])
    | (s, _, false) => getLeastBusy s c l
  else getLeastBusy s c l

/-- increment the stream count and hand the connection to gRPC, or report "no SubConn available" -/
def finishPick (s : St) (r : Option Slot) (ev : List Event) (call : Nat) (cmd : Cmd) (loc : Loc)
    (key : String) (ctx : CtxKind) (dl : Option Int) : St × List Event :=
  match r with
  | none => (s, ev ++ [.res "nosc"])
  | some slot =>
    match place s call slot cmd loc key ctx dl with
    | (s, some sc) => (s, ev ++ [.placed sc])
    | (s, none) => (s, ev ++ [.res "PANIC"])

/-- getSubConnRoundRobin + streamsIncr -/
def pickRR (s : St) (call : Nat) (loc : Loc) (ctx : CtxKind) (dl : Option Int) : St × List Event :=
  if s.refs.isEmpty then (s, [.res "PANIC"])            -- unreachable (modulus 0)
  else
    let rr := (s.rr + 1) % 2^64
    let slot := rr % s.refs.length
    let s := { s with rr := rr }
    if slotReady s slot then finishPick s (some slot) [] call .bind loc "" ctx dl
    else ({ s with waiters := s.waiters ++ [{ id := call, slot := slot, loc := loc, ctx := ctx, dl := dl }] },
          [.res "waiting"])

def opPick (s : St) (call pn : Nat) (m : String) (ctx : CtxKind) (dl : Option Int) (req : Req) :
    St × List Event :=
  if callIdUsed s call || pickerBusy s pn then (s, [.res "bad-op"])   -- unique call ids; pick mutex free
  else
  match s.published[pn]? with
  | none => (s, [.res "bad-op"])
  | some (_, .errTF) => (s, [.res "tf"])
  | some (_, .errNoSc) => (s, [.res "nosc"])
  | some (_, .gcp l) =>
    match s.cfg with
    | none => (s, [.res "PANIC"])                       -- unreachable: a picker implies a config
    | some c =>
      if l.isEmpty then (s, [.res "nosc"])
      else
        match resolveCall c m ctx req with
        | (_, _, none) => (s, [.res "keyerr"])
        | (cmd, loc, some key) =>
          if cmd == .bind && c.rr then pickRR s call loc ctx dl
          else
            let (s, r, ev) := chooseSlot s c l key
            finishPick s r ev call cmd loc key ctx dl

/-! ### completion callback -/

/-- unresponsiveWindow in nanoseconds: `ms * 2^cnt` milliseconds, saturating at MaxInt64 ns -/
def windowNs (c : Cfg) (refreshCnt : Nat) : Int :=
  let maxMs : Nat := (2^63 - 1) / 1000000
  if refreshCnt ≥ 63 || c.ums > maxMs / 2^refreshCnt then (2^63 - 1 : Int)
  else ((c.ums * 2^refreshCnt : Nat) : Int) * 1000000

/-- the completion counts as a response from the server -/
def isResponse (s : St) (err : ErrKind) (dl : Option Int) : Bool :=
  match err, dl with
  | .deClient, some d => d > s.now       -- dl.After(now)
  | _, _ => true

def detectUnresponsive (s : St) (c : Cfg) (call : Call) (err : ErrKind) : St × List Event :=
  if !c.detection then (s, [])
  else if isResponse s err call.dl then
    (modRef s call.slot fun r => { r with lastResp := s.now, deCalls := 0, refreshCnt := 0 }, [])
  else
    match getRef s call.slot with
    | none => (s, [])
    | some r =>
      if call.started < r.lastResp then (s, [])
      else
        let s := modRef s call.slot fun r => { r with deCalls := satInc r.deCalls }
        if satInc r.deCalls ≥ c.uc && r.lastResp < s.now - windowNs c r.refreshCnt then refresh s call.slot
        else (s, [])

/-- `if scRef := gb.scRefs[sc]; scRef != nil { scRef.affinityCnt += d }` -/
def bumpAffinity (s : St) (sc : Sc) (d : Int) : St :=
  match lookup s.scRefs sc with
  | some slot => modRef s slot fun r => { r with affinityCnt := r.affinityCnt + d }
  | none => s

/-- `if _, ok := gb.affinityMap[key]; !ok { gb.affinityMap[key] = sc }` -/
def addBinding (s : St) (key : String) (sc : Sc) : St :=
  match lookup s.affinity key with
  | some _ => s
  | none => { s with affinity := s.affinity ++ [(key, sc)] }

/-- bindSubConn -/
def bindSubConn (s : St) (key : String) (sc : Sc) : St := bumpAffinity (addBinding s key sc) sc 1

def dropBinding (s : St) (key : String) : St := { s with affinity := erase s.affinity key }

/-- unbindSubConn -/
def unbindSubConn (s : St) (key : String) : St :=
  match lookup s.affinity key with
  | none => s
  | some sc => dropBinding (bumpAffinity s sc (-1)) key

/-- the BIND / UNBIND post-processing of a successful call -/
def applyBindings (s : St) (call : Call) (reply : Msg) : St :=
  match call.cmd with
  | .bind =>
    if call.ctx == .none then s
    else
      let replyObj : Req := if call.ctx == .gcp then .msg reply else .bad
      match extract call.loc replyObj with
      | none => s
      | some keys =>
        -- `scRef.subConn` is read when the callback runs
        match getRef s call.slot with
        | none => s
        | some r => keys.foldl (fun s k => bindSubConn s k r.subConn) s
  | .unbind => unbindSubConn s call.boundKey
  | .bound => s

/-- `scRef.streamsDecr()` and forgetting the call -/
def completeCall (s : St) (call : Call) : St :=
  modRef { s with calls := s.calls.filter fun c => c.id != call.id } call.slot
    fun r => { r with streamsCnt := r.streamsCnt - 1 }

def opDone (s : St) (callId : Nat) (err : ErrKind) (reply : Msg) : St × List Event :=
  match s.calls.find? (fun c => c.id == callId) with
  | none => (s, [.res "bad-op"])
  | some call =>
    match s.cfg with
    | none => (s, [.res "PANIC"])
    | some c =>
      let s := completeCall s call
      let (s, ev) := detectUnresponsive s c call err
      if err != .nil then (s, ev ++ [.res "ok"])
      else (applyBindings s call reply, ev ++ [.res "ok"])

/-! ### waiting round-robin picks -/

def placeWaiter (s : St) (w : Waiter) : St × Option Sc :=
  place s w.id w.slot .bind w.loc "" w.ctx w.dl

/-- after every operation: each waiting pick whose slot's connection is READY returns -/
def wakeWaiters (s : St) : St × List Event :=
  s.waiters.foldl (fun (acc : St × List Event) w =>
    if slotReady acc.1 w.slot then
      match placeWaiter { acc.1 with waiters := acc.1.waiters.filter fun x => x.id != w.id } w with
      | (s, some sc) => (s, acc.2 ++ [.woke w.id sc])
      | (_, none) => acc
    else acc) (s, [])

def opCtxDone (s : St) (callId : Nat) : St × List Event :=
  match s.waiters.find? (fun w => w.id == callId) with
  | none => (s, [.res "bad-op"])
  | some w =>
    let s := { s with waiters := s.waiters.filter fun x => x.id != callId }
    match placeWaiter s w with
    | (s, some sc) => (s, [.placed sc])
    | (s, none) => (s, [.res "PANIC"])

/-! ### a pick stopped between the size check and `newSubConn` -/

/-- the pick reaches `p.gb.newSubConn()`: least-loaded path, every READY channel of the picker at the
    watermark, pool below maxSize (nothing has been written up to that point) -/
def wouldGrow (s : St) (pn : Nat) (m : String) (ctx : CtxKind) (req : Req) : Bool :=
  match s.published[pn]?, s.cfg with
  | some (_, .gcp l), some c =>
    !l.isEmpty &&
    (match resolveCall c m ctx req with
     | (cmd, _, some key) =>
       !(cmd == .bind && c.rr) && (key == "" || (lookup s.affinity key).isNone) &&
       (match leastBusy s l with
        | some mn => !(streamsOf s mn < c.wm) && (c.max == 0 || s.scRefs.length < c.max)
        | none => false)
     | _ => false)
  | _, _ => false

def opPickHold (s : St) (call pn : Nat) (m : String) (ctx : CtxKind) (dl : Option Int) (req : Req) :
    St × List Event :=
  if callIdUsed s call || pickerBusy s pn then (s, [.res "bad-op"])
  else if wouldGrow s pn m ctx req then ({ s with held := s.held ++ [(call, pn)] }, [.res "held"])
  else opPick s call pn m ctx dl req

/-- newSubConn as the stopped pick finally runs it: the pool size is looked at again under the lock -/
def resumeCore (s : St) : St × List Event :=
  match s.cfg with
  | none => (s, [.res "nosc"])                          -- unreachable: a stopped pick implies a config
  | some c =>
    if c.max == 0 || s.scRefs.length < c.max then
      ((newSubConn s).1, (newSubConn s).2 ++ [.res "nosc"])
    else (s, [.res "nosc"])

def opResume (s : St) (call : Nat) : St × List Event :=
  match s.held.find? (fun h => h.1 == call) with
  | none => (s, [.res "bad-op"])
  | some _ => resumeCore { s with held := s.held.filter fun h => h.1 != call }

/-! ### one step -/

def stepCore (s : St) : Op → St × List Event
  | .ccs ver => opCcs s ver
  | .reserr => (s, [.res "ok"])
  | .scs sc st order => opScs s sc st order
  | .factory n => ({ s with failN := n }, [.res "ok"])
  | .adv ns => ({ s with now := s.now + ns }, [.res "ok"])
  | .pick call pn m ctx dl req => opPick s call pn m ctx dl req
  | .ctxdone call => opCtxDone s call
  | .done call err reply => opDone s call err reply
  | .pickHold call pn m ctx dl req => opPickHold s call pn m ctx dl req
  | .resume call => opResume s call

def step (s : St) (op : Op) : St × List Event :=
  let (s, ev) := stepCore s op
  let (s, ev') := wakeWaiters s
  (s, ev ++ ev')

def run (s : St) (ops : List Op) : St := ops.foldl (fun s op => (step s op).1) s

end GcpVerif.Pool
