/-
Check-then-act on a flag shared by any number of threads (core Lean only).

`refresh(ref)` (gcp_balancer.go) tests `ref.refreshing` and sets it; `initStream` (gcp_interceptor.go)
tests `cs.ClientStream == nil` and assigns it.  The pool and stream models take each of these as one
atomic step; this file is the small-step justification: with test and set inside one lock region at
most one thread ever "wins" (creates the replacement connection / the underlying stream), with the
test outside the region two can.
-/
namespace GcpVerif.Tas

inductive Pc where
  | start | tested | won | lost
  deriving DecidableEq, Repr

structure St where
  flag : Bool
  pcs : List Pc
  deriving Repr

def init (n : Nat) : St := { flag := false, pcs := List.replicate n .start }

/-- thread `i` runs its whole test-and-set inside one lock region -/
def stepAtomic (s : St) (i : Nat) : St :=
  match s.pcs[i]? with
  | some .start => if s.flag then { s with pcs := s.pcs.set i .lost } else { flag := true, pcs := s.pcs.set i .won }
  | _ => s

/-- thread `i` tests in one region (or without the lock) and sets in another -/
def stepSplit (s : St) (i : Nat) : St :=
  match s.pcs[i]? with
  | some .start => if s.flag then { s with pcs := s.pcs.set i .lost } else { s with pcs := s.pcs.set i .tested }
  | some .tested => { flag := true, pcs := s.pcs.set i .won }
  | _ => s

def winners (s : St) : Nat := (s.pcs.filter (· == .won)).length

end GcpVerif.Tas
