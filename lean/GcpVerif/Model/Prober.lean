/-
Model of the Spanner prober helpers (spanner_prober/prober/proberlib.go, interceptors.go,
spanner_prober/main.go).  Serves C18.  Core Lean only.

* `backoff` is written once over an abstract rounded arithmetic (`Rounded`, a structure of laws —
  a parameter, not an axiom); `F53` is an executable round-to-nearest-even 53-bit dyadic arithmetic
  that is compared bit-for-bit with Go's float64 on every run.
* strings are Lean `String`s restricted to ASCII by the harness (Go strings are bytes).
-/
import GcpVerif.Model.KeyPath
namespace GcpVerif.Prober

/-! ### backoff over an abstract rounded arithmetic -/

structure Rounded where
  F : Type
  le : F → F → Prop
  decLe : ∀ a b, Decidable (le a b)
  ofInt : Int → F
  toInt : F → Int
  mul15 : F → F

instance (R : Rounded) (a b : R.F) : Decidable (R.le a b) := R.decLe a b

/-- `for backoff < max && retries > 0 { backoff = backoff * 1.5; retries-- }` -/
def loop (R : Rounded) (max : R.F) : R.F → Nat → R.F
  | x, 0 => x
  | x, n + 1 => if ¬ R.le max x then loop R max (R.mul15 x) n else x

/-- `backoff(baseDelay, maxDelay, retries)`; a negative retry count runs no iteration -/
def backoff (R : Rounded) (base max : Int) (retries : Int) : Int :=
  let m := R.ofInt max
  let b := loop R m (R.ofInt base) retries.toNat
  let b := if ¬ R.le b m then m else b          -- `if backoff > max { backoff = max }`
  R.toInt b

/-! ### an executable model of float64 for non-negative finite values: m * 2^e, m < 2^53 -/

structure F53 where
  m : Nat
  e : Int
  deriving Repr, DecidableEq

namespace F53

def log2 (n : Nat) : Nat := Nat.log2 n

/-- round m * 2^e to at most 53 significant bits, ties to even -/
def norm (m : Nat) (e : Int) : F53 :=
  if m < 2^53 then ⟨m, e⟩
  else
    let k := log2 m - 52            -- bits to drop
    let q := m / 2^k
    let r := m % 2^k
    let half := 2^(k-1)
    let q' := if r > half || (r == half && q % 2 == 1) then q + 1 else q
    if q' < 2^53 then ⟨q', e + k⟩ else ⟨q' / 2, e + k + 1⟩

def ofNat (n : Nat) : F53 := norm n 0

/-- compare a*2^ea with b*2^eb -/
def leQ (a : F53) (b : F53) : Bool :=
  let emin := min a.e b.e
  a.m * 2^((a.e - emin).toNat) ≤ b.m * 2^((b.e - emin).toNat)

def mul15 (a : F53) : F53 := norm (a.m * 3) (a.e - 1)

/-- truncate toward zero -/
def toNat (a : F53) : Nat :=
  if a.e ≥ 0 then a.m * 2^(a.e.toNat) else a.m / 2^((-a.e).toNat)

/-- round(a / b) for b ≠ 0 -/
def div (a b : F53) : F53 :=
  -- scale so that the integer quotient has at least 56 bits, keep a sticky bit
  let shift : Nat := 120
  let num : Nat := a.m * 2^shift
  let q : Nat := num / b.m
  let sticky : Nat := if num % b.m == 0 then 0 else 1
  norm (q * 2 + sticky) (a.e - b.e - (shift : Int) - 1)

/-- decode the bits of a non-negative finite float64 -/
def ofBits (bits : Nat) : Option F53 :=
  let sign : Nat := bits / 2^63
  let ex : Nat := (bits / 2^52) % 2048
  let frac : Nat := bits % 2^52
  if sign == 1 && !(ex == 0 && frac == 0) then none      -- negative
  else if ex == 2047 then none                            -- Inf / NaN
  else if ex == 0 then some ⟨frac, -1074⟩
  else some ⟨frac + 2^52, (ex : Int) - 1075⟩

end F53

/-- backoff on the executable float model (non-negative arguments) -/
def backoffF53 (base max : Nat) (retries : Int) : Nat :=
  let m := F53.ofNat max
  let rec go (x : F53) : Nat → F53
    | 0 => x
    | n + 1 => if !(F53.leQ m x) then go (F53.mul15 x) n else x
  let b := go (F53.ofNat base) retries.toNat
  let b := if !(F53.leQ b m) then m else b
  F53.toNat b

/-! ### GFE latency parsing -/

/-- `strconv.ParseInt(s, 10, 64)`: optional sign, one or more decimal digits, value in int64 range -/
def parseInt64 (s : String) : Option Int :=
  let cs := s.toList
  let (neg, ds) := match cs with
    | '-' :: r => (true, r)
    | '+' :: r => (false, r)
    | r => (false, r)
  if ds.isEmpty || !(ds.all Char.isDigit) then none
  else
    let n : Nat := ds.foldl (fun acc c => acc * 10 + (c.toNat - 48)) 0
    let v : Int := if neg then -(n : Int) else n
    if v < -(2^63 : Int) || v > (2^63 : Int) - 1 then none else some v

abbrev MD := List (String × List String)      -- metadata.MD (keys are lower-case)

def mdGet (md : MD) (k : String) : List String :=
  match md.find? (fun p => p.1 == k) with
  | some p => p.2
  | none => []

/-- int64 multiplication as Go performs it (two's complement wrap-around) -/
def wrap64 (v : Int) : Int := ((v + 2^63) % 2^64) - 2^63

/-- parseT4T7Latency: `none` = error; the duration in nanoseconds otherwise -/
def parseT4T7 (key pfx : String) (headers trailers : MD) : Option Int :=
  let st := if (mdGet headers key).length > 0 then some (mdGet headers key)
            else if (mdGet trailers key).length > 0 then some (mdGet trailers key) else none
  match st with
  | none => none
  | some entries =>
    match entries.find? (fun e => e.startsWith pfx) with
    | none => none
    | some e =>
      match parseInt64 (e.drop pfx.length).toString with
      | none => none
      | some ms => some (wrap64 (ms * 1000000))

/-- the duration the property asks for: the millisecond value of the first entry, exactly -/
def parseT4T7Exact (key pfx : String) (headers trailers : MD) : Option Int :=
  let st := if (mdGet headers key).length > 0 then some (mdGet headers key)
            else if (mdGet trailers key).length > 0 then some (mdGet trailers key) else none
  match st with
  | none => none
  | some entries =>
    match entries.find? (fun e => e.startsWith pfx) with
    | none => none
    | some e => (parseInt64 (e.drop pfx.length).toString).map (· * 1000000)

/-! ### flag validation and resource names -/

/-- the character class of a regex of the form `^[class]*$` (ranges a-z, literal characters);
    `none` if the regex has another form -/
def parseClass (re : String) : Option (Char → Bool) :=
  match re.toList with
  | '^' :: '[' :: rest =>
    let rec go : List Char → List (Char × Char) → Option (List (Char × Char))
      | [']', '*', '$'], acc => some acc
      | a :: '-' :: b :: r, acc => if b == ']' then go ('-' :: b :: r) ((a, a) :: acc) else go r ((a, b) :: acc)
      | a :: r, acc => if a == ']' then none else go r ((a, a) :: acc)
      | [], _ => none
    (go rest []).map fun ranges => fun c => ranges.any fun (lo, hi) => lo ≤ c && c ≤ hi
  | _ => none

def matchAll (cls : Char → Bool) (s : String) : Bool := s.toList.all cls

structure Flags where
  project : String
  opsProject : String
  instance_name : String
  database_name : String
  instanceConfig : String
  probeType : String
  numRows : Int
  payloadSize : Int
  qpsBits : Nat
  deriving Repr

/-- 0 < qps ≤ 1000 and the interval 1e9/qps fits a positive int64 -/
def qpsOk (bits : Nat) : Bool :=
  match F53.ofBits bits with
  | none => false
  | some q =>
    q.m != 0 && F53.leQ q (F53.ofNat 1000) &&
    !(F53.leQ (F53.ofNat (2^63)) (F53.div (F53.ofNat 1000000000) q))

/-- probeInterval(): `time.Duration(float64(time.Second) / qps)` for an accepted qps -/
def probeInterval (bits : Nat) : Option Nat :=
  (F53.ofBits bits).map fun q => F53.toNat (F53.div (F53.ofNat 1000000000) q)

/-- validateFlags: number of errors (the Go function returns a list) -/
def validateFlags (regexes : List (String × String)) (probeTypes : List String) (f : Flags) : Nat :=
  let re (name : String) : Option (Char → Bool) :=
    match regexes.find? (fun p => p.1 == name) with
    | some p => parseClass p.2
    | none => none
  let chk (name val : String) : Nat :=
    match re name with
    | some cls => if matchAll cls val then 0 else 1
    | none => 1
  (if qpsOk f.qpsBits then 0 else 1) + (if f.numRows ≤ 0 then 1 else 0) + (if f.payloadSize ≤ 0 then 1 else 0) +
  chk "project" f.project + chk "opsProject" f.opsProject + chk "instance_name" f.instance_name +
  chk "database_name" f.database_name + chk "instanceConfig" f.instanceConfig +
  (if probeTypes.contains f.probeType then 0 else 1)

def databaseURI (f : Flags) : String :=
  "projects/" ++ f.project ++ "/instances/" ++ f.instance_name ++ "/databases/" ++ f.database_name
def instanceURI (f : Flags) : String := "projects/" ++ f.project ++ "/instances/" ++ f.instance_name
def instanceConfigURI (f : Flags) : String := "projects/" ++ f.project ++ "/instanceConfigs/" ++ f.instanceConfig
def projectURI (f : Flags) : String := "projects/" ++ f.project

end GcpVerif.Prober
