/-
Mutex regions as atomic steps (the bridge between the lock facts extracted from the sources and the
step granularity of the pool model).

Goroutines run straight-line programs of `lock` / `unlock` / shared accesses / private steps over one
mutex.  The fine-grained semantics executes ONE instruction of one goroutine at a time and does not
make an access wait for the mutex: whether accesses are protected is a property of the programs
(`wf`: every access sits between a `lock` and the matching `unlock` — what the per-run obligation
`c02_counters_under_pick_mutex` establishes for the stream counters), not of the semantics.  The
coarse semantics executes a whole region `lock … unlock` as one step; it is the granularity of
`Model/Pool.lean`, whose steps are whole picks and whole completions.
-/
namespace GcpVerif.Atomic

inductive Instr (σ : Type) where
  | lock
  | unlock
  | tau                      -- private computation: does not touch the shared state
  | acc (f : σ → σ)          -- one access (read into a register of the state, or write)

abbrev Prog (σ : Type) := List (Instr σ)

/-- the lock discipline of one goroutine's program; the flag says whether it holds the mutex now -/
def wf {σ : Type} : Bool → Prog σ → Bool
  | h, [] => !h
  | false, .lock :: r => wf true r
  | true, .unlock :: r => wf false r
  | true, .acc _ :: r => wf true r
  | h, .tau :: r => wf h r
  | _, _ => false

def upd {σ : Type} (p : Nat → Prog σ) (t : Nat) (r : Prog σ) : Nat → Prog σ := fun u => if u = t then r else p u

/-- fine-grained configuration: shared state, who holds the mutex, what every goroutine has left -/
structure Cfg (σ : Type) where
  st : σ
  owner : Option Nat
  progs : Nat → Prog σ

/-- one instruction of goroutine `t`; `none`: not enabled (finished, or blocked on the mutex).
    An access is NOT made to wait for the mutex. -/
def fstep {σ : Type} (c : Cfg σ) (t : Nat) : Option (Cfg σ) :=
  match c.progs t with
  | [] => none
  | .lock :: r => if c.owner = none then some { c with owner := some t, progs := upd c.progs t r } else none
  | .unlock :: r => if c.owner = some t then some { c with owner := none, progs := upd c.progs t r } else none
  | .tau :: r => some { c with progs := upd c.progs t r }
  | .acc f :: r => some { c with st := f c.st, progs := upd c.progs t r }

def frun {σ : Type} (c : Cfg σ) : List Nat → Option (Cfg σ)
  | [] => some c
  | t :: ts => (fstep c t).bind fun c' => frun c' ts

/-- the rest of a region, run to its `unlock` -/
def runRegion {σ : Type} : σ → Prog σ → σ × Prog σ
  | s, [] => (s, [])
  | s, .unlock :: r => (s, r)
  | s, .acc f :: r => runRegion (f s) r
  | s, .tau :: r => runRegion s r
  | s, .lock :: r => (s, r)

structure CCfg (σ : Type) where
  st : σ
  progs : Nat → Prog σ

/-- coarse step of goroutine `t`: a private step, or a whole region at once (an access outside any
    region — excluded by `wf` — would be a step of its own) -/
def cstep {σ : Type} (c : CCfg σ) (t : Nat) : Option (CCfg σ) :=
  match c.progs t with
  | [] => none
  | .tau :: r => some { c with progs := upd c.progs t r }
  | .lock :: r => some { st := (runRegion c.st r).1, progs := upd c.progs t (runRegion c.st r).2 }
  | .acc f :: r => some { st := f c.st, progs := upd c.progs t r }
  | .unlock :: _ => none

def crun {σ : Type} (c : CCfg σ) : List Nat → Option (CCfg σ)
  | [] => some c
  | t :: ts => (cstep c t).bind fun c' => crun c' ts

/-- the coarse configuration a fine one stands for: the region in progress counted as completed -/
def abs {σ : Type} (c : Cfg σ) : CCfg σ :=
  match c.owner with
  | none => { st := c.st, progs := c.progs }
  | some t => { st := (runRegion c.st (c.progs t)).1, progs := upd c.progs t (runRegion c.st (c.progs t)).2 }

/-- every goroutine keeps the discipline, and holds the mutex exactly when it is the owner -/
def Inv {σ : Type} (c : Cfg σ) : Prop := ∀ t, wf (c.owner == some t) (c.progs t) = true

end GcpVerif.Atomic
