/-
Model of the channel-pool configuration (grpc_gcp.proto, gcp_balancer.go: ParseConfig,
initializeConfig).  Serves C17.  Core Lean only.

protojson is modelled at the level of a JSON syntax tree, for exactly this schema: field names
(JSON name or proto name), accepted value shapes, unknown / duplicate keys. JSON *text* parsing is
not modelled (the driver uses Lean's JSON parser to obtain the tree).
-/
namespace GcpVerif.Config

structure ChannelPool where
  maxSize : Nat := 0
  idleTimeout : Nat := 0
  wm : Nat := 0
  minSize : Nat := 0
  fallback : Bool := false
  udMs : Nat := 0
  uCalls : Nat := 0
  strategy : Int := 0
  deriving DecidableEq, Repr, Inhabited

structure Affinity where
  command : Int := 0
  key : String := ""
  deriving DecidableEq, Repr, Inhabited

structure Method where
  names : List String := []
  affinity : Option Affinity := none
  deriving DecidableEq, Repr, Inhabited

structure ApiConfig where
  channelPool : Option ChannelPool := none
  methods : List Method := []
  deriving DecidableEq, Repr, Inhabited

/-! ### effective configuration (initializeConfig) -/

/-- defaults for an absent or zero minSize / maxSize / low-watermark; everything else is kept;
    the pool section always exists afterwards -/
def effective (dMin dMax dWm : Nat) (c : Option ApiConfig) : ApiConfig :=
  let c : ApiConfig := c.getD {}
  let cp : ChannelPool := c.channelPool.getD {}
  let cp' : ChannelPool :=
    { cp with minSize := if cp.minSize == 0 then dMin else cp.minSize,
              maxSize := if cp.maxSize == 0 then dMax else cp.maxSize,
              wm := if cp.wm == 0 then dWm else cp.wm }
  { c with channelPool := some cp' }

/-- the method table: `for each entry with names != nil && affinity != nil: for each name: mp[name] = affinity`
    (a later entry overwrites an earlier one) -/
def methodTable : List Method → String → Option Affinity
  | [], _ => none
  | m :: rest, name =>
    match methodTable rest name with
    | some a => some a            -- later entries win
    | none =>
      match m.affinity with
      | some a => if m.names.contains name then some a else none
      | none => none

/-- unresponsiveDetection flag -/
def detection (c : ApiConfig) : Bool :=
  match c.channelPool with
  | some cp => cp.uCalls > 0 && cp.udMs > 0
  | none => false

/-! ### protojson for this schema, on JSON syntax trees -/

inductive J where
  | null
  | bool (b : Bool)
  | num (n : Int)              -- an integral JSON number
  | frac                       -- a non-integral JSON number
  | str (s : String)
  | arr (l : List J)
  | obj (l : List (String × J))
  deriving Repr, Inhabited

def isDigits (s : String) : Bool := !s.toList.isEmpty && s.toList.all Char.isDigit

/-- uintN: a non-negative integral number or its decimal string; null = default -/
def pUint (bits : Nat) : J → Option Nat
  | .null => some 0
  | .num n => if 0 ≤ n ∧ n < 2^bits then some n.toNat else none
  | .str s => if isDigits s then (match s.toNat? with | some n => if n < 2^bits then some n else none | none => none) else none
  | _ => none

def pBool : J → Option Bool
  | .null => some false
  | .bool b => some b
  | _ => none

def pString : J → Option String
  | .null => some ""
  | .str s => some s
  | _ => none

/-- enum: a known name, or any int32 number; null = 0 -/
def pEnum (names : List (String × Int)) : J → Option Int
  | .null => some 0
  | .str s => (names.find? (fun p => p.1 == s)).map (·.2)
  | .num n => if -(2^31 : Int) ≤ n ∧ n < 2^31 then some n else none
  | _ => none

def strategyNames : List (String × Int) := [("UNSPECIFIED", 0), ("LEAST_ACTIVE_STREAMS", 1), ("ROUND_ROBIN", 2)]
def commandNames : List (String × Int) := [("BOUND", 0), ("BIND", 1), ("UNBIND", 2)]

/-- canonical field of a key: JSON name or proto name -/
def canon (table : List (String × String)) (k : String) : Option String :=
  (table.find? (fun p => p.1 == k || p.2 == k)).map (·.1)

/-- all keys known and no field given twice (also not once by each of its two names) -/
def keysOk (table : List (String × String)) (l : List (String × J)) : Bool :=
  let cs := l.map fun p => canon table p.1
  cs.all Option.isSome && cs.eraseDups.length == cs.length

def field (table : List (String × String)) (l : List (String × J)) (name : String) : J :=
  match l.find? (fun p => canon table p.1 == some name) with
  | some p => p.2
  | none => .null

def poolFields : List (String × String) :=
  [("maxSize", "max_size"), ("idleTimeout", "idle_timeout"),
   ("maxConcurrentStreamsLowWatermark", "max_concurrent_streams_low_watermark"), ("minSize", "min_size"),
   ("fallbackToReady", "fallback_to_ready"), ("unresponsiveDetectionMs", "unresponsive_detection_ms"),
   ("unresponsiveCalls", "unresponsive_calls"), ("bindPickStrategy", "bind_pick_strategy")]
def affinityFields : List (String × String) := [("command", "command"), ("affinityKey", "affinity_key")]
def methodFields : List (String × String) := [("name", "name"), ("affinity", "affinity")]
def apiFields : List (String × String) := [("channelPool", "channel_pool"), ("method", "method")]

def pPool : J → Option (Option ChannelPool)
  | .null => some none
  | .obj l =>
    if !keysOk poolFields l then none
    else do
      let f := field poolFields l
      let cp : ChannelPool :=
        { maxSize := ← pUint 32 (f "maxSize"), idleTimeout := ← pUint 64 (f "idleTimeout"),
          wm := ← pUint 32 (f "maxConcurrentStreamsLowWatermark"), minSize := ← pUint 32 (f "minSize"),
          fallback := ← pBool (f "fallbackToReady"), udMs := ← pUint 32 (f "unresponsiveDetectionMs"),
          uCalls := ← pUint 32 (f "unresponsiveCalls"), strategy := ← pEnum strategyNames (f "bindPickStrategy") }
      pure (some cp)
  | _ => none

def pAffinity : J → Option (Option Affinity)
  | .null => some none
  | .obj l =>
    if !keysOk affinityFields l then none
    else do
      let f := field affinityFields l
      pure (some { command := ← pEnum commandNames (f "command"), key := ← pString (f "affinityKey") })
  | _ => none

/-- repeated string: elements must be strings (null elements are rejected) -/
def pNames : J → Option (List String)
  | .null => some []
  | .arr l => l.mapM fun | .str s => some s | _ => none
  | _ => none

def pMethod : J → Option Method
  | .obj l =>
    if !keysOk methodFields l then none
    else do
      let f := field methodFields l
      pure { names := ← pNames (f "name"), affinity := ← pAffinity (f "affinity") }
  | _ => none                      -- a repeated message element must be an object

def pMethods : J → Option (List Method)
  | .null => some []
  | .arr l => l.mapM pMethod
  | _ => none

/-- ParseConfig: protojson.Unmarshal into an ApiConfig -/
def parse : J → Option ApiConfig
  | .obj l =>
    if !keysOk apiFields l then none
    else do
      let f := field apiFields l
      pure { channelPool := ← pPool (f "channelPool"), methods := ← pMethods (f "method") }
  | _ => none

/-! ### rendering (protojson.Marshal): default values and unset messages are omitted -/

def optField (k : String) (present : Bool) (v : J) : List (String × J) := if present then [(k, v)] else []

def enumJ (names : List (String × Int)) (n : Int) : J :=
  match names.find? (fun p => p.2 == n) with
  | some p => .str p.1
  | none => .num n

def rPool (cp : ChannelPool) : J :=
  .obj (optField "maxSize" (cp.maxSize != 0) (.num cp.maxSize) ++
        optField "idleTimeout" (cp.idleTimeout != 0) (.str (toString cp.idleTimeout)) ++
        optField "maxConcurrentStreamsLowWatermark" (cp.wm != 0) (.num cp.wm) ++
        optField "minSize" (cp.minSize != 0) (.num cp.minSize) ++
        optField "fallbackToReady" cp.fallback (.bool true) ++
        optField "unresponsiveDetectionMs" (cp.udMs != 0) (.num cp.udMs) ++
        optField "unresponsiveCalls" (cp.uCalls != 0) (.num cp.uCalls) ++
        optField "bindPickStrategy" (cp.strategy != 0) (enumJ strategyNames cp.strategy))

def rAffinity (a : Affinity) : J :=
  .obj (optField "command" (a.command != 0) (enumJ commandNames a.command) ++
        optField "affinityKey" (a.key != "") (.str a.key))

def rMethod (m : Method) : J :=
  .obj (optField "name" (!m.names.isEmpty) (.arr (m.names.map .str)) ++
        (match m.affinity with | some a => [("affinity", rAffinity a)] | none => []))

def render (c : ApiConfig) : J :=
  .obj ((match c.channelPool with | some cp => [("channelPool", rPool cp)] | none => []) ++
        optField "method" (!c.methods.isEmpty) (.arr (c.methods.map rMethod)))

/-- values a generated proto message can hold -/
def ChannelPool.wf (cp : ChannelPool) : Prop :=
  cp.maxSize < 2^32 ∧ cp.idleTimeout < 2^64 ∧ cp.wm < 2^32 ∧ cp.minSize < 2^32 ∧ cp.udMs < 2^32 ∧
  cp.uCalls < 2^32 ∧ -(2^31 : Int) ≤ cp.strategy ∧ cp.strategy < 2^31

end GcpVerif.Config
