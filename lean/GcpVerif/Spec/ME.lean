/-
C13 / C14 as executable step predicates ("monitors").

Every clause is a `Bool` function of (state before, operation, outcome, state after) that reads
only what a user or the harness can observe: `current`, each endpoint's (id, priority, status),
the pending timers (id, due, kind, stopped), `now`, and the configured `r`, `d`.
The same definitions are
  (a) proved to hold for every reachable model state and every operation (Proofs/ME*.lean), and
  (b) executed by the driver on the states printed by the Go implementation.
-/
import GcpVerif.Model.ME
namespace GcpVerif.ME

def ids (eps : List Ep) : List String := eps.map (·.id)

def anyAvail (eps : List Ep) : Bool := eps.any isAvail

/-- some available endpoint outranks priority `p` -/
def higherAvail (eps : List Ep) (p : Nat) : Bool := eps.any fun e => isAvail e && e.prio < p

def liveTimers (s : St) : List Timer := s.timers.filter fun t => !t.stopped

def isRecoveryTimer (t : Timer) : Bool := match t.kind with | .recovery _ _ _ => true | .switch => false

def liveRecoveryCount (s : St) : Nat := ((liveTimers s).filter isRecoveryTimer).length

/-! ### C13 -/

/-- C13.1 Current() names an endpoint of the accepted list -/
def c13_mem (post : St) : Bool := (ids post.eps).contains post.current

/-- C13.2 a current endpoint known to be unavailable while some endpoint is available cannot be
    observed: the triggering call has already switched -/
def c13_unavail_excluded (post : St) : Bool :=
  match findEp post.eps post.current with
  | some c => if c.status == .unavailable then !anyAvail post.eps else true
  | none => true

/-- C13.3 whenever `current` changes while some endpoint is available, it changes to the
    highest-priority available endpoint -/
def c13_switch_top (pre post : St) : Bool :=
  if pre.current != post.current && anyAvail post.eps then
    match topAvail post.eps with
    | some t => post.current == t.id
    | none => false
  else true

/-- C13.4 no endpoint available: `current` is unchanged unless it was removed, then it is the
    top-priority endpoint of the list -/
def c13_noavail (pre post : St) : Bool :=
  if anyAvail post.eps then true
  else if (ids post.eps).contains pre.current then post.current == pre.current
  else match topOf post.eps with
    | some t => post.current == t.id
    | none => false

/-- the sentence of C13 for `d = 0` -/
def d0Target (preCurrent : String) (post : List Ep) : Option String :=
  match findEp post preCurrent with
  | some c =>
    if c.status == .recovering && !higherAvail post c.prio then some c.id
    else match topAvail post with
      | some t => some t.id
      | none => some preCurrent
  | none =>
    match topAvail post with
    | some t => some t.id
    | none => (topOf post).map (·.id)

/-- C13.5 -/
def c13_d0 (pre post : St) : Bool :=
  if pre.d == 0 then d0Target pre.current post.eps == some post.current else true

def obsEq (a b : St) : Bool :=
  a.current == b.current && a.eps == b.eps && a.timers == b.timers && a.now == b.now

/-- C13.6 an empty list is rejected and changes nothing -/
def c13_empty (pre : St) (op : Op) (out : Out) (post : St) : Bool :=
  match op with
  | .setEndpoints [] => out == .err && obsEq pre post
  | .setEndpoints _ => out == .ok
  | _ => true

def c13_all (pre : St) (op : Op) (out : Out) (post : St) : List (String × Bool) :=
  [("mem", c13_mem post), ("unavail_excluded", c13_unavail_excluded post),
   ("switch_top", c13_switch_top pre post), ("noavail", c13_noavail pre post),
   ("d0", c13_d0 pre post), ("empty", c13_empty pre op out post)]

/-! ### C14 -/

/-- C14.2 a recovering current endpoint stays current while no higher-priority endpoint is
    available (only its own recovery timer, which makes it unavailable, or its removal ends that) -/
def c14_stays (pre post : St) : Bool :=
  match findEp post.eps pre.current with
  | some c =>
    if c.status == .recovering && !higherAvail post.eps c.prio then post.current == pre.current else true
  | none => true

/-- the part of the endpoint table a report can change -/
def epView (e : Ep) : String × Nat × Status := (e.id, e.prio, e.status)

/-- C14.3 a repeated "unavailable" report (endpoint not available, or unknown) changes neither the
    endpoint table, nor `current`, nor any pending recovery timer (the window is not extended) -/
def c14_repeat (pre : St) (op : Op) (post : St) : Bool :=
  match op with
  | .setAvail e false =>
    let noop : Bool := match findEp pre.eps e with
      | some x => x.status != .available
      | none => true
    if noop then
      pre.eps.map epView == post.eps.map epView && post.current == pre.current &&
      (liveTimers pre).filter isRecoveryTimer == (liveTimers post).filter isRecoveryTimer
    else true
  | _ => true

/-- C14.4 a report of availability inside the window cancels the window: the endpoint is
    available afterwards and one live recovery timer less is pending -/
def c14_cancel (pre : St) (op : Op) (post : St) : Bool :=
  match op with
  | .setAvail e true =>
    match findEp pre.eps e with
    | some x =>
      (match findEp post.eps e with | some y => y.status == .available | none => false) &&
      (if x.status == .recovering then liveRecoveryCount post + 1 == liveRecoveryCount pre
       else liveRecoveryCount post == liveRecoveryCount pre)
    | none => true
  | _ => true

/-- C14.5 with a switching delay, a report / list replacement never moves `current` away from an
    endpoint that is still in the list and available or recovering -/
def isApiCall : Op → Bool
  | .setAvail _ _ => true
  | .setEndpoints _ => true
  | _ => false

def c14_no_preempt (pre : St) (op : Op) (post : St) : Bool :=
  if isApiCall op && pre.d != 0 then
    match findEp post.eps pre.current with
    | some c => if c.status != .unavailable then post.current == pre.current else true
    | none => true
  else true

/-- C14.6 `current` never moves from an available endpoint to a lower-priority one -/
def c14_no_downgrade (pre post : St) : Bool :=
  if pre.current != post.current then
    match findEp post.eps pre.current, findEp post.eps post.current with
    | some c, some n => if c.status == .available then n.prio < c.prio else true
    | _, _ => true
  else true

/-- C14.7 once every pending timer has fired, `current` is the highest-priority available endpoint -/
def c14_converged (post : St) : Bool :=
  if (liveTimers post).isEmpty && anyAvail post.eps then
    match topAvail post.eps with
    | some t => post.current == t.id
    | none => false
  else true

/-- C14.1 (observable part) there are at least as many live recovery timers as recovering endpoints -/
def c14_recovering_timer (post : St) : Bool :=
  (post.eps.filter fun e => e.status == .recovering).length ≤ liveRecoveryCount post

/-- only a timer that is due fires -/
def c14_fire_due (pre : St) (op : Op) (out : Out) : Bool :=
  match op with
  | .fire tid =>
    if out == .ok then
      match pre.timers.find? (fun t => t.tid == tid) with
      | some t => t.due ≤ pre.now
      | none => false
    else true
  | _ => true

def c14_all (pre : St) (op : Op) (out : Out) (post : St) : List (String × Bool) :=
  [("stays", c14_stays pre post), ("repeat", c14_repeat pre op post), ("cancel", c14_cancel pre op post),
   ("no_preempt", c14_no_preempt pre op post), ("no_downgrade", c14_no_downgrade pre post),
   ("converged", c14_converged post), ("recovering_timer", c14_recovering_timer post),
   ("fire_due", c14_fire_due pre op out)]

end GcpVerif.ME
