/-
C01–C09, C20 as executable predicates over *views* of the pool.

Each clause is a small `Bool` function over plain data (tables, counters, lists of in-flight
calls). The same function is used twice:
  (a) the theorems of Proofs/Pool*.lean state it of every reachable state of the model, with the
      arguments taken from the model state;
  (b) the driver evaluates it on the implementation's printed state (`ImplView`) together with a
      history record (`MonState`) that the monitor keeps on its own from the operations and the
      events the fake ClientConn observed — independent of the balancer's counters.
-/
import GcpVerif.Model.Pool
namespace GcpVerif.Pool

/-- what the implementation prints after every operation -/
structure ImplView where
  affinity : List (String × Sc)
  fallback : List (String × Sc)
  scStates : List (Sc × CState)
  scRefs : List (Sc × Slot)
  refreshingMap : List (Sc × Slot)
  refs : List RefSt
  nReady : Nat
  nConn : Nat
  nTF : Nat
  aggr : CState
  now : Int
  deriving Repr, Inhabited

def St.view (s : St) : ImplView :=
  { affinity := s.affinity, fallback := s.fallback, scStates := s.scStates, scRefs := s.scRefs,
    refreshingMap := s.refreshingMap, refs := s.refs, nReady := s.nReady, nConn := s.nConn,
    nTF := s.nTF, aggr := s.aggr, now := s.now }

/-! ### C04: channel state -/

def countState (l : List (Sc × CState)) (st : CState) : Nat := (l.filter fun p => p.2 == st).length

/-- C04.1 the evaluator counters are exactly the number of pool connections in each state -/
def countersExact (scStates : List (Sc × CState)) (nReady nConn nTF : Nat) : Bool :=
  nReady == countState scStates .ready && nConn == countState scStates .connecting &&
  nTF == countState scStates .tf

/-- READY if some pool connection is READY, else CONNECTING if some is connecting, else TF -/
def aggregate (scStates : List (Sc × CState)) : CState :=
  if countState scStates .ready > 0 then .ready
  else if countState scStates .connecting > 0 then .connecting else .tf

def sameKeys (a : List (Sc × CState)) (b : List (Sc × Slot)) : Bool :=
  (a.map (·.1)).all (fun k => (b.map (·.1)).contains k) && (b.map (·.1)).all (fun k => (a.map (·.1)).contains k)

/-- C04.2/.3 a published pair: the state is the aggregate of the pool, and the picker fails fast
    exactly when that state is TRANSIENT_FAILURE -/
def publishedOk (scStates : List (Sc × CState)) (st : CState) (p : Picker) : Bool :=
  st == aggregate scStates && ((p == .errTF) == (st == .tf)) && p != .errNoSc

/-- the ready list of a published gcp picker is a permutation of the READY pool slots -/
def pickerListOk (scStates : List (Sc × CState)) (scRefs : List (Sc × Slot)) (p : Picker) : Bool :=
  match p with
  | .gcp l =>
    l.mergeSort (· ≤ ·) ==
      ((scStates.filter fun q => q.2 == .ready).filterMap fun q => lookup scRefs q.1).mergeSort (· ≤ ·)
  | _ => true

/-! ### C02: stream accounting and least-loaded placement -/

/-- C02.1 every slot's stream count is the number of calls placed on it and not yet completed -/
def streamsExact (refs : List RefSt) (inflight : List Slot) : Bool :=
  (List.range refs.length).all fun i =>
    match refs[i]? with
    | some r => r.streamsCnt == ((inflight.filter (· == i)).length : Int)
    | none => true

/-- C02.2 `slot` is in the ready list and its stream count is minimal there -/
def leastLoaded (refs : List RefSt) (ready : List Slot) (slot : Slot) : Bool :=
  ready.contains slot &&
  ready.all fun j =>
    match refs[slot]?, refs[j]? with
    | some a, some b => a.streamsCnt ≤ b.streamsCnt
    | _, _ => false

/-! ### C03: pool size -/

def sizeBounded (scRefs : List (Sc × Slot)) (max : Nat) : Bool := scRefs.length ≤ max

/-- one extra connection per refreshing channel at most -/
def refreshBounded (refreshingMap : List (Sc × Slot)) (refs : List RefSt) : Bool :=
  refreshingMap.length ≤ refs.length &&
  (refreshingMap.map (·.2)).all fun sl => ((refreshingMap.filter fun q => q.2 == sl).length == 1)

/-- C03.2 a pick may add a connection only when every READY channel of its picker is at or above
    the watermark, the pool is below maxSize and nothing is idle or connecting -/
def growthAllowed (v : ImplView) (wm max : Nat) (ready : List Slot) (reported : List (Sc × CState))
    (inflight : List Slot) : Bool :=
  -- the load of a channel is what the history says (picks placed on it minus completions), not the
  -- implementation's own counter
  (ready.all fun j => j < v.refs.length && (inflight.filter (· == j)).length ≥ wm) &&
  -- (F37) … and so for every channel of the pool that gRPC last reported READY, whether the picker used lists it or not
  ((List.range v.refs.length).all fun j => match v.refs[j]? with
      | some r => !(v.scRefs.any fun p => p.1 == r.subConn) ||     -- (a slot whose connection left the pool: Shutdown)
                  lookup reported r.subConn != some .ready || (inflight.filter (· == j)).length ≥ wm
      | none => true) &&
  v.scRefs.length < max &&
  !(v.scStates.any fun p => p.2 == .idle || p.2 == .connecting) &&
  -- judged by what gRPC last *reported* for the pool's connections, not only by the balancer's table
  !(v.scRefs.any fun p => match lookup reported p.1 with
      | some st => st == .idle || st == .connecting
      | none => true)

/-! ### C01 / C08: affinity and fallback -/

/-- C01.1 the key table points at the *current* connection of the slot each key is bound to -/
def affinityRefines (affinity : List (String × Sc)) (refs : List RefSt) (bound : List (String × Slot)) : Bool :=
  (bound.all fun (k, slot) =>
    match refs[slot]? with
    | some r => lookup affinity k == some r.subConn
    | none => false) &&
  (affinity.all fun (k, _) => (lookup bound k).isSome)

/-- every fallback entry names a READY pool connection -/
def fallbackReady (fallback : List (String × Sc)) (scStates : List (Sc × CState)) : Bool :=
  fallback.all fun (_, sc) => lookup scStates sc == some .ready

/-! ### C07: unresponsive-connection detection (history-level spec) -/

/-- per-slot history: time of the last response / creation / swap, refreshes since the last
    response, qualifying deadline-exceeded completions since then -/
structure Detector where
  epoch : Int
  k : Nat
  de : Nat
  refreshing : Bool
  deriving DecidableEq, Repr, Inhabited

def detectorMatches (refs : List RefSt) (ds : List Detector) : Bool :=
  refs.length == ds.length &&
  (List.range refs.length).all fun i =>
    match refs[i]?, ds[i]? with
    | some r, some d => r.lastResp == d.epoch && r.refreshCnt == d.k && r.deCalls == min d.de 4294967295 && r.refreshing == d.refreshing
    | _, _ => false

/-- the rule of C07: this completion must start a refresh (after counting it) -/
def mustRefresh (c : Cfg) (d : Detector) (now : Int) (started : Int) (err : ErrKind) (dl : Option Int) : Bool :=
  c.detection &&
  (match err, dl with | .deClient, some x => x ≤ now | _, _ => false) &&
  started ≥ d.epoch && d.de + 1 ≥ c.uc && now - d.epoch > ((c.ums * 2 ^ d.k : Nat) : Int) * 1000000 && !d.refreshing

/-! ### C09: round robin -/

/-- the slot assigned to the j-th BIND pick (j counted from 1) over n slots -/
def rrSlot (j n : Nat) : Nat := ((2^64 - 1 + j) % 2^64) % n

/-! ### C20: addresses -/

/-- every pool connection and every replacement connection uses the latest address list -/
def addrsCurrent (scAddrs : List (Sc × Nat)) (addrs : Nat) (scRefs : List (Sc × Slot))
    (refreshingMap : List (Sc × Slot)) : Bool :=
  (scRefs.all fun (sc, _) => lookup scAddrs sc == some addrs) &&
  (refreshingMap.all fun (sc, _) => lookup scAddrs sc == some addrs)

def slotOfSc (refs : List RefSt) (sc : Sc) : Option Slot :=
  ((List.range refs.length).zip refs).find? (fun p => p.2.subConn == sc) |>.map (·.1)

/-! ## the monitor: history record kept independently of the balancer's own bookkeeping -/

structure MCall where
  id : Nat
  sc : Sc
  slot : Slot
  cmd : Cmd
  loc : Loc
  key : String
  ctx : CtxKind
  dl : Option Int
  started : Int
  deriving Repr, Inhabited

structure MonState where
  cfg : Cfg := default
  view : Option ImplView := none            -- state printed after the previous operation
  calls : List MCall := []                  -- placed, not completed
  bound : List (String × Slot) := []        -- history fold over completed BIND / UNBIND calls
  pubs : List (CState × Picker) := []       -- everything published so far
  addrs : Nat := 0
  scAddrs : List (Sc × Nat) := []
  detectors : List Detector := []
  started : Bool := false                   -- first resolver update seen
  shutdownSeen : Bool := false              -- a Shutdown report for a pool member (outside gRPC's contract)
  nBind : Nat := 0                          -- round-robin BIND picks so far
  removedOnce : List Sc := []
  waiting : List (Nat × Slot × Loc × CtxKind × Option Int) := []
  failN : Nat := 0                          -- factory failures the harness has injected and not yet spent
  reported : List (Sc × CState) := []       -- what gRPC last reported for each connection (new ones: Idle)
  standIn : List (String × Slot) := []      -- history record: the stand-in slot each bound key is using
  discardNext : Bool := false               -- the next `done` is gRPC discarding the pick (Done with no error, nothing sent)
  deriving Inhabited

def MonState.start (c : Cfg) : MonState := { cfg := c }

def parsePickerDesc (d : String) : Option Picker :=
  if d == "err:tf" then some .errTF
  else if d == "err:nosc" then some .errNoSc
  else if d.startsWith "gcp:" then
    let body := (d.drop 4).toString
    some (.gcp (if body == "" then [] else (body.splitOn ".").filterMap String.toNat?))
  else none

def parseStName : String → Option CState
  | "IDLE" => some .idle | "CONNECTING" => some .connecting | "READY" => some .ready
  | "TF" => some .tf | "SHUTDOWN" => some .shutdown | _ => none

def evArg (e : String) (k : String) : Option Nat :=
  ((e.splitOn " ").filterMap fun t =>
    match t.splitOn "=" with
    | [k', v] => if k' == k then v.toNat? else none
    | _ => none).head?

/-- feed one operation with the implementation's events and printed state;
    returns the new record, the failed clauses (property, clause) and the situations reached -/
def MonState.observe (m : MonState) (op : Op) (evs : List String) (post : Option ImplView) :
    MonState × List (String × String) × List String := Id.run do
  let mut m := m
  let mut fails : List (String × String) := []
  let mut hits : List String := []
  let c := m.cfg
  let pre := m.view
  if evs.any (fun e => e == "PANIC" || e.endsWith "PANIC") then
    fails := fails ++ [("C05", "panic")]
  if evs.any (fun e => e == "HANG" || e.endsWith "HANG") then
    fails := fails ++ [("C06", "hang")]
    -- with the round-robin strategy on, a call that never returns is also C09's matter: a BIND pick waits
    -- only for its own slot, returns when its context ends, and delays no other call
    if c.rr then fails := fails ++ [("C09", "rr_blocks_nothing_else")]
  -- connections created / removed / addressed, states published
  let newScs := evs.filterMap fun e => if e.startsWith "new sc=" then (evArg e "sc").bind fun sc => (evArg e "a").map fun a => (sc, a) else none
  let upds := evs.filterMap fun e => if e.startsWith "upd sc=" then (evArg e "sc").bind fun sc => (evArg e "a").map fun a => (sc, a) else none
  let removes := evs.filterMap fun e => if e.startsWith "remove sc=" then evArg e "sc" else none
  let states := evs.filterMap fun e =>
    if e.startsWith "state " then
      match e.splitOn " " with
      | [_, st, _, d] => do pure (← parseStName st, ← parsePickerDesc d)
      | _ => none
    else none
  for (sc, a) in newScs ++ upds do
    m := { m with scAddrs := insert m.scAddrs sc a }
  for (sc, _) in newScs do
    m := { m with reported := insert m.reported sc .idle }
  m := { m with pubs := m.pubs ++ states }
  -- connection creations that failed: with a non-empty resolved list only an injected factory failure
  -- can be the reason (the fake ClientConn, like gRPC, also rejects an empty address list)
  let injectedBefore := m.failN
  let nFail := (evs.filter (· == "newfail")).length
  let addrsInForce := match op with | .ccs ver => ver | _ => m.addrs
  if addrsInForce != 0 then
    if nFail > m.failN then fails := fails ++ [("C20", "new_conn_uses_resolved_addrs")]
    m := { m with failN := m.failN - nFail }
  match op with
  | .factory n => m := { m with failN := n }
  | _ => pure ()
  match op with
  | .ccs ver =>
    m := { m with addrs := ver }
    if !m.started && ver == 0 then
      -- an update without addresses: nothing can be created; the next one with addresses is still "the first" (F26)
      if !newScs.isEmpty then fails := fails ++ [("C03", "initial_size")]
    else if !m.started then
      m := { m with started := true }
      -- C03.1 after the first resolver update with a non-empty list and a working factory: exactly max(1,minSize) channels
      if ver != 0 && injectedBefore == 0 then
        match post with
        | some v => if v.scRefs.length != c.min then fails := fails ++ [("C03", "initial_size")]
        | none => pure ()
    else if !newScs.isEmpty then
      -- later resolver updates add a channel only to re-create an emptied pool
      match pre with
      | some v => if !v.scRefs.isEmpty then fails := fails ++ [("C03", "growth_only_when_saturated")]
      | none => pure ()
    -- C20 every pool / replacement connection was told the new list and asked to connect
    match pre with
    | some v =>
      for (sc, _) in v.scRefs ++ v.refreshingMap do
        if !(evs.contains s!"upd sc={sc} a={ver}" && evs.contains s!"connect sc={sc}") then
          fails := fails ++ [("C20", "connect_requested")]
    | none => pure ()
  | .reserr =>
    match pre, post with
    | some a, some b =>
      if !(evs.take (evs.length - 1) == ["ok"] && a.affinity == b.affinity && a.scStates == b.scStates &&
           a.scRefs == b.scRefs && a.refreshingMap == b.refreshingMap && a.refs == b.refs && a.fallback == b.fallback) then
        fails := fails ++ [("C20", "resolver_error_identity")]
    | _, _ => pure ()
  | .scs sc st _ =>
    m := { m with reported := if st == .shutdown then erase m.reported sc else insert m.reported sc st }
    -- C04: the balancer's state table records, for every pool connection, the state last reported
    match post with
    | some pv =>
      if !m.shutdownSeen && !(st == .shutdown) then
        if !(pv.scStates.all fun p => lookup m.reported p.1 == some p.2) then
          fails := fails ++ [("C04", "state_table_current")]
    | none => pure ()
    match pre with
    | some v =>
      if st == .shutdown && (lookup v.scRefs sc).isSome then m := { m with shutdownSeen := true }
      -- C07.4 swap: the replacement takes over the slot; old connection removed exactly once
      match lookup v.refreshingMap sc with
      | some slot =>
        if st == .ready then
          hits := hits ++ ["pool.swap"]
          match v.refs[slot]?, post with
          | some old, some pv =>
            match pv.refs[slot]? with
            | some nw =>
              -- waiting round-robin picks of this slot that are handed the replacement in the same step
              let wokeHere := (evs.filter fun e => e.startsWith "woke call=" &&
                (match evArg e "call" with
                 | some cid => m.waiting.any fun w => w.1 == cid && w.2.1 == slot
                 | none => false)).length
              if !(nw.subConn == sc && nw.streamsCnt == old.streamsCnt + (wokeHere : Int) && removes == [old.subConn] &&
                   !m.removedOnce.contains old.subConn && lookup pv.scRefs sc == some slot) then
                fails := fails ++ [("C07", "swap_takes_over")]
              if m.detectors.length > slot then
                m := { m with detectors := m.detectors.modify slot fun d => { d with epoch := v.now, de := 0, k := d.k + 1, refreshing := false } }
              if (m.bound.any fun (_, sl) => sl == slot) then hits := hits ++ ["pool.swap_of_slot_with_bound_keys"]
              -- the replacement takes over the channel's bound keys: every key the history says is bound to
              -- this slot is looked up on the replacement from now on (C07; C01 has the same through affinity_refines)
              if !(m.bound.all fun (k, sl) => sl != slot || lookup pv.affinity k == some sc) then
                fails := fails ++ [("C07", "swap_takes_over")]
              -- … and so do the keys it stands in for: a temporary mapping to the old connection points at the
              -- replacement afterwards (whether or not any key is bound to the channel itself)
              if !(v.fallback.all fun (k, c) => c != old.subConn || lookup pv.fallback k == some sc) then
                fails := fails ++ [("C07", "swap_takes_over"), ("C08", "fallback_follows_refresh")]
            | none => fails := fails ++ [("C07", "swap_takes_over")]
          | _, _ => pure ()
          m := { m with removedOnce := m.removedOnce ++ removes }
        else
          if !removes.isEmpty || !states.isEmpty then fails := fails ++ [("C07", "old_serves_until_ready")]
          -- C04: a replacement of an unfinished refresh does not count: whatever it reports short of READY, nothing is published
          if !states.isEmpty then fails := fails ++ [("C04", "replacement_not_counted")]
          -- C03.5 nothing but a completed refresh removes a connection
          if !removes.isEmpty then fails := fails ++ [("C03", "remove_only_after_swap")]
          -- a replacement whose connection attempt failed goes IDLE and waits to be told to connect again:
          -- left alone it could never become READY and the channel would never be refreshed again (F23)
          if st == .idle && !evs.contains s!"connect sc={sc}" then fails := fails ++ [("C07", "replacement_kept_connecting")]
      | none =>
        -- C03.5 nothing but a completed refresh removes a connection
        if !removes.isEmpty then fails := fails ++ [("C03", "remove_only_after_swap")]
    | none => pure ()
    -- C04.4 a pair is published iff some pool channel's READY-ness changed or the aggregate crossed TF
    match pre, post with
    | some a, some b =>
      let readySet (v : ImplView) := ((v.scStates.filter fun q => q.2 == .ready).filterMap fun q => lookup v.scRefs q.1).mergeSort (· ≤ ·)
      let changed := readySet a != readySet b || ((aggregate a.scStates == .tf) != (aggregate b.scStates == .tf) && (lookup a.scStates sc).isSome)
      let known := (lookup a.scStates sc).isSome || (lookup a.refreshingMap sc).isSome
      if known && m.pubs.length > 0 && changed && states.isEmpty then fails := fails ++ [("C04", "publish_on_change")]
      if !known && !states.isEmpty then fails := fails ++ [("C04", "unknown_connection_ignored")]
    | _, _ => pure ()
  | .pick call pn mth ctx dl req =>
    let placed := evs.filterMap fun e => if e.startsWith "placed sc=" then evArg e "sc" else none
    let mc := methodCfg c mth
    let cmd : Cmd := match mc with | some (x, _) => x | none => .bound
    let loc : Loc := match mc with | some (_, l) => l | none => .key
    let key : String :=
      match mc with
      | some (cm, lc) =>
        if ctx != .none && (cm == .bound || cm == .unbind) then
          match extract lc req with | some (k :: _) => k | _ => ""
        else ""
      | none => ""
    let picker := m.pubs[pn]?
    let isRR := cmd == .bind && c.rr
    match pre, picker with
    | some v, some (pst, .gcp ready) =>
      -- C04.3 a picker published with a non-TF state never fails fast
      if evs.contains "tf" then fails := fails ++ [("C04", "err_picker_iff_tf")]
      if pst == .tf then fails := fails ++ [("C04", "err_picker_iff_tf")]
      let boundSlot := if key != "" then lookup m.bound key else none
      if isRR && !ready.isEmpty then
        m := { m with nBind := m.nBind + 1 }
        let want := rrSlot m.nBind v.refs.length
        hits := hits ++ ["pool.rr_bind_pick"]
        if evs.contains "waiting" then
          hits := hits ++ ["pool.rr_wait"]
          m := { m with waiting := m.waiting ++ [(call, want, loc, ctx, dl)] }
          match v.refs[want]? with
          | some r => if lookup v.scStates r.subConn == some .ready then fails := fails ++ [("C09", "rr_handed_when_ready")]
          | none => fails := fails ++ [("C09", "rr_assign")]
        else
          match placed.head?, v.refs[want]? with
          | some sc, some r =>
            if sc != r.subConn then fails := fails ++ [("C09", "rr_assign")]
            if lookup v.scStates sc != some .ready then fails := fails ++ [("C09", "rr_handed_when_ready")]
            m := { m with calls := m.calls ++ [{ id := call, sc := sc, slot := want, cmd := cmd, loc := loc, key := key, ctx := ctx, dl := dl, started := v.now }] }
          | _, _ => if !m.shutdownSeen then fails := fails ++ [("C09", "rr_assign")]
      else
        -- growth (C03.2): only a saturated pick below maxSize may add a channel, and it is told to wait
        if !newScs.isEmpty then
          hits := hits ++ ["pool.growth_by_pick"]
          if !(growthAllowed v c.wm c.max ready m.reported (m.calls.map (·.slot)) && evs.contains "nosc" && placed.isEmpty) || boundSlot.isSome then
            fails := fails ++ [("C03", "growth_only_when_saturated")]
        match placed.head? with
        | some sc =>
          -- the slot whose current connection is `sc` (also for a slot that left the pool by a
          -- Shutdown report and is still served by a superseded picker)
          match slotOfSc v.refs sc with
          | some slot =>
            m := { m with calls := m.calls ++ [{ id := call, sc := sc, slot := slot, cmd := cmd, loc := loc, key := key, ctx := ctx, dl := dl, started := v.now }] }
            match boundSlot with
            | some home =>
              hits := hits ++ ["pool.pick_for_bound_key"]
              if pn + 1 != m.pubs.length then hits := hits ++ ["pool.pick_for_bound_key_on_stale_picker"]
              match v.refs[home]? with
              | some hr =>
                let homeReady := lookup v.scStates hr.subConn == some .ready
                if homeReady then
                  -- C01.2 / C08.3: home channel READY: the call goes home
                  if sc != hr.subConn then fails := fails ++ [("C01", "bound_pick_home"), ("C08", "return_home")]
                  if hr.refreshCnt > 0 || m.removedOnce.length > 0 then hits := hits ++ ["pool.bound_pick_after_swap"]
                else
                  hits := hits ++ ["pool.fallback_placed"]
                  if !c.fb then fails := fails ++ [("C01", "no_fallback_waits")]
                  -- C08.1 stand-in is READY; C08.2 sticky
                  if lookup v.scStates sc != some .ready then fails := fails ++ [("C08", "fallback_places")]
                  match lookup v.fallback key with
                  | some prev => if prev != sc then fails := fails ++ [("C08", "fallback_sticky")]
                  | none => pure ()
                  -- the same, judged by the monitor's own record of where the key's calls went while the
                  -- stand-in stayed READY and the home channel stayed not READY (also across a refresh
                  -- of the stand-in, which keeps its slot)
                  match lookup m.standIn key with
                  | some prevSlot => if prevSlot != slot then fails := fails ++ [("C08", "fallback_sticky")]
                  | none => pure ()
                  m := { m with standIn := insert m.standIn key slot }
                  if (v.refs.all fun r => r.streamsCnt ≥ (c.wm : Int)) then hits := hits ++ ["pool.fallback_when_saturated"]
              | none => fails := fails ++ [("C01", "bound_pick_home")]
            | none =>
              -- C02.2 unkeyed / unknown key: least-loaded READY channel of the picker used
              hits := hits ++ ["pool.plain_pick_placed"]
              if !leastLoaded v.refs ready slot then fails := fails ++ [("C02", "plain_pick_least_loaded")]
              if (v.refs[slot]?.map (·.streamsCnt)).getD 0 ≥ (c.wm : Int) then
                hits := hits ++ ["pool.placed_above_watermark"]
                -- C03.3 only at maxSize (or while a new channel is still coming up)
                if v.scRefs.length < c.max && !(v.scStates.any fun p => p.2 == .idle || p.2 == .connecting) then
                  fails := fails ++ [("C03", "at_max_places_anyway")]
          | none => fails := fails ++ [("C02", "placed_on_pool_member")]
        | none =>
          -- not placed
          match boundSlot with
          | some home =>
            match v.refs[home]? with
            | some hr =>
              let homeReady := lookup v.scStates hr.subConn == some .ready
              if pn + 1 == m.pubs.length then
                -- C01.3: the most recently published picker does place it on a READY home channel
                if homeReady && (lookup v.scRefs hr.subConn).isSome then fails := fails ++ [("C01", "current_picker_places")]
                -- C08.1: with fallback, some READY channel exists => placed
                if !homeReady && c.fb && (v.scStates.any fun p => p.2 == .ready) then fails := fails ++ [("C08", "fallback_places")]
              if !homeReady && !c.fb then hits := hits ++ ["pool.bound_key_waits_no_fallback"]
            | none => pure ()
          | none =>
            -- C03.3 at maxSize a call without a bound key is placed on the least-loaded channel of its picker,
            -- even above the watermark: it is not told to wait for a channel that cannot be added
            if !ready.isEmpty && evs.contains "nosc" && c.max != 0 && v.scRefs.length ≥ c.max then
              fails := fails ++ [("C03", "at_max_places_anyway")]
      -- C08.4 / C01: a pick never changes bindings
      match post with
      | some pv => if pv.affinity != v.affinity then fails := fails ++ [("C08", "fallback_preserves_binding")]
      | none => pure ()
    | some _, some (pst, .errTF) =>
      if !evs.contains "tf" then fails := fails ++ [("C04", "err_picker_iff_tf")]
      if pst != .tf then fails := fails ++ [("C04", "err_picker_iff_tf")]
    | _, _ => pure ()
  | .ctxdone call =>
    match m.waiting.find? (fun w => w.1 == call), pre with
    | some (_, slot, loc, ctx, dl), some v =>
      hits := hits ++ ["pool.rr_ctx_cancelled"]
      let placed := evs.filterMap fun e => if e.startsWith "placed sc=" then evArg e "sc" else none
      match placed.head?, v.refs[slot]? with
      | some sc, some r =>
        if sc != r.subConn then fails := fails ++ [("C09", "rr_assign")]
        m := { m with calls := m.calls ++ [{ id := call, sc := sc, slot := slot, cmd := .bind, loc := loc, key := "", ctx := ctx, dl := dl, started := v.now }] }
      | _, _ => fails := fails ++ [("C09", "rr_ctx_returns")]
      m := { m with waiting := m.waiting.filter fun w => w.1 != call }
    | _, _ => pure ()
  | .done call err reply =>
    match m.calls.find? (fun x => x.id == call), pre with
    | some mc, some v =>
      m := { m with calls := m.calls.filter fun x => x.id != call }
      let discarded := m.discardNext
      m := { m with discardNext := false }
      -- gRPC discards a pick whose SubConn has no ready transport by calling Done with no error and no bytes
      -- sent, and picks again: the call was not made. No response was seen, no refresh may start, no key is
      -- bound or unbound (known finding K7: the callback cannot tell this from a successful completion)
      if discarded then
        hits := hits ++ ["pool.pick_discarded_by_grpc"]
        if !newScs.isEmpty || evs.contains "newfail" then fails := fails ++ [("C07", "discarded_pick_is_no_response")]
        match post with
        | some pv =>
          if pv.affinity != v.affinity then fails := fails ++ [("C01", "discarded_pick_changes_no_binding")]
          match v.refs[mc.slot]?, pv.refs[mc.slot]? with
          | some a, some b =>
            if a.lastResp != b.lastResp || a.deCalls != b.deCalls || a.refreshCnt != b.refreshCnt then
              fails := fails ++ [("C07", "discarded_pick_is_no_response")]
          | _, _ => pure ()
        | none => pure ()
      -- C07: the detector, from the history alone
      if m.detectors.length > mc.slot then
        let d := m.detectors[mc.slot]!
        let must := mustRefresh c d v.now mc.started err mc.dl
        let isResp : Bool := match err, mc.dl with | .deClient, some x => decide (x > v.now) | _, _ => true
        let created := !newScs.isEmpty
        let failed := evs.contains "newfail"
        if must then hits := hits ++ ["pool.refresh_triggered"]
        if must != (created || failed) then fails := fails ++ [("C07", "refresh_iff")]
        if created && newScs.length != 1 then fails := fails ++ [("C07", "refresh_iff")]
        if !c.detection && (created || failed) then fails := fails ++ [("C07", "disabled_never_refreshes")]
        if c.detection then
          if isResp then
            m := { m with detectors := m.detectors.modify mc.slot fun d => { d with epoch := v.now, de := 0, k := 0 } }
          else if mc.started ≥ d.epoch then
            m := { m with detectors := m.detectors.modify mc.slot fun d => { d with de := d.de + 1, refreshing := d.refreshing || (must && created) } }
        if failed then hits := hits ++ ["pool.replacement_creation_failed"]
      -- C01: the history fold `boundTo`
      if err == .nil then
        match mc.cmd with
        | .bind =>
          if mc.ctx != .none then
            let replyObj : Req := if mc.ctx == .gcp then .msg reply else .bad
            match extract mc.loc replyObj with
            | some keys =>
              for k in keys do
                if (lookup m.bound k).isNone then m := { m with bound := m.bound ++ [(k, mc.slot)] }
                else hits := hits ++ ["pool.rebind_of_bound_key"]
            | none => pure ()
        | .unbind =>
          if (lookup m.bound mc.key).isSome then hits := hits ++ ["pool.unbind_completed"]
          m := { m with bound := erase m.bound mc.key }
        | .bound => pure ()
    | _, _ => pure ()
  | .pickHold .. =>
    -- stopped between the pool-size check and newSubConn: nothing has happened yet
    hits := hits ++ ["pool.pick_stopped_before_newSubConn"]
    if !newScs.isEmpty || !states.isEmpty then fails := fails ++ [("C03", "growth_only_when_saturated")]
  | .resume _ =>
    -- the stopped pick runs newSubConn now: it may add a channel only if the pool is (still) below
    -- maxSize and nothing is reported idle or connecting; the call itself is told to wait
    if evs.contains "nosc" then hits := hits ++ ["pool.stopped_pick_resumed"]
    if !newScs.isEmpty then
      hits := hits ++ ["pool.growth_by_resumed_pick"]
      match pre with
      | some v =>
        let blocked := v.scRefs.any fun p => match lookup m.reported p.1 with
          | some st => st == .idle || st == .connecting
          | none => true
        if blocked || (c.max != 0 && v.scRefs.length ≥ c.max) || !evs.contains "nosc" then
          fails := fails ++ [("C03", "growth_only_when_saturated")]
      | none => pure ()
    else
      match pre with
      | some v => if c.max != 0 && v.scRefs.length ≥ c.max then hits := hits ++ ["pool.resumed_pick_refused_at_max"]
      | none => pure ()
  | _ => pure ()
  -- waiting round-robin picks that returned in this operation
  for e in evs do
    if e.startsWith "woke call=" then
      hits := hits ++ ["pool.rr_woken"]
      match evArg e "call", evArg e "sc", post with
      | some call, some sc, some pv =>
        match m.waiting.find? (fun w => w.1 == call) with
        | some (_, slot, loc, ctx, dl) =>
          match pv.refs[slot]? with
          | some r =>
            if r.subConn != sc then fails := fails ++ [("C09", "rr_assign")]
            if lookup pv.scStates sc != some .ready then fails := fails ++ [("C09", "rr_handed_when_ready")]
          | none => fails := fails ++ [("C09", "rr_assign")]
          m := { m with calls := m.calls ++ [{ id := call, sc := sc, slot := slot, cmd := .bind, loc := loc, key := "", ctx := ctx, dl := dl, started := pv.now }],
                        waiting := m.waiting.filter fun w => w.1 != call }
        | none => fails := fails ++ [("C09", "rr_assign")]
      | _, _, _ => pure ()
  -- state predicates on the printed state
  match post with
  | some v =>
    -- new slots get a detector record (creation time = now)
    if m.detectors.length < v.refs.length then
      m := { m with detectors := m.detectors ++ (List.range (v.refs.length - m.detectors.length)).map fun _ => { epoch := v.now, k := 0, de := 0, refreshing := false } }
    if !countersExact v.scStates v.nReady v.nConn v.nTF then fails := fails ++ [("C04", "counters_exact")]
    if !sameKeys v.scStates v.scRefs then fails := fails ++ [("C04", "pool_connections_only"), ("C05", "tables_consistent")]
    match m.pubs.getLast? with
    | some (st, p) =>
      if !publishedOk v.scStates st p then fails := fails ++ [("C04", "published_matches_pool")]
      if !pickerListOk v.scStates v.scRefs p then fails := fails ++ [("C04", "picker_ready_list")]
    | none => pure ()
    for (st, p) in states do
      if (p == .errTF) != (st == .tf) then fails := fails ++ [("C04", "err_picker_iff_tf")]
      -- a picker published now lists exactly the slots whose connection gRPC last reported READY
      -- (judged by the reports themselves, not by the balancer's own table)
      match p with
      | .gcp l =>
        if !m.shutdownSeen then
          let readyByReport := (List.range v.refs.length).filter fun slot =>
            match v.refs[slot]? with
            | some r => (lookup v.scRefs r.subConn).isSome && lookup m.reported r.subConn == some .ready
            | none => false
          if l.mergeSort (· ≤ ·) != readyByReport then
            fails := fails ++ [("C02", "picker_lists_ready_channels"), ("C04", "picker_ready_list")]
      | _ => pure ()
    if !streamsExact v.refs (m.calls.map (·.slot)) then fails := fails ++ [("C02", "streams_exact")]
    if m.calls.isEmpty && !(v.refs.all fun r => r.streamsCnt == 0) then fails := fails ++ [("C02", "streams_zero_when_idle")]
    if !affinityRefines v.affinity v.refs m.bound then fails := fails ++ [("C01", "affinity_refines")]
    if !fallbackReady v.fallback v.scStates then fails := fails ++ [("C08", "fallback_ready")]
    if c.min ≤ c.max && !sizeBounded v.scRefs c.max then fails := fails ++ [("C03", "size_bounded")]
    if !refreshBounded v.refreshingMap v.refs then fails := fails ++ [("C03", "refresh_bounded")]
    if m.started && !addrsCurrent m.scAddrs m.addrs v.scRefs v.refreshingMap then fails := fails ++ [("C20", "addrs_current")]
    if !detectorMatches v.refs m.detectors then fails := fails ++ [("C07", "detector_refines")]
    -- a stand-in record lives while the stand-in slot's connection is READY, the key is bound and its
    -- home channel is not READY
    let readySlot (sl : Slot) : Bool := match v.refs[sl]? with
      | some r => lookup v.scStates r.subConn == some .ready && (lookup v.scRefs r.subConn).isSome
      | none => false
    let boundNow := m.bound
    let keep (p : String × Slot) : Bool :=
      readySlot p.2 && (match lookup boundNow p.1 with | some home => !readySlot home | none => false)
    m := { m with standIn := m.standIn.filter keep }
    if !m.standIn.isEmpty then hits := hits ++ ["pool.stand_in_recorded"]
    if !v.refreshingMap.isEmpty then hits := hits ++ ["pool.refresh_in_flight"]
    if !v.fallback.isEmpty then hits := hits ++ ["pool.fallback_mapping_live"]
    if v.scRefs.length == c.max then hits := hits ++ ["pool.at_max_size"]
    if m.shutdownSeen then hits := hits ++ ["pool.after_shutdown_of_member"]
  | none => pure ()
  m := { m with view := match post with | some v => some v | none => m.view }
  return (m, fails.eraseDups, hits.eraseDups)

end GcpVerif.Pool
