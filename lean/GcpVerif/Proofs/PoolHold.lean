/-
A pick stopped between the pool-size check and `newSubConn` (`Op.pickHold` / `Op.resume`):
case principles used by every invariant file, and the consistency of the split with the atomic pick.
-/
import GcpVerif.Model.Pool
namespace GcpVerif.Pool

/-- `pickHold` leaves the state alone, only notes the stopped pick, or is an ordinary pick -/
theorem opPickHold_cases2 (P : St × List Event → Prop) (s : St) (call pn : Nat) (m : String) (ctx : CtxKind)
    (dl : Option Int) (req : Req) (h0 : P (s, [.res "bad-op"]))
    (h1 : wouldGrow s pn m ctx req = true → P ({ s with held := s.held ++ [(call, pn)] }, [.res "held"]))
    (h2 : P (opPick s call pn m ctx dl req)) : P (opPickHold s call pn m ctx dl req) := by
  unfold opPickHold
  split
  · exact h0
  · split
    · rename_i hw; exact h1 hw
    · exact h2

theorem opPickHold_cases (P : St → Prop) (s : St) (call pn : Nat) (m : String) (ctx : CtxKind) (dl : Option Int)
    (req : Req) (h0 : P s) (h1 : ∀ hl, P { s with held := hl }) (h2 : P (opPick s call pn m ctx dl req).1) :
    P (opPickHold s call pn m ctx dl req).1 :=
  opPickHold_cases2 (fun r => P r.1) s call pn m ctx dl req h0 (fun _ => h1 _) h2

theorem resumeCore_cases2 (P : St × List Event → Prop) (s : St) (h1 : P (s, [.res "nosc"]))
    (h2 : ∀ c, s.cfg = some c → (c.max == 0 || decide (s.scRefs.length < c.max)) = true →
      P ((newSubConn s).1, (newSubConn s).2 ++ [.res "nosc"])) : P (resumeCore s) := by
  unfold resumeCore
  cases hc : s.cfg with
  | none => exact h1
  | some c =>
    simp only
    split
    · rename_i hg; exact h2 c hc hg
    · exact h1

/-- `resume` leaves the state alone, only forgets the stopped pick, or forgets it and runs `newSubConn` -/
theorem opResume_cases2 (P : St × List Event → Prop) (s : St) (call : Nat) (h0 : P (s, [.res "bad-op"]))
    (h1 : ∀ hl, P ({ s with held := hl }, [.res "nosc"]))
    (h2 : ∀ hl c, s.cfg = some c → (c.max == 0 || decide (s.scRefs.length < c.max)) = true →
      P ((newSubConn { s with held := hl }).1, (newSubConn { s with held := hl }).2 ++ [.res "nosc"])) :
    P (opResume s call) := by
  unfold opResume
  cases s.held.find? (fun h => h.1 == call) with
  | none => exact h0
  | some _ => exact resumeCore_cases2 P _ (h1 _) (h2 _)

theorem opResume_cases (P : St → Prop) (s : St) (call : Nat) (h0 : P s) (h1 : ∀ hl, P { s with held := hl })
    (h2 : ∀ hl c, s.cfg = some c → (c.max == 0 || decide (s.scRefs.length < c.max)) = true →
      P (newSubConn { s with held := hl }).1) : P (opResume s call).1 :=
  opResume_cases2 (fun r => P r.1) s call h0 h1 h2

/-- the split is consistent with the atomic pick: whenever `pickHold` would stop a pick, the ordinary
    pick on the same state does exactly what the stopped pick does when it is resumed at once —
    `newSubConn`, then "no SubConn available" -/
theorem pick_eq_hold_resume (s : St) (call pn : Nat) (m : String) (ctx : CtxKind) (dl : Option Int) (req : Req)
    (hfree : (callIdUsed s call || pickerBusy s pn) = false) (hw : wouldGrow s pn m ctx req = true) :
    opPick s call pn m ctx dl req = ((newSubConn s).1, (newSubConn s).2 ++ [.res "nosc"]) := by
  unfold wouldGrow at hw
  unfold opPick
  simp only [hfree, Bool.false_eq_true, ↓reduceIte]
  cases hp : s.published[pn]? with
  | none => rw [hp] at hw; simp at hw
  | some pub =>
    obtain ⟨st, p⟩ := pub
    rw [hp] at hw
    cases p with
    | errTF => simp at hw
    | errNoSc => simp at hw
    | gcp l =>
      cases hc : s.cfg with
      | none => rw [hc] at hw; simp at hw
      | some c =>
        rw [hc] at hw
        simp only [Bool.and_eq_true, Bool.not_eq_true'] at hw
        obtain ⟨hne, hrest⟩ := hw
        simp only [hne, Bool.false_eq_true, ↓reduceIte]
        generalize hrc : resolveCall c m ctx req = rc at hrest
        obtain ⟨cmd, loc, ok⟩ := rc
        cases ok with
        | none => simp at hrest
        | some key =>
          simp only [Bool.and_eq_true, Bool.not_eq_true', Bool.or_eq_true, beq_iff_eq] at hrest
          obtain ⟨⟨hrr, hkey⟩, hlb⟩ := hrest
          have hrr' : (cmd == Cmd.bind && c.rr) = false := hrr
          simp only [hrr', Bool.false_eq_true, ↓reduceIte]
          cases hl : leastBusy s l with
          | none => rw [hl] at hlb; simp at hlb
          | some mn =>
            rw [hl] at hlb
            simp only [Bool.and_eq_true, Bool.not_eq_true', decide_eq_false_iff_not, Bool.or_eq_true, beq_iff_eq,
              decide_eq_true_eq] at hlb
            obtain ⟨hwm, hmax⟩ := hlb
            have hglb : getLeastBusy s c l = ((newSubConn s).1, none, (newSubConn s).2) := by
              unfold getLeastBusy
              simp only [hl]
              have h1 : ¬ streamsOf s mn < (c.wm : Int) := hwm
              simp only [h1, ↓reduceIte]
              have h2 : (c.max == 0 || decide (s.scRefs.length < c.max)) = true := by
                simp only [Bool.or_eq_true, beq_iff_eq, decide_eq_true_eq]; exact hmax
              simp only [h2, ↓reduceIte]
            have hcs : chooseSlot s c l key = ((newSubConn s).1, none, (newSubConn s).2) := by
              unfold chooseSlot
              rcases hkey with hk | hk
              · subst hk; simp only [bne_self_eq_false, Bool.false_eq_true, ↓reduceIte]; exact hglb
              · by_cases hke : key = ""
                · subst hke; simp only [bne_self_eq_false, Bool.false_eq_true, ↓reduceIte]; exact hglb
                · have : (key != "") = true := by simpa using hke
                  simp only [this, ↓reduceIte]
                  have hnone : lookup s.affinity key = none := by
                    cases hh : lookup s.affinity key with
                    | none => rfl
                    | some x => rw [hh] at hk; simp at hk
                  have : getReadySubConnRef s c key = (s, none, false) := by
                    unfold getReadySubConnRef; rw [hnone]
                  rw [this]; exact hglb
            rw [hcs]
            rfl

end GcpVerif.Pool
