/-
C03 `initial_size` — for every configuration and every history of operations that precedes the
first resolver update (state reports for unknown connections, picks on pickers that do not exist,
completions of calls that were never placed, clock advances, factory settings): right after the
first resolver update with a non-empty address list and a working factory the pool holds exactly
`max(1, minSize)` connections, each created from the new address list.
-/
import GcpVerif.Proofs.PoolSlots
namespace GcpVerif.Pool

/-- no resolver update has been delivered yet -/
structure Pristine (ci : CfgInput) (s : St) : Prop where
  cin : s.cfgIn = ci
  cfg : s.cfg = none
  scRefs : s.scRefs = []
  scStates : s.scStates = []
  refs : s.refs = []
  rmap : s.refreshingMap = []
  calls : s.calls = []
  waiters : s.waiters = []
  published : s.published = []
  held : s.held = []

def notCcs : Op → Prop
  | .ccs _ => False
  | _ => True

theorem wake_no_waiters {s : St} (h : s.waiters = []) : wakeWaiters s = (s, []) := by
  unfold wakeWaiters; rw [h]; rfl

theorem pristine_init (ci : CfgInput) : Pristine ci (init ci) :=
  ⟨rfl, rfl, rfl, rfl, rfl, rfl, rfl, rfl, rfl, rfl⟩

theorem pristine_stepCore {ci : CfgInput} {s : St} (h : Pristine ci s) (op : Op) (hop : notCcs op) :
    Pristine ci (stepCore s op).1 := by
  cases op with
  | ccs v => exact absurd hop (by simp [notCcs])
  | reserr => exact h
  | scs sc st order =>
    have hl : lookup s.refreshingMap sc = none := by rw [h.rmap]; rfl
    have hs : stateOf s sc = none := by unfold stateOf; rw [h.scStates]; rfl
    simp only [stepCore, opScs, scsPrologue, hl, hs]
    exact h
  | factory n => exact ⟨h.cin, h.cfg, h.scRefs, h.scStates, h.refs, h.rmap, h.calls, h.waiters, h.published, h.held⟩
  | adv ns => exact ⟨h.cin, h.cfg, h.scRefs, h.scStates, h.refs, h.rmap, h.calls, h.waiters, h.published, h.held⟩
  | pick call pn m ctx dl req =>
    have hu : callIdUsed s call = false := by unfold callIdUsed; rw [h.calls, h.waiters, h.held]; rfl
    have hb : pickerBusy s pn = false := by unfold pickerBusy; rw [h.held]; rfl
    have hp : s.published[pn]? = none := by rw [h.published]; rfl
    simp only [stepCore, opPick, hu, hb, hp]
    exact h
  | ctxdone call =>
    have hf : s.waiters.find? (fun w => w.id == call) = none := by rw [h.waiters]; rfl
    simp only [stepCore, opCtxDone, hf]
    exact h
  | done call err reply =>
    have hf : s.calls.find? (fun c => c.id == call) = none := by rw [h.calls]; rfl
    simp only [stepCore, opDone, hf]
    exact h
  | pickHold call pn m ctx dl req =>
    have hu : callIdUsed s call = false := by unfold callIdUsed; rw [h.calls, h.waiters, h.held]; rfl
    have hb : pickerBusy s pn = false := by unfold pickerBusy; rw [h.held]; rfl
    have hp : s.published[pn]? = none := by rw [h.published]; rfl
    have hw : wouldGrow s pn m ctx req = false := by unfold wouldGrow; rw [hp]
    simp only [stepCore, opPickHold, opPick, hu, hb, hp, hw]
    exact h
  | resume call =>
    have hf : s.held.find? (fun x => x.1 == call) = none := by rw [h.held]; rfl
    simp only [stepCore, opResume, hf]
    exact h

theorem pristine_step {ci : CfgInput} {s : St} (h : Pristine ci s) (op : Op) (hop : notCcs op) :
    Pristine ci (step s op).1 := by
  have h1 := pristine_stepCore h op hop
  unfold step
  generalize stepCore s op = r at h1 ⊢
  obtain ⟨s1, ev⟩ := r
  simp only at h1 ⊢
  rw [wake_no_waiters h1.waiters]
  exact h1

theorem pristine_foldl {ci : CfgInput} (ops : List Op) : ∀ s, Pristine ci s → (∀ op ∈ ops, notCcs op) →
    Pristine ci (ops.foldl (fun s op => (step s op).1) s) := by
  induction ops with
  | nil => intro s h _; exact h
  | cons op ops ih =>
    intro s h hall
    exact ih _ (pristine_step h op (hall op List.mem_cons_self)) (fun o ho => hall o (List.mem_cons_of_mem _ ho))

theorem pristine_run (ci : CfgInput) (ops : List Op) (hall : ∀ op ∈ ops, notCcs op) : Pristine ci (run (init ci) ops) :=
  pristine_foldl ops _ (pristine_init ci) hall

/-! ### a working factory -/

theorem addSubConn_ok {s : St} (t : Tables s) (ha : s.addrs ≠ 0) (hf : s.failN = 0) :
    (addSubConn s).2.1 = true ∧ (addSubConn s).1.scRefs.length = s.scRefs.length + 1 ∧
    (addSubConn s).1.addrs = s.addrs ∧ (addSubConn s).1.failN = 0 ∧
    (addSubConn s).2.2 = [.newSc s.nextSc s.addrs, .connect s.nextSc] := by
  have hne : (s.addrs == 0) = false := by simpa using ha
  have hfz : ¬ (s.failN > 0) := by omega
  simp only [addSubConn, ccNewSubConn, hne, Bool.false_eq_true, ↓reduceIte, hfz, List.cons_append, List.nil_append]
  refine ⟨trivial, ?_, trivial, hf, trivial⟩
  exact length_insert_fresh (fresh_not_key t) _

theorem enforce_len (min : Nat) : ∀ (fuel : Nat) (s : St), Tables s → s.addrs ≠ 0 → s.failN = 0 →
    min ≤ s.scRefs.length + fuel →
    (enforceMinSize s min fuel).1.scRefs.length = max s.scRefs.length min := by
  intro fuel
  induction fuel with
  | zero =>
    intro s _ _ _ hle
    show s.scRefs.length = _
    omega
  | succ fuel ih =>
    intro s t ha hf hle
    unfold enforceMinSize
    split
    · rename_i hlt
      obtain ⟨h1, h2, h3, h4, -⟩ := addSubConn_ok t ha hf
      have t1 := tables_addSubConn t
      generalize addSubConn s = r at h1 h2 h3 h4 t1 ⊢
      obtain ⟨s1, ok, ev⟩ := r
      simp only at h1 h2 h3 h4 t1
      subst h1
      simp only
      rw [ih s1 t1 (by rw [h3]; exact ha) h4 (by omega), h2]
      omega
    · rename_i hge
      show s.scRefs.length = _
      omega

theorem initialCfg_min (ci : CfgInput) :
    (initialCfg ci).min = match ci with
      | .given c => max 1 c.min
      | .absent => 1 := by
  cases ci with
  | given c =>
    simp only [initialCfg, effective]
    split
    · rename_i h; have : c.min = 0 := by simpa using h
      rw [this]; rfl
    · rename_i h; have : c.min ≠ 0 := by simpa using h
      omega
  | absent => rfl

/-- **C03** after the first resolver update with a non-empty address list (and a factory that works)
    the pool holds exactly `max(1, minSize)` connections — whatever happened before that update -/
theorem initial_size (ci : CfgInput) (pre : List Op) (hpre : ∀ op ∈ pre, notCcs op) (ver : Nat) (hver : ver ≠ 0)
    (hfac : (run (init ci) pre).failN = 0) :
    (step (run (init ci) pre) (.ccs ver)).1.scRefs.length = (initialCfg ci).min ∧
    1 ≤ (initialCfg ci).min := by
  have hp := pristine_run ci pre hpre
  have t := tables_run ci pre
  generalize run (init ci) pre = s at hp t hfac
  have hmin1 : 1 ≤ (initialCfg ci).min := by
    rw [initialCfg_min]; cases ci with
    | given c => simp only; omega
    | absent => exact Nat.le_refl _
  refine ⟨?_, hmin1⟩
  -- the configure stage creates exactly `min` connections
  have t0 : Tables { s with addrs := ver, cfg := some (initialCfg s.cfgIn) } :=
    tables_of_same t ⟨rfl, rfl, rfl, rfl, rfl, rfl, rfl⟩
  have hlen := enforce_len (initialCfg s.cfgIn).min (initialCfg s.cfgIn).min
    { s with addrs := ver, cfg := some (initialCfg s.cfgIn) } t0 hver hfac (by simp only; omega)
  have h0 : ({ s with addrs := ver, cfg := some (initialCfg s.cfgIn) } : St).scRefs.length = 0 := by
    show s.scRefs.length = 0
    rw [hp.scRefs]; rfl
  rw [h0, Nat.zero_max] at hlen
  have hconf : (ccsConfigure { s with addrs := ver }).1.scRefs.length = (initialCfg ci).min := by
    unfold ccsConfigure
    simp only [hp.cfg]
    rw [← hp.cin]
    exact hlen
  -- the rest of the update and the wake-ups leave the slot table alone
  have hw : ∀ s' : St, (wakeWaiters s').1.scRefs = s'.scRefs := fun s' => (sameC_wake s').1.1
  unfold step
  simp only [stepCore]
  generalize hr : opCcs s ver = r
  obtain ⟨s3, ev⟩ := r
  simp only
  rw [hw s3]
  have : s3 = (opCcs s ver).1 := by rw [hr]
  rw [this]
  unfold opCcs
  generalize ccsConfigure { s with addrs := ver } = r1 at hconf ⊢
  obtain ⟨s1, ev0⟩ := r1
  simp only at hconf ⊢
  have hu := (updateAll_sameT s1 (ccsTargets s1)).2.1
  generalize updateAll s1 (ccsTargets s1) = r2 at hu ⊢
  obtain ⟨s2, ev1⟩ := r2
  simp only at hu ⊢
  have hne : s2.scRefs.isEmpty = false := by
    rw [hu]
    cases hs : s1.scRefs with
    | nil => rw [hs] at hconf; simp at hconf; omega
    | cons _ _ => rfl
  simp only [hne, Bool.false_eq_true, ↓reduceIte]
  rw [hu]; exact hconf

/-- the premises are satisfiable: the default configuration, some noise before the first update -/
example : (step (run (init .absent) [.adv 5, .scs 3 .ready [], .reserr]) (.ccs 1)).1.scRefs.length = 1 := by
  decide +kernel

/-! ### … also when earlier resolver updates carried no addresses (F26) -/

/-- no connection exists yet, no picker was published, nothing is in flight; the configuration may
    already have been fixed by an earlier resolver update whose address list was empty -/
structure Bare (ci : CfgInput) (s : St) : Prop where
  cin : s.cfgIn = ci
  cfg : s.cfg = none ∨ s.cfg = some (initialCfg ci)
  scRefs : s.scRefs = []
  scStates : s.scStates = []
  refs : s.refs = []
  rmap : s.refreshingMap = []
  calls : s.calls = []
  waiters : s.waiters = []
  published : s.published = []
  held : s.held = []

/-- operations before the first resolver update that carries addresses -/
def noAddrs : Op → Prop
  | .ccs v => v = 0
  | _ => True

theorem bare_init (ci : CfgInput) : Bare ci (init ci) :=
  ⟨rfl, Or.inl rfl, rfl, rfl, rfl, rfl, rfl, rfl, rfl, rfl⟩

theorem addSubConn_noaddrs {s : St} (ha : s.addrs = 0) : (addSubConn s).1 = s ∧ (addSubConn s).2.1 = false := by
  simp [addSubConn, ccNewSubConn, ha]

theorem enforce_noaddrs {s : St} (ha : s.addrs = 0) (min fuel : Nat) : (enforceMinSize s min fuel).1 = s := by
  cases fuel with
  | zero => rfl
  | succ fuel =>
    unfold enforceMinSize
    split
    · have h := addSubConn_noaddrs ha
      generalize addSubConn s = r at h ⊢
      obtain ⟨s1, ok, ev⟩ := r
      simp only at h
      obtain ⟨h1, h2⟩ := h
      subst h1; subst h2
      rfl
    · rfl

theorem updateAll_nil (s : St) : updateAll s [] = (s, []) := rfl

theorem bare_ccs0 {ci : CfgInput} {s : St} (h : Bare ci s) : Bare ci (opCcs s 0).1 := by
  unfold opCcs
  have hconf : (ccsConfigure { s with addrs := 0 }).1 = { s with addrs := 0, cfg := some (initialCfg ci) } := by
    unfold ccsConfigure
    rcases h.cfg with hc | hc
    · simp only [hc]
      rw [enforce_noaddrs (by rfl), h.cin]
    · simp only [hc]
  generalize ccsConfigure { s with addrs := 0 } = r1 at hconf ⊢
  obtain ⟨s1, ev0⟩ := r1
  simp only at hconf ⊢
  subst hconf
  have ht : ccsTargets { s with addrs := 0, cfg := some (initialCfg ci) } = [] := by
    unfold ccsTargets sortedKeys
    simp [h.scRefs, h.rmap]
  rw [ht, updateAll_nil]
  simp only [h.scRefs, List.isEmpty_nil, ↓reduceIte]
  rw [enforce_noaddrs (by rfl)]
  exact ⟨h.cin, Or.inr rfl, rfl, h.scStates, h.refs, h.rmap, h.calls, h.waiters, h.published, h.held⟩

theorem bare_stepCore {ci : CfgInput} {s : St} (h : Bare ci s) (op : Op) (hop : noAddrs op) :
    Bare ci (stepCore s op).1 := by
  cases op with
  | ccs v =>
    have : v = 0 := hop
    subst this
    exact bare_ccs0 h
  | reserr => exact h
  | scs sc st order =>
    have hl : lookup s.refreshingMap sc = none := by rw [h.rmap]; rfl
    have hs : stateOf s sc = none := by unfold stateOf; rw [h.scStates]; rfl
    simp only [stepCore, opScs, scsPrologue, hl, hs]
    exact h
  | factory n => exact ⟨h.cin, h.cfg, h.scRefs, h.scStates, h.refs, h.rmap, h.calls, h.waiters, h.published, h.held⟩
  | adv ns => exact ⟨h.cin, h.cfg, h.scRefs, h.scStates, h.refs, h.rmap, h.calls, h.waiters, h.published, h.held⟩
  | pick call pn m ctx dl req =>
    have hu : callIdUsed s call = false := by unfold callIdUsed; rw [h.calls, h.waiters, h.held]; rfl
    have hb : pickerBusy s pn = false := by unfold pickerBusy; rw [h.held]; rfl
    have hp : s.published[pn]? = none := by rw [h.published]; rfl
    simp only [stepCore, opPick, hu, hb, hp]
    exact h
  | ctxdone call =>
    have hf : s.waiters.find? (fun w => w.id == call) = none := by rw [h.waiters]; rfl
    simp only [stepCore, opCtxDone, hf]
    exact h
  | done call err reply =>
    have hf : s.calls.find? (fun c => c.id == call) = none := by rw [h.calls]; rfl
    simp only [stepCore, opDone, hf]
    exact h
  | pickHold call pn m ctx dl req =>
    have hu : callIdUsed s call = false := by unfold callIdUsed; rw [h.calls, h.waiters, h.held]; rfl
    have hb : pickerBusy s pn = false := by unfold pickerBusy; rw [h.held]; rfl
    have hp : s.published[pn]? = none := by rw [h.published]; rfl
    have hw : wouldGrow s pn m ctx req = false := by unfold wouldGrow; rw [hp]
    simp only [stepCore, opPickHold, opPick, hu, hb, hp, hw]
    exact h
  | resume call =>
    have hf : s.held.find? (fun x => x.1 == call) = none := by rw [h.held]; rfl
    simp only [stepCore, opResume, hf]
    exact h

theorem bare_step {ci : CfgInput} {s : St} (h : Bare ci s) (op : Op) (hop : noAddrs op) : Bare ci (step s op).1 := by
  have h1 := bare_stepCore h op hop
  unfold step
  generalize stepCore s op = r at h1 ⊢
  obtain ⟨s1, ev⟩ := r
  simp only at h1 ⊢
  rw [wake_no_waiters h1.waiters]
  exact h1

theorem bare_run (ci : CfgInput) (ops : List Op) (hall : ∀ op ∈ ops, noAddrs op) : Bare ci (run (init ci) ops) := by
  unfold run
  suffices h : ∀ s, Bare ci s → Bare ci (ops.foldl (fun s op => (step s op).1) s) from h _ (bare_init ci)
  induction ops with
  | nil => intro s h; exact h
  | cons op ops ih =>
    intro s h
    exact ih (fun o ho => hall o (List.mem_cons_of_mem _ ho)) _ (bare_step h op (hall op List.mem_cons_self))

/-- **C03 (F26)** after the first resolver update *with a non-empty address list* (and a factory that
    works) the pool holds exactly `max(1, minSize)` connections — whatever happened before, earlier
    resolver updates with an empty list (whose creation attempts all failed) included -/
theorem initial_size_nonempty (ci : CfgInput) (pre : List Op) (hpre : ∀ op ∈ pre, noAddrs op) (ver : Nat) (hver : ver ≠ 0)
    (hfac : (run (init ci) pre).failN = 0) :
    (step (run (init ci) pre) (.ccs ver)).1.scRefs.length = (initialCfg ci).min ∧ 1 ≤ (initialCfg ci).min := by
  have hb := bare_run ci pre hpre
  have t := tables_run ci pre
  generalize run (init ci) pre = s at hb t hfac
  have hmin1 : 1 ≤ (initialCfg ci).min := by
    rw [initialCfg_min]; cases ci with
    | given c => simp only; omega
    | absent => exact Nat.le_refl _
  refine ⟨?_, hmin1⟩
  have hw : ∀ s' : St, (wakeWaiters s').1.scRefs = s'.scRefs := fun s' => (sameC_wake s').1.1
  unfold step
  simp only [stepCore]
  generalize hr : opCcs s ver = r
  obtain ⟨s3, ev⟩ := r
  simp only
  rw [hw s3]
  have : s3 = (opCcs s ver).1 := by rw [hr]
  rw [this]
  rcases hb.cfg with hc | hc
  · -- the configuration is still to be fixed: the configure stage creates the pool
    have t0 : Tables { s with addrs := ver, cfg := some (initialCfg s.cfgIn) } :=
      tables_of_same t ⟨rfl, rfl, rfl, rfl, rfl, rfl, rfl⟩
    have hlen := enforce_len (initialCfg s.cfgIn).min (initialCfg s.cfgIn).min
      { s with addrs := ver, cfg := some (initialCfg s.cfgIn) } t0 hver hfac (by simp only; omega)
    have h0 : ({ s with addrs := ver, cfg := some (initialCfg s.cfgIn) } : St).scRefs.length = 0 := by
      show s.scRefs.length = 0
      rw [hb.scRefs]; rfl
    rw [h0, Nat.zero_max] at hlen
    have hconf : (ccsConfigure { s with addrs := ver }).1.scRefs.length = (initialCfg ci).min := by
      unfold ccsConfigure
      simp only [hc]
      rw [← hb.cin]
      exact hlen
    unfold opCcs
    generalize ccsConfigure { s with addrs := ver } = r1 at hconf ⊢
    obtain ⟨s1, ev0⟩ := r1
    simp only at hconf ⊢
    have hu := (updateAll_sameT s1 (ccsTargets s1)).2.1
    generalize updateAll s1 (ccsTargets s1) = r2 at hu ⊢
    obtain ⟨s2, ev1⟩ := r2
    simp only at hu ⊢
    have hne : s2.scRefs.isEmpty = false := by
      rw [hu]
      cases hs : s1.scRefs with
      | nil => rw [hs] at hconf; simp at hconf; omega
      | cons _ _ => rfl
    simp only [hne, Bool.false_eq_true, ↓reduceIte]
    rw [hu]; exact hconf
  · -- the configuration was fixed by an earlier update without addresses: the empty pool is created now
    unfold opCcs
    have hconf : ccsConfigure { s with addrs := ver } = ({ s with addrs := ver }, []) := by
      unfold ccsConfigure; simp only [hc]
    rw [hconf]
    simp only
    have ht : ccsTargets { s with addrs := ver } = [] := by
      unfold ccsTargets sortedKeys
      simp [hb.scRefs, hb.rmap]
    rw [ht, updateAll_nil]
    have he : ({ s with addrs := ver } : St).scRefs.isEmpty = true := by
      show s.scRefs.isEmpty = true
      rw [hb.scRefs]; rfl
    simp only [he, ↓reduceIte, hc]
    have t0 : Tables { s with addrs := ver, cfg := some (initialCfg ci) } := tables_of_same t ⟨rfl, rfl, rfl, rfl, rfl, rfl, rfl⟩
    have hlen := enforce_len (initialCfg ci).min (initialCfg ci).min { s with addrs := ver, cfg := some (initialCfg ci) } t0 hver hfac (by simp only; omega)
    have h0 : ({ s with addrs := ver, cfg := some (initialCfg ci) } : St).scRefs.length = 0 := by
      show s.scRefs.length = 0
      rw [hb.scRefs]; rfl
    rw [h0, Nat.zero_max] at hlen
    exact hlen

/-- the case the repair is about: minSize 3, a first update without addresses, then one with -/
example : (step (run (init (.given { min := 3, max := 4, wm := 100, fb := false, rr := false, uc := 0, ums := 0, methods := true }))
    [.ccs 0, .reserr, .ccs 0]) (.ccs 1)).1.scRefs.length = 3 := by decide +kernel

end GcpVerif.Pool
