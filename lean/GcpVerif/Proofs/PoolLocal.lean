/-
Pool model: theorems about the decision logic of single calls, for every state (no reachability
hypothesis needed).  C02 / C03 / C07 / C08 / C09 / C20 clauses that are statements about one pick,
one completion or one callback.
-/
import GcpVerif.Proofs.AList
import GcpVerif.Spec.Pool
namespace GcpVerif.Pool

/-! ### C02: least-loaded placement -/

theorem leastBusy_eq_none {s : St} {l : List Slot} : leastBusy s l = none ↔ l = [] := by
  cases l with
  | nil => simp [leastBusy]
  | cons x xs =>
    simp only [leastBusy]
    cases leastBusy s xs with
    | none => simp
    | some y => simp only; split <;> simp

/-- C02.2 the slot chosen by the scan is in the ready list of the picker used and no slot of that
    list has fewer active streams -/
theorem leastBusy_spec {s : St} {l : List Slot} {m : Slot} (h : leastBusy s l = some m) :
    m ∈ l ∧ ∀ j ∈ l, streamsOf s m ≤ streamsOf s j := by
  induction l generalizing m with
  | nil => simp [leastBusy] at h
  | cons x xs ih =>
    simp only [leastBusy] at h
    cases hxs : leastBusy s xs with
    | none =>
      rw [hxs] at h
      simp only [Option.some.injEq] at h
      subst h
      have : xs = [] := leastBusy_eq_none.mp hxs
      subst this
      simp
    | some y =>
      rw [hxs] at h
      simp only at h
      have ihy := ih hxs
      by_cases hlt : streamsOf s y < streamsOf s x
      · simp only [hlt, ↓reduceIte, Option.some.injEq] at h
        subst h
        refine ⟨List.mem_cons_of_mem _ ihy.1, ?_⟩
        intro j hj
        simp only [List.mem_cons] at hj
        rcases hj with rfl | hj
        · omega
        · exact ihy.2 j hj
      · simp only [hlt, ↓reduceIte, Option.some.injEq] at h
        subst h
        refine ⟨by simp, ?_⟩
        intro j hj
        simp only [List.mem_cons] at hj
        rcases hj with rfl | hj
        · omega
        · have := ihy.2 j hj; omega

/-- ties go to the first slot in the picker's order (the model is deterministic given that order) -/
theorem leastBusy_first_on_tie {s : St} {x : Slot} {xs : List Slot} {y : Slot}
    (h : leastBusy s xs = some y) (htie : streamsOf s y = streamsOf s x) :
    leastBusy s (x :: xs) = some x := by
  simp [leastBusy, h, htie]

/-! ### C03: growth only when saturated; at maxSize calls are placed anyway -/

theorem newSubConn_no_events_if_connecting {s : St}
    (h : s.scStates.any (fun p => p.2 == .connecting || p.2 == .idle) = true) :
    newSubConn s = (s, []) := by
  simp [newSubConn, h]

theorem newSubConn_no_events_if_room {s : St} (h : readyBelowWm s = true) : newSubConn s = (s, []) := by
  simp [newSubConn, h]

/-- what `readyBelowWm s = false` says: every READY channel of the pool — whether the picker that was
    used lists it or not — carries at least watermark-many streams -/
theorem all_ready_saturated {s : St} {c : Cfg} (hc : s.cfg = some c) (h : readyBelowWm s = false) :
    ∀ r ∈ s.refs, lookup s.scStates r.subConn = some .ready → (c.wm : Int) ≤ r.streamsCnt := by
  intro r hr hst
  unfold readyBelowWm at h
  rw [hc] at h
  simp only [List.any_eq_false, Bool.and_eq_true, beq_iff_eq, decide_eq_true_eq, not_and] at h
  have := h r hr hst
  omega

/-- C03.2 the plain-pick path adds a connection only if every READY channel of the pool (F37) and every slot of its ready list is at or above
    the watermark, the pool is below maxSize and no connection is idle or connecting; and then the
    call is told to wait -/
theorem growth_only_when_saturated {s s' : St} {c : Cfg} {l : List Slot} {r : Option Slot} {ev : List Event}
    (h : getLeastBusy s c l = (s', r, ev)) (hev : ev ≠ []) :
    r = none ∧ (∀ j ∈ l, (c.wm : Int) ≤ streamsOf s j) ∧ (c.max = 0 ∨ s.scRefs.length < c.max) ∧
    s.scStates.any (fun p => p.2 == .connecting || p.2 == .idle) = false ∧ readyBelowWm s = false := by
  unfold getLeastBusy at h
  cases hm : leastBusy s l with
  | none => rw [hm] at h; simp at h; first | exact absurd h.2.2 hev | exact absurd h.2.2.symm hev
  | some m =>
    rw [hm] at h
    simp only at h
    by_cases hwm : streamsOf s m < c.wm
    · simp only [hwm, ↓reduceIte, Prod.mk.injEq] at h; first | exact absurd h.2.2 hev | exact absurd h.2.2.symm hev
    · simp only [hwm, ↓reduceIte] at h
      by_cases hmax : (c.max == 0 || decide (s.scRefs.length < c.max)) = true
      · simp only [hmax, ↓reduceIte] at h
        have hspec := leastBusy_spec hm
        by_cases hany : s.scStates.any (fun p => p.2 == .connecting || p.2 == .idle) = true
        · rw [newSubConn_no_events_if_connecting hany] at h
          simp only [Prod.mk.injEq] at h
          first | exact absurd h.2.2 hev | exact absurd h.2.2.symm hev
        · by_cases hroom : readyBelowWm s = true
          · rw [newSubConn_no_events_if_room hroom] at h
            simp only [Prod.mk.injEq] at h
            first | exact absurd h.2.2 hev | exact absurd h.2.2.symm hev
          simp only [Prod.mk.injEq] at h
          refine ⟨h.2.1.symm, ?_, ?_, by simpa using hany, by simpa using hroom⟩
          · intro j hj
            have := hspec.2 j hj
            omega
          · simp only [Bool.or_eq_true, beq_iff_eq, decide_eq_true_eq] at hmax
            exact hmax
      · simp only [hmax, Bool.false_eq_true, ↓reduceIte, Prod.mk.injEq] at h
        first | exact absurd h.2.2 hev | exact absurd h.2.2.symm hev

/-- C03.3 at maxSize (no capacity left) the call is placed on the least-loaded slot even above the
    watermark, and nothing is created -/
theorem at_max_places_anyway {s : St} {c : Cfg} {l : List Slot} {m : Slot}
    (hm : leastBusy s l = some m) (hmax : c.max ≠ 0) (hfull : c.max ≤ s.scRefs.length) :
    getLeastBusy s c l = (s, some m, []) := by
  unfold getLeastBusy
  rw [hm]
  simp only
  by_cases hwm : streamsOf s m < c.wm
  · simp [hwm]
  · have : (c.max == 0 || decide (s.scRefs.length < c.max)) = false := by
      simp only [Bool.or_eq_false_iff, beq_eq_false_iff_ne, ne_eq, decide_eq_false_iff_not]
      exact ⟨hmax, by omega⟩
    simp [hwm, this]

/-- below the watermark the call is simply placed on the least-loaded slot -/
theorem below_watermark_places {s : St} {c : Cfg} {l : List Slot} {m : Slot}
    (hm : leastBusy s l = some m) (hwm : streamsOf s m < c.wm) :
    getLeastBusy s c l = (s, some m, []) := by
  simp [getLeastBusy, hm, hwm]

/-! ### C01 / C08: keyed lookups -/

/-- C01.2 a bound key whose channel is READY resolves to that channel's slot; nothing changes -/
theorem bound_ready_home {s : St} {c : Cfg} {key : String} {sc : Sc}
    (hb : lookup s.affinity key = some sc) (hr : isReadySc s sc = true) :
    getReadySubConnRef s c key = (s, lookup s.scRefs sc, true) := by
  simp [getReadySubConnRef, hb, hr]

/-- C01.4 fallback disabled and the channel not READY: no slot — the call is told to wait, and it
    is "known" (the picker does not fall through to the least-loaded channel) -/
theorem bound_notready_no_fallback {s : St} {c : Cfg} {key : String} {sc : Sc}
    (hb : lookup s.affinity key = some sc) (hr : isReadySc s sc = false) (hfb : c.fb = false) :
    getReadySubConnRef s c key = (s, none, true) := by
  simp [getReadySubConnRef, hb, hr, hfb]

/-- an unknown key is reported as unknown (the caller then uses the least-loaded path) -/
theorem unknown_key {s : St} {c : Cfg} {key : String} (hb : lookup s.affinity key = none) :
    getReadySubConnRef s c key = (s, none, false) := by
  simp [getReadySubConnRef, hb]

/-- C08.2 an existing stand-in is reused -/
theorem fallback_sticky {s : St} {c : Cfg} {key : String} {sc sc' : Sc}
    (hb : lookup s.affinity key = some sc) (hr : isReadySc s sc = false) (hfb : c.fb = true)
    (hf : lookup s.fallback key = some sc') :
    getReadySubConnRef s c key = (s, lookup s.scRefs sc', true) := by
  simp [getReadySubConnRef, hb, hr, hfb, hf]

/-- C08.1 with no stand-in yet, the least-loaded READY slot of the current picker is taken —
    whatever the stream counts are (no watermark, no growth) — and remembered -/
theorem fallback_new {s : St} {c : Cfg} {key : String} {sc : Sc} {l : List Slot} {slot : Slot} {r : RefSt}
    (hb : lookup s.affinity key = some sc) (hr : isReadySc s sc = false) (hfb : c.fb = true)
    (hf : lookup s.fallback key = none) (hp : s.picker = .gcp l) (hl : leastBusy s l = some slot)
    (hg : getRef s slot = some r) :
    getReadySubConnRef s c key = ({ s with fallback := insert s.fallback key r.subConn }, some slot, true) := by
  simp [getReadySubConnRef, hb, hr, hfb, hf, hp, hl, hg]

/-- C08.4 the keyed lookup never changes which channel a key is bound to -/
theorem lookup_preserves_binding (s : St) (c : Cfg) (key : String) :
    (getReadySubConnRef s c key).1.affinity = s.affinity := by
  unfold getReadySubConnRef
  repeat' split
  all_goals rfl

theorem bumpAffinity_affinity (s : St) (sc : Sc) (d : Int) : (bumpAffinity s sc d).affinity = s.affinity := by
  unfold bumpAffinity
  split <;> rfl

/-- C01: a BIND for an already-bound key does not move it -/
theorem bind_bound_key_noop {s : St} {key : String} {sc sc0 : Sc}
    (hb : lookup s.affinity key = some sc0) : (bindSubConn s key sc).affinity = s.affinity := by
  simp [bindSubConn, bumpAffinity_affinity, addBinding, hb]

/-- C01: a first BIND binds the key to the connection of the call's slot -/
theorem bind_new_key {s : St} {key : String} {sc : Sc}
    (hb : lookup s.affinity key = none) : (bindSubConn s key sc).affinity = s.affinity ++ [(key, sc)] := by
  simp [bindSubConn, bumpAffinity_affinity, addBinding, hb]

/-- C01: after UNBIND the key is unknown again -/
theorem unbind_removes (s : St) (key : String) : lookup (unbindSubConn s key).affinity key = none := by
  unfold unbindSubConn
  cases h : lookup s.affinity key with
  | none => simpa using h
  | some sc =>
    simp only [dropBinding, bumpAffinity_affinity]
    exact lookup_erase_self _ _

/-- UNBIND leaves every other key alone -/
theorem unbind_other (s : St) {key key' : String} (hne : key ≠ key') :
    lookup (unbindSubConn s key).affinity key' = lookup s.affinity key' := by
  unfold unbindSubConn
  cases h : lookup s.affinity key with
  | none => rfl
  | some sc =>
    simp only [dropBinding, bumpAffinity_affinity]
    exact lookup_erase_ne _ hne

/-! ### C07: the detector -/

/-- C07.3 with detection disabled nothing ever happens on completion -/
theorem disabled_never_refreshes {s : St} {c : Cfg} (call : Call) (err : ErrKind)
    (h : c.detection = false) : detectUnresponsive s c call err = (s, []) := by
  simp [detectUnresponsive, h]

/-- C07.3 any completion that is not a client-side deadline error counts as a response:
    lastResp := now, counters reset, no refresh -/
theorem response_resets {s : St} {c : Cfg} (call : Call) (err : ErrKind)
    (hd : c.detection = true) (hr : isResponse s err call.dl = true) :
    detectUnresponsive s c call err =
      (modRef s call.slot fun r => { r with lastResp := s.now, deCalls := 0, refreshCnt := 0 }, []) := by
  simp [detectUnresponsive, hd, hr]

/-- what counts as a response: everything except DEADLINE_EXCEEDED with the client-side message on
    a context whose deadline has passed -/
theorem isResponse_iff (s : St) (err : ErrKind) (dl : Option Int) :
    isResponse s err dl = false ↔ err = .deClient ∧ ∃ d, dl = some d ∧ d ≤ s.now := by
  unfold isResponse
  cases err <;> cases dl <;> simp

/-- a call that started before the channel's last response is ignored -/
theorem stale_call_ignored {s : St} {c : Cfg} (call : Call) (err : ErrKind) {r : RefSt}
    (hd : c.detection = true) (hr : isResponse s err call.dl = false)
    (hg : getRef s call.slot = some r) (hst : call.started < r.lastResp) :
    detectUnresponsive s c call err = (s, []) := by
  simp [detectUnresponsive, hd, hr, hg, hst]

/-- C07.2 the trigger: a qualifying completion starts `refresh` exactly when, counting this one, at
    least `uc` such calls ended since the last response and more than the (uint32) window passed -/
theorem refresh_trigger {s : St} {c : Cfg} (call : Call) (err : ErrKind) {r : RefSt}
    (hd : c.detection = true) (hr : isResponse s err call.dl = false)
    (hg : getRef s call.slot = some r) (hst : ¬ call.started < r.lastResp) :
    detectUnresponsive s c call err =
      if satInc r.deCalls ≥ c.uc ∧ r.lastResp < s.now - windowNs c r.refreshCnt
      then refresh (modRef s call.slot fun r => { r with deCalls := satInc r.deCalls }) call.slot
      else (modRef s call.slot fun r => { r with deCalls := satInc r.deCalls }, []) := by
  simp only [detectUnresponsive, hd, hr, hg, hst]
  simp only [Bool.not_true, Bool.false_eq_true, ↓reduceIte, modRef]
  by_cases h1 : satInc r.deCalls ≥ c.uc
  · by_cases h2 : r.lastResp < s.now - windowNs c r.refreshCnt
    · simp [h1, h2]
    · simp [h1, h2]
  · simp [h1]

/-- the counter counts, as long as it fits: below the largest uint32 value `satInc` is `+ 1`, and at that
    value the trigger condition `≥ unresponsive_calls` (a uint32) holds anyway (F38: the counter used to
    wrap to 0 there, and the refresh that was due did not happen) -/
theorem satInc_counts (n : Nat) : (n < 4294967295 → satInc n = n + 1) ∧ (n ≤ satInc n) ∧
    (∀ uc, uc ≤ 4294967295 → 4294967295 ≤ n → uc ≤ satInc n) := by
  unfold satInc
  refine ⟨fun h => by simp [h], by split <;> omega, fun uc h1 h2 => by split <;> omega⟩

/-- the window doubles with every refresh since the last response; it never wraps around: beyond the
    range of time.Duration it saturates -/
theorem window_exponential (c : Cfg) (k : Nat) (hk : k < 63) (h : c.ums ≤ ((2^63 - 1) / 1000000) / 2 ^ k) :
    windowNs c k = ((c.ums * 2 ^ k : Nat) : Int) * 1000000 := by
  unfold windowNs
  have h1 : ¬ (k ≥ 63) := by omega
  have h2 : ¬ (c.ums > (2 ^ 63 - 1) / 1000000 / 2 ^ k) := by omega
  simp [h1, h2]

theorem window_monotone_or_saturated (c : Cfg) (k : Nat) :
    windowNs c k = 2^63 - 1 ∨ windowNs c k = ((c.ums * 2 ^ k : Nat) : Int) * 1000000 := by
  unfold windowNs
  simp only
  split
  · left; rfl
  · right; rfl

/-- `refresh` when a refresh of the slot is already in progress: no second replacement -/
theorem refresh_once {s : St} {slot : Slot} {r : RefSt} (hg : getRef s slot = some r)
    (hr : r.refreshing = true) : refresh s slot = (s, []) := by
  simp [refresh, hg, hr]

/-! ### C09: round-robin assignment -/

/-- the slot of the j-th BIND pick depends only on j and the number of slots -/
theorem rrSlot_succ (j n : Nat) :
    rrSlot (j + 1) n = ((2^64 - 1 + j + 1) % 2^64) % n := rfl

/-- successive BIND picks walk the slots cyclically while the cursor does not wrap -/
theorem rr_next_slot (rr n : Nat) (hn : 0 < n) (hw : rr + 1 < 2 ^ 64) :
    ((rr + 1) % 2 ^ 64) % n = (rr % n + 1) % n := by
  rw [Nat.mod_eq_of_lt hw, Nat.add_mod]
  by_cases h1 : n = 1
  · subst h1; simp
  · have : 1 % n = 1 := Nat.mod_eq_of_lt (by omega)
    rw [this]

/-! ### C20 -/

/-- a resolver error changes nothing -/
theorem resolver_error_identity (s : St) : stepCore s .reserr = (s, [.res "ok"]) := rfl

end GcpVerif.Pool
