/-
Association-list lemmas for the pool model (`lookup`, `insert`, `erase` of Model/Pool.lean).
-/
import GcpVerif.Model.Pool
namespace GcpVerif.Pool

variable {α β : Type} [DecidableEq α]

set_option linter.unusedSectionVars false

def keys (l : List (α × β)) : List α := l.map (·.1)

theorem lookup_nil (k : α) : lookup ([] : List (α × β)) k = none := rfl

theorem lookup_cons (p : α × β) (l : List (α × β)) (k : α) :
    lookup (p :: l) k = if p.1 == k then some p.2 else lookup l k := by
  unfold lookup
  simp only [List.find?_cons]
  split <;> simp_all

theorem keys_cons (p : α × β) (l : List (α × β)) : keys (p :: l) = p.1 :: keys l := rfl

theorem lookup_eq_none {l : List (α × β)} {k : α} : lookup l k = none ↔ k ∉ keys l := by
  induction l with
  | nil => simp [lookup, keys]
  | cons p l ih =>
    rw [lookup_cons, keys_cons]
    by_cases h : p.1 = k
    · subst h
      simp
    · have h' : ¬ (p.1 == k) = true := by simpa using h
      simp only [h', Bool.false_eq_true, ↓reduceIte, ih, List.mem_cons, not_or]
      constructor
      · intro h2; exact ⟨fun h3 => h h3.symm, h2⟩
      · intro h2; exact h2.2

theorem lookup_isSome {l : List (α × β)} {k : α} : (lookup l k).isSome ↔ k ∈ keys l := by
  cases h : lookup l k with
  | none => simp [lookup_eq_none.mp h]
  | some v =>
    simp only [Option.isSome_some, true_iff]
    apply Classical.byContradiction
    intro hn
    rw [lookup_eq_none.mpr hn] at h
    cases h

theorem lookup_some_mem {l : List (α × β)} {k : α} {v : β} (h : lookup l k = some v) : (k, v) ∈ l := by
  induction l with
  | nil => simp [lookup] at h
  | cons p l ih =>
    rw [lookup_cons] at h
    by_cases h1 : p.1 == k
    · simp only [h1, ↓reduceIte, Option.some.injEq] at h
      have := eq_of_beq h1
      simp only [List.mem_cons]
      left
      cases p; simp_all
    · simp only [h1, Bool.false_eq_true, ↓reduceIte] at h
      exact List.mem_cons_of_mem _ (ih h)

/-! ### erase -/

theorem lookup_erase_self (l : List (α × β)) (k : α) : lookup (erase l k) k = none := by
  rw [lookup_eq_none]
  simp [keys, erase]

theorem lookup_erase_ne (l : List (α × β)) {k k' : α} (h : k ≠ k') : lookup (erase l k) k' = lookup l k' := by
  induction l with
  | nil => rfl
  | cons p l ih =>
    unfold erase at ih ⊢
    simp only [List.filter_cons]
    by_cases h1 : p.1 == k
    · have : ¬ (p.1 == k') = true := by
        intro h2; exact h ((eq_of_beq h1).symm.trans (eq_of_beq h2))
      simp only [h1, Bool.not_true, Bool.false_eq_true, ↓reduceIte, ih, lookup_cons, this]
    · simp only [h1, Bool.not_false, ↓reduceIte, lookup_cons, ih]

theorem keys_erase (l : List (α × β)) (k : α) : keys (erase l k) = (keys l).filter (fun x => !(x == k)) := by
  unfold keys erase
  induction l with
  | nil => rfl
  | cons p l ih => simp only [List.filter_cons, List.map_cons]; split <;> simp_all

theorem mem_keys_erase {l : List (α × β)} {k x : α} (h : x ∈ keys (erase l k)) : x ∈ keys l := by
  rw [keys_erase] at h
  exact (List.mem_filter.mp h).1

theorem nodup_erase {l : List (α × β)} (h : (keys l).Nodup) (k : α) : (keys (erase l k)).Nodup := by
  rw [keys_erase]; exact h.filter _

theorem mem_erase {l : List (α × β)} {k : α} {p : α × β} : p ∈ erase l k ↔ p ∈ l ∧ p.1 ≠ k := by
  simp [erase]

/-! ### insert -/

theorem insert_of_mem {l : List (α × β)} {k : α} (h : k ∈ keys l) (v : β) :
    insert l k v = l.map fun p => if p.1 == k then (k, v) else p := by
  unfold insert
  have : (l.any fun p => p.1 == k) = true := by
    simp only [List.any_eq_true]
    simp only [keys, List.mem_map] at h
    obtain ⟨p, hp, rfl⟩ := h
    exact ⟨p, hp, by simp⟩
  simp [this]

theorem insert_of_not_mem {l : List (α × β)} {k : α} (h : k ∉ keys l) (v : β) :
    insert l k v = l ++ [(k, v)] := by
  unfold insert
  have : (l.any fun p => p.1 == k) = false := by
    simp only [List.any_eq_false]
    intro p hp hpk
    exact h (by simp only [keys, List.mem_map]; exact ⟨p, hp, eq_of_beq hpk⟩)
  simp [this]

theorem keys_insert_of_mem {l : List (α × β)} {k : α} (h : k ∈ keys l) (v : β) :
    keys (insert l k v) = keys l := by
  rw [insert_of_mem h]
  simp only [keys, List.map_map]
  apply List.map_congr_left
  intro p _
  simp only [Function.comp]
  split
  · rename_i h1; exact (eq_of_beq h1).symm
  · rfl

theorem keys_insert_of_not_mem {l : List (α × β)} {k : α} (h : k ∉ keys l) (v : β) :
    keys (insert l k v) = keys l ++ [k] := by
  rw [insert_of_not_mem h]; simp [keys]

theorem mem_keys_insert {l : List (α × β)} {k k' : α} {v : β} :
    k' ∈ keys (insert l k v) ↔ k' = k ∨ k' ∈ keys l := by
  by_cases h : k ∈ keys l
  · rw [keys_insert_of_mem h]
    constructor
    · exact Or.inr
    · rintro (rfl | h2) <;> assumption
  · rw [keys_insert_of_not_mem h]
    simp only [List.mem_append, List.mem_singleton]
    constructor
    · rintro (h2 | h2); exact Or.inr h2; exact Or.inl h2
    · rintro (h2 | h2); exact Or.inr h2; exact Or.inl h2

theorem nodup_insert {l : List (α × β)} (h : (keys l).Nodup) (k : α) (v : β) :
    (keys (insert l k v)).Nodup := by
  by_cases hk : k ∈ keys l
  · rw [keys_insert_of_mem hk]; exact h
  · rw [keys_insert_of_not_mem hk]
    rw [List.nodup_append]
    refine ⟨h, by simp, ?_⟩
    intro a ha b hb
    simp only [List.mem_singleton] at hb
    subst hb
    exact fun heq => hk (heq ▸ ha)

theorem lookup_insert_self (l : List (α × β)) (k : α) (v : β) : lookup (insert l k v) k = some v := by
  by_cases hk : k ∈ keys l
  · rw [insert_of_mem hk]
    induction l with
    | nil => simp [keys] at hk
    | cons p l ih =>
      simp only [List.map_cons, lookup_cons]
      by_cases h1 : p.1 == k
      · simp [h1]
      · simp only [h1, Bool.false_eq_true, ↓reduceIte]
        apply ih
        simp only [keys, List.map_cons, List.mem_cons] at hk
        rcases hk with hk | hk
        · exact absurd (by simp [hk]) h1
        · exact hk
  · rw [insert_of_not_mem hk]
    induction l with
    | nil => simp [lookup]
    | cons p l ih =>
      simp only [List.cons_append, lookup_cons]
      simp only [keys, List.map_cons, List.mem_cons, not_or] at hk
      have : ¬ (p.1 == k) = true := fun h => hk.1 (eq_of_beq h).symm
      simp only [this, Bool.false_eq_true, ↓reduceIte]
      exact ih hk.2

theorem lookup_insert_ne (l : List (α × β)) {k k' : α} (v : β) (h : k ≠ k') :
    lookup (insert l k v) k' = lookup l k' := by
  by_cases hk : k ∈ keys l
  · rw [insert_of_mem hk]
    clear hk
    induction l with
    | nil => rfl
    | cons p l ih =>
      simp only [List.map_cons, lookup_cons]
      by_cases h1 : p.1 == k
      · have h2 : ¬ (p.1 == k') = true := fun h2 => h ((eq_of_beq h1).symm.trans (eq_of_beq h2))
        have h3 : ¬ (k == k') = true := fun h3 => h (eq_of_beq h3)
        simp only [h1, h2, h3, ↓reduceIte, Bool.false_eq_true]
        exact ih
      · simp only [h1, Bool.false_eq_true, ↓reduceIte, ih]
  · rw [insert_of_not_mem hk]
    clear hk
    induction l with
    | nil =>
      have h3 : ¬ (k == k') = true := fun h3 => h (eq_of_beq h3)
      simp [lookup, h3]
    | cons p l ih => simp only [List.cons_append, lookup_cons, ih]

theorem lookup_insert (l : List (α × β)) (k k' : α) (v : β) :
    lookup (insert l k v) k' = if k = k' then some v else lookup l k' := by
  by_cases h : k = k'
  · subst h; simp [lookup_insert_self]
  · simp [h, lookup_insert_ne l v h]

theorem lookup_erase (l : List (α × β)) (k k' : α) :
    lookup (erase l k) k' = if k = k' then none else lookup l k' := by
  by_cases h : k = k'
  · subst h; simp [lookup_erase_self]
  · simp [h, lookup_erase_ne l h]

/-- with distinct keys, membership determines the lookup -/
theorem lookup_of_mem {l : List (α × β)} (h : (keys l).Nodup) {k : α} {v : β} (hm : (k, v) ∈ l) :
    lookup l k = some v := by
  induction l with
  | nil => cases hm
  | cons p l ih =>
    rw [lookup_cons]
    simp only [keys, List.map_cons, List.nodup_cons] at h
    simp only [List.mem_cons] at hm
    rcases hm with hm | hm
    · subst hm; simp
    · have : ¬ (p.1 == k) = true := by
        intro h1
        apply h.1
        rw [eq_of_beq h1]
        simp only [List.mem_map]
        exact ⟨(k, v), hm, rfl⟩
      simp only [this, Bool.false_eq_true, ↓reduceIte]
      exact ih h.2 hm

end GcpVerif.Pool
