/-
Helper lemmas for the MultiEndpoint model (no property statements here; those are in ME.lean).
-/
import GcpVerif.Model.ME
import GcpVerif.Spec.ME
namespace GcpVerif.ME

/-! ### topOf -/

theorem foldl_better_some (l : List Ep) (a : Ep) : ∃ t, l.foldl better (some a) = some t := by
  induction l generalizing a with
  | nil => exact ⟨a, rfl⟩
  | cons x xs ih =>
    simp only [List.foldl_cons, better]
    split <;> exact ih _

theorem foldl_better_mem (l : List Ep) (a t : Ep) (h : l.foldl better (some a) = some t) :
    t = a ∨ t ∈ l := by
  induction l generalizing a with
  | nil => simp at h; exact Or.inl h.symm
  | cons x xs ih =>
    simp only [List.foldl_cons, better] at h
    split at h
    · rcases ih _ h with h1 | h1
      · exact Or.inr (by simp [h1])
      · exact Or.inr (by simp [h1])
    · rcases ih _ h with h1 | h1
      · exact Or.inl h1
      · exact Or.inr (by simp [h1])

theorem foldl_better_min (l : List Ep) (a t : Ep) (h : l.foldl better (some a) = some t) :
    t.prio ≤ a.prio ∧ ∀ e ∈ l, t.prio ≤ e.prio := by
  induction l generalizing a with
  | nil => simp at h; subst h; simp
  | cons x xs ih =>
    simp only [List.foldl_cons, better] at h
    split at h
    · rename_i hgt
      have := ih _ h
      refine ⟨by omega, ?_⟩
      intro e he
      simp at he
      rcases he with rfl | he
      · exact this.1
      · exact this.2 e he
    · rename_i hgt
      have := ih _ h
      refine ⟨this.1, ?_⟩
      intro e he
      simp at he
      rcases he with rfl | he
      · omega
      · exact this.2 e he

theorem topOf_nil : topOf [] = none := rfl

theorem topOf_eq_none {l : List Ep} : topOf l = none ↔ l = [] := by
  cases l with
  | nil => simp [topOf]
  | cons x xs =>
    simp only [topOf, List.foldl_cons, better]
    obtain ⟨t, ht⟩ := foldl_better_some xs x
    simp [ht]

theorem topOf_mem {l : List Ep} {t : Ep} (h : topOf l = some t) : t ∈ l := by
  cases l with
  | nil => simp [topOf] at h
  | cons x xs =>
    simp only [topOf, List.foldl_cons, better] at h
    rcases foldl_better_mem xs x t h with h1 | h1 <;> simp [h1]

theorem topOf_min {l : List Ep} {t : Ep} (h : topOf l = some t) : ∀ e ∈ l, t.prio ≤ e.prio := by
  cases l with
  | nil => simp [topOf] at h
  | cons x xs =>
    simp only [topOf, List.foldl_cons, better] at h
    have := foldl_better_min xs x t h
    intro e he
    simp at he
    rcases he with rfl | he
    · exact this.1
    · exact this.2 e he

theorem topAvail_mem {eps : List Ep} {t : Ep} (h : topAvail eps = some t) :
    t ∈ eps ∧ t.status = .available := by
  have := topOf_mem h
  simp [isAvail] at this
  exact this

theorem topAvail_min {eps : List Ep} {t : Ep} (h : topAvail eps = some t) :
    ∀ e ∈ eps, e.status = .available → t.prio ≤ e.prio := by
  intro e he ha
  exact topOf_min h e (by simp [isAvail, he, ha])

theorem topAvail_eq_none {eps : List Ep} : topAvail eps = none ↔ ∀ e ∈ eps, e.status ≠ .available := by
  simp [topAvail, topOf_eq_none, isAvail]

theorem anyAvail_eq_false {eps : List Ep} : anyAvail eps = false ↔ ∀ e ∈ eps, e.status ≠ .available := by
  simp [anyAvail, isAvail]

theorem anyAvail_iff_topAvail {eps : List Ep} : anyAvail eps = true ↔ ∃ t, topAvail eps = some t := by
  cases h : topAvail eps with
  | none =>
    have := topAvail_eq_none.mp h
    have h2 := anyAvail_eq_false.mpr this
    simp [h2]
  | some t =>
    have := topAvail_mem h
    simp only [anyAvail, List.any_eq_true, isAvail]
    constructor
    · intro _; exact ⟨t, rfl⟩
    · intro _; exact ⟨t, this.1, by simp [this.2]⟩

/-! ### findEp -/

theorem findEp_some {eps : List Ep} {id : String} {e : Ep} (h : findEp eps id = some e) :
    e ∈ eps ∧ e.id = id := by
  unfold findEp at h
  have h1 := List.mem_of_find?_eq_some h
  have h2 := List.find?_some h
  simp at h2
  exact ⟨h1, h2⟩

theorem findEp_none {eps : List Ep} {id : String} : findEp eps id = none ↔ ∀ e ∈ eps, e.id ≠ id := by
  simp [findEp]

theorem findEp_isSome_iff {eps : List Ep} {id : String} :
    (ids eps).contains id = true ↔ ∃ e, findEp eps id = some e := by
  cases h : findEp eps id with
  | none =>
    have := findEp_none.mp h
    simp [ids]
    intro x hx
    exact fun hc => this x hx hc
  | some e =>
    have := findEp_some h
    simp [ids]
    exact ⟨e, this.1, this.2⟩

/-- with id-injective tables, membership determines the lookup -/
theorem findEp_of_mem {eps : List Ep} (hinj : ∀ a ∈ eps, ∀ b ∈ eps, a.id = b.id → a = b)
    {e : Ep} (he : e ∈ eps) : findEp eps e.id = some e := by
  cases h : findEp eps e.id with
  | none => exact absurd rfl (findEp_none.mp h e he)
  | some x =>
    have := findEp_some h
    rw [hinj x this.1 e he this.2]

end GcpVerif.ME
