/-
C18: the executable float model `F53` (round-to-nearest-even, 53-bit significands — compared bit for
bit with Go's float64 on every run) satisfies the `Laws` the backoff theorems assume.  Hence
`backoff_ge_base`, `backoff_le_max`, `backoff_mono_retries` hold for the arithmetic the prober runs.
-/
import GcpVerif.Model.Prober
import GcpVerif.Proofs.Prober
namespace GcpVerif.Prober
open F53

/-- a * 2^e scaled to the common exponent `k` (k ≤ e) -/
def sc (a : F53) (k : Int) : Nat := a.m * 2 ^ ((a.e - k).toNat)

theorem sc_shift (a : F53) {k k' : Int} (h1 : k' ≤ k) (h2 : k ≤ a.e) :
    sc a k' = sc a k * 2 ^ ((k - k').toNat) := by
  unfold sc
  have : (a.e - k').toNat = (a.e - k).toNat + (k - k').toNat := by omega
  rw [this, Nat.pow_add, Nat.mul_assoc]

theorem leQ_iff (a b : F53) : leQ a b = true ↔ sc a (min a.e b.e) ≤ sc b (min a.e b.e) := by
  unfold leQ sc
  simp only [decide_eq_true_eq]

/-- the comparison does not depend on the common exponent chosen -/
theorem leQ_iff_sc (a b : F53) {k : Int} (ha : k ≤ a.e) (hb : k ≤ b.e) :
    leQ a b = true ↔ sc a k ≤ sc b k := by
  rw [leQ_iff]
  have hk : k ≤ min a.e b.e := by omega
  rw [sc_shift a hk (by omega), sc_shift b hk (by omega)]
  have hpos : 0 < 2 ^ ((min a.e b.e - k).toNat) := Nat.pow_pos (by decide)
  exact (Nat.mul_le_mul_right_iff hpos).symm

theorem leQ_refl (a : F53) : leQ a a = true := by
  rw [leQ_iff]; exact Nat.le_refl _

theorem leQ_trans {a b c : F53} (h1 : leQ a b = true) (h2 : leQ b c = true) : leQ a c = true := by
  have hk1 : min a.e (min b.e c.e) ≤ a.e := by omega
  have hk2 : min a.e (min b.e c.e) ≤ b.e := by omega
  have hk3 : min a.e (min b.e c.e) ≤ c.e := by omega
  rw [leQ_iff_sc a b hk1 hk2] at h1
  rw [leQ_iff_sc b c hk2 hk3] at h2
  rw [leQ_iff_sc a c hk1 hk3]
  exact Nat.le_trans h1 h2

theorem leQ_total (a b : F53) : leQ a b = true ∨ leQ b a = true := by
  have hk1 : min a.e b.e ≤ a.e := by omega
  have hk2 : min a.e b.e ≤ b.e := by omega
  rw [leQ_iff_sc a b hk1 hk2, leQ_iff_sc b a hk2 hk1]
  exact Nat.le_total _ _

/-! ### rounding to 53 bits -/

/-- round up? (`k` bits dropped, `q` kept, `r` dropped): more than half, or half and `q` odd -/
def rup (k q r : Nat) : Bool := r > 2 ^ (k - 1) || (r == 2 ^ (k - 1) && q % 2 == 1)

/-- the kept significand after rounding -/
def qr (m : Nat) : Nat :=
  let k := log2 m - 52
  if rup k (m / 2 ^ k) (m % 2 ^ k) then m / 2 ^ k + 1 else m / 2 ^ k

/-- the value of `norm m e` in units of 2^e -/
def rnd (m : Nat) : Nat := if m < 2 ^ 53 then m else qr m * 2 ^ (log2 m - 52)

theorem p52 : (2 : Nat) ^ 52 = 4503599627370496 := by decide
theorem p53 : (2 : Nat) ^ 53 = 9007199254740992 := by decide

theorem big_params (m : Nat) (h : 2 ^ 53 ≤ m) :
    1 ≤ log2 m - 52 ∧ 2 ^ 52 * 2 ^ (log2 m - 52) ≤ m ∧ m < 2 ^ 53 * 2 ^ (log2 m - 52) ∧
    2 ^ 52 ≤ m / 2 ^ (log2 m - 52) ∧ m / 2 ^ (log2 m - 52) < 2 ^ 53 := by
  have hm0 : m ≠ 0 := by
    intro h0; rw [h0] at h; have := Nat.pow_pos (n := 53) (show 0 < 2 by decide); omega
  have hL : 53 ≤ Nat.log2 m := (Nat.le_log2 hm0).mpr h
  have h1 : 2 ^ Nat.log2 m ≤ m := Nat.log2_self_le hm0
  have h2 : m < 2 ^ (Nat.log2 m + 1) := Nat.lt_log2_self
  have e1 : Nat.log2 m = 52 + (Nat.log2 m - 52) := by omega
  have e2 : Nat.log2 m + 1 = 53 + (Nat.log2 m - 52) := by omega
  have hpos : 0 < 2 ^ (Nat.log2 m - 52) := Nat.pow_pos (by decide)
  have a1 : 2 ^ 52 * 2 ^ (Nat.log2 m - 52) ≤ m := by rw [← Nat.pow_add, ← e1]; exact h1
  have a2 : m < 2 ^ 53 * 2 ^ (Nat.log2 m - 52) := by rw [← Nat.pow_add, ← e2]; exact h2
  refine ⟨by unfold log2; omega, a1, a2, ?_, ?_⟩
  · exact (Nat.le_div_iff_mul_le hpos).mpr a1
  · exact (Nat.div_lt_iff_lt_mul hpos).mpr a2

theorem qr_bounds (m : Nat) (h : 2 ^ 53 ≤ m) :
    m / 2 ^ (log2 m - 52) ≤ qr m ∧ qr m ≤ m / 2 ^ (log2 m - 52) + 1 ∧ qr m ≤ 2 ^ 53 := by
  obtain ⟨_, _, _, _, h5⟩ := big_params m h
  unfold qr
  simp only
  split <;> refine ⟨by omega, by omega, by omega⟩

/-- `norm m e` denotes `rnd m` units of 2^e, at an exponent not below `e` -/
theorem norm_val (m : Nat) (e : Int) : e ≤ (norm m e).e ∧ sc (norm m e) e = rnd m := by
  unfold norm rnd
  by_cases hs : m < 2 ^ 53
  · simp only [hs, ↓reduceIte, sc]
    refine ⟨Int.le_refl _, ?_⟩
    have : (e - e).toNat = 0 := by omega
    rw [this]; simp
  · simp only [hs, ↓reduceIte]
    have hb : 2 ^ 53 ≤ m := by omega
    obtain ⟨hk1, _, _, _, _⟩ := big_params m hb
    obtain ⟨q1, q2, q3⟩ := qr_bounds m hb
    have hq : (if (m % 2 ^ (log2 m - 52) > 2 ^ (log2 m - 52 - 1) ||
        m % 2 ^ (log2 m - 52) == 2 ^ (log2 m - 52 - 1) && m / 2 ^ (log2 m - 52) % 2 == 1) = true
        then m / 2 ^ (log2 m - 52) + 1 else m / 2 ^ (log2 m - 52)) = qr m := by
      unfold qr rup; rfl
    rw [hq]
    by_cases hlt : qr m < 2 ^ 53
    · simp only [hlt, ↓reduceIte, sc]
      refine ⟨by omega, ?_⟩
      have : (e + ((log2 m - 52 : Nat) : Int) - e).toNat = log2 m - 52 := by omega
      rw [this]
    · simp only [hlt, ↓reduceIte, sc]
      have heq : qr m = 2 ^ 53 := by omega
      refine ⟨by omega, ?_⟩
      have : (e + ((log2 m - 52 : Nat) : Int) + 1 - e).toNat = (log2 m - 52) + 1 := by omega
      rw [this, heq]
      have h2 : (2 : Nat) ^ 53 / 2 = 4503599627370496 := by decide
      rw [h2, p53, Nat.pow_succ]
      generalize 2 ^ (log2 m - 52) = X
      omega

theorem rnd_small (m : Nat) (h : m < 2 ^ 53) : rnd m = m := by simp [rnd, h]

theorem rnd_big_ge (m : Nat) (h : 2 ^ 53 ≤ m) : 2 ^ 52 * 2 ^ (log2 m - 52) ≤ rnd m := by
  have hs : ¬ m < 2 ^ 53 := by omega
  obtain ⟨_, _, _, h4, _⟩ := big_params m h
  obtain ⟨q1, _, _⟩ := qr_bounds m h
  simp only [rnd, hs, ↓reduceIte]
  exact Nat.mul_le_mul_right _ (Nat.le_trans h4 q1)

theorem rnd_big_le (m : Nat) (h : 2 ^ 53 ≤ m) : rnd m ≤ 2 ^ 53 * 2 ^ (log2 m - 52) := by
  have hs : ¬ m < 2 ^ 53 := by omega
  obtain ⟨_, _, q3⟩ := qr_bounds m h
  simp only [rnd, hs, ↓reduceIte]
  exact Nat.mul_le_mul_right _ q3

theorem rup_mono {k q r r' : Nat} (h : r ≤ r') (hu : rup k q r = true) : rup k q r' = true := by
  unfold rup at hu ⊢
  simp only [Bool.or_eq_true, decide_eq_true_eq, Bool.and_eq_true, beq_iff_eq] at hu ⊢
  rcases hu with hu | ⟨hu1, hu2⟩
  · left; omega
  · by_cases he : r' = 2 ^ (k - 1)
    · right; exact ⟨he, hu2⟩
    · left; omega

/-- rounding to nearest (ties to even) is monotone -/
theorem rnd_mono {a b : Nat} (h : a ≤ b) : rnd a ≤ rnd b := by
  by_cases hb : b < 2 ^ 53
  · rw [rnd_small a (by omega), rnd_small b hb]; exact h
  · have hb' : 2 ^ 53 ≤ b := by omega
    by_cases ha : a < 2 ^ 53
    · rw [rnd_small a ha]
      have h1 := rnd_big_ge b hb'
      obtain ⟨hk, _, _, _, _⟩ := big_params b hb'
      have : 2 ^ 1 ≤ 2 ^ (log2 b - 52) := Nat.pow_le_pow_right (by decide) hk
      have h2 : 2 ^ 52 * 2 ^ 1 ≤ 2 ^ 52 * 2 ^ (log2 b - 52) := Nat.mul_le_mul_left _ this
      have : (2 : Nat) ^ 52 * 2 ^ 1 = 2 ^ 53 := by decide
      omega
    · have ha' : 2 ^ 53 ≤ a := by omega
      have ha0 : a ≠ 0 := by intro h0; rw [h0] at ha'; have := Nat.pow_pos (n := 53) (show 0 < 2 by decide); omega
      have hb0 : b ≠ 0 := by omega
      have hlog : Nat.log2 a ≤ Nat.log2 b :=
        (Nat.le_log2 hb0).mpr (Nat.le_trans (Nat.log2_self_le ha0) h)
      by_cases hk : log2 a - 52 = log2 b - 52
      · -- same number of dropped bits
        have hsa : ¬ a < 2 ^ 53 := ha
        simp only [rnd, hsa, hb, ↓reduceIte]
        rw [hk]
        apply Nat.mul_le_mul_right
        have hdiv : a / 2 ^ (log2 b - 52) ≤ b / 2 ^ (log2 b - 52) := Nat.div_le_div_right h
        obtain ⟨qa1, qa2, _⟩ := qr_bounds a ha'
        obtain ⟨qb1, qb2, _⟩ := qr_bounds b hb'
        rw [hk] at qa1 qa2
        by_cases hq : a / 2 ^ (log2 b - 52) = b / 2 ^ (log2 b - 52)
        · -- same kept bits: the dropped part decides, monotonically
          have hmod : a % 2 ^ (log2 b - 52) ≤ b % 2 ^ (log2 b - 52) := by
            have e1 := Nat.div_add_mod a (2 ^ (log2 b - 52))
            have e2 := Nat.div_add_mod b (2 ^ (log2 b - 52))
            rw [hq] at e1
            omega
          unfold qr
          simp only
          rw [hk, hq]
          by_cases hu : rup (log2 b - 52) (b / 2 ^ (log2 b - 52)) (a % 2 ^ (log2 b - 52)) = true
          · rw [if_pos hu, if_pos (rup_mono hmod hu)]; exact Nat.le_refl _
          · rw [if_neg hu]; split <;> omega
        · omega
      · -- fewer dropped bits on the left: a whole binade below
        have hlt : log2 a - 52 + 1 ≤ log2 b - 52 := by unfold log2 at hk ⊢; omega
        have h1 := rnd_big_le a ha'
        have h2 := rnd_big_ge b hb'
        have h3 : 2 ^ (log2 a - 52 + 1) ≤ 2 ^ (log2 b - 52) := Nat.pow_le_pow_right (by decide) hlt
        rw [Nat.pow_succ] at h3
        rw [p53] at h1
        rw [p52] at h2
        generalize 2 ^ (log2 a - 52) = X at *
        generalize 2 ^ (log2 b - 52) = Y at *
        omega

/-- multiplying by 1.5 and rounding does not go below the operand: `rnd (3m) ≥ 2m` (units: half the operand's) -/
theorem rnd_three (m : Nat) : 2 * m ≤ rnd (3 * m) := by
  by_cases hs : 3 * m < 2 ^ 53
  · rw [rnd_small _ hs]; omega
  · have hb : 2 ^ 53 ≤ 3 * m := by omega
    obtain ⟨_, h2, _, _, _⟩ := big_params (3 * m) hb
    obtain ⟨q1, _, _⟩ := qr_bounds (3 * m) hb
    simp only [rnd, hs, ↓reduceIte]
    have hge : 3 * m / 2 ^ (log2 (3 * m) - 52) * 2 ^ (log2 (3 * m) - 52) ≤ qr (3 * m) * 2 ^ (log2 (3 * m) - 52) :=
      Nat.mul_le_mul_right _ q1
    have e1 := Nat.div_add_mod (3 * m) (2 ^ (log2 (3 * m) - 52))
    have hr : 3 * m % 2 ^ (log2 (3 * m) - 52) < 2 ^ (log2 (3 * m) - 52) := Nat.mod_lt _ (Nat.pow_pos (by decide))
    rw [p52] at h2
    rw [Nat.mul_comm] at e1
    generalize 2 ^ (log2 (3 * m) - 52) = X at *
    generalize 3 * m / X = Q at *
    generalize 3 * m % X = Rm at *
    generalize qr (3 * m) = QR at *
    omega

/-! ### the laws -/

/-- the executable float model as an instance of the abstract rounded arithmetic -/
def F53R : Rounded :=
  { F := F53
    le := fun a b => leQ a b = true
    decLe := fun _ _ => inferInstance
    ofInt := fun n => ofNat n.toNat
    toInt := fun x => (F53.toNat x : Int)
    mul15 := F53.mul15 }

theorem ofNat_mono {a b : Nat} (h : a ≤ b) : leQ (ofNat a) (ofNat b) = true := by
  unfold ofNat
  obtain ⟨ea, va⟩ := norm_val a 0
  obtain ⟨eb, vb⟩ := norm_val b 0
  rw [leQ_iff_sc _ _ ea eb, va, vb]
  exact rnd_mono h

/-- truncation, on a common exponent `k ≤ 0` -/
theorem toNat_sc (a : F53) {k : Int} (hk : k ≤ a.e) (hk0 : k ≤ 0) :
    F53.toNat a = sc a k / 2 ^ ((-k).toNat) := by
  unfold F53.toNat sc
  by_cases he : a.e ≥ 0
  · simp only [he, ↓reduceIte]
    have : (a.e - k).toNat = a.e.toNat + (-k).toNat := by omega
    rw [this, Nat.pow_add, ← Nat.mul_assoc]
    exact (Nat.mul_div_cancel _ (Nat.pow_pos (n := (-k).toNat) (show 0 < 2 by decide))).symm
  · simp only [he, ↓reduceIte]
    have : (-k).toNat = (a.e - k).toNat + (-a.e).toNat := by omega
    rw [this, Nat.pow_add, Nat.mul_comm (2 ^ (a.e - k).toNat)]
    exact (Nat.mul_div_mul_right a.m (2 ^ (-a.e).toNat) (Nat.pow_pos (n := (a.e - k).toNat) (show 0 < 2 by decide))).symm

theorem toNat_mono {x y : F53} (h : leQ x y = true) : F53.toNat x ≤ F53.toNat y := by
  have k1 : min (min x.e y.e) 0 ≤ x.e := by omega
  have k2 : min (min x.e y.e) 0 ≤ y.e := by omega
  have k0 : min (min x.e y.e) 0 ≤ 0 := by omega
  rw [toNat_sc x k1 k0, toNat_sc y k2 k0]
  exact Nat.div_le_div_right ((leQ_iff_sc x y k1 k2).mp h)

theorem toNat_ofNat (n : Nat) (h : n ≤ 2 ^ 53) : F53.toNat (ofNat n) = n := by
  by_cases hs : n < 2 ^ 53
  · simp [ofNat, norm, hs, F53.toNat]
  · have : n = 2 ^ 53 := by omega
    subst this
    decide

theorem mul15_ge (x : F53) : leQ x (F53.mul15 x) = true := by
  unfold F53.mul15
  obtain ⟨e1, v1⟩ := norm_val (x.m * 3) (x.e - 1)
  rw [leQ_iff_sc _ _ (show x.e - 1 ≤ x.e by omega) e1, v1]
  have : sc x (x.e - 1) = 2 * x.m := by
    unfold sc
    have : (x.e - (x.e - 1)).toNat = 1 := by omega
    rw [this]; omega
  rw [this, Nat.mul_comm x.m 3]
  exact rnd_three x.m

/-- **C18** the executable model of float64 satisfies every law the backoff theorems assume -/
theorem f53_laws : Laws F53R where
  le_refl a := leQ_refl a
  le_trans _ _ _ h1 h2 := leQ_trans h1 h2
  le_total a b := leQ_total a b
  ofInt_mono a b h := ofNat_mono (by omega)
  toInt_mono x y h := by
    have := toNat_mono h
    show (F53.toNat x : Int) ≤ (F53.toNat y : Int)
    exact_mod_cast this
  toInt_ofInt n h0 h53 := by
    show (F53.toNat (ofNat n.toNat) : Int) = n
    have hn : n.toNat ≤ 2 ^ 53 := by
      have : ((n.toNat : Nat) : Int) = n := Int.toNat_of_nonneg h0
      have h' : ((n.toNat : Nat) : Int) ≤ ((2 ^ 53 : Nat) : Int) := by rw [this]; exact_mod_cast h53
      exact_mod_cast h'
    rw [toNat_ofNat _ hn]
    exact Int.toNat_of_nonneg h0
  mul15_ge x _ := mul15_ge x

/-- the function the driver runs is the abstract `backoff` at this instance -/
theorem backoffF53_eq (base max : Nat) (retries : Int) :
    (backoffF53 base max retries : Int) = backoff F53R base max retries := by
  unfold backoffF53 backoff
  have hgo : ∀ (n : Nat) (x : F53),
      backoffF53.go (ofNat max) x n = loop F53R (F53R.ofInt max) x n := by
    intro n
    induction n with
    | zero => intro x; rfl
    | succ n ih =>
      intro x
      simp only [backoffF53.go, loop]
      have e : F53R.ofInt (max : Int) = ofNat max := by show ofNat (max : Int).toNat = ofNat max; simp
      rw [e]
      by_cases hle : leQ (ofNat max) x = true
      · have : F53R.le (ofNat max) x := hle
        simp [hle, this]
      · have hn : ¬ F53R.le (ofNat max) x := hle
        have hf : leQ (ofNat max) x = false := by simpa using hle
        simp only [hf, Bool.not_false, ↓reduceIte, hn, not_false_eq_true]
        rw [ih]
        rw [e]
        rfl
  have e : F53R.ofInt (max : Int) = ofNat max := by show ofNat (max : Int).toNat = ofNat max; simp
  have eb : F53R.ofInt (base : Int) = ofNat base := by show ofNat (base : Int).toNat = ofNat base; simp
  simp only
  rw [hgo, e, eb]
  by_cases hle : leQ (loop F53R (ofNat max) (ofNat base) retries.toNat) (ofNat max) = true
  · have : F53R.le (loop F53R (ofNat max) (ofNat base) retries.toNat) (ofNat max) := hle
    simp [hle, this]
    rfl
  · have hn : ¬ F53R.le (loop F53R (ofNat max) (ofNat base) retries.toNat) (ofNat max) := hle
    have hf : leQ (loop F53R (ofNat max) (ofNat base) retries.toNat) (ofNat max) = false := by simpa using hle
    simp [hf, hn]
    rfl

/-- **C18** for the arithmetic the prober really runs (the model compared bit for bit with Go's float64):
    for delays 0 ≤ base ≤ max ≤ 2^53 ns the backoff lies between base and max and never shrinks with
    the retry count -/
theorem backoffF53_bounds (base max : Nat) (retries : Int) (hbm : base ≤ max) (h53 : max ≤ 2 ^ 53) :
    base ≤ backoffF53 base max retries ∧ backoffF53 base max retries ≤ max ∧
    backoffF53 base max retries ≤ backoffF53 base max (retries + 1) := by
  have h1 := backoff_ge_base f53_laws (base : Int) max retries (by omega) (by exact_mod_cast hbm) (by exact_mod_cast h53)
  have h2 := backoff_le_max f53_laws (base : Int) max retries (by omega) (by exact_mod_cast hbm) (by exact_mod_cast h53)
  have h3 := backoff_mono_retries f53_laws (base : Int) max retries (by omega)
  rw [← backoffF53_eq] at h1 h2 h3
  rw [← backoffF53_eq] at h3
  exact ⟨by exact_mod_cast h1, by exact_mod_cast h2, by exact_mod_cast h3⟩

example : backoffF53 200000000 5000000000 8 = 5000000000 ∧ backoffF53 200000000 5000000000 3 = 675000000 := by
  decide +kernel

end GcpVerif.Prober
