/-
C18 — theorems about the prober helpers.
-/
import GcpVerif.Model.Prober
import GcpVerif.Generated.Consts
namespace GcpVerif.Prober

/-! ## backoff, for every rounded arithmetic that satisfies the usual laws -/

/-- the facts about floating point the proof uses: a total order, monotone conversions, exact
    integers up to 2^53, and `x * 1.5 ≥ x` for `x ≥ 0` (monotone rounding). IEEE-754 binary64 with
    round-to-nearest satisfies them; this is an assumption of the theorem, not an axiom of ours. -/
structure Laws (R : Rounded) : Prop where
  le_refl : ∀ a, R.le a a
  le_trans : ∀ a b c, R.le a b → R.le b c → R.le a c
  le_total : ∀ a b, R.le a b ∨ R.le b a
  ofInt_mono : ∀ a b : Int, a ≤ b → R.le (R.ofInt a) (R.ofInt b)
  toInt_mono : ∀ x y, R.le x y → R.toInt x ≤ R.toInt y
  toInt_ofInt : ∀ n : Int, 0 ≤ n → n ≤ 2^53 → R.toInt (R.ofInt n) = n
  mul15_ge : ∀ x, R.le (R.ofInt 0) x → R.le x (R.mul15 x)

variable {R : Rounded}

theorem loop_ge (L : Laws R) (m x : R.F) (n : Nat) (h0 : R.le (R.ofInt 0) x) :
    R.le x (loop R m x n) := by
  induction n generalizing x with
  | zero => exact L.le_refl x
  | succ n ih =>
    simp only [loop]
    split
    · have h1 := L.mul15_ge x h0
      exact L.le_trans _ _ _ h1 (ih _ (L.le_trans _ _ _ h0 h1))
    · exact L.le_refl x

/-- one more retry: the loop result either stays or is multiplied once more -/
theorem loop_succ (m x : R.F) (n : Nat) :
    loop R m x (n + 1) = if ¬ R.le m (loop R m x n) then R.mul15 (loop R m x n) else loop R m x n := by
  induction n generalizing x with
  | zero => rfl
  | succ n ih =>
    rw [loop]
    by_cases h : R.le m x
    · -- already at/over the maximum: nothing changes any more
      simp only [h, not_true_eq_false, ↓reduceIte]
      have : loop R m x (n + 1) = x := by simp [loop, h]
      rw [this]; simp [h]
    · simp only [h, not_false_eq_true, ↓reduceIte]
      rw [ih]
      have : loop R m x (n + 1) = loop R m (R.mul15 x) n := by simp [loop, h]
      rw [this]

theorem loop_nonneg (L : Laws R) (m x : R.F) (n : Nat) (h0 : R.le (R.ofInt 0) x) :
    R.le (R.ofInt 0) (loop R m x n) := L.le_trans _ _ _ h0 (loop_ge L m x n h0)

theorem loop_mono_n (L : Laws R) (m x : R.F) (n : Nat) (h0 : R.le (R.ofInt 0) x) :
    R.le (loop R m x n) (loop R m x (n + 1)) := by
  rw [loop_succ]
  split
  · exact L.mul15_ge _ (loop_nonneg L m x n h0)
  · exact L.le_refl _

/-- the clamp `if b > max { b = max }` -/
def clamp (R : Rounded) (m b : R.F) : R.F := if ¬ R.le b m then m else b

theorem clamp_le (L : Laws R) (m b : R.F) : R.le (clamp R m b) m := by
  unfold clamp; split
  · exact L.le_refl m
  · rename_i h; exact Classical.not_not.mp h

theorem clamp_mono (L : Laws R) (m a b : R.F) (h : R.le a b) : R.le (clamp R m a) (clamp R m b) := by
  unfold clamp
  by_cases ha : R.le a m <;> by_cases hb : R.le b m
  · simpa [ha, hb] using h
  · simpa [ha, hb] using ha
  · exact absurd (L.le_trans _ _ _ h hb) ha
  · simpa [ha, hb] using L.le_refl m

theorem backoff_eq (base max retries : Int) :
    backoff R base max retries = R.toInt (clamp R (R.ofInt max) (loop R (R.ofInt max) (R.ofInt base) retries.toNat)) := rfl

/-- C18: the backoff is at least the base delay -/
theorem backoff_ge_base (L : Laws R) (base max retries : Int)
    (h0 : 0 ≤ base) (hbm : base ≤ max) (h53 : max ≤ 2^53) : base ≤ backoff R base max retries := by
  rw [backoff_eq]
  have hb0 : R.le (R.ofInt 0) (R.ofInt base) := L.ofInt_mono _ _ h0
  have h1 := loop_ge L (R.ofInt max) (R.ofInt base) retries.toNat hb0
  have h2 : R.le (R.ofInt base) (clamp R (R.ofInt max) (loop R (R.ofInt max) (R.ofInt base) retries.toNat)) := by
    unfold clamp; split
    · exact L.ofInt_mono _ _ hbm
    · exact h1
  have := L.toInt_mono _ _ h2
  rw [L.toInt_ofInt base h0 (by omega)] at this
  exact this

/-- C18: the backoff is at most the maximum delay -/
theorem backoff_le_max (L : Laws R) (base max retries : Int)
    (h0 : 0 ≤ base) (hbm : base ≤ max) (h53 : max ≤ 2^53) : backoff R base max retries ≤ max := by
  rw [backoff_eq]
  have := L.toInt_mono _ _ (clamp_le L (R.ofInt max) (loop R (R.ofInt max) (R.ofInt base) retries.toNat))
  rw [L.toInt_ofInt max (by omega) h53] at this
  exact this

/-- C18: the backoff is non-decreasing in the retry count -/
theorem backoff_mono_retries (L : Laws R) (base max retries : Int) (h0 : 0 ≤ base) :
    backoff R base max retries ≤ backoff R base max (retries + 1) := by
  rw [backoff_eq, backoff_eq]
  apply L.toInt_mono
  apply clamp_mono L
  have hb0 : R.le (R.ofInt 0) (R.ofInt base) := L.ofInt_mono _ _ h0
  by_cases hr : 0 ≤ retries
  · have : (retries + 1).toNat = retries.toNat + 1 := by omega
    rw [this]
    exact loop_mono_n L _ _ _ hb0
  · have h1 : retries.toNat = 0 := by omega
    have h2 : (retries + 1).toNat = 0 := by omega
    rw [h1, h2]; exact L.le_refl _

/-- non-vacuity: exact integer arithmetic on thirds (no rounding at all) satisfies the laws, so the
    three theorems are not vacuous; the executable `F53` model is what is compared with Go -/
def exactR : Rounded :=
  { F := Int × Nat      -- numerator, and power of two of the denominator: n / 2^k
    le := fun a b => a.1 * 2^b.2 ≤ b.1 * 2^a.2
    decLe := fun _ _ => inferInstance
    ofInt := fun n => (n, 0)
    toInt := fun a => a.1 / 2^a.2
    mul15 := fun a => (a.1 * 3, a.2 + 1) }

/-! ## GFE latency -/

/-- the server-timing *header* is read in preference to the trailer -/
theorem t4t7_header_first (key pfx : String) (h t t' : MD) (hne : (mdGet h key).length > 0) :
    parseT4T7 key pfx h t = parseT4T7 key pfx h t' := by
  simp [parseT4T7, hne]

/-- without a header entry the trailer is used -/
theorem t4t7_trailer_fallback (key pfx : String) (h t : MD) (hh : (mdGet h key).length = 0)
    (ht : (mdGet t key).length > 0) : parseT4T7 key pfx h t = parseT4T7 key pfx t [] := by
  have : ¬ (mdGet h key).length > 0 := by omega
  simp [parseT4T7, hh, ht]

/-- neither header nor trailer: error -/
theorem t4t7_absent (key pfx : String) (h t : MD) (hh : (mdGet h key).length = 0)
    (ht : (mdGet t key).length = 0) : parseT4T7 key pfx h t = none := by
  simp [parseT4T7, hh, ht]

/-- the duration of the *first* gfet4t7 entry is returned; later entries are ignored -/
theorem t4t7_first_entry (key pfx : String) (h t : MD) (e : String) (rest before : List String)
    (hh : mdGet h key = before ++ e :: rest) (hb : ∀ x ∈ before, x.startsWith pfx = false)
    (he : e.startsWith pfx = true) :
    parseT4T7 key pfx h t =
      (parseInt64 (e.drop pfx.length).toString).map fun ms => wrap64 (ms * 1000000) := by
  have hlen : (before ++ e :: rest).length > 0 := by simp; omega
  have hfind : (before ++ e :: rest).find? (fun x => x.startsWith pfx) = some e := by
    rw [List.find?_append]
    have : before.find? (fun x => x.startsWith pfx) = none := by
      simp only [List.find?_eq_none]; intro x hx; simp [hb x hx]
    simp [this, he]
  simp only [parseT4T7, hh, hlen, ↓reduceIte, hfind]
  cases parseInt64 (e.drop pfx.length).toString <;> rfl

/-- no gfet4t7 entry at all: error -/
theorem t4t7_no_entry (key pfx : String) (h t : MD) (hlen : (mdGet h key).length > 0)
    (hb : ∀ x ∈ mdGet h key, x.startsWith pfx = false) : parseT4T7 key pfx h t = none := by
  have : (mdGet h key).find? (fun x => x.startsWith pfx) = none := by
    simp only [List.find?_eq_none]; intro x hx; simp [hb x hx]
  simp [parseT4T7, hlen, this]

/-- while the millisecond value fits, the result is exact (no wrap-around) -/
theorem wrap64_exact (ms : Int) (h : -9223372036854 ≤ ms ∧ ms ≤ 9223372036854) :
    wrap64 (ms * 1000000) = ms * 1000000 := by
  unfold wrap64; omega

/-! ## flag validation and resource names -/

open GcpVerif.KeyPath (splitChars)

theorem splitChars_no_sep (sep : Char) (l : List Char) (h : sep ∉ l) : splitChars sep l = [l] := by
  induction l with
  | nil => rfl
  | cons c cs ih =>
    simp only [List.mem_cons, not_or] at h
    have hc : (c == sep) = false := by simpa using fun heq => h.1 heq.symm
    simp [splitChars, hc, ih h.2]

theorem splitChars_append (sep : Char) (a rest : List Char) (h : sep ∉ a) :
    splitChars sep (a ++ sep :: rest) = a :: splitChars sep rest := by
  induction a with
  | nil => simp [splitChars]
  | cons c cs ih =>
    simp only [List.mem_cons, not_or] at h
    have hc : (c == sep) = false := by simpa using fun heq => h.1 heq.symm
    simp [splitChars, hc, ih h.2]

/-- a string all of whose characters are in a class that excludes '/' contains no '/' -/
theorem no_slash_of_match (cls : Char → Bool) (hcls : cls '/' = false) (s : String)
    (h : matchAll cls s = true) : '/' ∉ s.toList := by
  intro hm
  simp only [matchAll, List.all_eq_true] at h
  have := h '/' hm
  rw [hcls] at this; cases this

/-- **C18** the path segments of the database URI are exactly the supplied project, instance and
    database whenever none of them contains '/': nothing can be injected -/
theorem databaseURI_segments (p i d : List Char) (hp : '/' ∉ p) (hi : '/' ∉ i) (hd : '/' ∉ d) :
    splitChars '/' ("projects".toList ++ '/' :: (p ++ '/' :: ("instances".toList ++ '/' :: (i ++ '/' ::
      ("databases".toList ++ '/' :: d))))) =
    ["projects".toList, p, "instances".toList, i, "databases".toList, d] := by
  rw [splitChars_append _ _ _ (by decide), splitChars_append _ _ _ hp,
      splitChars_append _ _ _ (by decide), splitChars_append _ _ _ hi,
      splitChars_append _ _ _ (by decide), splitChars_no_sep _ _ hd]

theorem instanceURI_segments (p i : List Char) (hp : '/' ∉ p) (hi : '/' ∉ i) :
    splitChars '/' ("projects".toList ++ '/' :: (p ++ '/' :: ("instances".toList ++ '/' :: i))) =
    ["projects".toList, p, "instances".toList, i] := by
  rw [splitChars_append _ _ _ (by decide), splitChars_append _ _ _ hp,
      splitChars_append _ _ _ (by decide), splitChars_no_sep _ _ hi]

/-- the regular expressions regenerated from spanner_prober/main.go are of the form `^[class]*$`
    and their classes exclude '/' — re-checked against the current source on every run -/
theorem generated_regexes_exclude_slash :
    GcpVerif.Generated.flagRegexes.all (fun p =>
      match parseClass p.2 with
      | some cls => !cls '/'
      | none => false) = true := by
  decide

/-- every flag that ends up in a resource name has a regex applied to it -/
theorem generated_regexes_cover :
    ["project", "instance_name", "database_name", "instanceConfig"].all
      (fun f => GcpVerif.Generated.flagRegexes.any fun p => p.1 == f) = true := by
  decide

/-- the probe types accepted by validation are exactly the ones ParseProbeType knows (same table) -/
theorem accepted_probe_type_parses (f : Flags)
    (h : validateFlags GcpVerif.Generated.flagRegexes GcpVerif.Generated.probeTypes f = 0) :
    GcpVerif.Generated.probeTypes.contains f.probeType = true := by
  unfold validateFlags at h
  by_cases hc : GcpVerif.Generated.probeTypes.contains f.probeType = true
  · exact hc
  · have hc' : GcpVerif.Generated.probeTypes.contains f.probeType = false := by simpa using hc
    simp only [hc', Bool.false_eq_true, ↓reduceIte] at h
    omega

end GcpVerif.Prober
