/-
The MultiEndpoint API over its whole argument space (F29, F30).

`ME.init` / `ME.step` first normalise what the caller passes — a negative recovery timeout or switching
delay counts as none, an endpoint listed more than once keeps its first position — and then run the
machine (`initRaw` / `stepRaw`) the other ME proof modules are about. This file shows that every state
the API reaches, for *any* integers and *any* lists, is a state of that machine reached under the
hypotheses those modules need (`0 ≤ r`, `0 ≤ d`), so their theorems hold without side conditions, and
states the priority rule for lists with repetitions.
-/
import GcpVerif.Proofs.ME6
import GcpVerif.Proofs.ME7
namespace GcpVerif.ME

/-- what the API can reach, with the list of the last accepted call as the caller wrote it (ghost) -/
inductive ReachApi : St → List String → Prop where
  | init {r d : Int} {l : List String} {s : St} : init r d l = some s → ReachApi s l
  | step {s : St} {l : List String} (op : Op) : ReachApi s l → ReachApi (step s op).1 (lastList l op)

theorem eraseDups_isEmpty (l : List String) : l.eraseDups.isEmpty = l.isEmpty := by
  cases l with
  | nil => rfl
  | cons a as => rw [List.eraseDups_cons]; rfl

theorem lastList_norm (l : List String) (op : Op) :
    lastList l.eraseDups (normOp op) = (lastList l op).eraseDups := by
  cases op with
  | setEndpoints l' =>
    simp only [normOp, lastList, eraseDups_isEmpty]
    cases l'.isEmpty <;> simp
  | setAvail e a => rfl
  | advance dt => rfl
  | fire t => rfl

/-- every state of the API is a state of the machine, reached with non-negative durations and a list
    without repetitions: the caller's list with later repetitions dropped -/
theorem ReachApi.reachL {s : St} {l : List String} (h : ReachApi s l) : ReachL s l.eraseDups := by
  induction h with
  | @init r d l s hi =>
    exact ReachL.initRaw (r := max r 0) (d := max d 0) (Int.le_max_right r 0) (Int.le_max_right d 0) hi
  | @step s l op _ ih =>
    have := ReachL.stepRaw (normOp op) ih
    rw [lastList_norm] at this
    exact this

theorem ReachApi.reach {s : St} {l : List String} (h : ReachApi s l) : Reach s := h.reachL.reach

theorem nodup_eraseDups : ∀ (n : Nat) (l : List String), l.length ≤ n → l.eraseDups.Nodup := by
  intro n
  induction n with
  | zero =>
    intro l hl
    have : l = [] := List.eq_nil_of_length_eq_zero (by omega)
    subst this; simp
  | succ n ih =>
    intro l hl
    cases l with
    | nil => simp
    | cons a as =>
      rw [List.eraseDups_cons, List.nodup_cons]
      refine ⟨?_, ih _ ?_⟩
      · intro hm
        have := List.mem_eraseDups.mp hm
        simp at this
      · have := List.length_filter_le (fun b => !b == a) as
        simp only [List.length_cons] at hl
        omega

/-- **C13** (API level, any durations, any lists) the table holds exactly the names of the last accepted
    list, each once, and an endpoint's priority is its position among the *distinct* names of that list
    in order of first occurrence — repeating a name later in the list changes nothing -/
theorem api_list_and_priorities {s : St} {l : List String} (h : ReachApi s l) :
    (ids s.eps).Nodup ∧ (∀ id, id ∈ ids s.eps ↔ id ∈ l) ∧
    ∀ e ∈ s.eps, l.eraseDups.idxOf e.id = e.prio := by
  have ok := list_and_priorities h.reachL
  refine ⟨ok.nd, fun id => ⟨?_, fun hid => ok.cover id (List.mem_eraseDups.mpr hid)⟩, ?_⟩
  · intro hid
    obtain ⟨e, he, rfl⟩ := List.mem_map.mp hid
    have := ok.pos e he
    exact List.mem_eraseDups.mp (List.mem_of_getElem? this)
  · intro e he
    have hp := ok.pos e he
    obtain ⟨hlt, hget⟩ := List.getElem?_eq_some_iff.mp hp
    have := (nodup_eraseDups _ l (Nat.le_refl _)).idxOf_getElem e.prio hlt
    rw [hget] at this
    exact this

/-- **C13/C14** the invariants of the machine hold in every state of the API (no side conditions) -/
theorem api_inv {s : St} {l : List String} (h : ReachApi s l) : Inv s ∧ SInv s := ⟨reach_inv h.reach, reach_sinv h.reach⟩

/-- **C14** (API level) at least as many live recovery timers as recovering endpoints -/
theorem api_recovering_timer_count {s : St} {l : List String} (h : ReachApi s l) : c14_recovering_timer s = true :=
  recovering_timer_count h.reach

/-- **C14** (API level) a recovery is not cut short by a stale timer -/
theorem api_recovery_not_cut_short {s : St} {l : List String} (h : ReachApi s l) (tid : Nat) :
    ∀ x ∈ s.eps, x.status = .recovering → ∀ t0, x.lastChange = some t0 →
    ∀ y ∈ (opFire s tid).1.eps, y.id = x.id → y.status = .unavailable → t0 + s.r ≤ s.now :=
  recovery_not_cut_short h.reach tid

/-- a negative recovery timeout / switching delay is the same as none -/
theorem init_negative (r d : Int) (hr : r ≤ 0) (hd : d ≤ 0) (l : List String) : init r d l = init 0 0 l := by
  simp only [init, Int.max_eq_right hr, Int.max_eq_right hd, Int.max_self]

/-- a list with repetitions is the same as the list of its first occurrences -/
theorem step_setEndpoints_dups (s : St) (l : List String) :
    step s (.setEndpoints l) = step s (.setEndpoints l.eraseDups) := by
  have : l.eraseDups.eraseDups = l.eraseDups := by
    have := nodup_eraseDups _ l (Nat.le_refl _)
    clear s
    generalize l.eraseDups = m at this
    induction m with
    | nil => rfl
    | cons a as ih =>
      rw [List.eraseDups_cons]
      have h := List.nodup_cons.mp this
      have hf : as.filter (fun b => !b == a) = as := by
        rw [List.filter_eq_self]; intro b hb
        have : b ≠ a := fun e => h.1 (e ▸ hb)
        simpa using this
      rw [hf, ih h.2]
  simp only [step, normOp, this]

-- premises satisfiable and the rule visible: "b" is listed first and again last, and keeps priority 0
example : ∃ s, ReachApi s ["b", "a", "b"] ∧ vw s = [("b", 0), ("a", 1)] :=
  ⟨_, ReachApi.init (r := -5) (d := -1) (l := ["b", "a", "b"]) rfl, by decide⟩

-- … also through SetEndpoints
example : ∃ s, ReachApi s ["c", "a", "c", "b"] ∧ vw s = [("a", 1), ("b", 2), ("c", 0)] :=
  ⟨_, ReachApi.step (.setEndpoints ["c", "a", "c", "b"]) (ReachApi.init (r := 5) (d := 0) (l := ["a", "b"]) rfl), by decide⟩

end GcpVerif.ME
