/-
"Known to be available" (C13): in every reachable state an endpoint of the list has status
`available` exactly when the last availability report for it, since it was (re)added to the list,
said "available" — no timer, however stale, stopped or late, ever takes that away.

`SInv`: the stamp discipline of the recovery timers. A recovery timer carries the `lastChange`
stamp of its endpoint object at the time it was scheduled; stamps are never in the future, never
newer than the object's current `lastChange`, and the only timer whose stamp *equals* the object's
current `lastChange` is the object's own current timer — and then the object is recovering.
-/
import GcpVerif.Proofs.ME4
namespace GcpVerif.ME

structure SInv (s : St) : Prop where
  lcNow : ∀ e ∈ s.eps, ∀ tl, e.lastChange = some tl → tl ≤ s.now
  tmr : ∀ t ∈ s.timers, ∀ obj id stamp, t.kind = .recovery obj id stamp →
    0 < s.r ∧ obj < s.nextObj ∧ ∀ ts, stamp = some ts → t.due = ts + s.r ∧ ts ≤ s.now
  cur : ∀ t ∈ s.timers, ∀ obj id stamp, t.kind = .recovery obj id stamp → ∀ e ∈ s.eps, e.obj = obj →
    e.lastChange = stamp → e.status = .recovering ∧ e.timer = some t.tid
  mono : ∀ t ∈ s.timers, ∀ obj id ts, t.kind = .recovery obj id (some ts) → ∀ e ∈ s.eps, e.obj = obj →
    ∃ tl, e.lastChange = some tl ∧ ts ≤ tl
  objLt : ∀ e ∈ s.eps, e.obj < s.nextObj

/-- the endpoint table is untouched, time stands still, every timer is an old one (possibly marked
    stopped) or a delayed-switch timer -/
theorem sinv_of_timers {s s' : St} (h : SInv s) (he : s'.eps = s.eps) (hn : s'.now = s.now) (hr : s'.r = s.r)
    (ho : s'.nextObj = s.nextObj)
    (ht : ∀ t' ∈ s'.timers, (∃ t ∈ s.timers, t'.tid = t.tid ∧ t'.kind = t.kind ∧ t'.due = t.due) ∨ t'.kind = .switch) :
    SInv s' := by
  constructor
  · intro e hem tl hl; rw [he] at hem; rw [hn]; exact h.lcNow e hem tl hl
  · intro t' ht' obj id stamp hk
    rcases ht t' ht' with ⟨t, htm, -, e2, e3⟩ | hsw
    · rw [e2] at hk
      obtain ⟨a, b, c⟩ := h.tmr t htm obj id stamp hk
      rw [hr, ho, hn, e3]; exact ⟨a, b, c⟩
    · rw [hsw] at hk; cases hk
  · intro t' ht' obj id stamp hk e hem hobj hlc
    rw [he] at hem
    rcases ht t' ht' with ⟨t, htm, e1, e2, -⟩ | hsw
    · rw [e2] at hk; rw [e1]; exact h.cur t htm obj id stamp hk e hem hobj hlc
    · rw [hsw] at hk; cases hk
  · intro t' ht' obj id ts hk e hem hobj
    rw [he] at hem
    rcases ht t' ht' with ⟨t, htm, -, e2, -⟩ | hsw
    · rw [e2] at hk; exact h.mono t htm obj id ts hk e hem hobj
    · rw [hsw] at hk; cases hk
  · intro e hem; rw [he] at hem; rw [ho]; exact h.objLt e hem

/-- a timer that is not yet due does not survive being stopped -/
theorem stopped_not_due {now : Int} {ts : List Timer} {t0 t' : Timer}
    (hinj : ∀ a ∈ ts, ∀ b ∈ ts, a.tid = b.tid → a = b) (ht0 : t0 ∈ ts) (hdue : now < t0.due)
    (ht' : t' ∈ stopTimer now ts t0.tid) (htid : t'.tid = t0.tid) : False := by
  obtain ⟨t1, ht1, h1 | h1⟩ := mem_stopTimer.mp ht'
  · have : t1 = t0 := hinj t1 ht1 t0 ht0 h1.1
    rw [this] at h1; omega
  · rw [h1.2] at htid; exact h1.1 htid

/-- `setState(e, st)` for a status other than `recovering` -/
theorem sinv_setStateEp {s : St} (h : SInv s)
    (hinj : ∀ a ∈ s.timers, ∀ b ∈ s.timers, a.tid = b.tid → a = b)
    (hid : ∀ a ∈ s.eps, ∀ b ∈ s.eps, a.id = b.id → a = b) {ee : Ep} (hee : ee ∈ s.eps) (st : Status) :
    SInv (setStateEp s ee st) ∨ st = .recovering := by
  by_cases hst : st = .recovering
  · exact Or.inr hst
  left
  have hmem : ∀ y ∈ (setStateEp s ee st).eps, (y = touch st s.now ee) ∨ (y ∈ s.eps ∧ y.id ≠ ee.id) := by
    intro y hy
    simp only [setStateEp] at hy
    obtain ⟨x, hx, rfl⟩ := mem_updId.mp hy
    by_cases hxe : (x.id == ee.id) = true
    · left
      have : x = ee := hid x hx ee hee (by simpa using hxe)
      simp [hxe, this]
    · right
      have : x.id ≠ ee.id := by simpa using hxe
      simp only [hxe]; exact ⟨hx, this⟩
  constructor
  · intro y hy tl hl
    show tl ≤ s.now
    rcases hmem y hy with rfl | ⟨hy', -⟩
    · simp only [touch, Option.some.injEq] at hl; omega
    · exact h.lcNow y hy' tl hl
  · intro t' ht' obj id stamp hk
    obtain ⟨t0, ht0, -, e2, e3, -⟩ := mem_stopOpt (show t' ∈ stopOpt s.now s.timers ee.timer from ht')
    rw [e2] at hk; rw [e3]
    exact h.tmr t0 ht0 obj id stamp hk
  · intro t' ht' obj id stamp hk y hy hobj hlc
    have ht'' : t' ∈ stopOpt s.now s.timers ee.timer := ht'
    obtain ⟨t0, ht0, e1, e2, -, -⟩ := mem_stopOpt ht''
    rw [e2] at hk
    rcases hmem y hy with rfl | ⟨hy', -⟩
    · -- the touched endpoint: no surviving timer carries the stamp `now`
      exfalso
      simp only [touch] at hobj hlc
      have hstamp : stamp = some s.now := hlc.symm
      subst hstamp
      obtain ⟨tl, h1, h2⟩ := h.mono t0 ht0 obj id s.now hk ee hee hobj
      have h3 := h.lcNow ee hee tl h1
      have htl : tl = s.now := by omega
      obtain ⟨-, htm⟩ := h.cur t0 ht0 obj id (some s.now) hk ee hee hobj (by rw [h1, htl])
      obtain ⟨hr, -, hdue⟩ := h.tmr t0 ht0 obj id (some s.now) hk
      have hd := (hdue s.now rfl).1
      rw [htm] at ht''
      exact stopped_not_due hinj ht0 (by omega) ht'' e1
    · rw [e1]; exact h.cur t0 ht0 obj id stamp hk y hy' hobj hlc
  · intro t' ht' obj id ts hk y hy hobj
    obtain ⟨t0, ht0, -, e2, -, -⟩ := mem_stopOpt (show t' ∈ stopOpt s.now s.timers ee.timer from ht')
    rw [e2] at hk
    rcases hmem y hy with rfl | ⟨hy', -⟩
    · simp only [touch] at hobj ⊢
      obtain ⟨-, -, hdue⟩ := h.tmr t0 ht0 obj id (some ts) hk
      exact ⟨s.now, rfl, (hdue ts rfl).2⟩
    · exact h.mono t0 ht0 obj id ts hk y hy' hobj
  · intro y hy
    show y.obj < s.nextObj
    rcases hmem y hy with rfl | ⟨hy', -⟩
    · exact h.objLt ee hee
    · exact h.objLt y hy'

/-- fewer endpoints in the table, everything else equal -/
theorem sinv_of_sub {s s' : St} (h : SInv s) (hs : ∀ e ∈ s'.eps, e ∈ s.eps) (ht : s'.timers = s.timers)
    (hn : s'.now = s.now) (hr : s'.r = s.r) (ho : s'.nextObj = s.nextObj) : SInv s' := by
  constructor
  · intro e he tl hl; rw [hn]; exact h.lcNow e (hs e he) tl hl
  · intro t htm obj id stamp hk; rw [ht] at htm; rw [hr, ho, hn]; exact h.tmr t htm obj id stamp hk
  · intro t htm obj id stamp hk e he; rw [ht] at htm; exact h.cur t htm obj id stamp hk e (hs e he)
  · intro t htm obj id ts hk e he; rw [ht] at htm; exact h.mono t htm obj id ts hk e (hs e he)
  · intro e he; rw [ho]; exact h.objLt e (hs e he)

/-- the priority update of SetEndpoints -/
theorem sinv_prio {s : St} (h : SInv s) (id : String) (i : Nat) :
    SInv { s with eps := s.eps.map fun e => if e.id == id then { e with prio := i } else e } := by
  have hmem : ∀ y ∈ (s.eps.map fun e => if e.id == id then { e with prio := i } else e),
      ∃ x ∈ s.eps, y.obj = x.obj ∧ y.status = x.status ∧ y.lastChange = x.lastChange ∧ y.timer = x.timer := by
    intro y hy
    obtain ⟨x, hx, rfl⟩ := List.mem_map.mp hy
    refine ⟨x, hx, ?_⟩
    split <;> exact ⟨rfl, rfl, rfl, rfl⟩
  constructor
  · intro y hy tl hl
    obtain ⟨x, hx, -, -, e3, -⟩ := hmem y hy
    rw [e3] at hl; exact h.lcNow x hx tl hl
  · exact h.tmr
  · intro t htm obj id' stamp hk y hy hobj hlc
    obtain ⟨x, hx, e1, e2, e3, e4⟩ := hmem y hy
    rw [e1] at hobj; rw [e3] at hlc; rw [e2, e4]
    exact h.cur t htm obj id' stamp hk x hx hobj hlc
  · intro t htm obj id' ts hk y hy hobj
    obtain ⟨x, hx, e1, -, e3, -⟩ := hmem y hy
    rw [e1] at hobj; rw [e3]
    exact h.mono t htm obj id' ts hk x hx hobj
  · intro y hy
    obtain ⟨x, hx, e1, -⟩ := hmem y hy
    rw [e1]; exact h.objLt x hx

/-- a new endpoint object (fresh number; with a recovery timeout it starts recovering on its own timer) -/
theorem sinv_newEndpoint {s : St} (h : SInv s) (id : String) (prio : Nat) :
    SInv { (newEndpoint s id prio).1 with eps := (newEndpoint s id prio).1.eps ++ [(newEndpoint s id prio).2] } := by
  unfold newEndpoint
  by_cases hr : s.r > 0
  · simp only [hr, ↓reduceIte, addTimer]
    have hnew : ∀ t' ∈ s.timers ++ [({ tid := s.nextTid, due := s.now + s.r, kind := .recovery s.nextObj id none, stopped := false } : Timer)],
        t' ∈ s.timers ∨ t' = { tid := s.nextTid, due := s.now + s.r, kind := .recovery s.nextObj id none, stopped := false } := by
      intro t' ht'
      rcases List.mem_append.mp ht' with h1 | h1
      · exact Or.inl h1
      · exact Or.inr (by simpa using h1)
    have hem : ∀ y ∈ s.eps ++ [({ id := id, obj := s.nextObj, prio := prio, status := .recovering, lastChange := none, timer := some s.nextTid } : Ep)],
        y ∈ s.eps ∨ y = { id := id, obj := s.nextObj, prio := prio, status := .recovering, lastChange := none, timer := some s.nextTid } := by
      intro y hy
      rcases List.mem_append.mp hy with h1 | h1
      · exact Or.inl h1
      · exact Or.inr (by simpa using h1)
    constructor
    · intro y hy tl hl
      rcases hem y hy with h1 | h1
      · exact h.lcNow y h1 tl hl
      · rw [h1] at hl; cases hl
    · intro t' ht' obj id' stamp hk
      show 0 < s.r ∧ obj < s.nextObj + 1 ∧ _
      rcases hnew t' ht' with h1 | h1
      · obtain ⟨a, b, c⟩ := h.tmr t' h1 obj id' stamp hk
        exact ⟨a, Nat.lt_succ_of_lt b, c⟩
      · rw [h1] at hk
        simp only [TimerKind.recovery.injEq] at hk
        obtain ⟨ho, -, hs⟩ := hk
        refine ⟨hr, by rw [← ho]; exact Nat.lt_succ_self _, ?_⟩
        intro ts hts; rw [← hs] at hts; cases hts
    · intro t' ht' obj id' stamp hk y hy hobj hlc
      rcases hnew t' ht' with h1 | h1 <;> rcases hem y hy with h2 | h2
      · exact h.cur t' h1 obj id' stamp hk y h2 hobj hlc
      · -- an old timer and the new object: different object numbers
        exfalso
        have := (h.tmr t' h1 obj id' stamp hk).2.1
        rw [h2] at hobj; simp only at hobj
        omega
      · exfalso
        rw [h1] at hk
        simp only [TimerKind.recovery.injEq] at hk
        have := h.objLt y h2
        omega
      · rw [h1, h2]; exact ⟨rfl, rfl⟩
    · intro t' ht' obj id' ts hk y hy hobj
      rcases hnew t' ht' with h1 | h1
      · rcases hem y hy with h2 | h2
        · exact h.mono t' h1 obj id' ts hk y h2 hobj
        · exfalso
          have := (h.tmr t' h1 obj id' (some ts) hk).2.1
          rw [h2] at hobj; simp only at hobj
          omega
      · rw [h1] at hk; simp at hk
    · intro y hy
      show y.obj < s.nextObj + 1
      rcases hem y hy with h1 | h1
      · exact Nat.lt_succ_of_lt (h.objLt y h1)
      · rw [h1]; exact Nat.lt_succ_self _
  · simp only [hr, ↓reduceIte]
    have hem : ∀ y ∈ s.eps ++ [({ id := id, obj := s.nextObj, prio := prio, status := .unavailable, lastChange := none, timer := none } : Ep)],
        y ∈ s.eps ∨ y = { id := id, obj := s.nextObj, prio := prio, status := .unavailable, lastChange := none, timer := none } := by
      intro y hy
      rcases List.mem_append.mp hy with h1 | h1
      · exact Or.inl h1
      · exact Or.inr (by simpa using h1)
    constructor
    · intro y hy tl hl
      rcases hem y hy with h1 | h1
      · exact h.lcNow y h1 tl hl
      · rw [h1] at hl; cases hl
    · intro t' ht' obj id' stamp hk
      obtain ⟨a, b, c⟩ := h.tmr t' ht' obj id' stamp hk
      exact ⟨a, Nat.lt_succ_of_lt b, c⟩
    · intro t' ht' obj id' stamp hk y hy hobj hlc
      rcases hem y hy with h2 | h2
      · exact h.cur t' ht' obj id' stamp hk y h2 hobj hlc
      · exfalso
        have := (h.tmr t' ht' obj id' stamp hk).2.1
        rw [h2] at hobj; simp only at hobj
        omega
    · intro t' ht' obj id' ts hk y hy hobj
      rcases hem y hy with h2 | h2
      · exact h.mono t' ht' obj id' ts hk y h2 hobj
      · exfalso
        have := (h.tmr t' ht' obj id' (some ts) hk).2.1
        rw [h2] at hobj; simp only at hobj
        omega
    · intro y hy
      show y.obj < s.nextObj + 1
      rcases hem y hy with h1 | h1
      · exact Nat.lt_succ_of_lt (h.objLt y h1)
      · rw [h1]; exact Nat.lt_succ_self _

/-- setState(recovering) + scheduleUnavailable for an endpoint that was available -/
theorem sinv_enterRecovery {s : St} (h : SInv s) (hr : 0 < s.r)
    (hid : ∀ a ∈ s.eps, ∀ b ∈ s.eps, a.id = b.id → a = b)
    (hobjU : ∀ a ∈ s.eps, ∀ b ∈ s.eps, a.obj = b.obj → a.id = b.id)
    {ee : Ep} (hee : ee ∈ s.eps) (hav : ee.status = .available) : SInv (enterRecovery s ee) := by
  obtain ⟨f1, -, f3, -, f5⟩ := enterRecovery_fields s ee
  have f6 : (enterRecovery s ee).now = s.now ∧ (enterRecovery s ee).r = s.r := by
    simp [enterRecovery, scheduleUnavailable, setStateEp, addTimer]
  let ne : Ep := { touch .recovering s.now ee with timer := some s.nextTid }
  have hmemE0 : ∀ y ∈ (enterRecovery s ee).eps, ∃ x ∈ s.eps,
      y = if x.id == ee.id then { touch .recovering s.now x with timer := some s.nextTid } else x := by
    intro y hy
    rw [f3] at hy
    obtain ⟨x1, hx1, rfl⟩ := mem_updId.mp hy
    obtain ⟨x, hx, rfl⟩ := mem_updId.mp hx1
    refine ⟨x, hx, ?_⟩
    by_cases hxe : (x.id == ee.id) = true
    · simp [hxe, touch]
    · simp [hxe]
  have hmemE : ∀ y ∈ (enterRecovery s ee).eps, y = ne ∨ (y ∈ s.eps ∧ y.id ≠ ee.id) := by
    intro y hy
    obtain ⟨x, hx, rfl⟩ := hmemE0 y hy
    by_cases hxe : (x.id == ee.id) = true
    · left
      have : x = ee := hid x hx ee hee (by simpa using hxe)
      subst this
      simp only [hxe, ↓reduceIte, ne]
    · right
      have hne : x.id ≠ ee.id := by simpa using hxe
      simp only [hxe, Bool.false_eq_true, ↓reduceIte]
      exact ⟨hx, hne⟩
  have hmemT : ∀ t' ∈ (enterRecovery s ee).timers,
      (∃ t0 ∈ s.timers, t'.tid = t0.tid ∧ t'.kind = t0.kind ∧ t'.due = t0.due) ∨
      t' = { tid := s.nextTid, due := s.now + s.r, kind := .recovery ee.obj ee.id (some s.now), stopped := false } := by
    intro t' ht'
    rw [f1] at ht'
    rcases List.mem_append.mp ht' with h1 | h1
    · obtain ⟨t0, ht0, e1, e2, e3, -⟩ := mem_stopOpt h1
      exact Or.inl ⟨t0, ht0, e1, e2, e3⟩
    · exact Or.inr (by simpa using h1)
  have hother : ∀ y ∈ s.eps, y.id ≠ ee.id → y.obj ≠ ee.obj := fun y hy hne ho => hne (hobjU y hy ee hee ho)
  constructor
  · intro y hy tl hl
    rw [f6.1]
    rcases hmemE y hy with rfl | ⟨hy', -⟩
    · simp only [ne, touch, Option.some.injEq] at hl; omega
    · exact h.lcNow y hy' tl hl
  · intro t' ht' obj id stamp hk
    rw [f6.2, f5, f6.1]
    rcases hmemT t' ht' with ⟨t0, ht0, -, e2, e3⟩ | rfl
    · rw [e2] at hk; rw [e3]; exact h.tmr t0 ht0 obj id stamp hk
    · simp only [TimerKind.recovery.injEq] at hk
      obtain ⟨ho, -, hs⟩ := hk
      refine ⟨hr, by rw [← ho]; exact h.objLt ee hee, ?_⟩
      intro ts hts
      rw [← hs] at hts
      simp only [Option.some.injEq] at hts
      subst hts
      exact ⟨rfl, Int.le_refl _⟩
  · intro t' ht' obj id stamp hk y hy hobj hlc
    rcases hmemT t' ht' with ⟨t0, ht0, e1, e2, -⟩ | rfl
    · rw [e2] at hk
      rcases hmemE y hy with rfl | ⟨hy', -⟩
      · -- an old timer whose stamp is `now`: the endpoint would have been recovering, it was available
        exfalso
        simp only [ne, touch] at hobj hlc
        have hstamp : stamp = some s.now := hlc.symm
        subst hstamp
        obtain ⟨tl, h1, h2⟩ := h.mono t0 ht0 obj id s.now hk ee hee hobj
        have h3 := h.lcNow ee hee tl h1
        have htl : tl = s.now := by omega
        obtain ⟨hrec, -⟩ := h.cur t0 ht0 obj id (some s.now) hk ee hee hobj (by rw [h1, htl])
        rw [hav] at hrec; cases hrec
      · rw [e1]; exact h.cur t0 ht0 obj id stamp hk y hy' hobj hlc
    · simp only [TimerKind.recovery.injEq] at hk
      rcases hmemE y hy with rfl | ⟨hy', hne⟩
      · exact ⟨rfl, rfl⟩
      · exact absurd (hobj.trans hk.1.symm) (hother y hy' hne)
  · intro t' ht' obj id ts hk y hy hobj
    rcases hmemT t' ht' with ⟨t0, ht0, -, e2, -⟩ | rfl
    · rw [e2] at hk
      rcases hmemE y hy with rfl | ⟨hy', -⟩
      · obtain ⟨-, -, hdue⟩ := h.tmr t0 ht0 obj id (some ts) hk
        exact ⟨s.now, rfl, (hdue ts rfl).2⟩
      · exact h.mono t0 ht0 obj id ts hk y hy' hobj
    · simp only [TimerKind.recovery.injEq, Option.some.injEq] at hk
      rcases hmemE y hy with rfl | ⟨hy', hne⟩
      · exact ⟨s.now, rfl, by omega⟩
      · exact absurd (hobj.trans hk.1.symm) (hother y hy' hne)
  · intro y hy
    rw [f5]
    rcases hmemE y hy with rfl | ⟨hy', -⟩
    · exact h.objLt ee hee
    · exact h.objLt y hy'

/-- maybeUpdateCurrent: the table, the clock and the allocator stay; at most a delayed-switch timer is added -/
theorem muc_timers' (s : St) :
    (maybeUpdateCurrent s).nextObj = s.nextObj ∧
    ∀ t' ∈ (maybeUpdateCurrent s).timers, t' ∈ s.timers ∨ t'.kind = .switch := by
  rw [muc_eq]
  have hsw : ∀ f t, (switchFromTo s f t).nextObj = s.nextObj ∧
      ∀ t' ∈ (switchFromTo s f t).timers, t' ∈ s.timers ∨ t'.kind = .switch := by
    intro f t
    unfold switchFromTo
    split
    · exact ⟨rfl, fun _ h => Or.inl h⟩
    · split
      · exact ⟨rfl, fun _ h => Or.inl h⟩
      · refine ⟨rfl, ?_⟩
        intro t' ht'
        simp only [addTimer] at ht'
        rcases List.mem_append.mp ht' with h1 | h1
        · exact Or.inl h1
        · right; simp only [List.mem_singleton] at h1; rw [h1]
  cases findEp s.eps s.current with
  | none =>
    cases topAvail s.eps with
    | none => simp only; split <;> exact ⟨rfl, fun _ h => Or.inl h⟩
    | some t => exact hsw _ _
  | some c =>
    cases topAvail s.eps with
    | none => exact ⟨rfl, fun _ h => Or.inl h⟩
    | some t => simp only; split
                · exact ⟨rfl, fun _ h => Or.inl h⟩
                · exact hsw _ _

theorem sinv_muc {s : St} (h : SInv s) : SInv (maybeUpdateCurrent s) := by
  obtain ⟨f1, f2, -, f4⟩ := muc_fields s
  obtain ⟨g1, g2⟩ := muc_timers' s
  apply sinv_of_timers h f1 f4 f2 g1
  intro t' ht'
  rcases g2 t' ht' with h1 | h1
  · exact Or.inl ⟨t', h1, rfl, rfl, rfl⟩
  · exact Or.inr h1

theorem sinv_sea {s : St} (h : SInv s) (hb : Base s) (ht : TInv s none) (id : String) (a : Bool) :
    SInv (setEndpointAvailability s id a) := by
  unfold setEndpointAvailability
  cases hf : findEp s.eps id with
  | none => exact h
  | some ee =>
    have hee := (findEp_some hf).1
    simp only
    split
    · rcases sinv_setStateEp h ht.tidInj hb.idInj hee .available with h' | h'
      · exact h'
      · cases h'
    · split
      · exact h
      · rename_i hav
        have hav' : ee.status = .available := by simpa using hav
        split
        · rcases sinv_setStateEp h ht.tidInj hb.idInj hee .unavailable with h' | h'
          · exact h'
          · cases h'
        · rename_i hr0
          have hr : 0 < s.r := by
            have := hb.rnn
            have hne : s.r ≠ 0 := by simpa using hr0
            omega
          exact sinv_enterRecovery h hr hb.idInj ht.objId hee hav'

theorem sinv_removeTimer {s : St} (h : SInv s) (tid : Nat) : SInv { s with timers := removeTimer s.timers tid } := by
  refine sinv_of_timers (s' := { s with timers := removeTimer s.timers tid }) h rfl rfl rfl rfl ?_
  intro t' ht'
  have : t' ∈ s.timers := (List.mem_filter.mp ht').1
  exact Or.inl ⟨t', this, rfl, rfl, rfl⟩

theorem sinv_setStateOrphan {s : St} (h : SInv s) (o : Ep) (st : Status) : SInv (setStateOrphan s o st) := by
  refine sinv_of_timers (s' := setStateOrphan s o st) h rfl rfl rfl rfl ?_
  intro t' ht'
  obtain ⟨t0, ht0, e1, e2, e3, -⟩ := mem_stopOpt (show t' ∈ stopOpt s.now s.timers o.timer from ht')
  exact Or.inl ⟨t0, ht0, e1, e2, e3⟩

theorem sinv_fireSwitch {s : St} (h : SInv s) : SInv (fireSwitch s) := by
  have : (fireSwitch s).eps = s.eps ∧ (fireSwitch s).timers = s.timers ∧ (fireSwitch s).now = s.now ∧
      (fireSwitch s).r = s.r ∧ (fireSwitch s).nextObj = s.nextObj := by
    unfold fireSwitch
    repeat' split
    all_goals exact ⟨rfl, rfl, rfl, rfl, rfl⟩
  apply sinv_of_timers h this.1 this.2.2.1 this.2.2.2.1 this.2.2.2.2
  intro t' ht'
  rw [this.2.1] at ht'
  exact Or.inl ⟨t', ht', rfl, rfl, rfl⟩

theorem removeTimer_inj {ts : List Timer} (hinj : ∀ a ∈ ts, ∀ b ∈ ts, a.tid = b.tid → a = b) (tid : Nat) :
    ∀ a ∈ removeTimer ts tid, ∀ b ∈ removeTimer ts tid, a.tid = b.tid → a = b := by
  intro a ha b hb
  exact hinj a (List.mem_filter.mp ha).1 b (List.mem_filter.mp hb).1

theorem sinv_opFire {s : St} (h : SInv s) (hb : Base s) (ht : TInv s none) (tid : Nat) : SInv (opFire s tid).1 := by
  unfold opFire
  cases hfind : s.timers.find? (fun t => t.tid == tid) with
  | none => exact h
  | some t =>
    simp only
    split
    · exact h
    · have h0 := sinv_removeTimer h tid
      cases hk : t.kind with
      | switch => exact sinv_fireSwitch h0
      | recovery obj id stamp =>
        simp only
        unfold fireRecovery
        simp only
        have horph : SInv (match List.find? (fun e => e.obj == obj) s.orphans with
            | none => { s with timers := removeTimer s.timers tid }
            | some e => if (e.lastChange != stamp) = true then { s with timers := removeTimer s.timers tid }
                        else maybeUpdateCurrent (setStateOrphan { s with timers := removeTimer s.timers tid } e .unavailable)) := by
          cases s.orphans.find? (fun e => e.obj == obj) with
          | none => exact h0
          | some o =>
            simp only
            split
            · exact h0
            · exact sinv_muc (sinv_setStateOrphan h0 o _)
        cases hfe : findEp s.eps id with
        | none => exact horph
        | some e =>
          have hem := findEp_some hfe
          simp only
          by_cases hobj : (e.obj == obj) = true
          · simp only [hobj, ↓reduceIte]
            split
            · exact h0
            · apply sinv_muc
              rcases sinv_setStateEp (s := { s with timers := removeTimer s.timers tid }) h0
                  (removeTimer_inj ht.tidInj tid) hb.idInj hem.1 .unavailable with h' | h'
              · exact h'
              · cases h'
          · simp only [hobj, Bool.false_eq_true, ↓reduceIte]
            exact horph

theorem sinv_addOrUpdate (l : List String) : ∀ (s : St) (i : Nat), SInv s → SInv (addOrUpdate s l i) := by
  induction l with
  | nil => intro s i h; exact h
  | cons id rest ih =>
    intro s i h
    rw [addOrUpdate_cons]
    split
    · exact ih _ _ (sinv_newEndpoint h id i)
    · exact ih _ _ (sinv_prio h id i)

theorem sinv_opSetEndpoints {s : St} (h : SInv s) (l : List String) : SInv (opSetEndpoints s l).1 := by
  unfold opSetEndpoints
  split
  · exact h
  · apply sinv_muc
    apply sinv_addOrUpdate
    unfold dropObsolete
    exact sinv_of_sub h (fun e he => (List.mem_filter.mp he).1) rfl rfl rfl rfl

theorem sinv_initLoop (l : List String) : ∀ (s : St) (i : Nat), SInv s → SInv (initLoop s l i) := by
  induction l with
  | nil => intro s i h; simpa [initLoop] using h
  | cons x xs ih =>
    intro s i h
    rw [initLoop_cons, initLoop_step_eq]
    apply ih
    apply sinv_newEndpoint
    exact sinv_of_sub h (fun e he => (List.mem_filter.mp he).1) rfl rfl rfl rfl

theorem sinv_init {r d : Int} {l : List String} {s : St} (h : initRaw r d l = some s) : SInv s := by
  cases l with
  | nil => simp [initRaw] at h
  | cons first rest =>
    simp only [initRaw, Option.some.injEq] at h
    subst h
    apply sinv_initLoop
    constructor <;> simp

theorem sinv_step {s : St} (h : SInv s) (hi : Inv s) (ht : TInv s none) (op : Op) : SInv (stepRaw s op).1 := by
  cases op with
  | setAvail e a => exact sinv_muc (sinv_sea h hi.toBase ht e a)
  | setEndpoints l => exact sinv_opSetEndpoints h l
  | advance dt =>
    simp only [stepRaw]
    constructor
    · intro e he tl hl; have := h.lcNow e he tl hl; show tl ≤ s.now + dt; omega
    · intro t htm obj id stamp hk
      obtain ⟨a, b, c⟩ := h.tmr t htm obj id stamp hk
      refine ⟨a, b, ?_⟩
      intro ts hts
      obtain ⟨c1, c2⟩ := c ts hts
      exact ⟨c1, by show ts ≤ s.now + dt; omega⟩
    · exact h.cur
    · exact h.mono
    · exact h.objLt
  | fire tid => exact sinv_opFire h hi.toBase ht tid

theorem reach_sinv {s : St} (h : Reach s) : SInv s := by
  induction h with
  | initRaw _ _ hi => exact sinv_init hi
  | stepRaw op hr ih => exact sinv_step ih (reach_inv hr) (reach_tinv hr) op

/-! ## what each operation does to the `available` flags -/

theorem newEndpoint_not_available (s : St) (id : String) (p : Nat) : (newEndpoint s id p).2.status ≠ .available := by
  unfold newEndpoint
  simp only
  split
  · rename_i hr; simp [hr]
  · rename_i hr; simp [hr]

theorem addOrUpdate_av (l : List String) : ∀ (s : St) (i : Nat), ∀ y ∈ (addOrUpdate s l i).eps,
    (∃ x ∈ s.eps, y.id = x.id ∧ y.status = x.status) ∨
    (findEp s.eps y.id = none ∧ y.status ≠ .available ∧ y.id ∈ l) := by
  induction l with
  | nil => intro s i y hy; exact Or.inl ⟨y, by simpa [addOrUpdate] using hy, rfl, rfl⟩
  | cons id rest ih =>
    intro s i y hy
    rw [addOrUpdate_cons] at hy
    cases hf : findEp s.eps id with
    | none =>
      rw [hf] at hy
      simp only at hy
      have hfld := newEndpoint_fields s id i
      rcases ih _ _ y hy with ⟨x, hx, e1, e2⟩ | ⟨hn, hs, hm⟩
      · simp only [List.mem_append, List.mem_singleton] at hx
        rcases hx with hx | hx
        · rw [hfld.1] at hx; exact Or.inl ⟨x, hx, e1, e2⟩
        · right
          rw [hx, hfld.2.2.2.2.1] at e1
          rw [hx] at e2
          refine ⟨by rw [e1]; exact hf, by rw [e2]; exact newEndpoint_not_available s id i, by rw [e1]; exact List.mem_cons_self⟩
      · right
        refine ⟨?_, hs, List.mem_cons_of_mem _ hm⟩
        rw [findEp_none] at hn ⊢
        intro x hx
        apply hn x
        simp only [List.mem_append]
        left; rw [hfld.1]; exact hx
    | some e0 =>
      rw [hf] at hy
      simp only at hy
      rcases ih _ _ y hy with ⟨x, hx, e1, e2⟩ | ⟨hn, hs, hm⟩
      · obtain ⟨x0, hx0, rfl⟩ := List.mem_map.mp hx
        refine Or.inl ⟨x0, hx0, ?_, ?_⟩
        · rw [e1]; split <;> rfl
        · rw [e2]; split <;> rfl
      · right
        refine ⟨?_, hs, List.mem_cons_of_mem _ hm⟩
        rw [findEp_none] at hn ⊢
        intro x hx
        have := hn (if x.id == id then { x with prio := i } else x) (List.mem_map.mpr ⟨x, hx, rfl⟩)
        have hid : (if x.id == id then { x with prio := i } else x).id = x.id := by split <;> rfl
        rw [hid] at this; exact this

/-- the recovery timers never touch an available endpoint; availability reports and list replacements
    act on the flags exactly as their names say -/
theorem fire_av {s : St} (hs : SInv s) (hid : ∀ a ∈ s.eps, ∀ b ∈ s.eps, a.id = b.id → a = b) (tid : Nat) :
    ∀ y ∈ (opFire s tid).1.eps, ∃ x ∈ s.eps, y.id = x.id ∧ (y.status = .available ↔ x.status = .available) := by
  have hrefl : ∀ y ∈ s.eps, ∃ x ∈ s.eps, y.id = x.id ∧ (y.status = .available ↔ x.status = .available) :=
    fun y hy => ⟨y, hy, rfl, Iff.rfl⟩
  unfold opFire
  cases hfind : s.timers.find? (fun t => t.tid == tid) with
  | none => exact hrefl
  | some t =>
    have htm : t ∈ s.timers := List.mem_of_find?_eq_some hfind
    simp only
    split
    · exact hrefl
    · cases hk : t.kind with
      | switch =>
        simp only
        have : (fireSwitch { s with timers := removeTimer s.timers tid }).eps = s.eps := by
          unfold fireSwitch
          repeat' split
          all_goals rfl
        rw [this]; exact hrefl
      | recovery obj id stamp =>
        simp only
        unfold fireRecovery
        simp only
        have horph : (match List.find? (fun (e : Ep) => e.obj == obj) s.orphans with
            | none => ({ s with timers := removeTimer s.timers tid } : St)
            | some e => if (e.lastChange != stamp) = true then { s with timers := removeTimer s.timers tid }
                        else maybeUpdateCurrent (setStateOrphan { s with timers := removeTimer s.timers tid } e .unavailable)).eps = s.eps := by
          cases s.orphans.find? (fun e => e.obj == obj) with
          | none => rfl
          | some o =>
            simp only
            split
            · rfl
            · rw [(muc_fields _).1]; rfl
        cases hfe : findEp s.eps id with
        | none =>
          simp only
          intro y hy
          have hy' : y ∈ s.eps := by rw [← horph]; exact hy
          exact hrefl y hy'
        | some e =>
          have hem := findEp_some hfe
          simp only
          by_cases hobj : (e.obj == obj) = true
          · simp only [hobj, ↓reduceIte]
            split
            · exact hrefl
            · rename_i hlc
              have hlc' : e.lastChange = stamp := by simpa using hlc
              -- the captured endpoint is recovering: the timer's stamp is its current one
              have hrec := (hs.cur t htm obj id stamp hk e hem.1 (by simpa using hobj) hlc').1
              rw [(muc_fields _).1]
              intro y hy
              simp only [setStateEp] at hy
              obtain ⟨x, hx, rfl⟩ := mem_updId.mp hy
              refine ⟨x, hx, by split <;> rfl, ?_⟩
              by_cases hxe : (x.id == e.id) = true
              · have hxid : x.id = e.id := by simpa using hxe
                simp only [hxe, ↓reduceIte, touch]
                constructor
                · intro h; cases h
                · intro h
                  have hxe' : x = e := hid x hx e hem.1 hxid
                  rw [hxe', hrec] at h; cases h
              · simp only [hxe, Bool.false_eq_true, ↓reduceIte]
          · simp only [hobj, Bool.false_eq_true, ↓reduceIte]
            intro y hy
            have hy' : y ∈ s.eps := by rw [← horph]; exact hy
            exact hrefl y hy'

theorem findEp_isSome_of_mem {eps : List Ep} {x : Ep} {id : String} (hx : x ∈ eps) (hid : x.id = id) :
    (findEp eps id).isSome = true := by
  cases h : findEp eps id with
  | none => exact absurd hid (findEp_none.mp h x hx)
  | some _ => rfl

theorem sea_av {s : St} (hid : ∀ a ∈ s.eps, ∀ b ∈ s.eps, a.id = b.id → a = b) (id : String) (a : Bool) :
    ∀ y ∈ (setEndpointAvailability s id a).eps, ∃ x ∈ s.eps, y.id = x.id ∧
      (x.id = id → (y.status = .available ↔ a = true)) ∧ (x.id ≠ id → y.status = x.status) := by
  unfold setEndpointAvailability
  cases hf : findEp s.eps id with
  | none =>
    intro y hy
    exact ⟨y, hy, rfl, fun h => absurd h (findEp_none.mp hf y hy), fun _ => rfl⟩
  | some ee =>
    obtain ⟨hee, heeid⟩ := findEp_some hf
    simp only
    have hupd : ∀ (st : Status) (g : Ep → Ep) (hg : ∀ x, (g x).id = x.id ∧ (g x).status = st),
        ∀ y ∈ updId s.eps ee.id g, ∃ x ∈ s.eps, y.id = x.id ∧
          (x.id = id → y.status = st) ∧ (x.id ≠ id → y.status = x.status) := by
      intro st g hg y hy
      obtain ⟨x, hx, rfl⟩ := mem_updId.mp hy
      refine ⟨x, hx, ?_, ?_, ?_⟩
      · split
        · exact (hg x).1
        · rfl
      · intro hxid
        have : (x.id == ee.id) = true := by simp [hxid, heeid]
        simp only [this, ↓reduceIte]; exact (hg x).2
      · intro hxid
        have : (x.id == ee.id) = false := by simp [hxid, heeid]
        simp only [this, Bool.false_eq_true, ↓reduceIte]
    split
    · rename_i ha
      intro y hy
      obtain ⟨x, hx, e1, e2, e3⟩ := hupd .available (touch .available s.now) (fun x => ⟨rfl, rfl⟩) y hy
      exact ⟨x, hx, e1, fun h => by rw [e2 h]; simp [ha], e3⟩
    · rename_i ha
      have ha' : a = false := by simpa using ha
      split
      · rename_i hst
        intro y hy
        refine ⟨y, hy, rfl, ?_, fun _ => rfl⟩
        intro hyid
        have : y = ee := hid y hy ee hee (by rw [hyid, heeid])
        rw [this, ha']
        have hne : ee.status ≠ .available := by simpa using hst
        simp [hne]
      · split
        · intro y hy
          obtain ⟨x, hx, e1, e2, e3⟩ := hupd .unavailable (touch .unavailable s.now) (fun x => ⟨rfl, rfl⟩) y hy
          exact ⟨x, hx, e1, fun h => by rw [e2 h, ha']; simp, e3⟩
        · intro y hy
          have hy' : y ∈ (enterRecovery s ee).eps := hy
          rw [(enterRecovery_fields s ee).2.2.1] at hy'
          obtain ⟨x1, hx1, rfl⟩ := mem_updId.mp hy'
          obtain ⟨x, hx, e1, e2, e3⟩ := hupd .recovering (touch .recovering s.now) (fun x => ⟨rfl, rfl⟩) x1 hx1
          refine ⟨x, hx, ?_, ?_, ?_⟩
          · rw [← e1]; split <;> rfl
          · intro h
            have : (if x1.id == ee.id then { x1 with timer := some s.nextTid } else x1).status = x1.status := by split <;> rfl
            rw [this, e2 h, ha']; simp
          · intro h
            have : (if x1.id == ee.id then { x1 with timer := some s.nextTid } else x1).status = x1.status := by split <;> rfl
            rw [this]; exact e3 h

/-! ## the history record: the last availability report per endpoint since it was (re)added -/

/-- how an operation changes the record: a report for an endpoint of the list is noted; replacing the
    list keeps the notes of the endpoints that stay and forgets the others (a re-added endpoint starts
    without a report); clock advances and timers change nothing -/
def recordReport (s : St) (ρ : String → Option Bool) : Op → String → Option Bool
  | .setAvail e a => fun x => if x == e && (findEp s.eps e).isSome then some a else ρ x
  | .setEndpoints l => fun x => if l.isEmpty then ρ x else if l.contains x && (findEp s.eps x).isSome then ρ x else none
  | _ => ρ

/-- reachable states together with the history record -/
inductive ReachR : St → (String → Option Bool) → Prop where
  | initRaw {r d : Int} {l : List String} {s : St} : 0 ≤ r → 0 ≤ d → initRaw r d l = some s → ReachR s (fun _ => none)
  | stepRaw {s : St} {ρ : String → Option Bool} (op : Op) : ReachR s ρ → ReachR (stepRaw s op).1 (recordReport s ρ op)

theorem ReachR.reach {s : St} {ρ : String → Option Bool} (h : ReachR s ρ) : Reach s := by
  induction h with
  | initRaw hr hd hi => exact Reach.initRaw hr hd hi
  | stepRaw op _ ih => exact Reach.stepRaw op ih

theorem init_not_available {r d : Int} {l : List String} {s : St} (h : initRaw r d l = some s) :
    ∀ e ∈ s.eps, e.status ≠ .available := by
  cases l with
  | nil => simp [initRaw] at h
  | cons first rest =>
    simp only [initRaw, Option.some.injEq] at h
    subst h
    suffices hl : ∀ (l : List String) (s : St) (i : Nat), (∀ e ∈ s.eps, e.status ≠ .available) →
        ∀ e ∈ (initLoop s l i).eps, e.status ≠ .available from hl _ _ _ (by intro e he; cases he)
    intro l
    induction l with
    | nil => intro s i hs; simpa [initLoop] using hs
    | cons x xs ih =>
      intro s i hs
      rw [initLoop_cons]
      apply ih
      intro e he
      simp only [List.mem_append, List.mem_filter, List.mem_singleton] at he
      rcases he with he | he
      · rw [(newEndpoint_fields s x i).1] at he; exact hs e he.1
      · rw [he]; exact newEndpoint_not_available s x i

/-- **C13 ("known to be available")** in every reachable state, after any history of reports, list
    replacements, clock advances and timer firings (stale, stopped or late ones included): an endpoint
    of the list has status `available` exactly when the last report for it since it was (re)added said
    "available" -/
theorem status_matches_reports {s : St} {ρ : String → Option Bool} (h : ReachR s ρ) :
    ∀ e ∈ s.eps, (e.status = .available ↔ ρ e.id = some true) := by
  induction h with
  | initRaw _ _ hi =>
    intro e he
    constructor
    · intro h; exact absurd h (init_not_available hi e he)
    · intro h; cases h
  | @stepRaw s ρ op hr ih =>
    have hreach := hr.reach
    have hb := (reach_inv hreach).toBase
    cases op with
    | setAvail id a =>
      intro y hy
      have hy' : y ∈ (setEndpointAvailability s id a).eps := by
        simp only [stepRaw, opSetAvail] at hy
        rw [(muc_fields _).1] at hy; exact hy
      obtain ⟨x, hx, e1, e2, e3⟩ := sea_av hb.idInj id a y hy'
      simp only [recordReport]
      by_cases hxid : x.id = id
      · have hsome : (findEp s.eps id).isSome = true := findEp_isSome_of_mem hx hxid
        have hc : (y.id == id && (findEp s.eps id).isSome) = true := by simp [e1, hxid, hsome]
        simp only [hc, ↓reduceIte, Option.some.injEq]
        exact e2 hxid
      · have hc : (y.id == id && (findEp s.eps id).isSome) = false := by simp [e1, hxid]
        simp only [hc, Bool.false_eq_true, ↓reduceIte]
        rw [e3 hxid, e1]; exact ih x hx
    | setEndpoints l =>
      intro y hy
      simp only [stepRaw, opSetEndpoints] at hy
      simp only [recordReport]
      by_cases hl : l.isEmpty = true
      · simp only [hl, ↓reduceIte] at hy ⊢; exact ih y hy
      · have hl' : l.isEmpty = false := by simpa using hl
        simp only [hl', Bool.false_eq_true, ↓reduceIte] at hy ⊢
        rw [(muc_fields _).1] at hy
        rcases addOrUpdate_av l _ 0 y hy with ⟨x, hx, e1, e2⟩ | ⟨hn, hs, hm⟩
        · -- an endpoint that stays
          have hx' : x ∈ s.eps ∧ l.contains x.id = true := by
            simp only [dropObsolete, List.mem_filter] at hx; exact hx
          have hsome : (findEp s.eps y.id).isSome = true := findEp_isSome_of_mem hx'.1 e1.symm
          have hcont : l.contains y.id = true := by rw [e1]; exact hx'.2
          have hc : (l.contains y.id && (findEp s.eps y.id).isSome) = true := by rw [hcont, hsome]; rfl
          simp only [hc, ↓reduceIte]
          rw [e2, e1]; exact ih x hx'.1
        · -- a new endpoint: not available, no report
          have hnone : (findEp s.eps y.id).isSome = false := by
            cases hfe : findEp s.eps y.id with
            | none => rfl
            | some x =>
              exfalso
              obtain ⟨hx, hxid⟩ := findEp_some hfe
              have hcont : l.contains x.id = true := by rw [hxid]; simpa using hm
              have : x ∈ (dropObsolete s l).eps := by
                simp only [dropObsolete, List.mem_filter]; exact ⟨hx, hcont⟩
              exact (findEp_none.mp hn) x this hxid
          have hc : (l.contains y.id && (findEp s.eps y.id).isSome) = false := by simp [hnone]
          simp only [hc, Bool.false_eq_true, ↓reduceIte]
          constructor
          · intro h; exact absurd h hs
          · intro h; cases h
    | advance dt => exact ih
    | fire tid =>
      intro y hy
      obtain ⟨x, hx, e1, e2⟩ := fire_av (reach_sinv hreach) hb.idInj tid y hy
      simp only [recordReport]
      rw [e2, e1]; exact ih x hx

/-- the same over operation lists -/
def runR (s : St) (ρ : String → Option Bool) : List Op → St × (String → Option Bool)
  | [] => (s, ρ)
  | op :: ops => runR (stepRaw s op).1 (recordReport s ρ op) ops

theorem reachR_runR {s : St} {ρ : String → Option Bool} (h : ReachR s ρ) (ops : List Op) :
    ReachR (runR s ρ ops).1 (runR s ρ ops).2 := by
  induction ops generalizing s ρ with
  | nil => exact h
  | cons op ops ih => exact ih (ReachR.stepRaw op h)

theorem status_matches_reports_run {r d : Int} {l : List String} {s0 : St} (hr : 0 ≤ r) (hd : 0 ≤ d)
    (hi : initRaw r d l = some s0) (ops : List Op) :
    ∀ e ∈ (runR s0 (fun _ => none) ops).1.eps,
      (e.status = .available ↔ (runR s0 (fun _ => none) ops).2 e.id = some true) :=
  status_matches_reports (reachR_runR (ReachR.initRaw hr hd hi) ops)

/-- a history of the kind the theorem is about (test, by evaluation): `a` goes down and up again at one
    clock reading, the clock passes the recovery timeout, whatever timer is left fires: `a` is still
    available and still current -/
def exOps : List Op := [.setAvail "a" true, .setAvail "b" true, .setAvail "a" false, .setAvail "a" true,
                         .advance 11, .fire 0, .fire 1, .fire 2]
def exRun : Option (St × (String → Option Bool)) := (initRaw 10 0 ["a", "b"]).map fun s0 => runR s0 (fun _ => none) exOps
example : (exRun.map fun r => (r.1.current, r.2 "a", r.1.eps.map fun e => (e.id, e.status))) =
    some ("a", some true, [("a", .available), ("b", .available)]) := by decide

/-! ## C14: the recovery window is not cut short -/

/-- **C14** an endpoint that went recovering at `t0` (an available endpoint reported unavailable) can be
    made unavailable by a timer only from `t0 + RecoveryTimeout` on: whichever timer fires — its own,
    a stale one of an earlier window, one that was stopped too late — before that moment the endpoint
    is still recovering afterwards -/
theorem recovery_not_cut_short {s : St} (h : Reach s) (tid : Nat) :
    ∀ x ∈ s.eps, x.status = .recovering → ∀ t0, x.lastChange = some t0 →
    ∀ y ∈ (opFire s tid).1.eps, y.id = x.id → y.status = .unavailable → t0 + s.r ≤ s.now := by
  have hs := reach_sinv h
  have hid := (reach_inv h).toBase.idInj
  intro x hx hrec t0 hlc y hy hyid hyun
  -- a table that still contains x unchanged cannot show it unavailable
  have hsame : ∀ y ∈ s.eps, y.id = x.id → y.status = .unavailable → t0 + s.r ≤ s.now := by
    intro y hy hyid hyun
    have : y = x := hid y hy x hx hyid
    rw [this, hrec] at hyun; cases hyun
  unfold opFire at hy
  cases hfind : s.timers.find? (fun t => t.tid == tid) with
  | none => rw [hfind] at hy; exact hsame y hy hyid hyun
  | some t =>
    have htm : t ∈ s.timers := List.mem_of_find?_eq_some hfind
    rw [hfind] at hy
    simp only at hy
    split at hy
    · exact hsame y hy hyid hyun
    · rename_i hcan
      have hdue : t.due ≤ s.now := by simpa [canFire] using hcan
      cases hk : t.kind with
      | switch =>
        rw [hk] at hy
        simp only at hy
        have : (fireSwitch { s with timers := removeTimer s.timers tid }).eps = s.eps := by
          unfold fireSwitch
          repeat' split
          all_goals rfl
        rw [this] at hy; exact hsame y hy hyid hyun
      | recovery obj id stamp =>
        rw [hk] at hy
        simp only at hy
        unfold fireRecovery at hy
        simp only at hy
        have horph : (match List.find? (fun (e : Ep) => e.obj == obj) s.orphans with
            | none => ({ s with timers := removeTimer s.timers tid } : St)
            | some e => if (e.lastChange != stamp) = true then { s with timers := removeTimer s.timers tid }
                        else maybeUpdateCurrent (setStateOrphan { s with timers := removeTimer s.timers tid } e .unavailable)).eps = s.eps := by
          cases s.orphans.find? (fun e => e.obj == obj) with
          | none => rfl
          | some o =>
            simp only
            split
            · rfl
            · rw [(muc_fields _).1]; rfl
        cases hfe : findEp s.eps id with
        | none =>
          rw [hfe] at hy
          simp only at hy
          have hy' : y ∈ s.eps := by rw [← horph]; exact hy
          exact hsame y hy' hyid hyun
        | some e =>
          have hem := findEp_some hfe
          rw [hfe] at hy
          simp only at hy
          by_cases hobj : (e.obj == obj) = true
          · simp only [hobj, ↓reduceIte] at hy
            split at hy
            · exact hsame y hy hyid hyun
            · rename_i hlc2
              have hlc' : e.lastChange = stamp := by simpa using hlc2
              rw [(muc_fields _).1] at hy
              simp only [setStateEp] at hy
              obtain ⟨x', hx', rfl⟩ := mem_updId.mp hy
              by_cases hxe : (x'.id == e.id) = true
              · -- the endpoint the timer belongs to: it is x, and the timer carries x's stamp
                have hx'e : x' = e := hid x' hx' e hem.1 (by simpa using hxe)
                have hex : e = x := hid e hem.1 x hx (by
                  simp only [hxe, ↓reduceIte, touch] at hyid
                  rw [← hx'e]; exact hyid)
                have hst : stamp = some t0 := by rw [← hlc', hex]; exact hlc
                obtain ⟨-, -, hd⟩ := hs.tmr t htm obj id stamp hk
                have := (hd t0 hst).1
                omega
              · simp only [hxe, Bool.false_eq_true, ↓reduceIte] at hyid hyun
                exact hsame x' hx' hyid hyun
          · simp only [hobj, Bool.false_eq_true, ↓reduceIte] at hy
            have hy' : y ∈ s.eps := by rw [← horph]; exact hy
            exact hsame y hy' hyid hyun

end GcpVerif.ME
