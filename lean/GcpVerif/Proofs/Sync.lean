/-
C10 — data-race freedom from the lock discipline.
`locksetOK_sound` is proved once, for every access table and every configuration of threads;
`c10_lockset` is the per-run obligation on the table regenerated from /repo's current sources.
-/
import GcpVerif.Model.Sync
import GcpVerif.Generated.Accesses
import GcpVerif.Generated.Consts
namespace GcpVerif.Sync

/-- a goroutine about to perform `acc`, with the mutexes it really holds -/
structure Thread where
  acc : Access
  heldW : List String
  heldR : List String

/-- the extractor's must-hold sets are sound for this thread -/
def Faithful (t : Thread) : Prop :=
  (∀ m ∈ t.acc.w, m ∈ t.heldW) ∧ (∀ m ∈ t.acc.r, m ∈ t.heldR ∨ m ∈ t.heldW)

/-- mutual exclusion of sync.Mutex / sync.RWMutex: a mutex held exclusively by one goroutine is not
    held in any mode by another -/
def Excl (t1 t2 : Thread) : Prop :=
  (∀ m ∈ t1.heldW, m ∉ t2.heldW ∧ m ∉ t2.heldR) ∧ (∀ m ∈ t2.heldW, m ∉ t1.heldW ∧ m ∉ t1.heldR)

/-- **C10 (soundness)** if the table passes the lockset obligation, then in no configuration are two
    goroutines simultaneously at conflicting accesses that may run concurrently — unless both
    accesses are atomic or the pair is a write-once publication. Hence no data race. -/
theorem locksetOK_sound (once : List String) (accs : List Access) (hok : locksetOK once accs = true)
    (t1 t2 : Thread) (h1 : t1.acc ∈ accs) (h2 : t2.acc ∈ accs) (f1 : Faithful t1) (f2 : Faithful t2)
    (hex : Excl t1 t2) (hc : conflicting t1.acc t2.acc = true) (hm : mayRunConcurrently t1.acc t2.acc = true) :
    (t1.acc.atomic = true ∧ t2.acc.atomic = true) ∨ onceExempt once t1.acc t2.acc = true := by
  have hp : pairOK once t1.acc t2.acc = true := by
    simp only [locksetOK, List.all_eq_true] at hok
    exact hok _ h1 _ h2
  simp only [pairOK, hc, hm, Bool.and_self, Bool.not_true, Bool.false_or, Bool.or_eq_true, Bool.and_eq_true] at hp
  rcases hp with (hp | hp) | hp
  · exact Or.inl hp
  · -- a common mutex: contradiction with mutual exclusion
    exfalso
    simp only [commonLock, List.any_eq_true, List.mem_append, Bool.and_eq_true, Bool.or_eq_true,
      Bool.not_eq_true', Access.holds, List.contains_iff_mem] at hp
    obtain ⟨m, hm1, ⟨hm2, ha⟩, hb⟩ := hp
    -- at least one side writes
    simp only [conflicting, Bool.and_eq_true, Bool.or_eq_true] at hc
    rcases hc.2 with hw | hw
    · -- t1 writes: it holds m exclusively
      have hmw : m ∈ t1.acc.w := by
        rcases ha with ha | ha
        · rw [hw] at ha; cases ha
        · exact ha
      have hheld := f1.1 m hmw
      have hnot := hex.1 m hheld
      rcases hm2 with h | h
      · exact hnot.1 (f2.1 m h)
      · rcases f2.2 m h with h' | h'
        · exact hnot.2 h'
        · exact hnot.1 h'
    · have hmw : m ∈ t2.acc.w := by
        rcases hb with hb | hb
        · rw [hw] at hb; cases hb
        · exact hb
      have hheld := f2.1 m hmw
      have hnot := hex.2 m hheld
      rcases hm1 with h | h
      · exact hnot.1 (f1.1 m h)
      · rcases f1.2 m h with h' | h'
        · exact hnot.2 h'
        · exact hnot.1 h'
  · exact Or.inr hp

/-- the write-once side condition holds in the current sources -/
theorem once_side_condition : GcpVerif.Generated.clientStreamWrittenOnlyWhenNil = true := by decide

/-- **C10 (per run)** the access table extracted from the current working tree passes -/
theorem c10_lockset : locksetOK ["ClientStream"] GcpVerif.Generated.accesses = true := by decide +kernel

/-- **C06 (per run)** no call path of the current sources acquires a mutex it may already hold -/
theorem c06_no_self_acquire : noSelfAcquire GcpVerif.Generated.acquisitions = true := by decide +kernel

/-- **C06 (per run)** the acquisition order of the current sources is acyclic
    (gb.pickMu < gb.mu < ref.mu; gme.mu < me.mu) -/
theorem c06_order_acyclic : orderAcyclic GcpVerif.Generated.acquisitions = true := by decide +kernel

end GcpVerif.Sync
