/-
Reachability, the invariant along every runRaw, and the shape of every stepRaw (helper file).
-/
import GcpVerif.Proofs.MEInv
namespace GcpVerif.ME

/-! ### NewMultiEndpoint -/

structure InitInv (s : St) (i : Nat) : Prop where
  idInj : ∀ a ∈ s.eps, ∀ b ∈ s.eps, a.id = b.id → a = b
  prioInj : ∀ a ∈ s.eps, ∀ b ∈ s.eps, a.prio = b.prio → a.id = b.id
  low : ∀ a ∈ s.eps, a.prio < i
  noAvail : ∀ a ∈ s.eps, a.status ≠ .available

theorem newEndpoint_status (s : St) (id : String) (p : Nat) :
    (newEndpoint s id p).2.status ≠ .available := by
  unfold newEndpoint
  simp only
  split <;> simp <;> split <;> simp

theorem initLoop_cons (s : St) (x : String) (xs : List String) (i : Nat) :
    initLoop s (x :: xs) i =
      initLoop { (newEndpoint s x i).1 with
                 eps := ((newEndpoint s x i).1.eps.filter fun y => y.id != x) ++ [(newEndpoint s x i).2],
                 orphans := (newEndpoint s x i).1.orphans ++ ((newEndpoint s x i).1.eps.filter fun y => y.id == x) }
               xs (i + 1) := by
  rw [initLoop]

theorem initLoop_fields (s : St) (l : List String) (i : Nat) :
    (initLoop s l i).current = s.current ∧ (initLoop s l i).r = s.r ∧ (initLoop s l i).d = s.d := by
  induction l generalizing s i with
  | nil => simp [initLoop]
  | cons x xs ih =>
    rw [initLoop_cons]
    have hf := newEndpoint_fields s x i
    have h2 := ih { (newEndpoint s x i).1 with
                 eps := ((newEndpoint s x i).1.eps.filter fun y => y.id != x) ++ [(newEndpoint s x i).2],
                 orphans := (newEndpoint s x i).1.orphans ++ ((newEndpoint s x i).1.eps.filter fun y => y.id == x) } (i + 1)
    simp only at h2
    rw [h2.1, h2.2.1, h2.2.2]
    exact ⟨hf.2.1, hf.2.2.1, hf.2.2.2.1⟩

theorem initLoop_inv {s : St} {l : List String} {i : Nat} (h : InitInv s i) :
    ∃ j, InitInv (initLoop s l i) j := by
  induction l generalizing s i with
  | nil => exact ⟨i, by simpa [initLoop] using h⟩
  | cons x xs ih =>
    rw [initLoop_cons]
    have hf := newEndpoint_fields s x i
    have hst := newEndpoint_status s x i
    apply ih
    constructor
    · intro a ha b hb hab
      simp only [List.mem_append, List.mem_filter, List.mem_singleton, hf.1] at ha hb
      rcases ha with ha | ha <;> rcases hb with hb | hb
      · exact h.idInj a ha.1 b hb.1 hab
      · subst hb; rw [hf.2.2.2.2.1] at hab; simp [hab] at ha
      · subst ha; rw [hf.2.2.2.2.1] at hab; simp [← hab] at hb
      · rw [ha, hb]
    · intro a ha b hb hab
      simp only [List.mem_append, List.mem_filter, List.mem_singleton, hf.1] at ha hb
      rcases ha with ha | ha <;> rcases hb with hb | hb
      · exact h.prioInj a ha.1 b hb.1 hab
      · subst hb; have := h.low a ha.1; rw [hf.2.2.2.2.2] at hab; omega
      · subst ha; have := h.low b hb.1; rw [hf.2.2.2.2.2] at hab; omega
      · rw [ha, hb]
    · intro a ha
      simp only [List.mem_append, List.mem_filter, List.mem_singleton, hf.1] at ha
      rcases ha with ha | ha
      · have := h.low a ha.1; omega
      · subst ha; rw [hf.2.2.2.2.2]; omega
    · intro a ha
      simp only [List.mem_append, List.mem_filter, List.mem_singleton, hf.1] at ha
      rcases ha with ha | ha
      · exact h.noAvail a ha.1
      · subst ha; exact hst

theorem initLoop_mem_ids (s : St) (l : List String) (i : Nat) :
    ∀ id, (id ∈ l ∨ id ∈ ids s.eps) → id ∈ ids (initLoop s l i).eps := by
  induction l generalizing s i with
  | nil => intro id h; simpa [initLoop] using h
  | cons x xs ih =>
    intro id h
    rw [initLoop_cons]
    have hf := newEndpoint_fields s x i
    apply ih
    by_cases hx : id = x
    · right
      simp only [ids, List.map_append, List.mem_append, List.map_cons, List.map_nil, List.mem_singleton]
      right; rw [hf.2.2.2.2.1]; exact hx
    · rcases h with h | h
      · left; simpa [hx] using h
      · right
        simp only [ids, List.mem_map] at h
        obtain ⟨a, ha, rfl⟩ := h
        simp only [ids, List.map_append, List.mem_append, List.mem_map, List.mem_filter, hf.1]
        left
        exact ⟨a, ⟨ha, by simpa using hx⟩, rfl⟩

theorem inv_init {r d : Int} {l : List String} {s : St} (hr : 0 ≤ r) (hd : 0 ≤ d)
    (h : initRaw r d l = some s) : Inv s := by
  cases l with
  | nil => simp [initRaw] at h
  | cons first rest =>
    simp only [initRaw, Option.some.injEq] at h
    subst h
    let s0 : St := { r := r, d := d, eps := [], orphans := [], current := first, future := "",
                     timers := [], now := 0, nextObj := 0, nextTid := 0 }
    have hf := initLoop_fields s0 (first :: rest) 0
    have h0 : InitInv s0 0 := by constructor <;> simp [s0]
    obtain ⟨j, hj⟩ := initLoop_inv (l := first :: rest) h0
    have hmem := initLoop_mem_ids s0 (first :: rest) 0 first (Or.inl (by simp))
    have hbase : Base (initLoop s0 (first :: rest) 0) := by
      constructor
      · rw [hf.2.1]; exact hr
      · rw [hf.2.2]; exact hd
      · intro hnil; rw [hnil] at hmem; simp [ids] at hmem
      · exact hj.idInj
      · exact hj.prioInj
    refine { hbase with curMem := ?_, m5 := ?_ }
    · rw [hf.1]
      exact findEp_isSome_iff.mp (by simpa using hmem)
    · intro _ _ _
      exact hj.noAvail

/-! ### the shape of a stepRaw -/

inductive Shape (s : St) (op : Op) (s' : St) : Prop where
  /-- table and current untouched (advance, rejected call, outdated timer) -/
  | idle : s'.eps = s.eps → s'.current = s.current → s'.r = s.r → s'.d = s.d → s'.future = s.future → Shape s op s'
  /-- some table update that keeps `current`, followed by `maybeUpdateCurrent` -/
  | muc (s1 : St) : Base s1 → s1.current = s.current → s1.r = s.r → s1.d = s.d →
      s' = maybeUpdateCurrent s1 → Shape s op s'
  /-- the delayed-switch timer -/
  | sw (s0 : St) (tid : Nat) : op = .fire tid → s0.eps = s.eps → s0.current = s.current →
      s0.future = s.future → s0.r = s.r → s0.d = s.d → s' = fireSwitch s0 → Shape s op s'

theorem step_shape {s : St} (h : Inv s) (op : Op) : Shape s op (stepRaw s op).1 := by
  cases op with
  | setAvail e a =>
    have hf := sea_fields s e a
    exact .muc _ (base_sea h.toBase e a) hf.1 hf.2.1 hf.2.2 rfl
  | setEndpoints l =>
    simp only [stepRaw, opSetEndpoints]
    by_cases hl : l.isEmpty = true
    · simp only [hl, ↓reduceIte]
      exact .idle rfl rfl rfl rfl rfl
    · simp only [hl]
      have hne : l ≠ [] := by intro hn; simp [hn] at hl
      have hf := addOrUpdate_fields (dropObsolete s l) l 0
      exact .muc _ (base_setEndpoints h.toBase l hne) hf.1 hf.2.1 hf.2.2 rfl
  | advance dt => exact .idle rfl rfl rfl rfl rfl
  | fire tid =>
    simp only [stepRaw, opFire]
    cases hfind : s.timers.find? (fun t => t.tid == tid) with
    | none => exact .idle rfl rfl rfl rfl rfl
    | some t =>
      simp only
      by_cases hcan : canFire s.now t = true
      · simp only [hcan, Bool.not_true, Bool.false_eq_true, ↓reduceIte]
        cases hk : t.kind with
        | switch => exact .sw { s with timers := removeTimer s.timers tid } tid rfl rfl rfl rfl rfl rfl rfl
        | recovery obj id stamp =>
          simp only [fireRecovery]
          let s0 : St := { s with timers := removeTimer s.timers tid }
          have hb0 : Base s0 := ⟨h.rnn, h.dnn, h.nonempty, h.idInj, h.prioInj⟩
          split
          · split
            · exact .idle rfl rfl rfl rfl rfl
            · exact .muc _ (base_setStateEp hb0 _ _) rfl rfl rfl rfl
          · split
            · exact .idle rfl rfl rfl rfl rfl
            · split
              · exact .idle rfl rfl rfl rfl rfl
              · exact .muc _ (base_setStateOrphan hb0 _ _) rfl rfl rfl rfl
      · simp only [hcan, Bool.not_false, ↓reduceIte]
        exact .idle rfl rfl rfl rfl rfl

theorem fireSwitch_cases (s0 : St) :
    fireSwitch s0 = s0 ∨
    ∃ e, findEp s0.eps s0.future = some e ∧ e.status = .available ∧
      fireSwitch s0 = { s0 with current := e.id } ∧
      ∀ c, findEp s0.eps s0.current = some c → ¬ (c.status ≠ .unavailable ∧ c.prio < e.prio) := by
  unfold fireSwitch
  cases hfut : findEp s0.eps s0.future with
  | none => left; rfl
  | some e =>
    simp only
    by_cases hav : e.status = .available
    · simp only [hav, beq_self_eq_true, ↓reduceIte]
      cases hc : findEp s0.eps s0.current with
      | none =>
        right
        exact ⟨e, rfl, hav, rfl, by intro c hc'; cases hc'⟩
      | some c =>
        simp only
        by_cases hg : (c.status != .unavailable && decide (c.prio < e.prio)) = true
        · left; simp [hg]
        · right
          refine ⟨e, rfl, hav, by simp [hg], ?_⟩
          intro c' hc' hcon
          cases hc'
          apply hg
          simp [hcon.1, hcon.2]
    · left
      have : (e.status == Status.available) = false := by simp [hav]
      simp [this]

theorem inv_step {s : St} (h : Inv s) (op : Op) : Inv (stepRaw s op).1 := by
  cases step_shape h op with
  | idle he hc hr hd _ =>
    refine { rnn := ?_, dnn := ?_, nonempty := ?_, idInj := ?_, prioInj := ?_, curMem := ?_, m5 := ?_ }
    · rw [hr]; exact h.rnn
    · rw [hd]; exact h.dnn
    · rw [he]; exact h.nonempty
    · rw [he]; exact h.idInj
    · rw [he]; exact h.prioInj
    · rw [he, hc]; exact h.curMem
    · rw [he, hc]; exact h.m5
  | muc s1 hb _ _ _ heq => rw [heq]; exact muc_inv hb
  | sw s0 tid _ he hc _ hr hd heq =>
    rw [heq]
    have hb0 : Base s0 := by
      constructor
      · rw [hr]; exact h.rnn
      · rw [hd]; exact h.dnn
      · rw [he]; exact h.nonempty
      · rw [he]; exact h.idInj
      · rw [he]; exact h.prioInj
    rcases fireSwitch_cases s0 with hid | ⟨e, hfut, hav, hsw, _⟩
    · rw [hid]
      refine { hb0 with curMem := ?_, m5 := ?_ }
      · rw [he, hc]; exact h.curMem
      · rw [he, hc]; exact h.m5
    · rw [hsw]
      have hfe := findEp_some hfut
      refine { rnn := hb0.rnn, dnn := hb0.dnn, nonempty := hb0.nonempty, idInj := hb0.idInj,
               prioInj := hb0.prioInj, curMem := ?_, m5 := ?_ }
      · exact ⟨e, findEp_of_mem hb0.idInj hfe.1⟩
      · intro c hc' hun
        simp only at hc'
        rw [findEp_of_mem hb0.idInj hfe.1] at hc'
        cases hc'
        rw [hav] at hun; cases hun

/-- states reachable through the API from a constructor call with non-negative durations -/
inductive Reach : St → Prop where
  | initRaw {r d : Int} {l : List String} {s : St} : 0 ≤ r → 0 ≤ d → initRaw r d l = some s → Reach s
  | stepRaw {s : St} (op : Op) : Reach s → Reach (stepRaw s op).1

theorem reach_inv {s : St} (h : Reach s) : Inv s := by
  induction h with
  | initRaw hr hd hi => exact inv_init hr hd hi
  | stepRaw op _ ih => exact inv_step ih op

end GcpVerif.ME
