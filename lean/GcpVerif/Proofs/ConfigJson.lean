/-
C17: protojson for the channel-pool schema, on JSON trees: what `render` writes for a configuration,
`parse` reads back as exactly that configuration — for every configuration a generated proto message
can hold (all field combinations, zero values, absent sub-messages, any number of method entries).
-/
import Std.Data.String.ToNat
import GcpVerif.Model.Config
namespace GcpVerif.Config

/-! ### scalars -/

theorem isDigits_repr (n : Nat) : isDigits (toString n) = true := by
  unfold isDigits
  have h1 : (toString n) = Nat.repr n := rfl
  rw [h1, Nat.toList_repr]
  simp only [Bool.and_eq_true, Bool.not_eq_eq_eq_not, Bool.not_true, List.all_eq_true]
  constructor
  · cases h : (Nat.toDigits 10 n) with
    | nil =>
      exfalso
      have hl : (Nat.toDigits 10 n).length = 0 := by rw [h]; rfl
      have := Nat.length_toDigits_pos (b := 10) (n := n)
      omega
    | cons a as => rfl
  · intro c hc
    exact Nat.isDigit_of_mem_toDigits (by omega) (by omega) hc

theorem pUint_str (bits n : Nat) (h : n < 2^bits) : pUint bits (.str (toString n)) = some n := by
  unfold pUint
  have h1 : (toString n) = Nat.repr n := rfl
  simp only [isDigits_repr, ↓reduceIte]
  rw [h1, Nat.toNat?_repr]
  simp [h]

theorem pUint_num (bits n : Nat) (h : n < 2^bits) : pUint bits (.num n) = some n := by
  unfold pUint
  have : (0 : Int) ≤ (n : Int) ∧ (n : Int) < 2 ^ bits := ⟨by omega, by exact_mod_cast h⟩
  simp [this]

/-- an optional unsigned field: omitted when zero -/
theorem pUint_opt_num (bits n : Nat) (h : n < 2^bits) :
    pUint bits (if (n != 0) = true then .num n else .null) = some n := by
  by_cases hn : n = 0
  · subst hn; simp [pUint]
  · have : (n != 0) = true := by simpa using hn
    simp only [this, ↓reduceIte]; exact pUint_num bits n h

theorem pUint_opt_str (bits n : Nat) (h : n < 2^bits) :
    pUint bits (if (n != 0) = true then .str (toString n) else .null) = some n := by
  by_cases hn : n = 0
  · subst hn; simp [pUint]
  · have : (n != 0) = true := by simpa using hn
    simp only [this, ↓reduceIte]; exact pUint_str bits n h

theorem pBool_opt (b : Bool) : pBool (if b = true then .bool true else .null) = some b := by
  cases b <;> rfl

theorem pString_opt (s : String) : pString (if (s != "") = true then .str s else .null) = some s := by
  by_cases h : s = ""
  · subst h; rfl
  · have : (s != "") = true := by simpa using h
    simp [this, pString]

theorem pEnum_strategy (n : Int) (h1 : -(2^31 : Int) ≤ n) (h2 : n < 2^31) :
    pEnum strategyNames (if (n != 0) = true then enumJ strategyNames n else .null) = some n := by
  by_cases h0 : n = 0
  · subst h0; rfl
  · have hb : (n != 0) = true := by simpa using h0
    simp only [hb, ↓reduceIte]
    by_cases h1' : n = 1
    · subst h1'; rfl
    · by_cases h2' : n = 2
      · subst h2'; rfl
      · have q0 : ((0 : Int) == n) = false := by rw [beq_eq_false_iff_ne]; exact Ne.symm h0
        have q1 : ((1 : Int) == n) = false := by rw [beq_eq_false_iff_ne]; exact Ne.symm h1'
        have q2 : ((2 : Int) == n) = false := by rw [beq_eq_false_iff_ne]; exact Ne.symm h2'
        have e : enumJ strategyNames n = .num n := by
          simp only [enumJ, strategyNames, List.find?, q0, q1, q2]
        rw [e]
        have hr : (-(2 ^ 31 : Int) ≤ n ∧ n < 2 ^ 31) := ⟨h1, h2⟩
        simp only [pEnum, hr, and_self, ↓reduceIte]

theorem pEnum_command (n : Int) (h1 : -(2^31 : Int) ≤ n) (h2 : n < 2^31) :
    pEnum commandNames (if (n != 0) = true then enumJ commandNames n else .null) = some n := by
  by_cases h0 : n = 0
  · subst h0; rfl
  · have hb : (n != 0) = true := by simpa using h0
    simp only [hb, ↓reduceIte]
    by_cases h1' : n = 1
    · subst h1'; rfl
    · by_cases h2' : n = 2
      · subst h2'; rfl
      · have q0 : ((0 : Int) == n) = false := by rw [beq_eq_false_iff_ne]; exact Ne.symm h0
        have q1 : ((1 : Int) == n) = false := by rw [beq_eq_false_iff_ne]; exact Ne.symm h1'
        have q2 : ((2 : Int) == n) = false := by rw [beq_eq_false_iff_ne]; exact Ne.symm h2'
        have e : enumJ commandNames n = .num n := by
          simp only [enumJ, commandNames, List.find?, q0, q1, q2]
        rw [e]
        have hr : (-(2 ^ 31 : Int) ≤ n ∧ n < 2 ^ 31) := ⟨h1, h2⟩
        simp only [pEnum, hr, and_self, ↓reduceIte]

/-! ### objects: keys and field lookup -/

theorem field_nil (t : List (String × String)) (name : String) : field t [] name = .null := rfl

theorem field_cons (t : List (String × String)) (k : String) (v : J) (l : List (String × J)) (name : String) :
    field t ((k, v) :: l) name = if canon t k == some name then v else field t l name := by
  unfold field
  simp only [List.find?_cons]
  by_cases h : (canon t k == some name) = true
  · simp [h]
  · have : (canon t k == some name) = false := by simpa using h
    simp [this]

theorem field_opt (t : List (String × String)) (k : String) (b : Bool) (v : J) (l : List (String × J)) (name : String) :
    field t (optField k b v ++ l) name = if (b && canon t k == some name) = true then v else field t l name := by
  cases b with
  | false => simp [optField]
  | true => simp only [optField, ↓reduceIte, List.cons_append, List.nil_append, field_cons, Bool.true_and]

theorem field_opt_last (t : List (String × String)) (k : String) (b : Bool) (v : J) (name : String) :
    field t (optField k b v) name = if (b && canon t k == some name) = true then v else .null := by
  have := field_opt t k b v [] name
  rwa [List.append_nil, field_nil] at this

/-- every JSON name of the table is its own canonical name, and no name occurs twice -/
def goodTable (t : List (String × String)) : Bool :=
  (t.all fun p => canon t p.1 == some p.1) && (t.map (·.1)).eraseDups.length == t.length

theorem eraseDups_of_nodup {α : Type} [BEq α] [LawfulBEq α] : ∀ (l : List α), l.Nodup → l.eraseDups = l
  | [], _ => rfl
  | a :: as, h => by
    rw [List.nodup_cons] at h
    rw [List.eraseDups_cons]
    have hf : as.filter (fun b => !b == a) = as := by
      rw [List.filter_eq_self]
      intro b hb
      have : b ≠ a := fun e => h.1 (e ▸ hb)
      simpa using this
    rw [hf, eraseDups_of_nodup as h.2]

theorem eraseDups_length_le {α : Type} [BEq α] : ∀ (l : List α), l.eraseDups.length ≤ l.length
  | [] => Nat.le_refl _
  | a :: as => by
    rw [List.eraseDups_cons, List.length_cons, List.length_cons]
    have h1 := eraseDups_length_le (as.filter fun b => !b == a)
    have h2 := List.length_filter_le (fun b => !b == a) as
    omega
termination_by l => l.length
decreasing_by
  simp only [List.length_cons]
  have := List.length_filter_le (fun b => !b == a) as
  omega

theorem nodup_of_eraseDups_length {α : Type} [BEq α] [LawfulBEq α] : ∀ (l : List α),
    l.eraseDups.length = l.length → l.Nodup
  | [], _ => List.nodup_nil
  | a :: as, h => by
    rw [List.eraseDups_cons, List.length_cons, List.length_cons] at h
    have h1 : ((as.filter fun b => !b == a).eraseDups).length = as.length := by omega
    have hle : ((as.filter fun b => !b == a).eraseDups).length ≤ (as.filter fun b => !b == a).length :=
      eraseDups_length_le _
    have hle2 := List.length_filter_le (fun b => !b == a) as
    have hfl : (as.filter fun b => !b == a).length = as.length := by omega
    have hf : as.filter (fun b => !b == a) = as := List.filter_eq_self.mpr (by
      have := List.length_filter_eq_length_iff.mp hfl
      exact this)
    rw [hf] at h1
    rw [List.nodup_cons]
    refine ⟨?_, nodup_of_eraseDups_length as h1⟩
    intro hmem
    have := (List.filter_eq_self.mp hf) a hmem
    simp at this

theorem keysOk_of_sublist {t : List (String × String)} (hg : goodTable t = true) {l : List (String × J)}
    (hs : (l.map (·.1)).Sublist (t.map (·.1))) : keysOk t l = true := by
  unfold goodTable at hg
  simp only [Bool.and_eq_true, List.all_eq_true, beq_iff_eq] at hg
  have hnd : (t.map (·.1)).Nodup := nodup_of_eraseDups_length _ (by simpa using hg.2)
  have hcanon : ∀ k ∈ l.map (·.1), canon t k = some k := by
    intro k hk
    have := hs.subset hk
    simp only [List.mem_map] at this
    obtain ⟨p, hp, rfl⟩ := this
    exact hg.1 p hp
  have hcs : (l.map fun p => canon t p.1) = (l.map (·.1)).map some := by
    rw [List.map_map]
    apply List.map_congr_left
    intro p hp
    exact hcanon p.1 (List.mem_map.mpr ⟨p, hp, rfl⟩)
  unfold keysOk
  simp only [hcs, Bool.and_eq_true, List.all_eq_true, beq_iff_eq]
  constructor
  · intro o ho
    simp only [List.mem_map] at ho
    obtain ⟨k, _, rfl⟩ := ho
    rfl
  · have : ((l.map (·.1)).map some).Nodup := by
      unfold List.Nodup
      rw [List.pairwise_map]
      exact (hs.nodup hnd).imp (fun hab h => hab (Option.some.inj h))
    rw [eraseDups_of_nodup _ this]

theorem sub_nil (ks : List String) : (([] : List (String × J)).map (·.1)).Sublist ks := List.nil_sublist _

theorem sub_opt {k : String} {b : Bool} {v : J} {rest : List (String × J)} {ks : List String}
    (h : (rest.map (·.1)).Sublist ks) : ((optField k b v ++ rest).map (·.1)).Sublist (k :: ks) := by
  cases b with
  | false => simpa [optField] using h.cons k
  | true => simpa [optField] using h.cons_cons k

theorem sub_skip {rest : List (String × J)} {k : String} {ks : List String}
    (h : (rest.map (·.1)).Sublist ks) : (rest.map (·.1)).Sublist (k :: ks) := h.cons k

theorem good_pool : goodTable poolFields = true := by decide +kernel
theorem good_affinity : goodTable affinityFields = true := by decide +kernel
theorem good_method : goodTable methodFields = true := by decide +kernel
theorem good_api : goodTable apiFields = true := by decide +kernel

/-! ### the sections -/

def ChannelPool.wf' (cp : ChannelPool) : Prop :=
  cp.maxSize < 2^32 ∧ cp.idleTimeout < 2^64 ∧ cp.wm < 2^32 ∧ cp.minSize < 2^32 ∧ cp.udMs < 2^32 ∧
  cp.uCalls < 2^32 ∧ -(2^31 : Int) ≤ cp.strategy ∧ cp.strategy < 2^31

def Affinity.wf (a : Affinity) : Prop := -(2^31 : Int) ≤ a.command ∧ a.command < 2^31
def Method.wf (m : Method) : Prop := ∀ a, m.affinity = some a → a.wf
def ApiConfig.wf (c : ApiConfig) : Prop :=
  (∀ cp, c.channelPool = some cp → cp.wf') ∧ ∀ m ∈ c.methods, m.wf

theorem canon_pool :
    canon poolFields "maxSize" = some "maxSize" ∧ canon poolFields "idleTimeout" = some "idleTimeout" ∧
    canon poolFields "maxConcurrentStreamsLowWatermark" = some "maxConcurrentStreamsLowWatermark" ∧
    canon poolFields "minSize" = some "minSize" ∧ canon poolFields "fallbackToReady" = some "fallbackToReady" ∧
    canon poolFields "unresponsiveDetectionMs" = some "unresponsiveDetectionMs" ∧
    canon poolFields "unresponsiveCalls" = some "unresponsiveCalls" ∧
    canon poolFields "bindPickStrategy" = some "bindPickStrategy" := by decide +kernel

/-- the fields `rPool` writes, right-nested -/
def poolObj (cp : ChannelPool) : List (String × J) :=
  optField "maxSize" (cp.maxSize != 0) (.num cp.maxSize) ++
  (optField "idleTimeout" (cp.idleTimeout != 0) (.str (toString cp.idleTimeout)) ++
  (optField "maxConcurrentStreamsLowWatermark" (cp.wm != 0) (.num cp.wm) ++
  (optField "minSize" (cp.minSize != 0) (.num cp.minSize) ++
  (optField "fallbackToReady" cp.fallback (.bool true) ++
  (optField "unresponsiveDetectionMs" (cp.udMs != 0) (.num cp.udMs) ++
  (optField "unresponsiveCalls" (cp.uCalls != 0) (.num cp.uCalls) ++
  (optField "bindPickStrategy" (cp.strategy != 0) (enumJ strategyNames cp.strategy) ++ [])))))))

theorem rPool_eq (cp : ChannelPool) : rPool cp = .obj (poolObj cp) := by
  simp only [rPool, poolObj, List.append_assoc, List.append_nil]

theorem keysOk_pool (cp : ChannelPool) : keysOk poolFields (poolObj cp) = true := by
  apply keysOk_of_sublist good_pool
  have e : poolFields.map (·.1) = ["maxSize", "idleTimeout", "maxConcurrentStreamsLowWatermark", "minSize",
    "fallbackToReady", "unresponsiveDetectionMs", "unresponsiveCalls", "bindPickStrategy"] := rfl
  rw [e]
  exact sub_opt (sub_opt (sub_opt (sub_opt (sub_opt (sub_opt (sub_opt (sub_opt (sub_nil []))))))))

theorem parse_render_pool (cp : ChannelPool) (h : cp.wf') : pPool (rPool cp) = some (some cp) := by
  obtain ⟨h1, h2, h3, h4, h5, h6, h7, h8⟩ := h
  obtain ⟨c1, c2, c3, c4, c5, c6, c7, c8⟩ := canon_pool
  rw [rPool_eq]
  unfold pPool
  simp only [keysOk_pool, Bool.not_true, Bool.false_eq_true, ↓reduceIte]
  have f1 : field poolFields (poolObj cp) "maxSize" = if (cp.maxSize != 0) = true then .num cp.maxSize else .null := by
    simp [poolObj, field_opt, field_opt_last, field_nil, c1, c2, c3, c4, c5, c6, c7, c8]
  have f2 : field poolFields (poolObj cp) "idleTimeout" = if (cp.idleTimeout != 0) = true then .str (toString cp.idleTimeout) else .null := by
    simp [poolObj, field_opt, field_opt_last, field_nil, c1, c2, c3, c4, c5, c6, c7, c8]
  have f3 : field poolFields (poolObj cp) "maxConcurrentStreamsLowWatermark" = if (cp.wm != 0) = true then .num cp.wm else .null := by
    simp [poolObj, field_opt, field_opt_last, field_nil, c1, c2, c3, c4, c5, c6, c7, c8]
  have f4 : field poolFields (poolObj cp) "minSize" = if (cp.minSize != 0) = true then .num cp.minSize else .null := by
    simp [poolObj, field_opt, field_opt_last, field_nil, c1, c2, c3, c4, c5, c6, c7, c8]
  have f5 : field poolFields (poolObj cp) "fallbackToReady" = if cp.fallback = true then .bool true else .null := by
    simp [poolObj, field_opt, field_opt_last, field_nil, c1, c2, c3, c4, c5, c6, c7, c8]
  have f6 : field poolFields (poolObj cp) "unresponsiveDetectionMs" = if (cp.udMs != 0) = true then .num cp.udMs else .null := by
    simp [poolObj, field_opt, field_opt_last, field_nil, c1, c2, c3, c4, c5, c6, c7, c8]
  have f7 : field poolFields (poolObj cp) "unresponsiveCalls" = if (cp.uCalls != 0) = true then .num cp.uCalls else .null := by
    simp [poolObj, field_opt, field_opt_last, field_nil, c1, c2, c3, c4, c5, c6, c7, c8]
  have f8 : field poolFields (poolObj cp) "bindPickStrategy" = if (cp.strategy != 0) = true then enumJ strategyNames cp.strategy else .null := by
    simp [poolObj, field_opt, field_opt_last, field_nil, c1, c2, c3, c4, c5, c6, c7, c8]
  rw [f1, f2, f3, f4, f5, f6, f7, f8]
  rw [pUint_opt_num 32 _ h1, pUint_opt_str 64 _ h2, pUint_opt_num 32 _ h3, pUint_opt_num 32 _ h4, pBool_opt,
    pUint_opt_num 32 _ h5, pUint_opt_num 32 _ h6, pEnum_strategy _ h7 h8]
  rfl

theorem canon_affinity :
    canon affinityFields "command" = some "command" ∧ canon affinityFields "affinityKey" = some "affinityKey" := by
  decide +kernel

def affObj (a : Affinity) : List (String × J) :=
  optField "command" (a.command != 0) (enumJ commandNames a.command) ++
  (optField "affinityKey" (a.key != "") (.str a.key) ++ [])

theorem rAffinity_eq (a : Affinity) : rAffinity a = .obj (affObj a) := by
  simp only [rAffinity, affObj, List.append_nil]

theorem keysOk_affinity (a : Affinity) : keysOk affinityFields (affObj a) = true := by
  apply keysOk_of_sublist good_affinity
  have e : affinityFields.map (·.1) = ["command", "affinityKey"] := rfl
  rw [e]
  exact sub_opt (sub_opt (sub_nil []))

theorem parse_render_affinity (a : Affinity) (h : a.wf) : pAffinity (rAffinity a) = some (some a) := by
  obtain ⟨c1, c2⟩ := canon_affinity
  rw [rAffinity_eq]
  unfold pAffinity
  simp only [keysOk_affinity, Bool.not_true, Bool.false_eq_true, ↓reduceIte]
  have f1 : field affinityFields (affObj a) "command" =
      if (a.command != 0) = true then enumJ commandNames a.command else .null := by
    simp [affObj, field_opt, field_opt_last, field_nil, c1, c2]
  have f2 : field affinityFields (affObj a) "affinityKey" = if (a.key != "") = true then .str a.key else .null := by
    simp [affObj, field_opt, field_opt_last, field_nil, c1, c2]
  rw [f1, f2, pEnum_command _ h.1 h.2, pString_opt]
  rfl

theorem mapM_str (l : List String) :
    (l.map J.str).mapM (fun | J.str s => some s | _ => none) = some l := by
  induction l with
  | nil => rfl
  | cons x xs ih => simp only [List.map_cons, List.mapM_cons, ih]; rfl

theorem pNames_opt (l : List String) :
    pNames (if (!l.isEmpty) = true then .arr (l.map .str) else .null) = some l := by
  cases l with
  | nil => rfl
  | cons x xs =>
    simp only [List.isEmpty_cons, Bool.not_false, ↓reduceIte, pNames]
    exact mapM_str (x :: xs)

theorem canon_method :
    canon methodFields "name" = some "name" ∧ canon methodFields "affinity" = some "affinity" := by decide +kernel

theorem parse_render_method (m : Method) (h : m.wf) : pMethod (rMethod m) = some m := by
  obtain ⟨c1, c2⟩ := canon_method
  obtain ⟨names, aff⟩ := m
  cases aff with
  | none =>
    have hk : keysOk methodFields (optField "name" (!names.isEmpty) (.arr (names.map .str)) ++ []) = true := by
      apply keysOk_of_sublist good_method
      have e : methodFields.map (·.1) = ["name", "affinity"] := rfl
      rw [e]
      exact sub_opt (sub_skip (sub_nil []))
    unfold rMethod pMethod
    simp only [hk, Bool.not_true, Bool.false_eq_true, ↓reduceIte]
    have f1 : field methodFields (optField "name" (!names.isEmpty) (.arr (names.map .str)) ++ []) "name" =
        if (!names.isEmpty) = true then .arr (names.map .str) else .null := by
      simp [field_opt_last, c1]
    have f2 : field methodFields (optField "name" (!names.isEmpty) (.arr (names.map .str)) ++ []) "affinity" = .null := by
      simp [field_opt_last, c1]
    rw [f1, f2, pNames_opt]
    rfl
  | some a =>
    have hw : a.wf := h a rfl
    have hk : keysOk methodFields (optField "name" (!names.isEmpty) (.arr (names.map .str)) ++ [("affinity", rAffinity a)]) = true := by
      apply keysOk_of_sublist good_method
      have e : methodFields.map (·.1) = ["name", "affinity"] := rfl
      rw [e]
      have : ([("affinity", rAffinity a)] : List (String × J)) = optField "affinity" true (rAffinity a) ++ [] := rfl
      rw [this]
      exact sub_opt (sub_opt (sub_nil []))
    unfold rMethod pMethod
    simp only [hk, Bool.not_true, Bool.false_eq_true, ↓reduceIte]
    have f1 : field methodFields (optField "name" (!names.isEmpty) (.arr (names.map .str)) ++ [("affinity", rAffinity a)]) "name" =
        if (!names.isEmpty) = true then .arr (names.map .str) else .null := by
      simp [field_opt, field_cons, field_nil, c1, c2]
    have f2 : field methodFields (optField "name" (!names.isEmpty) (.arr (names.map .str)) ++ [("affinity", rAffinity a)]) "affinity" =
        rAffinity a := by
      simp [field_opt, field_cons, field_nil, c1, c2]
    rw [f1, f2, pNames_opt, parse_render_affinity a hw]
    rfl

theorem parse_render_methods (ms : List Method) (h : ∀ m ∈ ms, m.wf) : (ms.map rMethod).mapM pMethod = some ms := by
  induction ms with
  | nil => rfl
  | cons m ms ih =>
    simp only [List.map_cons, List.mapM_cons]
    rw [parse_render_method m (h m (by simp)), ih (fun x hx => h x (by simp [hx]))]
    rfl

theorem pMethods_opt (ms : List Method) (h : ∀ m ∈ ms, m.wf) :
    pMethods (if (!ms.isEmpty) = true then .arr (ms.map rMethod) else .null) = some ms := by
  cases ms with
  | nil => rfl
  | cons x xs =>
    simp only [List.isEmpty_cons, Bool.not_false, ↓reduceIte, pMethods]
    exact parse_render_methods (x :: xs) h

theorem canon_api :
    canon apiFields "channelPool" = some "channelPool" ∧ canon apiFields "method" = some "method" := by decide +kernel

/-- **C17** protojson round trip on JSON trees: for every configuration a generated message can hold —
    absent or present pool section with any field values (zeros are omitted and read back as zeros),
    any number of method entries with or without names and affinity sections, enum values inside or
    outside the declared names — parsing what `render` writes gives back exactly that configuration -/
theorem parse_render (c : ApiConfig) (h : c.wf) : parse (render c) = some c := by
  obtain ⟨c1, c2⟩ := canon_api
  obtain ⟨pool, ms⟩ := c
  have hm : ∀ m ∈ ms, m.wf := h.2
  cases pool with
  | none =>
    have hk : keysOk apiFields ([] ++ optField "method" (!ms.isEmpty) (.arr (ms.map rMethod))) = true := by
      apply keysOk_of_sublist good_api
      have e : apiFields.map (·.1) = ["channelPool", "method"] := rfl
      rw [e, List.nil_append]
      have := sub_opt (k := "method") (b := !ms.isEmpty) (v := .arr (ms.map rMethod)) (sub_nil [])
      rw [List.append_nil] at this
      exact sub_skip this
    unfold render parse
    simp only [hk, Bool.not_true, Bool.false_eq_true, ↓reduceIte]
    have f1 : field apiFields ([] ++ optField "method" (!ms.isEmpty) (.arr (ms.map rMethod))) "channelPool" = .null := by
      simp [field_opt_last, c2]
    have f2 : field apiFields ([] ++ optField "method" (!ms.isEmpty) (.arr (ms.map rMethod))) "method" =
        if (!ms.isEmpty) = true then .arr (ms.map rMethod) else .null := by
      simp [field_opt_last, c2]
    rw [f1, f2, pMethods_opt ms hm]
    rfl
  | some cp =>
    have hw : cp.wf' := h.1 cp rfl
    have hk : keysOk apiFields ([("channelPool", rPool cp)] ++ optField "method" (!ms.isEmpty) (.arr (ms.map rMethod))) = true := by
      apply keysOk_of_sublist good_api
      have e : apiFields.map (·.1) = ["channelPool", "method"] := rfl
      rw [e]
      have h1 := sub_opt (k := "method") (b := !ms.isEmpty) (v := .arr (ms.map rMethod)) (sub_nil [])
      rw [List.append_nil] at h1
      have : ([("channelPool", rPool cp)] : List (String × J)) = optField "channelPool" true (rPool cp) := rfl
      rw [this]
      exact sub_opt h1
    unfold render parse
    simp only [hk, Bool.not_true, Bool.false_eq_true, ↓reduceIte]
    have f1 : field apiFields ([("channelPool", rPool cp)] ++ optField "method" (!ms.isEmpty) (.arr (ms.map rMethod))) "channelPool" =
        rPool cp := by
      simp [field_cons, c1]
    have f2 : field apiFields ([("channelPool", rPool cp)] ++ optField "method" (!ms.isEmpty) (.arr (ms.map rMethod))) "method" =
        if (!ms.isEmpty) = true then .arr (ms.map rMethod) else .null := by
      simp [field_cons, field_opt_last, c1, c2]
    rw [f1, f2, parse_render_pool cp hw, pMethods_opt ms hm]
    rfl

/-- the hypotheses are met by ordinary configurations -/
example : ({ channelPool := some { maxSize := 4, minSize := 1, wm := 100, fallback := true, strategy := 2 },
             methods := [{ names := ["/a/B"], affinity := some { command := 1, key := "session.name" } }, {}] } : ApiConfig).wf := by
  refine ⟨?_, ?_⟩
  · intro cp h; cases h; unfold ChannelPool.wf'; simp
  · intro m hm
    simp only [List.mem_cons, List.mem_nil_iff, or_false] at hm
    rcases hm with rfl | rfl
    · intro a ha; cases ha; unfold Affinity.wf; simp
    · intro a ha; cases ha

end GcpVerif.Config
