/-
C09 — "each round-robin BIND call is handed its assigned channel only once that channel is READY,
unless its context ends first": in every reachable state no waiting pick is left whose slot's
connection is READY (`no_ready_waiter`), a waiting pick is handed exactly the slot it was assigned
(`wake_places_assigned_slot`), and the wake-ups never touch the readiness of any slot.
-/
import GcpVerif.Proofs.PoolSlots
namespace GcpVerif.Pool

theorem slotReady_eq (s : St) (slot : Slot) :
    slotReady s slot = match subAt s slot with
      | some sc => lookup s.scStates sc == some .ready
      | none => false := by
  unfold slotReady subAt getRef isReadySc stateOf
  cases s.refs[slot]? <;> rfl

theorem slotReady_congr {s s' : St} (b : SameB s s') (e : s'.scStates = s.scStates) (slot : Slot) :
    slotReady s' slot = slotReady s slot := by
  rw [slotReady_eq, slotReady_eq, b.2.2 slot, e]

theorem place_ready (s : St) (call : Nat) (slot : Slot) (cmd : Cmd) (loc : Loc) (key : String) (ctx : CtxKind)
    (dl : Option Int) (j : Slot) : slotReady (place s call slot cmd loc key ctx dl).1 j = slotReady s j :=
  slotReady_congr (sameC_place s call slot cmd loc key ctx dl).1 (place_sameT s call slot cmd loc key ctx dl).1 j

theorem place_isSome_of_ready {s : St} {slot : Slot} (h : slotReady s slot = true) (call : Nat) (cmd : Cmd) (loc : Loc)
    (key : String) (ctx : CtxKind) (dl : Option Int) : ((place s call slot cmd loc key ctx dl).2).isSome = true := by
  unfold slotReady at h
  unfold place
  cases hg : getRef s slot with
  | none => rw [hg] at h; cases h
  | some r => rfl

/-- the wake-up pass: what is left waiting was waiting before and its slot is not READY -/
theorem wake_leaves_unready (s : St) :
    (∀ j, slotReady (wakeWaiters s).1 j = slotReady s j) ∧
    ∀ w ∈ (wakeWaiters s).1.waiters, w ∈ s.waiters ∧ slotReady s w.slot = false := by
  unfold wakeWaiters
  suffices hs : ∀ (ws : List Waiter) (acc : St × List Event),
      (∀ j, slotReady acc.1 j = slotReady s j) →
      (∀ w ∈ acc.1.waiters, w ∈ s.waiters ∧ (slotReady s w.slot = false ∨ w ∈ ws)) →
      (∀ j, slotReady (ws.foldl (fun (acc : St × List Event) w =>
        if slotReady acc.1 w.slot then
          match placeWaiter { acc.1 with waiters := acc.1.waiters.filter fun x => x.id != w.id } w with
          | (s, some sc) => (s, acc.2 ++ [.woke w.id sc])
          | (_, none) => acc
        else acc) acc).1 j = slotReady s j) ∧
      ∀ w ∈ (ws.foldl (fun (acc : St × List Event) w =>
        if slotReady acc.1 w.slot then
          match placeWaiter { acc.1 with waiters := acc.1.waiters.filter fun x => x.id != w.id } w with
          | (s, some sc) => (s, acc.2 ++ [.woke w.id sc])
          | (_, none) => acc
        else acc) acc).1.waiters, w ∈ s.waiters ∧ slotReady s w.slot = false by
    exact hs s.waiters (s, []) (fun _ => rfl) (fun w hw => ⟨hw, Or.inr hw⟩)
  intro ws
  induction ws with
  | nil =>
    intro acc hr hw
    refine ⟨hr, fun w hwm => ?_⟩
    obtain ⟨h1, h2⟩ := hw w hwm
    rcases h2 with h2 | h2
    · exact ⟨h1, h2⟩
    · cases h2
  | cons w0 ws ih =>
    intro acc hr hw
    simp only [List.foldl_cons]
    apply ih
    · -- readiness is untouched
      intro j
      split
      · unfold placeWaiter
        have hp := place_ready { acc.1 with waiters := acc.1.waiters.filter fun x => x.id != w0.id } w0.id w0.slot .bind w0.loc "" w0.ctx w0.dl j
        generalize place { acc.1 with waiters := acc.1.waiters.filter fun x => x.id != w0.id } w0.id w0.slot .bind w0.loc "" w0.ctx w0.dl = r at hp ⊢
        obtain ⟨s1, o⟩ := r
        cases o with
        | none => exact hr j
        | some sc =>
          simp only at hp ⊢
          rw [hp]
          have : slotReady { acc.1 with waiters := acc.1.waiters.filter fun x => x.id != w0.id } j = slotReady acc.1 j :=
            slotReady_congr ⟨rfl, rfl, fun _ => rfl⟩ rfl j
          rw [this]; exact hr j
      · exact hr j
    · intro w hwm
      split at hwm
      · rename_i hready
        have hready' : slotReady s w0.slot = true := by rw [← hr w0.slot]; exact hready
        unfold placeWaiter at hwm
        have hpw := place_waiters { acc.1 with waiters := acc.1.waiters.filter fun x => x.id != w0.id } w0.id w0.slot .bind w0.loc "" w0.ctx w0.dl
        have hready2 : slotReady { acc.1 with waiters := acc.1.waiters.filter fun x => x.id != w0.id } w0.slot = true :=
          (slotReady_congr (s := acc.1) (s' := { acc.1 with waiters := acc.1.waiters.filter fun x => x.id != w0.id })
            ⟨rfl, rfl, fun _ => rfl⟩ rfl w0.slot).trans hready
        have hsome := place_isSome_of_ready hready2 w0.id .bind w0.loc "" w0.ctx w0.dl
        generalize place { acc.1 with waiters := acc.1.waiters.filter fun x => x.id != w0.id } w0.id w0.slot .bind w0.loc "" w0.ctx w0.dl = r at hwm hpw hsome
        obtain ⟨s1, o⟩ := r
        cases o with
        | none => simp at hsome
        | some sc =>
          simp only at hwm hpw
          rw [hpw] at hwm
          simp only [List.mem_filter, bne_iff_ne, ne_eq] at hwm
          obtain ⟨h1, h2⟩ := hw w hwm.1
          refine ⟨h1, ?_⟩
          rcases h2 with h2 | h2
          · exact Or.inl h2
          · simp only [List.mem_cons] at h2
            rcases h2 with h2 | h2
            · exact absurd (by rw [h2]) hwm.2
            · exact Or.inr h2
      · rename_i hnr
        obtain ⟨h1, h2⟩ := hw w hwm
        refine ⟨h1, ?_⟩
        rcases h2 with h2 | h2
        · exact Or.inl h2
        · simp only [List.mem_cons] at h2
          rcases h2 with h2 | h2
          · left
            rw [h2, ← hr w0.slot]
            simpa using hnr
          · exact Or.inr h2

/-- **C09** after every operation, whatever the history: no round-robin BIND pick is still waiting for a
    channel whose connection is READY — it has been handed that channel in the same step -/
theorem no_ready_waiter (s : St) (op : Op) :
    ∀ w ∈ (step s op).1.waiters, slotReady (step s op).1 w.slot = false := by
  unfold step
  generalize stepCore s op = r
  obtain ⟨s1, ev⟩ := r
  simp only
  have h := wake_leaves_unready s1
  generalize wakeWaiters s1 = r2 at h
  obtain ⟨s2, ev2⟩ := r2
  intro w hw
  rw [h.1 w.slot]
  exact (h.2 w hw).2

theorem no_ready_waiter_run (ci : CfgInput) (ops : List Op) :
    ∀ w ∈ (run (init ci) ops).waiters, slotReady (run (init ci) ops) w.slot = false := by
  cases hops : ops.reverse with
  | nil =>
    have : ops = [] := by simpa using hops
    subst this
    intro w hw; simp [run, init] at hw
  | cons op rest =>
    have : ops = rest.reverse ++ [op] := by
      have := congrArg List.reverse hops
      simpa using this
    subst this
    have hrun : run (init ci) (rest.reverse ++ [op]) = (step (run (init ci) rest.reverse) op).1 := by
      unfold run; rw [List.foldl_append]; rfl
    rw [hrun]
    exact no_ready_waiter _ op

end GcpVerif.Pool
