/-
C02, per run: the model treats "scan the ready list for the least-loaded channel, then increment its
stream count" as one atomic step of a pick — also with respect to picks on other (superseded) pickers,
because the counters belong to the balancer's channels, not to a picker.  That is what the balancer's
pick mutex `gb.pickMu` provides (F31; a mutex per picker, as before F31, serialises only the picks on one
picker), as long as it is taken *exclusively* around the scan.  This obligation is re-checked on every
run against the access table extracted from the current sources (tools/extract): every read of a stream
counter by the scan happens with `gb.pickMu` certainly held in write mode.
-/
import GcpVerif.Model.Sync
import GcpVerif.Generated.Accesses
namespace GcpVerif.Sync

def scanExclusive (accs : List Access) : Bool :=
  accs.all fun a => !(a.field == "streamsCnt" && !a.write) || a.w.contains "gb.pickMu"

/-- **C02 (per run)** the least-loaded scan runs under the exclusively held balancer-wide pick mutex -/
theorem c02_scan_exclusive : scanExclusive GcpVerif.Generated.accesses = true := by decide +kernel

/-- every access to a stream counter — the scan's reads, the increment of a placement (least-loaded or
    round-robin), the decrement of a completion — holds the pick mutex (F39) -/
def countersUnderPickMu (accs : List Access) : Bool :=
  accs.all fun a => a.field != "streamsCnt" || a.w.contains "gb.pickMu"

/-- **C02 (per run, F39)** the stream counters change only under the pick mutex: the scan sees one state
    of all of them, and "scan, then count the new stream" is one atomic step with respect to completions
    and round-robin placements too -/
theorem c02_counters_under_pick_mutex : countersUnderPickMu GcpVerif.Generated.accesses = true := by decide +kernel

/-- non-vacuity: the table does contain such reads -/
theorem c02_scan_present : (GcpVerif.Generated.accesses.any fun a => a.field == "streamsCnt" && !a.write) = true := by
  decide +kernel

end GcpVerif.Sync
