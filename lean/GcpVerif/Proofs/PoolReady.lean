/-
C04 `picker_ready_list` and `publish_on_change`, for every reachable state and without any
assumption about gRPC's side of the contract:

* the ready list of the current picker is a permutation of the pool slots whose connection is
  recorded READY (`rdy_run`, `picker_ready_list`);
* a state report for a pool connection that changes its READY-ness, or that moves the aggregate to
  or from TRANSIENT_FAILURE, publishes a new state/picker pair (`publish_on_change`), and no other
  report publishes anything (`publish_only_on_change`).

Helper invariant `Half` (contract-free half of `Bij`): the slot table points at slots that hold
exactly that connection, distinct slots hold distinct connections, replacement connections sit in no
slot.
-/
import GcpVerif.Proofs.PoolStages
import GcpVerif.Proofs.PoolSlots
import GcpVerif.Proofs.PoolPublish
namespace GcpVerif.Pool

/-! ### `Tables` through the primitive stages -/

theorem report_tables {s : St} (h : Tables s) (sc : Sc) (oldS st : CState) (order : List Slot)
    (hold : stateOf s sc = some oldS) : Tables (report s sc oldS st order).1 := by
  unfold report
  exact tables_of_same (tables_report h sc oldS st hold) (maybePublish_sameT _ oldS st _ order)

theorem unbind_sameT' (s : St) (k : String) : SameT s (unbindSubConn s k) := unbind_sameT s k

theorem tablesStages : Stages (Keeps Tables) where
  setAddrs s v := fun h => tables_of_same h ⟨rfl, rfl, rfl, rfl, rfl, rfl, rfl⟩
  setCfg s _ := fun h => tables_of_same h ⟨rfl, rfl, rfl, rfl, rfl, rfl, rfl⟩
  setFail s n := fun h => tables_of_same h ⟨rfl, rfl, rfl, rfl, rfl, rfl, rfl⟩
  setNow s n := fun h => tables_of_same h ⟨rfl, rfl, rfl, rfl, rfl, rfl, rfl⟩
  setRr s := fun h => tables_of_same h ⟨rfl, rfl, rfl, rfl, rfl, rfl, rfl⟩
  setHeld s hl := fun h => tables_of_same h ⟨rfl, rfl, rfl, rfl, rfl, rfl, rfl⟩
  addWaiter s w := fun h => tables_of_same h ⟨rfl, rfl, rfl, rfl, rfl, rfl, rfl⟩
  dropWaiter s id := fun h => tables_of_same h ⟨rfl, rfl, rfl, rfl, rfl, rfl, rfl⟩
  addSubConn s := fun h => tables_addSubConn h
  refresh s slot := fun h => tables_refresh h slot
  updateAll s scs := fun h => tables_of_same h (updateAll_sameT s scs)
  place s call slot cmd loc key ctx dl := fun h => tables_of_same h (place_sameT s call slot cmd loc key ctx dl)
  getReady s c key := fun h => tables_of_same h (getReady_sameT s c key)
  completeCall s call _ := fun h => tables_of_same h (by unfold completeCall; exact ⟨rfl, rfl, rfl, rfl, rfl, rfl, rfl⟩)
  detReset s slot := fun h => tables_of_same h (SameT.modRef _ _ _)
  deInc s slot := fun h => tables_of_same h (SameT.modRef _ _ _)
  bindAll s keys slot r _ := fun h => tables_of_same h (foldl_bind_sameT keys r.subConn s)
  unbind s key := fun h => tables_of_same h (unbind_sameT s key)
  swap s sc slot hl := fun h => tables_swap h sc slot (lookup_isSome.mp (by rw [hl]; rfl))
  report s sc oldS st order hs := fun h => report_tables h sc oldS st order hs

/-! ### `Half` -/

structure Half (s : St) : Prop where
  refOf : ∀ sc slot, lookup s.scRefs sc = some slot → subAt s slot = some sc
  inj : ∀ i j sc, subAt s i = some sc → subAt s j = some sc → i = j
  subFresh : ∀ slot sc, subAt s slot = some sc → sc < s.nextSc
  repNot : ∀ sc ∈ keys s.refreshingMap, ∀ slot, subAt s slot ≠ some sc

/-- the stage leaves the slot table, every slot's connection, the allocator and the replacements alone -/
def FrameH (s s' : St) : Prop := SameB s s' ∧ s'.nextSc = s.nextSc ∧ s'.refreshingMap = s.refreshingMap

theorem half_of_frame {s s' : St} (h : Half s) (e : FrameH s s') : Half s' := by
  obtain ⟨⟨e1, -, e3⟩, e4, e5⟩ := e
  constructor
  · intro sc slot hl; rw [e1] at hl; rw [e3]; exact h.refOf sc slot hl
  · intro i j sc hi hj; rw [e3] at hi hj; exact h.inj i j sc hi hj
  · intro slot sc hs; rw [e3] at hs; rw [e4]; exact h.subFresh slot sc hs
  · intro sc hsc slot; rw [e5] at hsc; rw [e3]; exact h.repNot sc hsc slot

theorem frameH_of {s s' : St} (b : SameB s s') (t : SameT s s') : FrameH s s' := ⟨b, t.2.2.2.1, t.2.2.1⟩

theorem subAt_lt {s : St} {slot : Slot} {sc : Sc} (h : subAt s slot = some sc) : slot < s.refs.length := by
  unfold subAt at h
  cases hg : s.refs[slot]? with
  | none => rw [hg] at h; cases h
  | some r => exact (List.getElem?_eq_some_iff.mp hg).1

/-- the second half of addSubConn: the new slot -/
def addRef (s1 : St) (sc : Sc) : St :=
  { s1 with scRefs := insert s1.scRefs sc s1.refs.length, scStates := insert s1.scStates sc .idle,
            refs := s1.refs ++ [{ subConn := sc, affinityCnt := 0, streamsCnt := 0, lastResp := s1.now,
                                  deCalls := 0, refreshing := false, refreshCnt := 0 }] }

theorem ccNew_none_next (s : St) (h : (ccNewSubConn s).2.1 = none) : (ccNewSubConn s).1.nextSc = s.nextSc := by
  unfold ccNewSubConn at h ⊢
  split
  · rfl
  · split
    · rfl
    · rename_i h1 h2; simp only [h1, h2, Bool.false_eq_true, ↓reduceIte] at h; cases h

theorem half_addSubConn {s : St} (t : Tables s) (h : Half s) : Half (addSubConn s).1 := by
  unfold addSubConn
  have hf := tables_ccNew t
  have hnn := ccNew_none_next s
  generalize ccNewSubConn s = r at hf hnn ⊢
  obtain ⟨s1, o, ev⟩ := r
  obtain ⟨t1, -, eR, eF, eRefs, enew⟩ := hf
  simp only at t1 eR eF eRefs enew hnn
  cases o with
  | none =>
    simp only
    have hn := hnn rfl
    exact half_of_frame h ⟨⟨eR, by rw [eRefs], fun j => by unfold subAt; rw [eRefs]⟩, hn, eF⟩
  | some sc =>
    obtain ⟨hsc, hnext⟩ := enew sc rfl
    show Half (addRef s1 sc)
    have hsub : ∀ j x, subAt (addRef s1 sc) j = some x →
        (j < s.refs.length ∧ subAt s j = some x) ∨ (j = s.refs.length ∧ x = sc) := by
      intro j x hs
      simp only [subAt, addRef] at hs
      by_cases hlt : j < s1.refs.length
      · rw [List.getElem?_append_left hlt] at hs
        left; rw [eRefs] at hlt; refine ⟨hlt, ?_⟩
        unfold subAt; rw [← eRefs]; exact hs
      · have hge : s1.refs.length ≤ j := Nat.le_of_not_lt hlt
        rw [List.getElem?_append_right hge] at hs
        cases hd : j - s1.refs.length with
        | zero =>
          rw [hd] at hs
          simp only [List.getElem?_cons_zero, Option.map_some, Option.some.injEq] at hs
          right; rw [← eRefs]; exact ⟨Nat.le_antisymm (Nat.le_of_sub_eq_zero hd) hge, hs.symm⟩
        | succ n => rw [hd] at hs; simp at hs
    have hold : ∀ j x, subAt s j = some x →
        subAt (addRef s1 sc) j = some x := by
      intro j x hs
      have hlt := subAt_lt hs
      simp only [subAt, addRef]
      rw [eRefs, List.getElem?_append_left hlt]
      exact hs
    constructor
    · intro x j hl
      simp only [addRef, lookup_insert] at hl
      by_cases hx : sc = x
      · simp only [hx, ↓reduceIte, Option.some.injEq] at hl
        subst hl; subst hx
        simp [subAt, addRef]
      · simp only [hx, ↓reduceIte] at hl
        rw [eR] at hl
        exact hold j x (h.refOf x j hl)
    · intro i j x hi hj
      rcases hsub i x hi with ⟨_, hi'⟩ | ⟨hi1, hi2⟩ <;> rcases hsub j x hj with ⟨_, hj'⟩ | ⟨hj1, hj2⟩
      · exact h.inj i j x hi' hj'
      · have := h.subFresh i x hi'; rw [hj2, hsc] at this; exact absurd this (Nat.lt_irrefl _)
      · have := h.subFresh j x hj'; rw [hi2, hsc] at this; exact absurd this (Nat.lt_irrefl _)
      · rw [hi1, hj1]
    · intro j x hs
      show x < s1.nextSc
      rw [hnext]
      rcases hsub j x hs with ⟨_, hs'⟩ | ⟨_, hx⟩
      · exact Nat.lt_succ_of_lt (h.subFresh j x hs')
      · rw [hx, hsc]; exact Nat.lt_succ_self _
    · intro x hx j hs
      have hx' : x ∈ keys s.refreshingMap := by rw [← eF]; exact hx
      rcases hsub j x hs with ⟨_, hs'⟩ | ⟨_, hxs⟩
      · exact h.repNot x hx' j hs'
      · have := (t.freshF x hx').1; rw [hxs, hsc] at this; exact Nat.lt_irrefl _ this

theorem half_refresh {s : St} (t : Tables s) (h : Half s) (slot : Slot) : Half (refresh s slot).1 := by
  unfold refresh
  cases getRef s slot with
  | none => exact h
  | some r =>
    simp only
    split
    · exact h
    · have h1 : Half (modRef s slot fun r => { r with refreshing := true }) :=
        half_of_frame h ⟨sameB_modRef s slot _ (fun _ => rfl), rfl, rfl⟩
      have t1 : Tables (modRef s slot fun r => { r with refreshing := true }) := tables_of_same t (SameT.modRef _ _ _)
      have hc := tables_ccNew t1
      have hfresh : ∀ j x, subAt (modRef s slot fun r => { r with refreshing := true }) j = some x →
          x < (modRef s slot fun r => { r with refreshing := true }).nextSc := h1.subFresh
      generalize (modRef s slot fun r => { r with refreshing := true }) = s0 at h1 t1 hc hfresh ⊢
      have hn0 := ccNew_none_next s0
      generalize ccNewSubConn s0 = rr at hc hn0 ⊢
      obtain ⟨s1, o, ev⟩ := rr
      obtain ⟨-, -, eR, eF, eRefs, enew⟩ := hc
      simp only at eR eF eRefs enew hn0
      have hb : SameB s0 s1 := ⟨eR, by rw [eRefs], fun j => by unfold subAt; rw [eRefs]⟩
      cases o with
      | none =>
        simp only
        have hn : s1.nextSc = s0.nextSc := hn0 rfl
        exact half_of_frame (half_of_frame h1 ⟨hb, hn, eF⟩) ⟨sameB_modRef s1 slot _ (fun _ => rfl), rfl, rfl⟩
      | some sc =>
        simp only
        obtain ⟨hsc, hnext⟩ := enew sc rfl
        have hsa : ∀ j, subAt { s1 with refreshingMap := insert s1.refreshingMap sc slot } j = subAt s0 j := hb.2.2
        constructor
        · intro x j hl; rw [hsa]; exact h1.refOf x j (by rw [← eR]; exact hl)
        · intro i j x hi hj; rw [hsa] at hi hj; exact h1.inj i j x hi hj
        · intro j x hs; rw [hsa] at hs
          show x < s1.nextSc
          rw [hnext]; exact Nat.lt_succ_of_lt (h1.subFresh j x hs)
        · intro x hx j hs
          rw [hsa] at hs
          simp only [mem_keys_insert] at hx
          rcases hx with hx | hx
          · have := hfresh j x hs; rw [hx, hsc] at this; exact Nat.lt_irrefl _ this
          · rw [eF] at hx; exact h1.repNot x hx j hs

theorem getRef_subAt {s : St} {slot : Slot} {r : RefSt} (hg : getRef s slot = some r) : subAt s slot = some r.subConn := by
  unfold subAt; unfold getRef at hg; rw [hg]; rfl

theorem half_swap {s : St} (t : Tables s) (h : Half s) (sc : Sc) (slot : Slot) (hl : lookup s.refreshingMap sc = some slot) :
    Half (swap s sc slot).1 := by
  have hrep : sc ∈ keys s.refreshingMap := lookup_isSome.mp (by rw [hl]; rfl)
  cases hg : getRef s slot with
  | none => unfold swap; rw [hg]; exact h
  | some r =>
    obtain ⟨f1, f2, -, -, f5, -⟩ := swap_fields (sc := sc) hg
    have fn : (swap s sc slot).1.nextSc = s.nextSc := by unfold swap; rw [hg]; rfl
    generalize (swap s sc slot).1 = s' at f1 f2 f5 fn ⊢
    have hold : subAt s slot = some r.subConn := getRef_subAt hg
    have hsub : ∀ j, subAt s' j = if slot = j then some sc else subAt s j := by
      intro j
      simp only [subAt, f2, List.getElem?_modify]
      by_cases hj : slot = j
      · subst hj
        unfold getRef at hg
        simp [hg, swapRef]
      · cases s.refs[j]? <;> simp [hj]
    constructor
    · intro x j hlx
      rw [hsub j]
      rw [f1] at hlx
      by_cases hx : sc = x
      · subst hx
        rw [lookup_insert_self] at hlx
        simp only [Option.some.injEq] at hlx
        simp [hlx]
      · rw [lookup_insert_ne _ _ hx] at hlx
        by_cases hx2 : r.subConn = x
        · rw [← hx2, lookup_erase_self] at hlx; cases hlx
        · rw [lookup_erase_ne _ hx2] at hlx
          have hj : slot ≠ j := fun heq => by
            have := h.refOf x j hlx
            rw [← heq, hold] at this
            exact hx2 (Option.some.inj this)
          simp only [hj, ↓reduceIte]
          exact h.refOf x j hlx
    · intro i j x hi hj
      rw [hsub] at hi hj
      by_cases h1 : slot = i <;> by_cases h2 : slot = j
      · rw [← h1, ← h2]
      · simp only [h1, ↓reduceIte, Option.some.injEq] at hi
        simp only [h2, ↓reduceIte] at hj
        subst hi; exact absurd hj (h.repNot sc hrep j)
      · simp only [h2, ↓reduceIte, Option.some.injEq] at hj
        simp only [h1, ↓reduceIte] at hi
        subst hj; exact absurd hi (h.repNot sc hrep i)
      · simp only [h1, h2, ↓reduceIte] at hi hj
        exact h.inj i j x hi hj
    · intro j x hs
      rw [hsub] at hs
      rw [fn]
      by_cases h1 : slot = j
      · simp only [h1, ↓reduceIte, Option.some.injEq] at hs
        subst hs; exact (t.freshF sc hrep).1
      · simp only [h1, ↓reduceIte] at hs
        exact h.subFresh j x hs
    · intro x hx j hs
      rw [f5] at hx
      rw [hsub] at hs
      have hxk : x ∈ keys s.refreshingMap := mem_keys_erase hx
      have hne : x ≠ sc := by
        intro he; subst he
        rw [keys_erase] at hx
        simp at hx
      by_cases h1 : slot = j
      · simp only [h1, ↓reduceIte, Option.some.injEq] at hs
        exact hne hs.symm
      · simp only [h1, ↓reduceIte] at hs
        exact h.repNot x hxk j hs

theorem report_frame (s : St) (sc : Sc) (oldS st : CState) (order : List Slot) :
    (∀ x j, lookup (report s sc oldS st order).1.scRefs x = some j → lookup s.scRefs x = some j) ∧
    (report s sc oldS st order).1.refs = s.refs ∧ (report s sc oldS st order).1.nextSc = s.nextSc ∧
    (report s sc oldS st order).1.refreshingMap = s.refreshingMap := by
  have h4 : ∀ (s3 : St) (a b c : CState), (maybePublish s3 a b c order).1.scRefs = s3.scRefs ∧
      (maybePublish s3 a b c order).1.refs = s3.refs ∧ (maybePublish s3 a b c order).1.nextSc = s3.nextSc ∧
      (maybePublish s3 a b c order).1.refreshingMap = s3.refreshingMap := by
    intro s3 a b c
    unfold maybePublish regeneratePicker
    split
    · split <;> exact ⟨rfl, rfl, rfl, rfl⟩
    · exact ⟨rfl, rfl, rfl, rfl⟩
  have h3 : ∀ (s2 : St) (a b : CState), (recordTransition s2 a b).scRefs = s2.scRefs ∧
      (recordTransition s2 a b).refs = s2.refs ∧ (recordTransition s2 a b).nextSc = s2.nextSc ∧
      (recordTransition s2 a b).refreshingMap = s2.refreshingMap := by
    intro s2 a b
    unfold recordTransition updCounter
    cases a <;> cases b <;> exact ⟨rfl, rfl, rfl, rfl⟩
  have h2 : ∀ (s1 : St) (a b : CState), (cleanFallback s1 sc a b).scRefs = s1.scRefs ∧
      (cleanFallback s1 sc a b).refs = s1.refs ∧ (cleanFallback s1 sc a b).nextSc = s1.nextSc ∧
      (cleanFallback s1 sc a b).refreshingMap = s1.refreshingMap := by
    intro s1 a b
    unfold cleanFallback
    simp only
    split <;> split <;> exact ⟨rfl, rfl, rfl, rfl⟩
  have h1 : (∀ x j, lookup (recordState s sc st).1.scRefs x = some j → lookup s.scRefs x = some j) ∧
      (recordState s sc st).1.refs = s.refs ∧ (recordState s sc st).1.nextSc = s.nextSc ∧
      (recordState s sc st).1.refreshingMap = s.refreshingMap := by
    unfold recordState
    cases st
    case shutdown =>
      refine ⟨?_, rfl, rfl, rfl⟩
      intro x j hx
      simp only at hx
      by_cases hxs : sc = x
      · rw [← hxs, lookup_erase_self] at hx; cases hx
      · rw [lookup_erase_ne _ hxs] at hx; exact hx
    all_goals exact ⟨fun _ _ hx => hx, rfl, rfl, rfl⟩
  unfold report
  simp only
  obtain ⟨a1, a2, a3, a4⟩ := h1
  obtain ⟨b1, b2, b3, b4⟩ := h2 (recordState s sc st).1 oldS st
  obtain ⟨c1, c2, c3, c4⟩ := h3 (cleanFallback (recordState s sc st).1 sc oldS st) oldS st
  obtain ⟨d1, d2, d3, d4⟩ := h4 (recordTransition (cleanFallback (recordState s sc st).1 sc oldS st) oldS st) oldS st
    (cleanFallback (recordState s sc st).1 sc oldS st).aggr
  refine ⟨?_, ?_, ?_, ?_⟩
  · intro x j hx; rw [d1, c1, b1] at hx; exact a1 x j hx
  · rw [d2, c2, b2, a2]
  · rw [d3, c3, b3, a3]
  · rw [d4, c4, b4, a4]

theorem half_report {s : St} (h : Half s) (sc : Sc) (oldS st : CState) (order : List Slot) :
    Half (report s sc oldS st order).1 := by
  obtain ⟨e1, e2, e3, e4⟩ := report_frame s sc oldS st order
  have hs : ∀ j, subAt (report s sc oldS st order).1 j = subAt s j := fun j => by unfold subAt; rw [e2]
  constructor
  · intro x j hl; rw [hs]; exact h.refOf x j (e1 x j hl)
  · intro i j x hi hj; rw [hs] at hi hj; exact h.inj i j x hi hj
  · intro j x hx; rw [hs] at hx; rw [e3]; exact h.subFresh j x hx
  · intro x hx j; rw [e4] at hx; rw [hs]; exact h.repNot x hx j

theorem sameB_unbind (s : St) (k : String) : SameB s (unbindSubConn s k) := by
  unfold unbindSubConn
  cases lookup s.affinity k with
  | none => exact SameB.refl s
  | some sc => exact (sameC_bump s sc (-1)).1.trans ⟨rfl, rfl, fun _ => rfl⟩

theorem halfStages : Stages fun s s' => Tables s → Half s → Half s' where
  setAddrs s v := fun _ h => half_of_frame h ⟨SameB.refl _, rfl, rfl⟩
  setCfg s _ := fun _ h => half_of_frame h ⟨⟨rfl, rfl, fun _ => rfl⟩, rfl, rfl⟩
  setFail s n := fun _ h => half_of_frame h ⟨⟨rfl, rfl, fun _ => rfl⟩, rfl, rfl⟩
  setNow s n := fun _ h => half_of_frame h ⟨⟨rfl, rfl, fun _ => rfl⟩, rfl, rfl⟩
  setRr s := fun _ h => half_of_frame h ⟨⟨rfl, rfl, fun _ => rfl⟩, rfl, rfl⟩
  setHeld s hl := fun _ h => half_of_frame h ⟨⟨rfl, rfl, fun _ => rfl⟩, rfl, rfl⟩
  addWaiter s w := fun _ h => half_of_frame h ⟨⟨rfl, rfl, fun _ => rfl⟩, rfl, rfl⟩
  dropWaiter s id := fun _ h => half_of_frame h ⟨⟨rfl, rfl, fun _ => rfl⟩, rfl, rfl⟩
  addSubConn s := fun t h => half_addSubConn t h
  refresh s slot := fun t h => half_refresh t h slot
  updateAll s scs := fun _ h => half_of_frame h (frameH_of (sameC_updateAll s scs).1 (updateAll_sameT s scs))
  place s call slot cmd loc key ctx dl := fun _ h =>
    half_of_frame h (frameH_of (sameC_place s call slot cmd loc key ctx dl).1 (place_sameT s call slot cmd loc key ctx dl))
  getReady s c key := fun _ h => half_of_frame h (frameH_of (sameC_getReady s c key).1 (getReady_sameT s c key))
  completeCall s call _ := fun _ h => half_of_frame h
    ⟨by unfold completeCall; exact sameB_modRef _ _ _ (fun _ => rfl), by unfold completeCall; rfl, by unfold completeCall; rfl⟩
  detReset s slot := fun _ h => half_of_frame h ⟨sameB_modRef _ _ _ (fun _ => rfl), rfl, rfl⟩
  deInc s slot := fun _ h => half_of_frame h ⟨sameB_modRef _ _ _ (fun _ => rfl), rfl, rfl⟩
  bindAll s keys slot r _ := fun _ h =>
    half_of_frame h (frameH_of (sameC_foldl_bind keys r.subConn s).1 (foldl_bind_sameT keys r.subConn s))
  unbind s key := fun _ h => half_of_frame h (frameH_of (sameB_unbind s key) (unbind_sameT s key))
  swap s sc slot hl := fun t h => half_swap t h sc slot hl
  report s sc oldS st order _ := fun _ h => half_report h sc oldS st order

theorem half_init (ci : CfgInput) : Half (init ci) :=
  ⟨fun _ _ h => by simp [init, lookup] at h, fun i j sc h => by simp [init, subAt] at h,
   fun _ _ h => by simp [init, subAt] at h, fun _ h => by simp [init, keys] at h⟩

/-- `Tables` and `Half` hold in every reachable state (no assumption about gRPC's reports) -/
theorem th_run (ci : CfgInput) (ops : List Op) : Tables (run (init ci) ops) ∧ Half (run (init ci) ops) :=
  inv_run (tablesStages.and halfStages) ci ⟨tables_init ci, half_init ci⟩ ops

/-! ### the ready list -/

/-- the ready list of the current picker is a permutation of the READY pool slots -/
def Rdy (s : St) : Prop := ∀ l, s.picker = .gcp l → l.Perm (readySlots s)

def isRdy (p : Sc × CState) : Bool := p.2 == .ready

theorem readySlots_def (s : St) : readySlots s = (s.scStates.filter isRdy).filterMap fun p => lookup s.scRefs p.1 := rfl

theorem rdy_of_eq {s s' : St} (h : Rdy s) (e1 : s'.scStates = s.scStates) (e2 : s'.scRefs = s.scRefs)
    (e3 : s'.picker = s.picker) : Rdy s' := by
  intro l hl
  rw [e3] at hl
  have := h l hl
  rw [readySlots_def] at this ⊢
  rw [e1, e2]; exact this

theorem rdy_of_same {s s' : St} (h : Rdy s) (t : SameT s s') (a : SameA s s') : Rdy s' :=
  rdy_of_eq h t.1 t.2.1 a.2.2.2.1

theorem filterMap_lookup_congr {l : List (Sc × CState)} {R R' : List (Sc × Slot)}
    (h : ∀ p ∈ l, lookup R' p.1 = lookup R p.1) :
    (l.filterMap fun p => lookup R' p.1) = l.filterMap fun p => lookup R p.1 := by
  induction l with
  | nil => rfl
  | cons p l ih =>
    simp only [List.filterMap_cons]
    rw [h p List.mem_cons_self, ih (fun q hq => h q (List.mem_cons_of_mem _ hq))]

/-- appending a fresh connection that is not READY changes nothing -/
theorem ready_append_fresh (S : List (Sc × CState)) (R : List (Sc × Slot)) (sc : Sc) (v : CState) (n : Slot)
    (hv : (v == CState.ready) = false) (hS : sc ∉ keys S) (hR : sc ∉ keys R) :
    ((insert S sc v).filter isRdy).filterMap (fun p => lookup (insert R sc n) p.1) =
    (S.filter isRdy).filterMap (fun p => lookup R p.1) := by
  rw [insert_of_not_mem hS, List.filter_append]
  have : [(sc, v)].filter isRdy = [] := by simp [isRdy, hv]
  rw [this, List.append_nil]
  apply filterMap_lookup_congr
  intro p hp
  have hpk : p.1 ∈ keys S := List.mem_map_of_mem (f := (·.1)) (List.mem_filter.mp hp).1
  have hne : sc ≠ p.1 := fun he => hS (he ▸ hpk)
  exact lookup_insert_ne _ _ hne

theorem erase_of_not_mem {β : Type} {l : List (Sc × β)} {k : Sc} (h : k ∉ keys l) : erase l k = l := by
  unfold erase
  rw [List.filter_eq_self]
  intro p hp
  have : p.1 ≠ k := fun he => h (he ▸ List.mem_map_of_mem (f := (·.1)) hp)
  simpa using this

/-- with distinct keys, a table is its `erase` plus the erased entry (up to order) -/
theorem perm_erase_append {β : Type} {l : List (Sc × β)} (hnd : (keys l).Nodup) {k : Sc} {v : β}
    (hl : lookup l k = some v) : l.Perm (erase l k ++ [(k, v)]) := by
  induction l with
  | nil => simp [lookup] at hl
  | cons p l ih =>
    simp only [keys_cons, List.nodup_cons] at hnd
    by_cases hp : p.1 = k
    · have hbeq : (p.1 == k) = true := by simpa using hp
      have hpv : p = (k, v) := by
        rw [lookup_cons] at hl
        simp only [hbeq, ↓reduceIte, Option.some.injEq] at hl
        exact Prod.ext hp hl
      have hnot : k ∉ keys l := by rw [← hp]; exact hnd.1
      have herase : erase (p :: l) k = l := by
        have : erase (p :: l) k = erase l k := by unfold erase; simp [List.filter_cons, hbeq]
        rw [this, erase_of_not_mem hnot]
      rw [herase, hpv]
      exact List.perm_append_singleton (k, v) l |>.symm
    · have hbeq : (p.1 == k) = false := by simpa using hp
      have hl' : lookup l k = some v := by
        rw [lookup_cons] at hl
        simpa [hbeq] using hl
      have herase : erase (p :: l) k = p :: erase l k := by unfold erase; simp [List.filter_cons, hbeq]
      rw [herase]
      exact List.Perm.cons p (ih hnd.2 hl')

theorem filter_map_upd_notReady {S : List (Sc × CState)} {sc : Sc} {st : CState}
    (hS : ∀ p ∈ S, p.1 = sc → isRdy p = false) (hst : (st == CState.ready) = false) :
    (S.map fun p => if p.1 == sc then (sc, st) else p).filter isRdy = S.filter isRdy := by
  induction S with
  | nil => rfl
  | cons p S ih =>
    have ih' := ih (fun q hq => hS q (List.mem_cons_of_mem _ hq))
    simp only [List.map_cons, List.filter_cons]
    by_cases hp : p.1 = sc
    · have hbeq : (p.1 == sc) = true := by simpa using hp
      have h1 : isRdy (sc, st) = false := by simp [isRdy, hst]
      have h2 : isRdy p = false := hS p List.mem_cons_self hp
      simp only [hbeq, ↓reduceIte, h1, h2, Bool.false_eq_true]
      exact ih'
    · have hbeq : (p.1 == sc) = false := by simpa using hp
      simp only [hbeq, Bool.false_eq_true, ↓reduceIte]
      rw [ih']

theorem filter_erase_notReady {S : List (Sc × CState)} {sc : Sc}
    (hS : ∀ p ∈ S, p.1 = sc → isRdy p = false) : (erase S sc).filter isRdy = S.filter isRdy := by
  induction S with
  | nil => rfl
  | cons p S ih =>
    have ih' := ih (fun q hq => hS q (List.mem_cons_of_mem _ hq))
    by_cases hp : p.1 = sc
    · have hbeq : (p.1 == sc) = true := by simpa using hp
      have h2 : isRdy p = false := hS p List.mem_cons_self hp
      have : erase (p :: S) sc = erase S sc := by unfold erase; simp [List.filter_cons, hbeq]
      rw [this, ih']
      simp [List.filter_cons, h2]
    · have hbeq : (p.1 == sc) = false := by simpa using hp
      have : erase (p :: S) sc = p :: erase S sc := by unfold erase; simp [List.filter_cons, hbeq]
      rw [this]
      simp only [List.filter_cons]
      rw [ih']

theorem insert_same {S : List (Sc × CState)} (hnd : (keys S).Nodup) {sc : Sc} {v : CState}
    (hl : lookup S sc = some v) : insert S sc v = S := by
  have hk : sc ∈ keys S := lookup_isSome.mp (by rw [hl]; rfl)
  rw [insert_of_mem hk]
  conv => rhs; rw [← List.map_id S]
  apply List.map_congr_left
  intro p hp
  by_cases hpk : p.1 = sc
  · have hbeq : (p.1 == sc) = true := by simpa using hpk
    have : lookup S p.1 = some p.2 := lookup_of_mem hnd (by exact hp)
    rw [hpk, hl] at this
    simp only [hbeq, ↓reduceIte, id]
    exact Prod.ext hpk.symm (Option.some.inj this)
  · have hbeq : (p.1 == sc) = false := by simpa using hpk
    simp [hbeq]

theorem rdy_addSubConn {s : St} (t : Tables s) (h : Rdy s) : Rdy (addSubConn s).1 := by
  have ha := sameA_addSubConn s
  unfold addSubConn at ha ⊢
  have hf := tables_ccNew t
  generalize ccNewSubConn s = r at hf ha ⊢
  obtain ⟨s1, o, ev⟩ := r
  obtain ⟨t1, eS, eR, -, -, enew⟩ := hf
  simp only at t1 eS eR enew
  cases o with
  | none => exact rdy_of_eq h eS eR ha.2.2.2.1
  | some sc =>
    obtain ⟨hsc, -⟩ := enew sc rfl
    simp only at ha ⊢
    intro l hl
    have hp : s.picker = .gcp l := by rw [← ha.2.2.2.1]; exact hl
    have := h l hp
    rw [readySlots_def] at this ⊢
    have hS : sc ∉ keys s1.scStates := by
      rw [eS, hsc]; intro hm; exact Nat.lt_irrefl _ (t.freshS _ hm)
    have hR : sc ∉ keys s1.scRefs := fun hk => hS ((t1.keysEq sc).mpr hk)
    show l.Perm (((insert s1.scStates sc CState.idle).filter isRdy).filterMap fun p => lookup (insert s1.scRefs sc s1.refs.length) p.1)
    rw [ready_append_fresh _ _ sc .idle _ (by decide) hS hR, eS, eR]
    exact this

theorem rdy_swap {s : St} (t : Tables s) (hh : Half s) (h : Rdy s) (sc : Sc) (slot : Slot)
    (hl : lookup s.refreshingMap sc = some slot) : Rdy (swap s sc slot).1 := by
  have hrep : sc ∈ keys s.refreshingMap := lookup_isSome.mp (by rw [hl]; rfl)
  have ha := sameA_swap s sc slot
  cases hg : getRef s slot with
  | none => unfold swap; rw [hg]; exact h
  | some r =>
    obtain ⟨f1, -, -, -, -, f6, -⟩ := swap_fields (sc := sc) hg
    intro l hpl
    have hp : s.picker = .gcp l := by rw [← ha.2.2.2.1]; exact hpl
    have hperm := h l hp
    rw [readySlots_def] at hperm ⊢
    rw [f1, f6]
    have hS : sc ∉ keys s.scStates := (t.freshF sc hrep).2
    have hR : sc ∉ keys s.scRefs := fun hk => hS ((t.keysEq sc).mpr hk)
    by_cases hold : r.subConn ∈ keys s.scStates
    · -- the old connection is in the pool: its entry moves to the end of both tables
      have hsome : (lookup s.scStates r.subConn).isSome := lookup_isSome.mpr hold
      cases hos : lookup s.scStates r.subConn with
      | none => rw [hos] at hsome; cases hsome
      | some os =>
        have hst : (stateOf s r.subConn).getD CState.idle = os := by unfold stateOf; rw [hos]; rfl
        rw [hst]
        have holdR : r.subConn ∈ keys s.scRefs := (t.keysEq _).mp hold
        have hsomeR : (lookup s.scRefs r.subConn).isSome := lookup_isSome.mpr holdR
        cases hoj : lookup s.scRefs r.subConn with
        | none => rw [hoj] at hsomeR; cases hsomeR
        | some j =>
          have hj : j = slot := hh.inj j slot r.subConn (hh.refOf _ _ hoj) (getRef_subAt hg)
          subst hj
          have hSe : sc ∉ keys (erase s.scStates r.subConn) := fun hk => hS (mem_keys_erase hk)
          have hp1 := perm_erase_append t.ndS hos
          -- old list, reordered
          have hp2 : ((s.scStates.filter isRdy).filterMap fun p => lookup s.scRefs p.1).Perm
              ((((erase s.scStates r.subConn) ++ [(r.subConn, os)]).filter isRdy).filterMap fun p => lookup s.scRefs p.1) :=
            (hp1.filter _).filterMap _
          refine hperm.trans (hp2.trans ?_)
          rw [insert_of_not_mem hSe, List.filter_append, List.filter_append, List.filterMap_append, List.filterMap_append]
          have hleft : (((erase s.scStates r.subConn).filter isRdy).filterMap fun p => lookup s.scRefs p.1) =
              (((erase s.scStates r.subConn).filter isRdy).filterMap fun p => lookup (insert (erase s.scRefs r.subConn) sc j) p.1) := by
            symm
            apply filterMap_lookup_congr
            intro p hp
            have hpm : p ∈ erase s.scStates r.subConn := (List.mem_filter.mp hp).1
            have hpk : p.1 ∈ keys s.scStates := mem_keys_erase (List.mem_map_of_mem (f := (·.1)) hpm)
            have hne1 : sc ≠ p.1 := fun he => hS (he ▸ hpk)
            have hne2 : r.subConn ≠ p.1 := fun he => (mem_erase.mp hpm).2 he.symm
            rw [lookup_insert_ne _ _ hne1, lookup_erase_ne _ hne2]
          rw [hleft]
          apply List.Perm.append_left
          by_cases hr : (os == CState.ready) = true
          · have e1 : [(r.subConn, os)].filter isRdy = [(r.subConn, os)] := by simp [isRdy, hr]
            have e2 : [(sc, os)].filter isRdy = [(sc, os)] := by simp [isRdy, hr]
            rw [e1, e2]
            simp only [List.filterMap_cons, List.filterMap_nil, hoj, lookup_insert_self]
            exact List.Perm.refl _
          · have hr' : (os == CState.ready) = false := by simpa using hr
            have e1 : [(r.subConn, os)].filter isRdy = [] := by simp [isRdy, hr']
            have e2 : [(sc, os)].filter isRdy = [] := by simp [isRdy, hr']
            rw [e1, e2]
            exact List.Perm.refl _
    · -- the old connection has left the pool (Shutdown report): the replacement enters as IDLE
      have hnone : lookup s.scStates r.subConn = none := lookup_eq_none.mpr hold
      have hst : (stateOf s r.subConn).getD CState.idle = .idle := by unfold stateOf; rw [hnone]; rfl
      have holdR : r.subConn ∉ keys s.scRefs := fun hk => hold ((t.keysEq _).mpr hk)
      rw [hst, erase_of_not_mem hold, erase_of_not_mem holdR, ready_append_fresh _ _ sc .idle slot (by decide) hS hR]
      exact hperm

theorem sort_perm (l : List Slot) : (l.mergeSort (· ≤ ·)).Perm l := List.mergeSort_perm l _

theorem rdy_regenerate (s : St) (order : List Slot) : Rdy (regeneratePicker s order) := by
  intro l hl
  have hrs : readySlots (regeneratePicker s order) = readySlots s := by
    unfold regeneratePicker; split <;> rfl
  rw [hrs]
  unfold regeneratePicker at hl
  split at hl
  · cases hl
  · simp only [Picker.gcp.injEq] at hl
    split at hl
    · rename_i heq
      have heq' : order.mergeSort (· ≤ ·) = (readySlots s).mergeSort (· ≤ ·) := by simpa using heq
      subst hl
      have h1 := (sort_perm order).symm
      rw [heq'] at h1
      exact h1.trans (sort_perm _)
    · subst hl; exact sort_perm _

theorem rdy_report {s : St} (t : Tables s) (h : Rdy s) (sc : Sc) (oldS st : CState) (order : List Slot)
    (hold : stateOf s sc = some oldS) : Rdy (report s sc oldS st order).1 := by
  have hl : lookup s.scStates sc = some oldS := hold
  unfold report
  simp only
  -- the stages between recordState and maybePublish leave tables and picker alone
  have hcf := cleanFallback_sameT (recordState s sc st).1 sc oldS st
  have hcfp := (cleanFallback_rest (recordState s sc st).1 sc oldS st).2.1
  have hrtf := recordTransition_fields (cleanFallback (recordState s sc st).1 sc oldS st) oldS st
  have hrtp := (recordTransition_rest (cleanFallback (recordState s sc st).1 sc oldS st) oldS st).1
  have hrsp := (recordState_rest s sc st).2.1
  generalize hs3 : recordTransition (cleanFallback (recordState s sc st).1 sc oldS st) oldS st = s3 at hrtf hrtp
  generalize (cleanFallback (recordState s sc st).1 sc oldS st).aggr = oa
  have e3S : s3.scStates = (recordState s sc st).1.scStates := hrtf.1.trans hcf.1
  have e3R : s3.scRefs = (recordState s sc st).1.scRefs := hrtf.2.1.trans hcf.2.1
  have e3P : s3.picker = s.picker := hrtp.trans (hcfp.trans hrsp)
  unfold maybePublish
  split
  · -- published: the picker was rebuilt from the tables
    have := rdy_regenerate s3 order
    exact rdy_of_eq this rfl rfl rfl
  · rename_i hcond
    have hc : (st == CState.ready) = (oldS == CState.ready) := by
      have : ¬ ((st == CState.ready) != (oldS == CState.ready)) = true := fun hh => hcond (by simp [hh])
      simpa using this
    -- not published: the READY slots are the same as before
    intro l hpl
    rw [e3P] at hpl
    have hperm := h l hpl
    rw [readySlots_def] at hperm ⊢
    rw [e3S, e3R]
    have hentries : ∀ p ∈ s.scStates, p.1 = sc → p.2 = oldS := by
      intro p hp hpk
      have := lookup_of_mem t.ndS (show (p.1, p.2) ∈ s.scStates from hp)
      rw [hpk, hl] at this
      exact (Option.some.inj this).symm
    by_cases hr : (st == CState.ready) = true
    · -- READY → READY
      have ho : oldS = .ready := by rw [hr] at hc; simpa using hc.symm
      have hst : st = .ready := by simpa using hr
      subst hst; subst ho
      have e1 : (recordState s sc .ready).1.scStates = s.scStates := by
        unfold recordState; simp only; exact insert_same t.ndS hl
      have e2 : (recordState s sc .ready).1.scRefs = s.scRefs := by unfold recordState; rfl
      rw [e1, e2]; exact hperm
    · have hr' : (st == CState.ready) = false := by simpa using hr
      have ho : (oldS == CState.ready) = false := by rw [← hc]; exact hr'
      have hnot : ∀ p ∈ s.scStates, p.1 = sc → isRdy p = false := by
        intro p hp hpk; unfold isRdy; rw [hentries p hp hpk]; exact ho
      have hk : sc ∈ keys s.scStates := lookup_isSome.mp (by rw [hl]; rfl)
      by_cases hsd : st = .shutdown
      · subst hsd
        have e1 : (recordState s sc .shutdown).1.scStates = erase s.scStates sc := by
          unfold recordState; simp only; exact erase_insert_same _ _ _
        have e2 : (recordState s sc .shutdown).1.scRefs = erase s.scRefs sc := by unfold recordState; rfl
        rw [e1, e2, filter_erase_notReady hnot]
        have : ((s.scStates.filter isRdy).filterMap fun p => lookup (erase s.scRefs sc) p.1) =
            ((s.scStates.filter isRdy).filterMap fun p => lookup s.scRefs p.1) := by
          apply filterMap_lookup_congr
          intro p hp
          have hpm := List.mem_filter.mp hp
          have hne : sc ≠ p.1 := fun he => by
            have := hnot p hpm.1 he.symm
            rw [this] at hpm; exact absurd hpm.2 (by simp)
          exact lookup_erase_ne _ hne
        rw [this]; exact hperm
      · have e1 : (recordState s sc st).1.scStates = insert s.scStates sc st := by
          unfold recordState; cases st <;> first | rfl | exact absurd rfl hsd
        have e2 : (recordState s sc st).1.scRefs = s.scRefs := by
          unfold recordState; cases st <;> first | rfl | exact absurd rfl hsd
        rw [e1, e2, insert_of_mem hk, filter_map_upd_notReady hnot hr']
        exact hperm

theorem rdyStages : Stages fun s s' => (Tables s ∧ Half s) → Rdy s → Rdy s' where
  setAddrs s v := fun _ h => rdy_of_eq h rfl rfl rfl
  setCfg s _ := fun _ h => rdy_of_eq h rfl rfl rfl
  setFail s n := fun _ h => rdy_of_eq h rfl rfl rfl
  setNow s n := fun _ h => rdy_of_eq h rfl rfl rfl
  setRr s := fun _ h => rdy_of_eq h rfl rfl rfl
  setHeld s hl := fun _ h => rdy_of_eq h rfl rfl rfl
  addWaiter s w := fun _ h => rdy_of_eq h rfl rfl rfl
  dropWaiter s id := fun _ h => rdy_of_eq h rfl rfl rfl
  addSubConn s := fun t h => rdy_addSubConn t.1 h
  refresh s slot := fun t h => by
    have tt := tables_refresh t.1 slot
    have ha := sameA_refresh s slot
    have hb := (sameC_refresh s slot).1
    intro l hl
    rw [ha.2.2.2.1] at hl
    have := h l hl
    rw [readySlots_def] at this ⊢
    rw [hb.1]
    have hS : (refresh s slot).1.scStates = s.scStates := by
      unfold refresh
      cases getRef s slot with
      | none => rfl
      | some r =>
        simp only
        split
        · rfl
        · have hf := ccNew_fields (modRef s slot fun r => { r with refreshing := true })
          generalize ccNewSubConn (modRef s slot fun r => { r with refreshing := true }) = rr at hf ⊢
          obtain ⟨s1, o, ev⟩ := rr
          cases o with
          | none => exact hf.2.2.2.2.2.2.1
          | some sc => exact hf.2.2.2.2.2.2.1
    rw [hS]; exact this
  updateAll s scs := fun _ h => rdy_of_same h (updateAll_sameT s scs) (sameA_updateAll s scs)
  place s call slot cmd loc key ctx dl := fun _ h =>
    rdy_of_same h (place_sameT s call slot cmd loc key ctx dl) (sameA_place s call slot cmd loc key ctx dl)
  getReady s c key := fun _ h => rdy_of_same h (getReady_sameT s c key) (sameA_getReady s c key)
  completeCall s call _ := fun _ h => rdy_of_eq h (by unfold completeCall; rfl) (by unfold completeCall; rfl) (by unfold completeCall; rfl)
  detReset s slot := fun _ h => rdy_of_eq h rfl rfl rfl
  deInc s slot := fun _ h => rdy_of_eq h rfl rfl rfl
  bindAll s keys slot r _ := fun _ h => rdy_of_same h (foldl_bind_sameT keys r.subConn s) (sameA_foldl_bind keys r.subConn s)
  unbind s key := fun _ h => by
    have ha : SameA s (unbindSubConn s key) := by
      unfold unbindSubConn
      cases lookup s.affinity key with
      | none => exact SameA.refl s
      | some sc => exact (sameA_bump s sc (-1)).trans ⟨rfl, rfl, rfl, rfl, rfl⟩
    exact rdy_of_same h (unbind_sameT s key) ha
  swap s sc slot hl := fun t h => rdy_swap t.1 t.2 h sc slot hl
  report s sc oldS st order hs := fun t h => rdy_report t.1 h sc oldS st order hs

theorem rdy_init (ci : CfgInput) : Rdy (init ci) := by
  intro l hl; simp [init] at hl

/-- in every reachable state (no assumption on gRPC's reports) -/
theorem rdy_run (ci : CfgInput) (ops : List Op) : Rdy (run (init ci) ops) :=
  (inv_run ((tablesStages.and halfStages).and rdyStages) ci ⟨⟨tables_init ci, half_init ci⟩, rdy_init ci⟩ ops).2

theorem sort_eq_of_perm {a b : List Slot} (h : a.Perm b) : a.mergeSort (· ≤ ·) = b.mergeSort (· ≤ ·) := by
  have tr : ∀ (x y z : Nat), decide (x ≤ y) = true → decide (y ≤ z) = true → decide (x ≤ z) = true := by
    intro x y z h1 h2; simp only [decide_eq_true_eq] at *; omega
  have tot : ∀ (x y : Nat), (decide (x ≤ y) || decide (y ≤ x)) = true := by
    intro x y; simp only [Bool.or_eq_true, decide_eq_true_eq]; omega
  have pa := List.pairwise_mergeSort tr tot a
  have pb := List.pairwise_mergeSort tr tot b
  have hp : (a.mergeSort (· ≤ ·)).Perm (b.mergeSort (· ≤ ·)) := (sort_perm a).trans (h.trans (sort_perm b).symm)
  exact List.Perm.eq_of_pairwise (le := fun x y => decide (x ≤ y) = true)
    (fun x y _ _ h1 h2 => by
      have h1' : x ≤ y := by simpa using h1
      have h2' : y ≤ x := by simpa using h2
      exact Nat.le_antisymm h1' h2') pa pb hp

/-- **C04** after every history the current picker — which is the last one published — lists exactly
    the pool slots whose connection is recorded READY (the monitor clause `picker_ready_list`) -/
theorem picker_ready_list (ci : CfgInput) (ops : List Op) :
    pickerListOk (run (init ci) ops).scStates (run (init ci) ops).scRefs (run (init ci) ops).picker = true := by
  have h := rdy_run ci ops
  generalize run (init ci) ops = s at h
  unfold pickerListOk
  cases hp : s.picker with
  | gcp l =>
    simp only [beq_iff_eq]
    exact sort_eq_of_perm (h l hp)
  | errTF => rfl
  | errNoSc => rfl

/-! ### publish on change -/

theorem opScs_known {s : St} {sc : Sc} {st oldS : CState} (order : List Slot)
    (hl : lookup s.refreshingMap sc = none) (hold : stateOf s sc = some oldS) :
    (opScs s sc st order).1 = (report s sc oldS st order).1 := by
  unfold opScs scsPrologue
  simp only [hl, hold]
  exact opScs_eq_report s sc oldS st order []

theorem opScs_unknown {s : St} {sc : Sc} {st : CState} (order : List Slot)
    (hl : lookup s.refreshingMap sc = none) (hold : stateOf s sc = none) :
    (opScs s sc st order).1 = s := by
  unfold opScs scsPrologue
  simp only [hl, hold]

theorem report_aggr_eq (s : St) (sc : Sc) (oldS st : CState) (order : List Slot) :
    (report s sc oldS st order).1.aggr =
      (recordTransition (cleanFallback (recordState s sc st).1 sc oldS st) oldS st).aggr := by
  unfold report maybePublish
  simp only
  split
  · exact (regenerate_fields _ order).1
  · rfl

theorem report_published (s : St) (sc : Sc) (oldS st : CState) (order : List Slot) :
    (report s sc oldS st order).1.published.length = s.published.length +
      (if ((st == CState.ready) != (oldS == CState.ready)) ||
          (((report s sc oldS st order).1.aggr == CState.tf) != (s.aggr == CState.tf)) then 1 else 0) := by
  rw [report_aggr_eq]
  have hcfa := (cleanFallback_rest (recordState s sc st).1 sc oldS st)
  have hrs := recordState_rest s sc st
  have hrt := recordTransition_rest (cleanFallback (recordState s sc st).1 sc oldS st) oldS st
  have hoa : (cleanFallback (recordState s sc st).1 sc oldS st).aggr = s.aggr := hcfa.1.trans hrs.1
  have hrep : report s sc oldS st order =
      maybePublish (recordTransition (cleanFallback (recordState s sc st).1 sc oldS st) oldS st) oldS st s.aggr order := by
    unfold report; simp only; rw [hoa]
  rw [hrep]
  generalize recordTransition (cleanFallback (recordState s sc st).1 sc oldS st) oldS st = s3 at hrt
  have hpub : s3.published = s.published := hrt.2.trans (hcfa.2.2.1.trans hrs.2.2.1)
  unfold maybePublish
  have hra := (regenerate_fields s3 order)
  by_cases hcond : (((st == CState.ready) != (oldS == CState.ready)) || ((s3.aggr == CState.tf) != (s.aggr == CState.tf))) = true
  · simp only [hcond, ↓reduceIte, List.length_append, List.length_singleton]
    rw [hra.2.2.1, hpub]
  · have hc' : (((st == CState.ready) != (oldS == CState.ready)) || ((s3.aggr == CState.tf) != (s.aggr == CState.tf))) = false := by
      simpa using hcond
    simp only [hc', Bool.false_eq_true, ↓reduceIte, Nat.add_zero]
    exact congrArg List.length hpub

theorem wake_scStates (s : St) : (wakeWaiters s).1.scStates = s.scStates := by
  unfold wakeWaiters
  suffices hs : ∀ (ws : List Waiter) (acc : St × List Event), acc.1.scStates = s.scStates →
      (ws.foldl (fun (acc : St × List Event) w =>
        if slotReady acc.1 w.slot then
          match placeWaiter { acc.1 with waiters := acc.1.waiters.filter fun x => x.id != w.id } w with
          | (s, some sc) => (s, acc.2 ++ [.woke w.id sc])
          | (_, none) => acc
        else acc) acc).1.scStates = s.scStates from hs s.waiters (s, []) rfl
  intro ws
  induction ws with
  | nil => intro acc h; exact h
  | cons w ws ih =>
    intro acc hacc
    simp only [List.foldl_cons]
    apply ih
    split
    · have hp := (place_sameT { acc.1 with waiters := acc.1.waiters.filter fun x => x.id != w.id } w.id w.slot .bind w.loc "" w.ctx w.dl).1
      unfold placeWaiter
      generalize place { acc.1 with waiters := acc.1.waiters.filter fun x => x.id != w.id } w.id w.slot .bind w.loc "" w.ctx w.dl = r at hp ⊢
      obtain ⟨s1, o⟩ := r
      cases o with
      | none => exact hacc
      | some sc => exact hp.trans hacc
    · exact hacc

theorem report_aggr {s : St} (t : Tables s) (sc : Sc) (oldS st : CState) (order : List Slot)
    (hold : stateOf s sc = some oldS) :
    (report s sc oldS st order).1.aggr = aggregate (report s sc oldS st order).1.scStates := by
  have t3 := tables_report t sc oldS st hold
  have hag := recordTransition_aggr (cleanFallback (recordState s sc st).1 sc oldS st) oldS st
  unfold report
  simp only
  generalize recordTransition (cleanFallback (recordState s sc st).1 sc oldS st) oldS st = s3 at t3 hag
  generalize (cleanFallback (recordState s sc st).1 sc oldS st).aggr = oa
  have h3 : s3.aggr = aggregate s3.scStates := by rw [hag, aggregate_of_counters t3]
  unfold maybePublish
  split
  · have hr := regenerate_fields s3 order
    show (regeneratePicker s3 order).aggr = aggregate (regeneratePicker s3 order).scStates
    rw [hr.1, hr.2.1]; exact h3
  · exact h3

/-- **C04** a state report for a pool connection publishes a new state/picker pair exactly when it
    changes that connection's READY-ness or moves the pool's aggregate to or from TRANSIENT_FAILURE
    (once anything has been published) — in every reachable state -/
theorem publish_on_change (ci : CfgInput) (ops : List Op) (sc : Sc) (st oldS : CState) (order : List Slot)
    (hl : lookup (run (init ci) ops).refreshingMap sc = none)
    (hold : stateOf (run (init ci) ops) sc = some oldS)
    (hpub : (run (init ci) ops).published ≠ []) :
    (step (run (init ci) ops) (.scs sc st order)).1.published.length = (run (init ci) ops).published.length +
      (if ((st == CState.ready) != (oldS == CState.ready)) ||
          ((aggregate (step (run (init ci) ops) (.scs sc st order)).1.scStates == CState.tf) !=
           (aggregate (run (init ci) ops).scStates == CState.tf)) then 1 else 0) := by
  have t := tables_run ci ops
  have hp := pub_run ci ops
  generalize run (init ci) ops = s at t hp hl hold hpub
  have hagg : s.aggr = aggregate s.scStates := by
    cases hq : s.published.getLast? with
    | none => exact absurd (List.getLast?_eq_none_iff.mp hq) hpub
    | some q =>
      rcases hp.aggrOk with h' | h'
      · exact absurd h' (hp.last q hq).2.2
      · exact h'
  have hstep : (step s (.scs sc st order)).1.published = (report s sc oldS st order).1.published ∧
      (step s (.scs sc st order)).1.scStates = (report s sc oldS st order).1.scStates := by
    unfold step
    simp only [stepCore]
    have hk := opScs_known (st := st) order hl hold
    generalize opScs s sc st order = r at hk
    obtain ⟨s1, ev⟩ := r
    simp only at hk ⊢
    subst hk
    have ha := sameA_wake (report s sc oldS st order).1
    have ht := tables_wake (report_tables t sc oldS st order hold)
    exact ⟨ha.2.2.2.2, wake_scStates _⟩
  rw [hstep.1, hstep.2, report_published, report_aggr t sc oldS st order hold, hagg]

/-- a report for a connection the balancer does not know publishes nothing and changes nothing -/
theorem unknown_connection_ignored (s : St) (sc : Sc) (st : CState) (order : List Slot)
    (hl : lookup s.refreshingMap sc = none) (hold : stateOf s sc = none) :
    (stepCore s (.scs sc st order)).1 = s := opScs_unknown order hl hold

/-- the premises of `publish_on_change` are met by real histories: the only connection leaving READY
    publishes (READY-ness changed), a repeated READY report does not -/
example :
    lookup (run (init .absent) [.ccs 1, .scs 0 .connecting [], .scs 0 .ready [0]]).refreshingMap 0 = none ∧
    stateOf (run (init .absent) [.ccs 1, .scs 0 .connecting [], .scs 0 .ready [0]]) 0 = some .ready ∧
    (run (init .absent) [.ccs 1, .scs 0 .connecting [], .scs 0 .ready [0]]).published.length = 1 ∧
    (step (run (init .absent) [.ccs 1, .scs 0 .connecting [], .scs 0 .ready [0]]) (.scs 0 .tf [])).1.published.length = 2 ∧
    (step (run (init .absent) [.ccs 1, .scs 0 .connecting [], .scs 0 .ready [0]]) (.scs 0 .ready [0])).1.published.length = 1 := by
  decide +kernel

end GcpVerif.Pool
