/-
C19 — theorems about the checksum codec model.
The tag bytes are *computed* from the constants regenerated from e2e-checksum/main.go
(Generated/Consts.lean); change a constant in the Go file and `tag_bytes` no longer checks.
-/
import GcpVerif.Model.Checksum
import GcpVerif.Generated.Consts
namespace GcpVerif.Checksum

def field : Nat := GcpVerif.Generated.checksumField.toNat
def wire : Nat := GcpVerif.Generated.checksumWireType.toNat

/-- tie: the generated constants are the ones the property names (field 2047, 32-bit wire type) -/
theorem consts_tie : GcpVerif.Generated.checksumField = 2047 ∧ GcpVerif.Generated.checksumWireType = 5 := by
  decide

/-- the checksum tag is the two bytes FD 7F -/
theorem tag_bytes : varint (tagOf field wire) = [0xFD, 0x7F] := by
  have : tagOf field wire = 16381 := by decide
  rw [this]
  rw [varint]; simp
  rw [varint]; simp

theorem fixed32le_length (n : Nat) : (fixed32le n).length = 4 := rfl

/-- C19: Marshal output = FD 7F, CRC32C(payload) little endian, then the payload unchanged -/
theorem marshal_bytes (b : Bytes) :
    marshal field wire (some b) = some ([0xFD, 0x7F] ++ fixed32le (crc32c b).toNat ++ b) := by
  simp [marshal, tag_bytes]

/-- exactly 6 bytes are prepended -/
theorem marshal_length (b out : Bytes) (h : marshal field wire (some b) = some out) :
    out.length = 6 + b.length := by
  rw [marshal_bytes] at h
  cases h
  simp [fixed32le_length]; omega

/-- the payload is a suffix of the output, untouched -/
theorem marshal_payload_suffix (b out : Bytes) (h : marshal field wire (some b) = some out) :
    out.drop 6 = b := by
  rw [marshal_bytes] at h
  cases h
  simp [fixed32le]

/-- a marshalling error of the wrapped codec is passed through -/
theorem marshal_error_passthrough : marshal field wire none = none := rfl

/-- any conforming parser that accepts the payload (with `n` fields' worth of fuel) accepts the
    output and sees one extra leading field: number 2047, fixed32, value = CRC32C of the payload -/
theorem parse_marshal (n : Nat) (b out : Bytes) (h : marshal field wire (some b) = some out) :
    parseN (n + 1) out =
      (parseN n b).map fun fs => { num := 2047, payload := .fixed32 (fixed32le (crc32c b).toNat) } :: fs := by
  rw [marshal_bytes] at h
  cases h
  simp only [fixed32le, List.cons_append, List.nil_append]
  rw [parseN]
  · have hne : ¬ (List.length b + 1 + 1 + 1 + 1 < 4) := by omega
    simp [readVarint, takeN, hne]
  · intro h; cases h

/-- the unmarshal side is the wrapped codec unchanged -/
def unmarshal (inner : Bytes → Option α) (data : Bytes) : Option α := inner data

theorem unmarshal_is_inner (inner : Bytes → Option α) (d : Bytes) : unmarshal inner d = inner d := rfl

/-! ### what a receiver that knows the message type sees

A parser with a schema sorts the wire fields into those the message type declares (they become the
message's data) and the rest (kept aside as unknown fields). -/

/-- (declared fields, unknown fields), each in wire order -/
def sortFields (declared : Nat → Bool) (fs : List WField) : List WField × List WField :=
  (fs.filter fun f => declared f.num, fs.filter fun f => !declared f.num)

/-- **C19** for a message type that does not declare field 2047, decoding the output gives exactly the
    declared data of the original; the checksum is one more unknown field, in front of the original's -/
theorem decode_marshal (declared : Nat → Bool) (hd : declared 2047 = false) (n : Nat) (b out : Bytes) (fs : List WField)
    (h : marshal field wire (some b) = some out) (hp : parseN n b = some fs) :
    ∃ fs', parseN (n + 1) out = some fs' ∧
      (sortFields declared fs').1 = (sortFields declared fs).1 ∧
      (sortFields declared fs').2 =
        { num := 2047, payload := .fixed32 (fixed32le (crc32c b).toNat) } :: (sortFields declared fs).2 := by
  refine ⟨_, by rw [parse_marshal n b out h, hp]; rfl, ?_, ?_⟩ <;> simp [sortFields, hd]

/-- **K8** (the property fails, in the model as in the code) for a message type that *declares* field
    2047 the checksum lands among the declared data: the decoded message has one more declared field
    value than the original, whatever the original was -/
theorem declared_2047_corrupts (declared : Nat → Bool) (hd : declared 2047 = true) (n : Nat) (b out : Bytes) (fs : List WField)
    (h : marshal field wire (some b) = some out) (hp : parseN n b = some fs) :
    ∃ fs', parseN (n + 1) out = some fs' ∧
      (sortFields declared fs').1 =
        { num := 2047, payload := .fixed32 (fixed32le (crc32c b).toNat) } :: (sortFields declared fs).1 ∧
      (sortFields declared fs').1 ≠ (sortFields declared fs).1 := by
  have e : (sortFields declared ({ num := 2047, payload := .fixed32 (fixed32le (crc32c b).toNat) } :: fs)).1 =
      { num := 2047, payload := .fixed32 (fixed32le (crc32c b).toNat) } :: (sortFields declared fs).1 := by
    simp [sortFields, hd]
  refine ⟨_, by rw [parse_marshal n b out h, hp]; rfl, e, ?_⟩
  rw [e]
  intro hc
  have := congrArg List.length hc
  simp at this

/-- test: `Rec{name:"x"}` with `fixed32 version = 2047` declared: the decoded declared data has a `version` -/
example : (sortFields (fun k => k == 1 || k == 2047)
    [⟨2047, .fixed32 [1, 2, 3, 4]⟩, ⟨1, .lenDelim [0x78]⟩]).1 = [⟨2047, .fixed32 [1, 2, 3, 4]⟩, ⟨1, .lenDelim [0x78]⟩] := by decide

/-! ### varint round trip (the encoder and the parser's reader agree) -/

theorem readVarint_varint (n : Nat) (rest : Bytes) (fuel : Nat) (hf : n < 128 ^ (fuel + 1)) :
    readVarint (fuel + 1) (varint n ++ rest) = some (n, rest) := by
  induction fuel generalizing n with
  | zero =>
    have h : n < 128 := by simpa using hf
    rw [varint]
    simp only [h, ↓reduceDIte, List.cons_append, List.nil_append, readVarint]
    have : n.toUInt8 < 128 := by
      rw [UInt8.lt_iff_toNat_lt]; simp; omega
    simp only [this, ↓reduceIte]
    congr 2
    simp; omega
  | succ fuel ih =>
    rw [varint]
    by_cases h : n < 128
    · simp only [h, ↓reduceDIte, List.cons_append, List.nil_append, readVarint]
      have : n.toUInt8 < 128 := by
        rw [UInt8.lt_iff_toNat_lt]; simp; omega
      simp only [this, ↓reduceIte]
      congr 2
      simp; omega
    · simp only [h, ↓reduceDIte, List.cons_append]
      rw [readVarint]
      have hb : ¬ (n % 128 + 128).toUInt8 < 128 := by
        rw [UInt8.lt_iff_toNat_lt]; simp; omega
      simp only [hb, ↓reduceIte]
      have hlt : n / 128 < 128 ^ (fuel + 1) := by
        rw [Nat.pow_succ] at hf
        exact Nat.div_lt_of_lt_mul (by omega)
      rw [ih _ hlt]
      simp only [Option.some.injEq, Prod.mk.injEq, and_true]
      have : (n % 128 + 128).toUInt8.toNat = n % 128 + 128 := by simp; omega
      rw [this]; omega

/-! ### non-vacuity and standard vectors (tests, labelled as such) -/

/-- test: the CRC-32C check value of "123456789" is 0xE3069283 -/
example : crc32c [0x31, 0x32, 0x33, 0x34, 0x35, 0x36, 0x37, 0x38, 0x39] = 0xE3069283 := by decide +kernel

/-- test: a two-field message parses, and so does its checksummed form -/
example : parseN 3 ([0x08, 0x96, 0x01, 0x12, 0x02, 0x68, 0x69] : Bytes) =
    some [⟨1, .varint 150⟩, ⟨2, .lenDelim [0x68, 0x69]⟩] := by decide

end GcpVerif.Checksum
