/-
C06 — `enforceMinSize` against an arbitrary connection factory.

The pool model's factory fails for the next N creations or not at all.  Here the factory is any function
`f : Nat → Bool` (the i-th call of `NewSubConn` during this loop succeeds iff `f i`): a ClientConn that
starts to fail in the middle of the loop, fails every other time, …  The loop of the Go code,

    for len(gb.scRefs) < min { if !gb.addSubConn() { break } }

(shape checked per run: `enforce_loop_shape`) is `loop`; `loop_done`: for every factory it stops after at
most `min - len` calls, with the pool at its minimum size or at the first failed creation — never above
`min`.  `loopKeepGoing` is the variant that stops at a failure only while the pool is still empty (seeded
change R10-C06-m2): against the factory that works once and then fails it makes as many calls as it is
given fuel for (`keepGoing_spins`).
-/
import GcpVerif.Generated.Consts
namespace GcpVerif.Enforce

/-- (pool size, factory calls made) after the loop; `fuel` bounds the number of iterations -/
def loop (min : Nat) (f : Nat → Bool) : (fuel len calls : Nat) → Nat × Nat
  | 0, len, calls => (len, calls)
  | fuel + 1, len, calls =>
    if len < min then
      if f calls then loop min f fuel (len + 1) (calls + 1) else (len, calls + 1)
    else (len, calls)

/-- the loop has come to rest: the guard is false or the last creation failed -/
def Rest (min : Nat) (f : Nat → Bool) (len calls : Nat) : Prop :=
  min ≤ len ∨ (0 < calls ∧ f (calls - 1) = false)

/-- **every factory**: `min - len` iterations are enough; the loop makes at most that many calls, ends at
    rest, and never takes the pool above `min` (or above where it was) -/
theorem loop_done (min : Nat) (f : Nat → Bool) (fuel len calls : Nat) (hf : min - len ≤ fuel) :
    Rest min f (loop min f fuel len calls).1 (loop min f fuel len calls).2 ∧
    (loop min f fuel len calls).2 ≤ calls + (min - len) ∧
    len ≤ (loop min f fuel len calls).1 ∧ (loop min f fuel len calls).1 ≤ max len min := by
  induction fuel generalizing len calls with
  | zero =>
    simp only [loop]
    exact ⟨Or.inl (by omega), by omega, Nat.le_refl _, by omega⟩
  | succ n ih =>
    simp only [loop]
    by_cases hl : len < min
    · simp only [hl, ↓reduceIte]
      by_cases hc : f calls = true
      · simp only [hc, ↓reduceIte]
        obtain ⟨h1, h2, h3, h4⟩ := ih (len + 1) (calls + 1) (by omega)
        exact ⟨h1, by omega, by omega, by omega⟩
      · have hc' : f calls = false := by simpa using hc
        simp only [hc', Bool.false_eq_true, ↓reduceIte]
        exact ⟨Or.inr ⟨by omega, by simpa using hc'⟩, by omega, Nat.le_refl _, by omega⟩
    · simp only [hl, ↓reduceIte]
      exact ⟨Or.inl (by omega), by omega, Nat.le_refl _, by omega⟩

/-- more fuel changes nothing once there is enough: the Go loop (no fuel) is this function -/
theorem loop_fuel (min : Nat) (f : Nat → Bool) (fuel len calls : Nat) (hf : min - len ≤ fuel) :
    loop min f (fuel + 1) len calls = loop min f fuel len calls := by
  induction fuel generalizing len calls with
  | zero =>
    have : ¬ len < min := by omega
    simp [loop, this]
  | succ n ih =>
    rw [loop]
    conv => rhs; rw [loop]
    by_cases hl : len < min
    · simp only [hl, ↓reduceIte]
      by_cases hc : f calls = true
      · simp only [hc, ↓reduceIte]
        exact ih (len + 1) (calls + 1) (by omega)
      · have hc' : f calls = false := by simpa using hc
        simp [hc']
    · simp [hl]

/-- the variant that leaves the loop at a failure only while the pool is empty -/
def loopKeepGoing (min : Nat) (f : Nat → Bool) : (fuel len calls : Nat) → Nat × Nat
  | 0, len, calls => (len, calls)
  | fuel + 1, len, calls =>
    if len < min then
      if f calls then loopKeepGoing min f fuel (len + 1) (calls + 1)
      else if len = 0 then (len, calls + 1)
      else loopKeepGoing min f fuel len (calls + 1)
    else (len, calls)

/-- a ClientConn that creates one connection and then fails -/
def onceThenFail : Nat → Bool := fun i => i == 0

/-- **it spins**: with minimum size 2 and that factory, after the first creation every further iteration
    is a failed call that changes nothing — whatever fuel it is given, it uses all of it -/
theorem keepGoing_spins (n calls : Nat) (hc : 0 < calls) :
    loopKeepGoing 2 onceThenFail n 1 calls = (1, calls + n) := by
  induction n generalizing calls with
  | zero => rfl
  | succ k ih =>
    have hf : onceThenFail calls = false := by
      unfold onceThenFail; simp; omega
    rw [loopKeepGoing]
    simp only [show (1 : Nat) < 2 by omega, ↓reduceIte, hf, Bool.false_eq_true, show ¬ ((1 : Nat) = 0) by omega]
    rw [ih (calls + 1) (by omega)]
    congr 1; omega

/-- … while the loop of the code stops after two calls with one connection -/
example : loop 2 onceThenFail 2 0 0 = (1, 2) := by decide

/-- non-vacuity of `loop_done`: a factory that fails every other time, minimum size 3 -/
example : loop 3 (fun i => i % 2 == 0) 3 0 0 = (1, 2) := by decide
example : loop 3 (fun _ => true) 3 0 0 = (3, 3) := by decide

/-- **per run**: the loop in the current sources has that shape -/
theorem enforce_loop_shape : GcpVerif.Generated.enforceLoopStopsAtFailure = true := by decide

end GcpVerif.Enforce
