/-
C17 — theorems about the configuration model.
-/
import GcpVerif.Model.Config
import GcpVerif.Generated.Consts
namespace GcpVerif.Config

/-- tie: the defaults regenerated from gcp_balancer.go are the ones the property names -/
theorem defaults_tie :
    GcpVerif.Generated.defaultMinSize = 1 ∧ GcpVerif.Generated.defaultMaxSize = 4 ∧
    GcpVerif.Generated.defaultMaxStreams = 100 := by decide

/-! ### effective configuration -/

/-- C17: the effective pool section differs from the supplied one exactly in minSize / maxSize /
    low-watermark, and only where they were absent or zero -/
theorem effective_defaults (c : ApiConfig) (cp : ChannelPool) (h : c.channelPool = some cp) :
    (effective 1 4 100 (some c)).channelPool = some
      { cp with minSize := if cp.minSize = 0 then 1 else cp.minSize,
                maxSize := if cp.maxSize = 0 then 4 else cp.maxSize,
                wm := if cp.wm = 0 then 100 else cp.wm } := by
  simp [effective, h]

theorem effective_absent_pool (c : ApiConfig) (h : c.channelPool = none) :
    (effective 1 4 100 (some c)).channelPool = some { minSize := 1, maxSize := 4, wm := 100 } := by
  simp [effective, h]

theorem effective_no_config : effective 1 4 100 none = { channelPool := some { minSize := 1, maxSize := 4, wm := 100 }, methods := [] } := by
  simp [effective]

/-- the method entries are kept as they are -/
theorem effective_methods (c : ApiConfig) : (effective 1 4 100 (some c)).methods = c.methods := by
  simp [effective]

/-- nothing else of the pool section changes -/
theorem effective_keeps_rest (c : ApiConfig) (cp : ChannelPool) (h : c.channelPool = some cp) :
    ∃ e, (effective 1 4 100 (some c)).channelPool = some e ∧ e.idleTimeout = cp.idleTimeout ∧
      e.fallback = cp.fallback ∧ e.udMs = cp.udMs ∧ e.uCalls = cp.uCalls ∧ e.strategy = cp.strategy := by
  refine ⟨_, effective_defaults c cp h, ?_⟩
  simp

/-- effective is idempotent (a second initialisation would change nothing) -/
theorem effective_idem (c : ApiConfig) :
    effective 1 4 100 (some (effective 1 4 100 (some c))) = effective 1 4 100 (some c) := by
  simp only [effective, Option.getD_some]
  congr 2
  cases c.channelPool with
  | none => simp
  | some cp =>
    simp only [Option.getD_some]
    by_cases h1 : cp.minSize = 0 <;> by_cases h2 : cp.maxSize = 0 <;> by_cases h3 : cp.wm = 0 <;> simp [h1, h2, h3]

/-! ### method table -/

/-- C17 (sound): whatever a method name maps to is the affinity section of an entry that lists it -/
theorem method_table_sound (ms : List Method) (name : String) (a : Affinity)
    (h : methodTable ms name = some a) : ∃ m ∈ ms, m.affinity = some a ∧ name ∈ m.names := by
  induction ms with
  | nil => simp [methodTable] at h
  | cons m rest ih =>
    simp only [methodTable] at h
    cases hr : methodTable rest name with
    | some a' =>
      rw [hr] at h; simp only [Option.some.injEq] at h; subst h
      obtain ⟨m', hm', hx⟩ := ih hr
      exact ⟨m', List.mem_cons_of_mem _ hm', hx⟩
    | none =>
      rw [hr] at h
      simp only at h
      cases ha : m.affinity with
      | none => rw [ha] at h; cases h
      | some a' =>
        rw [ha] at h
        simp only at h
        by_cases hc : m.names.contains name = true
        · simp only [hc, ↓reduceIte, Option.some.injEq] at h
          subst h
          exact ⟨m, by simp, ha, by simpa using hc⟩
        · simp only [hc, Bool.false_eq_true, ↓reduceIte] at h
          cases h

/-- C17 (complete): a name listed in an entry with an affinity section is mapped to something -/
theorem method_table_complete (ms : List Method) (name : String) (m : Method) (a : Affinity)
    (hm : m ∈ ms) (ha : m.affinity = some a) (hn : name ∈ m.names) :
    ∃ a', methodTable ms name = some a' := by
  induction ms with
  | nil => cases hm
  | cons x rest ih =>
    simp only [methodTable]
    cases hr : methodTable rest name with
    | some a' => exact ⟨a', rfl⟩
    | none =>
      simp only
      simp only [List.mem_cons] at hm
      rcases hm with rfl | hm
      · have : m.names.contains name = true := by simpa using hn
        simp [ha, hn]
      · obtain ⟨a', h⟩ := ih hm
        rw [hr] at h; cases h

/-- C17: a name listed in exactly one entry that has an affinity section maps to that entry's
    command and key path -/
theorem method_table_unique (ms : List Method) (name : String) (m : Method) (a : Affinity)
    (hm : m ∈ ms) (ha : m.affinity = some a) (hn : name ∈ m.names)
    (huniq : ∀ m' ∈ ms, ∀ a', m'.affinity = some a' → name ∈ m'.names → a' = a) :
    methodTable ms name = some a := by
  obtain ⟨a', h⟩ := method_table_complete ms name m a hm ha hn
  obtain ⟨m', hm', ha', hn'⟩ := method_table_sound ms name a' h
  rw [h, huniq m' hm' a' ha' hn']

/-- no other method is mapped: a name that no entry with an affinity section lists is unmapped -/
theorem method_table_none (ms : List Method) (name : String)
    (h : ∀ m ∈ ms, ∀ a, m.affinity = some a → name ∉ m.names) : methodTable ms name = none := by
  cases hr : methodTable ms name with
  | none => rfl
  | some a =>
    obtain ⟨m, hm, ha, hn⟩ := method_table_sound ms name a hr
    exact absurd hn (h m hm a ha)

/-! ### protojson on syntax trees: evaluated examples (tests, labelled as such); the round trip through the
     real parser is checked for every generated configuration by the correspondence run -/

/-- test (by evaluation): a configuration with a pool section, string-encoded uint64, an enum and
    two method entries survives render → parse unchanged -/
example :
    let c : ApiConfig :=
      { channelPool := some { maxSize := 10, wm := 3, fallback := true, strategy := 2 },
        methods := [{ names := ["m1", "m2"], affinity := some { command := 1, key := "k" } }, { names := [], affinity := none }] }
    parse (render c) = some c := by decide

/-- test: unknown fields, duplicate aliases and wrong value shapes are rejected -/
example : parse (.obj [("unknownField", .num 1)]) = none ∧
          parse (.obj [("channelPool", .obj [("maxSize", .num 1), ("max_size", .num 1)])]) = none ∧
          parse (.obj [("channelPool", .obj [("maxSize", .frac)])]) = none ∧
          parse (.obj [("method", .arr [.null])]) = none ∧ parse .null = none := by decide

end GcpVerif.Config
