/-
C15, F34 — a MultiEndpoint that an accepted UpdateMultiEndpoints creates (no recovery timeout, any
switching delay) routes, when the call returns, to the first endpoint of its list whose pool is READY:
the status report tells it about its endpoints in list order (`tellOwn`), so the first available one it
hears of is the best one and no delayed switch is ever needed.
-/
import GcpVerif.Proofs.METell
import GcpVerif.Proofs.GME3
namespace GcpVerif.GME
open GcpVerif

/-- in the list of first occurrences, everything that occurs before the first occurrence of `e` precedes `e` -/
theorem idxOf_eraseDups_lt {done rest : List String} {e y : String} (hy : y ∈ done) (he : e ∉ done) :
    (done ++ e :: rest).eraseDups.idxOf y < (done ++ e :: rest).eraseDups.idxOf e := by
  rw [List.eraseDups_append]
  have hcons : (e :: rest).removeAll done = e :: rest.removeAll done := by
    simp [List.removeAll, List.filter_cons, he]
  rw [hcons, List.eraseDups_cons]
  have hyD : y ∈ done.eraseDups := List.mem_eraseDups.mpr hy
  have heD : e ∉ done.eraseDups := fun h => he (List.mem_eraseDups.mp h)
  rw [List.idxOf_append, List.idxOf_append]
  simp only [hyD, heD, ↓reduceIte, List.idxOf_cons_self, Nat.zero_add]
  exact List.idxOf_lt_length_of_mem hyD

/-- the invariant of telling a fresh MultiEndpoint about the prefix `done` of its list `l` -/
structure Pre (r : String → Bool) (L : List String) (done : List String) (me : ME.St) : Prop where
  reach : ME.Reach me
  told : ME.Told me
  avail : ∀ ep ∈ me.eps, (ep.status = .available ↔ ep.id ∈ done ∧ r ep.id = true)
  prio : ∀ ep ∈ me.eps, L.idxOf ep.id = ep.prio

theorem pre_step {r : String → Bool} {done rest : List String} {e : String} {me : ME.St}
    (h : Pre r (done ++ e :: rest).eraseDups done me) :
    Pre r (done ++ e :: rest).eraseDups (done ++ [e]) (ME.opSetAvail me e (r e)) := by
  have hi := ME.reach_inv h.reach
  cases hf : ME.findEp me.eps e with
  | none =>
    rw [ME.tell_unknown hi h.told e (r e) hf]
    refine ⟨h.reach, h.told, ?_, h.prio⟩
    intro ep hep
    have hne : ep.id ≠ e := ME.findEp_none.mp hf ep hep
    rw [h.avail ep hep]
    simp [hne]
  | some x =>
    obtain ⟨hxm, hxid⟩ := ME.findEp_some hf
    cases hre : r e with
    | false =>
      -- the endpoint cannot be available: it would have been told "available" before
      have hna : ∀ x', ME.findEp me.eps e = some x' → x'.status ≠ .available := by
        intro x' hx' ha
        obtain ⟨hm, hid⟩ := ME.findEp_some hx'
        have := ((h.avail x' hm).mp ha).2
        rw [hid, hre] at this; cases this
      rw [ME.tell_false_noop hi h.told e hna]
      refine ⟨h.reach, h.told, ?_, h.prio⟩
      intro ep hep
      rw [h.avail ep hep]
      constructor
      · intro ⟨h1, h2⟩; exact ⟨List.mem_append_left _ h1, h2⟩
      · intro ⟨h1, h2⟩
        refine ⟨?_, h2⟩
        rcases List.mem_append.mp h1 with h1 | h1
        · exact h1
        · have : ep.id = e := by simpa using h1
          rw [this, hre] at h2; cases h2
    | true =>
      -- no endpoint that is available already is outranked by this one
      have hrank : ∀ t, ME.topAvail me.eps = some t → t.prio ≤ x.prio := by
        intro t ht
        obtain ⟨htm, hta⟩ := ME.topAvail_mem ht
        by_cases hed : e ∈ done
        · -- told before, with the same answer: it is available, and the top one does not rank below it
          have hxa : x.status = .available := (h.avail x hxm).mpr ⟨hxid ▸ hed, by rw [hxid]; exact hre⟩
          exact ME.topAvail_min ht x hxm hxa
        · have htd : t.id ∈ done := ((h.avail t htm).mp hta).1
          have := idxOf_eraseDups_lt (rest := rest) htd hed
          have h1 := h.prio t htm
          have h2 := h.prio x hxm
          rw [hxid] at h2
          omega
      obtain ⟨htold, hstat⟩ := ME.tell_true h.reach h.told e x hf hrank
      refine ⟨ME.Reach.stepRaw (.setAvail e true) h.reach, htold, ?_, ?_⟩
      · intro ep hep
        obtain ⟨z, hz, hzid, _, h1, h2⟩ := hstat ep hep
        by_cases hze : z.id = e
        · rw [h1 hze]
          simp only [true_iff]
          refine ⟨?_, by rw [hzid, hze]; exact hre⟩
          rw [hzid, hze]; simp
        · rw [h2 hze, h.avail z hz, hzid]
          constructor
          · intro ⟨a, b⟩; exact ⟨List.mem_append_left _ a, b⟩
          · intro ⟨a, b⟩
            refine ⟨?_, b⟩
            rcases List.mem_append.mp a with a | a
            · exact a
            · exact absurd (by simpa using a) hze
      · intro ep hep
        obtain ⟨z, hz, hzid, hzp, _, _⟩ := hstat ep hep
        rw [hzid, hzp]; exact h.prio z hz

/-- telling the rest of the list, one endpoint after the other -/
theorem pre_fold {r : String → Bool} : ∀ (rest done : List String) (me : ME.St),
    Pre r (done ++ rest).eraseDups done me → Pre r (done ++ rest).eraseDups (done ++ rest) (tellOwn r rest me) := by
  intro rest
  induction rest with
  | nil => intro done me h; simpa [tellOwn] using h
  | cons e rest ih =>
    intro done me h
    have h1 := pre_step h
    have h2 := ih (done ++ [e]) (ME.opSetAvail me e (r e)) (by simpa [List.append_assoc] using h1)
    simpa [tellOwn, List.append_assoc] using h2

/-- a MultiEndpoint fresh from the constructor (no recovery timeout) -/
theorem pre_init {r : String → Bool} {d : Int} {l : List String} {me0 : ME.St} (h0 : ME.init 0 d l = some me0) :
    Pre r l.eraseDups [] me0 := by
  have hapi : ME.ReachApi me0 l := ME.ReachApi.init h0
  have hreach := hapi.reach
  have hna : ∀ e ∈ me0.eps, e.status ≠ .available := ME.init_not_available h0
  have hr0 : me0.r = 0 := ME.init_r (r := 0) h0
  refine ⟨hreach, ⟨hr0, ?_, ?_⟩, ?_, ?_⟩
  · exact ME.init_r0_not_recovering h0
  · intro t ht
    exact absurd (ME.topAvail_mem ht).2 (hna t (ME.topAvail_mem ht).1)
  · intro ep hep
    constructor
    · intro ha; exact absurd ha (hna ep hep)
    · intro ⟨hm, _⟩; cases hm
  · exact (ME.api_list_and_priorities hapi).2.2

/-- **C15 (F34)** a MultiEndpoint created with the list `l` (no recovery timeout, any switching delay `d`)
    and then told about its endpoints in list order — what an accepted UpdateMultiEndpoints does with a
    new MultiEndpoint — has as its current endpoint the top-priority available one; its endpoints are
    available exactly where the pool is READY; so `Current()` is the first endpoint of the list whose
    pool is READY (no READY endpoint of the list precedes it in the list of first occurrences) -/
theorem new_multiendpoint_routes_to_top_ready {r : String → Bool} {d : Int} {l : List String} {me0 : ME.St}
    (h0 : ME.init 0 d l = some me0) :
    let me := tellOwn r l me0
    (∀ ep ∈ me.eps, (ep.status = .available ↔ r ep.id = true)) ∧
    ∀ t, ME.topAvail me.eps = some t →
      me.current = t.id ∧ r t.id = true ∧
      ∀ e ∈ l, r e = true → l.eraseDups.idxOf t.id ≤ l.eraseDups.idxOf e := by
  have hfold := pre_fold (r := r) l [] me0 (by simpa using pre_init h0)
  simp only [List.nil_append] at hfold
  have hids : ∀ ep ∈ (tellOwn r l me0).eps, ep.id ∈ l := by
    intro ep hep
    obtain ⟨y, hy, hid⟩ := tellOwn_ids r l me0 ep hep
    rw [hid]; exact ME.api_init_ids_sub h0 y hy
  refine ⟨?_, ?_⟩
  · intro ep hep
    rw [hfold.avail ep hep]
    exact ⟨fun h => h.2, fun h => ⟨hids ep hep, h⟩⟩
  · intro t ht
    obtain ⟨htm, hta⟩ := ME.topAvail_mem ht
    refine ⟨hfold.told.top t ht, ((hfold.avail t htm).mp hta).2, ?_⟩
    intro e hel hre
    -- e has an entry, which is available, so t does not rank below it
    have hcov : e ∈ ME.ids (tellOwn r l me0).eps := by
      have h1 := (ME.api_list_and_priorities (ME.ReachApi.init h0)).2.1 e
      have : e ∈ ME.ids me0.eps := h1.mpr hel
      -- identities are kept by the reports
      have hvw : ∀ (l' : List String) (m : ME.St), ME.vw (tellOwn r l' m) = ME.vw m := by
        intro l'
        induction l' with
        | nil => intro m; rfl
        | cons a as ih => intro m; simp only [tellOwn, List.foldl_cons]; exact (ih _).trans (ME.vw_opSetAvail m a (r a))
      rw [ME.ids_eq_vw, hvw l me0, ← ME.ids_eq_vw]; exact this
    obtain ⟨x, hx, hxe⟩ := List.mem_map.mp hcov
    have hxa : x.status = .available := (hfold.avail x hx).mpr ⟨by rw [hxe]; exact hel, by rw [hxe]; exact hre⟩
    have := ME.topAvail_min ht x hx hxa
    rw [← hfold.prio t htm, ← hfold.prio x hx, hxe] at this
    exact this

/-- the MultiEndpoint that an accepted update creates for a new name is the constructor's, told about its
    own endpoints in list order -/
theorem update_creates_told {s : St} (d : String) (o : Opts) (f : List String) (r : String → Bool) (dl : Int)
    (hok : (update s d o f r dl).2 = true) {name : String} {l : List String}
    (hnew : findME s name = none) (hmem : (name, some l) ∈ o) :
    ∃ me0, ME.init 0 dl l = some me0 ∧ (name, tellOwn r l me0) ∈ (update s d o f r dl).1.mes := by
  unfold update at hok ⊢
  by_cases hv : optsValid d o = true
  · simp only [hv, Bool.not_true, Bool.false_eq_true, ↓reduceIte] at hok ⊢
    split at hok
    · cases hok
    · rename_i hdial
      simp only [hdial, Bool.false_eq_true, ↓reduceIte]
      unfold optsValid at hv
      simp only [Bool.and_eq_true, List.all_eq_true] at hv
      have hne := hv.2 (name, some l) hmem
      have hsome := configure_isSome s dl (p := (name, some l)) hne
      have hcfg : configure s dl (name, some l) = (ME.init 0 dl l).map fun me => (name, me) := by
        simp [configure, hnew]
      cases hin : ME.init 0 dl l with
      | none => rw [hcfg, hin] at hsome; cases hsome
      | some me0 =>
        refine ⟨me0, rfl, List.mem_filterMap.mpr ⟨(name, some l), hmem, ?_⟩⟩
        rw [hcfg, hin]
        rfl
  · have : optsValid d o = false := by simpa using hv
    simp only [this, Bool.not_false, ↓reduceIte] at hok
    cases hok

/-- **C15 (F34)** when an accepted UpdateMultiEndpoints returns, a MultiEndpoint it created (a new name;
    any switching delay) routes to the first endpoint of its list whose pool was READY in the status
    report: its current endpoint is available, is the top-priority available one, and no endpoint of the
    list with a READY pool precedes it -/
theorem update_new_multiendpoint_routes_to_top_ready {s : St} (d : String) (o : Opts) (f : List String)
    (r : String → Bool) (dl : Int) (hok : (update s d o f r dl).2 = true) {name : String} {l : List String}
    (hnew : findME s name = none) (hmem : (name, some l) ∈ o) :
    ∃ me, (name, me) ∈ (update s d o f r dl).1.mes ∧
      ∀ t, ME.topAvail me.eps = some t →
        me.current = t.id ∧ r t.id = true ∧ ∀ e ∈ l, r e = true → l.eraseDups.idxOf t.id ≤ l.eraseDups.idxOf e := by
  obtain ⟨me0, h0, hm⟩ := update_creates_told d o f r dl hok hnew hmem
  exact ⟨_, hm, (new_multiendpoint_routes_to_top_ready (r := r) h0).2⟩

-- premises satisfiable and the rule visible: three READY pools, a new MultiEndpoint [b, c, a] with a switching delay
example : ∃ me0, ME.init 0 3600 ["b", "c", "a"] = some me0 ∧ (tellOwn (fun _ => true) ["b", "c", "a"] me0).current = "b" :=
  ⟨_, rfl, by decide⟩

-- … and with the first pool down: the second endpoint of the list
example : ∃ me0, ME.init 0 3600 ["b", "c", "a"] = some me0 ∧ (tellOwn (fun e => e != "b") ["b", "c", "a"] me0).current = "c" :=
  ⟨_, rfl, by decide⟩

end GcpVerif.GME
