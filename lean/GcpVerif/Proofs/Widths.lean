/-
C17 / C03 — the stream low watermark (uint32) against the stream counters (int32).

`widened_compare`: for every non-negative 32-bit counter and every 32-bit watermark, comparing the two
after widening both to 64 bits (the counter sign-extended, the watermark zero-extended — Go's
`int64(int32)` and `int64(uint32)`) is comparing their values: the effective watermark is the
configured one over the whole uint32 range.  `narrowed_compare_wrong`: converting the watermark to
int32 instead (same bits) is not — an idle channel (0 calls) is "saturated" for a watermark of 2^31
(seeded change R10-C17-m1; the repair 27c45c5 before it).  `watermark_reads_widened` is the per-run
obligation on the regenerated facts: every read of the watermark that is not the `== 0` test of the
defaulting code is the sole argument of an `int64(…)` conversion.
-/
import GcpVerif.Generated.Consts
namespace GcpVerif.Widths

theorem widened_compare (cnt w : BitVec 32) (hc : 0 ≤ cnt.toInt) :
    (cnt.signExtend 64).slt (w.zeroExtend 64) = decide (cnt.toNat < w.toNat) := by
  have h1 : (cnt.signExtend 64).toInt = cnt.toInt := BitVec.toInt_signExtend_of_le (by omega)
  have h2 : (w.zeroExtend 64).toInt = w.toNat := by
    rw [BitVec.toInt_eq_toNat_cond]
    simp only [BitVec.toNat_setWidth, BitVec.zeroExtend]
    have := w.isLt
    omega
  have h3 : cnt.toInt = cnt.toNat := by
    rw [BitVec.toInt_eq_toNat_cond] at hc ⊢
    have := cnt.isLt
    split at hc <;> split <;> omega
  simp only [BitVec.slt, h1, h2, h3]
  congr 1
  exact propext ⟨fun h => by omega, fun h => by omega⟩

theorem narrowed_compare_wrong : ∃ cnt w : BitVec 32, 0 ≤ cnt.toInt ∧ cnt.toNat < w.toNat ∧ cnt.slt w = false :=
  ⟨0#32, 2147483648#32, by decide, by decide, by decide⟩

/-- non-vacuity: a counter of 5 against the largest watermark -/
example : ((5#32).signExtend 64).slt ((4294967295#32).zeroExtend 64) = true := by decide

/-- **per run** -/
theorem watermark_reads_widened :
    GcpVerif.Generated.watermarkOtherReads = 0 ∧ 2 ≤ GcpVerif.Generated.watermarkReadsWidened ∧
    1 ≤ GcpVerif.Generated.watermarkZeroTests := by decide

end GcpVerif.Widths
