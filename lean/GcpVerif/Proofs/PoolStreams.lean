/-
C02.1 — stream accounting, for every reachable state of the pool model:
each slot's `streamsCnt` is exactly the number of calls placed on it whose completion has not run.
-/
import GcpVerif.Proofs.PoolLocal
import GcpVerif.Proofs.PoolHold
namespace GcpVerif.Pool

def streamsVec (s : St) : List Int := s.refs.map (·.streamsCnt)

def inflight (s : St) (i : Slot) : Nat := (s.calls.filter fun c => c.slot == i).length

def allIds (s : St) : List Nat := s.calls.map (·.id) ++ s.waiters.map (·.id)

/-- `s'` has the same calls and waiters as `s`, and the same stream counters, possibly extended by
    fresh slots that carry no stream -/
def Ext (s s' : St) : Prop :=
  s'.calls = s.calls ∧ s'.waiters = s.waiters ∧ ∃ k, streamsVec s' = streamsVec s ++ List.replicate k 0

theorem Ext.refl (s : St) : Ext s s := ⟨rfl, rfl, 0, by simp⟩

theorem Ext.trans {a b c : St} (h1 : Ext a b) (h2 : Ext b c) : Ext a c := by
  obtain ⟨hc1, hw1, k1, hk1⟩ := h1
  obtain ⟨hc2, hw2, k2, hk2⟩ := h2
  refine ⟨hc2.trans hc1, hw2.trans hw1, k1 + k2, ?_⟩
  rw [hk2, hk1, List.append_assoc, List.replicate_append_replicate]

/-- any update that leaves `refs`, `calls` and `waiters` alone -/
theorem Ext.of_eq {s s' : St} (hr : s'.refs = s.refs) (hc : s'.calls = s.calls) (hw : s'.waiters = s.waiters) :
    Ext s s' := ⟨hc, hw, 0, by simp [streamsVec, hr]⟩

theorem streamsVec_modRef (s : St) (slot : Slot) (f : RefSt → RefSt)
    (hf : ∀ r, (f r).streamsCnt = r.streamsCnt) : streamsVec (modRef s slot f) = streamsVec s := by
  simp only [streamsVec, modRef]
  apply List.ext_getElem?
  intro i
  simp only [List.getElem?_map, List.getElem?_modify]
  cases h : s.refs[i]? with
  | none => simp
  | some r =>
    simp only [Option.map_some]
    by_cases hi : slot = i
    · simp [hi, hf]
    · simp [hi]

theorem Ext.modRef (s : St) (slot : Slot) (f : RefSt → RefSt)
    (hf : ∀ r, (f r).streamsCnt = r.streamsCnt) : Ext s (modRef s slot f) :=
  ⟨rfl, rfl, 0, by simp [streamsVec_modRef s slot f hf]⟩

/-! ### the primitives -/

theorem ccNewSubConn_ext (s : St) : Ext s (ccNewSubConn s).1 := by
  unfold ccNewSubConn
  split
  · exact Ext.refl s
  · split
    · exact Ext.of_eq rfl rfl rfl
    · exact Ext.of_eq rfl rfl rfl

theorem addSubConn_ext (s : St) : Ext s (addSubConn s).1 := by
  unfold addSubConn
  have h := ccNewSubConn_ext s
  cases hcc : ccNewSubConn s with
  | mk s1 rest =>
    cases rest with
    | mk o ev =>
      rw [hcc] at h
      cases o with
      | none => exact h
      | some sc =>
        simp only
        obtain ⟨hc, hw, k, hk⟩ := h
        refine ⟨hc, hw, k + 1, ?_⟩
        simp only [streamsVec, List.map_append, List.map_cons, List.map_nil] at hk ⊢
        rw [hk, List.append_assoc]
        congr 1
        rw [List.replicate_succ']

theorem newSubConn_ext (s : St) : Ext s (newSubConn s).1 := by
  unfold newSubConn
  split
  · exact Ext.refl s
  · exact addSubConn_ext s

theorem enforceMinSize_ext (s : St) (min fuel : Nat) : Ext s (enforceMinSize s min fuel).1 := by
  induction fuel generalizing s with
  | zero => exact Ext.refl s
  | succ fuel ih =>
    unfold enforceMinSize
    split
    · have h := addSubConn_ext s
      cases ha : addSubConn s with
      | mk s1 rest =>
        cases rest with
        | mk ok ev =>
          rw [ha] at h
          cases ok with
          | true => simp only; exact h.trans (ih s1)
          | false => exact h
    · exact Ext.refl s

theorem refresh_ext (s : St) (slot : Slot) : Ext s (refresh s slot).1 := by
  unfold refresh
  cases getRef s slot with
  | none => exact Ext.refl s
  | some r =>
    simp only
    split
    · exact Ext.refl s
    · have h1 := Ext.modRef s slot (fun r => { r with refreshing := true }) (fun _ => rfl)
      have h2 := ccNewSubConn_ext (modRef s slot fun r => { r with refreshing := true })
      cases hcc : ccNewSubConn (modRef s slot fun r => { r with refreshing := true }) with
      | mk s1 rest =>
        cases rest with
        | mk o ev =>
          rw [hcc] at h2
          cases o with
          | none =>
            simp only
            exact (h1.trans h2).trans (Ext.modRef s1 slot _ (fun _ => rfl))
          | some sc =>
            simp only
            exact (h1.trans h2).trans (Ext.of_eq rfl rfl rfl)

theorem updateAll_ext (s : St) (scs : List Sc) : Ext s (updateAll s scs).1 := by
  unfold updateAll
  suffices h : ∀ (acc : St × List Event), Ext s acc.1 →
      Ext s (scs.foldl (fun (acc : St × List Event) sc =>
        ({ acc.1 with scAddrs := insert acc.1.scAddrs sc acc.1.addrs }, acc.2 ++ [.upd sc acc.1.addrs, .connect sc])) acc).1 from
    h (s, []) (Ext.refl s)
  induction scs with
  | nil => intro acc h; exact h
  | cons x xs ih =>
    intro acc h
    simp only [List.foldl_cons]
    apply ih
    exact h.trans (Ext.of_eq rfl rfl rfl)

theorem ccsConfigure_ext (s : St) : Ext s (ccsConfigure s).1 := by
  unfold ccsConfigure
  cases s.cfg with
  | some c => exact Ext.refl s
  | none => exact (Ext.of_eq rfl rfl rfl).trans (enforceMinSize_ext _ _ _)

theorem opCcs_ext (s : St) (ver : Nat) : Ext s (opCcs s ver).1 := by
  unfold opCcs
  have h0 : Ext s { s with addrs := ver } := Ext.of_eq rfl rfl rfl
  have h1 := ccsConfigure_ext { s with addrs := ver }
  generalize ccsConfigure { s with addrs := ver } = r1 at h1 ⊢
  obtain ⟨s1, ev0⟩ := r1
  simp only at h1 ⊢
  have h2 := updateAll_ext s1 (ccsTargets s1)
  generalize updateAll s1 (ccsTargets s1) = r2 at h2 ⊢
  obtain ⟨s2, ev1⟩ := r2
  simp only at h2 ⊢
  split
  · exact ((h0.trans h1).trans h2).trans (enforceMinSize_ext s2 _ _)
  · exact (h0.trans h1).trans h2

theorem updCounter_ext (s : St) (st : CState) (f : Nat → Nat) : Ext s (updCounter s st f) := by
  unfold updCounter
  cases st <;> exact Ext.of_eq rfl rfl rfl

theorem recordTransition_ext (s : St) (a b : CState) : Ext s (recordTransition s a b) := by
  unfold recordTransition
  exact ((updCounter_ext s a dec64).trans (updCounter_ext _ b inc64)).trans (Ext.of_eq rfl rfl rfl)

theorem regeneratePicker_ext (s : St) (o : List Slot) : Ext s (regeneratePicker s o) := by
  unfold regeneratePicker
  split <;> exact Ext.of_eq rfl rfl rfl

theorem swap_ext (s : St) (sc : Sc) (slot : Slot) : Ext s (swap s sc slot).1 := by
  unfold swap
  cases getRef s slot with
  | none => exact Ext.refl s
  | some r =>
    simp only
    refine ⟨rfl, rfl, 0, ?_⟩
    simp only [List.replicate_zero, List.append_nil]
    exact streamsVec_modRef _ slot _ (fun _ => rfl)

theorem recordState_ext (s : St) (sc : Sc) (st : CState) : Ext s (recordState s sc st).1 := by
  unfold recordState
  cases st <;> exact Ext.of_eq rfl rfl rfl

theorem cleanFallback_ext (s : St) (sc : Sc) (a b : CState) : Ext s (cleanFallback s sc a b) := by
  unfold cleanFallback
  apply Ext.of_eq <;> (simp only; split <;> split <;> rfl)

theorem maybePublish_ext (s : St) (a b c : CState) (o : List Slot) : Ext s (maybePublish s a b c o).1 := by
  unfold maybePublish
  split
  · exact (regeneratePicker_ext s o).trans (Ext.of_eq rfl rfl rfl)
  · exact Ext.refl s

theorem opScs_ext (s : St) (sc : Sc) (st : CState) (order : List Slot) : Ext s (opScs s sc st order).1 := by
  unfold opScs
  have hpre : ∀ p, scsPrologue s sc st = some p → Ext s p.1 := by
    intro p hp
    unfold scsPrologue at hp
    cases hl : lookup s.refreshingMap sc with
    | none => simp [hl] at hp; subst hp; exact Ext.refl s
    | some slot =>
      simp only [hl] at hp
      split at hp
      · cases hp
      · cases hp; exact swap_ext s sc slot
  cases hp : scsPrologue s sc st with
  | none => exact Ext.refl s
  | some p =>
    obtain ⟨s1, ev0⟩ := p
    have h1 : Ext s s1 := hpre (s1, ev0) hp
    simp only
    cases stateOf s1 sc with
    | none => exact h1
    | some oldS =>
      simp only
      have h2 := recordState_ext s1 sc st
      generalize recordState s1 sc st = r2 at h2 ⊢
      obtain ⟨s2, ev1⟩ := r2
      simp only at h2 ⊢
      have h3 := cleanFallback_ext s2 sc oldS st
      have h4 := recordTransition_ext (cleanFallback s2 sc oldS st) oldS st
      have h5 := maybePublish_ext (recordTransition (cleanFallback s2 sc oldS st) oldS st) oldS st
                  (cleanFallback s2 sc oldS st).aggr order
      exact (((h1.trans h2).trans h3).trans h4).trans h5

/-! ### the invariant -/

structure StreamsInv (s : St) : Prop where
  exact : ∀ i (hi : i < s.refs.length), (streamsVec s)[i]? = some ((inflight s i : Nat) : Int)
  slotsOk : ∀ c ∈ s.calls, c.slot < s.refs.length
  ids : (allIds s).Nodup

theorem streamsVec_length (s : St) : (streamsVec s).length = s.refs.length := by simp [streamsVec]

theorem inv_of_ext {s s' : St} (h : StreamsInv s) (he : Ext s s') : StreamsInv s' := by
  obtain ⟨hc, hw, k, hk⟩ := he
  have hlen : s'.refs.length = s.refs.length + k := by
    have := congrArg List.length hk
    simpa [streamsVec_length] using this
  constructor
  · intro i hi
    have hin : inflight s' i = inflight s i := by simp [inflight, hc]
    rw [hk, hin]
    by_cases hlt : i < s.refs.length
    · rw [List.getElem?_append_left (by simpa [streamsVec_length] using hlt)]
      exact h.exact i hlt
    · rw [List.getElem?_append_right (by simpa [streamsVec_length] using Nat.le_of_not_lt hlt)]
      have hz : inflight s i = 0 := by
        simp only [inflight, List.length_eq_zero_iff, List.filter_eq_nil_iff]
        intro c hcm hbeq
        have h1 : c.slot < s.refs.length := h.slotsOk c hcm
        have h2 : c.slot = i := by simpa using hbeq
        rw [h2] at h1
        exact hlt h1
      rw [hz]
      simp only [streamsVec_length, List.getElem?_replicate]
      have : i - s.refs.length < k := by omega
      simp [this]
  · intro c hcm
    rw [hc] at hcm
    exact Nat.lt_of_lt_of_le (h.slotsOk c hcm) (by omega)
  · simpa [allIds, hc, hw] using h.ids

/-! ### placing a call -/

theorem inflight_append (s : St) (c : Call) (i : Slot) :
    ((s.calls ++ [c]).filter fun x => x.slot == i).length = inflight s i + (if c.slot = i then 1 else 0) := by
  simp only [inflight, List.filter_append, List.length_append, List.filter_cons, List.filter_nil]
  by_cases h : c.slot = i
  · simp [h]
  · have : (c.slot == i) = false := by simpa using h
    simp [h, this]

theorem place_inv {s : St} (h : StreamsInv s) (call : Nat) (slot : Slot) (cmd : Cmd) (loc : Loc)
    (key : String) (ctx : CtxKind) (dl : Option Int) (hid : call ∉ allIds s) :
    StreamsInv (place s call slot cmd loc key ctx dl).1 := by
  unfold place
  cases hg : getRef s slot with
  | none => exact h
  | some r =>
    simp only
    have hslot : slot < s.refs.length := by
      unfold getRef at hg
      exact (List.getElem?_eq_some_iff.mp hg).1
    constructor
    · intro i hi
      have hi' : i < s.refs.length := by simpa [modRef] using hi
      have hold := h.exact i hi'
      simp only [streamsVec, List.getElem?_map] at hold
      simp only [streamsVec, modRef, inflight, List.getElem?_map, List.getElem?_modify]
      rw [inflight_append]
      cases hr : s.refs[i]? with
      | none => rw [hr] at hold; simp at hold
      | some ri =>
        rw [hr] at hold
        simp only [Option.map_some, Option.some.injEq] at hold
        by_cases hsi : slot = i
        · subst hsi; simp [hold]
        · simp [hsi, hold]
    · intro c hc
      simp only [modRef, List.length_modify, List.mem_append, List.mem_singleton] at hc ⊢
      rcases hc with hc | hc
      · exact h.slotsOk c hc
      · subst hc; exact hslot
    · have hids := h.ids
      simp only [allIds, modRef, List.map_append, List.map_cons, List.map_nil] at hid hids ⊢
      rw [List.append_assoc, List.nodup_append] at *
      simp only [List.mem_append, not_or] at hid
      obtain ⟨h1, h2, h3⟩ := hids
      refine ⟨h1, ?_, ?_⟩
      · simp only [List.singleton_append, List.nodup_cons]
        exact ⟨hid.2, h2⟩
      · intro a ha b hb
        simp only [List.singleton_append, List.mem_cons] at hb
        rcases hb with rfl | hb
        · intro heq; subst heq; exact hid.1 ha
        · exact h3 a ha b hb

/-! ### picks -/

theorem getReadySubConnRef_ext (s : St) (c : Cfg) (key : String) : Ext s (getReadySubConnRef s c key).1 := by
  unfold getReadySubConnRef
  repeat' split
  all_goals (first | exact Ext.refl s | exact Ext.of_eq rfl rfl rfl)

theorem getLeastBusy_ext (s : St) (c : Cfg) (l : List Slot) : Ext s (getLeastBusy s c l).1 := by
  unfold getLeastBusy
  cases leastBusy s l with
  | none => exact Ext.refl s
  | some m =>
    simp only
    split
    · exact Ext.refl s
    · split
      · exact newSubConn_ext s
      · exact Ext.refl s

theorem chooseSlot_ext (s : St) (c : Cfg) (l : List Slot) (key : String) : Ext s (chooseSlot s c l key).1 := by
  unfold chooseSlot
  split
  · have h1 := getReadySubConnRef_ext s c key
    generalize getReadySubConnRef s c key = r at h1 ⊢
    obtain ⟨s1, o, b⟩ := r
    cases b with
    | true => exact h1
    | false => exact h1.trans (getLeastBusy_ext s1 c l)
  · exact getLeastBusy_ext s c l

theorem allIds_of_ext {s s' : St} (he : Ext s s') : allIds s' = allIds s := by
  simp [allIds, he.1, he.2.1]

theorem finishPick_inv {s : St} (h : StreamsInv s) (r : Option Slot) (ev : List Event) (call : Nat)
    (cmd : Cmd) (loc : Loc) (key : String) (ctx : CtxKind) (dl : Option Int) (hid : call ∉ allIds s) :
    StreamsInv (finishPick s r ev call cmd loc key ctx dl).1 := by
  unfold finishPick
  cases r with
  | none => exact h
  | some slot =>
    simp only
    have := place_inv h call slot cmd loc key ctx dl hid
    generalize place s call slot cmd loc key ctx dl = p at this ⊢
    obtain ⟨s1, o⟩ := p
    cases o <;> exact this

theorem not_used_not_mem {s : St} {call : Nat} (h : callIdUsed s call = false) : call ∉ allIds s := by
  simp only [callIdUsed, Bool.or_eq_false_iff, List.any_eq_false, beq_iff_eq] at h
  simp only [allIds, List.mem_append, List.mem_map, not_or, not_exists, not_and]
  exact ⟨fun c hc heq => h.1.1 c hc heq, fun w hw heq => h.1.2 w hw heq⟩

theorem pickRR_inv {s : St} (h : StreamsInv s) (call : Nat) (loc : Loc) (ctx : CtxKind) (dl : Option Int)
    (hid : call ∉ allIds s) : StreamsInv (pickRR s call loc ctx dl).1 := by
  unfold pickRR
  split
  · exact h
  · simp only
    have h1 : StreamsInv { s with rr := (s.rr + 1) % 2 ^ 64 } := inv_of_ext h (Ext.of_eq rfl rfl rfl)
    split
    · exact finishPick_inv h1 _ _ _ _ _ _ _ _ (by simpa [allIds] using hid)
    · -- a new waiter: same calls and refs, one more (fresh) waiter id
      constructor
      · intro i hi; exact h.exact i hi
      · exact h.slotsOk
      · have hids := h.ids
        simp only [allIds, List.map_append, List.map_cons, List.map_nil] at hid hids ⊢
        rw [← List.append_assoc, List.nodup_append]
        refine ⟨hids, by simp, ?_⟩
        intro a ha b hb
        simp only [List.mem_singleton] at hb
        subst hb
        intro heq; subst heq; exact hid ha

theorem opPick_inv {s : St} (h : StreamsInv s) (call pn : Nat) (m : String) (ctx : CtxKind)
    (dl : Option Int) (req : Req) : StreamsInv (opPick s call pn m ctx dl req).1 := by
  unfold opPick
  by_cases hu : callIdUsed s call = true
  · simp [hu]; exact h
  · have hu' : callIdUsed s call = false := by simpa using hu
    have hid := not_used_not_mem hu'
    simp only [hu', Bool.false_or]
    split
    · exact h
    cases s.published[pn]? with
    | none => exact h
    | some pub =>
      obtain ⟨st, p⟩ := pub
      cases p with
      | errTF => exact h
      | errNoSc => exact h
      | gcp l =>
        simp only
        cases s.cfg with
        | none => exact h
        | some c =>
          simp only
          split
          · exact h
          · generalize resolveCall c m ctx req = rc
            obtain ⟨cmd, loc, ok⟩ := rc
            cases ok with
            | none => exact h
            | some key =>
              simp only
              split
              · exact pickRR_inv h call loc ctx dl hid
              · have he := chooseSlot_ext s c l key
                generalize chooseSlot s c l key = r at he ⊢
                obtain ⟨s1, o, ev⟩ := r
                simp only
                exact finishPick_inv (inv_of_ext h he) _ _ _ _ _ _ _ _ (by rw [allIds_of_ext he]; exact hid)

/-! ### completions -/

theorem bumpAffinity_ext (s : St) (sc : Sc) (d : Int) : Ext s (bumpAffinity s sc d) := by
  unfold bumpAffinity
  split
  · exact Ext.modRef s _ _ (fun _ => rfl)
  · exact Ext.refl s

theorem addBinding_ext (s : St) (k : String) (sc : Sc) : Ext s (addBinding s k sc) := by
  unfold addBinding
  split
  · exact Ext.refl s
  · exact Ext.of_eq rfl rfl rfl

theorem bindSubConn_ext (s : St) (k : String) (sc : Sc) : Ext s (bindSubConn s k sc) :=
  (addBinding_ext s k sc).trans (bumpAffinity_ext _ sc 1)

theorem dropBinding_ext (s : St) (k : String) : Ext s (dropBinding s k) := Ext.of_eq rfl rfl rfl

theorem unbindSubConn_ext (s : St) (k : String) : Ext s (unbindSubConn s k) := by
  unfold unbindSubConn
  cases lookup s.affinity k with
  | none => exact Ext.refl s
  | some sc => exact (bumpAffinity_ext s sc (-1)).trans (dropBinding_ext _ k)

theorem foldl_bind_ext (keys : List String) (sc : Sc) (s : St) :
    Ext s (keys.foldl (fun s k => bindSubConn s k sc) s) := by
  induction keys generalizing s with
  | nil => exact Ext.refl s
  | cons k ks ih => exact (bindSubConn_ext s k sc).trans (ih _)

theorem applyBindings_ext (s : St) (call : Call) (reply : Msg) : Ext s (applyBindings s call reply) := by
  unfold applyBindings
  cases call.cmd with
  | bound => exact Ext.refl s
  | unbind => exact unbindSubConn_ext s _
  | bind =>
    simp only
    split
    · exact Ext.refl s
    · split
      · exact Ext.refl s
      · split
        · exact Ext.refl s
        · exact foldl_bind_ext _ _ s

theorem detectUnresponsive_ext (s : St) (c : Cfg) (call : Call) (err : ErrKind) :
    Ext s (detectUnresponsive s c call err).1 := by
  unfold detectUnresponsive
  split
  · exact Ext.refl s
  · split
    · exact Ext.modRef s _ _ (fun _ => rfl)
    · cases getRef s call.slot with
      | none => exact Ext.refl s
      | some r =>
        simp only
        split
        · exact Ext.refl s
        · split
          · exact (Ext.modRef s call.slot (fun r => { r with deCalls := satInc r.deCalls }) (fun _ => rfl)).trans (refresh_ext _ _)
          · exact Ext.modRef s _ _ (fun _ => rfl)

/-- removing the (unique) call `c0` lowers exactly the in-flight count of its slot by one -/
theorem filter_remove_call (l : List Call) (c0 : Call) (hm : c0 ∈ l) (hnd : (l.map (·.id)).Nodup) (i : Slot) :
    (l.filter fun c => c.slot == i).length =
      ((l.filter fun c => c.id != c0.id).filter fun c => c.slot == i).length + (if c0.slot = i then 1 else 0) := by
  induction l with
  | nil => cases hm
  | cons x xs ih =>
    simp only [List.map_cons, List.nodup_cons, List.mem_map, not_exists, not_and] at hnd
    simp only [List.mem_cons] at hm
    rcases hm with rfl | hm
    · -- the head is the call; no other element has its id
      have hrest : (xs.filter fun c => c.id != c0.id) = xs := by
        rw [List.filter_eq_self]
        intro c hc
        have := hnd.1 c hc
        simp only [bne_iff_ne, ne_eq]
        exact this
      simp only [List.filter_cons, bne_self_eq_false, Bool.false_eq_true, ↓reduceIte, hrest]
      by_cases h : c0.slot = i
      · simp [h]
      · have : (c0.slot == i) = false := by simpa using h
        simp [h, this]
    · have hne : x.id ≠ c0.id := fun heq => hnd.1 c0 hm heq.symm
      have hb : (x.id != c0.id) = true := by simpa using hne
      have := ih hm hnd.2
      simp only [List.filter_cons, hb, ↓reduceIte]
      by_cases h : (x.slot == i) = true
      · simp only [h, ↓reduceIte, List.length_cons]; omega
      · simp only [h, Bool.false_eq_true, ↓reduceIte]; exact this

theorem nodup_left {a b : List Nat} (h : (a ++ b).Nodup) : a.Nodup := (List.nodup_append.mp h).1

theorem completeCall_inv {s : St} (h : StreamsInv s) (call : Call) (hm : call ∈ s.calls) :
    StreamsInv (completeCall s call) := by
  unfold completeCall
  have hnd : (s.calls.map (·.id)).Nodup := nodup_left h.ids
  constructor
  · intro i hi
    have hi' : i < s.refs.length := by simpa [modRef] using hi
    have hold := h.exact i hi'
    simp only [streamsVec, List.getElem?_map] at hold
    have hcount := filter_remove_call s.calls call hm hnd i
    simp only [streamsVec, modRef, inflight, List.getElem?_map, List.getElem?_modify] at hold ⊢
    cases hr : s.refs[i]? with
    | none => rw [hr] at hold; simp at hold
    | some ri =>
      rw [hr] at hold
      simp only [Option.map_some, Option.some.injEq] at hold
      by_cases hsi : call.slot = i
      · simp only [hsi, ↓reduceIte] at hcount
        rw [hcount] at hold
        simp [hsi, hold]
      · simp only [hsi, ↓reduceIte, Nat.add_zero] at hcount
        rw [hcount] at hold
        simp [hsi, hold]
  · intro c hc
    simp only [modRef, List.length_modify, List.mem_filter] at hc ⊢
    exact h.slotsOk c hc.1
  · have hids := h.ids
    simp only [allIds, modRef] at hids ⊢
    rw [List.nodup_append] at hids ⊢
    obtain ⟨h1, h2, h3⟩ := hids
    refine ⟨?_, h2, ?_⟩
    · exact (List.Nodup.sublist (List.Sublist.map _ (List.filter_sublist)) h1)
    · intro a ha b hb
      apply h3 a _ b hb
      simp only [List.mem_map, List.mem_filter] at ha ⊢
      obtain ⟨c, hc, rfl⟩ := ha
      exact ⟨c, hc.1, rfl⟩

theorem opDone_inv {s : St} (h : StreamsInv s) (callId : Nat) (err : ErrKind) (reply : Msg) :
    StreamsInv (opDone s callId err reply).1 := by
  unfold opDone
  cases hf : s.calls.find? (fun c => c.id == callId) with
  | none => exact h
  | some call =>
    simp only
    cases s.cfg with
    | none => exact h
    | some c =>
      simp only
      have hm : call ∈ s.calls := List.mem_of_find?_eq_some hf
      have h1 := completeCall_inv h call hm
      have h2 := detectUnresponsive_ext (completeCall s call) c call err
      generalize detectUnresponsive (completeCall s call) c call err = r at h2 ⊢
      obtain ⟨s2, ev⟩ := r
      simp only at h2 ⊢
      split
      · exact inv_of_ext h1 h2
      · exact inv_of_ext h1 (h2.trans (applyBindings_ext s2 call reply))

/-! ### waiting picks -/

/-- removing a waiter keeps the invariant and frees its id -/
theorem drop_waiter_inv {s : St} (h : StreamsInv s) (w : Waiter) (hw : w ∈ s.waiters) :
    StreamsInv { s with waiters := s.waiters.filter fun x => x.id != w.id } ∧
    w.id ∉ allIds { s with waiters := s.waiters.filter fun x => x.id != w.id } := by
  have hids := h.ids
  simp only [allIds] at hids
  rw [List.nodup_append] at hids
  obtain ⟨h1, h2, h3⟩ := hids
  constructor
  · constructor
    · intro i hi; exact h.exact i hi
    · exact h.slotsOk
    · simp only [allIds]
      rw [List.nodup_append]
      refine ⟨h1, List.Nodup.sublist (List.Sublist.map _ List.filter_sublist) h2, ?_⟩
      intro a ha b hb
      apply h3 a ha b
      simp only [List.mem_map, List.mem_filter] at hb ⊢
      obtain ⟨x, hx, rfl⟩ := hb
      exact ⟨x, hx.1, rfl⟩
  · simp only [allIds, List.mem_append, List.mem_map, List.mem_filter, not_or, not_exists, not_and]
    constructor
    · intro c hc heq
      exact h3 c.id (List.mem_map_of_mem hc) w.id (List.mem_map_of_mem hw) heq
    · intro x hx heq
      simp only [bne_iff_ne, ne_eq] at hx
      exact hx.2 heq

theorem placeWaiter_inv {s : St} (h : StreamsInv s) (w : Waiter) (hid : w.id ∉ allIds s) :
    StreamsInv (placeWaiter s w).1 := place_inv h _ _ _ _ _ _ _ hid

theorem opCtxDone_inv {s : St} (h : StreamsInv s) (callId : Nat) : StreamsInv (opCtxDone s callId).1 := by
  unfold opCtxDone
  cases hf : s.waiters.find? (fun w => w.id == callId) with
  | none => exact h
  | some w =>
    simp only
    have hw : w ∈ s.waiters := List.mem_of_find?_eq_some hf
    have hwid : w.id = callId := by simpa using List.find?_some hf
    have := drop_waiter_inv h w hw
    rw [hwid] at this
    have hp := placeWaiter_inv this.1 w (by rw [hwid]; exact this.2)
    generalize placeWaiter { s with waiters := s.waiters.filter fun x => x.id != callId } w = r at hp ⊢
    obtain ⟨s1, o⟩ := r
    cases o <;> exact hp

theorem place_waiters (s : St) (call : Nat) (slot : Slot) (cmd : Cmd) (loc : Loc) (key : String)
    (ctx : CtxKind) (dl : Option Int) : (place s call slot cmd loc key ctx dl).1.waiters = s.waiters := by
  unfold place
  cases getRef s slot <;> rfl

/-- the fold of wakeWaiters keeps the invariant; the waiters still to be visited are waiters of the
    accumulated state (only visited ones are removed) -/
theorem wake_fold_inv (ws : List Waiter) (acc : St × List Event) (h : StreamsInv acc.1)
    (hsub : ∀ x ∈ ws, x ∈ acc.1.waiters) (hnd : (ws.map (·.id)).Nodup) :
    StreamsInv (ws.foldl (fun (acc : St × List Event) w =>
      if slotReady acc.1 w.slot then
        match placeWaiter { acc.1 with waiters := acc.1.waiters.filter fun x => x.id != w.id } w with
        | (s, some sc) => (s, acc.2 ++ [.woke w.id sc])
        | (_, none) => acc
      else acc) acc).1 := by
  induction ws generalizing acc with
  | nil => exact h
  | cons w ws ih =>
    simp only [List.foldl_cons]
    simp only [List.map_cons, List.nodup_cons, List.mem_map, not_exists, not_and] at hnd
    have hrest : ∀ x ∈ ws, x ∈ acc.1.waiters := fun x hx => hsub x (List.mem_cons_of_mem _ hx)
    by_cases hready : slotReady acc.1 w.slot = true
    · simp only [hready, ↓reduceIte]
      have hw : w ∈ acc.1.waiters := hsub w (by simp)
      have hd := drop_waiter_inv h w hw
      have hp := placeWaiter_inv hd.1 w hd.2
      have hwait := place_waiters { acc.1 with waiters := acc.1.waiters.filter fun x => x.id != w.id }
        w.id w.slot .bind w.loc "" w.ctx w.dl
      unfold placeWaiter at hp ⊢
      generalize place { acc.1 with waiters := acc.1.waiters.filter fun x => x.id != w.id }
        w.id w.slot .bind w.loc "" w.ctx w.dl = r at hp hwait ⊢
      obtain ⟨s1, o⟩ := r
      cases o with
      | none => exact ih acc h hrest hnd.2
      | some sc =>
        apply ih _ hp _ hnd.2
        intro x hx
        simp only at hwait ⊢
        rw [hwait]
        simp only [List.mem_filter, bne_iff_ne, ne_eq]
        exact ⟨hrest x hx, fun heq => hnd.1 x hx heq⟩
    · simp only [hready, Bool.false_eq_true, ↓reduceIte]
      exact ih acc h hrest hnd.2

theorem nodup_right {a b : List Nat} (h : (a ++ b).Nodup) : b.Nodup := (List.nodup_append.mp h).2.1

theorem wakeWaiters_inv {s : St} (h : StreamsInv s) : StreamsInv (wakeWaiters s).1 := by
  unfold wakeWaiters
  exact wake_fold_inv s.waiters (s, []) h (fun _ hx => hx) (nodup_right h.ids)

/-! ### every step, every reachable state -/

theorem stepCore_inv {s : St} (h : StreamsInv s) (op : Op) : StreamsInv (stepCore s op).1 := by
  cases op with
  | ccs ver => exact inv_of_ext h (opCcs_ext s ver)
  | reserr => exact h
  | scs sc st order => exact inv_of_ext h (opScs_ext s sc st order)
  | factory n => exact inv_of_ext h (Ext.of_eq rfl rfl rfl)
  | adv ns => exact inv_of_ext h (Ext.of_eq rfl rfl rfl)
  | pick call pn m ctx dl req => exact opPick_inv h call pn m ctx dl req
  | ctxdone call => exact opCtxDone_inv h call
  | done call err reply => exact opDone_inv h call err reply
  | pickHold call pn m ctx dl req =>
    exact opPickHold_cases _ s call pn m ctx dl req h (fun _ => inv_of_ext h (Ext.of_eq rfl rfl rfl))
      (opPick_inv h call pn m ctx dl req)
  | resume call =>
    exact opResume_cases _ s call h (fun _ => inv_of_ext h (Ext.of_eq rfl rfl rfl))
      (fun _ _ _ _ => inv_of_ext (inv_of_ext h (Ext.of_eq rfl rfl rfl)) (newSubConn_ext _))

theorem step_inv {s : St} (h : StreamsInv s) (op : Op) : StreamsInv (step s op).1 := by
  unfold step
  have h1 := stepCore_inv h op
  generalize stepCore s op = r at h1 ⊢
  obtain ⟨s1, ev⟩ := r
  have h2 := wakeWaiters_inv h1
  simp only
  generalize wakeWaiters s1 = r2 at h2 ⊢
  obtain ⟨s2, ev2⟩ := r2
  exact h2

theorem init_inv (ci : CfgInput) : StreamsInv (init ci) := by
  constructor
  · intro i hi; simp [init] at hi
  · intro c hc; simp [init] at hc
  · simp [allIds, init]

theorem run_inv (ci : CfgInput) (ops : List Op) : StreamsInv (run (init ci) ops) := by
  unfold run
  suffices h : ∀ s, StreamsInv s → StreamsInv (ops.foldl (fun s op => (step s op).1) s) from h _ (init_inv ci)
  induction ops with
  | nil => intro s h; exact h
  | cons op ops ih => intro s h; exact ih _ (step_inv h op)

/-! ## C02.1 -/

/-- **C02.1** For every configuration and every finite history of resolver updates, state reports,
    picks (any published picker, any method, context, request), completions (any outcome, any order,
    also after the channel was refreshed or left READY), clock advances and factory failures: each
    channel's active-stream count equals the number of calls placed on it whose completion callback
    has not run — hence never negative, unchanged by a refresh, zero when nothing is in flight. -/
theorem streams_exact (ci : CfgInput) (ops : List Op) :
    streamsExact (run (init ci) ops).refs ((run (init ci) ops).calls.map (·.slot)) = true := by
  have h := run_inv ci ops
  generalize run (init ci) ops = s at h
  simp only [streamsExact, List.all_eq_true, List.mem_range]
  intro i hi
  have := h.exact i hi
  simp only [streamsVec, List.getElem?_map] at this
  cases hr : s.refs[i]? with
  | none => rfl
  | some r =>
    rw [hr] at this
    simp only [Option.map_some, Option.some.injEq] at this
    simp only [this, inflight, beq_iff_eq, Int.natCast_inj, decide_eq_true_eq]
    rw [List.filter_map]
    simp [Function.comp_def]

theorem streams_nonneg (ci : CfgInput) (ops : List Op) :
    ∀ r ∈ (run (init ci) ops).refs, 0 ≤ r.streamsCnt := by
  have h := run_inv ci ops
  generalize run (init ci) ops = s at h
  intro r hr
  obtain ⟨i, hi, hget⟩ := List.getElem_of_mem hr
  have := h.exact i hi
  simp only [streamsVec, List.getElem?_map, List.getElem?_eq_getElem hi, hget, Option.map_some, Option.some.injEq] at this
  omega

theorem streams_zero_when_idle (ci : CfgInput) (ops : List Op)
    (hidle : (run (init ci) ops).calls = []) : ∀ r ∈ (run (init ci) ops).refs, r.streamsCnt = 0 := by
  have h := run_inv ci ops
  generalize run (init ci) ops = s at h hidle
  intro r hr
  obtain ⟨i, hi, hget⟩ := List.getElem_of_mem hr
  have := h.exact i hi
  simp only [streamsVec, List.getElem?_map, List.getElem?_eq_getElem hi, hget, Option.map_some, Option.some.injEq,
    inflight, hidle, List.filter_nil, List.length_nil] at this
  simpa using this

end GcpVerif.Pool
