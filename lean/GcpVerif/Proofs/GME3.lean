/-
C15 — "every MultiEndpoint already reflects the connectivity of the pools when UpdateMultiEndpoints
returns": after an accepted update, in every MultiEndpoint (kept, re-configured or new) an endpoint
counts as available exactly when its pool was READY in the status sync at the end of the call —
whatever the MultiEndpoint believed before, and in whatever order the pool map was walked.
-/
import GcpVerif.Proofs.GME2
import GcpVerif.Proofs.ME6
namespace GcpVerif.GME

/-- notifying a MultiEndpoint about the endpoints of `l` one after the other: every endpoint named in
    `l` ends up available exactly when its (last) notification said so -/
theorem fold_sync_status (r : String → Bool) (l : List String) : ∀ (done : List String) (me : ME.St), ME.Reach me →
    (∀ ep ∈ me.eps, ep.id ∈ done → (ep.status = .available ↔ r ep.id = true)) →
    ∀ ep ∈ (l.foldl (fun m e => ME.opSetAvail m e (r e)) me).eps, ep.id ∈ done ++ l →
      (ep.status = .available ↔ r ep.id = true) := by
  induction l with
  | nil => intro done me _ h ep hep hid; exact h ep hep (by simpa using hid)
  | cons e rest ih =>
    intro done me hreach h ep hep hid
    simp only [List.foldl_cons] at hep
    have hreach1 : ME.Reach (ME.opSetAvail me e (r e)) := ME.Reach.stepRaw (.setAvail e (r e)) hreach
    apply ih (done ++ [e]) (ME.opSetAvail me e (r e)) hreach1 ?_ ep hep (by simpa [List.append_assoc] using hid)
    intro y hy hyd
    have hy' : y ∈ (ME.setEndpointAvailability me e (r e)).eps := by
      unfold ME.opSetAvail at hy; rw [(ME.muc_fields _).1] at hy; exact hy
    obtain ⟨x, hx, e1, e2, e3⟩ := ME.sea_av (ME.reach_inv hreach).toBase.idInj e (r e) y hy'
    by_cases hxe : x.id = e
    · rw [e2 hxe, e1, hxe]
    · rw [e3 hxe, e1]
      apply h x hx
      simp only [List.mem_append, List.mem_singleton] at hyd
      rcases hyd with hyd | hyd
      · rw [← e1]; exact hyd
      · exact absurd (e1 ▸ hyd) hxe

theorem foldl_notify_mes (r : String → Bool) (l : List String) : ∀ (s : St),
    (l.foldl (fun s e => notifyAll s e (r e)) s).mes =
      s.mes.map fun p => (p.1, l.foldl (fun m e => ME.opSetAvail m e (r e)) p.2) := by
  induction l with
  | nil => intro s; simp
  | cons e rest ih =>
    intro s
    simp only [List.foldl_cons]
    rw [ih]
    simp [notifyAll, List.map_map, Function.comp_def]

theorem fold_ids (r : String → Bool) (l : List String) : ∀ (me : ME.St),
    ∀ ep ∈ (l.foldl (fun m e => ME.opSetAvail m e (r e)) me).eps, ∃ y ∈ me.eps, ep.id = y.id := by
  induction l with
  | nil => intro me ep hep; exact ⟨ep, hep, rfl⟩
  | cons e rest ih =>
    intro me ep hep
    simp only [List.foldl_cons] at hep
    obtain ⟨y1, hy1, e1⟩ := ih _ ep hep
    obtain ⟨y, hy, e2⟩ := ME.opSetAvail_ids me e (r e) y1 hy1
    exact ⟨y, hy, e1.trans e2⟩

/-- **C15** when an accepted UpdateMultiEndpoints returns, every MultiEndpoint reflects the connectivity
    of the pools: an endpoint is available there exactly when its pool was READY in the final status
    sync (`connReady`), for every order `ord` in which the pool map is walked -/
theorem update_syncs_status {s : St} (h : G s) (d : String) (o : Opts) (f : List String) (r : String → Bool)
    (ord : List String) (hok : (update s d o f r ord).2 = true) :
    ∀ p ∈ (update s d o f r ord).1.mes, ∀ ep ∈ p.2.eps, (ep.status = .available ↔ r ep.id = true) := by
  unfold update at hok ⊢
  by_cases hv : optsValid d o = true
  · simp only [hv, Bool.not_true, Bool.false_eq_true, ↓reduceIte] at hok ⊢
    split at hok
    · cases hok
    · rename_i hdial
      simp only [hdial, Bool.false_eq_true, ↓reduceIte]
      unfold optsValid at hv
      simp only [Bool.and_eq_true, List.any_eq_true, List.all_eq_true] at hv
      obtain ⟨-, hall⟩ := hv
      -- every entry of the new table is a reachable MultiEndpoint whose endpoints all have pools
      have hmes : ∀ p ∈ (o.filterMap fun p => match p.2 with
            | none => none
            | some l => match findME s p.1 with
              | some me => some (p.1, (ME.step me (.setEndpoints l)).1)
              | none => (ME.init 0 0 l).map fun me => (p.1, me)),
          ∃ l, (p.1, some l) ∈ o ∧ ME.Reach p.2 ∧ ∀ e ∈ p.2.eps, e.id ∈ l := by
        intro p hp
        obtain ⟨q, hq, hqp⟩ := List.mem_filterMap.mp hp
        have hql := hall q hq
        cases hq2 : q.2 with
        | none => rw [hq2] at hql; cases hql
        | some l =>
          rw [hq2] at hql hqp
          have hlne : l ≠ [] := by simpa using hql
          simp only at hqp
          have hqmem : (q.1, some l) ∈ o := by rw [← hq2]; exact hq
          cases hfm : findME s q.1 with
          | some me =>
            rw [hfm] at hqp
            simp only [Option.some.injEq] at hqp
            subst hqp
            exact ⟨l, hqmem, ME.api_step_reach (.setEndpoints l) (h.meReach _ (findME_mem hfm)),
              ME.api_setEndpoints_ids_sub me l hlne⟩
          | none =>
            rw [hfm] at hqp
            cases hin : ME.init 0 0 l with
            | none => rw [hin] at hqp; cases hqp
            | some me =>
              rw [hin] at hqp
              simp only [Option.map_some, Option.some.injEq] at hqp
              subst hqp
              exact ⟨l, hqmem, ME.api_init_reach hin, ME.api_init_ids_sub hin⟩
      intro p hp ep hep
      rw [foldl_notify_mes] at hp
      obtain ⟨p0, hp0, rfl⟩ := List.mem_map.mp hp
      obtain ⟨l, hlo, hreach, hsub⟩ := hmes p0 hp0
      simp only at hep
      -- the endpoint has a pool, so the status sync visits it
      obtain ⟨y, hy, hyid⟩ := fold_ids r _ p0.2 ep hep
      have hxv : ep.id ∈ validEndpoints o := by rw [hyid]; exact mem_validEndpoints hlo (hsub y hy)
      have hpool : ep.id ∈ ((s.pools ++ (validEndpoints o).filter fun e => !s.pools.contains e).filter fun e => (validEndpoints o).contains e) := by
        simp only [List.mem_filter, List.mem_append, List.contains_eq_mem, decide_eq_true_eq, Bool.not_eq_eq_eq_not, Bool.not_true, decide_eq_false_iff_not]
        refine ⟨?_, hxv⟩
        by_cases hin : ep.id ∈ s.pools
        · exact Or.inl hin
        · exact Or.inr ⟨hxv, hin⟩
      refine fold_sync_status r _ [] p0.2 hreach (fun _ _ hh => by cases hh) ep hep ?_
      simp only [List.nil_append]
      split
      · rename_i heq
        have heq' := (beq_iff_eq.mp heq)
        have : ep.id ∈ (ord.mergeSort fun a b => decide (a ≤ b)) := by rw [heq']; exact List.mem_mergeSort.mpr hpool
        exact List.mem_mergeSort.mp this
      · exact hpool
  · have : optsValid d o = false := by simpa using hv
    simp only [this, Bool.not_false, ↓reduceIte] at hok
    cases hok

/-- the same for every state reachable through the API -/
theorem update_syncs_status_reach {s : St} (h : Reach s) (d : String) (o : Opts) (f : List String)
    (r : String → Bool) (ord : List String) (hok : (update s d o f r ord).2 = true) :
    ∀ p ∈ (update s d o f r ord).1.mes, ∀ ep ∈ p.2.eps, (ep.status = .available ↔ r ep.id = true) :=
  update_syncs_status (reach_g h) d o f r ord hok

end GcpVerif.GME
