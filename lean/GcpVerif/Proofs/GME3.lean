/-
C15 — "every MultiEndpoint already reflects the connectivity of the pools when UpdateMultiEndpoints
returns": after an accepted update, in every MultiEndpoint (kept, re-configured or new) an endpoint
counts as available exactly when its pool was READY in the status sync at the end of the call —
whatever the MultiEndpoint believed before, and whatever switching delay it has.
-/
import GcpVerif.Proofs.GME2
import GcpVerif.Proofs.ME6
namespace GcpVerif.GME

/-- notifying a MultiEndpoint about the endpoints of `l` one after the other: every endpoint named in
    `l` ends up available exactly when its (last) notification said so -/
theorem fold_sync_status (r : String → Bool) (l : List String) : ∀ (done : List String) (me : ME.St), ME.Reach me →
    (∀ ep ∈ me.eps, ep.id ∈ done → (ep.status = .available ↔ r ep.id = true)) →
    ∀ ep ∈ (l.foldl (fun m e => ME.opSetAvail m e (r e)) me).eps, ep.id ∈ done ++ l →
      (ep.status = .available ↔ r ep.id = true) := by
  induction l with
  | nil => intro done me _ h ep hep hid; exact h ep hep (by simpa using hid)
  | cons e rest ih =>
    intro done me hreach h ep hep hid
    simp only [List.foldl_cons] at hep
    have hreach1 : ME.Reach (ME.opSetAvail me e (r e)) := ME.Reach.stepRaw (.setAvail e (r e)) hreach
    apply ih (done ++ [e]) (ME.opSetAvail me e (r e)) hreach1 ?_ ep hep (by simpa [List.append_assoc] using hid)
    intro y hy hyd
    have hy' : y ∈ (ME.setEndpointAvailability me e (r e)).eps := by
      unfold ME.opSetAvail at hy; rw [(ME.muc_fields _).1] at hy; exact hy
    obtain ⟨x, hx, e1, e2, e3⟩ := ME.sea_av (ME.reach_inv hreach).toBase.idInj e (r e) y hy'
    by_cases hxe : x.id = e
    · rw [e2 hxe, e1, hxe]
    · rw [e3 hxe, e1]
      apply h x hx
      simp only [List.mem_append, List.mem_singleton] at hyd
      rcases hyd with hyd | hyd
      · rw [← e1]; exact hyd
      · exact absurd (e1 ▸ hyd) hxe

/-- **C15** when an accepted UpdateMultiEndpoints returns, every MultiEndpoint reflects the connectivity
    of the pools: an endpoint is available there exactly when its pool was READY in the final status
    sync (`connReady`), for every switching delay `dl` -/
theorem update_syncs_status {s : St} (h : G s) (d : String) (o : Opts) (f : List String) (r : String → Bool)
    (dl : Int) (hok : (update s d o f r dl).2 = true) :
    ∀ p ∈ (update s d o f r dl).1.mes, ∀ ep ∈ p.2.eps, (ep.status = .available ↔ r ep.id = true) := by
  unfold update at hok ⊢
  by_cases hv : optsValid d o = true
  · simp only [hv, Bool.not_true, Bool.false_eq_true, ↓reduceIte] at hok ⊢
    split at hok
    · cases hok
    · rename_i hdial
      simp only [hdial, Bool.false_eq_true, ↓reduceIte]
      unfold optsValid at hv
      simp only [Bool.and_eq_true, List.any_eq_true, List.all_eq_true] at hv
      obtain ⟨-, hall⟩ := hv
      intro p hp ep hep
      obtain ⟨l, me0, _, _, hreach, hsub, hp2⟩ := new_mes_spec h dl o r hall p hp
      rw [hp2] at hep
      -- every endpoint of the MultiEndpoint is named in its own list, so the status sync tells it
      obtain ⟨y, hy, hyid⟩ := tellOwn_ids r l me0 ep hep
      have hin : ep.id ∈ l := hyid ▸ hsub y hy
      exact fold_sync_status r l [] me0 hreach (fun _ _ hh => by cases hh) ep hep (by simpa using hin)
  · have : optsValid d o = false := by simpa using hv
    simp only [this, Bool.not_false, ↓reduceIte] at hok
    cases hok

/-- the same for every state reachable through the API -/
theorem update_syncs_status_reach {s : St} (h : Reach s) (d : String) (o : Opts) (f : List String)
    (r : String → Bool) (dl : Int) (hok : (update s d o f r dl).2 = true) :
    ∀ p ∈ (update s d o f r dl).1.mes, ∀ ep ∈ p.2.eps, (ep.status = .available ↔ r ep.id = true) :=
  update_syncs_status (reach_g h) d o f r dl hok

end GcpVerif.GME
