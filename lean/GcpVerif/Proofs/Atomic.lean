/-
Regions of one mutex are atomic (a reduction theorem for the simplest discipline: every shared
access of every goroutine sits inside a `lock … unlock` region of the same mutex).

`regions_atomic`: for every number of goroutines, all programs that keep the discipline and every
fine-grained schedule — instructions of different goroutines interleaved in any way — the run is
matched by a run of the coarse semantics, in which a whole region is ONE step, taken at the moment
the region's `lock` was; the coarse schedule is a sub-sequence of the fine one.  When nobody holds
the mutex at the end, shared state and remaining programs are literally the same
(`regions_atomic_idle`).  This is why `Model/Pool.lean` may take a whole pick (scan + growth decision
+ placement) and a whole completion as single steps once `c02_counters_under_pick_mutex` holds.

`unprotected_access_breaks_atomicity` is the other direction on the F39 shape: with completions and
round-robin placements changing the counters outside the mutex, a scan sees (2,2) — every channel
at the watermark, so the pool grows — although in each of the three serial orders some channel has
room and the pool does not grow.
-/
import GcpVerif.Model.Atomic
namespace GcpVerif.Atomic

variable {σ : Type}

@[simp] theorem upd_same (p : Nat → Prog σ) (t : Nat) (r : Prog σ) : upd p t r t = r := by simp [upd]
theorem upd_other (p : Nat → Prog σ) (t u : Nat) (r : Prog σ) (h : u ≠ t) : upd p t r u = p u := by simp [upd, h]
@[simp] theorem upd_upd (p : Nat → Prog σ) (t : Nat) (r r' : Prog σ) : upd (upd p t r) t r' = upd p t r' := by
  funext u; simp only [upd]; split <;> rfl
theorem upd_comm (p : Nat → Prog σ) (t o : Nat) (r q : Prog σ) (h : t ≠ o) :
    upd (upd p t r) o q = upd (upd p o q) t r := by
  funext u; simp only [upd]
  by_cases h1 : u = o
  · subst h1
    have h2 : u ≠ t := fun e => h e.symm
    simp [h2]
  · simp [h1]

/-- what a goroutine that does not hold the mutex can have in front of it -/
theorem wf_out (p : Prog σ) (h : wf false p = true) :
    p = [] ∨ (∃ r, p = .lock :: r ∧ wf true r = true) ∨ (∃ r, p = .tau :: r ∧ wf false r = true) := by
  cases p with
  | nil => exact Or.inl rfl
  | cons i r =>
    cases i with
    | lock => exact Or.inr (Or.inl ⟨r, rfl, by simpa [wf] using h⟩)
    | tau => exact Or.inr (Or.inr ⟨r, rfl, by simpa [wf] using h⟩)
    | unlock => simp [wf] at h
    | acc f => simp [wf] at h

/-- … and one that holds it -/
theorem wf_in (p : Prog σ) (h : wf true p = true) :
    (∃ r, p = .unlock :: r ∧ wf false r = true) ∨ (∃ f r, p = .acc f :: r ∧ wf true r = true) ∨
      (∃ r, p = .tau :: r ∧ wf true r = true) := by
  cases p with
  | nil => simp [wf] at h
  | cons i r =>
    cases i with
    | lock => simp [wf] at h
    | tau => exact Or.inr (Or.inr ⟨r, rfl, by simpa [wf] using h⟩)
    | unlock => exact Or.inl ⟨r, rfl, by simpa [wf] using h⟩
    | acc f => exact Or.inr (Or.inl ⟨f, r, rfl, by simpa [wf] using h⟩)

/-- **one fine-grained instruction is a coarse step or invisible**, and keeps the discipline -/
theorem sim (c c' : Cfg σ) (hi : Inv c) (t : Nat) (hs : fstep c t = some c') :
    Inv c' ∧ (abs c' = abs c ∨ cstep (abs c) t = some (abs c')) := by
  have hwt := hi t
  cases ho : c.owner with
  | none =>
    -- nobody holds the mutex: `t` takes it (a coarse region step) or makes a private step
    have hb : (c.owner == some t) = false := by simp [ho]
    rw [hb] at hwt
    rcases wf_out _ hwt with hp | ⟨r, hp, hr⟩ | ⟨r, hp, hr⟩
    · simp [fstep, hp] at hs
    · simp only [fstep, hp, ho, if_true, Option.some.injEq] at hs
      subst hs
      refine ⟨?_, Or.inr ?_⟩
      · intro u
        by_cases hu : u = t
        · subst hu; simpa using hr
        · have := hi u
          simp only [ho] at this
          have hne : (some t == some u) = false := by simp; exact fun h => hu h.symm
          simpa [upd_other _ _ _ _ hu, hne] using this
      · simp [abs, ho, cstep, hp]
    · simp only [fstep, hp, Option.some.injEq] at hs
      subst hs
      refine ⟨?_, Or.inr ?_⟩
      · intro u
        by_cases hu : u = t
        · subst hu; simpa [ho] using hr
        · have := hi u
          simpa [upd_other _ _ _ _ hu] using this
      · simp [abs, ho, cstep, hp]
  | some o =>
    by_cases hto : t = o
    · -- the holder works inside its region: invisible
      subst hto
      have hb : (c.owner == some t) = true := by simp [ho]
      rw [hb] at hwt
      rcases wf_in _ hwt with ⟨r, hp, hr⟩ | ⟨f, r, hp, hr⟩ | ⟨r, hp, hr⟩
      · simp only [fstep, hp, ho, if_true, Option.some.injEq] at hs
        subst hs
        refine ⟨?_, Or.inl ?_⟩
        · intro u
          by_cases hu : u = t
          · subst hu; simpa using hr
          · have := hi u
            have hne : (some t == some u) = false := by simp; exact fun h => hu h.symm
            simp only [ho, hne] at this
            simpa [upd_other _ _ _ _ hu] using this
        · simp [abs, ho, hp, runRegion]
      · simp only [fstep, hp, Option.some.injEq] at hs
        subst hs
        refine ⟨?_, Or.inl ?_⟩
        · intro u
          by_cases hu : u = t
          · subst hu; simpa [ho] using hr
          · have := hi u
            simpa [upd_other _ _ _ _ hu] using this
        · simp [abs, ho, hp, runRegion]
      · simp only [fstep, hp, Option.some.injEq] at hs
        subst hs
        refine ⟨?_, Or.inl ?_⟩
        · intro u
          by_cases hu : u = t
          · subst hu; simpa [ho] using hr
          · have := hi u
            simpa [upd_other _ _ _ _ hu] using this
        · simp [abs, ho, hp, runRegion]
    · -- somebody else holds it: `t` can only make a private step (an access is excluded by the discipline)
      have hb : (c.owner == some t) = false := by simp [ho]; exact fun h => hto h.symm
      rw [hb] at hwt
      rcases wf_out _ hwt with hp | ⟨r, hp, hr⟩ | ⟨r, hp, hr⟩
      · simp [fstep, hp] at hs
      · simp [fstep, hp, ho] at hs
      · simp only [fstep, hp, Option.some.injEq] at hs
        subst hs
        refine ⟨?_, Or.inr ?_⟩
        · intro u
          by_cases hu : u = t
          · subst hu
            have hne : (some o == some u) = false := by simp; exact fun h => hto h.symm
            simpa [ho, hne] using hr
          · have := hi u
            simpa [upd_other _ _ _ _ hu] using this
        · have hot : o ≠ t := fun h => hto h.symm
          simp [abs, ho, cstep, upd_other _ _ _ _ hot, upd_other _ _ _ _ hto, hp, upd_comm _ _ _ _ _ hto]

/-- **regions are atomic** (every schedule, any number of goroutines, any programs that keep the
    discipline): a fine-grained run is matched by a coarse run whose schedule is a sub-sequence of
    the fine one — each region executed as one step where its `lock` was taken -/
theorem regions_atomic (sched : List Nat) (c c' : Cfg σ) (hi : Inv c) (hr : frun c sched = some c') :
    Inv c' ∧ ∃ cs, cs.Sublist sched ∧ crun (abs c) cs = some (abs c') := by
  induction sched generalizing c with
  | nil =>
    simp only [frun, Option.some.injEq] at hr
    subst hr
    exact ⟨hi, [], List.Sublist.refl _, rfl⟩
  | cons t ts ih =>
    simp only [frun] at hr
    cases hs : fstep c t with
    | none => simp [hs] at hr
    | some c1 =>
      simp only [hs, Option.bind_some] at hr
      obtain ⟨hi1, hstep⟩ := sim c c1 hi t hs
      obtain ⟨hi', cs, hsub, hrun⟩ := ih c1 hi1 hr
      refine ⟨hi', ?_⟩
      rcases hstep with heq | hc
      · exact ⟨cs, List.Sublist.cons _ hsub, by rw [← heq]; exact hrun⟩
      · exact ⟨t :: cs, List.Sublist.cons_cons _ hsub, by simp [crun, hc, hrun]⟩

/-- start and end with the mutex free: same shared state and same remaining programs as the coarse run -/
theorem regions_atomic_idle (sched : List Nat) (st : σ) (progs : Nat → Prog σ)
    (hwf : ∀ t, wf false (progs t) = true) (c' : Cfg σ)
    (hr : frun { st := st, owner := none, progs := progs } sched = some c') (hfree : c'.owner = none) :
    ∃ cs, cs.Sublist sched ∧ crun { st := st, progs := progs } cs = some { st := c'.st, progs := c'.progs } := by
  have hi : Inv ({ st := st, owner := none, progs := progs } : Cfg σ) := by
    intro t; simpa [Inv] using hwf t
  obtain ⟨_, cs, hsub, hrun⟩ := regions_atomic sched _ c' hi hr
  refine ⟨cs, hsub, ?_⟩
  simpa [abs, hfree] using hrun

/-! ### the pool's shape: scans, placements and completions over two channels -/

/-- two stream counters, the scan's registers, and what the pick decided -/
structure Two where
  a : Nat
  b : Nat
  sa : Nat := 0
  sb : Nat := 0
  grew : Bool := false
  deriving DecidableEq, Repr

/-- a pick with watermark 2: read both counters, then grow if both are at the watermark, else place
    on the less loaded channel -/
def pick : Prog Two :=
  [.lock, .acc (fun s => { s with sa := s.a }), .acc (fun s => { s with sb := s.b }),
   .acc (fun s => if s.sa ≥ 2 ∧ s.sb ≥ 2 then { s with grew := true }
                  else if s.sa ≤ s.sb then { s with a := s.a + 1 } else { s with b := s.b + 1 }),
   .unlock]

/-- a completion on the first channel and a round-robin placement on the second, under the mutex
    (the code since F39) … -/
def otherLocked : Prog Two :=
  [.lock, .acc (fun s => { s with a := s.a - 1 }), .unlock, .lock, .acc (fun s => { s with b := s.b + 1 }), .unlock]

/-- … and outside it (before) -/
def otherUnlocked : Prog Two :=
  [.acc (fun s => { s with a := s.a - 1 }), .acc (fun s => { s with b := s.b + 1 })]

def progsOf (other : Prog Two) : Nat → Prog Two := fun t => if t = 0 then pick else if t = 1 then other else []

/-- the repaired shape keeps the discipline (so `regions_atomic_idle` applies to it: non-vacuity) -/
example : ∀ t, wf false (progsOf otherLocked t) = true := by
  intro t
  by_cases h0 : t = 0
  · subst h0; rfl
  · by_cases h1 : t = 1
    · subst h1; rfl
    · simp [progsOf, h0, h1, wf]

/-- the unrepaired one does not -/
example : wf false (progsOf otherUnlocked 1) = false := rfl

def start : Two := { a := 2, b := 1 }

/-- **F39, in the model**: with the other goroutine's updates outside the mutex there is a schedule
    on which the pick decides to grow, while in each of the three serial positions of the pick
    (before, between, after the two updates) it does not -/
theorem unprotected_access_breaks_atomicity :
    ((frun { st := start, owner := none, progs := progsOf otherUnlocked } [0, 0, 1, 1, 0, 0, 0]).map (·.st.grew) = some true) ∧
    ((crun { st := start, progs := progsOf otherUnlocked } [0, 1, 1]).map (·.st.grew) = some false) ∧
    ((crun { st := start, progs := progsOf otherUnlocked } [1, 0, 1]).map (·.st.grew) = some false) ∧
    ((crun { st := start, progs := progsOf otherUnlocked } [1, 1, 0]).map (·.st.grew) = some false) := by
  refine ⟨?_, ?_, ?_, ?_⟩ <;> decide

/-- with the updates under the mutex the same schedule is not even possible: the second goroutine
    blocks on `lock` while the pick is in its region -/
example : (frun { st := start, owner := none, progs := progsOf otherLocked } [0, 0, 1]).isNone = true := by decide

end GcpVerif.Atomic
