/-
C20 at Reach level: after every history, every connection of the pool and every replacement
connection of a refresh in flight was last given the most recently resolved address list.
-/
import GcpVerif.Proofs.AList
import GcpVerif.Model.Pool
import GcpVerif.Proofs.PoolHold
namespace GcpVerif.Pool

/-- connections the balancer holds: pool members and replacements of refreshes in flight -/
def live (s : St) (sc : Sc) : Prop := sc ∈ keys s.scRefs ∨ sc ∈ keys s.refreshingMap

/-- the address list last given to every live connection is the current one -/
def AddrsCur (s : St) : Prop := ∀ sc, live s sc → lookup s.scAddrs sc = some s.addrs

/-- a step that keeps the resolved list: live connections are old ones with their addresses
    untouched, or carry the current list -/
def Grow (s s' : St) : Prop :=
  s'.addrs = s.addrs ∧
  ∀ sc, live s' sc → (live s sc ∧ lookup s'.scAddrs sc = lookup s.scAddrs sc) ∨ lookup s'.scAddrs sc = some s'.addrs

theorem Grow.refl (s : St) : Grow s s := ⟨rfl, fun _ h => Or.inl ⟨h, rfl⟩⟩

theorem Grow.trans {a b c : St} (h1 : Grow a b) (h2 : Grow b c) : Grow a c := by
  refine ⟨h2.1.trans h1.1, fun sc hl => ?_⟩
  rcases h2.2 sc hl with ⟨hb, e2⟩ | e2
  · rcases h1.2 sc hb with ⟨ha, e1⟩ | e1
    · exact Or.inl ⟨ha, e2.trans e1⟩
    · right; rw [e2, e1, h2.1]
  · exact Or.inr e2

theorem addrsCur_of_grow {s s' : St} (h : AddrsCur s) (g : Grow s s') : AddrsCur s' := by
  intro sc hl
  rcases g.2 sc hl with ⟨hs, e⟩ | e
  · rw [e, h sc hs, g.1]
  · exact e

def Same4 (s s' : St) : Prop :=
  s'.addrs = s.addrs ∧ s'.scAddrs = s.scAddrs ∧ s'.scRefs = s.scRefs ∧ s'.refreshingMap = s.refreshingMap

theorem grow_of_same {s s' : St} (e : Same4 s s') : Grow s s' := by
  obtain ⟨e1, e2, e3, e4⟩ := e
  refine ⟨e1, fun sc hl => Or.inl ⟨?_, by rw [e2]⟩⟩
  unfold live at hl ⊢
  rw [e3, e4] at hl; exact hl

theorem grow_modRef (s : St) (slot : Slot) (f : RefSt → RefSt) : Grow s (modRef s slot f) := (grow_of_same ⟨rfl, rfl, rfl, rfl⟩)

theorem grow_ccNew (s : St) : Grow s (ccNewSubConn s).1 := by
  unfold ccNewSubConn; split
  · exact Grow.refl s
  · split
    · exact (grow_of_same ⟨rfl, rfl, rfl, rfl⟩)
    · refine ⟨rfl, fun sc hl => ?_⟩
      simp only [lookup_insert]
      by_cases h : s.nextSc = sc
      · right; simp [h]
      · left; exact ⟨hl, by simp [h]⟩

/-- a connection just created carries the current address list; the pool tables are untouched -/
theorem ccNew_spec (s : St) (sc : Sc) (h : (ccNewSubConn s).2.1 = some sc) :
    lookup (ccNewSubConn s).1.scAddrs sc = some (ccNewSubConn s).1.addrs := by
  unfold ccNewSubConn at h ⊢
  split
  · rename_i h0; simp [h0] at h
  · rename_i h0
    split
    · rename_i h1; simp [h0, h1] at h
    · rename_i h1
      simp only [h0, h1, Bool.false_eq_true, ↓reduceIte, Option.some.injEq] at h
      subst h
      exact lookup_insert_self _ _ _

theorem grow_addSubConn (s : St) : Grow s (addSubConn s).1 := by
  unfold addSubConn
  have h := grow_ccNew s
  have hs := ccNew_spec s
  generalize ccNewSubConn s = r at h hs ⊢
  obtain ⟨s1, o, ev⟩ := r
  cases o with
  | none => exact h
  | some sc =>
    refine h.trans ⟨rfl, fun x hl => ?_⟩
    simp only [live, mem_keys_insert] at hl
    by_cases hx : x = sc
    · right; subst hx; exact hs x rfl
    · left
      refine ⟨?_, rfl⟩
      rcases hl with (hl | hl) | hl
      · exact absurd hl hx
      · exact Or.inl hl
      · exact Or.inr hl

theorem grow_newSubConn (s : St) : Grow s (newSubConn s).1 := by
  unfold newSubConn; split
  · exact Grow.refl s
  · exact grow_addSubConn s

theorem grow_enforce (s : St) (min fuel : Nat) : Grow s (enforceMinSize s min fuel).1 := by
  induction fuel generalizing s with
  | zero => exact Grow.refl s
  | succ fuel ih =>
    unfold enforceMinSize
    split
    · have h := grow_addSubConn s
      generalize addSubConn s = r at h ⊢
      obtain ⟨s1, ok, ev⟩ := r
      cases ok with
      | true => simp only; exact h.trans (ih s1)
      | false => exact h
    · exact Grow.refl s

theorem grow_refresh (s : St) (slot : Slot) : Grow s (refresh s slot).1 := by
  unfold refresh
  cases getRef s slot with
  | none => exact Grow.refl s
  | some r =>
    simp only
    split
    · exact Grow.refl s
    · have h2 := grow_ccNew (modRef s slot fun r => { r with refreshing := true })
      have hs := ccNew_spec (modRef s slot fun r => { r with refreshing := true })
      generalize ccNewSubConn (modRef s slot fun r => { r with refreshing := true }) = rr at h2 hs ⊢
      obtain ⟨s1, o, ev⟩ := rr
      cases o with
      | none => exact ((grow_modRef s slot _).trans h2).trans (grow_modRef s1 slot _)
      | some sc =>
        refine ((grow_modRef s slot _).trans h2).trans ⟨rfl, fun x hl => ?_⟩
        simp only [live, mem_keys_insert] at hl
        by_cases hx : x = sc
        · right; subst hx; exact hs x rfl
        · left
          refine ⟨?_, rfl⟩
          rcases hl with hl | hl | hl
          · exact Or.inl hl
          · exact absurd hl hx
          · exact Or.inr hl

theorem grow_swap (s : St) (sc : Sc) (slot : Slot) (hsc : sc ∈ keys s.refreshingMap) : Grow s (swap s sc slot).1 := by
  unfold swap
  cases getRef s slot with
  | none => exact Grow.refl s
  | some r =>
    refine ⟨rfl, fun x hl => Or.inl ⟨?_, rfl⟩⟩
    simp only [live, modRef, mem_keys_insert] at hl
    rcases hl with (hl | hl) | hl
    · subst hl; exact Or.inr hsc
    · exact Or.inl (mem_keys_erase hl)
    · exact Or.inr (mem_keys_erase hl)

theorem grow_updateAll (s : St) (scs : List Sc) : Grow s (updateAll s scs).1 := by
  unfold updateAll
  suffices h : ∀ (acc : St × List Event), Grow s acc.1 →
      Grow s (scs.foldl (fun (acc : St × List Event) sc =>
        ({ acc.1 with scAddrs := insert acc.1.scAddrs sc acc.1.addrs }, acc.2 ++ [.upd sc acc.1.addrs, .connect sc])) acc).1 from
    h (s, []) (Grow.refl s)
  induction scs with
  | nil => intro acc h; exact h
  | cons x xs ih =>
    intro acc h; simp only [List.foldl_cons]
    refine ih _ (h.trans ⟨rfl, fun y hl => ?_⟩)
    simp only [lookup_insert]
    by_cases hxy : x = y
    · right; simp [hxy]
    · left; exact ⟨hl, by simp [hxy]⟩

theorem grow_ccsConfigure (s : St) : Grow s (ccsConfigure s).1 := by
  unfold ccsConfigure
  split
  · exact Grow.refl s
  · exact (show Grow s { s with cfg := some (initialCfg s.cfgIn) } from (grow_of_same ⟨rfl, rfl, rfl, rfl⟩)).trans (grow_enforce _ _ _)

theorem grow_place (s : St) (call : Nat) (slot : Slot) (cmd : Cmd) (loc : Loc) (key : String) (ctx : CtxKind)
    (dl : Option Int) : Grow s (place s call slot cmd loc key ctx dl).1 := by
  unfold place; cases getRef s slot <;> exact (grow_of_same ⟨rfl, rfl, rfl, rfl⟩)

theorem grow_getReady (s : St) (c : Cfg) (key : String) : Grow s (getReadySubConnRef s c key).1 := by
  unfold getReadySubConnRef
  repeat' split
  all_goals exact (grow_of_same ⟨rfl, rfl, rfl, rfl⟩)

theorem grow_getLeastBusy (s : St) (c : Cfg) (l : List Slot) : Grow s (getLeastBusy s c l).1 := by
  unfold getLeastBusy
  cases leastBusy s l with
  | none => exact Grow.refl s
  | some m =>
    simp only
    split
    · exact Grow.refl s
    · split
      · exact grow_newSubConn s
      · exact Grow.refl s

theorem grow_chooseSlot (s : St) (c : Cfg) (l : List Slot) (key : String) : Grow s (chooseSlot s c l key).1 := by
  unfold chooseSlot
  split
  · have h1 := grow_getReady s c key
    generalize getReadySubConnRef s c key = r at h1 ⊢
    obtain ⟨s1, o, b⟩ := r
    cases b with
    | true => exact h1
    | false => exact h1.trans (grow_getLeastBusy s1 c l)
  · exact grow_getLeastBusy s c l

theorem grow_finishPick (s : St) (r : Option Slot) (ev : List Event) (call : Nat) (cmd : Cmd) (loc : Loc)
    (key : String) (ctx : CtxKind) (dl : Option Int) : Grow s (finishPick s r ev call cmd loc key ctx dl).1 := by
  unfold finishPick
  cases r with
  | none => exact Grow.refl s
  | some slot =>
    simp only
    have := grow_place s call slot cmd loc key ctx dl
    generalize place s call slot cmd loc key ctx dl = p at this ⊢
    obtain ⟨s1, o⟩ := p
    cases o <;> exact this

theorem grow_opPick (s : St) (call pn : Nat) (m : String) (ctx : CtxKind) (dl : Option Int) (req : Req) :
    Grow s (opPick s call pn m ctx dl req).1 := by
  unfold opPick
  split
  · exact Grow.refl s
  · cases s.published[pn]? with
    | none => exact Grow.refl s
    | some pub =>
      obtain ⟨st, p⟩ := pub
      cases p with
      | errTF => exact Grow.refl s
      | errNoSc => exact Grow.refl s
      | gcp l =>
        simp only
        cases s.cfg with
        | none => exact Grow.refl s
        | some c =>
          simp only
          split
          · exact Grow.refl s
          · generalize resolveCall c m ctx req = rc
            obtain ⟨cmd, loc, ok⟩ := rc
            cases ok with
            | none => exact Grow.refl s
            | some key =>
              simp only
              split
              · unfold pickRR
                split
                · exact Grow.refl s
                · simp only
                  split
                  · exact (show Grow s { s with rr := (s.rr + 1) % 2 ^ 64 } from (grow_of_same ⟨rfl, rfl, rfl, rfl⟩)).trans
                      (grow_finishPick _ _ _ _ _ _ _ _ _)
                  · exact (grow_of_same ⟨rfl, rfl, rfl, rfl⟩)
              · have h1 := grow_chooseSlot s c l key
                generalize chooseSlot s c l key = r at h1 ⊢
                obtain ⟨s1, o, ev⟩ := r
                exact h1.trans (grow_finishPick s1 _ _ _ _ _ _ _ _)

theorem grow_bump (s : St) (sc : Sc) (d : Int) : Grow s (bumpAffinity s sc d) := by
  unfold bumpAffinity; split <;> exact (grow_of_same ⟨rfl, rfl, rfl, rfl⟩)

theorem grow_bind (s : St) (k : String) (sc : Sc) : Grow s (bindSubConn s k sc) := by
  unfold bindSubConn
  refine Grow.trans ?_ (grow_bump _ sc 1)
  unfold addBinding; split <;> exact (grow_of_same ⟨rfl, rfl, rfl, rfl⟩)

theorem grow_foldl_bind (keys : List String) (sc : Sc) (s : St) :
    Grow s (keys.foldl (fun s k => bindSubConn s k sc) s) := by
  induction keys generalizing s with
  | nil => exact Grow.refl s
  | cons k ks ih => exact (grow_bind s k sc).trans (ih _)

theorem grow_applyBindings (s : St) (call : Call) (reply : Msg) : Grow s (applyBindings s call reply) := by
  unfold applyBindings
  cases call.cmd with
  | bound => exact Grow.refl s
  | unbind =>
    simp only
    unfold unbindSubConn
    cases lookup s.affinity call.boundKey with
    | none => exact Grow.refl s
    | some sc => exact (grow_bump s sc (-1)).trans (grow_of_same ⟨rfl, rfl, rfl, rfl⟩)
  | bind =>
    simp only
    split
    · exact Grow.refl s
    · split
      · exact Grow.refl s
      · split
        · exact Grow.refl s
        · exact grow_foldl_bind _ _ s

theorem grow_detect (s : St) (c : Cfg) (call : Call) (err : ErrKind) : Grow s (detectUnresponsive s c call err).1 := by
  unfold detectUnresponsive
  split
  · exact Grow.refl s
  · split
    · exact grow_modRef _ _ _
    · cases getRef s call.slot with
      | none => exact Grow.refl s
      | some r =>
        simp only
        split
        · exact Grow.refl s
        · split
          · exact (grow_modRef s call.slot (fun r => { r with deCalls := satInc r.deCalls })).trans (grow_refresh _ _)
          · exact grow_modRef _ _ _

theorem grow_opDone (s : St) (callId : Nat) (err : ErrKind) (reply : Msg) : Grow s (opDone s callId err reply).1 := by
  unfold opDone
  cases s.calls.find? (fun c => c.id == callId) with
  | none => exact Grow.refl s
  | some call =>
    simp only
    cases s.cfg with
    | none => exact Grow.refl s
    | some c =>
      simp only
      have h1 : Grow s (completeCall s call) := by unfold completeCall; exact (grow_of_same ⟨rfl, rfl, rfl, rfl⟩)
      have h2 := grow_detect (completeCall s call) c call err
      generalize detectUnresponsive (completeCall s call) c call err = r at h2 ⊢
      obtain ⟨s2, ev⟩ := r
      simp only at h2 ⊢
      split
      · exact h1.trans h2
      · exact (h1.trans h2).trans (grow_applyBindings s2 call reply)

theorem grow_opCtxDone (s : St) (callId : Nat) : Grow s (opCtxDone s callId).1 := by
  unfold opCtxDone
  cases s.waiters.find? (fun w => w.id == callId) with
  | none => exact Grow.refl s
  | some w =>
    simp only
    have hp := (show Grow s { s with waiters := s.waiters.filter fun x => x.id != callId } from (grow_of_same ⟨rfl, rfl, rfl, rfl⟩)).trans
      (grow_place _ w.id w.slot .bind w.loc "" w.ctx w.dl)
    unfold placeWaiter
    generalize place { s with waiters := s.waiters.filter fun x => x.id != callId } w.id w.slot .bind w.loc "" w.ctx w.dl = r at hp ⊢
    obtain ⟨s1, o⟩ := r
    cases o <;> exact hp

theorem grow_wake (s : St) : Grow s (wakeWaiters s).1 := by
  unfold wakeWaiters
  suffices hs : ∀ (ws : List Waiter) (acc : St × List Event), Grow s acc.1 →
      Grow s (ws.foldl (fun (acc : St × List Event) w =>
        if slotReady acc.1 w.slot then
          match placeWaiter { acc.1 with waiters := acc.1.waiters.filter fun x => x.id != w.id } w with
          | (s, some sc) => (s, acc.2 ++ [.woke w.id sc])
          | (_, none) => acc
        else acc) acc).1 from hs s.waiters (s, []) (Grow.refl s)
  intro ws
  induction ws with
  | nil => intro acc h; exact h
  | cons w ws ih =>
    intro acc hacc
    simp only [List.foldl_cons]
    apply ih
    split
    · have hp := (hacc.trans (show Grow acc.1 { acc.1 with waiters := acc.1.waiters.filter fun x => x.id != w.id } from (grow_of_same ⟨rfl, rfl, rfl, rfl⟩))).trans
        (grow_place _ w.id w.slot .bind w.loc "" w.ctx w.dl)
      unfold placeWaiter
      generalize place { acc.1 with waiters := acc.1.waiters.filter fun x => x.id != w.id } w.id w.slot .bind w.loc "" w.ctx w.dl = r at hp ⊢
      obtain ⟨s1, o⟩ := r
      cases o with
      | none => exact hacc
      | some sc => exact hp
    · exact hacc


/-! ### state reports -/

theorem grow_recordState (s : St) (sc : Sc) (st : CState) : Grow s (recordState s sc st).1 := by
  unfold recordState
  cases st
  case shutdown =>
    refine ⟨rfl, fun x hl => Or.inl ⟨?_, rfl⟩⟩
    simp only [live] at hl
    rcases hl with hl | hl
    · exact Or.inl (mem_keys_erase hl)
    · exact Or.inr hl
  all_goals exact grow_of_same ⟨rfl, rfl, rfl, rfl⟩

theorem grow_cleanFallback (s : St) (sc : Sc) (a b : CState) : Grow s (cleanFallback s sc a b) := by
  unfold cleanFallback
  simp only
  split <;> split <;> exact grow_of_same ⟨rfl, rfl, rfl, rfl⟩

theorem grow_recordTransition (s : St) (a b : CState) : Grow s (recordTransition s a b) := by
  unfold recordTransition updCounter
  cases a <;> cases b <;> exact grow_of_same ⟨rfl, rfl, rfl, rfl⟩

theorem grow_maybePublish (s : St) (a b c : CState) (o : List Slot) : Grow s (maybePublish s a b c o).1 := by
  unfold maybePublish
  split
  · unfold regeneratePicker
    split <;> exact grow_of_same ⟨rfl, rfl, rfl, rfl⟩
  · exact Grow.refl s

theorem grow_opScs (s : St) (sc : Sc) (st : CState) (order : List Slot) : Grow s (opScs s sc st order).1 := by
  unfold opScs
  have hpre : ∀ p, scsPrologue s sc st = some p → Grow s p.1 := by
    intro p hp
    unfold scsPrologue at hp
    cases hl : lookup s.refreshingMap sc with
    | none => simp [hl] at hp; subst hp; exact Grow.refl s
    | some slot =>
      simp only [hl] at hp
      split at hp
      · cases hp
      · cases hp
        exact grow_swap s sc slot (lookup_isSome.mp (by rw [hl]; rfl))
  cases hp : scsPrologue s sc st with
  | none => exact Grow.refl s
  | some p =>
    obtain ⟨s1, ev0⟩ := p
    have h1 : Grow s s1 := hpre (s1, ev0) hp
    simp only
    cases hst : stateOf s1 sc with
    | none => exact h1
    | some oldS =>
      simp only
      have h2 := grow_recordState s1 sc st
      generalize recordState s1 sc st = r2 at h2 ⊢
      obtain ⟨s2, ev1⟩ := r2
      simp only at h2 ⊢
      exact ((h1.trans h2).trans ((grow_cleanFallback s2 sc oldS st).trans (grow_recordTransition _ oldS st))).trans
        (grow_maybePublish _ oldS st _ order)

/-! ### resolver updates -/

theorem updateAll_spec (s : St) (scs : List Sc) :
    (updateAll s scs).1.addrs = s.addrs ∧ (updateAll s scs).1.scRefs = s.scRefs ∧
    (updateAll s scs).1.refreshingMap = s.refreshingMap ∧
    ∀ sc ∈ scs, lookup (updateAll s scs).1.scAddrs sc = some s.addrs := by
  unfold updateAll
  suffices h : ∀ (acc : St × List Event) (done : List Sc),
      (acc.1.addrs = s.addrs ∧ acc.1.scRefs = s.scRefs ∧ acc.1.refreshingMap = s.refreshingMap ∧
        ∀ sc ∈ done, lookup acc.1.scAddrs sc = some s.addrs) →
      let r := (scs.foldl (fun (acc : St × List Event) sc =>
        ({ acc.1 with scAddrs := insert acc.1.scAddrs sc acc.1.addrs }, acc.2 ++ [.upd sc acc.1.addrs, .connect sc])) acc).1
      r.addrs = s.addrs ∧ r.scRefs = s.scRefs ∧ r.refreshingMap = s.refreshingMap ∧
        ∀ sc, (sc ∈ done ∨ sc ∈ scs) → lookup r.scAddrs sc = some s.addrs by
    have := h (s, []) [] ⟨rfl, rfl, rfl, fun _ h => by cases h⟩
    exact ⟨this.1, this.2.1, this.2.2.1, fun sc hsc => this.2.2.2 sc (Or.inr hsc)⟩
  induction scs with
  | nil =>
    intro acc done h
    exact ⟨h.1, h.2.1, h.2.2.1, fun sc hsc => by
      rcases hsc with hsc | hsc
      · exact h.2.2.2 sc hsc
      · cases hsc⟩
  | cons x xs ih =>
    intro acc done h
    simp only [List.foldl_cons]
    have := ih ({ acc.1 with scAddrs := insert acc.1.scAddrs x acc.1.addrs }, acc.2 ++ [.upd x acc.1.addrs, .connect x]) (x :: done)
      ⟨h.1, h.2.1, h.2.2.1, fun sc hsc => by
        simp only [lookup_insert]
        by_cases hx : x = sc
        · simp [hx, h.1]
        · simp only [hx, ↓reduceIte]
          rcases List.mem_cons.mp hsc with hsc | hsc
          · exact absurd hsc.symm hx
          · exact h.2.2.2 sc hsc⟩
    refine ⟨this.1, this.2.1, this.2.2.1, fun sc hsc => this.2.2.2 sc ?_⟩
    rcases hsc with hsc | hsc
    · exact Or.inl (List.mem_cons_of_mem _ hsc)
    · rcases List.mem_cons.mp hsc with hsc | hsc
      · exact Or.inl (hsc ▸ List.mem_cons_self)
      · exact Or.inr hsc

theorem live_in_targets (s : St) (sc : Sc) (h : live s sc) : sc ∈ ccsTargets s := by
  unfold ccsTargets sortedKeys
  split
  · rename_i he
    have : s.scRefs = [] := by simpa using he
    rcases h with h | h
    · simp [this, keys] at h
    · simpa [keys] using h
  · rcases h with h | h
    · simp only [List.mem_mergeSort, List.mem_append]; right; simpa [keys] using h
    · simp only [List.mem_mergeSort, List.mem_append]; left; simpa [keys] using h

/-- a resolver update reaches every live connection, whatever the state before -/
theorem addrsCur_opCcs (s : St) (ver : Nat) : AddrsCur (opCcs s ver).1 ∧ (opCcs s ver).1.addrs = ver := by
  unfold opCcs
  have h1 := grow_ccsConfigure { s with addrs := ver }
  generalize ccsConfigure { s with addrs := ver } = r1 at h1 ⊢
  obtain ⟨s1, ev0⟩ := r1
  simp only at h1 ⊢
  have h2 := updateAll_spec s1 (ccsTargets s1)
  have hcur : AddrsCur (updateAll s1 (ccsTargets s1)).1 := by
    intro sc hl
    rw [h2.1]
    apply h2.2.2.2
    apply live_in_targets
    unfold live at hl ⊢
    rw [h2.2.1, h2.2.2.1] at hl
    exact hl
  have hver : (updateAll s1 (ccsTargets s1)).1.addrs = ver := h2.1.trans h1.1
  generalize updateAll s1 (ccsTargets s1) = r2 at hcur hver ⊢
  obtain ⟨s2, ev1⟩ := r2
  simp only at hcur hver ⊢
  split
  · have h3 := grow_enforce s2 (match s2.cfg with | some c => c.min | none => 1) (match s2.cfg with | some c => c.min | none => 1)
    generalize enforceMinSize s2 (match s2.cfg with | some c => c.min | none => 1) (match s2.cfg with | some c => c.min | none => 1) = r3 at h3 ⊢
    obtain ⟨s3, ev2⟩ := r3
    exact ⟨addrsCur_of_grow hcur h3, h3.1.trans hver⟩
  · exact ⟨hcur, hver⟩

theorem addrsCur_step {s : St} (h : AddrsCur s) (op : Op) : AddrsCur (step s op).1 := by
  have h1 : AddrsCur (stepCore s op).1 := by
    cases op with
    | ccs ver => exact (addrsCur_opCcs s ver).1
    | reserr => exact h
    | scs sc st order => exact addrsCur_of_grow h (grow_opScs s sc st order)
    | factory n => exact addrsCur_of_grow h (grow_of_same ⟨rfl, rfl, rfl, rfl⟩)
    | adv ns => exact addrsCur_of_grow h (grow_of_same ⟨rfl, rfl, rfl, rfl⟩)
    | pick call pn m ctx dl req => exact addrsCur_of_grow h (grow_opPick s call pn m ctx dl req)
    | ctxdone call => exact addrsCur_of_grow h (grow_opCtxDone s call)
    | done call err reply => exact addrsCur_of_grow h (grow_opDone s call err reply)
    | pickHold call pn m ctx dl req =>
      refine addrsCur_of_grow h ?_
      exact opPickHold_cases (Grow s) s call pn m ctx dl req (grow_of_same ⟨rfl, rfl, rfl, rfl⟩)
        (fun _ => grow_of_same ⟨rfl, rfl, rfl, rfl⟩) (grow_opPick s call pn m ctx dl req)
    | resume call =>
      refine addrsCur_of_grow h ?_
      exact opResume_cases (Grow s) s call (grow_of_same ⟨rfl, rfl, rfl, rfl⟩)
        (fun _ => grow_of_same ⟨rfl, rfl, rfl, rfl⟩)
        (fun hl _ _ _ => (show Grow s { s with held := hl } from grow_of_same ⟨rfl, rfl, rfl, rfl⟩).trans (grow_newSubConn _))
  unfold step
  generalize stepCore s op = r at h1 ⊢
  obtain ⟨s1, ev⟩ := r
  have h2 := addrsCur_of_grow h1 (grow_wake s1)
  simp only at h2 ⊢
  generalize wakeWaiters s1 = r2 at h2 ⊢
  obtain ⟨s2, ev2⟩ := r2
  exact h2

theorem addrsCur_init (ci : CfgInput) : AddrsCur (init ci) := by
  intro sc hl
  simp [live, init, keys] at hl

theorem addrsCur_run (ci : CfgInput) (ops : List Op) : AddrsCur (run (init ci) ops) := by
  unfold run
  suffices h : ∀ s, AddrsCur s → AddrsCur (ops.foldl (fun s op => (step s op).1) s) from h _ (addrsCur_init ci)
  induction ops with
  | nil => intro s h; exact h
  | cons op ops ih => intro s h; exact ih _ (addrsCur_step h op)

/-! ## C20 -/

/-- **C20** after every history, every connection that belongs to the pool — including those added
    by growth and by re-creating an emptied pool — and every replacement connection of a refresh
    still in flight (so also from the moment it takes over its channel) was last given the most
    recently resolved address list -/
theorem addrs_current (ci : CfgInput) (ops : List Op) (sc : Sc)
    (h : sc ∈ keys (run (init ci) ops).scRefs ∨ sc ∈ keys (run (init ci) ops).refreshingMap) :
    lookup (run (init ci) ops).scAddrs sc = some (run (init ci) ops).addrs :=
  addrsCur_run ci ops sc h

/-! ### "has been asked to (re)connect" -/

theorem updateAll_connects (s : St) (scs : List Sc) : ∀ sc ∈ scs, Event.connect sc ∈ (updateAll s scs).2 := by
  unfold updateAll
  suffices h : ∀ (acc : St × List Event) (sc : Sc),
      (Event.connect sc ∈ acc.2 ∨ sc ∈ scs) →
      Event.connect sc ∈ (scs.foldl (fun (acc : St × List Event) sc =>
        ({ acc.1 with scAddrs := insert acc.1.scAddrs sc acc.1.addrs }, acc.2 ++ [.upd sc acc.1.addrs, .connect sc])) acc).2 from
    fun sc hsc => h (s, []) sc (Or.inr hsc)
  induction scs with
  | nil =>
    intro acc sc h
    rcases h with h | h
    · exact h
    · cases h
  | cons x xs ih =>
    intro acc sc h
    simp only [List.foldl_cons]
    apply ih
    rcases h with h | h
    · left; simp [h]
    · rcases List.mem_cons.mp h with h | h
      · left; simp [h]
      · right; exact h

theorem addSubConn_connects (s : St) (x : Sc) (hl : live (addSubConn s).1 x) :
    live s x ∨ Event.connect x ∈ (addSubConn s).2.2 := by
  unfold addSubConn at hl ⊢
  have hc : (ccNewSubConn s).1.scRefs = s.scRefs ∧ (ccNewSubConn s).1.refreshingMap = s.refreshingMap := by
    unfold ccNewSubConn; split
    · exact ⟨rfl, rfl⟩
    · split <;> exact ⟨rfl, rfl⟩
  generalize ccNewSubConn s = r at hl hc ⊢
  obtain ⟨s1, o, ev⟩ := r
  cases o with
  | none =>
    left; unfold live at hl ⊢; simp only at hl hc; rw [hc.1, hc.2] at hl; exact hl
  | some sc =>
    simp only [live, mem_keys_insert] at hl hc ⊢
    rcases hl with (hl | hl) | hl
    · right; simp [hl]
    · left; left; rw [← hc.1]; exact hl
    · left; right; rw [← hc.2]; exact hl

theorem enforce_connects (s : St) (min fuel : Nat) (x : Sc) (hl : live (enforceMinSize s min fuel).1 x) :
    live s x ∨ Event.connect x ∈ (enforceMinSize s min fuel).2 := by
  induction fuel generalizing s with
  | zero => left; simpa [enforceMinSize] using hl
  | succ fuel ih =>
    unfold enforceMinSize at hl ⊢
    split at hl
    · rename_i hlt
      simp only [hlt, ↓reduceIte]
      have h3 := addSubConn_connects s x
      generalize addSubConn s = r at hl h3 ⊢
      obtain ⟨s1, ok, ev⟩ := r
      cases ok with
      | true =>
        simp only at hl h3 ⊢
        have h4 := ih s1
        generalize enforceMinSize s1 min fuel = r2 at hl h4 ⊢
        obtain ⟨s2, ev'⟩ := r2
        simp only at hl h4 ⊢
        rcases h4 hl with h | h
        · rcases h3 h with h' | h'
          · left; exact h'
          · right; simp [h']
        · right; simp [h]
      | false =>
        simp only at hl h3 ⊢
        exact h3 hl
    · rename_i hlt
      simp only [hlt, ↓reduceIte]
      left; exact hl

/-- **C20** a resolver update asks every connection the balancer then holds to (re)connect -/
theorem ccs_connects_all (s : St) (ver : Nat) (sc : Sc) (hl : live (opCcs s ver).1 sc) :
    Event.connect sc ∈ (opCcs s ver).2 := by
  unfold opCcs at hl ⊢
  generalize ccsConfigure { s with addrs := ver } = r1 at hl ⊢
  obtain ⟨s1, ev0⟩ := r1
  simp only at hl ⊢
  have h2 := updateAll_spec s1 (ccsTargets s1)
  have hev := updateAll_connects s1 (ccsTargets s1)
  have hin : ∀ x, live (updateAll s1 (ccsTargets s1)).1 x → Event.connect x ∈ (updateAll s1 (ccsTargets s1)).2 := by
    intro x hx
    apply hev
    apply live_in_targets
    unfold live at hx ⊢
    rw [h2.2.1, h2.2.2.1] at hx
    exact hx
  generalize updateAll s1 (ccsTargets s1) = r2 at hl hin ⊢
  obtain ⟨s2, ev1⟩ := r2
  simp only at hl hin ⊢
  split
  · rename_i he
    simp only [he, ↓reduceIte] at hl
    have h3 := enforce_connects s2 (match s2.cfg with | some c => c.min | none => 1) (match s2.cfg with | some c => c.min | none => 1) sc
    generalize enforceMinSize s2 (match s2.cfg with | some c => c.min | none => 1) (match s2.cfg with | some c => c.min | none => 1) = r3 at hl h3 ⊢
    obtain ⟨s3, ev2⟩ := r3
    simp only at hl h3 ⊢
    rcases h3 hl with h | h
    · have := hin sc h; simp [this]
    · simp [h]
  · rename_i he
    simp only [he, Bool.false_eq_true, ↓reduceIte] at hl
    have := hin sc hl; simp [this]

/-- the address list in force is the one of the last resolver update -/
theorem ccs_sets_addrs (s : St) (ver : Nat) : (stepCore s (.ccs ver)).1.addrs = ver :=
  (addrsCur_opCcs s ver).2

/-- non-vacuity: a history with two resolver updates, growth to two connections and a refresh in
    flight has live connections, all with list 2 -/
example : (run (init .absent) [.ccs 1, .scs 0 .ready [0], .ccs 2]).scAddrs = [(0, 2)] ∧
    keys (run (init .absent) [.ccs 1, .scs 0 .ready [0], .ccs 2]).scRefs = [0] := by decide +kernel

end GcpVerif.Pool
