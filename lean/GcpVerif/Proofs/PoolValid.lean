/-
C05 at Reach level for the pool: after every history, no call into the balancer or a picker takes
one of the branches on which the Go code would dereference nil, index an empty list or divide by
zero.  The model marks those branches with the event `res "PANIC"`; the theorem is that the event
never occurs.

Invariant `Valid`: every slot number stored anywhere (slot table, published pickers, calls in
flight, waiting picks) denotes an existing slot, and slots exist only after configuration.
-/
import GcpVerif.Proofs.PoolTables
namespace GcpVerif.Pool

def okSlot (s : St) (slot : Slot) : Prop := slot < s.refs.length

/-- a picker that can be used: it was built from a configured, non-empty pool and lists existing slots -/
def okPicker (s : St) : Picker → Prop
  | .gcp l => s.refs.length ≠ 0 ∧ ∀ slot ∈ l, okSlot s slot
  | _ => True

structure Valid (s : St) : Prop where
  cfgNone : s.cfg = none → s.refs.length = 0
  refOf : ∀ sc slot, lookup s.scRefs sc = some slot → okSlot s slot
  pubOk : ∀ q ∈ s.published, okPicker s q.2
  pickerOk : okPicker s s.picker
  callsOk : ∀ c ∈ s.calls, okSlot s c.slot
  waitOk : ∀ w ∈ s.waiters, okSlot s w.slot

/-- what one stage may do: everything it stores is inherited or valid afterwards -/
structure Step (s s' : St) : Prop where
  len : s.refs.length ≤ s'.refs.length
  cfg : s'.cfg = s.cfg
  grow : s'.refs.length = s.refs.length ∨ s.cfg ≠ none
  refOf : ∀ sc slot, lookup s'.scRefs sc = some slot → lookup s.scRefs sc = some slot ∨ okSlot s' slot
  pub : ∀ q ∈ s'.published, q ∈ s.published ∨ okPicker s' q.2
  picker : s'.picker = s.picker ∨ okPicker s' s'.picker
  calls : ∀ c ∈ s'.calls, c ∈ s.calls ∨ okSlot s' c.slot
  waits : ∀ w ∈ s'.waiters, w ∈ s.waiters ∨ okSlot s' w.slot

theorem okSlot_mono {s s' : St} (h : s.refs.length ≤ s'.refs.length) {slot : Slot} (hs : okSlot s slot) : okSlot s' slot :=
  Nat.lt_of_lt_of_le hs h

theorem okPicker_mono {s s' : St} (h : s.refs.length ≤ s'.refs.length) {p : Picker} (hp : okPicker s p) : okPicker s' p := by
  cases p with
  | gcp l =>
    refine ⟨fun h0 => hp.1 (by omega), fun slot hm => okSlot_mono h (hp.2 slot hm)⟩
  | errTF => trivial
  | errNoSc => trivial

theorem Step.refl (s : St) : Step s s :=
  ⟨Nat.le_refl _, rfl, Or.inl rfl, fun _ _ h => Or.inl h, fun _ h => Or.inl h, Or.inl rfl, fun _ h => Or.inl h, fun _ h => Or.inl h⟩

theorem Step.trans {a b c : St} (h1 : Step a b) (h2 : Step b c) : Step a c := by
  constructor
  · exact Nat.le_trans h1.len h2.len
  · exact h2.cfg.trans h1.cfg
  · rcases h1.grow with g1 | g1
    · rcases h2.grow with g2 | g2
      · left; omega
      · right; rw [← h1.cfg]; exact g2
    · right; exact g1
  · intro sc slot h
    rcases h2.refOf sc slot h with h' | h'
    · rcases h1.refOf sc slot h' with h'' | h''
      · exact Or.inl h''
      · exact Or.inr (okSlot_mono h2.len h'')
    · exact Or.inr h'
  · intro q h
    rcases h2.pub q h with h' | h'
    · rcases h1.pub q h' with h'' | h''
      · exact Or.inl h''
      · exact Or.inr (okPicker_mono h2.len h'')
    · exact Or.inr h'
  · rcases h2.picker with h' | h'
    · rcases h1.picker with h'' | h''
      · exact Or.inl (h'.trans h'')
      · right; rw [h']; exact okPicker_mono h2.len h''
    · exact Or.inr h'
  · intro q h
    rcases h2.calls q h with h' | h'
    · rcases h1.calls q h' with h'' | h''
      · exact Or.inl h''
      · exact Or.inr (okSlot_mono h2.len h'')
    · exact Or.inr h'
  · intro q h
    rcases h2.waits q h with h' | h'
    · rcases h1.waits q h' with h'' | h''
      · exact Or.inl h''
      · exact Or.inr (okSlot_mono h2.len h'')
    · exact Or.inr h'

theorem valid_of_step {s s' : St} (h : Valid s) (st : Step s s') : Valid s' := by
  constructor
  · intro hc
    rw [st.cfg] at hc
    rcases st.grow with g | g
    · rw [g]; exact h.cfgNone hc
    · exact absurd hc g
  · intro sc slot hl
    rcases st.refOf sc slot hl with h' | h'
    · exact okSlot_mono st.len (h.refOf sc slot h')
    · exact h'
  · intro q hq
    rcases st.pub q hq with h' | h'
    · exact okPicker_mono st.len (h.pubOk q h')
    · exact h'
  · rcases st.picker with h' | h'
    · rw [h']; exact okPicker_mono st.len h.pickerOk
    · exact h'
  · intro c hc
    rcases st.calls c hc with h' | h'
    · exact okSlot_mono st.len (h.callsOk c h')
    · exact h'
  · intro c hc
    rcases st.waits c hc with h' | h'
    · exact okSlot_mono st.len (h.waitOk c h')
    · exact h'

/-- the stage touches none of the fields the invariant reads (slot *contents* may change) -/
def SameV (s s' : St) : Prop :=
  s'.cfg = s.cfg ∧ s'.refs.length = s.refs.length ∧ s'.scRefs = s.scRefs ∧ s'.published = s.published ∧
  s'.picker = s.picker ∧ s'.calls = s.calls ∧ s'.waiters = s.waiters

theorem step_of_same {s s' : St} (e : SameV s s') : Step s s' := by
  obtain ⟨e1, e2, e3, e4, e5, e6, e7⟩ := e
  constructor
  · omega
  · exact e1
  · exact Or.inl e2
  · intro sc slot h; rw [e3] at h; exact Or.inl h
  · intro q h; rw [e4] at h; exact Or.inl h
  · exact Or.inl e5
  · intro q h; rw [e6] at h; exact Or.inl h
  · intro q h; rw [e7] at h; exact Or.inl h

theorem modRef_len (s : St) (slot : Slot) (f : RefSt → RefSt) : (modRef s slot f).refs.length = s.refs.length := by
  simp [modRef]

theorem step_modRef (s : St) (slot : Slot) (f : RefSt → RefSt) : Step s (modRef s slot f) :=
  step_of_same ⟨rfl, modRef_len s slot f, rfl, rfl, rfl, rfl, rfl⟩

theorem getRef_some_ok {s : St} {slot : Slot} {r : RefSt} (h : getRef s slot = some r) : okSlot s slot := by
  unfold getRef at h
  unfold okSlot
  exact (List.getElem?_eq_some_iff.mp h).1

theorem getRef_of_ok {s : St} {slot : Slot} (h : okSlot s slot) : ∃ r, getRef s slot = some r := by
  unfold getRef
  exact ⟨s.refs[slot], List.getElem?_eq_getElem h⟩

/-! ### events: the inner stages emit no result event at all -/

def Event.isRes : Event → Bool
  | .res _ => true
  | _ => false

def noRes (ev : List Event) : Prop := ∀ e ∈ ev, e.isRes = false

theorem noRes_nil : noRes [] := fun _ h => by cases h

theorem noRes_append {a b : List Event} (ha : noRes a) (hb : noRes b) : noRes (a ++ b) := by
  intro e he
  rcases List.mem_append.mp he with h | h
  · exact ha e h
  · exact hb e h

def noPanic (ev : List Event) : Prop := Event.res "PANIC" ∉ ev

theorem noPanic_of_noRes {ev : List Event} (h : noRes ev) : noPanic ev := fun hm => by
  have := h _ hm
  simp [Event.isRes] at this

theorem noPanic_append {a b : List Event} (ha : noPanic a) (hb : noPanic b) : noPanic (a ++ b) := by
  intro he
  rcases List.mem_append.mp he with h | h
  · exact ha h
  · exact hb h

/-! ### creating connections -/

theorem step_ccNew (s : St) : Step s (ccNewSubConn s).1 ∧ noRes (ccNewSubConn s).2.2 := by
  unfold ccNewSubConn; split
  · exact ⟨Step.refl s, by intro e he; simp at he; subst he; rfl⟩
  · split
    · exact ⟨step_of_same ⟨rfl, rfl, rfl, rfl, rfl, rfl, rfl⟩, by intro e he; simp at he; subst he; rfl⟩
    · exact ⟨step_of_same ⟨rfl, rfl, rfl, rfl, rfl, rfl, rfl⟩, by intro e he; simp at he; subst he; rfl⟩

theorem step_addSubConn (s : St) (hc : s.cfg ≠ none) : Step s (addSubConn s).1 ∧ noRes (addSubConn s).2.2 := by
  unfold addSubConn
  have h := step_ccNew s
  generalize ccNewSubConn s = r at h ⊢
  obtain ⟨s1, o, ev⟩ := r
  cases o with
  | none => exact h
  | some sc =>
    refine ⟨h.1.trans ?_, noRes_append h.2 (by intro e he; simp at he; subst he; rfl)⟩
    have hc1 : s1.cfg ≠ none := by rw [h.1.cfg]; exact hc
    constructor
    · simp
    · rfl
    · exact Or.inr hc1
    · intro x slot hl
      simp only [lookup_insert] at hl
      by_cases hx : sc = x
      · simp only [hx, ↓reduceIte, Option.some.injEq] at hl
        right; subst hl; simp [okSlot]
      · simp only [hx, ↓reduceIte] at hl
        exact Or.inl hl
    · intro q hq; exact Or.inl hq
    · exact Or.inl rfl
    · intro q hq; exact Or.inl hq
    · intro q hq; exact Or.inl hq

theorem addSubConn_cfg (s : St) : (addSubConn s).1.cfg = s.cfg := by
  unfold addSubConn
  have h := (step_ccNew s).1.cfg
  generalize ccNewSubConn s = r at h ⊢
  obtain ⟨s1, o, ev⟩ := r
  cases o with
  | none => exact h
  | some sc => exact h

theorem step_newSubConn (s : St) (hc : s.cfg ≠ none) : Step s (newSubConn s).1 ∧ noRes (newSubConn s).2 := by
  unfold newSubConn; split
  · exact ⟨Step.refl s, noRes_nil⟩
  · exact step_addSubConn s hc

theorem step_enforce (s : St) (hc : s.cfg ≠ none) (min fuel : Nat) :
    Step s (enforceMinSize s min fuel).1 ∧ noRes (enforceMinSize s min fuel).2 := by
  induction fuel generalizing s with
  | zero => exact ⟨Step.refl s, noRes_nil⟩
  | succ fuel ih =>
    unfold enforceMinSize
    split
    · have h := step_addSubConn s hc
      have hcfg := addSubConn_cfg s
      generalize addSubConn s = r at h hcfg ⊢
      obtain ⟨s1, ok, ev⟩ := r
      cases ok with
      | true =>
        simp only
        have h2 := ih s1 (by rw [hcfg]; exact hc)
        exact ⟨h.1.trans h2.1, noRes_append h.2 h2.2⟩
      | false => exact h
    · exact ⟨Step.refl s, noRes_nil⟩

theorem step_refresh (s : St) (slot : Slot) : Step s (refresh s slot).1 ∧ noRes (refresh s slot).2 := by
  unfold refresh
  cases getRef s slot with
  | none => exact ⟨Step.refl s, noRes_nil⟩
  | some r =>
    simp only
    split
    · exact ⟨Step.refl s, noRes_nil⟩
    · have h2 := step_ccNew (modRef s slot fun r => { r with refreshing := true })
      generalize ccNewSubConn (modRef s slot fun r => { r with refreshing := true }) = rr at h2 ⊢
      obtain ⟨s1, o, ev⟩ := rr
      cases o with
      | none => exact ⟨((step_modRef s slot _).trans h2.1).trans (step_modRef s1 slot _), h2.2⟩
      | some sc =>
        exact ⟨((step_modRef s slot _).trans h2.1).trans (step_of_same ⟨rfl, rfl, rfl, rfl, rfl, rfl, rfl⟩),
          noRes_append h2.2 (by intro e he; simp at he; subst he; rfl)⟩

theorem step_swap (s : St) (sc : Sc) (slot : Slot) : Step s (swap s sc slot).1 ∧ noRes (swap s sc slot).2 := by
  unfold swap
  cases hg : getRef s slot with
  | none => exact ⟨Step.refl s, noRes_nil⟩
  | some r =>
    refine ⟨?_, by intro e he; simp at he; subst he; rfl⟩
    have hok : okSlot s slot := getRef_some_ok hg
    constructor
    · simp [modRef]
    · rfl
    · left; simp [modRef]
    · intro x sl hl
      simp only [modRef, lookup_insert] at hl
      by_cases hx : sc = x
      · simp only [hx, ↓reduceIte, Option.some.injEq] at hl
        right; subst hl; simpa [okSlot, modRef] using hok
      · simp only [hx, ↓reduceIte, lookup_erase] at hl
        split at hl
        · cases hl
        · exact Or.inl hl
    · intro q hq; exact Or.inl hq
    · exact Or.inl rfl
    · intro q hq; exact Or.inl hq
    · intro q hq; exact Or.inl hq

theorem step_updateAll (s : St) (scs : List Sc) : Step s (updateAll s scs).1 ∧ noRes (updateAll s scs).2 := by
  unfold updateAll
  suffices h : ∀ (acc : St × List Event), (Step s acc.1 ∧ noRes acc.2) →
      Step s (scs.foldl (fun (acc : St × List Event) sc =>
        ({ acc.1 with scAddrs := insert acc.1.scAddrs sc acc.1.addrs }, acc.2 ++ [.upd sc acc.1.addrs, .connect sc])) acc).1 ∧
      noRes (scs.foldl (fun (acc : St × List Event) sc =>
        ({ acc.1 with scAddrs := insert acc.1.scAddrs sc acc.1.addrs }, acc.2 ++ [.upd sc acc.1.addrs, .connect sc])) acc).2 from
    h (s, []) ⟨Step.refl s, noRes_nil⟩
  induction scs with
  | nil => intro acc h; exact h
  | cons x xs ih =>
    intro acc h; simp only [List.foldl_cons]
    exact ih _ ⟨h.1.trans (step_of_same ⟨rfl, rfl, rfl, rfl, rfl, rfl, rfl⟩),
      noRes_append h.2 (by intro e he; simp at he; rcases he with he | he <;> subst he <;> rfl)⟩

/-! ### state reports -/

theorem step_recordState (s : St) (sc : Sc) (st : CState) : Step s (recordState s sc st).1 ∧ noRes (recordState s sc st).2 := by
  unfold recordState
  cases st
  case shutdown =>
    refine ⟨?_, noRes_nil⟩
    constructor
    · exact Nat.le_refl _
    · rfl
    · exact Or.inl rfl
    · intro x sl hl
      simp only [lookup_erase] at hl
      split at hl
      · cases hl
      · exact Or.inl hl
    · intro q hq; exact Or.inl hq
    · exact Or.inl rfl
    · intro q hq; exact Or.inl hq
    · intro q hq; exact Or.inl hq
  case idle => exact ⟨step_of_same ⟨rfl, rfl, rfl, rfl, rfl, rfl, rfl⟩, by intro e he; simp at he; subst he; rfl⟩
  all_goals exact ⟨step_of_same ⟨rfl, rfl, rfl, rfl, rfl, rfl, rfl⟩, noRes_nil⟩

theorem step_cleanFallback (s : St) (sc : Sc) (a b : CState) : Step s (cleanFallback s sc a b) := by
  unfold cleanFallback
  simp only
  split <;> split <;> exact step_of_same ⟨rfl, rfl, rfl, rfl, rfl, rfl, rfl⟩

theorem step_recordTransition (s : St) (a b : CState) : Step s (recordTransition s a b) := by
  unfold recordTransition updCounter
  cases a <;> cases b <;> exact step_of_same ⟨rfl, rfl, rfl, rfl, rfl, rfl, rfl⟩

theorem readySlots_ok {s : St} (h : Valid s) : ∀ slot ∈ readySlots s, okSlot s slot := by
  intro slot hm
  unfold readySlots at hm
  obtain ⟨p, _, hp⟩ := List.mem_filterMap.mp hm
  exact h.refOf p.1 slot hp

theorem regenerate_ok {s : St} (h : Valid s) (hne : s.refs.length ≠ 0) (order : List Slot) :
    okPicker s (regeneratePicker s order).picker ∧ (regeneratePicker s order).cfg = s.cfg ∧
    (regeneratePicker s order).refs = s.refs ∧ (regeneratePicker s order).scRefs = s.scRefs ∧
    (regeneratePicker s order).published = s.published ∧ (regeneratePicker s order).calls = s.calls ∧
    (regeneratePicker s order).waiters = s.waiters := by
  unfold regeneratePicker
  split
  · exact ⟨trivial, rfl, rfl, rfl, rfl, rfl, rfl⟩
  · refine ⟨⟨hne, ?_⟩, rfl, rfl, rfl, rfl, rfl, rfl⟩
    intro slot hm
    split at hm
    · rename_i heq
      have heq' : order.mergeSort (· ≤ ·) = (readySlots s).mergeSort (· ≤ ·) := by simpa using heq
      have : slot ∈ order.mergeSort (· ≤ ·) := List.mem_mergeSort.mpr hm
      rw [heq'] at this
      exact readySlots_ok h slot (List.mem_mergeSort.mp this)
    · exact readySlots_ok h slot (List.mem_mergeSort.mp hm)

theorem step_maybePublish {s : St} (h : Valid s) (hne : s.refs.length ≠ 0) (a b c : CState) (order : List Slot) :
    Step s (maybePublish s a b c order).1 ∧ noRes (maybePublish s a b c order).2 := by
  unfold maybePublish
  split
  · obtain ⟨hp, e1, e2, e3, e4, e5, e6⟩ := regenerate_ok h hne order
    refine ⟨?_, by intro e he; simp at he; subst he; rfl⟩
    have hp' : okPicker { regeneratePicker s order with
        published := (regeneratePicker s order).published ++ [((regeneratePicker s order).aggr, (regeneratePicker s order).picker)] }
        (regeneratePicker s order).picker := by
      cases hpk : (regeneratePicker s order).picker with
      | gcp l =>
        rw [hpk] at hp
        exact ⟨by show (regeneratePicker s order).refs.length ≠ 0; rw [e2]; exact hp.1,
               fun slot hm => by show slot < (regeneratePicker s order).refs.length; rw [e2]; exact hp.2 slot hm⟩
      | errTF => trivial
      | errNoSc => trivial
    constructor
    · show s.refs.length ≤ (regeneratePicker s order).refs.length; rw [e2]; exact Nat.le_refl _
    · exact e1
    · left; show (regeneratePicker s order).refs.length = s.refs.length; rw [e2]
    · intro x sl hl; left; rw [← e3]; exact hl
    · intro q hq
      simp only [List.mem_append, List.mem_singleton] at hq
      rcases hq with hq | hq
      · left; rw [← e4]; exact hq
      · right; subst hq; exact hp'
    · right; exact hp'
    · intro q hq; left; rw [← e5]; exact hq
    · intro q hq; left; rw [← e6]; exact hq
  · exact ⟨Step.refl s, noRes_nil⟩

theorem step_opScs {s : St} (h : Valid s) (t : Tables s) (sc : Sc) (st : CState) (order : List Slot) :
    Step s (opScs s sc st order).1 ∧ noPanic (opScs s sc st order).2 := by
  unfold opScs
  have hpre : ∀ p, scsPrologue s sc st = some p → Step s p.1 ∧ noRes p.2 ∧ Tables p.1 := by
    intro p hp
    unfold scsPrologue at hp
    cases hl : lookup s.refreshingMap sc with
    | none => simp [hl] at hp; subst hp; exact ⟨Step.refl s, noRes_nil, t⟩
    | some slot =>
      simp only [hl] at hp
      split at hp
      · cases hp
      · cases hp
        exact ⟨(step_swap s sc slot).1, (step_swap s sc slot).2, tables_swap t sc slot (lookup_isSome.mp (by rw [hl]; rfl))⟩
  have hok : noPanic [Event.res "ok"] := by simp [noPanic]
  cases hp : scsPrologue s sc st with
  | none =>
    refine ⟨Step.refl s, ?_⟩
    simp only
    split <;> simp [noPanic]
  | some p =>
    obtain ⟨s1, ev0⟩ := p
    obtain ⟨h1, hev0, t1⟩ := hpre (s1, ev0) hp
    simp only at h1 hev0 t1 ⊢
    cases hst : stateOf s1 sc with
    | none => exact ⟨h1, noPanic_append (noPanic_of_noRes hev0) hok⟩
    | some oldS =>
      simp only
      have v1 := valid_of_step h h1
      -- the reported connection has a slot, so the pool is not empty
      have hne : s1.refs.length ≠ 0 := by
        have hk : sc ∈ keys s1.scRefs := (t1.keysEq sc).mp (lookup_isSome.mp (by unfold stateOf at hst; rw [hst]; rfl))
        have := lookup_isSome.mpr hk
        cases hl : lookup s1.scRefs sc with
        | none => rw [hl] at this; cases this
        | some slot => exact Nat.ne_of_gt (Nat.lt_of_le_of_lt (Nat.zero_le _) (v1.refOf sc slot hl))
      have h2 := step_recordState s1 sc st
      generalize recordState s1 sc st = r2 at h2 ⊢
      obtain ⟨s2, ev1⟩ := r2
      simp only at h2 ⊢
      have h3 : Step s1 (recordTransition (cleanFallback s2 sc oldS st) oldS st) :=
        h2.1.trans ((step_cleanFallback s2 sc oldS st).trans (step_recordTransition _ oldS st))
      have v3 := valid_of_step v1 h3
      have hne3 : (recordTransition (cleanFallback s2 sc oldS st) oldS st).refs.length ≠ 0 := by
        have := h3.len; omega
      have h4 := step_maybePublish v3 hne3 oldS st (cleanFallback s2 sc oldS st).aggr order
      generalize maybePublish (recordTransition (cleanFallback s2 sc oldS st) oldS st) oldS st
        (cleanFallback s2 sc oldS st).aggr order = r4 at h4 ⊢
      obtain ⟨s4, ev2⟩ := r4
      exact ⟨(h1.trans h3).trans h4.1,
        noPanic_append (noPanic_append (noPanic_append (noPanic_of_noRes hev0) (noPanic_of_noRes h2.2)) (noPanic_of_noRes h4.2)) hok⟩

/-! ### resolver updates -/

theorem valid_ccsConfigure {s : St} (h : Valid s) :
    Valid (ccsConfigure s).1 ∧ (ccsConfigure s).1.cfg ≠ none ∧ noRes (ccsConfigure s).2 := by
  unfold ccsConfigure
  cases hc : s.cfg with
  | some c => exact ⟨h, by rw [hc]; simp, noRes_nil⟩
  | none =>
    simp only
    have v0 : Valid { s with cfg := some (initialCfg s.cfgIn) } :=
      ⟨fun hx => (by cases hx), h.refOf, h.pubOk, h.pickerOk, h.callsOk, h.waitOk⟩
    have hs := step_enforce { s with cfg := some (initialCfg s.cfgIn) } (by simp) (initialCfg s.cfgIn).min (initialCfg s.cfgIn).min
    exact ⟨valid_of_step v0 hs.1, by rw [hs.1.cfg]; simp, hs.2⟩

theorem valid_opCcs {s : St} (h : Valid s) (ver : Nat) : Valid (opCcs s ver).1 ∧ noPanic (opCcs s ver).2 := by
  unfold opCcs
  have v0 : Valid { s with addrs := ver } := ⟨h.cfgNone, h.refOf, h.pubOk, h.pickerOk, h.callsOk, h.waitOk⟩
  have h1 := valid_ccsConfigure v0
  generalize ccsConfigure { s with addrs := ver } = r1 at h1 ⊢
  obtain ⟨s1, ev0⟩ := r1
  simp only at h1 ⊢
  have h2 := step_updateAll s1 (ccsTargets s1)
  generalize updateAll s1 (ccsTargets s1) = r2 at h2 ⊢
  obtain ⟨s2, ev1⟩ := r2
  simp only at h2 ⊢
  have v2 := valid_of_step h1.1 h2.1
  have hok : noPanic [Event.res "ok"] := by simp [noPanic]
  split
  · have h3 := step_enforce s2 (by rw [h2.1.cfg]; exact h1.2.1) (match s2.cfg with | some c => c.min | none => 1) (match s2.cfg with | some c => c.min | none => 1)
    generalize enforceMinSize s2 (match s2.cfg with | some c => c.min | none => 1) (match s2.cfg with | some c => c.min | none => 1) = r3 at h3 ⊢
    obtain ⟨s3, ev2⟩ := r3
    exact ⟨valid_of_step v2 h3.1,
      noPanic_append (noPanic_append (noPanic_append (noPanic_of_noRes h1.2.2) (noPanic_of_noRes h2.2)) (noPanic_of_noRes h3.2)) hok⟩
  · exact ⟨v2, noPanic_append (noPanic_append (noPanic_of_noRes h1.2.2) (noPanic_of_noRes h2.2)) hok⟩

/-! ### Pick -/

theorem step_place (s : St) (call : Nat) (slot : Slot) (cmd : Cmd) (loc : Loc) (key : String) (ctx : CtxKind)
    (dl : Option Int) : Step s (place s call slot cmd loc key ctx dl).1 := by
  unfold place
  cases hg : getRef s slot with
  | none => exact Step.refl s
  | some r =>
    have hok := getRef_some_ok hg
    constructor
    · simp [modRef]
    · rfl
    · left; simp [modRef]
    · intro x sl hl; exact Or.inl hl
    · intro q hq; exact Or.inl hq
    · exact Or.inl rfl
    · intro c hc
      simp only [modRef, List.mem_append, List.mem_singleton] at hc
      rcases hc with hc | hc
      · exact Or.inl hc
      · right; subst hc; simpa [okSlot, modRef] using hok
    · intro q hq; exact Or.inl hq

theorem place_some {s : St} {slot : Slot} (hok : okSlot s slot) (call : Nat) (cmd : Cmd) (loc : Loc) (key : String)
    (ctx : CtxKind) (dl : Option Int) : ∃ sc, (place s call slot cmd loc key ctx dl).2 = some sc := by
  obtain ⟨r, hr⟩ := getRef_of_ok hok
  unfold place
  rw [hr]
  exact ⟨r.subConn, rfl⟩

theorem step_getReady {s : St} (h : Valid s) (c : Cfg) (key : String) :
    Step s (getReadySubConnRef s c key).1 ∧
    ∀ slot, (getReadySubConnRef s c key).2.1 = some slot → okSlot (getReadySubConnRef s c key).1 slot := by
  unfold getReadySubConnRef
  cases lookup s.affinity key with
  | none => exact ⟨Step.refl s, fun _ hx => by cases hx⟩
  | some sc =>
    simp only
    split
    · split
      · cases lookup s.fallback key with
        | some sc' => exact ⟨Step.refl s, fun slot hx => h.refOf sc' slot hx⟩
        | none =>
          simp only
          cases hpk : s.picker with
          | errTF => exact ⟨Step.refl s, fun _ hx => by cases hx⟩
          | errNoSc => exact ⟨Step.refl s, fun _ hx => by cases hx⟩
          | gcp l =>
            simp only
            cases leastBusy s l with
            | none => exact ⟨Step.refl s, fun _ hx => by cases hx⟩
            | some slot =>
              simp only
              cases hg : getRef s slot with
              | none => exact ⟨Step.refl s, fun _ hx => by cases hx⟩
              | some r =>
                refine ⟨step_of_same ⟨rfl, rfl, rfl, rfl, hpk.symm, rfl, rfl⟩, fun sl hx => ?_⟩
                simp only [Option.some.injEq] at hx
                subst hx
                exact getRef_some_ok hg
      · exact ⟨Step.refl s, fun _ hx => by cases hx⟩
    · exact ⟨Step.refl s, fun slot hx => h.refOf sc slot hx⟩

theorem step_getLeastBusy {s : St} (hc : s.cfg ≠ none) (c : Cfg) (l : List Slot) (hl : ∀ slot ∈ l, okSlot s slot) :
    Step s (getLeastBusy s c l).1 ∧ noRes (getLeastBusy s c l).2.2 ∧
    ∀ slot, (getLeastBusy s c l).2.1 = some slot → okSlot (getLeastBusy s c l).1 slot := by
  unfold getLeastBusy
  cases hlb : leastBusy s l with
  | none => exact ⟨Step.refl s, noRes_nil, fun _ hx => by cases hx⟩
  | some m =>
    have hm : okSlot s m := hl m (leastBusy_spec hlb).1
    simp only
    split
    · exact ⟨Step.refl s, noRes_nil, fun slot hx => by simp only [Option.some.injEq] at hx; subst hx; exact hm⟩
    · split
      · have hn := step_newSubConn s hc
        generalize newSubConn s = r at hn ⊢
        obtain ⟨s1, ev⟩ := r
        exact ⟨hn.1, hn.2, fun _ hx => by cases hx⟩
      · exact ⟨Step.refl s, noRes_nil, fun slot hx => by simp only [Option.some.injEq] at hx; subst hx; exact hm⟩

theorem step_chooseSlot {s : St} (h : Valid s) (hc : s.cfg ≠ none) (c : Cfg) (l : List Slot)
    (hl : ∀ slot ∈ l, okSlot s slot) (key : String) :
    Step s (chooseSlot s c l key).1 ∧ noRes (chooseSlot s c l key).2.2 ∧
    ∀ slot, (chooseSlot s c l key).2.1 = some slot → okSlot (chooseSlot s c l key).1 slot := by
  unfold chooseSlot
  split
  · have h1 := step_getReady h c key
    generalize getReadySubConnRef s c key = r at h1 ⊢
    obtain ⟨s1, o, b⟩ := r
    cases b with
    | true => exact ⟨h1.1, noRes_nil, h1.2⟩
    | false =>
      simp only at h1 ⊢
      have h2 := step_getLeastBusy (s := s1) (by rw [h1.1.cfg]; exact hc) c l
        (fun slot hm => okSlot_mono h1.1.len (hl slot hm))
      exact ⟨h1.1.trans h2.1, h2.2.1, h2.2.2⟩
  · exact step_getLeastBusy hc c l hl

theorem step_finishPick (s : St) (r : Option Slot) (ev : List Event) (hev : noRes ev) (call : Nat) (cmd : Cmd)
    (loc : Loc) (key : String) (ctx : CtxKind) (dl : Option Int) (hr : ∀ slot, r = some slot → okSlot s slot) :
    Step s (finishPick s r ev call cmd loc key ctx dl).1 ∧ noPanic (finishPick s r ev call cmd loc key ctx dl).2 := by
  unfold finishPick
  cases r with
  | none => exact ⟨Step.refl s, noPanic_append (noPanic_of_noRes hev) (by simp [noPanic])⟩
  | some slot =>
    simp only
    have hs := step_place s call slot cmd loc key ctx dl
    obtain ⟨sc, hsc⟩ := place_some (hr slot rfl) call cmd loc key ctx dl
    generalize place s call slot cmd loc key ctx dl = p at hs hsc ⊢
    obtain ⟨s1, o⟩ := p
    simp only at hsc
    subst hsc
    exact ⟨hs, noPanic_append (noPanic_of_noRes hev) (by simp [noPanic])⟩

theorem step_pickRR (s : St) (hne : s.refs.length ≠ 0) (call : Nat) (loc : Loc) (ctx : CtxKind) (dl : Option Int) :
    Step s (pickRR s call loc ctx dl).1 ∧ noPanic (pickRR s call loc ctx dl).2 := by
  unfold pickRR
  split
  · rename_i he
    have : s.refs = [] := by simpa using he
    rw [this] at hne; exact absurd rfl hne
  · have hslot : (s.rr + 1) % 2 ^ 64 % s.refs.length < s.refs.length := Nat.mod_lt _ (Nat.pos_of_ne_zero hne)
    simp only
    split
    · have hf := step_finishPick { s with rr := (s.rr + 1) % 2 ^ 64 } (some ((s.rr + 1) % 2 ^ 64 % s.refs.length)) [] noRes_nil
        call .bind loc "" ctx dl (fun slot hx => by simp only [Option.some.injEq] at hx; subst hx; exact hslot)
      exact ⟨(step_of_same (s := s) (s' := { s with rr := (s.rr + 1) % 2 ^ 64 }) ⟨rfl, rfl, rfl, rfl, rfl, rfl, rfl⟩).trans hf.1, hf.2⟩
    · refine ⟨?_, by simp [noPanic]⟩
      constructor
      · exact Nat.le_refl _
      · rfl
      · exact Or.inl rfl
      · intro x sl hl; exact Or.inl hl
      · intro q hq; exact Or.inl hq
      · exact Or.inl rfl
      · intro q hq; exact Or.inl hq
      · intro w hw
        simp only [List.mem_append, List.mem_singleton] at hw
        rcases hw with hw | hw
        · exact Or.inl hw
        · right; subst hw; exact hslot

theorem step_opPick {s : St} (h : Valid s) (call pn : Nat) (m : String) (ctx : CtxKind) (dl : Option Int) (req : Req) :
    Step s (opPick s call pn m ctx dl req).1 ∧ noPanic (opPick s call pn m ctx dl req).2 := by
  unfold opPick
  split
  · exact ⟨Step.refl s, by simp [noPanic]⟩
  · cases hpub : s.published[pn]? with
    | none => exact ⟨Step.refl s, by simp [noPanic]⟩
    | some pub =>
      obtain ⟨st, p⟩ := pub
      have hmem : (st, p) ∈ s.published := List.mem_of_getElem? hpub
      have hpk := h.pubOk _ hmem
      cases p with
      | errTF => exact ⟨Step.refl s, by simp [noPanic]⟩
      | errNoSc => exact ⟨Step.refl s, by simp [noPanic]⟩
      | gcp l =>
        simp only
        have hne : s.refs.length ≠ 0 := hpk.1
        cases hcfg : s.cfg with
        | none => exact absurd (h.cfgNone hcfg) hne
        | some c =>
          simp only
          have hc : s.cfg ≠ none := by rw [hcfg]; simp
          split
          · exact ⟨Step.refl s, by simp [noPanic]⟩
          · generalize resolveCall c m ctx req = rc
            obtain ⟨cmd, loc, ok⟩ := rc
            cases ok with
            | none => exact ⟨Step.refl s, by simp [noPanic]⟩
            | some key =>
              simp only
              split
              · exact step_pickRR s hne call loc ctx dl
              · have h1 := step_chooseSlot h hc c l hpk.2 key
                generalize chooseSlot s c l key = r at h1 ⊢
                obtain ⟨s1, o, ev⟩ := r
                simp only at h1 ⊢
                have h2 := step_finishPick s1 o ev h1.2.1 call cmd loc key ctx dl h1.2.2
                exact ⟨h1.1.trans h2.1, h2.2⟩

/-! ### completion callbacks -/

theorem step_bump (s : St) (sc : Sc) (d : Int) : Step s (bumpAffinity s sc d) := by
  unfold bumpAffinity; split
  · exact step_modRef _ _ _
  · exact Step.refl s

theorem step_bind (s : St) (k : String) (sc : Sc) : Step s (bindSubConn s k sc) := by
  unfold bindSubConn
  refine Step.trans ?_ (step_bump _ sc 1)
  unfold addBinding; split
  · exact Step.refl s
  · exact step_of_same ⟨rfl, rfl, rfl, rfl, rfl, rfl, rfl⟩

theorem step_foldl_bind (keys : List String) (sc : Sc) (s : St) :
    Step s (keys.foldl (fun s k => bindSubConn s k sc) s) := by
  induction keys generalizing s with
  | nil => exact Step.refl s
  | cons k ks ih => exact (step_bind s k sc).trans (ih _)

theorem step_applyBindings (s : St) (call : Call) (reply : Msg) : Step s (applyBindings s call reply) := by
  unfold applyBindings
  cases call.cmd with
  | bound => exact Step.refl s
  | unbind =>
    simp only
    unfold unbindSubConn
    cases lookup s.affinity call.boundKey with
    | none => exact Step.refl s
    | some sc =>
      refine (step_bump s sc (-1)).trans ?_
      unfold dropBinding
      exact step_of_same ⟨rfl, rfl, rfl, rfl, rfl, rfl, rfl⟩
  | bind =>
    simp only
    split
    · exact Step.refl s
    · split
      · exact Step.refl s
      · split
        · exact Step.refl s
        · exact step_foldl_bind _ _ s

theorem step_detect (s : St) (c : Cfg) (call : Call) (err : ErrKind) :
    Step s (detectUnresponsive s c call err).1 ∧ noRes (detectUnresponsive s c call err).2 := by
  unfold detectUnresponsive
  split
  · exact ⟨Step.refl s, noRes_nil⟩
  · split
    · exact ⟨step_modRef _ _ _, noRes_nil⟩
    · cases getRef s call.slot with
      | none => exact ⟨Step.refl s, noRes_nil⟩
      | some r =>
        simp only
        split
        · exact ⟨Step.refl s, noRes_nil⟩
        · split
          · have hr := step_refresh (modRef s call.slot (fun r => { r with deCalls := satInc r.deCalls })) call.slot
            exact ⟨(step_modRef s call.slot (fun r => { r with deCalls := satInc r.deCalls })).trans hr.1, hr.2⟩
          · exact ⟨step_modRef _ _ _, noRes_nil⟩

theorem step_completeCall (s : St) (call : Call) : Step s (completeCall s call) := by
  unfold completeCall
  refine Step.trans ?_ (step_modRef _ _ _)
  constructor
  · exact Nat.le_refl _
  · rfl
  · exact Or.inl rfl
  · intro x sl hl; exact Or.inl hl
  · intro q hq; exact Or.inl hq
  · exact Or.inl rfl
  · intro q hq; exact Or.inl (List.mem_filter.mp hq).1
  · intro q hq; exact Or.inl hq

theorem step_opDone {s : St} (h : Valid s) (callId : Nat) (err : ErrKind) (reply : Msg) :
    Step s (opDone s callId err reply).1 ∧ noPanic (opDone s callId err reply).2 := by
  unfold opDone
  cases hf : s.calls.find? (fun c => c.id == callId) with
  | none => exact ⟨Step.refl s, by simp [noPanic]⟩
  | some call =>
    simp only
    have hmem : call ∈ s.calls := List.mem_of_find?_eq_some hf
    have hok := h.callsOk call hmem
    cases hcfg : s.cfg with
    | none =>
      have := h.cfgNone hcfg
      unfold okSlot at hok
      rw [this] at hok
      exact absurd hok (Nat.not_lt_zero _)
    | some c =>
      simp only
      have h1 := step_completeCall s call
      have h2 := step_detect (completeCall s call) c call err
      generalize detectUnresponsive (completeCall s call) c call err = r at h2 ⊢
      obtain ⟨s2, ev⟩ := r
      simp only at h2 ⊢
      have hok' : noPanic (ev ++ [Event.res "ok"]) := noPanic_append (noPanic_of_noRes h2.2) (by simp [noPanic])
      split
      · exact ⟨h1.trans h2.1, hok'⟩
      · exact ⟨(h1.trans h2.1).trans (step_applyBindings s2 call reply), hok'⟩

/-! ### waiting picks -/

theorem step_dropWaiter (s : St) (id : Nat) : Step s { s with waiters := s.waiters.filter fun x => x.id != id } := by
  constructor
  · exact Nat.le_refl _
  · rfl
  · exact Or.inl rfl
  · intro x sl hl; exact Or.inl hl
  · intro q hq; exact Or.inl hq
  · exact Or.inl rfl
  · intro q hq; exact Or.inl hq
  · intro q hq; exact Or.inl (List.mem_filter.mp hq).1

theorem step_opCtxDone {s : St} (h : Valid s) (callId : Nat) :
    Step s (opCtxDone s callId).1 ∧ noPanic (opCtxDone s callId).2 := by
  unfold opCtxDone
  cases hf : s.waiters.find? (fun w => w.id == callId) with
  | none => exact ⟨Step.refl s, by simp [noPanic]⟩
  | some w =>
    simp only
    have hmem : w ∈ s.waiters := List.mem_of_find?_eq_some hf
    have hok : okSlot { s with waiters := s.waiters.filter fun x => x.id != callId } w.slot := h.waitOk w hmem
    have hp := (step_dropWaiter s callId).trans (step_place _ w.id w.slot .bind w.loc "" w.ctx w.dl)
    obtain ⟨sc, hsc⟩ := place_some hok w.id .bind w.loc "" w.ctx w.dl
    unfold placeWaiter
    generalize place { s with waiters := s.waiters.filter fun x => x.id != callId } w.id w.slot .bind w.loc "" w.ctx w.dl = r at hp hsc ⊢
    obtain ⟨s1, o⟩ := r
    simp only at hsc
    subst hsc
    exact ⟨hp, by simp [noPanic]⟩

theorem step_wake (s : St) : Step s (wakeWaiters s).1 ∧ noRes (wakeWaiters s).2 := by
  unfold wakeWaiters
  suffices hs : ∀ (ws : List Waiter) (acc : St × List Event), (Step s acc.1 ∧ noRes acc.2) →
      Step s (ws.foldl (fun (acc : St × List Event) w =>
        if slotReady acc.1 w.slot then
          match placeWaiter { acc.1 with waiters := acc.1.waiters.filter fun x => x.id != w.id } w with
          | (s, some sc) => (s, acc.2 ++ [.woke w.id sc])
          | (_, none) => acc
        else acc) acc).1 ∧
      noRes (ws.foldl (fun (acc : St × List Event) w =>
        if slotReady acc.1 w.slot then
          match placeWaiter { acc.1 with waiters := acc.1.waiters.filter fun x => x.id != w.id } w with
          | (s, some sc) => (s, acc.2 ++ [.woke w.id sc])
          | (_, none) => acc
        else acc) acc).2 from hs s.waiters (s, []) ⟨Step.refl s, noRes_nil⟩
  intro ws
  induction ws with
  | nil => intro acc h; exact h
  | cons w ws ih =>
    intro acc hacc
    simp only [List.foldl_cons]
    apply ih
    split
    · have hp := (hacc.1.trans (step_dropWaiter acc.1 w.id)).trans
        (step_place _ w.id w.slot .bind w.loc "" w.ctx w.dl)
      unfold placeWaiter
      generalize place { acc.1 with waiters := acc.1.waiters.filter fun x => x.id != w.id } w.id w.slot .bind w.loc "" w.ctx w.dl = r at hp ⊢
      obtain ⟨s1, o⟩ := r
      cases o with
      | none => exact hacc
      | some sc => exact ⟨hp, noRes_append hacc.2 (by intro e he; simp at he; subst he; rfl)⟩
    · exact hacc

/-! ### every operation -/

theorem valid_step {s : St} (h : Valid s) (t : Tables s) (op : Op) :
    Valid (step s op).1 ∧ noPanic (step s op).2 := by
  have h1 : Valid (stepCore s op).1 ∧ noPanic (stepCore s op).2 := by
    cases op with
    | ccs ver => exact valid_opCcs h ver
    | reserr => exact ⟨h, by simp [stepCore, noPanic]⟩
    | scs sc st order => have := step_opScs h t sc st order; exact ⟨valid_of_step h this.1, this.2⟩
    | factory n => exact ⟨valid_of_step h (step_of_same ⟨rfl, rfl, rfl, rfl, rfl, rfl, rfl⟩), by simp [stepCore, noPanic]⟩
    | adv ns => exact ⟨valid_of_step h (step_of_same ⟨rfl, rfl, rfl, rfl, rfl, rfl, rfl⟩), by simp [stepCore, noPanic]⟩
    | pick call pn m ctx dl req => have := step_opPick h call pn m ctx dl req; exact ⟨valid_of_step h this.1, this.2⟩
    | ctxdone call => have := step_opCtxDone h call; exact ⟨valid_of_step h this.1, this.2⟩
    | done call err reply => have := step_opDone h call err reply; exact ⟨valid_of_step h this.1, this.2⟩
    | pickHold call pn m ctx dl req =>
      refine opPickHold_cases2 (fun r => Valid r.1 ∧ noPanic r.2) s call pn m ctx dl req ⟨h, by simp [noPanic]⟩
        (fun _ => ⟨valid_of_step h (step_of_same ⟨rfl, rfl, rfl, rfl, rfl, rfl, rfl⟩), by simp [noPanic]⟩) ?_
      have := step_opPick h call pn m ctx dl req; exact ⟨valid_of_step h this.1, this.2⟩
    | resume call =>
      refine opResume_cases2 (fun r => Valid r.1 ∧ noPanic r.2) s call ⟨h, by simp [noPanic]⟩
        (fun _ => ⟨valid_of_step h (step_of_same ⟨rfl, rfl, rfl, rfl, rfl, rfl, rfl⟩), by simp [noPanic]⟩) ?_
      intro hl c hc _
      have h' : Valid { s with held := hl } := valid_of_step h (step_of_same ⟨rfl, rfl, rfl, rfl, rfl, rfl, rfl⟩)
      have := step_newSubConn { s with held := hl } (by show s.cfg ≠ none; rw [hc]; simp)
      exact ⟨valid_of_step h' this.1, noPanic_append (noPanic_of_noRes this.2) (by simp [noPanic])⟩
  unfold step
  generalize stepCore s op = r at h1 ⊢
  obtain ⟨s1, ev⟩ := r
  have h2 := step_wake s1
  simp only at h1 h2 ⊢
  generalize wakeWaiters s1 = r2 at h2 ⊢
  obtain ⟨s2, ev2⟩ := r2
  exact ⟨valid_of_step h1.1 h2.1, noPanic_append h1.2 (noPanic_of_noRes h2.2)⟩

theorem valid_init (ci : CfgInput) : Valid (init ci) := by
  constructor
  · intro _; rfl
  · intro sc slot h; simp [init, lookup] at h
  · intro q hq; simp [init] at hq
  · simp [init, okPicker]
  · intro q hq; simp [init] at hq
  · intro q hq; simp [init] at hq

theorem valid_run (ci : CfgInput) (ops : List Op) : Valid (run (init ci) ops) := by
  unfold run
  suffices h : ∀ s, Valid s → Tables s → Valid (ops.foldl (fun s op => (step s op).1) s) from
    h _ (valid_init ci) (tables_init ci)
  induction ops with
  | nil => intro s h _; exact h
  | cons op ops ih => intro s h t; exact ih _ (valid_step h t op).1 (tables_step t op)

/-! ## C05 (pool) -/

/-- **C05** after every history, no balancer or picker entry point reaches one of the branches on
    which the Go code would panic (nil slot, empty slot list as modulus, missing configuration):
    the model's `PANIC` result never occurs -/
theorem pool_never_panics (ci : CfgInput) (ops : List Op) (op : Op) :
    Event.res "PANIC" ∉ (step (run (init ci) ops) op).2 :=
  (valid_step (valid_run ci ops) (tables_run ci ops) op).2

/-- every slot number the balancer holds denotes an existing slot -/
theorem slots_exist (ci : CfgInput) (ops : List Op) :
    (∀ sc slot, lookup (run (init ci) ops).scRefs sc = some slot → slot < (run (init ci) ops).refs.length) ∧
    (∀ c ∈ (run (init ci) ops).calls, c.slot < (run (init ci) ops).refs.length) ∧
    (∀ w ∈ (run (init ci) ops).waiters, w.slot < (run (init ci) ops).refs.length) ∧
    (∀ q ∈ (run (init ci) ops).published, ∀ l, q.2 = .gcp l → ∀ slot ∈ l, slot < (run (init ci) ops).refs.length) := by
  have h := valid_run ci ops
  refine ⟨h.refOf, h.callsOk, h.waitOk, fun q hq l hl slot hm => ?_⟩
  have := h.pubOk q hq
  rw [hl] at this
  exact this.2 slot hm

end GcpVerif.Pool
