/-
C01 at Reach level: the key table (and the fallback table) only ever name connections that are
in the pool *now* — in particular across a refresh, which replaces the connection object of a
slot — and the slot a key is bound to changes only when a BIND or UNBIND completes successfully.
-/
import GcpVerif.Proofs.PoolSlots
namespace GcpVerif.Pool

structure Keyed (s : St) : Prop where
  affOk : ∀ p ∈ s.affinity, p.2 ∈ keys s.scRefs
  fbOk : ∀ p ∈ s.fallback, p.2 ∈ keys s.scRefs

/-- a stage that removes no pool connection: every table entry is inherited or names a pool member -/
structure KStep (s s' : St) : Prop where
  mono : ∀ sc ∈ keys s.scRefs, sc ∈ keys s'.scRefs
  aff : ∀ p ∈ s'.affinity, p ∈ s.affinity ∨ p.2 ∈ keys s'.scRefs
  fb : ∀ p ∈ s'.fallback, p ∈ s.fallback ∨ p.2 ∈ keys s'.scRefs

theorem KStep.refl (s : St) : KStep s s := ⟨fun _ h => h, fun _ h => Or.inl h, fun _ h => Or.inl h⟩

theorem KStep.trans {a b c : St} (h1 : KStep a b) (h2 : KStep b c) : KStep a c := by
  refine ⟨fun sc h => h2.mono sc (h1.mono sc h), fun p hp => ?_, fun p hp => ?_⟩
  · rcases h2.aff p hp with h | h
    · rcases h1.aff p h with h' | h'
      · exact Or.inl h'
      · exact Or.inr (h2.mono _ h')
    · exact Or.inr h
  · rcases h2.fb p hp with h | h
    · rcases h1.fb p h with h' | h'
      · exact Or.inl h'
      · exact Or.inr (h2.mono _ h')
    · exact Or.inr h

theorem keyed_of_kstep {s s' : St} (h : Keyed s) (k : KStep s s') : Keyed s' := by
  refine ⟨fun p hp => ?_, fun p hp => ?_⟩
  · rcases k.aff p hp with h' | h'
    · exact k.mono _ (h.affOk p h')
    · exact h'
  · rcases k.fb p hp with h' | h'
    · exact k.mono _ (h.fbOk p h')
    · exact h'

def SameK (s s' : St) : Prop := s'.scRefs = s.scRefs ∧ s'.affinity = s.affinity ∧ s'.fallback = s.fallback

theorem kstep_of_same {s s' : St} (e : SameK s s') : KStep s s' := by
  obtain ⟨e1, e2, e3⟩ := e
  refine ⟨fun sc h => by rw [e1]; exact h, fun p hp => Or.inl (by rw [← e2]; exact hp), fun p hp => Or.inl (by rw [← e3]; exact hp)⟩

theorem mem_insert {α β : Type} [DecidableEq α] {l : List (α × β)} {k : α} {v : β} {p : α × β} (h : p ∈ insert l k v) :
    p ∈ l ∨ p = (k, v) := by
  unfold insert at h
  split at h
  · obtain ⟨q, hq, he⟩ := List.mem_map.mp h
    split at he
    · exact Or.inr he.symm
    · exact Or.inl (he ▸ hq)
  · rcases List.mem_append.mp h with h | h
    · exact Or.inl h
    · exact Or.inr (by simpa using h)

theorem kstep_modRef (s : St) (slot : Slot) (f : RefSt → RefSt) : KStep s (modRef s slot f) :=
  kstep_of_same ⟨rfl, rfl, rfl⟩

theorem kstep_ccNew (s : St) : KStep s (ccNewSubConn s).1 := by
  unfold ccNewSubConn; split
  · exact KStep.refl s
  · split <;> exact kstep_of_same ⟨rfl, rfl, rfl⟩

theorem kstep_addSubConn (s : St) : KStep s (addSubConn s).1 := by
  unfold addSubConn
  have h := kstep_ccNew s
  generalize ccNewSubConn s = r at h ⊢
  obtain ⟨s1, o, ev⟩ := r
  cases o with
  | none => exact h
  | some sc =>
    refine h.trans ⟨fun x hx => ?_, fun p hp => Or.inl hp, fun p hp => Or.inl hp⟩
    exact mem_keys_insert.mpr (Or.inr hx)

theorem kstep_newSubConn (s : St) : KStep s (newSubConn s).1 := by
  unfold newSubConn; split
  · exact KStep.refl s
  · exact kstep_addSubConn s

theorem kstep_enforce (s : St) (min fuel : Nat) : KStep s (enforceMinSize s min fuel).1 := by
  induction fuel generalizing s with
  | zero => exact KStep.refl s
  | succ fuel ih =>
    unfold enforceMinSize
    split
    · have h := kstep_addSubConn s
      generalize addSubConn s = r at h ⊢
      obtain ⟨s1, ok, ev⟩ := r
      cases ok with
      | true => simp only; exact h.trans (ih s1)
      | false => exact h
    · exact KStep.refl s

theorem kstep_refresh (s : St) (slot : Slot) : KStep s (refresh s slot).1 := by
  unfold refresh
  cases getRef s slot with
  | none => exact KStep.refl s
  | some r =>
    simp only
    split
    · exact KStep.refl s
    · have h2 := kstep_ccNew (modRef s slot fun r => { r with refreshing := true })
      generalize ccNewSubConn (modRef s slot fun r => { r with refreshing := true }) = rr at h2 ⊢
      obtain ⟨s1, o, ev⟩ := rr
      cases o with
      | none => exact ((kstep_modRef s slot _).trans h2).trans (kstep_modRef s1 slot _)
      | some sc => exact ((kstep_modRef s slot _).trans h2).trans (kstep_of_same ⟨rfl, rfl, rfl⟩)

theorem kstep_updateAll (s : St) (scs : List Sc) : KStep s (updateAll s scs).1 := by
  unfold updateAll
  suffices h : ∀ (acc : St × List Event), KStep s acc.1 →
      KStep s (scs.foldl (fun (acc : St × List Event) sc =>
        ({ acc.1 with scAddrs := insert acc.1.scAddrs sc acc.1.addrs }, acc.2 ++ [.upd sc acc.1.addrs, .connect sc])) acc).1 from
    h (s, []) (KStep.refl s)
  induction scs with
  | nil => intro acc h; exact h
  | cons x xs ih => intro acc h; simp only [List.foldl_cons]; exact ih _ (h.trans (kstep_of_same ⟨rfl, rfl, rfl⟩))

theorem kstep_ccsConfigure (s : St) : KStep s (ccsConfigure s).1 := by
  unfold ccsConfigure
  split
  · exact KStep.refl s
  · exact (show KStep s { s with cfg := some (initialCfg s.cfgIn) } from kstep_of_same ⟨rfl, rfl, rfl⟩).trans (kstep_enforce _ _ _)

theorem kstep_opCcs (s : St) (ver : Nat) : KStep s (opCcs s ver).1 := by
  unfold opCcs
  have h0 : KStep s { s with addrs := ver } := kstep_of_same ⟨rfl, rfl, rfl⟩
  have h1 := kstep_ccsConfigure { s with addrs := ver }
  generalize ccsConfigure { s with addrs := ver } = r1 at h1 ⊢
  obtain ⟨s1, ev0⟩ := r1
  simp only at h1 ⊢
  have h2 := kstep_updateAll s1 (ccsTargets s1)
  generalize updateAll s1 (ccsTargets s1) = r2 at h2 ⊢
  obtain ⟨s2, ev1⟩ := r2
  simp only at h2 ⊢
  split
  · exact ((h0.trans h1).trans h2).trans (kstep_enforce s2 _ _)
  · exact (h0.trans h1).trans h2

/-! ### Pick -/

theorem kstep_place (s : St) (call : Nat) (slot : Slot) (cmd : Cmd) (loc : Loc) (key : String) (ctx : CtxKind)
    (dl : Option Int) : KStep s (place s call slot cmd loc key ctx dl).1 := by
  unfold place; cases getRef s slot <;> exact kstep_of_same ⟨rfl, rfl, rfl⟩

theorem sub_in_pool {s : St} (b : Bij s) {slot : Slot} {r : RefSt} (hg : getRef s slot = some r) :
    r.subConn ∈ keys s.scRefs := by
  have hold : subAt s slot = some r.subConn := by unfold subAt; unfold getRef at hg; rw [hg]; rfl
  exact lookup_isSome.mp (by rw [b.slotOf slot _ hold]; rfl)

theorem kstep_getReady {s : St} (b : Bij s) (c : Cfg) (key : String) : KStep s (getReadySubConnRef s c key).1 := by
  unfold getReadySubConnRef
  cases lookup s.affinity key with
  | none => exact KStep.refl s
  | some sc =>
    simp only
    split
    · split
      · cases lookup s.fallback key with
        | some sc' => exact KStep.refl s
        | none =>
          simp only
          cases hpk : s.picker with
          | errTF => exact KStep.refl s
          | errNoSc => exact KStep.refl s
          | gcp l =>
            simp only
            cases leastBusy s l with
            | none => exact KStep.refl s
            | some slot =>
              simp only
              cases hg : getRef s slot with
              | none => exact KStep.refl s
              | some r =>
                refine ⟨fun _ h => h, fun p hp => Or.inl hp, fun p hp => ?_⟩
                rcases mem_insert hp with h | h
                · exact Or.inl h
                · right; rw [h]; exact sub_in_pool b hg
      · exact KStep.refl s
    · exact KStep.refl s

theorem kstep_getLeastBusy (s : St) (c : Cfg) (l : List Slot) : KStep s (getLeastBusy s c l).1 := by
  unfold getLeastBusy
  cases leastBusy s l with
  | none => exact KStep.refl s
  | some m =>
    simp only
    split
    · exact KStep.refl s
    · split
      · exact kstep_newSubConn s
      · exact KStep.refl s

theorem kstep_chooseSlot {s : St} (b : Bij s) (c : Cfg) (l : List Slot) (key : String) : KStep s (chooseSlot s c l key).1 := by
  unfold chooseSlot
  split
  · have h1 := kstep_getReady b c key
    generalize getReadySubConnRef s c key = r at h1 ⊢
    obtain ⟨s1, o, b⟩ := r
    cases b with
    | true => exact h1
    | false => exact h1.trans (kstep_getLeastBusy s1 c l)
  · exact kstep_getLeastBusy s c l

theorem kstep_finishPick (s : St) (r : Option Slot) (ev : List Event) (call : Nat) (cmd : Cmd) (loc : Loc)
    (key : String) (ctx : CtxKind) (dl : Option Int) : KStep s (finishPick s r ev call cmd loc key ctx dl).1 := by
  unfold finishPick
  cases r with
  | none => exact KStep.refl s
  | some slot =>
    simp only
    have := kstep_place s call slot cmd loc key ctx dl
    generalize place s call slot cmd loc key ctx dl = p at this ⊢
    obtain ⟨s1, o⟩ := p
    cases o <;> exact this

theorem kstep_opPick {s : St} (b : Bij s) (call pn : Nat) (m : String) (ctx : CtxKind) (dl : Option Int) (req : Req) :
    KStep s (opPick s call pn m ctx dl req).1 := by
  unfold opPick
  split
  · exact KStep.refl s
  · cases s.published[pn]? with
    | none => exact KStep.refl s
    | some pub =>
      obtain ⟨st, p⟩ := pub
      cases p with
      | errTF => exact KStep.refl s
      | errNoSc => exact KStep.refl s
      | gcp l =>
        simp only
        cases s.cfg with
        | none => exact KStep.refl s
        | some c =>
          simp only
          split
          · exact KStep.refl s
          · generalize resolveCall c m ctx req = rc
            obtain ⟨cmd, loc, ok⟩ := rc
            cases ok with
            | none => exact KStep.refl s
            | some key =>
              simp only
              split
              · unfold pickRR
                split
                · exact KStep.refl s
                · simp only
                  split
                  · exact (show KStep s { s with rr := (s.rr + 1) % 2 ^ 64 } from kstep_of_same ⟨rfl, rfl, rfl⟩).trans
                      (kstep_finishPick _ _ _ _ _ _ _ _ _)
                  · exact kstep_of_same ⟨rfl, rfl, rfl⟩
              · have h1 := kstep_chooseSlot b c l key
                generalize chooseSlot s c l key = r at h1 ⊢
                obtain ⟨s1, o, ev⟩ := r
                exact h1.trans (kstep_finishPick s1 _ _ _ _ _ _ _ _)

/-! ### completion callbacks -/

theorem kstep_bump (s : St) (sc : Sc) (d : Int) : KStep s (bumpAffinity s sc d) := by
  unfold bumpAffinity; split
  · exact kstep_modRef _ _ _
  · exact KStep.refl s

theorem kstep_bind (s : St) (k : String) (sc : Sc) (hsc : sc ∈ keys s.scRefs) : KStep s (bindSubConn s k sc) := by
  unfold bindSubConn
  refine KStep.trans ?_ (kstep_bump _ sc 1)
  unfold addBinding; split
  · exact KStep.refl s
  · refine ⟨fun _ h => h, fun p hp => ?_, fun p hp => Or.inl hp⟩
    rcases List.mem_append.mp hp with h | h
    · exact Or.inl h
    · right; simp only [List.mem_singleton] at h; rw [h]; exact hsc

theorem bind_scRefs (s : St) (k : String) (sc : Sc) : (bindSubConn s k sc).scRefs = s.scRefs := by
  unfold bindSubConn bumpAffinity addBinding
  split <;> split <;> rfl

theorem kstep_foldl_bind (ks : List String) (sc : Sc) (s : St) (hsc : sc ∈ keys s.scRefs) :
    KStep s (ks.foldl (fun s k => bindSubConn s k sc) s) := by
  induction ks generalizing s with
  | nil => exact KStep.refl s
  | cons k ks ih =>
    exact (kstep_bind s k sc hsc).trans (ih _ (by rw [bind_scRefs]; exact hsc))

theorem kstep_applyBindings {s : St} (b : Bij s) (call : Call) (reply : Msg) : KStep s (applyBindings s call reply) := by
  unfold applyBindings
  cases call.cmd with
  | bound => exact KStep.refl s
  | unbind =>
    simp only
    unfold unbindSubConn
    cases lookup s.affinity call.boundKey with
    | none => exact KStep.refl s
    | some sc =>
      refine (kstep_bump s sc (-1)).trans ?_
      unfold dropBinding
      exact ⟨fun _ h => h, fun p hp => Or.inl (mem_erase.mp hp).1, fun p hp => Or.inl hp⟩
  | bind =>
    simp only
    split
    · exact KStep.refl s
    · split
      · exact KStep.refl s
      · cases hg : getRef s call.slot with
        | none => exact KStep.refl s
        | some r => exact kstep_foldl_bind _ _ s (sub_in_pool b hg)

theorem kstep_detect (s : St) (c : Cfg) (call : Call) (err : ErrKind) : KStep s (detectUnresponsive s c call err).1 := by
  unfold detectUnresponsive
  split
  · exact KStep.refl s
  · split
    · exact kstep_modRef _ _ _
    · cases getRef s call.slot with
      | none => exact KStep.refl s
      | some r =>
        simp only
        split
        · exact KStep.refl s
        · split
          · exact (kstep_modRef s call.slot (fun r => { r with deCalls := satInc r.deCalls })).trans (kstep_refresh _ _)
          · exact kstep_modRef _ _ _

theorem kstep_opDone {s : St} (h : Pool1 ci s) (callId : Nat) (err : ErrKind) (reply : Msg) :
    KStep s (opDone s callId err reply).1 := by
  unfold opDone
  cases s.calls.find? (fun c => c.id == callId) with
  | none => exact KStep.refl s
  | some call =>
    simp only
    cases s.cfg with
    | none => exact KStep.refl s
    | some c =>
      simp only
      have h1 : KStep s (completeCall s call) := by unfold completeCall; exact kstep_of_same ⟨rfl, rfl, rfl⟩
      have hc1 : SameC s (completeCall s call) := by
        unfold completeCall
        exact (show SameC s { s with calls := s.calls.filter fun c => c.id != call.id } from ⟨⟨rfl, rfl, fun _ => rfl⟩, rfl, rfl⟩).trans
          (sameC_modRef _ _ _ (fun _ => rfl))
      have h2 := kstep_detect (completeCall s call) c call err
      have hc2 := sameC_detect (completeCall s call) c call err
      generalize detectUnresponsive (completeCall s call) c call err = r at h2 hc2 ⊢
      obtain ⟨s2, ev⟩ := r
      simp only at h2 hc2 ⊢
      split
      · exact h1.trans h2
      · exact (h1.trans h2).trans (kstep_applyBindings (bij_of_same h.bij (hc1.trans hc2).1) call reply)

theorem kstep_opCtxDone (s : St) (callId : Nat) : KStep s (opCtxDone s callId).1 := by
  unfold opCtxDone
  cases s.waiters.find? (fun w => w.id == callId) with
  | none => exact KStep.refl s
  | some w =>
    simp only
    have hp := (show KStep s { s with waiters := s.waiters.filter fun x => x.id != callId } from kstep_of_same ⟨rfl, rfl, rfl⟩).trans
      (kstep_place _ w.id w.slot .bind w.loc "" w.ctx w.dl)
    unfold placeWaiter
    generalize place { s with waiters := s.waiters.filter fun x => x.id != callId } w.id w.slot .bind w.loc "" w.ctx w.dl = r at hp ⊢
    obtain ⟨s1, o⟩ := r
    cases o <;> exact hp

theorem kstep_wake (s : St) : KStep s (wakeWaiters s).1 := by
  unfold wakeWaiters
  suffices hs : ∀ (ws : List Waiter) (acc : St × List Event), KStep s acc.1 →
      KStep s (ws.foldl (fun (acc : St × List Event) w =>
        if slotReady acc.1 w.slot then
          match placeWaiter { acc.1 with waiters := acc.1.waiters.filter fun x => x.id != w.id } w with
          | (s, some sc) => (s, acc.2 ++ [.woke w.id sc])
          | (_, none) => acc
        else acc) acc).1 from hs s.waiters (s, []) (KStep.refl s)
  intro ws
  induction ws with
  | nil => intro acc h; exact h
  | cons w ws ih =>
    intro acc hacc
    simp only [List.foldl_cons]
    apply ih
    split
    · have hp := (hacc.trans (show KStep acc.1 { acc.1 with waiters := acc.1.waiters.filter fun x => x.id != w.id } from kstep_of_same ⟨rfl, rfl, rfl⟩)).trans
        (kstep_place _ w.id w.slot .bind w.loc "" w.ctx w.dl)
      unfold placeWaiter
      generalize place { acc.1 with waiters := acc.1.waiters.filter fun x => x.id != w.id } w.id w.slot .bind w.loc "" w.ctx w.dl = r at hp ⊢
      obtain ⟨s1, o⟩ := r
      cases o with
      | none => exact hacc
      | some sc => exact hp
    · exact hacc

/-! ### state reports -/

theorem kstep_recordState (s : St) (sc : Sc) (st : CState) (hst : st ≠ .shutdown) : KStep s (recordState s sc st).1 := by
  unfold recordState
  cases st
  case shutdown => exact absurd rfl hst
  all_goals exact kstep_of_same ⟨rfl, rfl, rfl⟩

theorem kstep_cleanFallback (s : St) (sc : Sc) (a b : CState) : KStep s (cleanFallback s sc a b) := by
  unfold cleanFallback
  simp only
  split <;> split
  · exact ⟨fun _ h => h, fun p hp => Or.inl hp, fun p hp => Or.inl (List.mem_filter.mp (List.mem_filter.mp hp).1).1⟩
  · exact ⟨fun _ h => h, fun p hp => Or.inl hp, fun p hp => Or.inl (List.mem_filter.mp hp).1⟩
  · exact ⟨fun _ h => h, fun p hp => Or.inl hp, fun p hp => Or.inl (List.mem_filter.mp hp).1⟩
  · exact KStep.refl s

theorem kstep_recordTransition (s : St) (a b : CState) : KStep s (recordTransition s a b) := by
  unfold recordTransition updCounter
  cases a <;> cases b <;> exact kstep_of_same ⟨rfl, rfl, rfl⟩

theorem kstep_maybePublish (s : St) (a b c : CState) (o : List Slot) : KStep s (maybePublish s a b c o).1 := by
  unfold maybePublish
  split
  · unfold regeneratePicker
    split <;> exact kstep_of_same ⟨rfl, rfl, rfl⟩
  · exact KStep.refl s

/-- the swap: both tables follow the slot to its new connection -/
theorem keyed_swap {s : St} (h : Keyed s) (sc : Sc) (slot : Slot) : Keyed (swap s sc slot).1 := by
  cases hg : getRef s slot with
  | none => unfold swap; rw [hg]; exact h
  | some r =>
    obtain ⟨f1, -, f3, f4, -⟩ := swap_fields (sc := sc) hg
    have key : ∀ (l : List (String × Sc)), (∀ p ∈ l, p.2 ∈ keys s.scRefs) →
        ∀ p ∈ repoint l r.subConn sc, p.2 ∈ keys (insert (erase s.scRefs r.subConn) sc slot) := by
      intro l hl p hp
      unfold repoint at hp
      obtain ⟨q, hq, he⟩ := List.mem_map.mp hp
      split at he
      · rw [← he]; exact mem_keys_insert.mpr (Or.inl rfl)
      · rename_i hne
        rw [← he]
        apply mem_keys_insert.mpr; right
        rw [keys_erase]
        exact List.mem_filter.mpr ⟨hl q hq, by simpa using hne⟩
    constructor
    · rw [f1, f3]; exact key _ h.affOk
    · rw [f1, f4]; exact key _ h.fbOk

variable {ci : CfgInput}

theorem keyed_opScs {s : St} (h : Keyed s) (sc : Sc) (st : CState) (order : List Slot)
    (hct : st = .shutdown → lookup s.scStates sc = none) : Keyed (opScs s sc st order).1 := by
  unfold opScs
  have hpre : ∀ p, scsPrologue s sc st = some p → Keyed p.1 ∧ (st = .shutdown → p.1 = s) := by
    intro p hp
    unfold scsPrologue at hp
    cases hl : lookup s.refreshingMap sc with
    | none => simp [hl] at hp; subst hp; exact ⟨h, fun _ => rfl⟩
    | some slot =>
      simp only [hl] at hp
      split at hp
      · cases hp
      · rename_i hready
        cases hp
        exact ⟨keyed_swap h sc slot, fun hs => by subst hs; simp at hready⟩
  cases hp : scsPrologue s sc st with
  | none => exact h
  | some p =>
    obtain ⟨s1, ev0⟩ := p
    obtain ⟨h1, hs1⟩ := hpre (s1, ev0) hp
    simp only at h1 hs1 ⊢
    cases hst : stateOf s1 sc with
    | none => exact h1
    | some oldS =>
      simp only
      have hne : st ≠ .shutdown := by
        intro hsd
        have := hs1 hsd
        subst this
        have := hct hsd
        unfold stateOf at hst
        rw [this] at hst; cases hst
      have h2 := kstep_recordState s1 sc st hne
      generalize recordState s1 sc st = r2 at h2 ⊢
      obtain ⟨s2, ev1⟩ := r2
      simp only at h2 ⊢
      have h4 : KStep s1 (maybePublish (recordTransition (cleanFallback s2 sc oldS st) oldS st) oldS st
          (cleanFallback s2 sc oldS st).aggr order).1 :=
        ((h2.trans (kstep_cleanFallback s2 sc oldS st)).trans (kstep_recordTransition _ oldS st)).trans
          (kstep_maybePublish _ oldS st _ order)
      generalize maybePublish (recordTransition (cleanFallback s2 sc oldS st) oldS st) oldS st
          (cleanFallback s2 sc oldS st).aggr order = r4 at h4 ⊢
      obtain ⟨s4, ev2⟩ := r4
      exact keyed_of_kstep h1 h4

theorem keyed_step {s : St} (h : Keyed s) (h1 : Pool1 ci s) (op : Op) (hct : contractOk s op) : Keyed (step s op).1 := by
  have hc : Keyed (stepCore s op).1 := by
    cases op with
    | ccs ver => exact keyed_of_kstep h (kstep_opCcs s ver)
    | reserr => exact h
    | scs sc st order =>
      refine keyed_opScs h sc st order (fun hs => ?_)
      subst hs
      exact hct
    | factory n => exact keyed_of_kstep h (kstep_of_same ⟨rfl, rfl, rfl⟩)
    | adv ns => exact keyed_of_kstep h (kstep_of_same ⟨rfl, rfl, rfl⟩)
    | pick call pn m ctx dl req => exact keyed_of_kstep h (kstep_opPick h1.bij call pn m ctx dl req)
    | ctxdone call => exact keyed_of_kstep h (kstep_opCtxDone s call)
    | done call err reply => exact keyed_of_kstep h (kstep_opDone h1 call err reply)
    | pickHold call pn m ctx dl req =>
      refine keyed_of_kstep h ?_
      exact opPickHold_cases (KStep s) s call pn m ctx dl req (KStep.refl s) (fun _ => kstep_of_same ⟨rfl, rfl, rfl⟩)
        (kstep_opPick h1.bij call pn m ctx dl req)
    | resume call =>
      refine keyed_of_kstep h ?_
      exact opResume_cases (KStep s) s call (KStep.refl s) (fun _ => kstep_of_same ⟨rfl, rfl, rfl⟩)
        (fun hl _ _ _ => (show KStep s { s with held := hl } from kstep_of_same ⟨rfl, rfl, rfl⟩).trans (kstep_newSubConn _))
  unfold step
  generalize stepCore s op = r at hc ⊢
  obtain ⟨s1, ev⟩ := r
  have h2 := keyed_of_kstep hc (kstep_wake s1)
  simp only at h2 ⊢
  generalize wakeWaiters s1 = r2 at h2 ⊢
  obtain ⟨s2, ev2⟩ := r2
  exact h2

theorem keyed_foldl (ops : List Op) : ∀ s, Keyed s → Pool1 ci s → RunOk s ops →
    Keyed (ops.foldl (fun s op => (step s op).1) s) := by
  induction ops with
  | nil => intro s h _ _; exact h
  | cons op ops ih => intro s h h1 hr; exact ih _ (keyed_step h h1 op hr.1) (pool1_step h1 op hr.1) hr.2

theorem keyed_run (ci : CfgInput) (ops : List Op) (hok : RunOk (init ci) ops) : Keyed (run (init ci) ops) :=
  keyed_foldl ops _ ⟨fun p hp => by simp [init] at hp, fun p hp => by simp [init] at hp⟩ (pool1_init ci) hok

/-! ### the slot a key is bound to -/

/-- the slot a key is bound to (through the connection object the key table names) -/
def slotOfKey (s : St) (key : String) : Option Slot := (lookup s.affinity key).bind (lookup s.scRefs)

/-- the stage leaves the key table alone and keeps the slot of every pool connection -/
def Ext2 (s s' : St) : Prop :=
  s'.affinity = s.affinity ∧ ∀ x ∈ keys s.scRefs, lookup s'.scRefs x = lookup s.scRefs x

theorem Ext2.refl (s : St) : Ext2 s s := ⟨rfl, fun _ _ => rfl⟩

theorem Ext2.trans {a b c : St} (h1 : Ext2 a b) (h2 : Ext2 b c) : Ext2 a c := by
  refine ⟨h2.1.trans h1.1, fun x hx => ?_⟩
  have hb : x ∈ keys b.scRefs := by
    have := h1.2 x hx
    exact lookup_isSome.mp (by rw [this]; exact lookup_isSome.mpr hx)
  rw [h2.2 x hb, h1.2 x hx]

theorem ext2_of_same {s s' : St} (e1 : s'.affinity = s.affinity) (e2 : s'.scRefs = s.scRefs) : Ext2 s s' :=
  ⟨e1, fun _ _ => by rw [e2]⟩

theorem stable_of_ext2 {s s' : St} (h : Keyed s) (e : Ext2 s s') (key : String) : slotOfKey s' key = slotOfKey s key := by
  unfold slotOfKey
  rw [e.1]
  cases hl : lookup s.affinity key with
  | none => rfl
  | some x => exact e.2 x (h.affOk (key, x) (lookup_some_mem hl))

theorem ext2_modRef (s : St) (slot : Slot) (f : RefSt → RefSt) : Ext2 s (modRef s slot f) := (ext2_of_same rfl rfl)

theorem ext2_ccNew (s : St) : Ext2 s (ccNewSubConn s).1 := by
  unfold ccNewSubConn; split
  · exact Ext2.refl s
  · split <;> exact (ext2_of_same rfl rfl)

theorem ext2_addSubConn {s : St} (t : Tables s) : Ext2 s (addSubConn s).1 := by
  unfold addSubConn
  have h := ext2_ccNew s
  have hf := ccNew_fields s
  generalize ccNewSubConn s = r at h hf ⊢
  obtain ⟨s1, o, ev⟩ := r
  cases o with
  | none => exact h
  | some sc =>
    obtain ⟨e1, -, -, -, -, -, -, -, e9⟩ := hf
    simp only at e1 e9
    have hsc : sc = s.nextSc := e9 sc rfl
    refine h.trans ⟨rfl, fun x hx => ?_⟩
    have hne : sc ≠ x := by
      intro heq
      rw [e1, ← heq, hsc] at hx
      exact fresh_not_key t hx
    exact lookup_insert_ne _ _ hne

theorem ext2_newSubConn {s : St} (t : Tables s) : Ext2 s (newSubConn s).1 := by
  unfold newSubConn; split
  · exact Ext2.refl s
  · exact ext2_addSubConn t

theorem ext2_enforce {s : St} (t : Tables s) (min fuel : Nat) : Ext2 s (enforceMinSize s min fuel).1 := by
  induction fuel generalizing s with
  | zero => exact Ext2.refl s
  | succ fuel ih =>
    unfold enforceMinSize
    split
    · have h := ext2_addSubConn t
      have ht := tables_addSubConn t
      generalize addSubConn s = r at h ht ⊢
      obtain ⟨s1, ok, ev⟩ := r
      cases ok with
      | true => simp only; exact h.trans (ih ht)
      | false => exact h
    · exact Ext2.refl s

theorem ext2_refresh (s : St) (slot : Slot) : Ext2 s (refresh s slot).1 := by
  unfold refresh
  cases getRef s slot with
  | none => exact Ext2.refl s
  | some r =>
    simp only
    split
    · exact Ext2.refl s
    · have h2 := ext2_ccNew (modRef s slot fun r => { r with refreshing := true })
      generalize ccNewSubConn (modRef s slot fun r => { r with refreshing := true }) = rr at h2 ⊢
      obtain ⟨s1, o, ev⟩ := rr
      cases o with
      | none => exact ((ext2_modRef s slot _).trans h2).trans (ext2_modRef s1 slot _)
      | some sc => exact ((ext2_modRef s slot _).trans h2).trans (ext2_of_same rfl rfl)

theorem ext2_updateAll (s : St) (scs : List Sc) : Ext2 s (updateAll s scs).1 := by
  unfold updateAll
  suffices h : ∀ (acc : St × List Event), Ext2 s acc.1 →
      Ext2 s (scs.foldl (fun (acc : St × List Event) sc =>
        ({ acc.1 with scAddrs := insert acc.1.scAddrs sc acc.1.addrs }, acc.2 ++ [.upd sc acc.1.addrs, .connect sc])) acc).1 from
    h (s, []) (Ext2.refl s)
  induction scs with
  | nil => intro acc h; exact h
  | cons x xs ih => intro acc h; simp only [List.foldl_cons]; exact ih _ (h.trans (ext2_of_same rfl rfl))

theorem ext2_ccsConfigure {s : St} (t : Tables s) : Ext2 s (ccsConfigure s).1 := by
  unfold ccsConfigure
  split
  · exact Ext2.refl s
  · exact (show Ext2 s { s with cfg := some (initialCfg s.cfgIn) } from (ext2_of_same rfl rfl)).trans
      (ext2_enforce (s := { s with cfg := some (initialCfg s.cfgIn) }) (tables_of_same t ⟨rfl, rfl, rfl, rfl, rfl, rfl, rfl⟩) _ _)

theorem ext2_place (s : St) (call : Nat) (slot : Slot) (cmd : Cmd) (loc : Loc) (key : String) (ctx : CtxKind)
    (dl : Option Int) : Ext2 s (place s call slot cmd loc key ctx dl).1 := by
  unfold place; cases getRef s slot <;> exact (ext2_of_same rfl rfl)

theorem ext2_getReady (s : St) (c : Cfg) (key : String) : Ext2 s (getReadySubConnRef s c key).1 := by
  unfold getReadySubConnRef
  repeat' split
  all_goals exact (ext2_of_same rfl rfl)

theorem ext2_getLeastBusy {s : St} (t : Tables s) (c : Cfg) (l : List Slot) : Ext2 s (getLeastBusy s c l).1 := by
  unfold getLeastBusy
  cases leastBusy s l with
  | none => exact Ext2.refl s
  | some m =>
    simp only
    split
    · exact Ext2.refl s
    · split
      · exact ext2_newSubConn t
      · exact Ext2.refl s

theorem ext2_chooseSlot {s : St} (t : Tables s) (c : Cfg) (l : List Slot) (key : String) : Ext2 s (chooseSlot s c l key).1 := by
  unfold chooseSlot
  split
  · have h1 := ext2_getReady s c key
    have t1 := tables_of_same t (getReady_sameT s c key)
    generalize getReadySubConnRef s c key = r at h1 t1 ⊢
    obtain ⟨s1, o, b⟩ := r
    cases b with
    | true => exact h1
    | false => exact h1.trans (ext2_getLeastBusy t1 c l)
  · exact ext2_getLeastBusy t c l

theorem ext2_finishPick (s : St) (r : Option Slot) (ev : List Event) (call : Nat) (cmd : Cmd) (loc : Loc)
    (key : String) (ctx : CtxKind) (dl : Option Int) : Ext2 s (finishPick s r ev call cmd loc key ctx dl).1 := by
  unfold finishPick
  cases r with
  | none => exact Ext2.refl s
  | some slot =>
    simp only
    have := ext2_place s call slot cmd loc key ctx dl
    generalize place s call slot cmd loc key ctx dl = p at this ⊢
    obtain ⟨s1, o⟩ := p
    cases o <;> exact this

theorem ext2_opPick {s : St} (t : Tables s) (call pn : Nat) (m : String) (ctx : CtxKind) (dl : Option Int) (req : Req) :
    Ext2 s (opPick s call pn m ctx dl req).1 := by
  unfold opPick
  split
  · exact Ext2.refl s
  · cases s.published[pn]? with
    | none => exact Ext2.refl s
    | some pub =>
      obtain ⟨st, p⟩ := pub
      cases p with
      | errTF => exact Ext2.refl s
      | errNoSc => exact Ext2.refl s
      | gcp l =>
        simp only
        cases s.cfg with
        | none => exact Ext2.refl s
        | some c =>
          simp only
          split
          · exact Ext2.refl s
          · generalize resolveCall c m ctx req = rc
            obtain ⟨cmd, loc, ok⟩ := rc
            cases ok with
            | none => exact Ext2.refl s
            | some key =>
              simp only
              split
              · unfold pickRR
                split
                · exact Ext2.refl s
                · simp only
                  split
                  · exact (show Ext2 s { s with rr := (s.rr + 1) % 2 ^ 64 } from (ext2_of_same rfl rfl)).trans
                      (ext2_finishPick _ _ _ _ _ _ _ _ _)
                  · exact (ext2_of_same rfl rfl)
              · have h1 := ext2_chooseSlot t c l key
                generalize chooseSlot s c l key = r at h1 ⊢
                obtain ⟨s1, o, ev⟩ := r
                exact h1.trans (ext2_finishPick s1 _ _ _ _ _ _ _ _)

theorem ext2_detect (s : St) (c : Cfg) (call : Call) (err : ErrKind) : Ext2 s (detectUnresponsive s c call err).1 := by
  unfold detectUnresponsive
  split
  · exact Ext2.refl s
  · split
    · exact ext2_modRef _ _ _
    · cases getRef s call.slot with
      | none => exact Ext2.refl s
      | some r =>
        simp only
        split
        · exact Ext2.refl s
        · split
          · exact (ext2_modRef s call.slot (fun r => { r with deCalls := satInc r.deCalls })).trans (ext2_refresh _ _)
          · exact ext2_modRef _ _ _

theorem ext2_opCtxDone (s : St) (callId : Nat) : Ext2 s (opCtxDone s callId).1 := by
  unfold opCtxDone
  cases s.waiters.find? (fun w => w.id == callId) with
  | none => exact Ext2.refl s
  | some w =>
    simp only
    have hp := (show Ext2 s { s with waiters := s.waiters.filter fun x => x.id != callId } from (ext2_of_same rfl rfl)).trans
      (ext2_place _ w.id w.slot .bind w.loc "" w.ctx w.dl)
    unfold placeWaiter
    generalize place { s with waiters := s.waiters.filter fun x => x.id != callId } w.id w.slot .bind w.loc "" w.ctx w.dl = r at hp ⊢
    obtain ⟨s1, o⟩ := r
    cases o <;> exact hp

theorem ext2_wake (s : St) : Ext2 s (wakeWaiters s).1 := by
  unfold wakeWaiters
  suffices hs : ∀ (ws : List Waiter) (acc : St × List Event), Ext2 s acc.1 →
      Ext2 s (ws.foldl (fun (acc : St × List Event) w =>
        if slotReady acc.1 w.slot then
          match placeWaiter { acc.1 with waiters := acc.1.waiters.filter fun x => x.id != w.id } w with
          | (s, some sc) => (s, acc.2 ++ [.woke w.id sc])
          | (_, none) => acc
        else acc) acc).1 from hs s.waiters (s, []) (Ext2.refl s)
  intro ws
  induction ws with
  | nil => intro acc h; exact h
  | cons w ws ih =>
    intro acc hacc
    simp only [List.foldl_cons]
    apply ih
    split
    · have hp := (hacc.trans (show Ext2 acc.1 { acc.1 with waiters := acc.1.waiters.filter fun x => x.id != w.id } from (ext2_of_same rfl rfl))).trans
        (ext2_place _ w.id w.slot .bind w.loc "" w.ctx w.dl)
      unfold placeWaiter
      generalize place { acc.1 with waiters := acc.1.waiters.filter fun x => x.id != w.id } w.id w.slot .bind w.loc "" w.ctx w.dl = r at hp ⊢
      obtain ⟨s1, o⟩ := r
      cases o with
      | none => exact hacc
      | some sc => exact hp
    · exact hacc

theorem ext2_opCcs {s : St} (t : Tables s) (ver : Nat) : Ext2 s (opCcs s ver).1 := by
  unfold opCcs
  have h0 : Ext2 s { s with addrs := ver } := (ext2_of_same rfl rfl)
  have t0 : Tables { s with addrs := ver } := tables_of_same t ⟨rfl, rfl, rfl, rfl, rfl, rfl, rfl⟩
  have h1 := ext2_ccsConfigure t0
  have t1 := tables_ccsConfigure t0
  generalize ccsConfigure { s with addrs := ver } = r1 at h1 t1 ⊢
  obtain ⟨s1, ev0⟩ := r1
  simp only at h1 t1 ⊢
  have h2 := ext2_updateAll s1 (ccsTargets s1)
  have t2 := tables_of_same t1 (updateAll_sameT s1 (ccsTargets s1))
  generalize updateAll s1 (ccsTargets s1) = r2 at h2 t2 ⊢
  obtain ⟨s2, ev1⟩ := r2
  simp only at h2 t2 ⊢
  split
  · exact ((h0.trans h1).trans h2).trans (ext2_enforce t2 _ _)
  · exact (h0.trans h1).trans h2


theorem ext2_recordState (s : St) (sc : Sc) (st : CState) (hst : st ≠ .shutdown) : Ext2 s (recordState s sc st).1 := by
  unfold recordState
  cases st
  case shutdown => exact absurd rfl hst
  all_goals exact ext2_of_same rfl rfl

theorem ext2_cleanFallback (s : St) (sc : Sc) (a b : CState) : Ext2 s (cleanFallback s sc a b) := by
  unfold cleanFallback
  simp only
  split <;> split <;> exact ext2_of_same rfl rfl

theorem ext2_recordTransition (s : St) (a b : CState) : Ext2 s (recordTransition s a b) := by
  unfold recordTransition updCounter
  cases a <;> cases b <;> exact ext2_of_same rfl rfl

theorem ext2_maybePublish (s : St) (a b c : CState) (o : List Slot) : Ext2 s (maybePublish s a b c o).1 := by
  unfold maybePublish
  split
  · unfold regeneratePicker
    split <;> exact ext2_of_same rfl rfl
  · exact Ext2.refl s

/-- a completion that is not a successful BIND / UNBIND -/
theorem ext2_opDone (s : St) (callId : Nat) (err : ErrKind) (reply : Msg)
    (hq : ∀ call ∈ s.calls, call.id = callId → err ≠ .nil ∨ call.cmd = .bound) :
    Ext2 s (opDone s callId err reply).1 := by
  unfold opDone
  cases hf : s.calls.find? (fun c => c.id == callId) with
  | none => exact Ext2.refl s
  | some call =>
    simp only
    have hmem : call ∈ s.calls := List.mem_of_find?_eq_some hf
    have hid : call.id = callId := by simpa using List.find?_some hf
    cases s.cfg with
    | none => exact Ext2.refl s
    | some c =>
      simp only
      have h1 : Ext2 s (completeCall s call) := by unfold completeCall; exact ext2_of_same rfl rfl
      have h2 := ext2_detect (completeCall s call) c call err
      generalize detectUnresponsive (completeCall s call) c call err = r at h2 ⊢
      obtain ⟨s2, ev⟩ := r
      simp only at h2 ⊢
      split
      · exact h1.trans h2
      · rename_i hnil
        rcases hq call hmem hid with h | h
        · simp [h] at hnil
        · refine (h1.trans h2).trans ?_
          unfold applyBindings
          rw [h]
          exact Ext2.refl s2

theorem lookup_repoint (l : List (String × Sc)) (old new : Sc) (key : String) :
    lookup (repoint l old new) key = (lookup l key).map (fun x => if x == old then new else x) := by
  induction l with
  | nil => rfl
  | cons p l ih =>
    have ih' : lookup (List.map (fun p => if (p.2 == old) = true then (p.1, new) else p) l) key =
        (lookup l key).map (fun x => if x == old then new else x) := ih
    unfold repoint
    simp only [List.map_cons, lookup_cons]
    by_cases hp2 : p.2 = old
    · by_cases hk : p.1 = key
      · simp [hp2, hk]
      · simp only [beq_iff_eq, hp2, ↓reduceIte, hk]; simpa using ih'
    · by_cases hk : p.1 = key
      · simp [hp2, hk]
      · simp only [beq_iff_eq, hp2, ↓reduceIte, hk]; simpa using ih'

/-- the swap moves key table and slot table together -/
theorem stable_swap {s : St} (h : Keyed s) (b : Bij s) (t : Tables s) (sc : Sc) (slot : Slot)
    (hrep : sc ∈ keys s.refreshingMap) (key : String) : slotOfKey (swap s sc slot).1 key = slotOfKey s key := by
  cases hg : getRef s slot with
  | none => unfold swap; rw [hg]
  | some r =>
    obtain ⟨f1, -, f3, -⟩ := swap_fields (sc := sc) hg
    unfold slotOfKey
    rw [f1, f3]
    have hold : subAt s slot = some r.subConn := by unfold subAt; unfold getRef at hg; rw [hg]; rfl
    have hlo : lookup s.scRefs r.subConn = some slot := b.slotOf slot _ hold
    have hfresh : sc ∉ keys s.scRefs := fun hk => (t.freshF sc hrep).2 ((t.keysEq sc).mpr hk)
    have hrp := lookup_repoint s.affinity r.subConn sc key
    rw [hrp]
    cases hl : lookup s.affinity key with
    | none => rfl
    | some x =>
      simp only [Option.map_some, Option.bind_some]
      have hx : x ∈ keys s.scRefs := h.affOk (key, x) (lookup_some_mem hl)
      by_cases hxo : x = r.subConn
      · simp only [hxo, beq_self_eq_true, ↓reduceIte]
        rw [lookup_insert_self, hlo]
      · have : (x == r.subConn) = false := by simpa using hxo
        simp only [this, Bool.false_eq_true, ↓reduceIte]
        have hx1 : sc ≠ x := fun heq => hfresh (heq ▸ hx)
        rw [lookup_insert_ne _ _ hx1, lookup_erase_ne _ (Ne.symm hxo)]

variable {ci : CfgInput}

theorem stable_opScs {s : St} (h : Keyed s) (h1 : Pool1 ci s) (sc : Sc) (st : CState) (order : List Slot)
    (hct : st = .shutdown → lookup s.scStates sc = none) (key : String) :
    slotOfKey (opScs s sc st order).1 key = slotOfKey s key := by
  unfold opScs
  have hpre : ∀ p, scsPrologue s sc st = some p →
      slotOfKey p.1 key = slotOfKey s key ∧ Keyed p.1 ∧ (st = .shutdown → p.1 = s) := by
    intro p hp
    unfold scsPrologue at hp
    cases hl : lookup s.refreshingMap sc with
    | none => simp [hl] at hp; subst hp; exact ⟨rfl, h, fun _ => rfl⟩
    | some slot =>
      simp only [hl] at hp
      split at hp
      · cases hp
      · rename_i hready
        cases hp
        exact ⟨stable_swap h h1.bij h1.tab sc slot (lookup_isSome.mp (by rw [hl]; rfl)) key, keyed_swap h sc slot,
          fun hs => by subst hs; simp at hready⟩
  cases hp : scsPrologue s sc st with
  | none => rfl
  | some p =>
    obtain ⟨s1, ev0⟩ := p
    obtain ⟨e1, k1, hs1⟩ := hpre (s1, ev0) hp
    simp only at e1 k1 hs1 ⊢
    cases hst : stateOf s1 sc with
    | none => exact e1
    | some oldS =>
      simp only
      have hne : st ≠ .shutdown := by
        intro hsd
        have := hs1 hsd
        subst this
        have := hct hsd
        unfold stateOf at hst
        rw [this] at hst; cases hst
      have h2 := ext2_recordState s1 sc st hne
      generalize recordState s1 sc st = r2 at h2 ⊢
      obtain ⟨s2, ev1⟩ := r2
      simp only at h2 ⊢
      have h4 : Ext2 s1 (maybePublish (recordTransition (cleanFallback s2 sc oldS st) oldS st) oldS st
          (cleanFallback s2 sc oldS st).aggr order).1 :=
        ((h2.trans (ext2_cleanFallback s2 sc oldS st)).trans (ext2_recordTransition _ oldS st)).trans
          (ext2_maybePublish _ oldS st _ order)
      generalize maybePublish (recordTransition (cleanFallback s2 sc oldS st) oldS st) oldS st
          (cleanFallback s2 sc oldS st).aggr order = r4 at h4 ⊢
      obtain ⟨s4, ev2⟩ := r4
      exact (stable_of_ext2 k1 h4 key).trans e1

/-- the operation is the successful completion of a BIND or UNBIND call -/
def rebinds (s : St) : Op → Prop
  | .done callId .nil _ => ∃ call ∈ s.calls, call.id = callId ∧ call.cmd ≠ .bound
  | _ => False

theorem stable_step {s : St} (h : Keyed s) (h1 : Pool1 ci s) (op : Op) (hct : contractOk s op)
    (hnb : ¬ rebinds s op) (key : String) : slotOfKey (step s op).1 key = slotOfKey s key := by
  have hc : slotOfKey (stepCore s op).1 key = slotOfKey s key ∧ Keyed (stepCore s op).1 := by
    cases op with
    | ccs ver => exact ⟨stable_of_ext2 h (ext2_opCcs h1.tab ver) key, keyed_of_kstep h (kstep_opCcs s ver)⟩
    | reserr => exact ⟨rfl, h⟩
    | scs sc st order =>
      have hct' : st = .shutdown → lookup s.scStates sc = none := fun hs => by subst hs; exact hct
      exact ⟨stable_opScs h h1 sc st order hct' key, keyed_opScs h sc st order hct'⟩
    | factory n => exact ⟨rfl, keyed_of_kstep h (kstep_of_same ⟨rfl, rfl, rfl⟩)⟩
    | adv ns => exact ⟨rfl, keyed_of_kstep h (kstep_of_same ⟨rfl, rfl, rfl⟩)⟩
    | pick call pn m ctx dl req =>
      exact ⟨stable_of_ext2 h (ext2_opPick h1.tab call pn m ctx dl req) key, keyed_of_kstep h (kstep_opPick h1.bij call pn m ctx dl req)⟩
    | ctxdone call => exact ⟨stable_of_ext2 h (ext2_opCtxDone s call) key, keyed_of_kstep h (kstep_opCtxDone s call)⟩
    | done call err reply =>
      refine ⟨stable_of_ext2 h (ext2_opDone s call err reply (fun c hc hid => ?_)) key, keyed_of_kstep h (kstep_opDone h1 call err reply)⟩
      cases err with
      | nil =>
        right
        apply Classical.byContradiction
        intro hcmd
        exact hnb ⟨c, hc, hid, hcmd⟩
      | other => left; simp
      | deClient => left; simp
      | deServer => left; simp
    | pickHold call pn m ctx dl req =>
      have he : Ext2 s (opPickHold s call pn m ctx dl req).1 :=
        opPickHold_cases (Ext2 s) s call pn m ctx dl req (Ext2.refl s) (fun _ => ext2_of_same rfl rfl)
          (ext2_opPick h1.tab call pn m ctx dl req)
      have hk : KStep s (opPickHold s call pn m ctx dl req).1 :=
        opPickHold_cases (KStep s) s call pn m ctx dl req (KStep.refl s) (fun _ => kstep_of_same ⟨rfl, rfl, rfl⟩)
          (kstep_opPick h1.bij call pn m ctx dl req)
      exact ⟨stable_of_ext2 h he key, keyed_of_kstep h hk⟩
    | resume call =>
      have he : Ext2 s (opResume s call).1 :=
        opResume_cases (Ext2 s) s call (Ext2.refl s) (fun _ => ext2_of_same rfl rfl)
          (fun hl _ _ _ => (show Ext2 s { s with held := hl } from ext2_of_same rfl rfl).trans
            (ext2_newSubConn (tables_of_same h1.tab ⟨rfl, rfl, rfl, rfl, rfl, rfl, rfl⟩)))
      have hk : KStep s (opResume s call).1 :=
        opResume_cases (KStep s) s call (KStep.refl s) (fun _ => kstep_of_same ⟨rfl, rfl, rfl⟩)
          (fun hl _ _ _ => (show KStep s { s with held := hl } from kstep_of_same ⟨rfl, rfl, rfl⟩).trans (kstep_newSubConn _))
      exact ⟨stable_of_ext2 h he key, keyed_of_kstep h hk⟩
  unfold step
  generalize stepCore s op = r at hc ⊢
  obtain ⟨s1, ev⟩ := r
  have h2 := stable_of_ext2 hc.2 (ext2_wake s1) key
  simp only at h2 hc ⊢
  generalize wakeWaiters s1 = r2 at h2 ⊢
  obtain ⟨s2, ev2⟩ := r2
  exact h2.trans hc.1

/-! ## C01 -/

/-- **C01** after every history (under gRPC's contract) a bound key names a connection that is in
    the pool now and sits in a slot that holds exactly that connection — also after any number of
    refreshes of that slot.  Together with `bound_ready_home` (a BOUND / UNBIND pick for a bound
    key whose connection is READY is placed on `lookup scRefs (lookup affinity key)`) this is
    "a bound key travels on the channel it was bound to". -/
theorem bound_key_in_pool (ci : CfgInput) (ops : List Op) (hok : RunOk (init ci) ops) (key : String) (sc : Sc)
    (hb : lookup (run (init ci) ops).affinity key = some sc) :
    ∃ slot, lookup (run (init ci) ops).scRefs sc = some slot ∧ subAt (run (init ci) ops) slot = some sc := by
  have hk := (keyed_run ci ops hok).affOk (key, sc) (lookup_some_mem hb)
  have hb' := (pool1_run ci ops hok).bij
  cases hl : lookup (run (init ci) ops).scRefs sc with
  | none => exact absurd hk (lookup_eq_none.mp hl)
  | some slot => exact ⟨slot, rfl, hb'.refOf sc slot hl⟩

/-- the same for the temporary (fallback) assignment of a bound key -/
theorem fallback_key_in_pool (ci : CfgInput) (ops : List Op) (hok : RunOk (init ci) ops) (key : String) (sc : Sc)
    (hb : lookup (run (init ci) ops).fallback key = some sc) :
    ∃ slot, lookup (run (init ci) ops).scRefs sc = some slot ∧ subAt (run (init ci) ops) slot = some sc := by
  have hk := (keyed_run ci ops hok).fbOk (key, sc) (lookup_some_mem hb)
  have hb' := (pool1_run ci ops hok).bij
  cases hl : lookup (run (init ci) ops).scRefs sc with
  | none => exact absurd hk (lookup_eq_none.mp hl)
  | some slot => exact ⟨slot, rfl, hb'.refOf sc slot hl⟩

/-- **C01** the slot a key is bound to is changed by nothing but the successful completion of a
    BIND or UNBIND call: not by load, picks on current or stale pickers, failed completions, state
    reports, resolver updates, pool growth — and not by a refresh of the slot, which swaps the
    connection object under the key -/
theorem binding_stable (ci : CfgInput) (ops : List Op) (hok : RunOk (init ci) ops) (op : Op)
    (hct : contractOk (run (init ci) ops) op) (hnb : ¬ rebinds (run (init ci) ops) op) (key : String) :
    slotOfKey (step (run (init ci) ops) op).1 key = slotOfKey (run (init ci) ops) key :=
  stable_step (keyed_run ci ops hok) (pool1_run ci ops hok) op hct hnb key

/-- non-vacuity: a BIND succeeds with key "k" on slot 0, then the slot is refreshed (a call ends
    with a client-side deadline, the replacement becomes READY): the key now names connection 1,
    which sits in slot 0 -/
def c1cfg : CfgInput := .given { min := 1, max := 1, wm := 100, fb := false, rr := false, uc := 1, ums := 1, methods := true }
def c1ops : List Op := [.ccs 1, .scs 0 .ready [0],
  .pick 1 0 "bind" .gcp none (.msg ⟨"", []⟩), .done 1 .nil ⟨"k", []⟩,
  .pick 2 0 "plain" .gcp (some 0) (.msg ⟨"", []⟩), .adv 2000001, .done 2 .deClient ⟨"", []⟩,
  .scs 1 .ready [0]]
example : (run (init c1cfg) c1ops).affinity = [("k", 1)] ∧ (run (init c1cfg) c1ops).scRefs = [(1, 0)] ∧
    slotOfKey (run (init c1cfg) c1ops) "k" = some 0 ∧ slotOfKey (run (init c1cfg) (c1ops.take 4)) "k" = some 0 := by
  decide +kernel

end GcpVerif.Pool
