/-
Invariants of the MultiEndpoint model and the shape of every stepRaw (helper file).
-/
import GcpVerif.Proofs.MEBasic
namespace GcpVerif.ME

/-- the part of the invariant that `maybeUpdateCurrent` needs as input -/
structure Base (s : St) : Prop where
  rnn : 0 ≤ s.r
  dnn : 0 ≤ s.d
  nonempty : s.eps ≠ []
  idInj : ∀ a ∈ s.eps, ∀ b ∈ s.eps, a.id = b.id → a = b
  prioInj : ∀ a ∈ s.eps, ∀ b ∈ s.eps, a.prio = b.prio → a.id = b.id

/-- M1, M2, M5 of DESIGN Appendix A.1 -/
structure Inv (s : St) : Prop extends Base s where
  curMem : ∃ c, findEp s.eps s.current = some c
  m5 : ∀ c, findEp s.eps s.current = some c → c.status = .unavailable →
        ∀ e ∈ s.eps, e.status ≠ .available

/-! ### what maybeUpdateCurrent does to `current` -/

theorem muc_eq (s : St) : maybeUpdateCurrent s =
    match findEp s.eps s.current, topAvail s.eps with
    | some c, some t => if isProtected (some c) (some t) then s else switchFromTo s (some c) t
    | some _, none => s
    | none, some t => switchFromTo s none t
    | none, none => match topOf s.eps with | some t => { s with current := t.id } | none => s := by
  unfold maybeUpdateCurrent
  cases hc : findEp s.eps s.current with
  | none =>
    cases ht : topAvail s.eps with
    | none => simp only [isProtected]; cases topOf s.eps <;> rfl
    | some t => simp [isProtected]
  | some c =>
    cases ht : topAvail s.eps with
    | none => simp only; split <;> rfl
    | some t => simp only

/-- the value of `current` after `maybeUpdateCurrent`, as a function of the table, the old
    current and `d` -/
def nextCur (eps : List Ep) (cur : String) (d : Int) : String :=
  match findEp eps cur, topAvail eps with
  | some _, none => cur
  | some c, some t =>
    if isProtected (some c) (some t) then cur
    else if cur = t.id then cur
    else if d = 0 ∨ c.status = .unavailable then t.id else cur
  | none, some t => t.id
  | none, none => match topOf eps with | some t => t.id | none => cur

theorem addTimer_fields (s : St) (dl : Int) (k : TimerKind) :
    (addTimer s dl k).eps = s.eps ∧ (addTimer s dl k).current = s.current ∧
    (addTimer s dl k).r = s.r ∧ (addTimer s dl k).d = s.d ∧ (addTimer s dl k).now = s.now ∧
    (addTimer s dl k).future = s.future ∧ (addTimer s dl k).orphans = s.orphans := by
  simp [addTimer]

theorem switchFromTo_fields (s : St) (f : Option Ep) (t : Ep) :
    (switchFromTo s f t).eps = s.eps ∧ (switchFromTo s f t).r = s.r ∧
    (switchFromTo s f t).d = s.d ∧ (switchFromTo s f t).now = s.now := by
  unfold switchFromTo
  by_cases h1 : (s.current == t.id) = true
  · simp [h1]
  · by_cases h2 : (s.d == 0 || goneOrUnavailable f) = true
    · simp [h1, h2]
    · simp [h1, h2, addTimer]

theorem switchFromTo_current (s : St) (f : Option Ep) (t : Ep) :
    (switchFromTo s f t).current =
      if s.current = t.id then s.current
      else if s.d = 0 ∨ goneOrUnavailable f = true then t.id else s.current := by
  unfold switchFromTo
  by_cases h1 : s.current = t.id
  · simp [h1]
  · by_cases h2 : s.d = 0
    · simp [h1, h2]
    · by_cases h3 : goneOrUnavailable f = true
      · simp [h1, h2, h3]
      · simp [h1, h2, h3, addTimer]

theorem muc_fields (s : St) :
    (maybeUpdateCurrent s).eps = s.eps ∧ (maybeUpdateCurrent s).r = s.r ∧
    (maybeUpdateCurrent s).d = s.d ∧ (maybeUpdateCurrent s).now = s.now := by
  rw [muc_eq]
  cases findEp s.eps s.current with
  | none =>
    cases topAvail s.eps with
    | none => simp only; cases topOf s.eps <;> simp
    | some t => exact switchFromTo_fields _ _ _
  | some c =>
    cases topAvail s.eps with
    | none => simp
    | some t =>
      simp only
      split
      · simp
      · exact switchFromTo_fields _ _ _

theorem muc_current (s : St) : (maybeUpdateCurrent s).current = nextCur s.eps s.current s.d := by
  rw [muc_eq]
  unfold nextCur
  cases findEp s.eps s.current with
  | none =>
    cases topAvail s.eps with
    | none => simp only; cases topOf s.eps <;> simp
    | some t =>
      simp only [switchFromTo_current, goneOrUnavailable]
      by_cases h : s.current = t.id <;> simp [h]
  | some c =>
    cases topAvail s.eps with
    | none => simp
    | some t =>
      simp only
      by_cases hp : isProtected (some c) (some t) = true
      · simp [hp]
      · simp only [hp, Bool.false_eq_true, ↓reduceIte, switchFromTo_current, goneOrUnavailable, beq_iff_eq]

/-! ### maybeUpdateCurrent establishes the invariant -/

theorem muc_inv {s : St} (hb : Base s) : Inv (maybeUpdateCurrent s) := by
  have hf := muc_fields s
  have hcur := muc_current s
  have hbase : Base (maybeUpdateCurrent s) := by
    constructor
    · rw [hf.2.1]; exact hb.rnn
    · rw [hf.2.2.1]; exact hb.dnn
    · rw [hf.1]; exact hb.nonempty
    · rw [hf.1]; exact hb.idInj
    · rw [hf.1]; exact hb.prioInj
  refine { hbase with curMem := ?_, m5 := ?_ }
  · -- curMem
    rw [hf.1, hcur]
    unfold nextCur
    cases hc : findEp s.eps s.current with
    | none =>
      cases ht : topAvail s.eps with
      | none =>
        simp only
        cases hto : topOf s.eps with
        | none => exact absurd (topOf_eq_none.mp hto) hb.nonempty
        | some t => exact ⟨t, findEp_of_mem hb.idInj (topOf_mem hto)⟩
      | some t => exact ⟨t, findEp_of_mem hb.idInj (topAvail_mem ht).1⟩
    | some c =>
      cases ht : topAvail s.eps with
      | none => exact ⟨c, hc⟩
      | some t =>
        simp only
        split
        · exact ⟨c, hc⟩
        · split
          · exact ⟨c, hc⟩
          · split
            · exact ⟨t, findEp_of_mem hb.idInj (topAvail_mem ht).1⟩
            · exact ⟨c, hc⟩
  · -- m5
    rw [hf.1, hcur]
    intro c' hc' hun
    unfold nextCur at hc'
    cases hc : findEp s.eps s.current with
    | none =>
      cases ht : topAvail s.eps with
      | none => exact topAvail_eq_none.mp ht
      | some t =>
        simp only [hc, ht] at hc'
        have hm := topAvail_mem ht
        rw [findEp_of_mem hb.idInj hm.1] at hc'
        simp at hc'
        rw [← hc', hm.2] at hun
        cases hun
    | some c =>
      cases ht : topAvail s.eps with
      | none => exact topAvail_eq_none.mp ht
      | some t =>
        simp only [hc, ht] at hc'
        have hm := topAvail_mem ht
        have hfc := findEp_some hc
        split at hc'
        · rename_i hp
          rw [hc] at hc'; simp at hc'
          simp [isProtected] at hp
          rw [← hc', hp.1] at hun; cases hun
        · rename_i hp
          split at hc'
          · rename_i heq
            rw [heq, findEp_of_mem hb.idInj hm.1] at hc'
            simp at hc'; rw [← hc', hm.2] at hun; cases hun
          · split at hc'
            · rw [findEp_of_mem hb.idInj hm.1] at hc'
              simp at hc'; rw [← hc', hm.2] at hun; cases hun
            · rename_i hnot
              rw [hc] at hc'; simp at hc'
              rw [← hc'] at hun
              exact absurd (Or.inr hun) hnot

/-! ### table updates that keep ids and priorities -/

theorem base_of_map {s s' : St} (hb : Base s) (f : Ep → Ep)
    (hid : ∀ e, (f e).id = e.id) (hpr : ∀ e, (f e).prio = e.prio)
    (heps : s'.eps = s.eps.map f) (hr : s'.r = s.r) (hd : s'.d = s.d) : Base s' := by
  constructor
  · rw [hr]; exact hb.rnn
  · rw [hd]; exact hb.dnn
  · rw [heps]; simpa using hb.nonempty
  · rw [heps]
    intro a ha b hb' hab
    simp only [List.mem_map] at ha hb'
    obtain ⟨a0, ha0, rfl⟩ := ha
    obtain ⟨b0, hb0, rfl⟩ := hb'
    rw [hid, hid] at hab
    rw [hb.idInj a0 ha0 b0 hb0 hab]
  · rw [heps]
    intro a ha b hb' hab
    simp only [List.mem_map] at ha hb'
    obtain ⟨a0, ha0, rfl⟩ := ha
    obtain ⟨b0, hb0, rfl⟩ := hb'
    rw [hpr, hpr] at hab
    rw [hid, hid]
    exact hb.prioInj a0 ha0 b0 hb0 hab

theorem updId_eq_map (l : List Ep) (id : String) (f : Ep → Ep) :
    updId l id f = l.map (fun e => if e.id == id then f e else e) := rfl

theorem base_setStateEp {s : St} (hb : Base s) (e : Ep) (st : Status) : Base (setStateEp s e st) := by
  apply base_of_map hb (fun x => if x.id == e.id then touch st s.now x else x)
  · intro x; split <;> simp [touch]
  · intro x; split <;> simp [touch]
  · simp [setStateEp, updId]
  · simp [setStateEp]
  · simp [setStateEp]

theorem base_setStateOrphan {s : St} (hb : Base s) (e : Ep) (st : Status) : Base (setStateOrphan s e st) := by
  apply base_of_map hb id <;> simp [setStateOrphan]

theorem base_scheduleUnavailable {s : St} (hb : Base s) (e : Ep) (stamp : Option Int) :
    Base (scheduleUnavailable s e stamp) := by
  apply base_of_map hb (fun x => if x.id == e.id then { x with timer := some s.nextTid } else x)
  · intro x; split <;> simp
  · intro x; split <;> simp
  · simp [scheduleUnavailable, updId, addTimer]
  · simp [scheduleUnavailable, addTimer]
  · simp [scheduleUnavailable, addTimer]

theorem sea_fields (s : St) (id : String) (a : Bool) :
    (setEndpointAvailability s id a).current = s.current ∧
    (setEndpointAvailability s id a).r = s.r ∧ (setEndpointAvailability s id a).d = s.d := by
  unfold setEndpointAvailability
  split
  · simp
  · split
    · simp [setStateEp]
    · split
      · simp
      · split
        · simp [setStateEp]
        · simp [scheduleUnavailable, setStateEp, addTimer]

theorem base_sea {s : St} (hb : Base s) (id : String) (a : Bool) :
    Base (setEndpointAvailability s id a) := by
  unfold setEndpointAvailability
  split
  · exact hb
  · split
    · exact base_setStateEp hb _ _
    · split
      · exact hb
      · split
        · exact base_setStateEp hb _ _
        · exact base_scheduleUnavailable (base_setStateEp hb _ _) _ _

/-! ### SetEndpoints: the add/update loop -/

theorem newEndpoint_fields (s : St) (id : String) (p : Nat) :
    (newEndpoint s id p).1.eps = s.eps ∧ (newEndpoint s id p).1.current = s.current ∧
    (newEndpoint s id p).1.r = s.r ∧ (newEndpoint s id p).1.d = s.d ∧
    (newEndpoint s id p).2.id = id ∧ (newEndpoint s id p).2.prio = p := by
  unfold newEndpoint
  simp only
  split <;> simp [addTimer]

/-- loop invariant of `addOrUpdate s rest i`: entries whose id is no longer in `rest` have their
    final, pairwise distinct priorities, all below `i` -/
structure LoopInv (s : St) (rest : List String) (i : Nat) : Prop where
  idInj : ∀ a ∈ s.eps, ∀ b ∈ s.eps, a.id = b.id → a = b
  low : ∀ a ∈ s.eps, a.id ∉ rest → a.prio < i
  prioInj : ∀ a ∈ s.eps, ∀ b ∈ s.eps, a.id ∉ rest → b.id ∉ rest → a.prio = b.prio → a.id = b.id

theorem addOrUpdate_cons (s : St) (x : String) (xs : List String) (i : Nat) :
    addOrUpdate s (x :: xs) i =
      match findEp s.eps x with
      | none => addOrUpdate { (newEndpoint s x i).1 with eps := (newEndpoint s x i).1.eps ++ [(newEndpoint s x i).2] } xs (i + 1)
      | some _ => addOrUpdate { s with eps := s.eps.map fun e => if e.id == x then { e with prio := i } else e } xs (i + 1) := by
  rw [addOrUpdate]
  cases findEp s.eps x <;> rfl

theorem addOrUpdate_fields (s : St) (l : List String) (i : Nat) :
    (addOrUpdate s l i).current = s.current ∧ (addOrUpdate s l i).r = s.r ∧ (addOrUpdate s l i).d = s.d := by
  induction l generalizing s i with
  | nil => simp [addOrUpdate]
  | cons x xs ih =>
    unfold addOrUpdate
    split
    · have := newEndpoint_fields s x i
      simp only
      have h2 := ih { (newEndpoint s x i).1 with eps := (newEndpoint s x i).1.eps ++ [(newEndpoint s x i).2] } (i + 1)
      simp at h2
      rw [h2.1, h2.2.1, h2.2.2]
      exact ⟨this.2.1, this.2.2.1, this.2.2.2.1⟩
    · have h2 := ih { s with eps := s.eps.map fun e => if e.id == x then { e with prio := i } else e } (i + 1)
      simpa using h2

theorem addOrUpdate_mem_ids (s : St) (l : List String) (i : Nat) :
    ∀ id, (id ∈ l ∨ id ∈ ids s.eps) → id ∈ ids (addOrUpdate s l i).eps := by
  induction l generalizing s i with
  | nil => intro id h; simpa [addOrUpdate] using h
  | cons x xs ih =>
    intro id h
    unfold addOrUpdate
    split
    · rename_i hnone
      have hf := newEndpoint_fields s x i
      apply ih
      simp only [ids, List.map_append, List.mem_append, List.map_cons, List.map_nil, List.mem_singleton]
      rcases h with h | h
      · simp at h
        rcases h with h | h
        · right; right; rw [hf.2.2.2.2.1]; exact h
        · left; exact h
      · right; left; rw [hf.1]; exact h
    · rename_i e hsome
      apply ih
      rcases h with h | h
      · simp at h
        rcases h with h | h
        · right
          have := findEp_some hsome
          simp only [ids, List.map_map, List.mem_map, Function.comp]
          refine ⟨e, this.1, ?_⟩
          simp [this.2, h]
        · left; exact h
      · right
        simp only [ids, List.mem_map] at h ⊢
        obtain ⟨a, ha, rfl⟩ := h
        exact ⟨_, ⟨a, ha, rfl⟩, by split <;> rfl⟩

theorem addOrUpdate_loop {s : St} {l : List String} {i : Nat} (h : LoopInv s l i) :
    ∃ j, LoopInv (addOrUpdate s l i) [] j := by
  induction l generalizing s i with
  | nil => exact ⟨i, by simpa [addOrUpdate] using h⟩
  | cons x xs ih =>
    unfold addOrUpdate
    split
    · rename_i hnone
      have hf := newEndpoint_fields s x i
      have hno := findEp_none.mp hnone
      apply ih
      constructor
      · -- idInj
        intro a ha b hb hab
        simp only [List.mem_append, List.mem_singleton, hf.1] at ha hb
        rcases ha with ha | ha <;> rcases hb with hb | hb
        · exact h.idInj a ha b hb hab
        · subst hb; rw [hf.2.2.2.2.1] at hab; exact absurd hab (hno a ha)
        · subst ha; rw [hf.2.2.2.2.1] at hab; exact absurd hab.symm (hno b hb)
        · rw [ha, hb]
      · -- low
        intro a ha hnot
        simp only [List.mem_append, List.mem_singleton, hf.1] at ha
        rcases ha with ha | ha
        · have : a.id ∉ x :: xs := by
            simp only [List.mem_cons, not_or]
            exact ⟨hno a ha, hnot⟩
          have := h.low a ha this
          omega
        · subst ha; rw [hf.2.2.2.2.2]; omega
      · -- prioInj
        intro a ha b hb hna hnb hab
        simp only [List.mem_append, List.mem_singleton, hf.1] at ha hb
        have hnx : ∀ c ∈ s.eps, c.id ∉ xs → c.id ∉ x :: xs := by
          intro c hc hcn
          simp only [List.mem_cons, not_or]
          exact ⟨hno c hc, hcn⟩
        rcases ha with ha | ha <;> rcases hb with hb | hb
        · exact h.prioInj a ha b hb (hnx a ha hna) (hnx b hb hnb) hab
        · subst hb
          have := h.low a ha (hnx a ha hna)
          rw [hf.2.2.2.2.2] at hab; omega
        · subst ha
          have := h.low b hb (hnx b hb hnb)
          rw [hf.2.2.2.2.2] at hab; omega
        · rw [ha, hb]
    · rename_i e hsome
      apply ih
      constructor
      · -- idInj
        intro a ha b hb hab
        simp only [List.mem_map] at ha hb
        obtain ⟨a0, ha0, rfl⟩ := ha
        obtain ⟨b0, hb0, rfl⟩ := hb
        have hid : ∀ c : Ep, (if (c.id == x) = true then { c with prio := i } else c).id = c.id := by
          intro c; split <;> rfl
        rw [hid, hid] at hab
        rw [h.idInj a0 ha0 b0 hb0 hab]
      · -- low
        intro a ha hnot
        simp only [List.mem_map] at ha
        obtain ⟨a0, ha0, rfl⟩ := ha
        by_cases hx : a0.id = x
        · simp [hx]
        · simp only [beq_iff_eq, hx, ↓reduceIte] at hnot ⊢
          have : a0.id ∉ x :: xs := by simp [hx, hnot]
          have := h.low a0 ha0 this
          omega
      · -- prioInj
        intro a ha b hb hna hnb hab
        simp only [List.mem_map] at ha hb
        obtain ⟨a0, ha0, rfl⟩ := ha
        obtain ⟨b0, hb0, rfl⟩ := hb
        by_cases hxa : a0.id = x <;> by_cases hxb : b0.id = x
        · simp [hxa, hxb]
        · simp only [beq_iff_eq, hxa, hxb, ↓reduceIte] at hna hnb hab ⊢
          have : b0.id ∉ x :: xs := by simp [hxb, hnb]
          have := h.low b0 hb0 this
          omega
        · simp only [beq_iff_eq, hxa, hxb, ↓reduceIte] at hna hnb hab ⊢
          have : a0.id ∉ x :: xs := by simp [hxa, hna]
          have := h.low a0 ha0 this
          omega
        · simp only [beq_iff_eq, hxa, hxb, ↓reduceIte] at hna hnb hab ⊢
          exact h.prioInj a0 ha0 b0 hb0 (by simp [hxa, hna]) (by simp [hxb, hnb]) hab

theorem base_setEndpoints {s : St} (hb : Base s) (l : List String) (hl : l ≠ []) :
    Base (addOrUpdate (dropObsolete s l) l 0) := by
  have hf := addOrUpdate_fields (dropObsolete s l) l 0
  have hloop : LoopInv (dropObsolete s l) l 0 := by
    constructor
    · intro a ha b hb' hab
      simp only [dropObsolete, List.mem_filter] at ha hb'
      exact hb.idInj a ha.1 b hb'.1 hab
    · intro a ha hnot
      simp only [dropObsolete, List.mem_filter, List.contains_iff_mem] at ha
      exact absurd ha.2 hnot
    · intro a ha b _ hnot
      simp only [dropObsolete, List.mem_filter, List.contains_iff_mem] at ha
      exact absurd ha.2 hnot
  obtain ⟨j, hj⟩ := addOrUpdate_loop hloop
  constructor
  · rw [hf.2.1]; exact hb.rnn
  · rw [hf.2.2]; exact hb.dnn
  · cases l with
    | nil => exact absurd rfl hl
    | cons x xs =>
      have := addOrUpdate_mem_ids (dropObsolete s (x :: xs)) (x :: xs) 0 x (Or.inl (by simp))
      intro hnil
      rw [hnil] at this
      simp [ids] at this
  · exact hj.idInj
  · intro a ha b hb' hab
    exact hj.prioInj a ha b hb' List.not_mem_nil List.not_mem_nil hab

end GcpVerif.ME
