/-
C04.2 / C04.3 — what the balancer has published always matches the pool, for every reachable state.
-/
import GcpVerif.Proofs.PoolTables
namespace GcpVerif.Pool

/-- `aggr` is the zero value until the first transition is recorded, afterwards the aggregate of the
    pool; whatever was published last is (aggr, picker); every published picker fails fast exactly
    when its state is TRANSIENT_FAILURE -/
structure Pub (s : St) : Prop where
  aggrOk : s.aggr = .idle ∨ s.aggr = aggregate s.scStates
  last : ∀ q, s.published.getLast? = some q → q.1 = s.aggr ∧ q.2 = s.picker ∧ s.aggr ≠ .idle
  all : ∀ q ∈ s.published, (q.2 = .errTF ↔ q.1 = .tf) ∧ q.2 ≠ .errNoSc

/-- the step leaves the state table, the aggregate, the picker and the publication log alone -/
def SameP (s s' : St) : Prop :=
  s'.scStates = s.scStates ∧ s'.aggr = s.aggr ∧ s'.picker = s.picker ∧ s'.published = s.published

theorem SameP.refl (s : St) : SameP s s := ⟨rfl, rfl, rfl, rfl⟩
theorem SameP.trans {a b c : St} (h1 : SameP a b) (h2 : SameP b c) : SameP a c :=
  ⟨h2.1.trans h1.1, h2.2.1.trans h1.2.1, h2.2.2.1.trans h1.2.2.1, h2.2.2.2.trans h1.2.2.2⟩

theorem pub_of_same {s s' : St} (h : Pub s) (e : SameP s s') : Pub s' := by
  obtain ⟨e1, e2, e3, e4⟩ := e
  constructor
  · rw [e2, e1]; exact h.aggrOk
  · rw [e4, e2, e3]; exact h.last
  · rw [e4]; exact h.all

/-- a change of the state table that leaves the READY and CONNECTING counts alone keeps the aggregate -/
theorem aggregate_congr {l l' : List (Sc × CState)} (h1 : countState l' .ready = countState l .ready)
    (h2 : countState l' .connecting = countState l .connecting) : aggregate l' = aggregate l := by
  simp [aggregate, h1, h2]

theorem pub_of_counts {s s' : St} (h : Pub s) (ha : s'.aggr = s.aggr) (hp : s'.picker = s.picker)
    (hl : s'.published = s.published) (h1 : countState s'.scStates .ready = countState s.scStates .ready)
    (h2 : countState s'.scStates .connecting = countState s.scStates .connecting) : Pub s' := by
  constructor
  · rw [ha, aggregate_congr h1 h2]; exact h.aggrOk
  · rw [hl, ha, hp]; exact h.last
  · rw [hl]; exact h.all

/-- the step leaves the evaluator, the aggregate, the picker and the publication log alone -/
def SameA (s s' : St) : Prop :=
  s'.nReady = s.nReady ∧ s'.nConn = s.nConn ∧ s'.aggr = s.aggr ∧ s'.picker = s.picker ∧ s'.published = s.published

theorem SameA.refl (s : St) : SameA s s := ⟨rfl, rfl, rfl, rfl, rfl⟩
theorem SameA.trans {a b c : St} (h1 : SameA a b) (h2 : SameA b c) : SameA a c :=
  ⟨h2.1.trans h1.1, h2.2.1.trans h1.2.1, h2.2.2.1.trans h1.2.2.1, h2.2.2.2.1.trans h1.2.2.2.1, h2.2.2.2.2.trans h1.2.2.2.2⟩

/-- with exact counters before and after, an untouched evaluator means an unchanged aggregate -/
theorem pub_of_sameA {s s' : St} (h : Pub s) (t : Tables s) (t' : Tables s') (e : SameA s s') : Pub s' := by
  obtain ⟨e1, e2, e3, e4, e5⟩ := e
  apply pub_of_counts h e3 e4 e5
  · rw [← t'.cReady, ← t.cReady, e1]
  · rw [← t'.cConn, ← t.cConn, e2]

theorem sameA_modRef (s : St) (slot : Slot) (f : RefSt → RefSt) : SameA s (modRef s slot f) := ⟨rfl, rfl, rfl, rfl, rfl⟩

theorem sameA_ccNew (s : St) : SameA s (ccNewSubConn s).1 := by
  unfold ccNewSubConn; split
  · exact SameA.refl s
  · split <;> exact ⟨rfl, rfl, rfl, rfl, rfl⟩

theorem sameA_addSubConn (s : St) : SameA s (addSubConn s).1 := by
  unfold addSubConn
  have h := sameA_ccNew s
  generalize ccNewSubConn s = r at h ⊢
  obtain ⟨s1, o, ev⟩ := r
  cases o with
  | none => exact h
  | some sc => exact h.trans ⟨rfl, rfl, rfl, rfl, rfl⟩

theorem sameA_newSubConn (s : St) : SameA s (newSubConn s).1 := by
  unfold newSubConn; split
  · exact SameA.refl s
  · exact sameA_addSubConn s

theorem sameA_enforce (s : St) (min fuel : Nat) : SameA s (enforceMinSize s min fuel).1 := by
  induction fuel generalizing s with
  | zero => exact SameA.refl s
  | succ fuel ih =>
    unfold enforceMinSize
    split
    · have h := sameA_addSubConn s
      generalize addSubConn s = r at h ⊢
      obtain ⟨s1, ok, ev⟩ := r
      cases ok with
      | true => simp only; exact h.trans (ih s1)
      | false => exact h
    · exact SameA.refl s

theorem sameA_refresh (s : St) (slot : Slot) : SameA s (refresh s slot).1 := by
  unfold refresh
  cases getRef s slot with
  | none => exact SameA.refl s
  | some r =>
    simp only
    split
    · exact SameA.refl s
    · have h2 := sameA_ccNew (modRef s slot fun r => { r with refreshing := true })
      generalize ccNewSubConn (modRef s slot fun r => { r with refreshing := true }) = rr at h2 ⊢
      obtain ⟨s1, o, ev⟩ := rr
      cases o with
      | none => exact ((sameA_modRef s slot _).trans h2).trans (sameA_modRef s1 slot _)
      | some sc => exact ((sameA_modRef s slot _).trans h2).trans ⟨rfl, rfl, rfl, rfl, rfl⟩

theorem sameA_swap (s : St) (sc : Sc) (slot : Slot) : SameA s (swap s sc slot).1 := by
  unfold swap
  cases getRef s slot with
  | none => exact SameA.refl s
  | some r => exact ⟨rfl, rfl, rfl, rfl, rfl⟩

theorem sameA_updateAll (s : St) (scs : List Sc) : SameA s (updateAll s scs).1 := by
  unfold updateAll
  suffices h : ∀ (acc : St × List Event), SameA s acc.1 →
      SameA s (scs.foldl (fun (acc : St × List Event) sc =>
        ({ acc.1 with scAddrs := insert acc.1.scAddrs sc acc.1.addrs }, acc.2 ++ [.upd sc acc.1.addrs, .connect sc])) acc).1 from
    h (s, []) (SameA.refl s)
  induction scs with
  | nil => intro acc h; exact h
  | cons x xs ih => intro acc h; simp only [List.foldl_cons]; exact ih _ (h.trans ⟨rfl, rfl, rfl, rfl, rfl⟩)

theorem sameA_ccsConfigure (s : St) : SameA s (ccsConfigure s).1 := by
  unfold ccsConfigure
  split
  · exact SameA.refl s
  · exact (show SameA s { s with cfg := some (initialCfg s.cfgIn) } from ⟨rfl, rfl, rfl, rfl, rfl⟩).trans (sameA_enforce _ _ _)

theorem sameA_place (s : St) (call : Nat) (slot : Slot) (cmd : Cmd) (loc : Loc) (key : String) (ctx : CtxKind)
    (dl : Option Int) : SameA s (place s call slot cmd loc key ctx dl).1 := by
  unfold place; cases getRef s slot <;> exact ⟨rfl, rfl, rfl, rfl, rfl⟩

theorem sameA_getReady (s : St) (c : Cfg) (key : String) : SameA s (getReadySubConnRef s c key).1 := by
  unfold getReadySubConnRef
  repeat' split
  all_goals exact ⟨rfl, rfl, rfl, rfl, rfl⟩

theorem sameA_getLeastBusy (s : St) (c : Cfg) (l : List Slot) : SameA s (getLeastBusy s c l).1 := by
  unfold getLeastBusy
  cases leastBusy s l with
  | none => exact SameA.refl s
  | some m =>
    simp only
    split
    · exact SameA.refl s
    · split
      · exact sameA_newSubConn s
      · exact SameA.refl s

theorem sameA_chooseSlot (s : St) (c : Cfg) (l : List Slot) (key : String) : SameA s (chooseSlot s c l key).1 := by
  unfold chooseSlot
  split
  · have h1 := sameA_getReady s c key
    generalize getReadySubConnRef s c key = r at h1 ⊢
    obtain ⟨s1, o, b⟩ := r
    cases b with
    | true => exact h1
    | false => exact h1.trans (sameA_getLeastBusy s1 c l)
  · exact sameA_getLeastBusy s c l

theorem sameA_finishPick (s : St) (r : Option Slot) (ev : List Event) (call : Nat) (cmd : Cmd) (loc : Loc)
    (key : String) (ctx : CtxKind) (dl : Option Int) : SameA s (finishPick s r ev call cmd loc key ctx dl).1 := by
  unfold finishPick
  cases r with
  | none => exact SameA.refl s
  | some slot =>
    simp only
    have := sameA_place s call slot cmd loc key ctx dl
    generalize place s call slot cmd loc key ctx dl = p at this ⊢
    obtain ⟨s1, o⟩ := p
    cases o <;> exact this

theorem sameA_opPick (s : St) (call pn : Nat) (m : String) (ctx : CtxKind) (dl : Option Int) (req : Req) :
    SameA s (opPick s call pn m ctx dl req).1 := by
  unfold opPick
  split
  · exact SameA.refl s
  · cases s.published[pn]? with
    | none => exact SameA.refl s
    | some pub =>
      obtain ⟨st, p⟩ := pub
      cases p with
      | errTF => exact SameA.refl s
      | errNoSc => exact SameA.refl s
      | gcp l =>
        simp only
        cases s.cfg with
        | none => exact SameA.refl s
        | some c =>
          simp only
          split
          · exact SameA.refl s
          · generalize resolveCall c m ctx req = rc
            obtain ⟨cmd, loc, ok⟩ := rc
            cases ok with
            | none => exact SameA.refl s
            | some key =>
              simp only
              split
              · unfold pickRR
                split
                · exact SameA.refl s
                · simp only
                  split
                  · exact (show SameA s { s with rr := (s.rr + 1) % 2 ^ 64 } from ⟨rfl, rfl, rfl, rfl, rfl⟩).trans
                      (sameA_finishPick _ _ _ _ _ _ _ _ _)
                  · exact ⟨rfl, rfl, rfl, rfl, rfl⟩
              · have h1 := sameA_chooseSlot s c l key
                generalize chooseSlot s c l key = r at h1 ⊢
                obtain ⟨s1, o, ev⟩ := r
                exact h1.trans (sameA_finishPick s1 _ _ _ _ _ _ _ _)

theorem sameA_bump (s : St) (sc : Sc) (d : Int) : SameA s (bumpAffinity s sc d) := by
  unfold bumpAffinity; split <;> exact ⟨rfl, rfl, rfl, rfl, rfl⟩

theorem sameA_bind (s : St) (k : String) (sc : Sc) : SameA s (bindSubConn s k sc) := by
  unfold bindSubConn
  refine SameA.trans ?_ (sameA_bump _ sc 1)
  unfold addBinding; split <;> exact ⟨rfl, rfl, rfl, rfl, rfl⟩

theorem sameA_foldl_bind (keys : List String) (sc : Sc) (s : St) :
    SameA s (keys.foldl (fun s k => bindSubConn s k sc) s) := by
  induction keys generalizing s with
  | nil => exact SameA.refl s
  | cons k ks ih => exact (sameA_bind s k sc).trans (ih _)

theorem sameA_applyBindings (s : St) (call : Call) (reply : Msg) : SameA s (applyBindings s call reply) := by
  unfold applyBindings
  cases call.cmd with
  | bound => exact SameA.refl s
  | unbind =>
    simp only
    unfold unbindSubConn
    cases lookup s.affinity call.boundKey with
    | none => exact SameA.refl s
    | some sc => exact (sameA_bump s sc (-1)).trans ⟨rfl, rfl, rfl, rfl, rfl⟩
  | bind =>
    simp only
    split
    · exact SameA.refl s
    · split
      · exact SameA.refl s
      · split
        · exact SameA.refl s
        · exact sameA_foldl_bind _ _ s

theorem sameA_detect (s : St) (c : Cfg) (call : Call) (err : ErrKind) : SameA s (detectUnresponsive s c call err).1 := by
  unfold detectUnresponsive
  split
  · exact SameA.refl s
  · split
    · exact sameA_modRef _ _ _
    · cases getRef s call.slot with
      | none => exact SameA.refl s
      | some r =>
        simp only
        split
        · exact SameA.refl s
        · split
          · exact (sameA_modRef s call.slot (fun r => { r with deCalls := satInc r.deCalls })).trans (sameA_refresh _ _)
          · exact sameA_modRef _ _ _

theorem sameA_opDone (s : St) (callId : Nat) (err : ErrKind) (reply : Msg) : SameA s (opDone s callId err reply).1 := by
  unfold opDone
  cases s.calls.find? (fun c => c.id == callId) with
  | none => exact SameA.refl s
  | some call =>
    simp only
    cases s.cfg with
    | none => exact SameA.refl s
    | some c =>
      simp only
      have h1 : SameA s (completeCall s call) := by unfold completeCall; exact ⟨rfl, rfl, rfl, rfl, rfl⟩
      have h2 := sameA_detect (completeCall s call) c call err
      generalize detectUnresponsive (completeCall s call) c call err = r at h2 ⊢
      obtain ⟨s2, ev⟩ := r
      simp only at h2 ⊢
      split
      · exact h1.trans h2
      · exact (h1.trans h2).trans (sameA_applyBindings s2 call reply)

theorem sameA_opCtxDone (s : St) (callId : Nat) : SameA s (opCtxDone s callId).1 := by
  unfold opCtxDone
  cases s.waiters.find? (fun w => w.id == callId) with
  | none => exact SameA.refl s
  | some w =>
    simp only
    have hp := (show SameA s { s with waiters := s.waiters.filter fun x => x.id != callId } from ⟨rfl, rfl, rfl, rfl, rfl⟩).trans
      (sameA_place _ w.id w.slot .bind w.loc "" w.ctx w.dl)
    unfold placeWaiter
    generalize place { s with waiters := s.waiters.filter fun x => x.id != callId } w.id w.slot .bind w.loc "" w.ctx w.dl = r at hp ⊢
    obtain ⟨s1, o⟩ := r
    cases o <;> exact hp

theorem sameA_wake (s : St) : SameA s (wakeWaiters s).1 := by
  unfold wakeWaiters
  suffices hs : ∀ (ws : List Waiter) (acc : St × List Event), SameA s acc.1 →
      SameA s (ws.foldl (fun (acc : St × List Event) w =>
        if slotReady acc.1 w.slot then
          match placeWaiter { acc.1 with waiters := acc.1.waiters.filter fun x => x.id != w.id } w with
          | (s, some sc) => (s, acc.2 ++ [.woke w.id sc])
          | (_, none) => acc
        else acc) acc).1 from hs s.waiters (s, []) (SameA.refl s)
  intro ws
  induction ws with
  | nil => intro acc h; exact h
  | cons w ws ih =>
    intro acc hacc
    simp only [List.foldl_cons]
    apply ih
    split
    · have hp := (hacc.trans (show SameA acc.1 { acc.1 with waiters := acc.1.waiters.filter fun x => x.id != w.id } from ⟨rfl, rfl, rfl, rfl, rfl⟩)).trans
        (sameA_place _ w.id w.slot .bind w.loc "" w.ctx w.dl)
      unfold placeWaiter
      generalize place { acc.1 with waiters := acc.1.waiters.filter fun x => x.id != w.id } w.id w.slot .bind w.loc "" w.ctx w.dl = r at hp ⊢
      obtain ⟨s1, o⟩ := r
      cases o with
      | none => exact hacc
      | some sc => exact hp
    · exact hacc

theorem sameA_opCcs (s : St) (ver : Nat) : SameA s (opCcs s ver).1 := by
  unfold opCcs
  have h0 : SameA s { s with addrs := ver } := ⟨rfl, rfl, rfl, rfl, rfl⟩
  have h1 := sameA_ccsConfigure { s with addrs := ver }
  generalize ccsConfigure { s with addrs := ver } = r1 at h1 ⊢
  obtain ⟨s1, ev0⟩ := r1
  simp only at h1 ⊢
  have h2 := sameA_updateAll s1 (ccsTargets s1)
  generalize updateAll s1 (ccsTargets s1) = r2 at h2 ⊢
  obtain ⟨s2, ev1⟩ := r2
  simp only at h2 ⊢
  split
  · exact ((h0.trans h1).trans h2).trans (sameA_enforce s2 _ _)
  · exact (h0.trans h1).trans h2

/-! ### the state report: transition, regenerate, publish -/

theorem recordTransition_aggr (s : St) (a b : CState) :
    (recordTransition s a b).aggr =
      if (recordTransition s a b).nReady > 0 then .ready
      else if (recordTransition s a b).nConn > 0 then .connecting else .tf := by
  unfold recordTransition
  rfl

theorem recordTransition_rest (s : St) (a b : CState) :
    (recordTransition s a b).picker = s.picker ∧ (recordTransition s a b).published = s.published := by
  unfold recordTransition updCounter
  cases a <;> cases b <;> exact ⟨rfl, rfl⟩

theorem aggregate_of_counters {s : St} (t : Tables s) :
    aggregate s.scStates = if s.nReady > 0 then .ready else if s.nConn > 0 then .connecting else .tf := by
  simp [aggregate, t.cReady, t.cConn]

theorem recordState_rest (s : St) (sc : Sc) (st : CState) :
    (recordState s sc st).1.aggr = s.aggr ∧ (recordState s sc st).1.picker = s.picker ∧
    (recordState s sc st).1.published = s.published ∧ (recordState s sc st).1.nReady = s.nReady ∧
    (recordState s sc st).1.nConn = s.nConn := by
  unfold recordState
  cases st <;> exact ⟨rfl, rfl, rfl, rfl, rfl⟩

theorem cleanFallback_rest (s : St) (sc : Sc) (a b : CState) :
    (cleanFallback s sc a b).aggr = s.aggr ∧ (cleanFallback s sc a b).picker = s.picker ∧
    (cleanFallback s sc a b).published = s.published ∧ (cleanFallback s sc a b).nReady = s.nReady ∧
    (cleanFallback s sc a b).nConn = s.nConn := by
  unfold cleanFallback
  simp only
  split <;> split <;> exact ⟨rfl, rfl, rfl, rfl, rfl⟩

theorem regenerate_fields (s : St) (o : List Slot) :
    (regeneratePicker s o).aggr = s.aggr ∧ (regeneratePicker s o).scStates = s.scStates ∧
    (regeneratePicker s o).published = s.published ∧
    ((regeneratePicker s o).picker = .errTF ↔ s.aggr = .tf) ∧ (regeneratePicker s o).picker ≠ .errNoSc := by
  unfold regeneratePicker
  by_cases h : s.aggr = .tf
  · simp [h]
  · have : (s.aggr == CState.tf) = false := by simpa using h
    simp [this, h]

theorem pub_report {s1 : St} (h : Pub s1) (t1 : Tables s1) (sc : Sc) (oldS st : CState) (order : List Slot)
    (hold : stateOf s1 sc = some oldS) :
    Pub (maybePublish (recordTransition (cleanFallback (recordState s1 sc st).1 sc oldS st) oldS st) oldS st
          (cleanFallback (recordState s1 sc st).1 sc oldS st).aggr order).1 := by
  have t3 := tables_report t1 sc oldS st hold
  have hrs := recordState_rest s1 sc st
  have hcf := cleanFallback_rest (recordState s1 sc st).1 sc oldS st
  have hrt := recordTransition_rest (cleanFallback (recordState s1 sc st).1 sc oldS st) oldS st
  have hag := recordTransition_aggr (cleanFallback (recordState s1 sc st).1 sc oldS st) oldS st
  have hnr := (recordTransition_fields (cleanFallback (recordState s1 sc st).1 sc oldS st) oldS st).2.2.2.2.1
  have holdAggr : (cleanFallback (recordState s1 sc st).1 sc oldS st).aggr = s1.aggr := hcf.1.trans hrs.1
  have hnr1 : (cleanFallback (recordState s1 sc st).1 sc oldS st).nReady = s1.nReady := hcf.2.2.2.1.trans hrs.2.2.2.1
  rw [holdAggr]
  rw [hnr1] at hnr
  generalize recordTransition (cleanFallback (recordState s1 sc st).1 sc oldS st) oldS st = s3 at t3 hrt hag hnr ⊢
  have hpk : s3.picker = s1.picker := hrt.1.trans (hcf.2.1.trans hrs.2.1)
  have hpl : s3.published = s1.published := hrt.2.trans (hcf.2.2.1.trans hrs.2.2.1)
  have hagg3 : s3.aggr = aggregate s3.scStates := by rw [hag, aggregate_of_counters t3]
  have hnotIdle : s3.aggr ≠ .idle := by
    rw [hag]; split
    · simp
    · split <;> simp
  unfold maybePublish
  by_cases hcond : (((st == .ready) != (oldS == .ready)) || ((s3.aggr == .tf) != (s1.aggr == .tf))) = true
  · simp only [hcond, ↓reduceIte]
    have hr := regenerate_fields s3 order
    constructor
    · right; simp only; rw [hr.1, hr.2.1]; exact hagg3
    · intro q hq
      simp only [List.getLast?_append, List.getLast?_singleton, Option.some_or, Option.some.injEq] at hq
      subst hq
      exact ⟨rfl, rfl, by simp only; rw [hr.1]; exact hnotIdle⟩
    · intro q hq
      simp only [List.mem_append, List.mem_singleton] at hq
      rcases hq with hq | hq
      · rw [hr.2.2.1, hpl] at hq; exact h.all q hq
      · subst hq
        simp only
        rw [hr.1]
        exact ⟨hr.2.2.2.1, hr.2.2.2.2⟩
  · simp only [hcond, Bool.false_eq_true, ↓reduceIte]
    simp only [Bool.or_eq_true, bne_iff_ne, ne_eq, not_or, Decidable.not_not] at hcond
    constructor
    · right; exact hagg3
    · intro q hq
      rw [hpl] at hq
      obtain ⟨hq1, hq2, hq3⟩ := h.last q hq
      -- the aggregate did not move: same READY count, same TF-ness
      have hsame : s3.aggr = s1.aggr := by
        have h1 : s1.aggr = aggregate s1.scStates := by
          rcases h.aggrOk with h' | h'
          · exact absurd h' hq3
          · exact h'
        rw [aggregate_of_counters t1] at h1
        have hready : s3.nReady = s1.nReady := by
          rw [hnr]
          by_cases hs : (st == CState.ready) = true
          · have ho : (oldS == CState.ready) = true := by rw [← hcond.1]; exact hs
            -- oldS = READY: the counter is positive
            have hl : lookup s1.scStates sc = some oldS := hold
            have hE := countState_erase t1.ndS hl .ready
            have hpos : 0 < s1.nReady := by rw [t1.cReady, hE]; simp [ind, ho]
            simp only [hs, ho, ↓reduceIte]
            rw [dec64_pos hpos]; unfold inc64; omega
          · have ho : (oldS == CState.ready) = false := by
              rw [← hcond.1]; simpa using hs
            simp [hs, ho]
        rw [hag, h1, hready]
        by_cases hp : s1.nReady > 0
        · simp [hp]
        · simp only [hp, ↓reduceIte]
          -- neither is READY: both are CONNECTING or TF, and TF-ness agrees
          have htf := hcond.2
          rw [hag, h1, hready] at htf
          simp only [hp, ↓reduceIte] at htf
          by_cases c3 : s3.nConn > 0 <;> by_cases c1 : s1.nConn > 0 <;> simp [c3, c1] at htf ⊢
      exact ⟨hq1.trans hsame.symm, hq2.trans hpk.symm, by rw [hsame]; exact hq3⟩
    · rw [hpl]; exact h.all

theorem pub_opScs {s : St} (h : Pub s) (t : Tables s) (sc : Sc) (st : CState) (order : List Slot) :
    Pub (opScs s sc st order).1 := by
  unfold opScs
  have hpre : ∀ p, scsPrologue s sc st = some p → Pub p.1 ∧ Tables p.1 := by
    intro p hp
    unfold scsPrologue at hp
    cases hl : lookup s.refreshingMap sc with
    | none => simp [hl] at hp; subst hp; exact ⟨h, t⟩
    | some slot =>
      simp only [hl] at hp
      split at hp
      · cases hp
      · cases hp
        have t' := tables_swap t sc slot (lookup_isSome.mp (by rw [hl]; rfl))
        exact ⟨pub_of_sameA h t t' (sameA_swap s sc slot), t'⟩
  cases hp : scsPrologue s sc st with
  | none => exact h
  | some p =>
    obtain ⟨s1, ev0⟩ := p
    obtain ⟨h1, t1⟩ := hpre (s1, ev0) hp
    simp only at h1 t1 ⊢
    cases hst : stateOf s1 sc with
    | none => exact h1
    | some oldS =>
      simp only
      have h2 := pub_report h1 t1 sc oldS st order hst
      generalize recordState s1 sc st = r2 at h2 ⊢
      obtain ⟨s2, ev1⟩ := r2
      simp only at h2 ⊢
      generalize maybePublish _ oldS st _ order = r3 at h2 ⊢
      obtain ⟨s3, ev2⟩ := r3
      exact h2

theorem pub_step {s : St} (h : Pub s) (t : Tables s) (op : Op) : Pub (step s op).1 := by
  have tc : Tables (stepCore s op).1 := by
    cases op with
    | ccs ver => exact tables_opCcs t ver
    | reserr => exact t
    | scs sc st order => exact tables_opScs t sc st order
    | factory n => exact tables_of_same t ⟨rfl, rfl, rfl, rfl, rfl, rfl, rfl⟩
    | adv ns => exact tables_of_same t ⟨rfl, rfl, rfl, rfl, rfl, rfl, rfl⟩
    | pick call pn m ctx dl req => exact tables_opPick t call pn m ctx dl req
    | ctxdone call => exact tables_opCtxDone t call
    | done call err reply => exact tables_opDone t call err reply
    | pickHold call pn m ctx dl req =>
      exact opPickHold_cases _ s call pn m ctx dl req t (fun _ => tables_of_same t ⟨rfl, rfl, rfl, rfl, rfl, rfl, rfl⟩)
        (tables_opPick t call pn m ctx dl req)
    | resume call =>
      exact opResume_cases _ s call t (fun _ => tables_of_same t ⟨rfl, rfl, rfl, rfl, rfl, rfl, rfl⟩)
        (fun _ _ _ _ => tables_newSubConn (tables_of_same t ⟨rfl, rfl, rfl, rfl, rfl, rfl, rfl⟩))
  have h1 : Pub (stepCore s op).1 := by
    cases op with
    | ccs ver => exact pub_of_sameA h t tc (sameA_opCcs s ver)
    | reserr => exact h
    | scs sc st order => exact pub_opScs h t sc st order
    | factory n => exact pub_of_sameA h t tc ⟨rfl, rfl, rfl, rfl, rfl⟩
    | adv ns => exact pub_of_sameA h t tc ⟨rfl, rfl, rfl, rfl, rfl⟩
    | pick call pn m ctx dl req => exact pub_of_sameA h t tc (sameA_opPick s call pn m ctx dl req)
    | ctxdone call => exact pub_of_sameA h t tc (sameA_opCtxDone s call)
    | done call err reply => exact pub_of_sameA h t tc (sameA_opDone s call err reply)
    | pickHold call pn m ctx dl req =>
      refine pub_of_sameA h t tc ?_
      exact opPickHold_cases (SameA s) s call pn m ctx dl req (SameA.refl s) (fun _ => ⟨rfl, rfl, rfl, rfl, rfl⟩)
        (sameA_opPick s call pn m ctx dl req)
    | resume call =>
      refine pub_of_sameA h t tc ?_
      exact opResume_cases (SameA s) s call (SameA.refl s) (fun _ => ⟨rfl, rfl, rfl, rfl, rfl⟩)
        (fun hl _ _ _ => (show SameA s { s with held := hl } from ⟨rfl, rfl, rfl, rfl, rfl⟩).trans (sameA_newSubConn _))
  unfold step
  generalize stepCore s op = r at h1 tc ⊢
  obtain ⟨s1, ev⟩ := r
  have t2 := tables_wake tc
  have h2 := pub_of_sameA h1 tc t2 (sameA_wake s1)
  simp only at h2 ⊢
  generalize wakeWaiters s1 = r2 at h2 ⊢
  obtain ⟨s2, ev2⟩ := r2
  exact h2

theorem pub_init (ci : CfgInput) : Pub (init ci) := by
  constructor
  · left; rfl
  · intro q hq; simp [init] at hq
  · intro q hq; simp [init] at hq

theorem pub_run (ci : CfgInput) (ops : List Op) : Pub (run (init ci) ops) := by
  unfold run
  suffices h : ∀ s, Pub s → Tables s → Pub (ops.foldl (fun s op => (step s op).1) s) from
    h _ (pub_init ci) (tables_init ci)
  induction ops with
  | nil => intro s h _; exact h
  | cons op ops ih => intro s h t; exact ih _ (pub_step h t op) (tables_step t op)

/-! ## C04.2 / C04.3 -/

/-- **C04.2** after every history, what the balancer last told the channel is the pool's aggregate:
    READY when a pool connection is READY, else CONNECTING when one is connecting, else
    TRANSIENT_FAILURE — computed over the connections in the pool and no others — together with the
    picker built for that state -/
theorem published_matches_pool (ci : CfgInput) (ops : List Op) (q : CState × Picker)
    (hq : (run (init ci) ops).published.getLast? = some q) :
    q.1 = aggregate (run (init ci) ops).scStates ∧ q.2 = (run (init ci) ops).picker := by
  have h := pub_run ci ops
  obtain ⟨h1, h2, h3⟩ := h.last q hq
  refine ⟨?_, h2⟩
  rcases h.aggrOk with h' | h'
  · exact absurd h' h3
  · rw [h1, h']

/-- **C04.3** every state ever published carried the error picker exactly when that state was
    TRANSIENT_FAILURE, and never the "no sub-connection" picker -/
theorem err_picker_iff_tf (ci : CfgInput) (ops : List Op) :
    ∀ q ∈ (run (init ci) ops).published, (q.2 = .errTF ↔ q.1 = .tf) ∧ q.2 ≠ .errNoSc :=
  (pub_run ci ops).all

/-- the publication log is not empty in general: the theorems above speak about real histories -/
example : ((run (init .absent) [.ccs 1, .scs 0 .connecting [], .scs 0 .ready [0], .scs 0 .tf []]).published.map (·.1))
    = [.ready, .tf] := by decide +kernel

end GcpVerif.Pool
