/-
C06 — soundness of the lock-order analysis: if the "held while acquiring" relation extracted from
the sources is certified acyclic (`orderCertified`), then no set of goroutines can be blocked in a
cycle, each waiting for a mutex that the next one holds (in particular no goroutine waits for a
mutex it holds itself).  Proved once for every acquisition table, every number of goroutines and
every assignment of mutex instances to the abstract mutex classes of the table.
-/
import GcpVerif.Model.Sync
import GcpVerif.Generated.Accesses
namespace GcpVerif.Sync

/-- a goroutine blocked in `Lock()` / `RLock()` at an acquisition site; mutex *instances* are numbers,
    `cls` maps an instance to the class the extractor knows it by (gb.mu, ref.mu, …) -/
structure Blocked where
  site : Acquisition
  want : Nat
  held : List Nat

/-- the extractor's may-hold set is sound for this goroutine: whatever it really holds is listed -/
def Blocked.Faithful (cls : Nat → String) (b : Blocked) : Prop :=
  cls b.want = b.site.mu ∧ ∀ i ∈ b.held, cls i ∈ b.site.heldBefore

theorem mem_closeStep {es : List (String × String)} {p : String × String} (h : p ∈ es) : p ∈ closeStep es := by
  unfold closeStep
  rw [List.mem_eraseDups]
  exact List.mem_append_left _ h

theorem mem_closure6 {l : List Acquisition} {p : String × String} (h : p ∈ orderEdges l) : p ∈ closure6 l := by
  unfold closure6
  exact mem_closeStep (mem_closeStep (mem_closeStep (mem_closeStep (mem_closeStep (mem_closeStep h)))))

theorem edge_mem {l : List Acquisition} {a : Acquisition} (ha : a ∈ l) {h : String} (hh : h ∈ a.heldBefore) :
    (h, a.mu) ∈ orderEdges l := by
  unfold orderEdges
  rw [List.mem_eraseDups]
  exact List.mem_flatMap.mpr ⟨a, ha, List.mem_map.mpr ⟨h, hh, rfl⟩⟩

theorem trans_of_closed {es : List (String × String)} (h : transClosed es = true) {a b c : String}
    (h1 : (a, b) ∈ es) (h2 : (b, c) ∈ es) : (a, c) ∈ es := by
  simp only [transClosed, List.all_eq_true, Bool.or_eq_true, Bool.not_eq_true', List.contains_iff_mem] at h
  rcases h (a, b) h1 (b, c) h2 with h' | h'
  · simp at h'
  · exact h'

/-- **C06 (soundness)** with a certified acquisition order there is no cyclic wait: no goroutines
    `w 0, …, w n = w 0` (n ≥ 1) such that each is blocked at a site of the table, waiting for a mutex
    instance held by the next one.  `n = 1` is the self-deadlock on a non-reentrant mutex. -/
theorem no_wait_cycle (l : List Acquisition) (hcert : orderCertified l = true) (cls : Nat → String)
    (w : Nat → Blocked) (n : Nat) (hn : 0 < n) (hper : w n = w 0)
    (hsite : ∀ i, (w i).site ∈ l) (hf : ∀ i, (w i).Faithful cls)
    (hwait : ∀ i, (w i).want ∈ (w (i + 1)).held) : False := by
  simp only [orderCertified, Bool.and_eq_true, List.all_eq_true] at hcert
  obtain ⟨htr, hirr⟩ := hcert
  have hedge : ∀ i, ((w i).site.mu, (w (i + 1)).site.mu) ∈ closure6 l := by
    intro i
    have h1 := (hf (i + 1)).2 _ (hwait i)
    rw [(hf i).1] at h1
    exact mem_closure6 (edge_mem (hsite (i + 1)) h1)
  have hpath : ∀ k, ((w 0).site.mu, (w (k + 1)).site.mu) ∈ closure6 l := by
    intro k
    induction k with
    | zero => exact hedge 0
    | succ k ih => exact trans_of_closed htr ih (hedge (k + 1))
  have hloop := hpath (n - 1)
  rw [Nat.sub_add_cancel hn, hper] at hloop
  have := hirr _ hloop
  simp at this

/-- **C06 (per run)** the acquisition table of the current sources is certified -/
theorem c06_order_certified : orderCertified GcpVerif.Generated.acquisitions = true := by decide +kernel

/-- the certificate is not vacuous: the current table has real "held while acquiring" edges -/
theorem c06_edges_present : (orderEdges GcpVerif.Generated.acquisitions).length ≥ 3 := by decide +kernel

/-- … and a table with a cycle (or a self-acquisition) is rejected -/
example : orderCertified [{ fn := "f", pos := "p", mu := "a", heldBefore := ["b"] },
                          { fn := "g", pos := "q", mu := "b", heldBefore := ["a"] }] = false := by decide +kernel
example : orderCertified [{ fn := "f", pos := "p", mu := "a", heldBefore := ["a"] }] = false := by decide +kernel

end GcpVerif.Sync
