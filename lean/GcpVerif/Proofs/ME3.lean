/-
Timer bookkeeping of the MultiEndpoint model (M6 of DESIGN Appendix A.1), for C14.4 (a report of
availability cancels the recovery window) and C14.7 (convergence once all timers have fired).

`TInv`: timer ids are unique and fresh; every endpoint object owns at most its own timer id; a
recovering endpoint of the list has its own live recovery timer (so the window really ends), and
an endpoint that is not recovering has no live timer of its own.
-/
import GcpVerif.Proofs.ME2
namespace GcpVerif.ME

def U (s : St) : List Ep := s.eps ++ s.orphans

/-- `ex`: the id of an endpoint whose timer has just been taken away and whose status is about to
    change (inside one operation); `none` for the invariant between operations -/
structure TInv (s : St) (ex : Option String) : Prop where
  tidLt : ∀ t ∈ s.timers, t.tid < s.nextTid
  tidInj : ∀ t ∈ s.timers, ∀ t' ∈ s.timers, t.tid = t'.tid → t = t'
  ownLt : ∀ x ∈ U s, ∀ tid, x.timer = some tid → tid < s.nextTid
  own : ∀ x ∈ U s, ∀ y ∈ U s, ∀ tid, x.timer = some tid → y.timer = some tid → x.obj = y.obj
  objLt : ∀ x ∈ U s, x.obj < s.nextObj
  objId : ∀ a ∈ s.eps, ∀ b ∈ s.eps, a.obj = b.obj → a.id = b.id
  objDisj : ∀ a ∈ s.eps, ∀ b ∈ s.orphans, a.obj ≠ b.obj
  recov : ∀ x ∈ s.eps, x.status = .recovering → some x.id ≠ ex →
    ∃ t ∈ s.timers, x.timer = some t.tid ∧ t.stopped = false ∧ t.kind = .recovery x.obj x.id x.lastChange
  quiet : ∀ x ∈ s.eps, x.status ≠ .recovering → ∀ t ∈ s.timers, x.timer = some t.tid → t.stopped = true
  tidNd : (s.timers.map (·.tid)).Nodup

/-! ### list lemmas -/

theorem mem_updId {l : List Ep} {id : String} {f : Ep → Ep} {y : Ep} :
    y ∈ updId l id f ↔ ∃ x ∈ l, y = if x.id == id then f x else x := by
  unfold updId
  simp only [List.mem_map]
  constructor
  · rintro ⟨x, hx, rfl⟩; exact ⟨x, hx, rfl⟩
  · rintro ⟨x, hx, rfl⟩; exact ⟨x, hx, rfl⟩

theorem mem_updObj {l : List Ep} {obj : Nat} {f : Ep → Ep} {y : Ep} :
    y ∈ updObj l obj f ↔ ∃ x ∈ l, y = if x.obj == obj then f x else x := by
  unfold updObj
  simp only [List.mem_map]
  constructor
  · rintro ⟨x, hx, rfl⟩; exact ⟨x, hx, rfl⟩
  · rintro ⟨x, hx, rfl⟩; exact ⟨x, hx, rfl⟩

theorem mem_stopTimer {now : Int} {ts : List Timer} {tid : Nat} {t' : Timer} :
    t' ∈ stopTimer now ts tid ↔
      ∃ t ∈ ts, (t.tid = tid ∧ t.due ≤ now ∧ t' = { t with stopped := true }) ∨ (t.tid ≠ tid ∧ t' = t) := by
  unfold stopTimer
  simp only [List.mem_filterMap]
  constructor
  · rintro ⟨t, ht, h⟩
    refine ⟨t, ht, ?_⟩
    by_cases h1 : t.tid = tid
    · have hb : (t.tid == tid) = true := by simpa using h1
      simp only [hb, ↓reduceIte] at h
      split at h
      · rename_i hd
        left; exact ⟨h1, hd, (Option.some.inj h).symm⟩
      · cases h
    · have : (t.tid == tid) = false := by simpa using h1
      simp only [this, Bool.false_eq_true, ↓reduceIte, Option.some.injEq] at h
      right; exact ⟨h1, h.symm⟩
  · rintro ⟨t, ht, h | h⟩
    · refine ⟨t, ht, ?_⟩
      simp [h.1, h.2.1, h.2.2]
    · refine ⟨t, ht, ?_⟩
      have : (t.tid == tid) = false := by simpa using h.1
      simp [this, h.2]

/-- what `stopOpt` does, element-wise: every timer keeps its id, kind and due time; only timers
    with the stopped id can disappear or become `stopped` -/
theorem mem_stopOpt {now : Int} {ts : List Timer} {o : Option Nat} {t' : Timer} (h : t' ∈ stopOpt now ts o) :
    ∃ t ∈ ts, t'.tid = t.tid ∧ t'.kind = t.kind ∧ t'.due = t.due ∧
      ((t' = t ∧ o ≠ some t.tid) ∨ (o = some t.tid ∧ t'.stopped = true)) := by
  cases o with
  | none => exact ⟨t', h, rfl, rfl, rfl, Or.inl ⟨rfl, by simp⟩⟩
  | some tid =>
    obtain ⟨t, ht, h1 | h1⟩ := mem_stopTimer.mp h
    · refine ⟨t, ht, ?_, ?_, ?_, Or.inr ⟨by rw [h1.1], ?_⟩⟩ <;> simp [h1.2.2]
    · refine ⟨t, ht, ?_, ?_, ?_, Or.inl ⟨h1.2, ?_⟩⟩
      · rw [h1.2]
      · rw [h1.2]
      · rw [h1.2]
      · intro heq; exact h1.1 (Option.some.inj heq).symm

/-- a timer with another id survives `stopOpt` unchanged -/
theorem stopOpt_keeps {now : Int} {ts : List Timer} {o : Option Nat} {t : Timer} (ht : t ∈ ts)
    (hne : o ≠ some t.tid) : t ∈ stopOpt now ts o := by
  cases o with
  | none => exact ht
  | some tid =>
    apply mem_stopTimer.mpr
    exact ⟨t, ht, Or.inr ⟨fun h => hne (by rw [h]), rfl⟩⟩

theorem sublist_filterMap_map {α β : Type} (g : α → Option α) (f : α → β) (hg : ∀ a b, g a = some b → f b = f a) (l : List α) :
    List.Sublist ((l.filterMap g).map f) (l.map f) := by
  induction l with
  | nil => exact List.Sublist.slnil
  | cons hd tl ih =>
    simp only [List.filterMap_cons, List.map_cons]
    cases h : g hd with
    | none => exact List.Sublist.cons _ ih
    | some b =>
      simp only [List.map_cons]
      rw [hg hd b h]
      exact List.Sublist.cons₂ _ ih

theorem nd_stop {now : Int} {ts : List Timer} {o : Option Nat} (h : (ts.map (·.tid)).Nodup) :
    ((stopOpt now ts o).map (·.tid)).Nodup := by
  cases o with
  | none => exact h
  | some tid =>
    apply List.Nodup.sublist _ h
    apply sublist_filterMap_map
    intro a b hab
    split at hab
    · split at hab
      · cases hab; rfl
      · cases hab
    · cases hab; rfl

theorem nd_append {ts : List Timer} {n : Nat} (h : (ts.map (·.tid)).Nodup) (hlt : ∀ t ∈ ts, t.tid < n) (t' : Timer)
    (ht' : t'.tid = n) : ((ts ++ [t']).map (·.tid)).Nodup := by
  rw [List.map_append, List.nodup_append]
  refine ⟨h, by simp, ?_⟩
  intro a ha b hb
  simp only [List.map_cons, List.map_nil, List.mem_singleton] at hb
  obtain ⟨t, ht, rfl⟩ := List.mem_map.mp ha
  have := hlt t ht
  rw [hb, ht']
  exact Nat.ne_of_lt this

theorem nd_remove {ts : List Timer} (h : (ts.map (·.tid)).Nodup) (tid : Nat) :
    ((removeTimer ts tid).map (·.tid)).Nodup := by
  apply List.Nodup.sublist _ h
  exact List.Sublist.map _ List.filter_sublist

theorem Timer.ext' {a b : Timer} (h1 : a.tid = b.tid) (h2 : a.due = b.due) (h3 : a.kind = b.kind)
    (h4 : a.stopped = b.stopped) : a = b := by
  cases a; cases b; simp_all

theorem tinv_weaken {s : St} {ex : Option String} (h : TInv s none) : TInv s ex :=
  { h with recov := fun x hx hr _ => h.recov x hx hr (by simp) }

/-- only `timers`, `nextTid`, `eps`, `orphans`, `nextObj` matter -/
theorem tinv_congr {s s' : St} {ex : Option String} (h : TInv s ex) (h1 : s'.timers = s.timers)
    (h2 : s'.nextTid = s.nextTid) (h3 : s'.eps = s.eps) (h4 : s'.orphans = s.orphans) (h5 : s'.nextObj = s.nextObj) :
    TInv s' ex := by
  have hU : U s' = U s := by unfold U; rw [h3, h4]
  constructor
  · rw [h1, h2]; exact h.tidLt
  · rw [h1]; exact h.tidInj
  · rw [hU, h2]; exact h.ownLt
  · rw [hU]; exact h.own
  · rw [hU, h5]; exact h.objLt
  · rw [h3]; exact h.objId
  · rw [h3, h4]; exact h.objDisj
  · rw [h3, h1]; exact h.recov
  · rw [h3, h1]; exact h.quiet
  · rw [h1]; exact h.tidNd

/-! ### setState on an endpoint of the list -/

/-- the table part of `setStateEp` / `scheduleUnavailable`: entries keep id, object, timer unless
    they are the touched one -/
theorem stop_tidInj {now : Int} {ts : List Timer} {o : Option Nat}
    (hinj : ∀ t ∈ ts, ∀ t' ∈ ts, t.tid = t'.tid → t = t') :
    ∀ a ∈ stopOpt now ts o, ∀ b ∈ stopOpt now ts o, a.tid = b.tid → a = b := by
  intro a ha b hb hab
  obtain ⟨ta, hta, a1, a2, a3, a4⟩ := mem_stopOpt ha
  obtain ⟨tb, htb, b1, b2, b3, b4⟩ := mem_stopOpt hb
  have : ta = tb := hinj ta hta tb htb (by rw [← a1, ← b1]; exact hab)
  subst this
  rcases a4 with ⟨ea, hna⟩ | ⟨hoa, hsa⟩
  · rcases b4 with ⟨eb, _⟩ | ⟨hob, _⟩
    · rw [ea, eb]
    · exact absurd hob hna
  · rcases b4 with ⟨_, hnb⟩ | ⟨_, hsb⟩
    · exact absurd hoa hnb
    · exact Timer.ext' (a1.trans b1.symm) (a3.trans b3.symm) (a2.trans b2.symm) (hsa.trans hsb.symm)

/-- `setStateEp s e st` for a status other than `recovering` -/
theorem tinv_setStateEp {s : St} {ex : Option String} (h : TInv s ex)
    (hid : ∀ a ∈ s.eps, ∀ b ∈ s.eps, a.id = b.id → a = b) {e : Ep} (he : e ∈ s.eps)
    (hex : ∀ id, ex = some id → id = e.id) {st : Status} (hst : st ≠ .recovering) :
    TInv (setStateEp s e st) none := by
  have hmemU : ∀ y ∈ U (setStateEp s e st), ∃ x ∈ U s, y.obj = x.obj ∧ y.timer = x.timer ∧ y.id = x.id := by
    intro y hy
    simp only [U, setStateEp, List.mem_append] at hy
    rcases hy with hy | hy
    · obtain ⟨x, hx, rfl⟩ := mem_updId.mp hy
      refine ⟨x, List.mem_append.mpr (Or.inl hx), ?_⟩
      split <;> simp [touch]
    · exact ⟨y, List.mem_append.mpr (Or.inr hy), rfl, rfl, rfl⟩
  have hmemE : ∀ y ∈ (setStateEp s e st).eps, ∃ x ∈ s.eps, y = if x.id == e.id then touch st s.now x else x := by
    intro y hy; exact mem_updId.mp hy
  constructor
  · intro t' ht'
    obtain ⟨t, ht, h1, -⟩ := mem_stopOpt ht'
    rw [h1]; exact h.tidLt t ht
  · exact stop_tidInj h.tidInj
  · intro y hy tid hty
    obtain ⟨x, hx, _, e2, _⟩ := hmemU y hy
    exact h.ownLt x hx tid (by rw [← e2]; exact hty)
  · intro y hy z hz tid h1 h2
    obtain ⟨x, hx, e1, e2, _⟩ := hmemU y hy
    obtain ⟨w, hw, f1, f2, _⟩ := hmemU z hz
    rw [e1, f1]
    exact h.own x hx w hw tid (by rw [← e2]; exact h1) (by rw [← f2]; exact h2)
  · intro y hy
    obtain ⟨x, hx, e1, _, _⟩ := hmemU y hy
    rw [e1]; exact h.objLt x hx
  · intro a ha b hb hab
    obtain ⟨x, hx, rfl⟩ := hmemE a ha
    obtain ⟨w, hw, rfl⟩ := hmemE b hb
    have e1 : ∀ z : Ep, (if z.id == e.id then touch st s.now z else z).obj = z.obj ∧
        (if z.id == e.id then touch st s.now z else z).id = z.id := by
      intro z; split <;> simp [touch]
    rw [(e1 x).2, (e1 w).2]
    rw [(e1 x).1, (e1 w).1] at hab
    exact h.objId x hx w hw hab
  · intro a ha b hb
    obtain ⟨x, hx, rfl⟩ := hmemE a ha
    have e1 : (if x.id == e.id then touch st s.now x else x).obj = x.obj := by split <;> simp [touch]
    rw [e1]
    exact h.objDisj x hx b hb
  · -- recovering endpoints other than `e` keep their live timer
    intro y hy hrec _
    obtain ⟨x, hx, rfl⟩ := hmemE y hy
    by_cases hxe : (x.id == e.id) = true
    · simp only [hxe, ↓reduceIte, touch] at hrec
      exact absurd hrec hst
    · have hxe' : x.id ≠ e.id := by simpa using hxe
      simp only [hxe, Bool.false_eq_true, ↓reduceIte] at hrec ⊢
      have hne : some x.id ≠ ex := by
        intro heq
        exact hxe' (hex x.id heq.symm)
      obtain ⟨t, ht, h1, h2, h3⟩ := h.recov x hx hrec hne
      refine ⟨t, ?_, h1, h2, h3⟩
      apply stopOpt_keeps ht
      intro heq
      -- `e` would own the same timer as `x`: same object, hence same id
      have := h.own e (List.mem_append.mpr (Or.inl he)) x (List.mem_append.mpr (Or.inl hx)) t.tid heq h1
      exact hxe' (h.objId e he x hx this).symm
  · intro y hy hnr t' ht' hty
    obtain ⟨x, hx, rfl⟩ := hmemE y hy
    obtain ⟨t, ht, h1, _, _, h4⟩ := mem_stopOpt ht'
    rcases h4 with ⟨heq, hne⟩ | ⟨_, hs⟩
    · by_cases hxe : (x.id == e.id) = true
      · have hxe' : x.id = e.id := by simpa using hxe
        have : x = e := hid x hx e he hxe'
        simp only [hxe, ↓reduceIte, touch] at hty
        rw [this, h1] at hty
        exact absurd hty hne
      · simp only [hxe, Bool.false_eq_true, ↓reduceIte] at hty hnr
        rw [heq]
        exact h.quiet x hx hnr t ht (by rw [← h1]; exact hty)
    · exact hs
  · exact nd_stop h.tidNd

/-! ### entering the recovery window: setState(recovering) + scheduleUnavailable -/

def enterRecovery (s : St) (e : Ep) : St :=
  scheduleUnavailable (setStateEp s e .recovering) e (some (setStateEp s e .recovering).now)

theorem enterRecovery_fields (s : St) (e : Ep) :
    (enterRecovery s e).timers = stopOpt s.now s.timers e.timer ++
      [{ tid := s.nextTid, due := s.now + s.r, kind := .recovery e.obj e.id (some s.now), stopped := false }] ∧
    (enterRecovery s e).nextTid = s.nextTid + 1 ∧
    (enterRecovery s e).eps = updId (updId s.eps e.id (touch .recovering s.now)) e.id (fun x => { x with timer := some s.nextTid }) ∧
    (enterRecovery s e).orphans = s.orphans ∧ (enterRecovery s e).nextObj = s.nextObj := by
  simp [enterRecovery, scheduleUnavailable, setStateEp, addTimer]

theorem tinv_enterRecovery {s : St} (h : TInv s none)
    (hid : ∀ a ∈ s.eps, ∀ b ∈ s.eps, a.id = b.id → a = b) {e : Ep} (he : e ∈ s.eps) :
    TInv (enterRecovery s e) none := by
  obtain ⟨f1, f2, f3, f4, f5⟩ := enterRecovery_fields s e
  -- the new table, element-wise
  have hmemE : ∀ y ∈ (enterRecovery s e).eps, ∃ x ∈ s.eps,
      y = if x.id == e.id then { touch .recovering s.now x with timer := some s.nextTid } else x := by
    intro y hy
    rw [f3] at hy
    obtain ⟨x1, hx1, rfl⟩ := mem_updId.mp hy
    obtain ⟨x, hx, rfl⟩ := mem_updId.mp hx1
    refine ⟨x, hx, ?_⟩
    by_cases hxe : (x.id == e.id) = true
    · simp [hxe, touch]
    · simp [hxe]
  have hmemU : ∀ y ∈ U (enterRecovery s e), ∃ x ∈ U s, y.obj = x.obj ∧ y.id = x.id ∧
      ((y.timer = x.timer ∧ (y ∈ s.orphans ∨ x.id ≠ e.id)) ∨ (y.timer = some s.nextTid ∧ x ∈ s.eps ∧ x.id = e.id)) := by
    intro y hy
    simp only [U, List.mem_append, f4] at hy
    rcases hy with hy | hy
    · obtain ⟨x, hx, rfl⟩ := hmemE y hy
      refine ⟨x, List.mem_append.mpr (Or.inl hx), ?_⟩
      by_cases hxe : (x.id == e.id) = true
      · rw [if_pos hxe]
        exact ⟨rfl, rfl, Or.inr ⟨rfl, hx, by simpa using hxe⟩⟩
      · rw [if_neg hxe]
        exact ⟨rfl, rfl, Or.inl ⟨rfl, Or.inr (by simpa using hxe)⟩⟩
    · exact ⟨y, List.mem_append.mpr (Or.inr hy), rfl, rfl, Or.inl ⟨rfl, Or.inl hy⟩⟩
  have hnew : ∀ t' ∈ (enterRecovery s e).timers,
      (t' ∈ stopOpt s.now s.timers e.timer) ∨
      t' = { tid := s.nextTid, due := s.now + s.r, kind := .recovery e.obj e.id (some s.now), stopped := false } := by
    intro t' ht'
    rw [f1] at ht'
    rcases List.mem_append.mp ht' with h1 | h1
    · exact Or.inl h1
    · exact Or.inr (by simpa using h1)
  constructor
  · intro t' ht'
    rw [f2]
    rcases hnew t' ht' with h1 | h1
    · obtain ⟨t, ht, e1, -⟩ := mem_stopOpt h1
      rw [e1]; exact Nat.lt_succ_of_lt (h.tidLt t ht)
    · rw [h1]; exact Nat.lt_succ_self _
  · intro a ha b hb hab
    rcases hnew a ha with h1 | h1 <;> rcases hnew b hb with h2 | h2
    · exact stop_tidInj h.tidInj a h1 b h2 hab
    · obtain ⟨t, ht, e1, -⟩ := mem_stopOpt h1
      have := h.tidLt t ht
      rw [h2, e1] at hab; simp only at hab
      exact absurd hab (Nat.ne_of_lt this)
    · obtain ⟨t, ht, e1, -⟩ := mem_stopOpt h2
      have := h.tidLt t ht
      rw [h1, e1] at hab; simp only at hab
      exact absurd hab.symm (Nat.ne_of_lt this)
    · rw [h1, h2]
  · intro y hy tid hty
    rw [f2]
    obtain ⟨x, hx, _, _, hc | hc⟩ := hmemU y hy
    · exact Nat.lt_succ_of_lt (h.ownLt x hx tid (by rw [← hc.1]; exact hty))
    · rw [hc.1] at hty; cases hty; exact Nat.lt_succ_self _
  · intro y hy z hz tid h1 h2
    obtain ⟨x, hx, e1, _, hc | hc⟩ := hmemU y hy <;> obtain ⟨w, hw, g1, _, hd | hd⟩ := hmemU z hz
    · rw [e1, g1]
      exact h.own x hx w hw tid (by rw [← hc.1]; exact h1) (by rw [← hd.1]; exact h2)
    · -- z carries the fresh id, y an old one
      rw [hd.1] at h2; cases h2
      have := h.ownLt x hx s.nextTid (by rw [← hc.1]; exact h1)
      exact absurd this (Nat.lt_irrefl _)
    · rw [hc.1] at h1; cases h1
      have := h.ownLt w hw s.nextTid (by rw [← hd.1]; exact h2)
      exact absurd this (Nat.lt_irrefl _)
    · -- both are the touched endpoint
      rw [e1, g1, hid x hc.2.1 w hd.2.1 (hc.2.2.trans hd.2.2.symm)]
  · intro y hy
    rw [f5]
    obtain ⟨x, hx, e1, _, _⟩ := hmemU y hy
    rw [e1]; exact h.objLt x hx
  · intro a ha b hb hab
    obtain ⟨x, hx, rfl⟩ := hmemE a ha
    obtain ⟨w, hw, rfl⟩ := hmemE b hb
    have e1 : ∀ z : Ep, (if z.id == e.id then { touch .recovering s.now z with timer := some s.nextTid } else z).obj = z.obj ∧
        (if z.id == e.id then { touch .recovering s.now z with timer := some s.nextTid } else z).id = z.id := by
      intro z; split <;> simp [touch]
    rw [(e1 x).2, (e1 w).2]
    rw [(e1 x).1, (e1 w).1] at hab
    exact h.objId x hx w hw hab
  · intro a ha b hb
    rw [f4] at hb
    obtain ⟨x, hx, rfl⟩ := hmemE a ha
    have e1 : (if x.id == e.id then { touch .recovering s.now x with timer := some s.nextTid } else x).obj = x.obj := by
      split <;> simp [touch]
    rw [e1]
    exact h.objDisj x hx b hb
  · intro y hy hrec _
    obtain ⟨x, hx, rfl⟩ := hmemE y hy
    by_cases hxe : (x.id == e.id) = true
    · -- the touched endpoint owns the new timer
      have hxe' : x.id = e.id := by simpa using hxe
      have hx_e : x = e := hid x hx e he hxe'
      refine ⟨{ tid := s.nextTid, due := s.now + s.r, kind := .recovery e.obj e.id (some s.now), stopped := false }, ?_, ?_, rfl, ?_⟩
      · rw [f1]; exact List.mem_append.mpr (Or.inr (by simp))
      · simp [hxe]
      · simp [hxe, touch, hx_e]
    · have hxe' : x.id ≠ e.id := by simpa using hxe
      simp only [hxe, Bool.false_eq_true, ↓reduceIte] at hrec ⊢
      obtain ⟨t, ht, h1, h2, h3⟩ := h.recov x hx hrec (by simp)
      refine ⟨t, ?_, h1, h2, h3⟩
      rw [f1]
      apply List.mem_append.mpr; left
      apply stopOpt_keeps ht
      intro heq
      have := h.own e (List.mem_append.mpr (Or.inl he)) x (List.mem_append.mpr (Or.inl hx)) t.tid heq h1
      exact hxe' (h.objId e he x hx this).symm
  · intro y hy hnr t' ht' hty
    obtain ⟨x, hx, rfl⟩ := hmemE y hy
    by_cases hxe : (x.id == e.id) = true
    · simp only [hxe, ↓reduceIte, touch] at hnr
      exact absurd rfl hnr
    · simp only [hxe, Bool.false_eq_true, ↓reduceIte] at hty hnr
      rcases hnew t' ht' with h1 | h1
      · obtain ⟨t, ht, e1, _, _, h4⟩ := mem_stopOpt h1
        rcases h4 with ⟨heq, _⟩ | ⟨_, hs⟩
        · rw [heq]; exact h.quiet x hx hnr t ht (by rw [← e1]; exact hty)
        · exact hs
      · -- an old endpoint cannot own the fresh id
        rw [h1] at hty; simp only at hty
        have := h.ownLt x (List.mem_append.mpr (Or.inl hx)) s.nextTid hty
        exact absurd this (Nat.lt_irrefl _)
  · rw [f1]; exact nd_append (nd_stop h.tidNd) (fun t' ht' => by obtain ⟨t, ht, e1, -⟩ := mem_stopOpt ht'; rw [e1]; exact h.tidLt t ht) _ rfl

/-! ### SetEndpointAvailability, maybeUpdateCurrent -/

theorem tinv_sea {s : St} (h : TInv s none) (hb : Base s) (id : String) (a : Bool) :
    TInv (setEndpointAvailability s id a) none := by
  unfold setEndpointAvailability
  cases hf : findEp s.eps id with
  | none => exact h
  | some ee =>
    have hee := (findEp_some hf).1
    simp only
    split
    · exact tinv_setStateEp h hb.idInj hee (by intro _ hx; cases hx) (by simp)
    · split
      · exact h
      · split
        · exact tinv_setStateEp h hb.idInj hee (by intro _ hx; cases hx) (by simp)
        · exact tinv_enterRecovery h hb.idInj hee

/-- adding a delayed-switch timer -/
theorem tinv_addSwitch {s : St} (h : TInv s none) (dl : Int) : TInv (addTimer s dl .switch) none := by
  have hnew : ∀ t' ∈ (addTimer s dl .switch).timers, t' ∈ s.timers ∨
      t' = { tid := s.nextTid, due := s.now + dl, kind := .switch, stopped := false } := by
    intro t' ht'
    simp only [addTimer] at ht'
    rcases List.mem_append.mp ht' with h1 | h1
    · exact Or.inl h1
    · exact Or.inr (by simpa using h1)
  constructor
  · intro t' ht'
    show t'.tid < s.nextTid + 1
    rcases hnew t' ht' with h1 | h1
    · exact Nat.lt_succ_of_lt (h.tidLt t' h1)
    · rw [h1]; exact Nat.lt_succ_self _
  · intro a ha b hb hab
    rcases hnew a ha with h1 | h1 <;> rcases hnew b hb with h2 | h2
    · exact h.tidInj a h1 b h2 hab
    · have := h.tidLt a h1; rw [h2] at hab; simp only at hab; exact absurd hab (Nat.ne_of_lt this)
    · have := h.tidLt b h2; rw [h1] at hab; simp only at hab; exact absurd hab.symm (Nat.ne_of_lt this)
    · rw [h1, h2]
  · intro x hx tid hx'
    exact Nat.lt_succ_of_lt (h.ownLt x hx tid hx')
  · exact h.own
  · exact h.objLt
  · exact h.objId
  · exact h.objDisj
  · intro x hx hrec hne
    obtain ⟨t, ht, h1, h2, h3⟩ := h.recov x hx hrec hne
    exact ⟨t, by simp only [addTimer]; exact List.mem_append.mpr (Or.inl ht), h1, h2, h3⟩
  · intro x hx hnr t' ht' hty
    rcases hnew t' ht' with h1 | h1
    · exact h.quiet x hx hnr t' h1 hty
    · rw [h1] at hty; simp only at hty
      have := h.ownLt x (List.mem_append.mpr (Or.inl hx)) s.nextTid hty
      exact absurd this (Nat.lt_irrefl _)
  · exact nd_append h.tidNd h.tidLt _ rfl

theorem tinv_muc {s : St} (h : TInv s none) : TInv (maybeUpdateCurrent s) none := by
  rw [muc_eq]
  have hsw : ∀ f t, TInv (switchFromTo s f t) none := by
    intro f t
    unfold switchFromTo
    split
    · exact h
    · split
      · exact tinv_congr h rfl rfl rfl rfl rfl
      · exact tinv_addSwitch (s := { s with future := t.id }) (tinv_congr h rfl rfl rfl rfl rfl) s.d
  cases findEp s.eps s.current with
  | none =>
    cases topAvail s.eps with
    | none =>
      simp only
      cases topOf s.eps with
      | none => exact h
      | some t => exact tinv_congr h rfl rfl rfl rfl rfl
    | some t => exact hsw none t
  | some c =>
    cases topAvail s.eps with
    | none => exact h
    | some t =>
      simp only
      split
      · exact h
      · exact hsw (some c) t

/-! ### timers firing -/

theorem tinv_remove {s : St} (h : TInv s none) (tid : Nat) (ex : Option String)
    (hno : ∀ x ∈ s.eps, x.status = .recovering → x.timer = some tid → some x.id = ex) :
    TInv { s with timers := removeTimer s.timers tid } ex := by
  have hsub : ∀ t ∈ removeTimer s.timers tid, t ∈ s.timers := fun t ht => (List.mem_filter.mp ht).1
  constructor
  · intro t ht; exact h.tidLt t (hsub t ht)
  · intro a ha b hb; exact h.tidInj a (hsub a ha) b (hsub b hb)
  · exact h.ownLt
  · exact h.own
  · exact h.objLt
  · exact h.objId
  · exact h.objDisj
  · intro x hx hrec hne
    obtain ⟨t, ht, h1, h2, h3⟩ := h.recov x hx hrec (by simp)
    refine ⟨t, ?_, h1, h2, h3⟩
    apply List.mem_filter.mpr
    refine ⟨ht, ?_⟩
    simp only [bne_iff_ne, ne_eq]
    intro heq
    exact hne (hno x hx hrec (by rw [h1, heq]))
  · intro x hx hnr t ht hty
    exact h.quiet x hx hnr t (hsub t ht) hty
  · exact nd_remove h.tidNd tid

theorem tinv_setStateOrphan {s : St} (h : TInv s none) {o : Ep} (ho : o ∈ s.orphans) (st : Status) :
    TInv (setStateOrphan s o st) none := by
  have hmemU : ∀ y ∈ U (setStateOrphan s o st), ∃ x ∈ U s, y.obj = x.obj ∧ y.timer = x.timer := by
    intro y hy
    simp only [U, setStateOrphan, List.mem_append] at hy
    rcases hy with hy | hy
    · exact ⟨y, List.mem_append.mpr (Or.inl hy), rfl, rfl⟩
    · obtain ⟨x, hx, rfl⟩ := mem_updObj.mp hy
      refine ⟨x, List.mem_append.mpr (Or.inr hx), ?_⟩
      split <;> simp [touch]
  constructor
  · intro t' ht'
    obtain ⟨t, ht, h1, -⟩ := mem_stopOpt ht'
    rw [h1]; exact h.tidLt t ht
  · exact stop_tidInj h.tidInj
  · intro y hy tid hty
    obtain ⟨x, hx, _, e2⟩ := hmemU y hy
    exact h.ownLt x hx tid (by rw [← e2]; exact hty)
  · intro y hy z hz tid h1 h2
    obtain ⟨x, hx, e1, e2⟩ := hmemU y hy
    obtain ⟨w, hw, f1, f2⟩ := hmemU z hz
    rw [e1, f1]
    exact h.own x hx w hw tid (by rw [← e2]; exact h1) (by rw [← f2]; exact h2)
  · intro y hy
    obtain ⟨x, hx, e1, _⟩ := hmemU y hy
    rw [e1]; exact h.objLt x hx
  · exact h.objId
  · intro a ha b hb
    obtain ⟨x, hx, rfl⟩ := mem_updObj.mp hb
    have e1 : (if x.obj == o.obj then touch st s.now x else x).obj = x.obj := by split <;> simp [touch]
    rw [e1]
    exact h.objDisj a ha x hx
  · intro x hx hrec _
    obtain ⟨t, ht, h1, h2, h3⟩ := h.recov x hx hrec (by simp)
    refine ⟨t, ?_, h1, h2, h3⟩
    apply stopOpt_keeps ht
    intro heq
    have := h.own o (List.mem_append.mpr (Or.inr ho)) x (List.mem_append.mpr (Or.inl hx)) t.tid heq h1
    exact h.objDisj x hx o ho this.symm
  · intro x hx hnr t' ht' hty
    obtain ⟨t, ht, h1, _, _, h4⟩ := mem_stopOpt ht'
    rcases h4 with ⟨heq, _⟩ | ⟨_, hs⟩
    · rw [heq]; exact h.quiet x hx hnr t ht (by rw [← h1]; exact hty)
    · exact hs
  · exact nd_stop h.tidNd

theorem tinv_fireSwitch {s : St} (h : TInv s none) : TInv (fireSwitch s) none := by
  rcases fireSwitch_cases s with hid | ⟨e, _, _, hsw, _⟩
  · rw [hid]; exact h
  · rw [hsw]; exact tinv_congr h rfl rfl rfl rfl rfl

theorem tinv_opFire {s : St} (h : TInv s none) (hb : Base s) (tid : Nat) : TInv (opFire s tid).1 none := by
  unfold opFire
  cases hfind : s.timers.find? (fun t => t.tid == tid) with
  | none => exact h
  | some t =>
    have htm : t ∈ s.timers := List.mem_of_find?_eq_some hfind
    have htid : t.tid = tid := by simpa using List.find?_some hfind
    simp only
    split
    · exact h
    · -- whoever is recovering on this timer is the endpoint the closure captured
      have howner : ∀ x ∈ s.eps, x.status = .recovering → x.timer = some tid →
          t.kind = .recovery x.obj x.id x.lastChange := by
        intro x hx hrec hxt
        obtain ⟨tx, htx, h1, _, h3⟩ := h.recov x hx hrec (by simp)
        have : tx = t := h.tidInj tx htx t htm (by rw [htid]; rw [hxt] at h1; exact (Option.some.inj h1).symm)
        rw [← this]; exact h3
      cases hk : t.kind with
      | switch =>
        simp only
        apply tinv_fireSwitch
        apply tinv_remove h tid none
        intro x hx hrec hxt
        have := howner x hx hrec hxt
        rw [hk] at this; cases this
      | recovery obj id stamp =>
        simp only
        have hb0 : Base { s with timers := removeTimer s.timers tid } := ⟨hb.rnn, hb.dnn, hb.nonempty, hb.idInj, hb.prioInj⟩
        unfold fireRecovery
        simp only
        cases hfe : findEp s.eps id with
        | none =>
          -- the captured object is not in the list: nobody in the list recovers on this timer
          have h0 : TInv { s with timers := removeTimer s.timers tid } none := by
            apply tinv_remove h tid none
            intro x hx hrec hxt
            have hkx := howner x hx hrec hxt
            rw [hk] at hkx
            simp only [TimerKind.recovery.injEq] at hkx
            have := findEp_none.mp hfe x hx
            exact absurd hkx.2.1.symm this
          simp only
          cases hfo : s.orphans.find? (fun e => e.obj == obj) with
          | none => exact h0
          | some o =>
            simp only
            split
            · exact h0
            · exact tinv_muc (tinv_setStateOrphan h0 (List.mem_of_find?_eq_some hfo) _)
        | some e =>
          have hem := findEp_some hfe
          simp only
          by_cases hobj : (e.obj == obj) = true
          · simp only [hobj, ↓reduceIte]
            split
            · -- outdated: the endpoint changed after the timer was armed, so it recovers on another timer
              rename_i hlc
              apply tinv_remove h tid none
              intro x hx hrec hxt
              have hkx := howner x hx hrec hxt
              rw [hk] at hkx
              simp only [TimerKind.recovery.injEq] at hkx
              have hxe : x = e := hb.idInj x hx e hem.1 (by rw [← hkx.2.1, hem.2])
              rw [hxe] at hkx
              simp only [bne_iff_ne, ne_eq] at hlc
              exact absurd hkx.2.2.symm hlc
            · apply tinv_muc
              refine tinv_setStateEp (s := { s with timers := removeTimer s.timers tid }) (ex := some id) ?_ hb.idInj hem.1
                (by intro i hi; cases hi; exact hem.2.symm) (by simp)
              apply tinv_remove h tid (some id)
              intro x hx hrec hxt
              have hkx := howner x hx hrec hxt
              rw [hk] at hkx
              simp only [TimerKind.recovery.injEq] at hkx
              rw [hkx.2.1]
          · simp only [hobj, Bool.false_eq_true, ↓reduceIte]
            have h0 : TInv { s with timers := removeTimer s.timers tid } none := by
              apply tinv_remove h tid none
              intro x hx hrec hxt
              have hkx := howner x hx hrec hxt
              rw [hk] at hkx
              simp only [TimerKind.recovery.injEq] at hkx
              have hxe : x = e := hb.idInj x hx e hem.1 (by rw [← hkx.2.1, hem.2])
              rw [hxe] at hkx
              exact absurd (by simp [hkx.1]) hobj
            cases hfo : s.orphans.find? (fun e => e.obj == obj) with
            | none => exact h0
            | some o =>
              simp only
              split
              · exact h0
              · exact tinv_muc (tinv_setStateOrphan h0 (List.mem_of_find?_eq_some hfo) _)

/-! ### SetEndpoints -/

/-- entries selected by an id-determined predicate leave the list (their objects stay captured by
    their timers) -/
theorem tinv_moveOut {s : St} (h : TInv s none) (p : Ep → Bool) (hp : ∀ a b : Ep, a.id = b.id → p a = p b) :
    TInv { s with eps := s.eps.filter (fun e => !p e), orphans := s.orphans ++ s.eps.filter p } none := by
  have hU : ∀ x, x ∈ U { s with eps := s.eps.filter (fun e => !p e), orphans := s.orphans ++ s.eps.filter p } → x ∈ U s := by
    intro x hx
    simp only [U, List.mem_append, List.mem_filter] at hx ⊢
    rcases hx with hx | hx | hx
    · exact Or.inl hx.1
    · exact Or.inr hx
    · exact Or.inl hx.1
  constructor
  · exact h.tidLt
  · exact h.tidInj
  · intro x hx; exact h.ownLt x (hU x hx)
  · intro x hx y hy; exact h.own x (hU x hx) y (hU y hy)
  · intro x hx; exact h.objLt x (hU x hx)
  · intro a ha b hb
    exact h.objId a (List.mem_filter.mp ha).1 b (List.mem_filter.mp hb).1
  · intro a ha b hb
    have ha' := List.mem_filter.mp ha
    rcases List.mem_append.mp hb with hb | hb
    · exact h.objDisj a ha'.1 b hb
    · have hb' := List.mem_filter.mp hb
      intro hab
      have := hp a b (h.objId a ha'.1 b hb'.1 hab)
      have h1 : p a = false := by simpa using ha'.2
      rw [this, hb'.2] at h1; cases h1
  · intro x hx hrec hne
    exact h.recov x (List.mem_filter.mp hx).1 hrec hne
  · intro x hx hnr
    exact h.quiet x (List.mem_filter.mp hx).1 hnr
  · exact h.tidNd

/-- a new endpoint object (with its recovery timer when r > 0) is added to the list -/
theorem tinv_newEndpoint {s : St} (h : TInv s none) (id : String) (prio : Nat) :
    TInv { (newEndpoint s id prio).1 with eps := (newEndpoint s id prio).1.eps ++ [(newEndpoint s id prio).2] } none := by
  unfold newEndpoint
  by_cases hr : s.r > 0
  · simp only [hr, ↓reduceIte, addTimer]
    have hnew : ∀ t' ∈ s.timers ++ [({ tid := s.nextTid, due := s.now + s.r, kind := .recovery s.nextObj id none, stopped := false } : Timer)],
        t' ∈ s.timers ∨ t' = { tid := s.nextTid, due := s.now + s.r, kind := .recovery s.nextObj id none, stopped := false } := by
      intro t' ht'
      rcases List.mem_append.mp ht' with h1 | h1
      · exact Or.inl h1
      · exact Or.inr (by simpa using h1)
    have hUm : ∀ x ∈ (s.eps ++ [({ id := id, obj := s.nextObj, prio := prio, status := .recovering, lastChange := none, timer := some s.nextTid } : Ep)]) ++ s.orphans,
        x ∈ U s ∨ x = { id := id, obj := s.nextObj, prio := prio, status := .recovering, lastChange := none, timer := some s.nextTid } := by
      intro x hx
      simp only [U, List.mem_append, List.mem_singleton] at hx ⊢
      rcases hx with (hx | hx) | hx
      · exact Or.inl (Or.inl hx)
      · exact Or.inr hx
      · exact Or.inl (Or.inr hx)
    constructor
    · intro t' ht'
      show t'.tid < s.nextTid + 1
      rcases hnew t' ht' with h1 | h1
      · exact Nat.lt_succ_of_lt (h.tidLt t' h1)
      · rw [h1]; exact Nat.lt_succ_self _
    · intro a ha b hb hab
      rcases hnew a ha with h1 | h1 <;> rcases hnew b hb with h2 | h2
      · exact h.tidInj a h1 b h2 hab
      · have := h.tidLt a h1; rw [h2] at hab; simp only at hab; exact absurd hab (Nat.ne_of_lt this)
      · have := h.tidLt b h2; rw [h1] at hab; simp only at hab; exact absurd hab.symm (Nat.ne_of_lt this)
      · rw [h1, h2]
    · intro x hx tid hxt
      show tid < s.nextTid + 1
      rcases hUm x hx with h1 | h1
      · exact Nat.lt_succ_of_lt (h.ownLt x h1 tid hxt)
      · rw [h1] at hxt; simp only [Option.some.injEq] at hxt; rw [← hxt]; exact Nat.lt_succ_self _
    · intro x hx y hy tid h1 h2
      rcases hUm x hx with hx1 | hx1 <;> rcases hUm y hy with hy1 | hy1
      · exact h.own x hx1 y hy1 tid h1 h2
      · rw [hy1] at h2; simp only [Option.some.injEq] at h2
        have := h.ownLt x hx1 tid h1; rw [← h2] at this; exact absurd this (Nat.lt_irrefl _)
      · rw [hx1] at h1; simp only [Option.some.injEq] at h1
        have := h.ownLt y hy1 tid h2; rw [← h1] at this; exact absurd this (Nat.lt_irrefl _)
      · rw [hx1, hy1]
    · intro x hx
      show x.obj < s.nextObj + 1
      rcases hUm x hx with h1 | h1
      · exact Nat.lt_succ_of_lt (h.objLt x h1)
      · rw [h1]; exact Nat.lt_succ_self _
    · intro a ha b hb hab
      simp only [List.mem_append, List.mem_singleton] at ha hb
      rcases ha with ha | ha <;> rcases hb with hb | hb
      · exact h.objId a ha b hb hab
      · have := h.objLt a (List.mem_append.mpr (Or.inl ha)); rw [hb] at hab; simp only at hab; rw [hab] at this
        exact absurd this (Nat.lt_irrefl _)
      · have := h.objLt b (List.mem_append.mpr (Or.inl hb)); rw [ha] at hab; simp only at hab; rw [← hab] at this
        exact absurd this (Nat.lt_irrefl _)
      · rw [ha, hb]
    · intro a ha b hb
      simp only [List.mem_append, List.mem_singleton] at ha
      rcases ha with ha | ha
      · exact h.objDisj a ha b hb
      · have := h.objLt b (List.mem_append.mpr (Or.inr hb))
        rw [ha]; simp only
        exact fun heq => absurd (heq ▸ this) (Nat.lt_irrefl _)
    · intro x hx hrec _
      simp only [List.mem_append, List.mem_singleton] at hx
      rcases hx with hx | hx
      · obtain ⟨t, ht, h1, h2, h3⟩ := h.recov x hx hrec (by simp)
        exact ⟨t, List.mem_append.mpr (Or.inl ht), h1, h2, h3⟩
      · refine ⟨{ tid := s.nextTid, due := s.now + s.r, kind := .recovery s.nextObj id none, stopped := false },
          List.mem_append.mpr (Or.inr (by simp)), ?_, rfl, ?_⟩
        · rw [hx]
        · rw [hx]
    · intro x hx hnr t' ht' hty
      simp only [List.mem_append, List.mem_singleton] at hx
      rcases hx with hx | hx
      · rcases hnew t' ht' with h1 | h1
        · exact h.quiet x hx hnr t' h1 hty
        · rw [h1] at hty; simp only at hty
          have := h.ownLt x (List.mem_append.mpr (Or.inl hx)) s.nextTid hty
          exact absurd this (Nat.lt_irrefl _)
      · rw [hx] at hnr; exact absurd rfl hnr
    · exact nd_append h.tidNd h.tidLt _ rfl
  · simp only [hr, ↓reduceIte]
    have hUm : ∀ x ∈ (s.eps ++ [({ id := id, obj := s.nextObj, prio := prio, status := .unavailable, lastChange := none, timer := none } : Ep)]) ++ s.orphans,
        x ∈ U s ∨ x = { id := id, obj := s.nextObj, prio := prio, status := .unavailable, lastChange := none, timer := none } := by
      intro x hx
      simp only [U, List.mem_append, List.mem_singleton] at hx ⊢
      rcases hx with (hx | hx) | hx
      · exact Or.inl (Or.inl hx)
      · exact Or.inr hx
      · exact Or.inl (Or.inr hx)
    constructor
    · exact h.tidLt
    · exact h.tidInj
    · intro x hx tid hxt
      rcases hUm x hx with h1 | h1
      · exact h.ownLt x h1 tid hxt
      · rw [h1] at hxt; cases hxt
    · intro x hx y hy tid h1 h2
      rcases hUm x hx with hx1 | hx1 <;> rcases hUm y hy with hy1 | hy1
      · exact h.own x hx1 y hy1 tid h1 h2
      · rw [hy1] at h2; cases h2
      · rw [hx1] at h1; cases h1
      · rw [hx1, hy1]
    · intro x hx
      show x.obj < s.nextObj + 1
      rcases hUm x hx with h1 | h1
      · exact Nat.lt_succ_of_lt (h.objLt x h1)
      · rw [h1]; exact Nat.lt_succ_self _
    · intro a ha b hb hab
      simp only [List.mem_append, List.mem_singleton] at ha hb
      rcases ha with ha | ha <;> rcases hb with hb | hb
      · exact h.objId a ha b hb hab
      · have := h.objLt a (List.mem_append.mpr (Or.inl ha)); rw [hb] at hab; simp only at hab; rw [hab] at this
        exact absurd this (Nat.lt_irrefl _)
      · have := h.objLt b (List.mem_append.mpr (Or.inl hb)); rw [ha] at hab; simp only at hab; rw [← hab] at this
        exact absurd this (Nat.lt_irrefl _)
      · rw [ha, hb]
    · intro a ha b hb
      simp only [List.mem_append, List.mem_singleton] at ha
      rcases ha with ha | ha
      · exact h.objDisj a ha b hb
      · have := h.objLt b (List.mem_append.mpr (Or.inr hb))
        rw [ha]; simp only
        exact fun heq => absurd (heq ▸ this) (Nat.lt_irrefl _)
    · intro x hx hrec _
      simp only [List.mem_append, List.mem_singleton] at hx
      rcases hx with hx | hx
      · exact h.recov x hx hrec (by simp)
      · rw [hx] at hrec; cases hrec
    · intro x hx hnr t' ht' hty
      simp only [List.mem_append, List.mem_singleton] at hx
      rcases hx with hx | hx
      · exact h.quiet x hx hnr t' ht' hty
      · rw [hx] at hty; cases hty
    · exact h.tidNd

/-- a priority update touches nothing the invariant reads -/
theorem tinv_prio {s : St} (h : TInv s none) (id : String) (i : Nat) :
    TInv { s with eps := s.eps.map fun e => if e.id == id then { e with prio := i } else e } none := by
  have hmemE : ∀ y ∈ (s.eps.map fun e => if e.id == id then { e with prio := i } else e), ∃ x ∈ s.eps,
      y.obj = x.obj ∧ y.timer = x.timer ∧ y.id = x.id ∧ y.status = x.status ∧ y.lastChange = x.lastChange := by
    intro y hy
    obtain ⟨x, hx, rfl⟩ := List.mem_map.mp hy
    refine ⟨x, hx, ?_⟩
    split <;> simp
  have hmemU : ∀ y ∈ U { s with eps := s.eps.map fun e => if e.id == id then { e with prio := i } else e },
      ∃ x ∈ U s, y.obj = x.obj ∧ y.timer = x.timer := by
    intro y hy
    simp only [U, List.mem_append] at hy
    rcases hy with hy | hy
    · obtain ⟨x, hx, e1, e2, _⟩ := hmemE y hy
      exact ⟨x, List.mem_append.mpr (Or.inl hx), e1, e2⟩
    · exact ⟨y, List.mem_append.mpr (Or.inr hy), rfl, rfl⟩
  constructor
  · exact h.tidLt
  · exact h.tidInj
  · intro y hy tid hty
    obtain ⟨x, hx, _, e2⟩ := hmemU y hy
    exact h.ownLt x hx tid (by rw [← e2]; exact hty)
  · intro y hy z hz tid h1 h2
    obtain ⟨x, hx, e1, e2⟩ := hmemU y hy
    obtain ⟨w, hw, f1, f2⟩ := hmemU z hz
    rw [e1, f1]
    exact h.own x hx w hw tid (by rw [← e2]; exact h1) (by rw [← f2]; exact h2)
  · intro y hy
    obtain ⟨x, hx, e1, _⟩ := hmemU y hy
    rw [e1]; exact h.objLt x hx
  · intro a ha b hb hab
    obtain ⟨x, hx, e1, _, e3, _⟩ := hmemE a ha
    obtain ⟨w, hw, f1, _, f3, _⟩ := hmemE b hb
    rw [e3, f3]; rw [e1, f1] at hab
    exact h.objId x hx w hw hab
  · intro a ha b hb
    obtain ⟨x, hx, e1, _⟩ := hmemE a ha
    rw [e1]; exact h.objDisj x hx b hb
  · intro y hy hrec _
    obtain ⟨x, hx, e1, e2, e3, e4, e5⟩ := hmemE y hy
    obtain ⟨t, ht, h1, h2, h3⟩ := h.recov x hx (by rw [← e4]; exact hrec) (by simp)
    exact ⟨t, ht, by rw [e2]; exact h1, h2, by rw [e1, e3, e5]; exact h3⟩
  · intro y hy hnr t ht hty
    obtain ⟨x, hx, _, e2, _, e4, _⟩ := hmemE y hy
    exact h.quiet x hx (by rw [← e4]; exact hnr) t ht (by rw [← e2]; exact hty)
  · exact h.tidNd

theorem tinv_addOrUpdate (l : List String) : ∀ (s : St) (i : Nat), TInv s none → TInv (addOrUpdate s l i) none := by
  induction l with
  | nil => intro s i h; exact h
  | cons id rest ih =>
    intro s i h
    rw [addOrUpdate_cons]
    split
    · exact ih _ _ (tinv_newEndpoint h id i)
    · exact ih _ _ (tinv_prio h id i)

theorem tinv_opSetEndpoints {s : St} (h : TInv s none) (l : List String) : TInv (opSetEndpoints s l).1 none := by
  unfold opSetEndpoints
  split
  · exact h
  · apply tinv_muc
    apply tinv_addOrUpdate
    have := tinv_moveOut h (fun e => !l.contains e.id) (by intro a b hab; simp [hab])
    unfold dropObsolete
    simpa using this

/-! ### construction and every operation -/

theorem initLoop_step_eq (s : St) (x : String) (i : Nat) :
    ({ (newEndpoint s x i).1 with
        eps := ((newEndpoint s x i).1.eps.filter fun y => y.id != x) ++ [(newEndpoint s x i).2],
        orphans := (newEndpoint s x i).1.orphans ++ ((newEndpoint s x i).1.eps.filter fun y => y.id == x) } : St) =
    { (newEndpoint { s with eps := s.eps.filter (fun e => !(e.id == x)), orphans := s.orphans ++ s.eps.filter (fun e => e.id == x) } x i).1 with
        eps := (newEndpoint { s with eps := s.eps.filter (fun e => !(e.id == x)), orphans := s.orphans ++ s.eps.filter (fun e => e.id == x) } x i).1.eps ++
          [(newEndpoint { s with eps := s.eps.filter (fun e => !(e.id == x)), orphans := s.orphans ++ s.eps.filter (fun e => e.id == x) } x i).2] } := by
  unfold newEndpoint
  by_cases hr : s.r > 0
  · simp only [hr, ↓reduceIte, addTimer]
    congr 1
  · simp only [hr, ↓reduceIte]
    congr 1

theorem tinv_initLoop (l : List String) : ∀ (s : St) (i : Nat), TInv s none → TInv (initLoop s l i) none := by
  induction l with
  | nil => intro s i h; simpa [initLoop] using h
  | cons x xs ih =>
    intro s i h
    rw [initLoop_cons, initLoop_step_eq]
    apply ih
    apply tinv_newEndpoint
    exact tinv_moveOut h (fun e => e.id == x) (by intro a b hab; simp [hab])

theorem tinv_init {r d : Int} {l : List String} {s : St} (h : initRaw r d l = some s) : TInv s none := by
  cases l with
  | nil => simp [initRaw] at h
  | cons first rest =>
    simp only [initRaw, Option.some.injEq] at h
    subst h
    apply tinv_initLoop
    constructor <;> simp [U]

theorem tinv_step {s : St} (h : TInv s none) (hi : Inv s) (op : Op) : TInv (stepRaw s op).1 none := by
  cases op with
  | setAvail e a => exact tinv_muc (tinv_sea h hi.toBase e a)
  | setEndpoints l => exact tinv_opSetEndpoints h l
  | advance dt => exact tinv_congr h rfl rfl rfl rfl rfl
  | fire tid => exact tinv_opFire h hi.toBase tid

theorem reach_tinv {s : St} (h : Reach s) : TInv s none := by
  induction h with
  | initRaw _ _ hi => exact tinv_init hi
  | stepRaw op hr ih => exact tinv_step ih (reach_inv hr) op

end GcpVerif.ME
