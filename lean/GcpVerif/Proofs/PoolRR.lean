/-
C09: round-robin fairness.  While the pool composition is unchanged, the j-th BIND pick is assigned
slot `rrSlot j n` (Spec/Pool.lean; the correspondence check ties this formula to the code on every
run, monitor `rr_assign`).  Here: any window of n·k consecutive BIND picks puts exactly k on each of
the n slots, as long as the cursor does not wrap inside the window.  The cursor is 64 bits wide since
F32 (per-run fact `Ties.rr_cursor_width`), so the hypothesis `m + n·k ≤ 2^64` excludes no execution
that can exist (2^64 BIND picks: 584 years at one per nanosecond); with the 32-bit cursor the code had
before, the wrap came after 2^32 picks — about 50 days at 1000 session creations per second — and
broke the cycle for every n that is not a power of two (was K1; witness of the arithmetic below).
-/
import GcpVerif.Spec.Pool
import GcpVerif.Model.Pool
namespace GcpVerif.Pool

theorem countP_eq_range (n i : Nat) : (List.range n).countP (fun j => j == i) = if i < n then 1 else 0 := by
  induction n with
  | zero => simp
  | succ n ih =>
    rw [List.range_succ, List.countP_append, ih]
    by_cases h1 : i < n
    · have : ¬ n = i := by omega
      simp [h1, this]; omega
    · by_cases h2 : n = i
      · subst h2; simp
      · have : ¬ i < n + 1 := by omega
        simp [h1, h2, this]

theorem countP_shift (P : Nat → Bool) (n : Nat) :
    (List.range n).countP (fun j => P (j + 1)) + (if P 0 then 1 else 0) =
    (List.range n).countP P + (if P n then 1 else 0) := by
  have h1 : (List.range (n + 1)).countP P = (List.range n).countP P + (if P n then 1 else 0) := by
    rw [List.range_succ, List.countP_append]; simp [List.countP_cons]
  have h2 : (List.range (n + 1)).countP P = (if P 0 then 1 else 0) + (List.range n).countP (fun j => P (j + 1)) := by
    rw [List.range_succ_eq_map, List.countP_cons, List.countP_map]
    have : (P ∘ Nat.succ) = fun j => P (j + 1) := rfl
    rw [this]; omega
  omega

/-- n consecutive cursor values hit every slot exactly once -/
theorem window_hits_once (n a i : Nat) (hi : i < n) :
    (List.range n).countP (fun j => (a + j) % n == i) = 1 := by
  induction a with
  | zero =>
    have : (List.range n).countP (fun j => (0 + j) % n == i) = (List.range n).countP (fun j => j == i) := by
      apply List.countP_congr
      intro x hx
      have hx' : x < n := List.mem_range.mp hx
      simp [Nat.mod_eq_of_lt hx']
    rw [this, countP_eq_range]; simp [hi]
  | succ a ih =>
    have hs := countP_shift (fun j => (a + j) % n == i) n
    have he : (List.range n).countP (fun j => (a + 1 + j) % n == i) = (List.range n).countP (fun j => (a + (j + 1)) % n == i) := by
      apply List.countP_congr
      intro x _
      have : a + 1 + x = a + (x + 1) := by omega
      simp [this]
    rw [he]
    simp only [Nat.add_zero, Nat.add_mod_right] at hs
    omega

/-- n·k consecutive cursor values hit every slot exactly k times -/
theorem rr_fair_nowrap (n k a i : Nat) (hi : i < n) :
    (List.range (n * k)).countP (fun j => (a + j) % n == i) = k := by
  induction k with
  | zero => simp
  | succ k ih =>
    have : n * (k + 1) = n * k + n := by rw [Nat.mul_succ]
    rw [this, List.range_add, List.countP_append, ih, List.countP_map]
    have he : (List.range n).countP ((fun j => (a + j) % n == i) ∘ fun x => n * k + x) =
        (List.range n).countP (fun j => (a + n * k + j) % n == i) := by
      apply List.countP_congr
      intro x _
      simp [Function.comp, Nat.add_assoc]
    rw [he, window_hits_once n (a + n * k) i hi]

/-- the cursor starts at 2^64-1, so within the first 2^64 BIND picks the j-th one gets slot (j-1) mod n -/
theorem rrSlot_early (j n : Nat) (h1 : 1 ≤ j) (h2 : j ≤ 2 ^ 64) : rrSlot j n = (j - 1) % n := by
  unfold rrSlot
  have : (2 ^ 64 - 1 + j) % 2 ^ 64 = j - 1 := by omega
  rw [this]

/-- **C09** any n·k consecutive BIND picks over an unchanged n-slot pool (picks m+1 … m+n·k, all
    within the first 2^64 picks) put exactly k on each slot, independent of load -/
theorem rr_fair (n k m i : Nat) (hi : i < n) (hw : m + n * k ≤ 2 ^ 64) :
    (List.range (n * k)).countP (fun t => rrSlot (m + 1 + t) n == i) = k := by
  have he : (List.range (n * k)).countP (fun t => rrSlot (m + 1 + t) n == i) =
      (List.range (n * k)).countP (fun t => (m + t) % n == i) := by
    apply List.countP_congr
    intro x hx
    have hx' : x < n * k := List.mem_range.mp hx
    rw [rrSlot_early (m + 1 + x) n (by omega) (by omega)]
    have : m + 1 + x - 1 = m + x := by omega
    rw [this]
  rw [he, rr_fair_nowrap n k m i hi]

/-- the cursor after j round-robin BIND picks -/
def cursorAfter : Nat → Nat
  | 0 => 2 ^ 64 - 1
  | j + 1 => (cursorAfter j + 1) % 2 ^ 64

theorem rr_cursor (j : Nat) : cursorAfter j = (2 ^ 64 - 1 + j) % 2 ^ 64 := by
  induction j with
  | zero => rfl
  | succ j ih =>
    unfold cursorAfter
    rw [ih]
    omega

/-- a round-robin BIND pick advances the cursor by one and is assigned (placed on, or made to wait
    for) slot `cursor mod n`; with `rr_cursor` the j-th such pick gets `rrSlot j n` -/
theorem pickRR_assigns (s : St) (call : Nat) (loc : Loc) (ctx : CtxKind) (dl : Option Int) (hne : s.refs ≠ []) :
    (pickRR s call loc ctx dl).1.rr = (s.rr + 1) % 2 ^ 64 ∧
    ((∃ w, (pickRR s call loc ctx dl).1.waiters = s.waiters ++ [w] ∧ w.slot = (s.rr + 1) % 2 ^ 64 % s.refs.length ∧ w.id = call) ∨
     (∃ c, (pickRR s call loc ctx dl).1.calls = s.calls ++ [c] ∧ c.slot = (s.rr + 1) % 2 ^ 64 % s.refs.length ∧ c.id = call)) := by
  unfold pickRR
  have he : s.refs.isEmpty = false := by cases hr : s.refs with | nil => exact absurd hr hne | cons _ _ => rfl
  simp only [he, Bool.false_eq_true, ↓reduceIte]
  split
  · rename_i hready
    -- the slot is ready, hence exists: the call is placed there
    have hok : ∃ r, getRef { s with rr := (s.rr + 1) % 2 ^ 64 } ((s.rr + 1) % 2 ^ 64 % s.refs.length) = some r := by
      unfold slotReady at hready
      cases hg : getRef { s with rr := (s.rr + 1) % 2 ^ 64 } ((s.rr + 1) % 2 ^ 64 % s.refs.length) with
      | none => rw [hg] at hready; cases hready
      | some r => exact ⟨r, rfl⟩
    obtain ⟨r, hr⟩ := hok
    unfold finishPick place
    simp only [hr]
    exact ⟨rfl, Or.inr ⟨_, rfl, rfl, rfl⟩⟩
  · exact ⟨rfl, Or.inl ⟨_, rfl, rfl, rfl⟩⟩

/-- the arithmetic of a wrap (not reachable: it takes 2^64 BIND picks; with the 32-bit cursor before F32
    it took 2^32): when the cursor wraps and n does not divide the modulus, two consecutive picks land
    on the same slot -/
theorem rr_unfair_at_wrap : rrSlot (2 ^ 64) 3 = 0 ∧ rrSlot (2 ^ 64 + 1) 3 = 0 ∧ rrSlot (2 ^ 64 - 1) 3 = 2 := by
  decide

/-- non-vacuity: 3 slots, picks 5 … 10 (two rounds): slot 1 is hit twice -/
example : (List.range (3 * 2)).countP (fun t => rrSlot (4 + 1 + t) 3 == 1) = 2 := by decide

end GcpVerif.Pool
